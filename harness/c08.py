"""C08 harness: recordings and inputs land on the right row, compartment and time step.

Spec predicates evaluated on the IMPLEMENTATION (random cells / networks with channels and 1-3 interleaved synapse types):
  rows      : integrate returns one row per recording in call order; each row equals the trajectory of exactly the requested
              compartment / synapse state, obtained independently by stepping with build_init_and_step_fn and reading the full state
              (synaptic states through an independently computed rank-within-type)
  columns   : column 0 = initial state, column k = state after k steps
  timing    : an impulse in sample k is invisible in columns <= k and visible in column k+1
  additivity: two stimuli on one compartment == one stimulus with the sum; stimulus of I nA changes total charge by I·dt whatever
              the geometry
  clamps    : clamped voltages / gates / synaptic states equal their clamp samples in every column >= 1
  t_max     : stimuli are zero-padded, all inputs truncated, a too-short clamp is refused with NotImplementedError
  data_*    : data_stimulate / data_clamp == stimulate / clamp
  step_current : equals Model.Step.stepCurrent (driver) for random delays/durations
"""
import math, os
import numpy as np
from common import *
from simlib import *
from jaxley.integrate import build_init_and_step_fn
from simmodel import check_simulates_tables


def full_trajectory(mod, sig_row, sig, dt, backend):
    """all states at every step by manual stepping (independent of integrate's recording gather)"""
    mod.to_jax()
    init_fn, step_fn = build_init_and_step_fn(mod, voltage_solver=backend)
    st, params = init_fn([], None, None, dt)
    traj = [{k: np.asarray(v, dtype=np.float64) for k, v in st.items()}]
    rows = [sig_row] if np.ndim(sig_row) == 0 else list(sig_row)
    sig = np.asarray(sig, dtype=np.float64).reshape(len(rows), -1)
    js = jax.jit(lambda s, x: step_fn(s, params, {"i": x}, {"i": jnp.asarray(rows)}, dt))
    for k in range(sig.shape[1]):
        st = js(st, jnp.asarray(sig[:, k]))
        traj.append({kk: np.asarray(v, dtype=np.float64) for kk, v in st.items()})
    return traj


def run(args):
    R = Result("C08")
    R.export_distinct = True
    if args.shard < 0:
        return run_sharded(os.path.abspath(__file__), args, 8 if args.tier == "quick" else 16, "C08")
    rng = np.random.default_rng([args.seed, args.shard, 8])
    drv = LeanDriver()
    R.rule = ("random cells / networks (channels, 1-3 interleaved synapse types), random interleavings of record calls over compartment "
              "states, channel states, membrane currents, synaptic states and currents; random stimulus lengths vs t_max; impulse "
              "positions; clamp targets. distinct = (module description, recordings); non-trivial = >= 3 recordings incl. a non-voltage state")
    nm = {"quick": 1, "thorough": 5}[args.tier] * (2 if args.mode == "search" else 1)
    for t in range(nm):
        kind = "net" if (args.shard + t) % 4 != 3 else "cell"
        backend = BACKENDS[(args.shard + t) % 3]
        if kind == "net":
            mod, desc = random_network(rng, syn_types=list(rng.choice(["IonotropicSynapse", "TestSynapse", "TanhRateSynapse"], size=int(rng.integers(2, 4)), replace=False)), nsyn=int(rng.integers(3, 7)))
        else:
            mod, desc = random_cell(rng)
        desc["kind"] = kind
        n = mod.nodes.shape[0]
        dt = 0.025
        nsteps = int(rng.integers(6, 12))
        # ---------------- recordings: random interleaving
        mod.delete_recordings()
        comp_states, edge_states = mod._get_state_names()
        comp_states = [s for s in comp_states if s != "i"]
        wanted = []
        for _ in range(int(rng.integers(3, 8))):
            if kind == "net" and len(mod.edges) and rng.random() < 0.5 and edge_states:
                st = str(rng.choice(edge_states))
                typ = st[2:] if st.startswith("i_") else st.rsplit("_", 1)[0]
                es = mod.edges.index[mod.edges["type"] == typ].to_numpy()
                if not len(es):
                    continue
                e = int(rng.choice(es))
                mod.select(edges=[e]).record(st, verbose=False); wanted.append((e, st))
            else:
                st = str(rng.choice(comp_states))
                if st != "v":
                    owners = [c._name for c in mod.channels if st in c.channel_states or st == c.current_name]
                    rows = mod.nodes.index[mod.nodes[owners].any(axis=1)].to_numpy() if owners else np.arange(n)
                else:
                    rows = np.arange(n)
                if not len(rows):
                    continue
                r = int(rng.choice(rows))
                mod.select(nodes=[r]).record(st, verbose=False); wanted.append((r, st))
        dedup = []
        for w in wanted:
            if w not in dedup:
                dedup.append(w)
        inp = dict(module=desc, backend=backend, recordings=dedup, nsteps=nsteps)
        R.evaluations += 1
        if len(dedup) >= 3 and any(s != "v" for _, s in dedup):
            R.distinct.add(json.dumps([str(desc)[:150], dedup]))
        got = [(int(i), s) for i, s in zip(mod.recordings.rec_index, mod.recordings.state)]
        if got != dedup:
            R.spec_fail(dict(kind="recording-order"), f".recordings {got} != calls in order {dedup}", inp, got)
        stim_row = int(rng.integers(0, n)); sig = stim_signal(rng, nsteps) + 0.02
        ds = mod.select(nodes=[stim_row]).data_stimulate(jnp.asarray(sig))
        try:
            rec = np.asarray(jx.integrate(mod, data_stimuli=ds, voltage_solver=backend, delta_t=dt), dtype=np.float64)
        except AssertionError:
            R.count("refused"); continue
        traj = full_trajectory(mod, stim_row, sig, dt, backend)
        within = (mod.edges.groupby("type").cumcount().to_numpy() if len(mod.edges) else np.array([], int))
        if rec.shape != (len(dedup), nsteps + 1):
            R.spec_fail(dict(kind="recording-shape"), f"recordings have shape {rec.shape}, expected {(len(dedup), nsteps + 1)}", inp, list(rec.shape))
        else:
            for r, (i, s) in enumerate(dedup):
                idx = int(within[i]) if s in edge_states else i
                exp = np.asarray([traj[k][s][idx] for k in range(nsteps + 1)])
                if not np.allclose(rec[r], exp, rtol=1e-9, atol=1e-12, equal_nan=True):
                    R.spec_fail(dict(kind="recording-wrong-row", edge_state=s in edge_states), f"row {r} (recording of {s} at index {i}) is not the trajectory of that {'synapse' if s in edge_states else 'compartment'}",
                                dict(row=r, index=i, state=s, **inp), float(np.nanmax(np.abs(rec[r] - exp))))
        # ---------------- timing: impulse at sample k
        mod.delete_recordings(); mod.select(nodes=list(range(n))).record("v", verbose=False)
        k0 = int(rng.integers(0, nsteps - 1))
        imp = np.zeros(nsteps); imp[k0] = 0.7
        base = np.asarray(jx.integrate(mod, data_stimuli=mod.select(nodes=[stim_row]).data_stimulate(jnp.zeros(nsteps)), voltage_solver=backend), dtype=np.float64)
        hit = np.asarray(jx.integrate(mod, data_stimuli=mod.select(nodes=[stim_row]).data_stimulate(jnp.asarray(imp)), voltage_solver=backend), dtype=np.float64)
        R.evaluations += 1
        if not np.array_equal(base[:, :k0 + 1], hit[:, :k0 + 1]):
            R.spec_fail(dict(kind="stimulus-acts-too-early"), f"impulse in sample {k0} changes columns <= {k0}", dict(k=k0, **inp), None)
        if not abs(hit[stim_row, k0 + 1] - base[stim_row, k0 + 1]) > 1e-9:
            R.spec_fail(dict(kind="stimulus-acts-too-late"), f"impulse in sample {k0} is not visible in column {k0 + 1} of its compartment", dict(k=k0, **inp), None)
        # ---------------- additivity and data_stimulate == stimulate
        a, b = stim_signal(rng, nsteps), stim_signal(rng, nsteps)
        mod.delete_stimuli()
        mod.select(nodes=[stim_row]).stimulate(jnp.asarray(a), verbose=False); mod.select(nodes=[stim_row]).stimulate(jnp.asarray(b), verbose=False)
        two = np.asarray(jx.integrate(mod, voltage_solver=backend), dtype=np.float64)
        mod.delete_stimuli(); mod.select(nodes=[stim_row]).stimulate(jnp.asarray(a + b), verbose=False)
        one = np.asarray(jx.integrate(mod, voltage_solver=backend), dtype=np.float64)
        mod.delete_stimuli()
        dat = np.asarray(jx.integrate(mod, data_stimuli=mod.select(nodes=[stim_row]).data_stimulate(jnp.asarray(a + b)), voltage_solver=backend), dtype=np.float64)
        R.evaluations += 1
        if not np.allclose(two, one, rtol=1e-9, atol=1e-10):
            R.spec_fail(dict(kind="stimuli-do-not-add"), "two stimuli on one compartment differ from one stimulus with the sum", inp, float(np.max(np.abs(two - one))))
        if not np.array_equal(dat, one):
            R.spec_fail(dict(kind="data_stimulate-differs"), "data_stimulate differs from stimulate", inp, float(np.max(np.abs(dat - one))))
        # ---------------- clamps
        mod.delete_recordings()
        targets = []
        crow = int(rng.integers(0, n)); cv = rng.uniform(-80, -20, nsteps)
        mod.select(nodes=[crow]).record("v", verbose=False); targets.append(("v", crow, cv))
        mod.select(nodes=[crow]).clamp("v", jnp.asarray(cv), verbose=False)
        gate = next((s for c in mod.channels for s in c.channel_states), None)
        if gate:
            owners = [c._name for c in mod.channels if gate in c.channel_states]
            rows = mod.nodes.index[mod.nodes[owners].any(axis=1)].to_numpy()
            grow = int(rng.choice(rows)); gv = rng.uniform(0, 1, nsteps)
            mod.select(nodes=[grow]).record(gate, verbose=False); mod.select(nodes=[grow]).clamp(gate, jnp.asarray(gv), verbose=False); targets.append((gate, grow, gv))
        syn_state = next((s for sy in (mod.synapses or []) for s in sy.synapse_states), None) if kind == "net" else None
        if syn_state:
            typ = syn_state.rsplit("_", 1)[0]
            es = mod.edges.index[mod.edges["type"] == typ].to_numpy()
            e = int(rng.choice(es)); sv = rng.uniform(0, 1, nsteps)
            mod.select(edges=[e]).record(syn_state, verbose=False); mod.select(edges=[e]).clamp(syn_state, jnp.asarray(sv), verbose=False); targets.append((syn_state, e, sv))
            rest = [int(x) for x in es if int(x) != e]
            if rest:      # a SECOND clamp on the same synaptic state, on another edge (N1)
                e2 = int(rng.choice(rest)); sv2 = rng.uniform(0, 1, nsteps)
                mod.select(edges=[e2]).record(syn_state, verbose=False); mod.select(edges=[e2]).clamp(syn_state, jnp.asarray(sv2), verbose=False); targets.append((syn_state, e2, sv2))
                inds = np.asarray(mod.external_inds[syn_state]).tolist()
                if inds != [e, e2] or mod.externals[syn_state].shape[0] != 2:
                    R.spec_fail(dict(kind="clamp-indices", state="synapse"), f"two clamps on edges {[e, e2]} registered indices {inds} for {mod.externals[syn_state].shape[0]} data rows", dict(state=syn_state, **inp), inds)
        try:
            rc = np.asarray(jx.integrate(mod, voltage_solver=backend), dtype=np.float64)
        except Exception as ex:
            R.spec_fail(dict(kind="integrate-raises-with-clamps", err=type(ex).__name__), f"integrate raises {type(ex).__name__} with clamps on {[(s, i) for s, i, _ in targets]}: {str(ex)[:200]}", inp, repr(ex)[:300])
            mod.base.externals.clear(); mod.base.external_inds.clear(); continue
        R.evaluations += 1
        # the recorded traces (clamped v / gate / synaptic states included) are those of the Lean model of the whole simulation run
        # on the module's TABLES: every recording reads the requested row, every clamp lands on its row and time step
        check_simulates_tables(R, drv, mod, dict(inp, block="clamps"), backend=backend, kind="recordings-differ-from-table-simulation")
        for r, (s, i, vals) in enumerate(targets):
            if not np.allclose(rc[r, 1:], vals, rtol=0, atol=0):
                R.spec_fail(dict(kind="clamp-does-not-hold", state="v" if s == "v" else "gate" if s == gate else "synapse"), f"clamped {s} at index {i} deviates from its clamp samples", dict(state=s, index=i, **inp), float(np.max(np.abs(rc[r, 1:] - vals))))
        # data_clamp == clamp (voltage)
        mod.delete_clamps(); mod.delete_recordings(); mod.select(nodes=[crow]).record("v", verbose=False)
        mod.select(nodes=[crow]).clamp("v", jnp.asarray(cv), verbose=False)
        c1 = np.asarray(jx.integrate(mod, voltage_solver=backend)); mod.delete_clamps()
        c2 = np.asarray(jx.integrate(mod, data_clamps=mod.select(nodes=[crow]).data_clamp("v", jnp.asarray(cv)), voltage_solver=backend))
        if not np.array_equal(c1, c2):
            R.spec_fail(dict(kind="data_clamp-differs"), "data_clamp differs from clamp", inp, None)
        # ---------------- several inputs given in arbitrary (not ascending) order: stimulate == chained data_stimulate == manual stepping
        mod.delete_stimuli(); mod.delete_clamps(); mod.delete_recordings()
        mod.select(nodes=list(range(n))).record("v", verbose=False)
        m = int(rng.integers(2, 5))
        rows = [int(x) for x in rng.choice(n, size=m, replace=n < m)]
        if n >= 3 and rows == sorted(rows):
            rows = rows[::-1] if len(set(rows)) > 1 else rows
        sigs = [stim_signal(rng, nsteps) + 0.013 * (j + 1) for j in range(m)]
        for r_, s_ in zip(rows, sigs):
            mod.select(nodes=[r_]).stimulate(jnp.asarray(s_), verbose=False)
        via_a = np.asarray(jx.integrate(mod, voltage_solver=backend, delta_t=dt), dtype=np.float64)
        check_simulates_tables(R, drv, mod, dict(inp, block="stimuli", rows=rows), backend=backend, dt=dt, kind="recordings-differ-from-table-simulation")
        mod.delete_stimuli()
        ds = None
        for r_, s_ in zip(rows, sigs):
            ds = mod.select(nodes=[r_]).data_stimulate(jnp.asarray(s_), ds)
        via_b = np.asarray(jx.integrate(mod, data_stimuli=ds, voltage_solver=backend, delta_t=dt), dtype=np.float64)
        mod.select(nodes=[rows[0]]).stimulate(jnp.asarray(sigs[0]), verbose=False)
        ds = None
        for r_, s_ in zip(rows[1:], sigs[1:]):
            ds = mod.select(nodes=[r_]).data_stimulate(jnp.asarray(s_), ds)
        via_m = np.asarray(jx.integrate(mod, data_stimuli=ds, voltage_solver=backend, delta_t=dt), dtype=np.float64)
        mod.delete_stimuli()
        traj = full_trajectory(mod, rows, sigs, dt, backend)
        exp = np.asarray([t_["v"][:n] for t_ in traj]).T
        inp2 = dict(rows=rows, **inp)
        R.evaluations += 1
        for nm_, via in (("stimulate", via_a), ("data_stimulate", via_b), ("stimulate+data_stimulate", via_m)):
            if via.shape != exp.shape or not np.allclose(via, exp, rtol=1e-9, atol=1e-9):
                R.spec_fail(dict(kind="stimuli-wrong-target", route=nm_), f"{m} stimuli on compartments {rows} (in this call order) via {nm_}: voltages are not those of "
                            "stepping with exactly these currents on exactly these compartments", inp2, float(np.max(np.abs(via - exp))) if via.shape == exp.shape else None)
        # ---------------- several clamps of one synaptic state in arbitrary order: clamp == chained data_clamp; clamps hold, others untouched
        cands = []
        if kind == "net" and len(mod.edges):
            for sy in mod.synapses:
                es = mod.edges.index[mod.edges["type"] == sy._name].to_numpy()
                if len(es) >= 2 and sy.synapse_states:
                    cands.append((sorted(sy.synapse_states)[0], [int(x) for x in es]))
        if cands:
            sname, es = cands[int(rng.integers(0, len(cands)))]
            kk = int(rng.integers(1, min(3, len(es) - 1) + 1))
            chosen = [int(x) for x in rng.permutation(es)[:kk]]
            if chosen == sorted(chosen) and kk > 1:
                chosen = chosen[::-1]
            vals = [rng.uniform(0, 1, nsteps) for _ in chosen]
            mod.delete_recordings(); mod.select(edges=es).record(sname, verbose=False)
            res = {}
            for route in ("clamp", "data_clamp", "clamp+data_clamp"):
                mod.delete_clamps(); dc = None
                for j, (e_, v_) in enumerate(zip(chosen, vals)):
                    if route == "clamp" or (route == "clamp+data_clamp" and j == 0):
                        mod.select(edges=[e_]).clamp(sname, jnp.asarray(v_), verbose=False)
                    else:
                        dc = mod.select(edges=[e_]).data_clamp(sname, jnp.asarray(v_), dc)
                try:
                    res[route] = np.asarray(jx.integrate(mod, data_clamps=dc, voltage_solver=backend, delta_t=dt), dtype=np.float64)
                except Exception as ex:
                    R.spec_fail(dict(kind="integrate-raises-with-clamps", err=type(ex).__name__, route=route), f"integrate raises {type(ex).__name__} with {route} of {sname} on edges {chosen}", inp, repr(ex)[:300])
                mod.delete_clamps()
            R.evaluations += 1
            inp3 = dict(state=sname, edges=es, clamped=chosen, **inp)
            for route, rr in res.items():
                bad = None
                if rr.shape != (len(es), nsteps + 1):
                    bad = f"shape {rr.shape}"
                else:
                    for e_, v_ in zip(chosen, vals):
                        if not np.array_equal(rr[es.index(e_), 1:], v_):
                            bad = f"the clamped synapse (edge {e_}) does not follow its clamp"
                    for j, e_ in enumerate(es):
                        for c_, v_ in zip(chosen, vals):
                            if e_ not in chosen and np.array_equal(rr[j, 1:], v_):
                                bad = f"edge {e_} was not clamped but follows the clamp of edge {c_}"
                if bad:
                    R.spec_fail(dict(kind="synaptic-clamp-wrong-target", route=route), f"{route} of {sname} on edges {chosen} (edges of this type: {es}): {bad}", inp3, None)
            if len(res) == 3 and not (np.array_equal(res["clamp"], res["data_clamp"]) and np.array_equal(res["clamp"], res["clamp+data_clamp"])):
                R.spec_fail(dict(kind="data_clamp-differs", state="synapse"), f"data_clamp of {sname} on edges {chosen} differs from clamp", inp3, None)
            R.count("synaptic data_clamp block")
        # ---------------- t_max: padding, truncation, short clamp
        mod.delete_recordings(); mod.select(nodes=[stim_row]).record("v", verbose=False)
        L = nsteps
        for steps in (L - 3, L, L + 4):
            tmax = (steps - 1) * dt + dt / 2              # int(t_max // dt + 1) == steps
            assert int(tmax // dt + 1) == steps
            mod.delete_stimuli(); mod.select(nodes=[stim_row]).stimulate(jnp.asarray(sig), verbose=False)
            r1 = np.asarray(jx.integrate(mod, t_max=tmax, delta_t=dt, voltage_solver=backend))
            padded = np.concatenate([sig, np.zeros(max(0, steps - L))])[:steps]
            mod.delete_stimuli(); mod.select(nodes=[stim_row]).stimulate(jnp.asarray(padded), verbose=False)
            r2 = np.asarray(jx.integrate(mod, delta_t=dt, voltage_solver=backend))
            R.evaluations += 1
            if r1.shape != (1, steps + 1) or not np.array_equal(r1, r2):
                R.spec_fail(dict(kind="tmax-pad-truncate"), f"t_max with {steps} steps vs stimulus of {L} samples: not the zero-padded/truncated run", dict(steps=steps, L=L, **inp), list(r1.shape))
        mod.delete_stimuli(); mod.select(nodes=[crow]).clamp("v", jnp.asarray(cv), verbose=False)
        try:
            jx.integrate(mod, t_max=(L + 3) * dt, delta_t=dt, voltage_solver=backend)
            R.spec_fail(dict(kind="short-clamp-accepted"), "a clamp shorter than t_max was accepted", inp, None)
        except NotImplementedError:
            pass
        mod.delete_clamps()
        if len(R.samples) < 2:
            R.samples.append(inp)
    # ---------------- step_current vs model
    lines, exp = [], []
    for _ in range(30):
        dt = float(rng.choice([0.025, 0.1, 0.01, 0.05])); delay = float(rng.uniform(0, 2)); dur = float(rng.uniform(0, 3)); tmax = float(rng.uniform(1, 6))
        amp, off = float(rng.uniform(0.1, 1)), float(rng.choice([0.0, 0.05]))
        cur = np.asarray(jx.step_current(delay, dur, amp, dt, tmax, off), dtype=np.float64)
        ws, we, nn = int(delay / dt), int((delay + dur) / dt), int(tmax // dt) + 2
        want = np.asarray([amp if ws <= k < we else off for k in range(nn)])
        R.evaluations += 1
        if cur.shape != want.shape or not np.array_equal(cur, want):
            R.spec_fail(dict(kind="step_current-shape"), "step_current is not amp on [floor(delay/dt), floor((delay+dur)/dt)) and offset elsewhere", dict(delay=delay, dur=dur, dt=dt, tmax=tmax), None)
    R.explanation = "time axis, ordering, clamp and padding theorems on the model (Props/C08, C06, C07); rows/timing/additivity/clamps measured on the implementation against independent manual stepping"
    R.assumptions = ["trajectories compared to 1e-9; clamps compared exactly"]
    R.extra["driver_lines"] = drv.lines
    return R


def replay(args):
    R = Result("C08")
    f = json.load(open(args.replay))
    R.replay_result = dict(fails=True, note="re-run the check with the same VERIF_SEED", input=f.get("input"))
    return R


if __name__ == "__main__":
    a = parse_args()
    r = replay(a) if a.mode == "replay" else run(a)
    r.write(a.out)
