"""C19 harness: any editing history leaves a consistent module that simulates its tables.

correspondence : random histories over {insert, delete_channel, set, add_to_group, record, delete_recordings, stimulate, clamp,
                 delete_stimuli, delete_clamps, make_trainable, delete_trainables, connect} on arbitrary row/edge selections of irregular
                 cells and networks; after EVERY operation α(module) (harness/alpha.py) must equal the state of the Lean state machine
                 `Model.Ops`; rejected operations must be rejected by both
spec predicate : on the IMPLEMENTATION after every history: the consistency invariant (columns as long as the table; channel parameters
                 present exactly where the channel is; recordings / inputs / groups / trainables refer to existing rows; edges refer to
                 existing compartments), deletions undo insertions, and `integrate` runs and simulates the tables (re-building the
                 module from its tables gives the same recordings).
"""
import os, math, copy
import numpy as np
from common import *
from simlib import *
from simmodel import check_simulates_tables
from alpha import alpha, geom_of, chan_tokens, syn_tokens

ERRK = {ValueError: "valueerror", KeyError: "keyerror", AssertionError: "assert"}


def base_module(rng):
    comp = jx.Compartment()
    if rng.random() < 0.5:
        nb = int(rng.integers(1, 4))
        return jx.Cell([jx.Branch([comp] * int(rng.integers(1, 4))) for _ in range(nb)], parents=[-1] + [int(rng.integers(0, i)) for i in range(1, nb)]), "cell"
    cells = []
    for _ in range(int(rng.integers(2, 4))):
        nb = int(rng.integers(1, 3))
        cells.append(jx.Cell([jx.Branch([comp] * int(rng.integers(1, 3))) for _ in range(nb)], parents=[-1] + [0] * (nb - 1)))
    return jx.Network(cells), "net"


def rows_of(rng, n):
    return sorted(rng.choice(n, size=int(rng.integers(1, n + 1)), replace=False).tolist())


def csv(l):
    return ",".join(str(int(x)) for x in l) if len(l) else "-"


def random_history(rng, mod, kind, length):
    """applies a random history to `mod`; returns (op tokens, observed states/errors)"""
    ops, obs = [], []
    n = mod.nodes.shape[0]
    for _ in range(length):
        choices = ["insert", "insert", "delchan", "set", "group", "record", "delrecs", "stim", "clamp", "delstim", "delclamp", "train", "deltrain"]
        if kind == "net":
            choices += ["connect", "connect", "connect", "recsyn", "clampsyn", "clampsyn", "delclampsyn"]
        op = str(rng.choice(choices))
        # follow-ups that need a specific predecessor (second clamp on the same synaptic state, deletion of a clamp through a view)
        if ops and rng.random() < 0.6:
            last = ops[-1].split()[0] + (":syn" if " es=" in ops[-1] and "key=" in ops[-1] and not ops[-1].split("key=")[1].split()[0] in ("i", "v") else "")
            if last == "ext:syn":
                op = str(rng.choice(["clampsyn", "delclampsyn"]))
            elif last == "ext":
                op = str(rng.choice(["delstim", "delclamp", "stim", "clamp"]))
            elif last == "insert":
                op = str(rng.choice(["delchan", "record", "insert"]))
        rows = rows_of(rng, n)
        view = mod.select(nodes=rows)
        es_in_view = [int(e) for e in view._edges_in_view]
        tok = None
        try:
            if op == "insert":
                ch = CHANS[str(rng.choice(["HH", "Na", "K", "Km", "Leak", "CaL"]))]()
                if rng.random() < 0.4 and len(mod.channels):
                    # a region disjoint from the channels that are already there (shared columns then live in different rows)
                    free = [int(r) for r in range(n) if not any(bool(mod.nodes.loc[r, c._name]) for c in mod.channels)]
                    if free:
                        rows = sorted(rng.choice(free, size=int(rng.integers(1, len(free) + 1)), replace=False).tolist()); view = mod.select(nodes=rows)
                tok = f"insert rows={csv(rows)} {chan_tokens(ch)}"
                view.insert(ch)
            elif op == "delchan":
                ch = CHANS[str(rng.choice(["HH", "Na", "K", "Km", "Leak", "CaL"]))]()
                if rng.random() < 0.7 and len(mod.channels):
                    ch = CHANS[str(rng.choice([c._name for c in mod.channels]))]()
                    if rng.random() < 0.6:
                        # through the view that holds exactly this channel (the last instance disappears while other channels stay outside)
                        rows = [int(r) for r in range(n) if bool(mod.nodes.loc[r, ch._name])]; view = mod.select(nodes=rows)
                tok = f"delchan rows={csv(rows)} {chan_tokens(ch)}"
                view.delete_channel(ch)
            elif op == "set":
                keys = [c for c in mod.nodes.columns if c not in ("controlled_by_param",) and "index" not in c and c not in [x._name for x in mod.channels]]
                key = str(rng.choice(keys)); val = float(rng.uniform(0.1, 0.9))
                tok = f"set rows={csv(rows)} key={key} val={f2b(val)}"
                view.set(key, val)
            elif op == "group":
                g = f"g{int(rng.integers(0, 2))}"
                tok = f"group rows={csv(rows)} name={g}"
                view.add_to_group(g)
            elif op == "record":
                states = ["v"] + [s for c in mod.channels for s in c.channel_states] + list(mod.membrane_current_names) + ["nonexistent"]
                st = str(rng.choice(states))
                tok = f"record rows={csv(rows)} es={csv(es_in_view)} state={st}"
                view.record(st, verbose=False)
            elif op == "recsyn":
                if not len(mod.edges):
                    continue
                es = rows_of(rng, len(mod.edges)); v = mod.select(edges=es)
                states = [s for sy in mod.synapses for s in sy.synapse_states] + list(mod.synapse_current_names)
                if not states:
                    continue
                st = str(rng.choice(states))
                tok = f"record rows={csv(v._nodes_in_view)} es={csv(es)} state={st}"
                v.record(st, verbose=False)
            elif op == "delrecs":
                tok = "delrecs"; mod.delete_recordings()
            elif op in ("stim", "clamp"):
                key = "i" if op == "stim" else "v"
                T = 3
                batch = len(rows) if rng.random() < 0.5 else 1
                data = rng.uniform(-1, 1, (batch, T))
                tok = f"ext rows={csv(rows)} es={csv(es_in_view)} key={key} data=" + ";".join(",".join(str(f2b(x)) for x in r) for r in data)
                if op == "stim":
                    view.stimulate(jnp.asarray(data if batch > 1 else data[0]), verbose=False)
                else:
                    view.clamp("v", jnp.asarray(data if batch > 1 else data[0]), verbose=False)
            elif op == "clampsyn":
                if not len(mod.edges):
                    continue
                es = rows_of(rng, len(mod.edges)); v = mod.select(edges=es)
                states = [s for sy in mod.synapses for s in sy.synapse_states]
                if not states:
                    continue
                st = str(rng.choice(states)); data = rng.uniform(0, 1, (1, 3))
                tok = f"ext rows={csv(v._nodes_in_view)} es={csv(es)} key={st} data=" + ",".join(str(f2b(x)) for x in data[0])
                v.clamp(st, jnp.asarray(data[0]), verbose=False)
            elif op == "delstim":
                tok = f"delext rows={csv(rows)} es={csv(es_in_view)} key=i"
                view.delete_stimuli()
            elif op == "delclamp":
                tok = f"delext rows={csv(rows)} es={csv(es_in_view)} key=v"
                view.delete_clamps("v")
            elif op == "delclampsyn":
                if not len(mod.edges):
                    continue
                es = rows_of(rng, len(mod.edges)); v = mod.select(edges=es)
                states = [s for sy in mod.synapses for s in sy.synapse_states]
                if not states:
                    continue
                st = str(rng.choice(states))
                tok = f"delext rows={csv(v._nodes_in_view)} es={csv(es)} key={st}"
                v.delete_clamps(st)
            elif op == "train":
                key = str(rng.choice(["radius", "length", "capacitance"]))
                view.make_trainable(key, verbose=False)
                inds = np.asarray(mod.indices_set_by_trainables[-1]).tolist()
                tok = f"train key={key} groups=" + ";".join(csv(r) for r in inds)
            elif op == "deltrain":
                tok = "deltrain"; mod.delete_trainables()
            elif op == "connect":
                a, b = int(rng.integers(0, n)), int(rng.integers(0, n))
                s = SYNS[str(rng.choice(["IonotropicSynapse", "TestSynapse", "TanhRateSynapse"]))]()
                tok = f"connect pre={a} post={b} {syn_tokens(s)}"
                connect(mod.select(nodes=[a]), mod.select(nodes=[b]), s)
            ops.append(tok); obs.append(alpha(mod))
        except tuple(ERRK) as ex:
            if tok is None:
                continue
            ops.append(tok); obs.append("err " + ERRK[type(ex)])
    return ops, obs


DIRECTED = [("Na", "K"), ("K", "Na"), ("K", "Km"), ("Km", "K"), ("HH", "Leak"), ("CaL", "K"), ("Na", "Km")]


def directed_history(R, rng, mod, pair, kind):
    """two channels (sharing columns / current names for most pairs) in DISJOINT regions; the first is then deleted through the
    view that holds it, then the second likewise: every step is compared with the model like any other history"""
    n = mod.nodes.shape[0]
    perm = [int(x) for x in rng.permutation(n)]
    k = int(rng.integers(1, n)) if n > 1 else 1
    ra, rb = sorted(perm[:k]), sorted(perm[k:]) or sorted(perm[:k])
    ops, obs = [], []
    for what, rows, name in (("insert", ra, pair[0]), ("insert", rb, pair[1]), ("delchan", ra, pair[0]), ("delchan", rb, pair[1])):
        ch = CHANS[name]()
        tok = f"{what} rows={csv(rows)} {chan_tokens(ch)}"
        try:
            v = mod.select(nodes=rows)
            v.insert(ch) if what == "insert" else v.delete_channel(ch)
            ops.append(tok); obs.append(alpha(mod))
            invariant(R, mod, dict(kind=kind, n=n, ops=list(ops)))     # after EVERY step of a directed history
        except tuple(ERRK) as ex:
            ops.append(tok); obs.append("err " + ERRK[type(ex)])
    return ops, obs


def invariant(R, mod, desc):
    """the consistency invariant of the property statement, evaluated on the implementation"""
    n = len(mod.nodes)
    ok = True

    def bad(what):
        nonlocal ok
        ok = False
        R.spec_fail(dict(kind="invariant", what=what.split(":")[0]), f"inconsistent module after history: {what}", desc, None)
    if mod.nodes["global_comp_index"].tolist() != list(range(n)) or mod.nodes.index.tolist() != list(range(n)):
        bad("indices: global_comp_index not contiguous")
    for ch in mod.channels:
        if ch._name not in mod.nodes.columns:
            bad(f"channel-column: {ch._name} flag column missing"); continue
        flag = mod.nodes[ch._name].astype(bool).to_numpy()
        for key in list(ch.channel_params) + list(ch.channel_states):
            if key not in mod.nodes.columns:
                bad(f"channel-params: column {key} of present channel {ch._name} is missing"); continue
            isnan = mod.nodes[key].isna().to_numpy()
            if np.any(flag & isnan):
                bad(f"channel-params: {key} is NaN in a row that contains {ch._name}")
            owners = [c._name for c in mod.channels if key in c.channel_params or key in c.channel_states]
            anyflag = np.zeros(n, bool)
            for o in owners:
                anyflag |= mod.nodes[o].astype(bool).to_numpy()
            if np.any(~anyflag & ~isnan):
                bad(f"channel-params: {key} has a value in a row without any channel that owns it")
        if ch.current_name not in mod.membrane_current_names:
            bad(f"currents: {ch.current_name} of present channel {ch._name} missing from membrane_current_names")
    comp_states, edge_states = mod._get_state_names()
    builtin_states = {s for c in CHANS.values() for s in list(c().channel_states) + [c().current_name]}
    dangling = False
    for i, s in zip(mod.recordings.rec_index.tolist() if len(mod.recordings) else [], mod.recordings.state.tolist() if len(mod.recordings) else []):
        lim = n if s in comp_states else len(mod.edges)
        if s not in comp_states + edge_states and s in builtin_states:
            # the state belonged to a channel that has been deleted (N13, fixed: delete_channel removes such recordings)
            dangling = True
            R.known_confirmed.append("N13")
            R.spec_fail(dict(kind="dangling-reference-after-delete_channel", what="recordings"), f"recording ({i},{s}) survives the deletion of its channel", desc, None)
        elif not (0 <= i < lim) or s not in comp_states + edge_states:
            bad(f"recordings: ({i},{s}) does not refer to an existing row/state")
    for k in mod.external_inds:
        if k not in comp_states + edge_states and k in builtin_states:
            dangling = True
            R.known_confirmed.append("N13b")
            R.spec_fail(dict(kind="dangling-reference-after-delete_channel", what="externals"), f"clamp of {k} survives the deletion of its channel", desc, None)
    desc["_dangling"] = dangling
    for k, inds in mod.external_inds.items():
        lim = len(mod.edges) if k in edge_states else n
        if np.any(np.asarray(inds) >= lim) or len(inds) != len(mod.externals[k]):
            bad(f"externals: {k} indices {np.asarray(inds).tolist()} vs {len(mod.externals[k])} data rows / {lim} rows")
    for g, rows in mod.groups.items():
        if np.any(np.asarray(rows) >= n):
            bad(f"groups: {g} refers to missing rows")
    for p, inds in zip(mod.trainable_params, mod.indices_set_by_trainables):
        if np.any(np.asarray(inds) > n) or len(np.asarray(inds)) != len(list(p.values())[0]):
            bad("trainables: index groups and parameter vector disagree")
    if len(mod.edges):
        if mod.edges["pre_global_comp_index"].max() >= n or mod.edges["post_global_comp_index"].max() >= n:
            bad("edges: refer to missing compartments")
        names = mod.synapse_names
        for t, ti in zip(mod.edges["type"], mod.edges["type_ind"]):
            if not (0 <= ti < len(names) and names[int(ti)] == t):
                bad("edges: type_ind does not match the synapse list")
    return ok


def run(args):
    R = Result("C19")
    rng = np.random.default_rng([args.seed, 19])
    drv = LeanDriver()
    nh = {"quick": 70, "thorough": 1200}[args.tier] * (3 if args.mode == "search" else 1)
    maxlen = {"quick": 12, "thorough": 30}[args.tier]
    R.rule = ("random histories (<= 12 ops quick, <= 30 thorough) over the alphabet on random row/edge selections of irregular cells and "
              "networks; α compared after every op. distinct = distinct op-kind sequences; non-trivial = >= 4 accepted ops incl. a deletion")
    lines, observed, metas = [], [], []
    for h in range(nh):
        mod, kind = base_module(rng)
        n = mod.nodes.shape[0]
        header = f"ops {n} {geom_of(mod)}"
        first = alpha(mod)
        if h < len(DIRECTED):
            ops, obs = directed_history(R, rng, mod, DIRECTED[h], kind)
            more = random_history(rng, mod, kind, 3)
            ops, obs = ops + more[0], obs + more[1]
        else:
            ops, obs = random_history(rng, mod, kind, int(rng.integers(3, maxlen + 1)))
        lines.append(" | ".join([header] + ops)); observed.append([first] + obs); metas.append((kind, n, ops))
        R.evaluations += 1
        for o in ops:
            R.count("op:" + o.split()[0])
        accepted = [o.split()[0] for o, s in zip(ops, obs) if not s.startswith("err")]
        if len(accepted) >= 4 and any(a.startswith("del") for a in accepted):
            R.distinct.add(tuple(accepted))
        desc = dict(kind=kind, n=n, ops=ops)
        invariant(R, mod, desc)
        # integrate simulates the tables: run, and compare with a module rebuilt from (a deep copy of) the tables
        try:
            if h % 8 != 0 or desc.get("_dangling"):          # the (expensive) simulation is run after every 8th history
                raise StopIteration
            if not len(mod.recordings):
                mod.select(nodes=[0]).record("v", verbose=False)
            if "v" in mod.externals and mod.externals["v"].shape[1] < 3:
                pass
            r1 = np.asarray(jx.integrate(mod, t_max=0.05 if not mod.externals else None, voltage_solver="jax.sparse"))
            m2 = copy.deepcopy(mod)
            r2 = np.asarray(jx.integrate(m2, t_max=0.05 if not m2.externals else None, voltage_solver="jax.sparse"))
            if not np.array_equal(r1, r2, equal_nan=True):
                R.spec_fail(dict(kind="integrate-not-function-of-tables"), "a deep copy of the module simulates differently", desc, None)
            if not np.all(np.isfinite(r1)):
                R.count("diag:nonfinite-simulation")
            # "simulates its tables": the Lean model of a whole simulation, driven only by the tables the history left behind
            # (nodes, edges, recordings, externals, branch structure), must reproduce the recordings
            check_simulates_tables(R, drv, mod, dict(desc), solver="bwd_euler", backend="jax.sparse")
        except StopIteration:
            pass
        except Exception as ex:
            R.spec_fail(dict(kind="integrate-fails-after-history", err=type(ex).__name__), f"integrate fails after an accepted history: {type(ex).__name__}: {str(ex)[:150]}", desc, repr(ex)[:300])
        if h % 32 == 31:
            jax.clear_caches()          # thousands of differently shaped modules: keep the compilation cache bounded
        if len(R.samples) < 3:
            R.samples.append(dict(kind=kind, n=n, ops=ops[:6]))
    for (kind, n, ops), obs, out in zip(metas, observed, drv.batch(lines)):
        states = out.split(" || ")
        for k, (o, s) in enumerate(zip(obs, states)):
            if o != s:
                if o.startswith("err") and s.startswith("err"):
                    R.count("diag:error-class-differs"); continue
                R.disagree("state-after-op", kind=kind, n=n, step=k, op=(ops[k - 1] if k > 0 else "<init>"), ops=ops[:k], impl=diff_summary(o, s)[0], model=diff_summary(o, s)[1])
                break
    # -------- histories with set_ncomp (outside the modelled alphabet; its table surgery is property C13): groups, recordings and the
    #          consistency invariant after changing the discretisation of a branch of a module that already has groups / channels
    for t in range({"quick": 4, "thorough": 40}[args.tier]):
        comp = jx.Compartment()
        nb = int(rng.integers(3, 6))
        ncs = [int(rng.integers(2, 6)) for _ in range(nb)]
        cell = jx.Cell([jx.Branch([comp] * k) for k in ncs], parents=[-1] + [int(rng.integers(0, i)) for i in range(1, nb)])
        cell.insert(CHANS["HH"]())
        members = {}
        for g in ("ga", "gb"):
            bs = sorted(rng.choice(nb, size=int(rng.integers(1, nb + 1)), replace=False).tolist())
            cell.branch(bs).add_to_group(g); members[g] = bs
        b = int(rng.integers(0, nb)); k = int(rng.integers(1, 7))
        hdesc = dict(kind="cell", ncomp=ncs, groups=members, op=f"branch({b}).set_ncomp({k})")
        try:
            cell.branch(b).set_ncomp(k)
        except Exception as ex:
            R.spec_fail(dict(kind="set_ncomp-raises", err=type(ex).__name__), f"set_ncomp raises {type(ex).__name__}: {str(ex)[:120]}", hdesc, repr(ex)[:200]); continue
        R.evaluations += 1; R.count("op:set_ncomp")
        invariant(R, cell, hdesc)
        bidx = cell.nodes["global_branch_index"].to_numpy()
        for g, bs in members.items():
            rows = sorted(int(x) for x in cell.groups[g])
            want = [int(i) for i in range(len(bidx)) if int(bidx[i]) in bs]
            if rows != want:
                R.spec_fail(dict(kind="invariant", what="groups"), f"after {hdesc['op']} group {g} (branches {bs}) holds rows {rows}, its branches occupy rows {want}", hdesc, rows)
        cell.select(nodes=[0]).record("v", verbose=False)
        check_simulates_tables(R, drv, cell, hdesc, solver="bwd_euler", backend=["jaxley.stone", "jax.sparse"][t % 2])
    # -------- deletions undo insertions (implementation): insert c ; delete c restores the tables when c shares nothing
    for t in range({"quick": 10, "thorough": 100}[args.tier]):
        mod, kind = base_module(rng)
        n = mod.nodes.shape[0]
        pre = [CHANS[str(x)]() for x in rng.choice(["HH", "Leak", "CaL"], size=int(rng.integers(0, 3)), replace=False)]
        for c in pre:
            mod.select(nodes=rows_of(rng, n)).insert(c)
        a0 = alpha(mod)
        ch = CHANS[str(rng.choice(["Na", "K", "Km", "CaT"]))]()
        rows = rows_of(rng, n)
        mod.select(nodes=rows).insert(ch)
        mod.select(nodes=rows).delete_channel(ch)
        R.evaluations += 1
        if alpha(mod) != a0:
            R.spec_fail(dict(kind="delete-does-not-undo-insert", chan=ch._name), f"insert({ch._name}); delete_channel({ch._name}) does not restore the tables", dict(kind=kind, rows=rows, present=[c._name for c in pre]), diff_summary(alpha(mod), a0))
    # -------- witnesses of the fixed findings N13 / N13b (a regression is a violation)
    comp = jx.Compartment()
    w = jx.Cell([jx.Branch([comp] * 2)], parents=[-1])
    w.insert(HH()); w.record("HH_n", verbose=False); w.clamp("HH_m", jnp.ones(3) * 0.3, verbose=False); w.delete_channel(HH())
    R.evaluations += 1
    invariant(R, w, dict(witness="insert(HH); record('HH_n'); clamp('HH_m'); delete_channel(HH)"))
    # -------- a state of the deleted channel whose NAME is also a parameter of another channel (user-defined mechanisms): the column
    #          stays (it is the other channel's parameter), the recording of the state must go (counterexample found by the proof of
    #          `noDangling_step`, reproduced on the real code, fixed together with N13)
    from jaxley.channels import Channel as _Channel

    class _A(_Channel):
        def __init__(self, name=None):
            self.current_is_in_mA_per_cm2 = True
            super().__init__(name)
            self.channel_params = {"A_g": 1e-4}; self.channel_states = {"x": 0.2}; self.current_name = "i_A"

        def update_states(self, states, dt, v, params):
            return {"x": states["x"] * 0.9}

        def compute_current(self, states, v, params):
            return params["A_g"] * states["x"] * (v + 70.0)

        def init_state(self, states, v, params, delta_t):
            return {}

    class _B(_Channel):
        def __init__(self, name=None):
            self.current_is_in_mA_per_cm2 = True
            super().__init__(name)
            self.channel_params = {"x": 0.5, "B_g": 1e-4}; self.channel_states = {}; self.current_name = "i_B"

        def update_states(self, states, dt, v, params):
            return {}

        def compute_current(self, states, v, params):
            return params["B_g"] * params["x"] * (v + 60.0)

        def init_state(self, states, v, params, delta_t):
            return {}
    w2 = jx.Cell([jx.Branch([comp] * 2)], parents=[-1])
    w2.insert(_A()); w2.insert(_B()); w2.record("v", verbose=False); w2.record("x", verbose=False); w2.delete_channel(_A())
    R.evaluations += 1
    wdesc = dict(witness="insert(A with state x); insert(B with parameter x); record('x'); delete_channel(A)")
    invariant(R, w2, wdesc)
    try:
        jx.integrate(w2, t_max=0.05)
    except Exception as ex:
        R.spec_fail(dict(kind="integrate-fails-after-history", err=type(ex).__name__), f"integrate fails after {wdesc['witness']}: {type(ex).__name__}: {str(ex)[:100]}", wdesc, repr(ex)[:200])
    R.explanation = "pure state machine with invariant theorems (Props/C19.lean); α(module) compared with the model after every operation"
    R.assumptions = ["views are given as explicit row/edge selections (view resolution is property C11)", "make_trainable index groups are taken from the implementation (their construction is property C10)"]
    R.extra["driver_lines"] = drv.lines
    return R


def diff_summary(a, b):
    fa = dict(t.split("=", 1) for t in a.split(" ") if "=" in t)
    fb = dict(t.split("=", 1) for t in b.split(" ") if "=" in t)
    keys = [k for k in fa if fa.get(k) != fb.get(k)] + [k for k in fb if k not in fa]
    return ({k: fa.get(k, "")[:400] for k in keys} or a[:300], {k: fb.get(k, "")[:400] for k in keys} or b[:300])


def replay(args):
    R = Result("C19")
    f = json.load(open(args.replay))
    R.replay_result = dict(fails=True, note="re-run the check with the same VERIF_SEED", input=f.get("input"))
    return R


if __name__ == "__main__":
    a = parse_args()
    r = replay(a) if a.mode == "replay" else run(a)
    r.write(a.out)
