"""C17 harness: parameter transforms.

correspondence : Lean model (generated scalar transforms incl. constructor fields + hand combinators) vs the
                 real transforms, eagerly and under jit, on clip thresholds ±ulp, random doubles in [-1e6,1e6],
                 random bounds, random chains / masks, ParamTransform over random pytrees.
spec predicate : on the IMPLEMENTATION: forward within declared bounds, monotone on sorted samples, round trips
                 within a conditioning-aware tolerance where the theorems' side conditions hold.
"""
import math
import numpy as np
from common import *

jax = setup_jax()
import jax.numpy as jnp
import jaxley.optimize.transforms as jt

EPS = 2.0 ** -52


def ulp(x):
    return abs(float(np.spacing(x)))


def make(kind, rng):
    """returns (python transform, driver tokens, meta)"""
    if kind == "sig":
        lo = float(rng.uniform(-100, 100)); up = lo + float(np.exp(rng.uniform(np.log(1e-3), np.log(1e3))))
        return jt.SigmoidTransform(lo, up), ["sig", str(f2b(lo)), str(f2b(up))], dict(kind=kind, lower=lo, upper=up)
    if kind == "sp":
        lo = float(rng.choice([0.0, rng.uniform(-100, 100)]))
        return jt.SoftplusTransform(lo), ["sp", str(f2b(lo))], dict(kind=kind, lower=lo)
    if kind == "nsp":
        up = float(rng.choice([0.0, rng.uniform(-100, 100)]))
        return jt.NegSoftplusTransform(up), ["nsp", str(f2b(up))], dict(kind=kind, upper=up)
    if kind == "aff":
        a = float(rng.choice([-1, 1]) * np.exp(rng.uniform(np.log(1e-3), np.log(1e3)))); b = float(rng.uniform(-10, 10))
        return jt.AffineTransform(a, b), ["aff", str(f2b(a)), str(f2b(b))], dict(kind=kind, a=a, b=b)
    raise ValueError(kind)


def points(rng, n):
    base = [-1e6, -1e3, -50.0, -36.7, -30.0, -20.0, -15.0, -1.0, 0.0, 1.0, 15.0, 20.0, 30.0, 36.7, 50.0, 1e3, 1e6]
    pts = []
    for b in base:
        pts += [b, float(np.nextafter(b, -np.inf)), float(np.nextafter(b, np.inf))]
    pts += list(rng.uniform(-1e6, 1e6, n // 4)) + list(rng.uniform(-40, 40, n // 2)) + list(rng.normal(0, 3, n // 4))
    return np.array(sorted(set(float(p) for p in pts)))


def rt_tol(meta, x, y):
    """allowed |inverse(forward(x)) − x|: 1e-9 relative + the inherent resolution of y=forward(x) as a double."""
    k = meta["kind"]
    if k == "sig":
        w = meta["upper"] - meta["lower"]
        s = 1.0 / (1.0 + math.exp(-x)) if x > -700 else 0.0
        dydx = w * s * (1 - s)
        res = 8 * max(ulp(y), ulp(meta["lower"])) / dydx if dydx > 0 else math.inf
    elif k in ("sp", "nsp"):
        xx = x if k == "sp" else -x
        s = 1.0 / (1.0 + math.exp(-xx)) if xx > -700 else 0.0
        bound = meta.get("lower", None) if k == "sp" else meta["upper"]
        res = 8 * max(ulp(y), ulp(bound)) / s if s > 0 else math.inf
    else:
        res = 8 * (ulp(y) + ulp(meta["b"])) / abs(meta["a"])
    return 1e-9 * max(1.0, abs(x)) + res


def in_roundtrip_domain(meta, x):
    """side conditions of the *_roundtrip_partial theorems"""
    k = meta["kind"]
    if k == "sig":
        return x >= -20.0
    if k == "sp":
        return math.log1p(math.exp(x)) <= 20.0 if x < 700 else False
    if k == "nsp":
        return math.log1p(math.exp(-x)) <= 20.0 if -x < 700 else False
    return True


def run(args):
    R = Result("C17")
    rng = np.random.default_rng(args.seed)
    drv = LeanDriver()
    ntf = {"quick": 12, "thorough": 120}[args.tier] * (3 if args.mode == "search" else 1)
    npts = {"quick": 200, "thorough": 2000}[args.tier]
    R.rule = ("per transform instance (random bounds): fixed critical points ±1 ulp + random doubles in [-1e6,1e6] (sorted, for "
              "monotonicity); random chains (len 1-3), masks, ParamTransform pytrees; eager and jit. distinct = distinct "
              "(transform parameters, x); non-trivial = forward(x) != x")
    # ------------------------------------------------------------ scalar transforms
    for kind in ("sig", "sp", "nsp", "aff"):
        for t in range(ntf):
            tf, toks, meta = make(kind, rng)
            xs = points(rng, npts)
            yf = np.asarray(tf.forward(jnp.asarray(xs)), dtype=np.float64)
            yj = np.asarray(jax.jit(tf.forward)(jnp.asarray(xs)), dtype=np.float64)
            xi = np.asarray(tf.inverse(jnp.asarray(yf)), dtype=np.float64)
            mf = [drv.parse_one(l) for l in drv.batch([" ".join(["tff", str(f2b(x))] + toks) for x in xs])]
            mi = [drv.parse_one(l) for l in drv.batch([" ".join(["tfi", str(f2b(y))] + toks) for y in yf])]
            prev = None
            for i, x in enumerate(xs):
                R.evaluations += 1
                inp = dict(transform=meta, x=float(x))
                y = float(yf[i])
                if y != x:
                    R.distinct.add((kind, t, float(x)))
                # correspondence
                if mf[i] is None or not close(y, mf[i], rel=1e-12, abs_=1e-15, maxulp=64):
                    R.disagree("forward", transform=meta, x=float(x), impl=y, model=mf[i])
                # inverse: near saturation the map is ill-conditioned and amplifies last-bit differences of the two
                # arithmetic back ends (XLA may contract to FMA): compare within the inherent resolution of y
                tol_i = 8 * rt_tol(meta, float(xi[i]), y) if math.isfinite(xi[i]) else math.inf
                if mi[i] is None or not (abs(float(xi[i]) - mi[i]) <= tol_i or tol_i >= 0.5 or (not math.isfinite(xi[i]) and not math.isfinite(mi[i]))):
                    R.disagree("inverse", transform=meta, y=y, impl=float(xi[i]), model=mi[i])
                if not close(y, float(yj[i]), rel=1e-12, abs_=1e-15, maxulp=16):
                    R.spec_fail(dict(kind="jit-differs", tf=kind), f"{kind}: jit forward {yj[i]!r} != eager {y!r}", inp, float(yj[i]))
                # bounds (closed in floats)
                if not math.isfinite(y):
                    R.spec_fail(dict(kind="forward-nonfinite", tf=kind), f"{kind}.forward({x!r}) = {y}", inp, y); continue
                lo = meta.get("lower", -math.inf) if kind in ("sig", "sp") else -math.inf
                up = meta.get("upper", math.inf) if kind in ("sig", "nsp") else math.inf
                if not (lo <= y <= up):
                    R.spec_fail(dict(kind="out-of-bounds", tf=kind), f"{kind}.forward({x!r}) = {y!r} outside [{lo},{up}]", inp, y)
                # monotone (affine: sign of a)
                if prev is not None:
                    inc = meta["a"] > 0 if kind == "aff" else True
                    if (y < prev - 4 * ulp(prev)) if inc else (y > prev + 4 * ulp(prev)):
                        R.spec_fail(dict(kind="not-monotone", tf=kind), f"{kind}.forward not monotone at x={x!r}", inp, y, previous=prev)
                prev = y
                # round trip
                err = abs(float(xi[i]) - x)
                tol = rt_tol(meta, float(x), y)
                if tol >= 0.5:
                    R.count("roundtrip-skipped:inverse-not-representable"); continue
                if not (err <= tol):
                    if not in_roundtrip_domain(meta, float(x)):
                        R.spec_fail(dict(kind="roundtrip-fails-beyond-clip"), f"{kind}: inverse(forward({x!r})) = {xi[i]!r} (clip saturated)", inp, float(xi[i]))
                        R.known_confirmed.append("F11")
                    elif kind in ("sp", "nsp") and (x if kind == "sp" else -x) < -15.0:
                        R.spec_fail(dict(kind="softplus-inverse-cancellation"), f"{kind}: inverse(forward({x!r})) = {xi[i]!r} (exp(y)-1 cancellation)", inp, float(xi[i]), tol=tol)
                        R.known_confirmed.append("N6")
                    else:
                        R.spec_fail(dict(kind="roundtrip", tf=kind), f"{kind}: inverse(forward({x!r})) = {xi[i]!r}, error {err:.3g} > tol {tol:.3g}", inp, float(xi[i]), tol=tol)
            # forward(inverse(y)) for y inside the bounds
            if kind == "sig":
                ys = meta["lower"] + (meta["upper"] - meta["lower"]) * rng.uniform(0.001, 0.999, 50)
            elif kind == "sp":
                ys = meta["lower"] + np.concatenate([np.exp(rng.uniform(np.log(1e-3), np.log(19.9), 40)), [25.0, 50.0]])
            elif kind == "nsp":
                ys = meta["upper"] - np.concatenate([np.exp(rng.uniform(np.log(1e-3), np.log(19.9), 40)), [25.0, 50.0]])
            else:
                ys = rng.uniform(-100, 100, 50)
            back = np.asarray(tf.forward(tf.inverse(jnp.asarray(ys))), dtype=np.float64)
            for y, b in zip(ys, back):
                R.evaluations += 1
                dist = abs(y - meta.get("lower", meta.get("upper", 0.0))) if kind in ("sp", "nsp") else 0.0
                if not close(float(b), float(y), rel=1e-9, abs_=1e-9):
                    if kind in ("sp", "nsp") and dist > 20.0:
                        R.spec_fail(dict(kind="roundtrip-fails-beyond-clip"), f"{kind}: forward(inverse({y!r})) = {b!r}", dict(transform=meta, y=float(y)), float(b))
                        R.known_confirmed.append("F11")
                    else:
                        R.spec_fail(dict(kind="roundtrip-inv", tf=kind), f"{kind}: forward(inverse({y!r})) = {b!r}", dict(transform=meta, y=float(y)), float(b))
            if len(R.samples) < 5:
                R.samples.append(dict(transform=meta, x=float(xs[len(xs) // 2]), forward=float(yf[len(xs) // 2])))
            R.count(f"scalar:{kind}")
    # ------------------------------------------------------------ chains / masks
    for t in range(ntf * 2):
        n = int(rng.integers(1, 4))
        parts = [make(str(rng.choice(["sig", "sp", "nsp", "aff"])), rng) for _ in range(n)]
        chain = jt.ChainTransform([p[0] for p in parts])
        toks = ["chain", str(n)] + [tk for p in parts for tk in p[1]]
        xs = rng.uniform(-5, 5, 20)
        mask = rng.random(20) < 0.5
        yf = np.asarray(chain.forward(jnp.asarray(xs)), dtype=np.float64)
        xi = np.asarray(chain.inverse(jnp.asarray(yf)), dtype=np.float64)
        mf = [drv.parse_one(l) for l in drv.batch([" ".join(["tff", str(f2b(x))] + toks) for x in xs])]
        mtf = jt.MaskedTransform(jnp.asarray(mask), chain)
        ym = np.asarray(mtf.forward(jnp.asarray(xs)), dtype=np.float64)
        mm = [drv.parse_one(l) for l in drv.batch([" ".join(["tff", str(f2b(x)), "mask", "1" if m else "0"] + toks) for x, m in zip(xs, mask)])]
        for i in range(20):
            R.evaluations += 1
            meta = dict(chain=[p[2] for p in parts], x=float(xs[i]), mask=bool(mask[i]))
            R.distinct.add(("chain", t, i))
            if mf[i] is None or not (close(float(yf[i]), mf[i], rel=1e-9, abs_=1e-12, maxulp=256) or (math.isnan(yf[i]) and math.isnan(mf[i]))):
                R.disagree("chain-forward", input=meta, impl=float(yf[i]), model=mf[i])
            if mm[i] is None or not (close(float(ym[i]), mm[i], rel=1e-9, abs_=1e-12, maxulp=256) or (math.isnan(ym[i]) and math.isnan(mm[i]))):
                R.disagree("masked-forward", input=meta, impl=float(ym[i]), model=mm[i])
            # spec: masked entries pass through unchanged; unmasked equal the chain
            if not mask[i] and float(ym[i]) != float(xs[i]):
                R.spec_fail(dict(kind="mask-frame"), "MaskedTransform changed an unmasked entry", meta, float(ym[i]))
            if mask[i] and not (float(ym[i]) == float(yf[i]) or (math.isnan(ym[i]) and math.isnan(yf[i]))):
                R.spec_fail(dict(kind="mask-apply"), "MaskedTransform differs from the transform on a masked entry", meta, float(ym[i]))
        # inverse through the mask, on values that need not lie in the range of the inner transform (the unmasked entries of a
        # parameter vector are arbitrary numbers): unmasked entries pass through bit-identically, masked ones get the inner inverse
        ys = np.concatenate([rng.uniform(-200, 200, 10), yf[:10]])
        ys[int(rng.integers(0, 10))] = float(rng.choice([1e6, -1e6, 0.0, 150.0, -70.0]))
        inner = np.asarray(chain.inverse(jnp.asarray(ys)), dtype=np.float64)
        for label, fn in (("eager", mtf.inverse), ("jit", jax.jit(mtf.inverse))):
            got = np.asarray(fn(jnp.asarray(ys)), dtype=np.float64)
            for i in range(20):
                R.evaluations += 1
                meta = dict(chain=[p[2] for p in parts], y=float(ys[i]), mask=bool(mask[i]), mode=label)
                if not mask[i] and not (f2b(float(got[i])) == f2b(float(ys[i]))):
                    R.spec_fail(dict(kind="mask-frame", direction="inverse"), f"MaskedTransform.inverse ({label}) changed an unmasked entry {ys[i]!r} -> {got[i]!r}", meta, float(got[i]))
                if mask[i] and label == "eager" and not (float(got[i]) == float(inner[i]) or (math.isnan(got[i]) and math.isnan(inner[i]))):   # jit may fuse differently: frame only
                    R.spec_fail(dict(kind="mask-apply", direction="inverse"), f"MaskedTransform.inverse ({label}) differs from the inner inverse on a masked entry", meta, float(got[i]))
        wide = np.concatenate([rng.uniform(-800, 800, 10), xs[:10]])
        fw_in = np.asarray(chain.forward(jnp.asarray(wide)), dtype=np.float64)
        for label, fn in (("eager", mtf.forward), ("jit", jax.jit(mtf.forward))):
            got = np.asarray(fn(jnp.asarray(wide)), dtype=np.float64)
            for i in range(20):
                R.evaluations += 1
                meta = dict(chain=[p[2] for p in parts], x=float(wide[i]), mask=bool(mask[i]), mode=label)
                if not mask[i] and not (f2b(float(got[i])) == f2b(float(wide[i]))):
                    R.spec_fail(dict(kind="mask-frame", direction="forward"), f"MaskedTransform.forward ({label}) changed an unmasked entry {wide[i]!r} -> {got[i]!r}", meta, float(got[i]))
                if mask[i] and label == "eager" and not (float(got[i]) == float(fw_in[i]) or (math.isnan(got[i]) and math.isnan(fw_in[i]))):   # jit may fuse differently: frame only
                    R.spec_fail(dict(kind="mask-apply", direction="forward"), f"MaskedTransform.forward ({label}) differs from the inner transform on a masked entry", meta, float(got[i]))
        R.count(f"chain:len{n}")
    # ------------------------------------------------------------ ParamTransform: each transform hits exactly its own entry
    for t in range(ntf):
        k = int(rng.integers(1, 5))
        parts = [make(str(rng.choice(["sig", "sp", "nsp", "aff"])), rng) for _ in range(k)]
        # the list layout of `get_parameters()`: one dict per make_trainable call — the SAME parameter name may occur in several entries
        # (e.g. "radius" made trainable on two different selections) with different transforms; entries are paired by position
        names = [f"p{j}" for j in range(k)] if t % 2 == 0 else [str(rng.choice(["radius", "HH_gNa"])) for _ in range(k)]
        R.count("paramtransform:" + ("duplicate-names" if len(set(names)) < k else "unique-names"))
        params = [{nm: jnp.asarray(rng.uniform(-3, 3, int(rng.integers(1, 4))))} for nm in names]
        pt = jt.ParamTransform([{nm: p[0]} for nm, p in zip(names, parts)])
        fw = pt.forward(params)
        fj = jax.jit(pt.forward)(params)
        bk = pt.inverse(fw)
        for j, (nm, p) in enumerate(zip(names, parts)):
            exp = np.asarray(p[0].forward(params[j][nm]), dtype=np.float64)
            got = np.asarray(fw[j][nm], dtype=np.float64); gj = np.asarray(fj[j][nm], dtype=np.float64)
            R.evaluations += 1
            R.distinct.add(("param", t, j))
            if not (np.array_equal(exp, got, equal_nan=True)):
                R.spec_fail(dict(kind="paramtransform-entry"), "ParamTransform did not apply the entry's own transform", dict(entry=j, transforms=[q[2] for q in parts]), got.tolist())
            if not np.allclose(got, gj, rtol=1e-12, atol=1e-15, equal_nan=True):
                R.spec_fail(dict(kind="jit-differs", tf="param"), "ParamTransform under jit differs", dict(entry=j), gj.tolist())
            mo = [drv.parse_one(l) for l in drv.batch([" ".join(["tff", str(f2b(float(x)))] + p[1]) for x in np.asarray(params[j][nm])])]
            if not all(close(float(a), b, rel=1e-12, abs_=1e-15, maxulp=64) for a, b in zip(got, mo)):
                R.disagree("param-forward", entry=j, impl=got.tolist(), model=mo)
    R.explanation = ("theorems over ℝ on re-translated scalar transforms (bounds, monotone, round trips on the unclipped region) "
                     "and on the hand model of the combinators; implementation sampled eager + jit")
    R.assumptions = ["IEEE rounding sampled; round-trip tolerance = 1e-9 relative + 8 ulp of forward(x) divided by the analytic slope"]
    R.extra["driver_lines"] = drv.lines
    return R


def replay(args):
    import json
    R = Result("C17")
    f = json.load(open(args.replay))
    inp = f.get("input", {})
    m = inp.get("transform")
    if not m or "x" not in inp:
        R.replay_result = dict(fails=f.get("kind") != "spec-violation", note="not a scalar input"); return R
    tf = {"sig": lambda: jt.SigmoidTransform(m["lower"], m["upper"]), "sp": lambda: jt.SoftplusTransform(m["lower"]),
          "nsp": lambda: jt.NegSoftplusTransform(m["upper"]), "aff": lambda: jt.AffineTransform(m["a"], m["b"])}[m["kind"]]()
    y = float(tf.forward(inp["x"])); xb = float(tf.inverse(y))
    lo = m.get("lower", -math.inf) if m["kind"] in ("sig", "sp") else -math.inf
    up = m.get("upper", math.inf) if m["kind"] in ("sig", "nsp") else math.inf
    R.replay_result = dict(fails=not (lo <= y <= up) or abs(xb - inp["x"]) > rt_tol(m, inp["x"], y), forward=y, back=xb)
    return R


if __name__ == "__main__":
    a = parse_args()
    r = replay(a) if a.mode == "replay" else run(a)
    r.write(a.out)
