"""C04 harness: published kinetics and currents.

correspondence : generated Lean kernels (Float) vs the real gate functions / compute_current / default tables
spec predicate : IMPLEMENTATION vs Spec/Published.lean (typed from the papers) evaluated by the Lean driver;
                 rates: |impl − published| ≤ 1e-9·|published| + 1e-6 ; currents: 1e-9 relative + 1e-15
                 renaming: a renamed mechanism has the same dynamics under renamed keys.
"""
import math
import numpy as np
from common import *

setup_jax()
import jax.numpy as jnp
from jaxley.channels import HH, Na, K, Km, CaL, CaT, Leak
from jaxley.synapses import IonotropicSynapse

# (mechanism, gate fn, extra arg ranges, (spec fn for output 0, for output 1), spec-arg-builder, singular offsets)
GATES = [
    ("HH", "m_gate", [], ("HH.alpha_m", "HH.beta_m"), [(None, -40.0)]),
    ("HH", "h_gate", [], ("HH.alpha_h", "HH.beta_h"), []),
    ("HH", "n_gate", [], ("HH.alpha_n", "HH.beta_n"), [(None, -55.0)]),
    ("Na", "m_gate", [("vt", -70.0, -50.0)], ("Posp.alpha_m", "Posp.beta_m"), [(0, 13.0), (0, 40.0)]),
    ("Na", "h_gate", [("vt", -70.0, -50.0)], ("Posp.alpha_h", "Posp.beta_h"), []),
    ("K", "n_gate", [("vt", -70.0, -50.0)], ("Posp.alpha_n", "Posp.beta_n"), [(0, 15.0)]),
    ("Km", "p_gate", [("taumax", 100.0, 5000.0)], ("Posp.p_inf", "Posp.tau_p"), []),
    ("CaL", "q_gate", [], ("Posp.alpha_q", "Posp.beta_q"), [(None, -27.0)]),
    ("CaL", "r_gate", [], ("Posp.alpha_r", "Posp.beta_r"), []),
    ("CaT", "u_gate", [("vx", -5.0, 5.0)], ("Posp.u_inf", "Posp.tau_u"), []),
]
SPEC_ONE_ARG = {"Posp.p_inf", "HH.alpha_m", "HH.beta_m", "HH.alpha_h", "HH.beta_h", "HH.alpha_n", "HH.beta_n",
                "Posp.alpha_q", "Posp.beta_q", "Posp.alpha_r", "Posp.beta_r"}
CLS = dict(HH=HH, Na=Na, K=K, Km=Km, CaL=CaL, CaT=CaT, Leak=Leak, IonotropicSynapse=IonotropicSynapse)

# currents: mechanism -> (state suffixes, spec fn, arg builder(prefix, states, params, v) -> list)
CURR = {
    "HH": (["m", "h", "n"], "HH.current", lambda p, s, pr, v: [pr[f"{p}_gNa"], pr[f"{p}_gK"], pr[f"{p}_gLeak"], pr[f"{p}_eNa"], pr[f"{p}_eK"], pr[f"{p}_eLeak"], s[f"{p}_m"], s[f"{p}_h"], s[f"{p}_n"], v]),
    "Leak": ([], "Posp.leak_current", lambda p, s, pr, v: [pr[f"{p}_gLeak"], pr[f"{p}_eLeak"], v]),
    "Na": (["m", "h"], "Posp.na_current", lambda p, s, pr, v: [pr[f"{p}_gNa"], pr["eNa"], s[f"{p}_m"], s[f"{p}_h"], v]),
    "K": (["n"], "Posp.k_current", lambda p, s, pr, v: [pr[f"{p}_gK"], pr["eK"], s[f"{p}_n"], v]),
    "Km": (["p"], "Posp.km_current", lambda p, s, pr, v: [pr[f"{p}_gKm"], pr["eK"], s[f"{p}_p"], v]),
    "CaL": (["q", "r"], "Posp.cal_current", lambda p, s, pr, v: [pr[f"{p}_gCaL"], pr["eCa"], s[f"{p}_q"], s[f"{p}_r"], v]),
    "CaT": (["u"], "Posp.cat_current", lambda p, s, pr, v: [pr[f"{p}_gCaT"], pr["eCa"], s[f"{p}_u"], v, pr[f"{p}_vx"]]),
}


def run(args):
    R = Result("C04")
    rng = np.random.default_rng(args.seed)
    drv = LeanDriver()
    nrand = {"quick": 300, "thorough": 5000}[args.tier] * (4 if args.mode == "search" else 1)
    R.rule = ("per rate function: voltage grid −150..100 step 0.25 (offset 0.125) + ladders v_sing ± 10^-k (k=1..8) towards every removable singularity "
              "(the 0/0 points themselves are C03's) + seeded random (v, vt/taumax/vx); per current: random states/params; "
              "distinct = distinct argument tuples; non-trivial = published value non-zero")
    grid = np.arange(-150.0 + 0.125, 100.0, 0.25 if args.tier == "thorough" else 1.0)
    for (mech, gname, extra, specs, sing) in GATES:
        cls = CLS[mech]
        # ladder towards every removable singularity of the rate expression: v_sing ± 10^-k, k = 1..8 (default and shifted vt);
        # the published value is a smooth function there, and so must the implementation be (cancellation in x/(exp(x)-1)
        # costs about eps/|x| of relative accuracy on both sides, which the tolerance below accounts for)
        lad_v, lad_e = [], []
        for (pk, off) in sing:
            for shift in ([0.0] if pk is None else [-60.0, -52.5, -67.0]):
                for k in range(1, 9):
                    for sgn in (-1.0, 1.0):
                        lad_v.append((shift if pk is not None else 0.0) + off + sgn * 10.0 ** (-k)); lad_e.append(shift)
        nl = len(lad_v)
        vs = np.concatenate([grid, rng.uniform(-150, 100, nrand), np.asarray(lad_v, dtype=np.float64)])
        ex = []
        for (nm, lo, hi) in extra:
            dflt = {"vt": -60.0, "taumax": 4000.0, "vx": 2.0}[nm]
            ex.append(np.concatenate([np.full(len(grid), dflt), rng.uniform(lo, hi, nrand),
                                      np.asarray(lad_e, dtype=np.float64) if (nm == "vt" and nl) else np.full(nl, dflt)]))
        a, b = getattr(cls, gname)(jnp.asarray(vs), *[jnp.asarray(e) for e in ex])
        a = np.asarray(a, dtype=np.float64) * np.ones(len(vs)); b = np.asarray(b, dtype=np.float64) * np.ones(len(vs))
        # model (Gen) and Spec via the driver
        klines = [drv.kline(f"{mech}.{gname}", [vs[i]] + [e[i] for e in ex]) for i in range(len(vs))]
        mo = [drv.parse_kv(l) for l in drv.batch(klines)]
        sl = []
        for k, sp in enumerate(specs):
            for i in range(len(vs)):
                sargs = [vs[i]] if sp in SPEC_ONE_ARG else [vs[i]] + [e[i] for e in ex]
                sl.append(drv.specline(sp, sargs))
        so = [drv.parse_one(l) for l in drv.batch(sl)]
        n = len(vs)
        for i in range(n):
            R.evaluations += 1
            dist = min([abs((vs[i] - (ex[pk][i] if pk is not None else 0.0)) - off) for (pk, off) in sing] or [1.0])
            if dist < 1e-9:          # exactly at / within a few ulps of the 0/0 point: C03's enumeration (known finding F4)
                R.count("skipped-at-singularity"); continue
            if dist < 1e-1:
                R.count("near-singular-ladder")
            reltol = 1e-9 + 1e-14 / dist
            inp = dict(fn=f"{mech}.{gname}", v=float(vs[i]), **{nm: float(e[i]) for (nm, _, _), e in zip(extra, ex)})
            for k, (yi, nmk) in enumerate(((a[i], "0"), (b[i], "1"))):
                ym = mo[i][nmk] if mo[i] else None
                ys = so[k * n + i]
                if ym is None or not close(float(yi), ym, rel=reltol, abs_=1e-13, maxulp=512):
                    R.disagree("rate", fn=f"{mech}.{gname}", out=k, impl=float(yi), model=ym, input=inp)
                if ys is None:
                    continue
                if ys != 0:
                    R.distinct.add((mech, gname, k, float(vs[i]), tuple(float(e[i]) for e in ex)))
                if not (abs(float(yi) - ys) <= reltol * abs(ys) + 1e-6):
                    vx_sum = vs[i] + ex[0][i] if mech == "CaT" else None
                    if mech == "CaT" and k == 1 and vx_sum > -20.0:
                        sig = dict(kind="clip-changes-kinetics", fn="CaT.tau_u")
                        R.known_confirmed.append("N4")
                    else:
                        sig = dict(kind="rate-differs-from-published", fn=f"{mech}.{gname}", out=k)
                    R.spec_fail(sig, f"{mech}.{gname} output {k}: implementation {float(yi)!r} vs published {ys!r}",
                                inp, float(yi), published=ys)
        R.count(f"gate:{mech}.{gname}", n)
        if len(R.samples) < 6:
            R.samples.append(dict(fn=f"{mech}.{gname}", v=float(vs[n // 2]), impl=[float(a[n // 2]), float(b[n // 2])],
                                  published=[so[n // 2], so[n + n // 2]]))
    # ---- currents
    for mech, (sfx, spec, build) in CURR.items():
        for prefix in (mech, "renamed"):
            inst = CLS[mech]()
            if prefix != mech:
                inst.change_name(prefix)
            pk = list(inst.channel_params.keys())
            n = nrand
            vs = rng.uniform(-150, 100, n)
            S = {f"{prefix}_{s}": rng.uniform(0, 1, n) for s in sfx}
            P = {}
            for k in pk:
                d = inst.channel_params[k]
                P[k] = rng.uniform(-100, 130, n) if (k.startswith("e") or "_e" in k or k in ("vt",)) else np.exp(rng.uniform(np.log(1e-6), np.log(1.0), n)) if ("_g" in k) else rng.uniform(0.5 * d, 1.5 * d, n) if d > 0 else rng.uniform(1.5 * d, 0.5 * d, n)
            cur = np.asarray(inst.compute_current({k: jnp.asarray(v) for k, v in S.items()}, jnp.asarray(vs), {k: jnp.asarray(v) for k, v in P.items()}), dtype=np.float64)
            kl = [drv.kline(f"{mech}.compute_current", [vs[i]], pfx=prefix, states={k: S[k][i] for k in S}, params={k: P[k][i] for k in P}) for i in range(n)]
            mo = [drv.parse_kv(l) for l in drv.batch(kl)]
            sl = [drv.specline(spec, build(prefix, {k: S[k][i] for k in S}, {k: P[k][i] for k in P}, vs[i])) for i in range(n)]
            so = [drv.parse_one(l) for l in drv.batch(sl)]
            for i in range(n):
                R.evaluations += 1
                inp = dict(fn=f"{mech}.compute_current", prefix=prefix, v=float(vs[i]), states={k: float(S[k][i]) for k in S}, params={k: float(P[k][i]) for k in P})
                ym = mo[i][""] if mo[i] else None
                if ym is None or not close(float(cur[i]), ym, rel=1e-10, abs_=1e-18, maxulp=64):
                    R.disagree("current", fn=f"{mech}.compute_current", impl=float(cur[i]), model=ym, input=inp)
                if so[i] is not None and not close(float(cur[i]), so[i], rel=1e-9, abs_=1e-15, maxulp=64):
                    R.spec_fail(dict(kind="current-differs-from-published", fn=f"{mech}.compute_current"),
                                f"{mech}.compute_current: implementation {float(cur[i])!r} vs published {so[i]!r}", inp, float(cur[i]), published=so[i])
                if so[i]:
                    R.distinct.add((mech, "current", prefix, float(vs[i])))
            R.count(f"current:{mech}:{prefix}", n)
    # ---- the DYNAMICS follow the published kinetics: update_states relaxes every gate toward the published steady state with the
    #      published time constant, for non-default shift parameters too (exponential-Euler closed form, property C03)
    nd = max(60, nrand // 4)
    for (mech, gname, extra, specs, sing) in GATES:
        inst = CLS[mech]()
        sfx = gname.split("_")[0]
        vs = rng.uniform(-150, 100, nd)
        ex = [rng.uniform(lo, hi, nd) for (nm, lo, hi) in extra]
        keyof = {"vt": "vt", "taumax": f"{mech}_taumax", "vx": f"{mech}_vx"}
        P = {k: np.full(nd, float(d)) for k, d in inst.channel_params.items()}
        for (nm, lo, hi), e in zip(extra, ex):
            P[keyof[nm]] = e
        S = {k: rng.uniform(0, 1, nd) for k in inst.channel_states}
        sl = []
        for sp in specs:
            for i in range(nd):
                sl.append(drv.specline(sp, [vs[i]] if sp in SPEC_ONE_ARG else [vs[i]] + [e[i] for e in ex]))
        so = [drv.parse_one(l) for l in drv.batch(sl)]
        for dt in (0.025, 1.0):
            out = inst.update_states({k: jnp.asarray(v) for k, v in S.items()}, dt, jnp.asarray(vs), {k: jnp.asarray(v) for k, v in P.items()})
            got = np.asarray(out[f"{mech}_{sfx}"], dtype=np.float64) * np.ones(nd)
            for i in range(nd):
                o0, o1 = so[i], so[nd + i]
                if o0 is None or o1 is None:
                    continue
                if any(abs((vs[i] - (ex[pk][i] if pk is not None else 0.0)) - off) < 1e-3 for (pk, off) in sing):
                    continue
                if mech == "CaT" and vs[i] + ex[0][i] > -20.0:      # known finding N4 (clipped time constant), reported by the rate check
                    continue
                if specs[0].endswith("_inf"):
                    xinf, tau = o0, o1
                else:
                    if o0 + o1 == 0:
                        continue
                    xinf, tau = o0 / (o0 + o1), 1.0 / (o0 + o1)
                x0 = S[f"{mech}_{sfx}"][i]
                want = xinf + (x0 - xinf) * math.exp(-dt / tau) if tau > 0 else xinf
                R.evaluations += 1
                if not (abs(got[i] - want) <= 1e-7):
                    R.spec_fail(dict(kind="dynamics-differ-from-published", mech=mech, gate=sfx),
                                f"{mech}.update_states: gate {sfx} moves from {x0!r} to {got[i]!r}; the published kinetics give {want!r}",
                                dict(mech=mech, gate=sfx, v=float(vs[i]), dt=dt, x=float(x0), params={k: float(v[i]) for k, v in P.items()}), float(got[i]), published=want)
        R.count(f"dynamics:{mech}.{sfx}", nd)
    # ---- renaming changes only the names: every method of a renamed channel returns, under the renamed keys, bit-identical values
    for mech in ("HH", "Na", "K", "Km", "CaL", "CaT", "Leak"):
        a = CLS[mech](); b = CLS[mech](); b.change_name("ren" + mech)
        ren = lambda k: ("ren" + k) if k.startswith(mech + "_") else k
        n = 40
        vs = rng.uniform(-150, 100, n)
        S = {k: rng.uniform(0, 1, n) for k in a.channel_states}
        P = {}
        for k, d in a.channel_params.items():
            P[k] = rng.uniform(-100, 60, n) if (k.startswith("e") or "_e" in k or k == "vt") else rng.uniform(0.5 * d, 1.5 * d, n) if d > 0 else rng.uniform(1.5 * d, 0.5 * d, n) if d < 0 else rng.uniform(-3, 3, n)
        Sa, Pa = {k: jnp.asarray(v) for k, v in S.items()}, {k: jnp.asarray(v) for k, v in P.items()}
        Sb, Pb = {ren(k): v for k, v in Sa.items()}, {ren(k): v for k, v in Pa.items()}
        inp = dict(mech=mech, renamed_to="ren" + mech)
        R.evaluations += 1
        if sorted(b.channel_params) != sorted(map(ren, a.channel_params)) or sorted(b.channel_states) != sorted(map(ren, a.channel_states)):
            R.spec_fail(dict(kind="rename-changes-names-wrongly", mech=mech), f"change_name: parameters/states {sorted(b.channel_params)} / {sorted(b.channel_states)}", inp, None)
        for meth, call in (("update_states", lambda c, S_, P_: c.update_states(S_, 0.025, jnp.asarray(vs), P_)),
                           ("init_state", lambda c, S_, P_: c.init_state(S_, jnp.asarray(vs), P_, 0.025)),
                           ("compute_current", lambda c, S_, P_: {"": c.compute_current(S_, jnp.asarray(vs), P_)})):
            try:
                oa = call(a, Sa, Pa); ob = call(b, Sb, Pb)
            except Exception as ex:
                R.spec_fail(dict(kind="renamed-mechanism-raises", mech=mech, method=meth), f"{mech}.{meth} raises {type(ex).__name__} for the renamed channel", inp, repr(ex)[:200]); continue
            if sorted(ob) != sorted(map(ren, oa)):
                R.spec_fail(dict(kind="renamed-mechanism-keys", mech=mech, method=meth), f"{mech}.{meth}: renamed channel returns keys {sorted(ob)}, expected {sorted(map(ren, oa))}", inp, sorted(ob)); continue
            for k in oa:
                x, y = np.asarray(oa[k], dtype=np.float64) * np.ones(n), np.asarray(ob[ren(k)], dtype=np.float64) * np.ones(n)
                if not np.array_equal(x, y, equal_nan=True):
                    R.spec_fail(dict(kind="renamed-mechanism-differs", mech=mech, method=meth), f"{mech}.{meth}: renamed channel returns different values for {k}", inp, float(np.nanmax(np.abs(x - y))))
    R.count("rename-invariance", 7)
    # ---- synapse current (Abbott & Marder)
    syn = IonotropicSynapse()
    n = nrand
    g, e, s, vpost = np.exp(rng.uniform(-14, 0, n)), rng.uniform(-90, 20, n), rng.uniform(0, 1, n), rng.uniform(-150, 100, n)
    cur = np.asarray(syn.compute_current({"IonotropicSynapse_s": jnp.asarray(s)}, jnp.asarray(vpost) * 0, jnp.asarray(vpost),
                                         {"IonotropicSynapse_gS": jnp.asarray(g), "IonotropicSynapse_e_syn": jnp.asarray(e)}), dtype=np.float64)
    so = [drv.parse_one(l) for l in drv.batch([drv.specline("AM.current", [g[i], e[i], s[i], vpost[i]]) for i in range(n)])]
    for i in range(n):
        R.evaluations += 1
        if not close(float(cur[i]), so[i], rel=1e-9, abs_=1e-18):
            R.spec_fail(dict(kind="current-differs-from-published", fn="IonotropicSynapse.compute_current"),
                        "IonotropicSynapse current differs from Abbott-Marder", dict(g=g[i], e=e[i], s=s[i], vpost=vpost[i]), float(cur[i]), published=so[i])
    # synapse steady state / time constant via one long update from the steady state (fixed point) and the
    # relaxation rate of a short update
    vpre = rng.uniform(-150, 100, n); km = np.exp(rng.uniform(np.log(1e-3), 0, n)); dt = 0.025
    s0 = rng.uniform(0, 1, n)
    new = np.asarray(syn.update_states({"IonotropicSynapse_s": jnp.asarray(s0)}, dt, jnp.asarray(vpre), jnp.asarray(vpre),
                                       {"IonotropicSynapse_k_minus": jnp.asarray(km)})["IonotropicSynapse_s"], dtype=np.float64)
    sinf = [drv.parse_one(l) for l in drv.batch([drv.specline("AM.s_inf", [vpre[i]]) for i in range(n)])]
    taus = [drv.parse_one(l) for l in drv.batch([drv.specline("AM.tau_s", [vpre[i], km[i]]) for i in range(n)])]
    cf = [drv.parse_one(l) for l in drv.batch([drv.specline("gateClosedForm", [s0[i], dt, sinf[i], taus[i]]) for i in range(n)])]
    for i in range(n):
        R.evaluations += 1
        if math.isfinite(cf[i]) and not close(float(new[i]), cf[i], rel=1e-9, abs_=1e-12):
            R.spec_fail(dict(kind="synapse-kinetics-differ", fn="IonotropicSynapse.update_states"),
                        "IonotropicSynapse update differs from Abbott-Marder s_inf/tau_s closed form",
                        dict(vpre=float(vpre[i]), k_minus=float(km[i]), s=float(s0[i]), dt=dt), float(new[i]), published=cf[i])
    # ---- default tables
    for mech in ["HH", "Leak", "Na", "K", "Km", "CaL", "CaT", "IonotropicSynapse"]:
        for prefix in (mech, "foo"):
            inst = CLS[mech]() if mech != "IonotropicSynapse" or prefix == mech else IonotropicSynapse(prefix)
            if prefix != mech and mech != "IonotropicSynapse":
                inst.change_name(prefix)
            tab = dict(getattr(inst, "channel_params", None) or inst.synapse_params)
            tname = f"{mech}.channel_params" if mech != "IonotropicSynapse" else f"{mech}.synapse_params"
            mo, so = drv.batch([drv.kline(tname, [], pfx=prefix), f"specdefaults {mech} {prefix}"])
            mo, so = drv.parse_kv(mo), drv.parse_kv(so)
            R.evaluations += 1
            if mo != {k: float(v) for k, v in tab.items()}:
                R.disagree("defaults", mech=mech, prefix=prefix, impl=tab, model=mo)
            if so != {k: float(v) for k, v in tab.items()}:
                R.spec_fail(dict(kind="defaults-differ", mech=mech), f"{mech} default parameters differ from the documented ones",
                            dict(mech=mech, prefix=prefix), tab, published=so)
    R.explanation = ("Gen.f = Spec.f theorems over ℝ on the unclipped region; float layer: implementation vs the Spec "
                     "(published formulas) evaluated by the Lean driver on grids and random inputs")
    R.assumptions = ["published formulas typed by hand into Spec/Published.lean", "IEEE rounding / XLA exp sampled"]
    R.extra["driver_lines"] = drv.lines
    return R


def replay(args):
    import json
    R = Result("C04")
    f = json.load(open(args.replay))
    inp = f.get("input", {})
    if "fn" not in inp or "gate" not in inp["fn"]:
        R.replay_result = dict(fails=bool(f.get("kind") != "spec-violation"), note="replay of non-gate input not executed")
        return R
    mech, gname = inp["fn"].split(".")
    extra = [inp[k] for k in ("vt", "taumax", "vx") if k in inp]
    out = getattr(CLS[mech], gname)(jnp.asarray(inp["v"]), *extra)
    obs = [float(out[0]), float(out[1])]
    pub = f.get("published")
    R.replay_result = dict(fails=True if pub is None else not any(close(o, pub, rel=1e-9, abs_=1e-6) for o in obs), observed=obs, published=pub)
    return R


if __name__ == "__main__":
    a = parse_args()
    r = replay(a) if a.mode == "replay" else run(a)
    r.write(a.out)
