"""C01 harness: every voltage step is the exact solution of the discretised cable equation.

For random compartments / branches / cells / networks and every (solver, backend):
  implementation : one `integrate` step of the real jaxley (Leak channel with per-compartment g, E + stimuli)
  model          : Lean `Model.Cable` (code-shaped assembly through the generated conductance kernels, solved by the
                   proved abstract Hines solver) executed in exact rational arithmetic
  spec predicate : normwise row residual of the IMPLEMENTATION's voltages against `Spec.Cable` (raw physics with
                   explicit units), computed by the Lean driver in exact rational arithmetic  (≤ 1e-9)
  refusals       : NotImplementedError (forward Euler on branched cells) and AssertionError (jaxley backends on
                   networks whose cells differ in per-level width) are allowed and must match the model's refusal
"""
import math, sys, os
import numpy as np
from common import *
from cablelib import *

TOL_BWD = 1e-9
TOL_DIFF = 1e-6


def check_case(R, drv, d, mod, n, dt, offset, tag, combos):
    """run all combos for the cell `d` embedded in module `mod` at node offset; returns per-combo voltages"""
    results = {}
    lines, meta = [], []
    for solver, backend in combos:
        st, x = one_step(mod, mod.nodes.shape[0], pad_stim(d, offset, mod.nodes.shape[0]), dt, solver, backend)
        R.evaluations += 1
        R.count(f"{tag}:{solver}:{backend}:{st}")
        if st == "refused":
            results[(solver, backend)] = ("refused", x)
            continue
        xs = x[offset:offset + n]
        results[(solver, backend)] = ("ok", xs)
        lines.append(cable_line(d, dt, xs, solver)); meta.append((solver, backend, xs))
    outs = [parse_cable(l) for l in drv.batch(lines)]
    for (solver, backend, xs), o in zip(meta, outs):
        inp = dict(cell=d, dt=dt, solver=solver, backend=backend, module=tag)
        if o is None:
            R.disagree("driver-error", input=inp); continue
        if o["refused"]:
            R.disagree("model-refuses-but-implementation-answers", input=inp); continue
        scale = 1.0 + max(abs(v) for v in o["model"])
        if not (o["maxdiff"] <= TOL_DIFF * scale):
            R.disagree("voltages", input=inp, impl=xs.tolist(), model=o["model"], maxdiff=o["maxdiff"])
        if not (o["bwderr"] <= TOL_BWD):
            R.spec_fail(dict(kind="not-a-solution", solver=solver, backend=backend if solver != "fwd_euler" else "-"),
                        f"{solver}/{backend}: relative row residual {o['bwderr']:.3g} of the returned voltages against the cable equation",
                        inp, xs.tolist(), bwderr=o["bwderr"], exact_solution=o["model"])
        if not (o["modelres"] == 0.0):
            R.disagree("model-not-exact", input=inp, modelres=o["modelres"])
        R.extra.setdefault("max_bwderr", 0.0)
        R.extra["max_bwderr"] = max(R.extra["max_bwderr"], o["bwderr"] if math.isfinite(o["bwderr"]) else 1e300)
    # refusals must be legitimate
    branched = len(d["parents"]) > 1
    for (solver, backend), (st, x) in results.items():
        if st == "refused":
            ok = (solver == "fwd_euler" and x in ("NotImplementedError", "TypeError") and tag_is_branched(tag, branched)) or \
                 (backend.startswith("jaxley") and x == "AssertionError" and tag.startswith("net"))
            if not ok:
                R.spec_fail(dict(kind="illegitimate-refusal", solver=solver, backend=backend), f"{solver}/{backend} refuses with {x}",
                            dict(cell=d, dt=dt, module=tag), x)
    return results


def check_jsolve(R, drv, mod, istim, dt, inp):
    """the code-shaped model of the custom solver (Model.SolveJaxley: padded flat layout, level schedule, Thomas rows, branch-point
    elimination) on the arrays and the indexer the implementation itself built: Float model == implementation's `solves`;
    in exact arithmetic the flat model == the abstract Hines recursion on the rose tree of the same system"""
    from jsolvelib import capture, jsolve_line, parse_jsolve
    for backend in ("jaxley.thomas", "jaxley.stone"):
        rec = capture(mod, istim, dt, backend)
        if rec is None:
            R.count(f"jsolve:{backend}:refused"); continue
        o_r, o_f = [parse_jsolve(l) for l in drv.batch([jsolve_line(rec, "rat"), jsolve_line(rec, "float")])]
        R.evaluations += 1
        R.count(f"jsolve:{backend}:ok")
        ji = dict(inp, backend=backend, layout=dict(cumsum=[int(x) for x in rec["idx"].cumsum_ncomp], ncomp=[int(x) for x in rec["idx"].ncomp_per_branch]))
        if o_r is None or o_f is None:
            R.disagree("jsolve-driver-error", input=ji); continue
        if not o_r["exact"]:
            R.disagree("flat-solver-model-differs-from-hines-recursion", input=ji)
        if not o_r["wf"]:        # hypothesis of the solver theorems: the schedule the code generated is a valid elimination order
            R.disagree("schedule-not-well-formed", input=ji, levels=[np.asarray(c).tolist() for c in (rec["idx"].children_in_level or [])],
                       parents=[np.asarray(c).tolist() for c in (rec["idx"].parents_in_level or [])])
        if not o_r["piv"]:       # second hypothesis of `solve_correct`: no divisor of the elimination vanishes (exact arithmetic)
            R.disagree("solver-meets-zero-pivot", input=ji)
        if not o_r["sat"]:       # its conclusion, evaluated: the result satisfies every row of the system the arrays denote
            R.disagree("flat-solver-model-does-not-solve-its-system", input=ji)
        R.count("jsolve:padding-identity" if o_r["pad"] else "jsolve:padding-not-identity")
        # the ARRAY ASSEMBLY of step_voltage_implicit_with_jaxley_spsolve (Model.AssembleJaxley) on the captured inputs: the model's arrays
        # are the arrays the code handed to the solver; the structural hypothesis of the assembly theorems holds for the captured edge
        # table; in exact arithmetic the values read back satisfy the physical edge-list system (conclusion of
        # `jaxley_backend_solves_physical_system`, evaluated); the implementation's voltages equal the exact read-back
        if backend == "jaxley.thomas" and "asm" in rec:
            from jsolvelib import jasm_line, parse_jasm
            a_r, a_f = [parse_jasm(l) for l in drv.batch([jasm_line(rec, "rat"), jasm_line(rec, "float")])]
            R.evaluations += 1
            if a_r is None or a_f is None:
                R.disagree("jasm-driver-error", input=ji)
            else:
                R.count("jasm:ok")
                if not a_r["ewf"]:
                    R.disagree("edge-table-not-well-formed", input=ji)
                if not a_r["phys"]:
                    R.disagree("assembled-and-solved-model-does-not-satisfy-physical-system", input=ji)
                lowers, diags, uppers, solves, cc, cp, wc, wp, bpd, bps = rec["in"]
                for nm_, cap in (("diags", diags), ("lowers", lowers), ("uppers", uppers), ("solves", solves), ("bpd", bpd), ("bps", bps),
                                 ("cc", cc), ("wc", wc), ("cp", cp), ("wp", wp)):
                    cap = np.asarray(cap, dtype=np.float64).ravel(); mdl = a_f["arrays"][nm_]
                    if cap.shape != mdl.shape or (cap.size and not np.allclose(cap, mdl, rtol=1e-12, atol=1e-300)):
                        R.disagree("assembled-array", array=nm_, input=ji, impl=cap.tolist(), model=mdl.tolist())
                vimpl = np.asarray(rec["v"], dtype=np.float64)
                if a_r["x"].shape != vimpl.shape or not (np.max(np.abs(a_r["x"] - vimpl)) <= TOL_DIFF * (1.0 + float(np.max(np.abs(vimpl))))):
                    R.disagree("assembled-solved-voltages", input=ji, impl=vimpl.tolist(), model=a_r["x"].tolist())
        out = rec["out"]
        scale = 1.0 + float(np.max(np.abs(out)))
        xf, xr = np.asarray(o_f["x"]), np.asarray(o_r["x"])
        if xf.shape != out.shape or not (np.max(np.abs(xf - out)) <= 1e-9 * scale):
            R.disagree("solver-arrays", input=ji, impl=out.tolist(), model_float=xf.tolist())
        if not (np.max(np.abs(xr - out)) <= TOL_DIFF * scale):
            R.disagree("solver-arrays-exact", input=ji, impl=out.tolist(), model_exact=xr.tolist())
        R.extra["jsolve_max_float_diff"] = max(R.extra.get("jsolve_max_float_diff", 0.0), float(np.max(np.abs(xf - out)) / scale))


def tag_is_branched(tag, branched):
    return branched or tag.startswith("net")


def pad_stim(d, offset, total):
    s = [0.0] * total
    for i, v in enumerate(d["istim"]):
        s[offset + i] = v
    return s


def check_net(R, drv, ds, same, dt, combos):
    k = len(ds)
    cells = []
    for d in ds:
        comp = jx.Compartment()
        cells.append(jx.Cell([jx.Branch([comp] * kk) for kk in d["ncomp"]], parents=d["parents"]))
    net = jx.Network(cells)
    off = 0
    net.insert(Leak())
    for ci, d in enumerate(ds):
        n = sum(d["ncomp"])
        v = net.cell(ci)
        v.set("radius", np.asarray(d["r"])); v.set("length", np.asarray(d["l"]))
        v.set("axial_resistivity", np.asarray(d["ra"])); v.set("capacitance", np.asarray(d["cm"]))
        v.set("Leak_gLeak", np.asarray(d["g"])); v.set("Leak_eLeak", np.asarray(d["e"])); v.set("v", np.asarray(d["v"]))
    # one implementation run per combo with all stimuli; each cell checked against its own model
    total = net.nodes.shape[0]
    allstim = [0.0] * total
    off = 0
    for d in ds:
        for i, vv in enumerate(d["istim"]):
            allstim[off + i] = vv
        off += sum(d["ncomp"])
    check_jsolve(R, drv, net, allstim, dt, dict(cells=ds, dt=dt, module=f"network of {k}"))
    for solver, backend in combos:
        st, x = one_step(net, total, allstim, dt, solver, backend)
        R.evaluations += 1
        R.count(f"net{k}{'same' if same else 'diff'}:{solver}:{backend}:{st}")
        if st == "refused":
            ok = (solver == "fwd_euler" and x in ("NotImplementedError", "TypeError")) or (backend.startswith("jaxley") and x == "AssertionError" and not same)
            if not ok:
                R.spec_fail(dict(kind="illegitimate-refusal", solver=solver, backend=backend), f"network: {solver}/{backend} refuses with {x}",
                            dict(cells=ds, dt=dt), x)
            continue
        off = 0
        lines, meta = [], []
        for d in ds:
            n = sum(d["ncomp"])
            lines.append(cable_line(d, dt, x[off:off + n], solver)); meta.append((d, x[off:off + n])); off += n
        for (d, xs), o in zip(meta, [parse_cable(l) for l in drv.batch(lines)]):
            inp = dict(cell=d, dt=dt, solver=solver, backend=backend, module=f"network of {k}")
            if o is None or o["refused"]:
                R.disagree("model-refuses-but-implementation-answers", input=inp); continue
            if not (o["maxdiff"] <= TOL_DIFF * (1 + max(abs(v) for v in o["model"]))):
                R.disagree("voltages", input=inp, impl=xs.tolist(), model=o["model"], maxdiff=o["maxdiff"])
            if not (o["bwderr"] <= TOL_BWD):
                R.spec_fail(dict(kind="not-a-solution", solver=solver, backend=backend if solver != "fwd_euler" else "-"),
                            f"network, {solver}/{backend}: relative row residual {o['bwderr']:.3g}", inp, xs.tolist(), bwderr=o["bwderr"], exact_solution=o["model"])
    for d in ds:
        if len(d["parents"]) > 1 and len(set(d["ncomp"])) > 1:
            R.distinct.add(json.dumps([d["parents"], d["ncomp"], "net"]))


# regression corpus: morphologies on which a past version of the code was wrong (F1, N3, N7) and structural corner cases
# (non-topological labelling, reversed chains, stars); they run first, in every tier, spread over the shards
CORPUS = [
    ("cell", [-1, 0, 0, 1], [2, 2, 3, 1]),          # F1
    ("cell", [-1, 2, 0], [2, 3, 1]),                # N3
    ("cell", [-1, 2, 0], [2, 2, 2]),                # N3, equal ncomp
    ("cell", [-1, 3, 0, 0, 2], [1, 2, 3, 2, 1]),
    ("cell", [-1, 4, 1, 0, 0], [3, 1, 2, 2, 4]),
    ("cell", [-1, 2, 3, 4, 0], [2, 1, 3, 1, 2]),    # chain labelled backwards
    ("cell", [-1, 0, 0, 0, 0], [3, 1, 2, 1, 4]),    # star
    ("cell", [-1, 0, 1, 2, 3, 2, 1, 0], [1, 4, 1, 3, 2, 2, 1, 3]),
    ("net", [-1], [1]),                             # N7: network of point neurons
    ("net", [-1, 0, 0], [1, 1, 1]),
    ("net", [-1, 2, 0], [2, 1, 2]),
    # networks of cells of DIFFERENT depth / shape (a jaxley backend may refuse them, never answer differently)
    ("netdiff", [[-1, 0, 0], [-1, 0, 0, 1, 1]], [[2, 2, 2], [2, 2, 2, 2, 2]]),
    ("netdiff", [[-1, 0, 1, 1], [-1, 0, 0]], [[1, 1, 1, 1], [1, 1, 1]]),
    ("netdiff", [[-1], [-1, 0, 1, 2]], [[3], [3, 3, 3, 3]]),
    # N15: networks of UNBRANCHED cells with different compartment counts (forward Euler used to reshape to (nbranches, -1))
    ("netdiff", [[-1], [-1]], [[1], [3]]),
    ("netdiff", [[-1], [-1]], [[2], [4]]),
    ("netdiff", [[-1], [-1], [-1]], [[1], [2], [3]]),
    ("netdiff", [[-1], [-1], [-1]], [[3], [1], [4]]),
]


def run(args):
    R = Result("C01")
    R.export_distinct = True
    if args.shard < 0:
        nsh = 8 if args.tier == "quick" else 16
        R = run_sharded(os.path.abspath(__file__), args, nsh, "C01")
        R.extra["shards"] = nsh
        return R
    rng = np.random.default_rng([args.seed, args.shard])
    drv = LeanDriver()
    ncases = {"quick": 3, "thorough": 30}[args.tier] * (2 if args.mode == "search" else 1)
    combos = [(s, b) for s in ("bwd_euler", "crank_nicolson") for b in BACKENDS] + [("fwd_euler", "jaxley.stone")]
    R.rule = ("random parent vectors (random/chain/star), per-branch compartment counts drawn from {equal, narrow parent, wide child, "
              "singles, random}, log-uniform r,l,ρ,c,g over 2-3 decades, random v, E, stimuli, dt log-uniform in [1e-4,1e3]; "
              "modules: compartment, branch, cell, network of 1-3 cells; all 7 (solver, backend) pairs each. distinct = distinct "
              "(parents, ncomp) pairs; non-trivial = at least one branch point and non-constant ncomp")
    nsh = 8 if args.tier == "quick" else 16
    for ci, (kind, parents, ncomp) in enumerate(CORPUS):
        if ci % nsh != args.shard % nsh:
            continue
        dt = float(np.exp(rng.uniform(np.log(1e-3), np.log(1e2))))
        if kind == "cell":
            d = random_cell_desc(rng, morph=(parents, ncomp))
            cm_ = build_cell(d)
            check_case(R, drv, d, cm_, sum(ncomp), dt, 0, "cell", combos)
            check_jsolve(R, drv, cm_, d["istim"], dt, dict(cell=d, dt=dt))
            R.distinct.add(json.dumps([parents, ncomp]))
        elif kind == "netdiff":
            ds = [random_cell_desc(rng, morph=(p_, n_)) for p_, n_ in zip(parents, ncomp)]
            check_net(R, drv, ds, False, dt, combos)
        else:
            ds = [random_cell_desc(rng, morph=(parents, ncomp)) for _ in range(3)]
            check_net(R, drv, ds, True, dt, combos)
        R.count("corpus")
    for t in range(ncases):
        dt = float(np.exp(rng.uniform(np.log(1e-4), np.log(1e3))))
        which = ["cell", "cell", "net", "branch", "comp"][(t + args.shard) % 5]
        if which == "comp":
            d = random_cell_desc(rng, 1, 1)
            d["ncomp"] = [1]; d["parents"] = [-1]
            for k in ("r", "l", "ra", "cm", "g", "e", "v", "istim"):
                d[k] = d[k][:1]
            mod = jx.Compartment(); apply_desc(mod, d)
            check_case(R, drv, d, mod, 1, dt, 0, "comp", combos)
        elif which == "branch":
            d = random_cell_desc(rng, 1, 6)
            mod = jx.Branch([jx.Compartment()] * d["ncomp"][0]); apply_desc(mod, d)
            check_case(R, drv, d, mod, d["ncomp"][0], dt, 0, "branch", combos)
        elif which == "cell":
            d = random_cell_desc(rng, 7, 4)
            mod = build_cell(d)
            check_case(R, drv, d, mod, sum(d["ncomp"]), dt, 0, "cell", combos)
            check_jsolve(R, drv, mod, d["istim"], dt, dict(cell=d, dt=dt))
            if len(d["parents"]) > 1 and len(set(d["ncomp"])) > 1:
                R.distinct.add(json.dumps([d["parents"], d["ncomp"]]))
            if len(R.samples) < 2:
                R.samples.append(dict(module="cell", parents=d["parents"], ncomp=d["ncomp"], dt=dt))
        else:
            k = int(rng.integers(1, 4))
            same = rng.random() < 0.6
            ds = [random_cell_desc(rng, 4, 3) for _ in range(k)]
            if same:  # identical morphology so that the jaxley backends accept the network
                ds = [ds[0]] + [random_cell_desc(rng, morph=(ds[0]["parents"], ds[0]["ncomp"])) for _ in range(k - 1)]
            check_net(R, drv, ds, same, dt, combos)
    R.explanation = ("Hines correctness + pivot positivity proved for every tree system; implementation voltages checked in exact "
                     "rational arithmetic against the physics Spec and against the code-shaped model")
    R.assumptions = ["floating-point rounding of the elimination is measured (backward error), not proved",
                     "tridiax.stone and jax.experimental.sparse.linalg.spsolve are exercised, not modelled",
                     "the custom solver is proved correct for every well-formed schedule (custom_solver_correct / _unique / _correct_cable); that the CAPTURED schedule is well formed and its pivots do not vanish is evaluated per case (wf=, piv=)"]
    R.extra["driver_lines"] = drv.lines
    return R


def replay(args):
    R = Result("C01")
    f = json.load(open(args.replay))
    inp = f.get("input", {})
    if "cell" not in inp:
        R.replay_result = dict(fails=f.get("kind") != "spec-violation", note="no concrete input in replay"); return R
    d = inp["cell"]
    mod = build_cell(d)
    st, x = one_step(mod, sum(d["ncomp"]), d["istim"], inp["dt"], inp["solver"], inp["backend"])
    if st == "refused":
        R.replay_result = dict(fails=True, refused=x); return R
    o = parse_cable(LeanDriver().batch([cable_line(d, inp["dt"], x, inp["solver"])])[0])
    R.replay_result = dict(fails=not (o["bwderr"] <= TOL_BWD), bwderr=o["bwderr"], voltages=x.tolist(), exact=o["model"])
    return R


if __name__ == "__main__":
    a = parse_args()
    r = replay(a) if a.mode == "replay" else run(a)
    r.write(a.out)
