"""C02 harness: charge conservation, no overshoot, uniformity, reciprocity — Spec predicates evaluated on the
IMPLEMENTATION's one-step outputs for dt in {1e-3 … 1e9}, all backends, all ordered pairs (i, j) of small cells.

charge balance (backward Euler) is evaluated by the Lean driver in exact rational arithmetic on the implementation's
voltages (`Model.Cable.chargeBalance`, physics from Spec.Cable); Crank–Nicolson charge balance in double arithmetic.
The model<->implementation correspondence of the same runs is the C01 harness.
"""
import math, os
import numpy as np
from common import *
from cablelib import *

DTS = [1e-3, 0.025, 1.0, 1e3, 1e6, 1e9]


def spec_quantities(d):
    n = sum(d["ncomp"])
    A = [2 * math.pi * d["r"][i] * d["l"][i] * 1e-8 for i in range(n)]
    C = [d["cm"][i] * A[i] for i in range(n)]
    return A, C


def run(args):
    R = Result("C02")
    R.export_distinct = True
    if args.shard < 0:
        nsh = 8 if args.tier == "quick" else 16
        R = run_sharded(os.path.abspath(__file__), args, nsh, "C02")
        return R
    rng = np.random.default_rng([args.seed, args.shard, 2])
    drv = LeanDriver()
    ncells = {"quick": 1, "thorough": 6}[args.tier] * (2 if args.mode == "search" else 1)
    R.rule = ("random small cells (<= 4 branches, <= 3 comps per branch), dt in {1e-3,0.025,1,1e3,1e6,1e9}, backends stone/thomas/sparse; "
              "per cell: charge balance with random stimuli (bwd exact in Rat, CN in double), passive no-overshoot, uniform rest, "
              "reciprocity over ALL ordered pairs (i,j). distinct = (parents, ncomp, dt, backend); non-trivial = >= 2 compartments")
    for t in range(ncells):
        d = random_cell_desc(rng, 4, 3)
        n = sum(d["ncomp"])
        cell = build_cell(d)
        A, C = spec_quantities(d)
        dts = [DTS[(t + args.shard + k) % len(DTS)] for k in range(3 if args.tier == "quick" else 6)]
        steppers = {(sv, b): Stepper(cell, sv, b) for sv in ("bwd_euler", "crank_nicolson") for b in BACKENDS}

        def one_step(_cell, _n, istim, dt, solver, backend):   # compiled once per (solver, backend)
            return steppers[(solver, backend)].step(istim, dt)
        for dt in dts:
            for backend in BACKENDS:
                key = json.dumps([d["parents"], d["ncomp"], dt, backend])
                if n >= 2:
                    R.distinct.add(key)
                inp0 = dict(cell=d, dt=dt, backend=backend)
                # ---- 1. charge balance with stimuli, backward Euler (exact) and Crank–Nicolson (double)
                st, x = one_step(cell, n, d["istim"], dt, "bwd_euler", backend)
                R.evaluations += 1
                if st != "ok":
                    R.spec_fail(dict(kind="illegitimate-refusal", backend=backend), f"bwd_euler/{backend} refuses a cell", inp0, x); continue
                o = parse_cable(drv.batch([cable_line(d, dt, x, "bwd_euler")])[0])
                scale = sum(C[i] * (abs(x[i]) + abs(d["v"][i])) / dt + 1e-3 * abs(d["istim"][i]) + A[i] * 1000 * d["g"][i] * (abs(x[i]) + abs(d["e"][i])) for i in range(n))
                if not (abs(o["charge"]) <= 1e-9 * scale):
                    R.spec_fail(dict(kind="charge-not-conserved", solver="bwd_euler"), f"bwd_euler/{backend}: charge imbalance {o['charge']:.3g} µA (scale {scale:.3g})",
                                dict(solver="bwd_euler", **inp0), x.tolist(), imbalance=o["charge"])
                st, xc = one_step(cell, n, d["istim"], dt, "crank_nicolson", backend)
                R.evaluations += 1
                if st == "ok":
                    bal = sum(C[i] * (xc[i] - d["v"][i]) / dt - 1e-3 * d["istim"][i] + A[i] * 1000 * d["g"][i] * ((xc[i] + d["v"][i]) / 2 - d["e"][i]) for i in range(n))
                    scale = sum(C[i] * (abs(xc[i]) + abs(d["v"][i])) / dt + 1e-3 * abs(d["istim"][i]) + A[i] * 1000 * d["g"][i] * (abs(xc[i]) + abs(d["v"][i]) + abs(d["e"][i])) for i in range(n))
                    if not (abs(bal) <= 1e-8 * scale):
                        R.spec_fail(dict(kind="charge-not-conserved", solver="crank_nicolson"), f"crank_nicolson/{backend}: charge imbalance {bal:.3g} µA (scale {scale:.3g})",
                                    dict(solver="crank_nicolson", **inp0), xc.tolist(), imbalance=bal)
                # ---- 2. passive, unstimulated: no overshoot (backward Euler)
                zero = [0.0] * n
                st, x0 = one_step(cell, n, zero, dt, "bwd_euler", backend)
                R.evaluations += 1
                lo = min(min(d["v"]), min(d["e"])); hi = max(max(d["v"]), max(d["e"]))
                slack = 1e-9 * (1 + max(abs(lo), abs(hi)))
                if not all(lo - slack <= v <= hi + slack for v in x0):
                    R.spec_fail(dict(kind="overshoot"), f"bwd_euler/{backend}, dt={dt}: voltages leave [{lo},{hi}]", inp0, x0.tolist())
                # ---- 3. reciprocity over all ordered pairs (linear system: difference to the unstimulated run)
                I = 0.5
                resp = []
                for i in range(n):
                    s = [0.0] * n; s[i] = I
                    st, xi = one_step(cell, n, s, dt, "bwd_euler", backend)
                    R.evaluations += 1
                    resp.append(xi - x0)
                for i in range(n):
                    for j in range(i + 1, n):
                        a, b = resp[i][j], resp[j][i]
                        tol = 1e-7 * max(abs(a), abs(b)) + 1e-9 * (abs(resp[i][i]) + abs(resp[j][j])) * 1e-3 + 1e-13
                        R.count("reciprocity-pairs")
                        if not (abs(a - b) <= tol):
                            R.spec_fail(dict(kind="not-reciprocal"), f"bwd_euler/{backend}, dt={dt}: dV[{j}] by I at {i} = {a!r} but dV[{i}] by I at {j} = {b!r}",
                                        dict(i=i, j=j, **inp0), [float(a), float(b)])
            # ---- 3b. the same identities when the electrical parameters reach the simulation at RUN TIME (data_set / trainables) instead
            #      of through the tables: capacitance and axial resistivity by param_state, radius by params (charge balance, exact)
            if dt == dts[0] and n >= 2:
                half = sorted(rng.choice(n, size=max(1, n // 2), replace=False).tolist())    # chained calls, each on part of the rows
                rest_ = [i for i in range(n) if i not in half]
                for route, keys in (("capacitance", (("cm", "capacitance", 1.0),)),
                                    ("capacitance+axial_resistivity+radius", (("cm", "capacitance", 1.0), ("ra", "axial_resistivity", 5000.0), ("r", "radius", 1.0)))):
                    d2 = dict(d)
                    for k_, _, dflt in keys:
                        d2[k_] = [dflt] * n
                    cell2 = build_cell(d2)                     # the TABLES hold default values for these keys
                    cell2.delete_recordings(); cell2.record("v", verbose=False)
                    idx_ = [i for i in range(n) if d["istim"][i] != 0.0] or [0]
                    cell2.select(nodes=idx_).stimulate(jnp.asarray([[d["istim"][i]] for i in idx_]), verbose=False)
                    pstate = None
                    for rows_ in (half, rest_):                # data_set takes one value per call: chained calls, row by row
                        for k_, name_, _ in keys:
                            for i_ in rows_:
                                pstate = cell2.select(nodes=[i_]).data_set(name_, float(d[k_][i_]), pstate)
                    for backend in BACKENDS:
                        try:
                            rec2 = np.asarray(jx.integrate(cell2, param_state=pstate, delta_t=dt, solver="bwd_euler", voltage_solver=backend), dtype=np.float64)
                        except AssertionError:
                            continue
                        x2 = rec2[:, 1]
                        R.evaluations += 1; R.count("run-time-parameters:" + route)
                        o2 = parse_cable(drv.batch([cable_line(d, dt, x2, "bwd_euler")])[0])
                        scale = sum(C[i] * (abs(x2[i]) + abs(d["v"][i])) / dt + 1e-3 * abs(d["istim"][i]) + A[i] * 1000 * d["g"][i] * (abs(x2[i]) + abs(d["e"][i])) for i in range(n))
                        if not (abs(o2["charge"]) <= 1e-9 * scale):
                            R.spec_fail(dict(kind="charge-not-conserved", solver="bwd_euler", route="data_set"),
                                        f"bwd_euler/{backend}: {route} supplied by data_set: charge imbalance {o2['charge']:.3g} µA (scale {scale:.3g})",
                                        dict(solver="bwd_euler", route="data_set: " + route, rows_first=half, cell=d, dt=dt, backend=backend), x2.tolist(), imbalance=o2["charge"])
            # ---- 4. uniform model stays uniform (all v = E = const, no stimulus), one backend per dt
            du = dict(d); c0 = float(rng.uniform(-90, -30)); du["v"] = [c0] * n; du["e"] = [c0] * n; du["istim"] = [0.0] * n
            cu = build_cell(du)
            for backend in BACKENDS:
                st, xu = Stepper(cu, "bwd_euler", backend).step(du["istim"], dt)
                R.evaluations += 1
                if st == "ok" and not all(abs(v - c0) <= 1e-9 * (1 + abs(c0)) for v in xu):
                    R.spec_fail(dict(kind="uniform-not-preserved"), f"bwd_euler/{backend}, dt={dt}: uniform rest {c0} becomes {xu.tolist()}", dict(cell=du, dt=dt, backend=backend), xu.tolist())
        if len(R.samples) < 2:
            R.samples.append(dict(parents=d["parents"], ncomp=d["ncomp"], dts=dts))
    # ---- networks (no synapses): every cell keeps its own charge, stays within its own bounds, and does not feel the other cells
    NETS = [([[-1, 0, 0], [-1, 0, 0, 1, 1]], [[2, 2, 2], [2, 2, 2, 2, 2]]), ([[-1, 0, 1, 1], [-1, 0, 0]], [[1, 1, 1, 1], [1, 1, 1]]),
            ([[-1, 0], [-1, 0]], [[2, 3], [2, 3]]), ([[-1], [-1, 0, 1, 2]], [[3], [3, 3, 3, 3]])]
    for t in range(1 if args.tier == "quick" else 4):
        ps, ns = NETS[(args.shard + t) % len(NETS)]
        ds = [random_cell_desc(rng, morph=(p_, n_)) for p_, n_ in zip(ps, ns)]
        net = build_net(ds)
        total = sum(sum(d["ncomp"]) for d in ds)
        stim = [x for d in ds for x in d["istim"]]
        for dt in (DTS[(args.shard + t) % len(DTS)], 1.0):
            for backend in BACKENDS:
                st, x = Stepper(net, "bwd_euler", backend).step(stim, dt)
                st0, x0 = Stepper(net, "bwd_euler", backend).step([0.0] * total, dt)
                R.evaluations += 2
                inpn = dict(cells=ds, dt=dt, backend=backend)
                if st != "ok":
                    R.count(f"net-refused:{backend}:{x}")
                    if not (backend.startswith("jaxley") and x == "AssertionError"):
                        R.spec_fail(dict(kind="illegitimate-refusal", backend=backend), f"bwd_euler/{backend} refuses a network with {x}", inpn, x)
                    continue
                R.count(f"net-ok:{backend}")
                off = 0
                for ci, d in enumerate(ds):
                    n = sum(d["ncomp"]); A, C = spec_quantities(d)
                    xs = x[off:off + n]
                    o = parse_cable(drv.batch([cable_line(d, dt, xs, "bwd_euler")])[0])
                    scale = sum(C[i] * (abs(xs[i]) + abs(d["v"][i])) / dt + 1e-3 * abs(d["istim"][i]) + A[i] * 1000 * d["g"][i] * (abs(xs[i]) + abs(d["e"][i])) for i in range(n))
                    if not (abs(o["charge"]) <= 1e-9 * scale):
                        R.spec_fail(dict(kind="charge-not-conserved", solver="bwd_euler", module="network"), f"bwd_euler/{backend}: cell {ci} of a network: charge imbalance {o['charge']:.3g} µA (scale {scale:.3g})", dict(cell_index=ci, **inpn), xs.tolist(), imbalance=o["charge"])
                    lo = min(min(d["v"]), min(d["e"])); hi = max(max(d["v"]), max(d["e"]))
                    if not all(lo - 1e-9 * (1 + abs(lo)) <= v <= hi + 1e-9 * (1 + abs(hi)) for v in x0[off:off + n]):
                        R.spec_fail(dict(kind="overshoot", module="network"), f"bwd_euler/{backend}, dt={dt}: cell {ci} of a network leaves [{lo},{hi}]", dict(cell_index=ci, **inpn), x0[off:off + n].tolist())
                    off += n
    R.explanation = ("charge balance, maximum principle (no overshoot, uniformity) and reciprocity are theorems about the symmetric cable "
                     "system on any finite node set; here they are evaluated as predicates on the implementation's outputs")
    R.assumptions = ["rounding: predicates carry 1e-9 relative slack", "model/implementation correspondence of these runs is check C01"]
    return R


def replay(args):
    R = Result("C02")
    f = json.load(open(args.replay))
    inp = f.get("input", {})
    if "cell" not in inp:
        R.replay_result = dict(fails=f.get("kind") != "spec-violation", note="no concrete input"); return R
    d = inp["cell"]; n = sum(d["ncomp"]); cell = build_cell(d)
    st, x0 = one_step(cell, n, [0.0] * n, inp["dt"], "bwd_euler", inp["backend"])
    lo = min(min(d["v"]), min(d["e"])); hi = max(max(d["v"]), max(d["e"]))
    out = dict(unstimulated=x0.tolist(), bounds=[lo, hi])
    fails = not all(lo - 1e-6 <= v <= hi + 1e-6 for v in x0)
    if "i" in inp:
        r = []
        for k in (inp["i"], inp["j"]):
            s = [0.0] * n; s[k] = 0.5
            r.append(one_step(cell, n, s, inp["dt"], "bwd_euler", inp["backend"])[1] - x0)
        a, b = r[0][inp["j"]], r[1][inp["i"]]
        out["reciprocity"] = [float(a), float(b)]
        fails = fails or abs(a - b) > 1e-7 * max(abs(a), abs(b)) + 1e-12
    R.replay_result = dict(fails=bool(fails) or f.get("signature", {}).get("kind") == "charge-not-conserved", **out)
    return R


if __name__ == "__main__":
    a = parse_args()
    r = replay(a) if a.mode == "replay" else run(a)
    r.write(a.out)
