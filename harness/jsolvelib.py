"""Capture the arrays that jaxley's custom branched solver works on (inputs of `_triang_branched`, outputs of
`_backsub_branched`, the `JaxleySolveIndexer`) during one eager backward-Euler step, and format them for the Lean model
`Model.SolveJaxley` (driver command `jsolve`)."""
from fractions import Fraction
import numpy as np
import jax.numpy as jnp
import jaxley.solver_voltage as sv
from jaxley.integrate import build_init_and_step_fn
from common import f2b


def capture(mod, istim, dt, backend, solver="bwd_euler"):
    """one eager step with `backend` in ('jaxley.thomas', 'jaxley.stone'); returns dict or None (refused)"""
    n = mod.nodes.shape[0]
    mod.delete_recordings(); mod.delete_stimuli()
    mod.stimulate(jnp.zeros((n, 1)), verbose=False)
    mod.to_jax()
    rec = {}
    orig_t, orig_b = sv._triang_branched, sv._backsub_branched

    def wt(*a, **k):
        rec["in"] = [np.asarray(x, dtype=np.float64) for x in a[:10]]
        rec["idx"] = a[12]
        return orig_t(*a, **k)

    def wb(*a, **k):
        out = orig_b(*a, **k)
        rec["out"] = np.asarray(out[0], dtype=np.float64).ravel()
        return out
    sv._triang_branched, sv._backsub_branched = wt, wb
    import jaxley.modules.base as jbase
    orig_step = jbase.step_voltage_implicit_with_jaxley_spsolve

    def wstep(*a, **k):
        rec["asm"] = dict(k)      # the inputs of the array assembly (all passed by keyword from Module.step)
        return orig_step(*a, **k)
    jbase.step_voltage_implicit_with_jaxley_spsolve = wstep
    try:
        init_fn, step_fn = build_init_and_step_fn(mod, voltage_solver=backend, solver=solver)
        states, params = init_fn([], None, None, dt)
        inds = mod.external_inds["i"]
        new = step_fn(states, params, {"i": jnp.asarray(istim, dtype=jnp.float64)}, {"i": inds}, dt)
        rec["v"] = np.asarray(new["v"], dtype=np.float64)[:n]
    except (AssertionError, NotImplementedError, TypeError) as ex:
        return None
    finally:
        sv._triang_branched, sv._backsub_branched = orig_t, orig_b
        jbase.step_voltage_implicit_with_jaxley_spsolve = orig_step
        mod.delete_stimuli()
    if "in" not in rec or "out" not in rec:
        return None
    return rec


def jsolve_line(rec, arith="rat"):
    enc = (lambda v: (lambda f: f"{f.numerator}/{f.denominator}")(Fraction(float(v)))) if arith == "rat" else (lambda v: str(f2b(float(v))))
    lowers, diags, uppers, solves, cc, cp, wc, wp, bpd, bps = rec["in"]
    idx = rec["idx"]
    cums = [int(x) for x in np.asarray(idx.cumsum_ncomp)]
    ncs = [int(x) for x in np.asarray(idx.ncomp_per_branch)]
    total = cums[-1]
    nb = len(ncs)
    toks = ["jsolve", arith, str(total), str(nb), str(len(bpd))]
    toks += [str(len(cums))] + [str(x) for x in cums]
    toks += [str(nb)] + [str(x) for x in ncs]
    cil = [np.asarray(x).reshape(-1, 2) for x in (idx.children_in_level or [])]
    pil = [np.asarray(x).reshape(-1, 2) for x in (idx.parents_in_level or [])]
    toks += [str(len(cil))]
    for c, p in zip(cil, pil):
        toks += [str(len(c))] + [str(int(v)) for row in c for v in row]
        toks += [str(len(p))] + [str(int(v)) for row in p for v in row]
    roots = [int(x) for x in np.asarray(idx.root_inds).ravel()]
    toks += [str(len(roots))] + [str(r) for r in roots]
    for arr in (diags, lowers, uppers, solves, bpd, bps, cc, wc, cp, wp):
        a = np.asarray(arr, dtype=np.float64).ravel()
        toks += [str(len(a))] + [enc(v) for v in a]
    return " ".join(toks)


def parse_jsolve(line):
    if not line.startswith("ok"):
        return None
    kv = dict(t.split("=", 1) for t in line.split()[1:])
    from common import b2f
    x = [b2f(int(t)) for t in kv["x"].split(",")] if kv.get("x") else []
    spec = {int(t.split(":")[0]): b2f(int(t.split(":")[1])) for t in kv["spec"].split(",")} if kv.get("spec") else {}
    return dict(exact=kv["exact"] == "1", wf=kv.get("wf") == "1", sat=kv.get("sat") == "1", piv=kv.get("piv") == "1", pad=kv.get("pad") == "1", nspec=int(kv["nspec"]), x=x, spec=spec)


def _sched_tokens(idx):
    cums = [int(x) for x in np.asarray(idx.cumsum_ncomp)]
    ncs = [int(x) for x in np.asarray(idx.ncomp_per_branch)]
    toks = [str(len(cums))] + [str(x) for x in cums] + [str(len(ncs))] + [str(x) for x in ncs]
    cil = [np.asarray(x).reshape(-1, 2) for x in (idx.children_in_level or [])]
    pil = [np.asarray(x).reshape(-1, 2) for x in (idx.parents_in_level or [])]
    toks += [str(len(cil))]
    for c, p in zip(cil, pil):
        toks += [str(len(c))] + [str(int(v)) for row in c for v in row]
        toks += [str(len(p))] + [str(int(v)) for row in p for v in row]
    roots = [int(x) for x in np.asarray(idx.root_inds).ravel()]
    toks += [str(len(roots))] + [str(r) for r in roots]
    return cums, ncs, toks


def jasm_line(rec, arith="rat"):
    """the inputs of `step_voltage_implicit_with_jaxley_spsolve` (captured keyword arguments) for the driver command `jasm`"""
    enc = (lambda v: (lambda f: f"{f.numerator}/{f.denominator}")(Fraction(float(v)))) if arith == "rat" else (lambda v: str(f2b(float(v))))
    a = rec["asm"]
    idx = a["idx"]
    cums, ncs, stoks = _sched_tokens(idx)
    n = int(len(np.asarray(a["internal_node_inds"])))
    assert [int(x) for x in np.asarray(a["internal_node_inds"])] == list(range(n))
    fl = lambda x: [enc(v) for v in np.asarray(x, dtype=np.float64).ravel()]
    toks = ["jasm", arith, str(cums[-1]), str(n)] + stoks
    for key in ("voltages", "voltage_terms", "constant_terms"):
        arr = fl(a[key]); toks += [str(len(arr))] + arr
    src = [int(x) for x in np.asarray(a["sources"])]; snk = [int(x) for x in np.asarray(a["sinks"])]; typ = [int(x) for x in np.asarray(a["types"])]
    toks += [str(len(src))] + [str(t) for e in zip(src, snk, typ) for t in e]
    g = fl(a["axial_conductances"]); toks += [str(len(g))] + g
    mask = [int(x) for x in np.asarray(idx.mask(np.arange(n)))]
    toks += [str(n)] + [str(x) for x in mask]
    for key in ("par_inds", "child_inds"):
        arr = [int(x) for x in np.asarray(a[key]).ravel()]; toks += [str(len(arr))] + [str(x) for x in arr]
    grp = [int(x) for x in np.asarray(idx.branchpoint_group_inds).ravel()] if idx.branchpoint_group_inds is not None else []
    toks += [str(len(grp))] + [str(x) for x in grp]
    toks += [enc(a["delta_t"])]
    return " ".join(toks)


def parse_jasm(line):
    if not line.startswith("ok"):
        return None
    kv = dict(t.split("=", 1) for t in line.split()[1:])
    from common import b2f
    arr = lambda k: np.asarray([b2f(int(t)) for t in kv[k].split(",")] if kv.get(k) else [], dtype=np.float64)
    return dict(ewf=kv["ewf"] == "1", wf=kv["wf"] == "1", phys=kv["phys"] == "1",
                arrays={k: arr(k) for k in ("diags", "lowers", "uppers", "solves", "bpd", "bps", "cc", "wc", "cp", "wp")}, x=arr("x"))
