"""Differential test of the Lean model / spec of jaxley's SWC reader against the real reader.

    PYTHONPATH=/repo:/verif/harness /venv/bin/python /verif/harness/swc_diff.py --n 200 --seed 0

Random well-formed SWC trees (pre-order listing) are written to a temporary directory, read with the REAL
`jaxley.io.swc.swc_to_jaxley` / `jx.read_swc`, and the same points are sent to the Lean driver (`swc` command), whose model
(`Model.Swc`) must give the same parents / branches / lengths / radii / groups, and whose independent specification
(`Spec.Swc.specBranches`, `sectionLength`, `sectionType`) must give the same branches (then also lengths and types) when
`max_branch_len is None`; spec disagreements are findings about the reader and are printed with the SWC file.

The branch point-id lists are not returned by `swc_to_jaxley`; they are RECORDED from the real call by wrapping
`jaxley.io.swc._split_into_branches_and_sort` (the original is called; `[0]` is prepended when the reader padded a root).
A Python exception and a model `err` count as agreement (both reject); the pairs are tallied in the summary.
"""
import argparse, os, shutil, sys, tempfile, warnings

warnings.simplefilter("ignore")
import numpy as np
from common import LeanDriver, f2b, b2f, setup_jax

setup_jax()
import jaxley as jx
import jaxley.io.swc as swcmod

NAMES = {0: "undefined", 1: "soma", 2: "axon", 3: "basal", 4: "apical", 5: "custom"}


# ---------------------------------------------------------------------------------------------------------------------
# generator
# ---------------------------------------------------------------------------------------------------------------------
class Node:
    __slots__ = ("type", "xyz", "r", "kids")

    def __init__(self, type, xyz, r):
        self.type, self.xyz, self.r, self.kids = type, xyz, r, []


def rand_type(rng):
    return int(rng.choice([2, 3, 4, 5, 6], p=[0.3, 0.3, 0.3, 0.05, 0.05]))


def step_from(rng, node, zero_p):
    if rng.random() < zero_p:
        return node.xyz.copy()            # duplicate coordinates: zero-length segment
    d = rng.normal(size=3)
    d /= np.linalg.norm(d)
    return np.round(node.xyz + d * rng.uniform(0.5, 25.0), 3)


def grow(rng, parent, typ, depth, budget, cfg):
    """append one unbranched run of points below `parent`, then stop / branch / change type"""
    npts = int(rng.integers(*cfg.get("long_range", (6, 21)))) if rng.random() < cfg["long_p"] else int(rng.integers(1, 6))
    zero_p = 1.0 if rng.random() < cfg["zero_section_p"] else cfg["zero_p"]
    node = parent
    for _ in range(npts):
        if budget[0] <= 0:
            return
        budget[0] -= 1
        child = Node(typ, step_from(rng, node, zero_p), float(np.round(rng.uniform(0.1, 2.0), 3)))
        node.kids.append(child)
        node = child
    u = rng.random()
    if depth >= cfg["max_depth"] or u < 0.35:
        return
    if u < 0.5:   # type change in the middle of an unbranched path
        new = rand_type(rng)
        grow(rng, node, new if new != typ else (typ % 4) + 2 if typ < 5 else 2, depth + 1, budget, cfg)
    else:
        for _ in range(int(rng.integers(2, 4))):
            grow(rng, node, typ if rng.random() < 0.85 else rand_type(rng), depth + 1, budget, cfg)


def gen_tree(rng, long=False):
    cfg = dict(long_p=0.08, zero_p=0.08, zero_section_p=0.04, max_depth=int(rng.integers(1, 5)))
    if long:     # long, densely traced sections (25-60 points): with a small max_branch_len the reader's cap of 10 pieces is reached
        cfg.update(long_p=0.5, long_range=(25, 60), zero_p=0.02, zero_section_p=0.0)
    kind = str(rng.choice(["single", "chain", "star"], p=[0.45, 0.35, 0.2]))
    root = Node(1, np.round(rng.normal(size=3) * 5, 3), float(np.round(rng.uniform(3, 10), 3)))
    soma = [root]
    if kind != "single":
        for _ in range(int(rng.integers(1, 3))):       # 2-3 soma points
            par = soma[-1] if kind == "chain" else root
            s = Node(1, step_from(rng, par, 0.05), float(np.round(rng.uniform(3, 10), 3)))
            par.kids.append(s)
            soma.append(s)
    budget = [int(rng.integers(3, 70)) if not long else int(rng.integers(80, 200))]
    for _ in range(int(rng.integers(1, 5))):
        grow(rng, soma[int(rng.integers(0, len(soma)))], rand_type(rng), 0, budget, cfg)
    if not any(k.type != 1 for s in soma for k in s.kids):   # at least one neurite point
        grow(rng, root, 3, 0, [2], cfg)
    # listing order: pre-order; soma children first (usual convention) or - sometimes - any child order
    soma_first = rng.random() < 0.85
    rows = []

    def emit(node, parent_id):
        my = len(rows) + 1
        rows.append((my, node.type, *node.xyz.tolist(), node.r, parent_id))
        kids = list(node.kids)
        order = rng.permutation(len(kids)).tolist()
        kids = [kids[i] for i in order]
        if soma_first:
            kids = [k for k in kids if k.type == 1] + [k for k in kids if k.type != 1]
        for k in kids:
            emit(k, my)

    sys.setrecursionlimit(10000)
    emit(root, -1)
    return rows, dict(kind=kind, soma_first=soma_first)


def write_swc(path, rows):
    with open(path, "w") as f:
        f.write("# generated by swc_diff.py\n")
        for (i, t, x, y, z, r, p) in rows:
            f.write(f"{i} {t} {x!r} {y!r} {z!r} {r!r} {p}\n")


# ---------------------------------------------------------------------------------------------------------------------
# real reader
# ---------------------------------------------------------------------------------------------------------------------
def run_python(path, ncomp, mbl, minr):
    rec = {}
    orig = swcmod._split_into_branches_and_sort

    def wrapped(*a, **k):
        out = orig(*a, **k)
        rec["branches"] = [[int(x) for x in b] for b in out[0]]
        return out

    swcmod._split_into_branches_and_sort = wrapped
    try:
        parents, pathlengths, radius_fns, types, coords = swcmod.swc_to_jaxley(path, max_branch_len=mbl)
        cell = jx.read_swc(path, ncomp=ncomp, max_branch_len=mbl, min_radius=minr)
    finally:
        swcmod._split_into_branches_and_sort = orig
    branches = rec["branches"]
    if len(parents) == len(branches) + 1:
        branches = [[0]] + branches
    nodes = cell.nodes
    gbi = nodes["global_branch_index"].to_numpy().astype(int)
    groups = {name: sorted(set(gbi[np.asarray(idx).astype(int)].tolist())) for name, idx in cell.groups.items()}
    return dict(parents=[int(p) for p in parents], branches=branches, types=[int(t) for t in types],
                lengths=[float(l) for l in pathlengths], radii=[float(x) for x in nodes["radius"].to_numpy()],
                complen=[float(x) for x in nodes["length"].to_numpy()], groups=groups,
                ncomp_per_branch=np.bincount(gbi).tolist())


# ---------------------------------------------------------------------------------------------------------------------
# Lean driver
# ---------------------------------------------------------------------------------------------------------------------
def lean_line(content, ncomp, mbl, minr):
    toks = ["swc", str(ncomp), "-" if mbl is None else str(f2b(mbl)), "-" if minr is None else str(f2b(minr)), str(len(content))]
    for c in content:
        toks += [str(int(c[0])), str(int(c[1])), str(f2b(c[2])), str(f2b(c[3])), str(f2b(c[4])), str(f2b(c[5])), str(int(c[6]))]
    return " ".join(toks)


def parse_lean(line):
    if not line.startswith("ok"):
        return None
    kv = dict(tok.split("=", 1) for tok in line.split()[1:])
    ints = lambda s: [int(x) for x in s.split(",")] if s else []
    flts = lambda s: [b2f(int(x)) for x in s.split(",")] if s else []
    brs = lambda s: [ints(b) for b in s.split(";")] if s else []
    groups = {}
    for g in kv["groups"].split("|"):
        if g:
            name, idx = g.split(":")
            groups[name] = ints(idx)
    return dict(parents=ints(kv["parents"]), branches=brs(kv["branches"]), types=ints(kv["types"]), lengths=flts(kv["lengths"]),
                radii=flts(kv["radii"]), complen=flts(kv["complen"]), groups=groups, spec=brs(kv["spec"]),
                speclen=flts(kv["speclen"]), spectypes=ints(kv.get("spectypes", "")), wf=kv.get("wf") == "1")


def relclose(a, b, rel):
    return len(a) == len(b) and all(x == y or abs(x - y) <= rel * max(abs(x), abs(y)) for x, y in zip(a, b))


def main():
    ap = argparse.ArgumentParser()
    ap.add_argument("--n", type=int, default=200)
    ap.add_argument("--seed", type=int, default=0)
    ap.add_argument("--show", type=int, default=3, help="number of mismatches of each kind to print")
    args = ap.parse_args()
    rng = np.random.default_rng([args.seed, 0x5C])
    drv = LeanDriver()
    tmp = tempfile.mkdtemp(prefix="swc_diff_")
    cases = model_mismatch = spec_mismatch = errors = 0
    both_reject = padded = split_cases = sps_cases = not_bit_exact = 0
    reject_reasons = {}
    spec_kinds = {}
    shown = dict(model=0, spec=0, error=0)
    try:
        jobs = []
        for t in range(args.n):
            rows, meta = gen_tree(rng)
            path = os.path.join(tmp, f"case{t}.swc")
            write_swc(path, rows)
            content = np.loadtxt(path)
            ncomp = int(rng.integers(1, 6))
            minr = None if rng.random() < 0.5 else 0.5
            mbl = None
            if rng.random() < 0.4:
                try:
                    base = swcmod.swc_to_jaxley(path, max_branch_len=None)[1]
                    mbl = float(np.round(max(base) * rng.uniform(0.25, 0.95), 3))
                except Exception:
                    mbl = 10.0
            try:
                py = run_python(path, ncomp, mbl, minr)
            except Exception as ex:       # the reader rejects the file
                py = ex
            jobs.append((t, path, rows, meta, content, ncomp, mbl, minr, py))
        outs = drv.batch([lean_line(j[4], j[5], j[6], j[7]) for j in jobs])
        for (t, path, rows, meta, content, ncomp, mbl, minr, py), out in zip(jobs, outs):
            cases += 1
            desc = dict(case=t, ncomp=ncomp, max_branch_len=mbl, min_radius=minr, **meta)
            swc_text = "".join(f"    {i} {ty} {x} {y} {z} {r} {p}\n" for (i, ty, x, y, z, r, p) in rows)
            ln = parse_lean(out)
            if out.startswith("bad-op"):
                errors += 1
                if shown["error"] < args.show:
                    shown["error"] += 1
                    print(f"ERROR {desc}: driver answered {out!r}")
                continue
            if isinstance(py, Exception) or ln is None:
                if isinstance(py, Exception) and ln is None:
                    both_reject += 1
                    key = f"{type(py).__name__} / {out}"
                    reject_reasons[key] = reject_reasons.get(key, 0) + 1
                else:
                    model_mismatch += 1
                    if shown["model"] < args.show:
                        shown["model"] += 1
                        print(f"MODEL MISMATCH {desc}: python {'raised ' + repr(py) if isinstance(py, Exception) else 'accepted'}; model says {out[:80]!r}\n{swc_text}")
                continue
            padded += py["branches"][0] == [0]
            split_cases += mbl is not None
            sps_cases += py["branches"][0] == [1]
            bad = []
            if py["parents"] != ln["parents"]:
                bad.append(("parents", py["parents"], ln["parents"]))
            if py["branches"] != ln["branches"]:
                bad.append(("branches", py["branches"], ln["branches"]))
            if py["types"] != ln["types"]:
                bad.append(("types", py["types"], ln["types"]))
            if not relclose(py["lengths"], ln["lengths"], 1e-12):
                bad.append(("lengths", py["lengths"], ln["lengths"]))
            if not relclose(py["radii"], ln["radii"], 1e-10):
                bad.append(("radii", py["radii"], ln["radii"]))
            if not relclose(py["complen"], ln["complen"], 1e-10):
                bad.append(("complen", py["complen"], ln["complen"]))
            if py["groups"] != ln["groups"]:
                bad.append(("groups", py["groups"], ln["groups"]))
            if py["ncomp_per_branch"] != [ncomp] * len(py["parents"]):
                bad.append(("ncomp_per_branch", py["ncomp_per_branch"], ncomp))
            if py["lengths"] != ln["lengths"] or py["radii"] != ln["radii"] or py["complen"] != ln["complen"]:
                not_bit_exact += 1
            if bad:
                model_mismatch += 1
                if shown["model"] < args.show:
                    shown["model"] += 1
                    print(f"MODEL MISMATCH {desc}")
                    for what, a, b in bad:
                        print(f"  {what}: python={a}\n  {' ' * len(what)}  model ={b}")
                    print(swc_text)
            if not ln["wf"]:
                errors += 1
                print(f"ERROR {desc}: generated file is not wellFormed according to Spec.Swc\n{swc_text}")
            if mbl is None:
                sbad = []
                if ln["spec"] != py["branches"][(1 if py["branches"][0] == [0] else 0):]:
                    sbad.append(("branches", py["branches"], ln["spec"]))
                else:
                    k0 = 1 if py["branches"][0] == [0] else 0
                    if not relclose(py["lengths"][k0:], ln["speclen"], 1e-12):
                        sbad.append(("lengths", py["lengths"][k0:], ln["speclen"]))
                    if py["types"][k0:] != ln["spectypes"]:
                        sbad.append(("types", py["types"][k0:], ln["spectypes"]))
                for what, _, _ in sbad:
                    spec_kinds[what] = spec_kinds.get(what, 0) + 1
                if sbad:
                    spec_mismatch += 1
                    kind = "spec:" + "+".join(w for w, _, _ in sbad)
                    shown.setdefault(kind, 0)
                    if shown[kind] < args.show:
                        shown[kind] += 1
                        print(f"SPEC MISMATCH {desc}")
                        for what, a, b in sbad:
                            print(f"  {what}: reader={a}\n  {' ' * len(what)}  spec  ={b}")
                        print(f"  reader types={py['types']} groups={py['groups']}")
                        print(swc_text)
    finally:
        shutil.rmtree(tmp, ignore_errors=True)
    print(f"info: accepted={cases - both_reject - errors} both_reject={both_reject} padded_root={padded} single_point_soma={sps_cases} "
          f"with_max_branch_len={split_cases} not_bit_exact={not_bit_exact} reject_pairs={reject_reasons} spec_mismatch_kinds={spec_kinds}")
    print(f"cases={cases} model_mismatch={model_mismatch} spec_mismatch={spec_mismatch} errors={errors}")
    return 0 if (model_mismatch == 0 and errors == 0) else 1


if __name__ == "__main__":
    sys.exit(main())
