"""C10 harness: set / data_set / make_trainable are equivalent and touch only what was selected.

correspondence : for random modules and views, the index groups created by `make_trainable` (indices_set_by_trainables) equal the
                 model's `padGroups (groupsOf view controlled_by_param)`, and the arrays of `get_all_parameters` / `get_all_states` after
                 sequences of trainables equal the model's `applyPstate` (bit-exact, values are copied)
spec predicate : on the IMPLEMENTATION: (a) `set` changes exactly the in-view rows that hold the key; (b) arrays from set(v) ==
                 arrays from data_set(v) == arrays from make_trainable + params=v, for node keys, channel keys, initial states and edge
                 keys; rows outside the selection keep their value (also the LAST row — F2); (c) write_trainables stores the arrays that
                 get_all_parameters produced; (d) the three routes give the same simulation.
"""
import os, math
import numpy as np
from common import *
from simlib import *
from jaxley.utils.cell_utils import params_to_pstate


def rand_view(mod, rng, kind):
    """returns (view, description).  Views that exclude the last compartment are frequent."""
    n = mod.nodes.shape[0]
    how = str(rng.choice(["branch", "comp", "cell", "select", "group", "channel", "all", "branches-unequal", "branches-unequal", "group-branches"]))
    try:
        if how == "branches-unequal" and kind != "branch":
            # one parameter per branch, branches of different size, the module's last branch not among them: padded index groups
            sizes = mod.nodes.groupby("global_branch_index").size()
            nb = len(sizes)
            cand = list(range(nb - 1)) if nb > 2 else list(range(nb))
            idx = sorted(rng.choice(cand, size=int(rng.integers(2, len(cand) + 1)), replace=False).tolist()) if len(cand) >= 2 else cand
            return mod.scope("global").branch(idx).scope("local"), dict(how="branch", idx=idx)
        if how == "group-branches" and kind != "branch":
            idx = sorted(rng.choice(n - 1 if n > 2 else n, size=int(rng.integers(1, max(2, n - 1))), replace=False).tolist())
            mod.select(nodes=idx).add_to_group("g")
            return mod.g.branch("all"), dict(how="group-branches", idx=idx)
        if how == "branch":
            nb = int(mod.nodes.global_branch_index.max()) + 1
            idx = sorted(rng.choice(nb, size=int(rng.integers(1, nb + 1)), replace=False).tolist())
            v = mod.scope("global").branch(idx).scope("local") if kind != "branch" else mod
            return v, dict(how=how, idx=idx)
        if how == "comp":
            idx = sorted(rng.choice(n, size=int(rng.integers(1, n + 1)), replace=False).tolist())
            return mod.scope("global").comp(idx).scope("local"), dict(how=how, idx=idx)
        if how == "cell" and kind == "net":
            nc = int(mod.nodes.global_cell_index.max()) + 1
            c = int(rng.integers(0, nc))
            return mod.cell(c), dict(how=how, idx=c)
        if how == "select":
            idx = sorted(rng.choice(n - 1 if n > 1 else n, size=int(rng.integers(1, max(2, n - 1))), replace=False).tolist())
            return mod.select(nodes=idx), dict(how=how, idx=idx)
        if how == "group":
            idx = sorted(rng.choice(n, size=int(rng.integers(1, n + 1)), replace=False).tolist())
            mod.select(nodes=idx).add_to_group("g")
            return mod.g, dict(how=how, idx=idx)
        if how == "channel" and len(mod.channels):
            ch = mod.channels[int(rng.integers(0, len(mod.channels)))]._name
            return getattr(mod, ch), dict(how=how, idx=ch)
    except Exception:
        pass
    return mod, dict(how="all")


def node_keys(mod):
    keys = ["radius", "length", "axial_resistivity", "capacitance", "v"]
    for ch in mod.channels:
        keys += list(ch.channel_params) + list(ch.channel_states)
    return keys


def arrays(mod, pstate):
    mod.to_jax()
    params = mod.get_all_parameters(pstate, voltage_solver="jaxley.thomas")
    states = mod.get_all_states(pstate, params, 0.025)
    # `axial_conductances` is derived from radius / length / axial_resistivity / capacitance: it is part of what is simulated
    return {**{k: np.asarray(v, dtype=np.float64) for k, v in params.items()},
            **{k: np.asarray(v, dtype=np.float64) for k, v in states.items() if not k.startswith("i_")}}


def run(args):
    R = Result("C10")
    rng = np.random.default_rng([args.seed, 10])
    drv = LeanDriver()
    nm = {"quick": 30, "thorough": 300}[args.tier] * (3 if args.mode == "search" else 1)
    R.rule = ("random cells/networks (irregular compartment counts, channels on subsets, synapses), random views (branch/comp/cell/select/"
              "group/channel; views excluding the last compartment), all node keys incl. initial states and edge keys, sequences of 1-3 "
              "make_trainable calls. distinct = (module, view, key) triples; non-trivial = view is a proper subset or groups are unequal")
    mt_lines, mt_meta, sc_lines, sc_meta = [], [], [], []
    for t in range(nm):
        kind = "net" if t % 3 == 0 else "cell"
        if kind == "cell":
            mod, desc = random_cell(rng, 4, 4)
            desc["kind"] = "cell"
        else:
            mod, desc = random_network(rng, same_shape=False)
            desc["kind"] = "net"
        n = mod.nodes.shape[0]
        # put channels only on a subset sometimes
        if rng.random() < 0.5 and n > 1:
            rows = sorted(rng.choice(n, size=int(rng.integers(1, n)), replace=False).tolist())
            mod.select(nodes=rows).insert(Leak()) if "Leak" not in [c._name for c in mod.channels] else None
        view, vdesc = rand_view(mod, rng, kind)
        keys = node_keys(mod)
        key = str(rng.choice(keys))
        if t in (1, 2, 4):
            # deterministic battery (independent of the random stream): one parameter PER BRANCH on branches of unequal size that do not
            # include the module's last rows — padded index groups whose padding must not hit any row
            comp_ = jx.Compartment()
            ncs_ = [[2, 3, 1, 2], [1, 3, 2, 2, 1], [3, 1, 2]][(1, 2, 4).index(t)]
            mod = jx.Cell([jx.Branch([comp_] * k_) for k_ in ncs_], parents=[-1] + [0] * (len(ncs_) - 1))
            mod.insert(HH())
            n = mod.nodes.shape[0]
            mod.set("radius", rng.uniform(0.5, 3.0, n)); mod.set("length", rng.uniform(5.0, 40.0, n)); mod.set("v", rng.uniform(-72.0, -60.0, n))
            desc = dict(kind="cell", parents=[-1] + [0] * (len(ncs_) - 1), ncomp=ncs_, channels=["HH"], battery="padded-groups")
            kind = "cell"
            view = mod.scope("global").branch([0, 1]).scope("local").branch("all")
            vdesc = dict(how="branch-all", idx=[0, 1])
            keys = node_keys(mod)
            key = ["radius", "HH_gNa", "capacitance"][(1, 2, 4).index(t)]
            R.count("battery:padded-groups")
        rows_in_view = [int(x) for x in view._nodes_in_view]
        holds = [r for r in rows_in_view if not (isinstance(mod.nodes.loc[r, key], float) and math.isnan(mod.nodes.loc[r, key]))]
        inp = dict(module=desc, view=vdesc, key=key)
        R.evaluations += 1
        if len(rows_in_view) < n:
            R.distinct.add(json.dumps([str(desc)[:120], vdesc, key], default=str))
        if not holds:
            R.count("view-without-key"); continue
        base = arrays(mod, [])
        val = float(rng.uniform(0.11, 0.89))
        # ---------- (a) set: frame
        m_set = __import__("copy").deepcopy(mod)
        v_set = rebuild_view(m_set, vdesc)
        before = m_set.nodes[key].to_numpy().copy()
        v_set.set(key, val)
        after = m_set.nodes[key].to_numpy()
        changed = [i for i in range(n) if not (after[i] == before[i] or (np.isnan(after[i]) and np.isnan(before[i])))]
        want = [r for r in holds if before[r] != val]
        if sorted(changed) != sorted(want):
            R.spec_fail(dict(kind="set-frame"), f"set({key}) through view {vdesc} changed rows {changed}, expected {want}", inp, changed)
        a_set = arrays(m_set, [])
        # ---------- (b) data_set
        ps = view.data_set(key, val, None)
        a_ds = arrays(mod, ps)
        # ---------- (c) make_trainable with shared value
        mod.delete_trainables()
        try:
            view.make_trainable(key, verbose=False)
        except AssertionError as ex:
            R.count("make_trainable-refused"); continue
        inds = np.asarray(mod.indices_set_by_trainables[-1])
        ctrl = view.nodes.loc[holds, "controlled_by_param"].to_numpy().astype(int).tolist()
        mt_lines.append(" ".join(["mt", str(n), ",".join(map(str, holds)), ",".join(map(str, ctrl))])); mt_meta.append((inp, inds.tolist()))
        if len({len([x for x in row if x < n]) for row in inds.tolist()}) > 1:
            R.distinct.add(json.dumps(["unequal", t])); R.count("unequal-groups")
        p0 = mod.get_parameters()
        p = [{key: jnp.full_like(p0[-1][key], val)}]
        pst = params_to_pstate(p, mod.indices_set_by_trainables)
        a_tr = arrays(mod, pst)
        for name, a in (("data_set", a_ds), ("make_trainable", a_tr)):
            for k in a_set:
                if not np.array_equal(a[k], a_set[k], equal_nan=True):
                    rows = np.where(~((a[k] == a_set[k]) | (np.isnan(a[k]) & np.isnan(a_set[k]))))[0].tolist()
                    R.spec_fail(dict(kind="route-differs", route=name, last_row=(n - 1) in rows and (n - 1) not in holds),
                                f"{name}({key}={val}) differs from set() in array {k} at rows {rows}", inp, rows)
                    break
        # frame of the trainable route w.r.t. the untouched arrays
        for k in base:
            if k == key:
                outside = [i for i in range(len(base[k])) if i not in holds]
                bad = [i for i in outside if not (a_tr[k][i] == base[k][i] or (np.isnan(a_tr[k][i]) and np.isnan(base[k][i])))]
                if bad:
                    R.spec_fail(dict(kind="trainable-touches-unselected-rows"), f"trainable {key} on rows {holds} changed unselected rows {bad}", inp, bad)
            elif k == "axial_conductances" and key in ("radius", "length", "axial_resistivity", "capacitance"):
                continue          # derived from these keys: compared between the routes above, not against the untouched arrays
            elif not np.array_equal(a_tr[k], base[k], equal_nan=True):
                R.spec_fail(dict(kind="trainable-touches-other-key"), f"trainable {key} changed array {k}", inp, k)
        # model: applyPstate on the bit patterns
        sc_lines.append(" ".join(["scat", ",".join(str(f2b(x)) for x in base[key])] + [";".join(",".join(map(str, row)) for row in inds.tolist()),
                                  ",".join(str(f2b(val)) for _ in range(len(inds)))]))
        sc_meta.append((inp, a_tr[key].tolist()))
        # ---------- (c') the three routes SIMULATE the same (every 4th case; geometry / electrical keys always)
        if t % 4 == 0 or key in ("radius", "length", "axial_resistivity", "capacitance"):
            try:
                for m_ in (mod, m_set):
                    m_.delete_recordings(); m_.delete_stimuli()
                    m_.select(nodes=list(range(n))).record("v", verbose=False)
                    m_.select(nodes=[0]).stimulate(jnp.asarray(0.2 * np.ones(6)), verbose=False)
                backend = ["jaxley.stone", "jax.sparse"][t % 2]
                r_set = np.asarray(jx.integrate(m_set, voltage_solver=backend))
                r_ds = np.asarray(jx.integrate(mod, param_state=ps, voltage_solver=backend))
                r_tr = np.asarray(jx.integrate(mod, params=p, voltage_solver=backend))
                R.evaluations += 1; R.count("routes-simulated")
                for name, r_ in (("data_set", r_ds), ("make_trainable", r_tr)):
                    if r_.shape != r_set.shape or not np.allclose(r_, r_set, rtol=1e-9, atol=1e-9, equal_nan=True):
                        R.spec_fail(dict(kind="route-simulates-differently", route=name), f"{name}({key}={val}) simulates differently from set() "
                                    f"(max {float(np.nanmax(np.abs(r_ - r_set))) if r_.shape == r_set.shape else 'shape'})", dict(inp, backend=backend), None)
            except AssertionError:
                R.count("routes-simulated:refused")
            finally:
                for m_ in (mod, m_set):
                    m_.delete_recordings(); m_.delete_stimuli()
        # ---------- (d) write_trainables stores what was simulated — also when the tables were edited since the module was last moved to
        #            jax: a row OUTSIDE the trainable selection gets a new value in between and must keep it
        mod.to_jax()
        outside = [r for r in range(n) if r not in holds and not (isinstance(mod.nodes.loc[r, key], float) and math.isnan(mod.nodes.loc[r, key]))]
        val2 = float(rng.uniform(0.91, 0.99))
        if outside:
            mod.select(nodes=[outside[0]]).set(key, val2)
            R.count("write_trainables-after-edit")
        expected = mod.nodes[key].to_numpy().copy()
        expected[holds] = val
        mod.write_trainables(p)
        tab = mod.nodes[key].to_numpy()
        if not np.array_equal(tab, expected, equal_nan=True):
            R.spec_fail(dict(kind="write_trainables"), f"write_trainables({key}) table {tab.tolist()} differs from the trainable value on rows {holds} and the "
                        f"current table elsewhere {expected.tolist()}", inp, tab.tolist())
        mod.delete_trainables()
        if len(R.samples) < 3:
            R.samples.append(dict(input=inp, rows=holds, index_groups=inds.tolist()))
    for (inp, impl), o in zip(mt_meta, drv.batch(mt_lines)):
        model = [[int(x) for x in g.split(",")] for g in o.split()[1].split(";")] if len(o.split()) > 1 else []
        if model != impl:
            R.disagree("index-groups", input=inp, impl=impl, model=model)
    for (inp, impl), o in zip(sc_meta, drv.batch(sc_lines)):
        model = [b2f(int(x)) for x in o.split()[1].split(",")]
        if not all((a == b) or (math.isnan(a) and math.isnan(b)) for a, b in zip(impl, model)):
            R.disagree("scattered-array", input=inp, impl=impl, model=model)
    # ---------- edge keys: set == data_set == trainable, exact selection (networks with two synapse types)
    KEYS = {"IonotropicSynapse": ["IonotropicSynapse_gS", "IonotropicSynapse_s", "IonotropicSynapse_k_minus"], "TestSynapse": ["TestSynapse_gC", "TestSynapse_c"]}
    for t in range(max(5, nm // 6)):
        net, desc = random_network(rng, syn_types=["IonotropicSynapse", "TestSynapse"], nsyn=int(rng.integers(3, 7)))
        for typ in sorted(set(net.edges["type"])):
            rows = net.edges.index[net.edges["type"] == typ].to_numpy()
            R.count("edge-type-interleaved" if rows.tolist() != list(range(len(rows))) else "edge-type-first-block")
            # every parameter AND initial synaptic state of the type (both are stored per synapse type)
            for key in KEYS[typ]:
                sel = sorted(rng.choice(rows, size=int(rng.integers(1, len(rows) + 1)), replace=False).tolist())
                view = net.select(edges=sel)
                val = float(rng.uniform(1e-4, 1e-3)) if key.endswith(("gS", "gC")) else float(rng.uniform(0.2, 0.8))
                R.evaluations += 1
                inp = dict(module=desc, edges=sel, key=key)
                m2 = __import__("copy").deepcopy(net); m2.select(edges=sel).set(key, val); a_set = arrays(m2, [])
                a_ds = arrays(net, view.data_set(key, val, None))
                net.delete_trainables(); view.make_trainable(key, verbose=False)
                p = [{key: jnp.full_like(net.get_parameters()[-1][key], val)}]
                a_tr = arrays(net, params_to_pstate(p, net.indices_set_by_trainables))
                for name, a in (("data_set", a_ds), ("make_trainable", a_tr)):
                    if not np.array_equal(a[key], a_set[key]):
                        R.spec_fail(dict(kind="edge-route-differs", route=name, state=key.endswith(("_s", "_c"))), f"{name}({key}) on edges {sel} differs from set(): {a[key].tolist()} vs {a_set[key].tolist()}", inp, a[key].tolist())
                net.write_trainables(p)
                if not np.array_equal(net.edges.loc[rows, key].to_numpy(), a_set[key]):
                    R.spec_fail(dict(kind="write_trainables", edge=True), f"write_trainables({key}) on edges {sel}: table {net.edges.loc[rows, key].tolist()} differs from set() {a_set[key].tolist()}", inp, None)
                net.delete_trainables()
    R.explanation = "scatter/padding/order theorems on the model; index groups and scattered arrays compared bit-exactly with the implementation"
    R.assumptions = ["JAX scatter semantics (out-of-bounds dropped, rows applied in order) are restated in the model and exercised on every run"]
    R.extra["driver_lines"] = drv.lines
    return R


def rebuild_view(mod, vdesc):
    how = vdesc["how"]
    if how == "branch":
        return mod.scope("global").branch(vdesc["idx"]).scope("local")
    if how == "branch-all":
        return mod.scope("global").branch(vdesc["idx"]).scope("local").branch("all")
    if how == "comp":
        return mod.scope("global").comp(vdesc["idx"]).scope("local")
    if how == "cell":
        return mod.cell(vdesc["idx"])
    if how == "group-branches":
        return mod.g.branch("all")
    if how == "select":
        return mod.select(nodes=vdesc["idx"])
    if how == "group":
        return mod.g
    if how == "channel":
        return getattr(mod, vdesc["idx"])
    return mod


def replay(args):
    R = Result("C10")
    f = json.load(open(args.replay))
    comp = jx.Compartment()
    cell = jx.Cell([jx.Branch([comp] * k) for k in [2, 1, 3]], parents=[-1, 0, 0])
    cell.branch([0, 1]).make_trainable("radius", verbose=False)
    cell.to_jax()
    r = np.asarray(cell.get_all_parameters(params_to_pstate([{"radius": jnp.asarray([5.0, 7.0])}], cell.indices_set_by_trainables), "jaxley.thomas")["radius"])
    R.replay_result = dict(fails=r.tolist() != [5, 5, 7, 1, 1, 1], witness="ncomp [2,1,3], branch([0,1]).make_trainable('radius'), params [5,7]", radius=r.tolist(), input=f.get("input"))
    return R


if __name__ == "__main__":
    a = parse_args()
    r = replay(a) if a.mode == "replay" else run(a)
    r.write(a.out)
