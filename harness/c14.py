"""C14 harness: init_state is a fixed point of update_states; Module.init_states writes only the rows that
contain the channel, each from its own voltage and parameters.

correspondence : generated `init_state` kernels (Float) vs the real Channel.init_state
spec predicate : on the IMPLEMENTATION: update_states(init_state(v), dt, v) == init_state(v) for several dt;
                 Module.init_states frame on cells with partial insertions, renamed and multiple channels.
"""
import math
import numpy as np
from common import *

setup_jax()
import jax.numpy as jnp
import jaxley as jx
from jaxley.channels import HH, Na, K, Km, CaL, CaT, Leak

CH = dict(HH=(HH, ["m", "h", "n"]), Na=(Na, ["m", "h"]), K=(K, ["n"]), Km=(Km, ["p"]), CaL=(CaL, ["q", "r"]),
          CaT=(CaT, ["u"]), Leak=(Leak, []))
SING = dict(HH=[(None, -40.0), (None, -55.0)], Na=[("vt", 13.0), ("vt", 40.0)], K=[("vt", 15.0)], CaL=[(None, -27.0)])
PR = {"vt": (-70.0, -50.0), "taumax": (100.0, 5000.0), "vx": (-5.0, 5.0)}


def rand_params(inst, mech, prefix, rng, n):
    P = {}
    for k, d in inst.channel_params.items():
        base = k[len(prefix) + 1:] if k.startswith(prefix + "_") else k
        if base in PR:
            P[k] = rng.uniform(*PR[base], n)
        else:
            P[k] = np.full(n, float(d))
    return P


def is_singular(mech, v, P, i):
    for (pk, off) in SING.get(mech, []):
        x = (v - P[pk][i]) - off if pk else v - off
        if x == 0.0:
            return True
    return False


def kernel_level(R, drv, rng, n):
    for mech, (ctor, sfx) in CH.items():
        for prefix in (mech, "ren"):
            inst = ctor() if prefix == mech else ctor().change_name(prefix)
            v = rng.uniform(-120, 60, n)
            P = rand_params(inst, mech, prefix, rng, n)
            # enumerated singular voltages (default vt) are part of the quantifier
            sv = [off if pk is None else -60.0 + off for (pk, off) in SING.get(mech, [])]
            for j, s in enumerate(sv):
                v[j] = s
                if "vt" in P:
                    P["vt"][j] = -60.0
            S = {f"{prefix}_{s}": jnp.asarray(np.full(n, 0.2)) for s in sfx}
            Pj = {k: jnp.asarray(x) for k, x in P.items()}
            init = inst.init_state(S, jnp.asarray(v), Pj, 0.025)
            init = {k: np.asarray(x, dtype=np.float64) * np.ones(n) for k, x in init.items()}
            if set(init) != set(S):
                R.spec_fail(dict(kind="init-keys", mech=mech), f"{mech}.init_state returns keys {sorted(init)} expected {sorted(S)}", dict(mech=mech), sorted(init))
                continue
            # correspondence with the generated kernel
            lines = [drv.kline(f"{mech}.init_state", [v[i], 0.025], pfx=prefix, states={k: 0.2 for k in S}, params={k: P[k][i] for k in P}) for i in range(n)]
            mo = [drv.parse_kv(l) for l in drv.batch(lines)]
            # fixed point on the implementation for several dt
            upd = {}
            for dt in (1e-3, 0.025, 1.0, 1e3):
                if sfx:
                    u = inst.update_states({k: jnp.asarray(x) for k, x in init.items()}, dt, jnp.asarray(v), Pj)
                    upd[dt] = {k: np.asarray(x, dtype=np.float64) for k, x in u.items()}
            for i in range(n):
                R.evaluations += 1
                inp = dict(mech=mech, prefix=prefix, v=float(v[i]), params={k: float(P[k][i]) for k in P})
                sing = is_singular(mech, v[i], P, i)
                R.count(f"{mech}:{'singular' if sing else 'regular'}")
                for k in init:
                    x0 = float(init[k][i])
                    xm = mo[i][k] if mo[i] and k in mo[i] else None
                    if xm is None or not close(x0, xm, rel=1e-9, abs_=1e-14, maxulp=512):
                        R.disagree("init_state", mech=mech, key=k, impl=x0, model=xm, input=inp)
                    if not math.isfinite(x0):
                        sig = dict(kind="gate-nan-at-removable-singularity") if sing else dict(kind="init-nonfinite", mech=mech)
                        if sing:
                            R.known_confirmed.append("F4b")
                        R.spec_fail(sig, f"{mech}.init_state {k} = {x0} at v={v[i]!r}", inp, x0)
                        continue
                    if x0 not in (0.0, 1.0):
                        R.distinct.add((mech, prefix, k, float(v[i])))
                    for dt, u in upd.items():
                        x1 = float(u[k][i])
                        if not close(x1, x0, rel=1e-10, abs_=1e-13, maxulp=64):
                            R.spec_fail(dict(kind="init-not-fixed-point", mech=mech, key=k.split("_")[-1]),
                                        f"{mech}: init_state {k}={x0!r} moves to {x1!r} after one update (dt={dt})", dict(dt=dt, **inp), x1, init=x0)
                            break
            if len(R.samples) < 6 and sfx:
                R.samples.append(dict(mech=mech, prefix=prefix, v=float(v[n // 2]), init={k: float(init[k][n // 2]) for k in init}))


def module_level(R, rng, ncells, drv=None):
    """Module.init_states: frame + per-row steady state, on cells with partial insertions."""
    comp = jx.Compartment()
    for c in range(ncells):
        nb = int(rng.integers(1, 4))
        ncomps = [int(rng.integers(1, 4)) for _ in range(nb)]
        parents = [-1] + [int(rng.integers(0, i)) for i in range(1, nb)]
        cell = jx.Cell([jx.Branch([comp] * k) for k in ncomps], parents=parents)
        n = sum(ncomps)
        chans = []
        names = list(rng.choice(["HH", "Na", "K", "Km", "CaL", "CaT", "Leak"], size=int(rng.integers(1, 5)), replace=False))
        for nm in names:
            ch = CH[nm][0]()
            if rng.random() < 0.3:
                ch.change_name(nm + "x")
            chans.append((nm, ch))
            rows = sorted(rng.choice(n, size=int(rng.integers(1, n + 1)), replace=False).tolist())
            cell.select(nodes=rows).insert(ch)
        if rng.random() < 0.3 and "HH" in names:          # two HH-type channels in one compartment
            ch2 = HH().change_name("HH2"); chans.append(("HH", ch2)); cell.insert(ch2)
        # voltages: independent per compartment, or SHARED by several compartments whose parameters differ (the steady state
        # of a compartment depends on its own parameters also when another compartment sits at exactly the same voltage)
        def draw_v():
            if rng.random() < 0.5:
                return rng.uniform(-120, 60, n)
            pool = rng.uniform(-120, 60, int(rng.integers(1, 3)))
            return pool[rng.integers(0, len(pool), n)]
        cell.set("v", draw_v())
        R.count("voltages:" + ("shared" if len(set(cell.nodes["v"].tolist())) < n else "distinct"))
        for key in [c_ for c_ in cell.nodes.columns if c_ == "vt" or c_.endswith("_taumax") or c_.endswith("_vx")]:
            if key in cell.nodes.columns:
                lo, hi = PR[key.split("_")[-1]]
                rows = cell.nodes.index[~cell.nodes[key].isna()].to_numpy()
                cell.select(nodes=rows).set(key, rng.uniform(lo, hi, len(rows)))
        for phase in ("first-call", "after-parameter-change"):
            if phase == "after-parameter-change":
                # the module has been used (its jax tables exist); parameters and voltages change; init_states is called AGAIN
                cell.to_jax()
                cell.set("v", draw_v())
                for key in [c_ for c_ in cell.nodes.columns if c_ == "vt" or c_.endswith("_taumax") or c_.endswith("_vx")]:
                    if key in cell.nodes.columns:
                        lo, hi = PR[key.split("_")[-1]]
                        rows = cell.nodes.index[~cell.nodes[key].isna()].to_numpy()
                        cell.select(nodes=rows).set(key, rng.uniform(lo, hi, len(rows)))
            before = cell.nodes.copy()
            try:
                cell.init_states()
            except Exception as ex:
                R.spec_fail(dict(kind="init_states-raises", err=type(ex).__name__), f"init_states raises {type(ex).__name__}: {str(ex)[:120]}",
                            dict(parents=parents, ncomps=ncomps, channels=[(nm, ch._name) for nm, ch in chans], phase=phase), repr(ex)[:200])
                break
            after = cell.nodes
            R.evaluations += 1
            if drv is not None:
                model_init_states(R, drv, before, after, chans, dict(parents=parents, ncomps=ncomps, channels=[(nm, ch._name) for nm, ch in chans], phase=phase))
            desc = dict(parents=parents, ncomps=ncomps, channels=[(nm, ch._name) for nm, ch in chans], phase=phase)
            R.distinct.add(json_key(desc))
            state_cols = set()
            for nm, ch in chans:
                state_cols |= set(ch.channel_states)
            # frame: every other column unchanged
            for col in before.columns:
                if col in state_cols:
                    continue
                a, b = before[col].to_numpy(), after[col].to_numpy()
                same = all((x == y) or (isinstance(x, float) and isinstance(y, float) and math.isnan(x) and math.isnan(y)) for x, y in zip(a, b))
                if not same:
                    R.spec_fail(dict(kind="init_states-frame", col=col), f"init_states changed column {col}", desc, [a.tolist(), b.tolist()])
            for nm, ch in chans:
                has = after[ch._name].to_numpy().astype(bool)
                for k in ch.channel_states:
                    for r in range(n):
                        x_b, x_a = float(before.loc[r, k]), float(after.loc[r, k])
                        if not has[r]:
                            # another channel may share the state name only for identically named channels: not the case here
                            if not ((x_a == x_b) or (math.isnan(x_a) and math.isnan(x_b))):
                                R.spec_fail(dict(kind="init_states-wrote-row-without-channel", mech=nm), f"{k} row {r} written although {ch._name} is absent", desc, x_a)
                            continue
                        P = {p: jnp.asarray([float(after.loc[r, p])]) for p in ch.channel_params}
                        v = float(after.loc[r, "v"])
                        S = {kk: jnp.asarray([float(after.loc[r, kk])]) for kk in ch.channel_states}
                        if not math.isfinite(x_a):
                            R.spec_fail(dict(kind="init-nonfinite", mech=nm), f"init_states: {k} row {r} = {x_a}", dict(v=v, **desc), x_a); continue
                        u = ch.update_states(S, 0.3, jnp.asarray([v]), P)
                        x1 = float(u[k][0])
                        if not close(x1, x_a, rel=1e-10, abs_=1e-13, maxulp=64):
                            R.spec_fail(dict(kind="init-not-fixed-point", mech=nm, key=k.split("_")[-1]),
                                        f"init_states: {k} row {r} = {x_a!r} is not a fixed point at its own v={v!r} (moves to {x1!r})", dict(v=v, row=r, **desc), x1, init=x_a)
        R.count(f"cells:{len(chans)}-channels")


def model_init_states(R, drv, before, after, chans, desc, dt=0.025):
    """correspondence with the Lean model of Module.init_states (Model/InitStates.lean, driver command `initst`): the model receives
    the node table as it was BEFORE the call (voltages, parameters, states, membership flags, channels in module order) and must
    reproduce every state column of the table AFTER the call"""
    n = before.shape[0]
    scols, pcols = [], []
    for nm, ch in chans:
        scols += [k for k in ch.channel_states if k not in scols]
        pcols += [k for k in ch.channel_params if k not in pcols]
    enc = lambda x: str(f2b(float(x)))
    toks = ["initst", enc(dt), str(len(chans))]
    for nm, ch in chans:
        toks += [nm, ch._name]
    toks.append(str(n))
    for r in range(n):
        mem = [i for i, (nm, ch) in enumerate(chans) if bool(before.loc[r, ch._name])]
        toks += [enc(before.loc[r, "v"]), str(len(mem))] + [str(i) for i in mem]
        toks += [str(len(scols))] + [t for k in scols for t in (k, enc(before.loc[r, k]))]
        toks += [str(len(pcols))] + [t for k in pcols for t in (k, enc(before.loc[r, k]))]
    out = drv.batch([" ".join(toks)])[0]
    if not out.startswith("ok"):
        R.disagree("initst-driver-error", input=desc, answer=out[:80]); return
    rows = out.split()[1:]
    if len(rows) != n:
        R.disagree("initst-row-count", input=desc); return
    R.count("initst:tables")
    for r, tok in enumerate(rows):
        if tok == "-":
            continue
        for kv in tok.split(","):
            k, b = kv.rsplit("=", 1)
            xm, xi = b2f(int(b)), float(after.loc[r, k])
            R.count("initst:cells")
            if not close(xm, xi, rel=1e-10, abs_=1e-13, maxulp=64):
                R.disagree("init_states-model", input=dict(desc, row=r, key=k, v=float(before.loc[r, "v"])), impl=xi, model=xm)
                return


def json_key(d):
    import json
    return json.dumps(d, sort_keys=True, default=str)


def run(args):
    R = Result("C14")
    rng = np.random.default_rng(args.seed)
    drv = LeanDriver()
    mult = 4 if args.mode == "search" else 1
    kernel_level(R, drv, rng, {"quick": 200, "thorough": 3000}[args.tier] * mult)
    module_level(R, rng, {"quick": 12, "thorough": 150}[args.tier] * mult, drv)
    R.rule = ("kernel level: per channel (default and renamed) random v in [-120,60] + enumerated singular voltages, random vt/taumax/vx, "
              "dt in {1e-3,0.025,1,1e3}; module level: random cells with partial insertions / renamed / duplicated channels. "
              "distinct = distinct (channel, key, v) resp. distinct cell descriptions; non-trivial = steady state not 0 or 1")
    R.explanation = "fixed-point theorems over ℝ on the generated kernels; implementation sampled at kernel and Module level"
    R.assumptions = ["IEEE rounding sampled", "Module.init_states: modelled in Lean (Model/InitStates.lean; frame, idempotence and steady-state theorems) and compared table-by-table with the implementation; the pandas row selection itself is restated in the model"]
    R.extra["driver_lines"] = drv.lines
    return R


def replay(args):
    import json
    R = Result("C14")
    f = json.load(open(args.replay))
    inp = f.get("input", {})
    if "mech" not in inp or "params" not in inp:
        R.replay_result = dict(fails=f.get("kind") != "spec-violation", note="not a kernel-level input"); return R
    ctor, sfx = CH[inp["mech"]]
    prefix = inp.get("prefix", inp["mech"])
    inst = ctor() if prefix == inp["mech"] else ctor().change_name(prefix)
    P = {k: jnp.asarray([v]) for k, v in inp["params"].items()}
    S = {f"{prefix}_{s}": jnp.asarray([0.2]) for s in sfx}
    init = inst.init_state(S, jnp.asarray([inp["v"]]), P, 0.025)
    upd = inst.update_states({k: jnp.asarray(x) for k, x in init.items()}, inp.get("dt", 0.025), jnp.asarray([inp["v"]]), P)
    bad = any(not close(float(upd[k][0]), float(init[k][0]), rel=1e-10, abs_=1e-13) for k in init)
    R.replay_result = dict(fails=bad, init={k: float(v[0]) for k, v in init.items()}, after={k: float(v[0]) for k, v in upd.items()})
    return R


if __name__ == "__main__":
    a = parse_args()
    r = replay(a) if a.mode == "replay" else run(a)
    r.write(a.out)
