"""Shared helpers for the cable properties (C01, C02, C12, C13, C15): random morphologies, one implementation
step with every (solver, backend), and the encoding of a cell for the Lean driver's `cable` command."""
import math
import numpy as np
from common import *

jax = setup_jax()
import jax.numpy as jnp
import jaxley as jx
from jaxley.channels import Leak

SOLVERS = ["bwd_euler", "crank_nicolson", "fwd_euler"]
BACKENDS = ["jaxley.stone", "jaxley.thomas", "jax.sparse"]


def random_parents(rng, nb, topological=None):
    """random rooted tree on branches 0..nb-1 with root 0; with probability 1/2 the non-root branches are relabelled by a random
    permutation, so that parents need not have a smaller index than their children (any parent vector, any sibling order)"""
    par = [-1] + [int(rng.integers(0, i)) for i in range(1, nb)]
    if topological is None:
        topological = rng.random() < 0.5
    if topological or nb < 3:
        return par
    perm = [0] + [int(x) for x in 1 + rng.permutation(nb - 1)]
    parents = [None] * nb
    for i in range(nb):
        parents[perm[i]] = -1 if par[i] == -1 else perm[par[i]]
    return parents


def random_cell_desc(rng, max_branches=6, max_ncomp=4, shape=None, morph=None):
    """dict(parents, ncomp, r, l, ra, cm, g, e, v, istim)"""
    if morph is not None:
        parents, ncomp = list(morph[0]), list(morph[1])
        return _fill(rng, "given", parents, ncomp)
    nb = int(rng.integers(1, max_branches + 1))
    kind = shape or str(rng.choice(["random", "equal", "narrow-parent", "wide-child", "singles", "chain", "star"]))
    parents = random_parents(rng, nb)
    if kind == "chain":
        parents = [-1] + list(range(nb - 1))
    if kind == "star":
        parents = [-1] + [0] * (nb - 1)
    if kind == "equal":
        k = int(rng.integers(1, max_ncomp + 1)); ncomp = [k] * nb
    elif kind == "singles":
        ncomp = [1] * nb
    else:
        ncomp = [int(rng.integers(1, max_ncomp + 1)) for _ in range(nb)]
        if kind == "narrow-parent" and nb > 1:
            ncomp[0] = 1
        if kind == "wide-child" and nb > 1:
            ncomp[-1] = max_ncomp + 1
    return _fill(rng, kind, parents, ncomp)


def _fill(rng, kind, parents, ncomp):
    n = sum(ncomp)
    lu = lambda lo, hi, k=n: np.exp(rng.uniform(np.log(lo), np.log(hi), k))
    return dict(kind=kind, parents=parents, ncomp=ncomp,
                r=lu(0.2, 20.0).tolist(), l=lu(1.0, 200.0).tolist(), ra=lu(50.0, 50000.0).tolist(), cm=lu(0.1, 10.0).tolist(),
                g=lu(1e-6, 1e-2).tolist(), e=rng.uniform(-100, 20, n).tolist(), v=rng.uniform(-100, 40, n).tolist(),
                istim=(rng.uniform(-2, 2, n) * (rng.random(n) < 0.4)).tolist())


def build_cell(d):
    comp = jx.Compartment()
    cell = jx.Cell([jx.Branch([comp] * k) for k in d["ncomp"]], parents=d["parents"])
    apply_desc(cell, d)
    return cell


def build_net(ds):
    """synapse-free network of the described cells (passive, Leak), parameters per compartment"""
    cells = []
    for d in ds:
        comp = jx.Compartment()
        cells.append(jx.Cell([jx.Branch([comp] * kk) for kk in d["ncomp"]], parents=d["parents"]))
    net = jx.Network(cells)
    net.insert(Leak())
    for ci, d in enumerate(ds):
        v = net.cell(ci)
        v.set("radius", np.asarray(d["r"])); v.set("length", np.asarray(d["l"]))
        v.set("axial_resistivity", np.asarray(d["ra"])); v.set("capacitance", np.asarray(d["cm"]))
        v.set("Leak_gLeak", np.asarray(d["g"])); v.set("Leak_eLeak", np.asarray(d["e"])); v.set("v", np.asarray(d["v"]))
    return net


def apply_desc(mod, d, offset=0):
    n = sum(d["ncomp"])
    view = mod
    view.insert(Leak())
    view.set("radius", np.asarray(d["r"])); view.set("length", np.asarray(d["l"]))
    view.set("axial_resistivity", np.asarray(d["ra"])); view.set("capacitance", np.asarray(d["cm"]))
    view.set("Leak_gLeak", np.asarray(d["g"])); view.set("Leak_eLeak", np.asarray(d["e"]))
    view.set("v", np.asarray(d["v"]))


def one_step(mod, n, istim, dt, solver, backend, offset=0):
    """returns ('ok', voltages after one step) or ('refused', exception class name)"""
    mod.delete_recordings(); mod.delete_stimuli()
    mod.record("v", verbose=False)
    idx = [i for i in range(n) if istim[i] != 0.0]
    if idx:
        mod.select(nodes=[offset + i for i in idx]).stimulate(jnp.asarray([[istim[i]] for i in idx]), verbose=False)
    else:
        mod.select(nodes=[offset]).stimulate(jnp.asarray([0.0]), verbose=False)
    try:
        rec = jx.integrate(mod, delta_t=dt, solver=solver, voltage_solver=backend)
    except (NotImplementedError, AssertionError, TypeError) as ex:
        return "refused", type(ex).__name__
    rec = np.asarray(rec, dtype=np.float64)
    assert rec.shape[1] == 2, rec.shape
    return "ok", rec[:, 1]


def cable_line(d, dt, x, solver, arith="rat"):
    enc = frac if arith == "rat" else (lambda v: str(f2b(v)))
    n = sum(d["ncomp"])
    toks = ["cable", arith, solver, str(len(d["parents"]))] + [str(p) for p in d["parents"]]
    toks += [str(len(d["ncomp"]))] + [str(k) for k in d["ncomp"]]
    toks += [str(8 * n)]
    for i in range(n):
        gm = 1000.0 * d["g"][i]
        km = 1000.0 * d["g"][i] * d["e"][i]
        # NB: gm, km are the exact linearisation of the Leak current (mA/cm² -> µA/cm²); computed here in double,
        # then treated as exact rationals by the driver
        toks += [enc(v) for v in (d["r"][i], d["l"][i], d["ra"][i], d["cm"][i], gm, km, d["v"][i], d["istim"][i])]
    toks += [enc(dt), "X"] + [enc(v) for v in x]
    return " ".join(toks)


def parse_cable(line):
    if not line.startswith("ok"):
        return None
    out = {}
    for tok in line.split()[1:]:
        k, v = tok.split("=", 1)
        if k == "model":
            out[k] = [b2f(int(t)) for t in v.split(",")] if v else []
        elif k == "refused":
            out[k] = int(v)
        else:
            out[k] = b2f(int(v))
    return out


class Stepper:
    """One compiled `step_fn` (public API `build_init_and_step_fn`) per (module, solver, backend); stimulus vector,
    initial voltages and dt are run-time arguments, so thousands of single steps cost one compilation."""

    def __init__(self, mod, solver, backend):
        from jaxley.integrate import build_init_and_step_fn
        self.n = mod.nodes.shape[0]
        mod.delete_recordings(); mod.delete_stimuli()
        mod.stimulate(jnp.zeros((self.n, 1)), verbose=False)
        mod.to_jax()
        init_fn, step_fn = build_init_and_step_fn(mod, voltage_solver=backend, solver=solver)
        self.states, self.params = init_fn([], None, None, 0.025)
        inds = mod.external_inds["i"]
        self.refused = None

        def f(states, params, ivec, dt):
            return step_fn(states, params, {"i": ivec}, {"i": inds}, dt)["v"]
        self.f = jax.jit(f)
        mod.delete_stimuli()

    def step(self, istim, dt, v=None):
        st = dict(self.states)
        if v is not None:
            st["v"] = jnp.asarray(v)
        try:
            return "ok", np.asarray(self.f(st, self.params, jnp.asarray(istim, dtype=jnp.float64), dt), dtype=np.float64)
        except (NotImplementedError, AssertionError, TypeError) as ex:
            return "refused", type(ex).__name__
