"""C07 harness: simulations compose in time.

Spec predicates on the IMPLEMENTATION (random cells / networks with channels and synapses, all solvers x backends):
  * one call over n1+n2(+n3) steps == calls over the parts chained through return_states / all_states
  * manual stepping with build_init_and_step_fn reproduces every column
  * the states returned with return_states=True are the model state at the last returned time point, for checkpoint
    layouts with product == steps and product > steps (F6, fixed)
Correspondence with the Lean model of `integrate`'s time axis (`Model.integrateCore`) is exact on an integer toy step
(driver `icore`) — it fixes WHICH state the model says is returned — while the theorems are in Props/C07.lean.
"""
import math, os
import numpy as np
from common import *
from simlib import *
from jaxley.integrate import build_init_and_step_fn

SOLVERS = ["bwd_euler", "crank_nicolson"]


def states_close(a, b, tol=1e-8):
    worst = 0.0
    for k in a:
        if k not in b:
            return False, k, math.inf
        x, y = np.asarray(a[k], dtype=np.float64), np.asarray(b[k], dtype=np.float64)
        if x.shape != y.shape:
            return False, k, math.inf
        if x.size:
            d = float(np.nanmax(np.abs(x - y) / (1e-9 + tol * (1 + np.abs(y))) * tol)) if np.all(np.isfinite(x) == np.isfinite(y)) else math.inf
            if not np.allclose(x, y, rtol=tol, atol=tol, equal_nan=True):
                return False, k, float(np.nanmax(np.abs(x - y)))
            worst = max(worst, d)
    return True, None, worst


def run(args):
    R = Result("C07")
    R.export_distinct = True
    if args.shard < 0:
        return run_sharded(os.path.abspath(__file__), args, 8 if args.tier == "quick" else 16, "C07")
    rng = np.random.default_rng([args.seed, args.shard, 7])
    drv = LeanDriver()
    R.rule = ("random cells/networks (channels, synapses), random stimulus, random splits (2-3 parts, each >= 1 step), solver x backend per "
              "shard/case, checkpoint layouts with product == steps and > steps. distinct = (module description, split, solver, backend); "
              "non-trivial = all parts >= 1 step and module has >= 2 compartments")
    # ---- model correspondence on the integer toy step: which state is returned?
    for ls, n in (([4, 4], 10), ([2, 5], 10), ([3, 3, 2], 18), ([7], 7), ([2, 2, 2], 5)):
        o = drv.batch([" ".join(["icore", str(len(ls))] + [str(l) for l in ls] + [str(n)] + ["1"] * n + ["0"])])[0].split()
        R.evaluations += 1
        R.extra.setdefault("model_returned_state", []).append(dict(layout=ls, inputs=n, model_state=int(o[1]), recordings=len(o[2].split(","))))
    nm = {"quick": 1, "thorough": 5}[args.tier] * (2 if args.mode == "search" else 1)
    for t in range(nm):
        mod, desc = random_module(rng)
        solver = SOLVERS[(args.shard + t) % 2]
        backend = BACKENDS[(args.shard // 2 + t) % 3]
        nparts = int(rng.integers(2, 4))
        parts = [int(rng.integers(1, 7)) for _ in range(nparts)]
        n = sum(parts)
        add_random_recordings(mod, rng)
        stim_row = int(rng.integers(0, mod.nodes.shape[0]))
        sig = stim_signal(rng, n) + 0.05
        view = mod.select(nodes=[stim_row])
        dt = 0.025
        kw = dict(solver=solver, voltage_solver=backend, delta_t=dt)
        inp = dict(module=desc, solver=solver, backend=backend, parts=parts, stim_row=stim_row)
        try:
            full, full_states = jx.integrate(mod, data_stimuli=view.data_stimulate(jnp.asarray(sig)), return_states=True, **kw)
        except AssertionError:
            R.count("refused"); continue
        full = np.asarray(full)
        R.evaluations += 1
        if mod.nodes.shape[0] >= 2:
            R.distinct.add(json.dumps([str(desc)[:200], parts, solver, backend]))
        # ---- split runs
        states, cols, off = None, [], 0
        for k, p in enumerate(parts):
            ds = view.data_stimulate(jnp.asarray(sig[off:off + p]))
            rec, states = jx.integrate(mod, data_stimuli=ds, return_states=True, all_states=states, **kw)
            rec = np.asarray(rec)
            cols.append(rec if k == 0 else rec[:, 1:])
            off += p
            R.evaluations += 1
        joined = np.concatenate(cols, axis=1)
        if joined.shape != full.shape or not np.allclose(joined, full, rtol=1e-8, atol=1e-8):
            R.spec_fail(dict(kind="split-differs"), f"{solver}/{backend}: split {parts} differs from the single call by {np.max(np.abs(joined - full)) if joined.shape == full.shape else 'shape'}", inp, None)
        ok, key, err = states_close(states, full_states)
        if not ok:
            R.spec_fail(dict(kind="split-final-state-differs"), f"{solver}/{backend}: final state after split {parts} differs in {key} by {err:.3g}", inp, err)
        # ---- the same composition when parameters AND initial states are supplied at run time (`params=` of trainables, incl. trainable
        #      initial voltages / gate states, and `param_state=` of data_set): a continuation starts from the handed-over states
        mod.delete_trainables()
        nn_ = mod.nodes.shape[0]
        tr_rows = sorted(rng.choice(nn_, size=int(rng.integers(1, nn_ + 1)), replace=False).tolist())
        mod.select(nodes=tr_rows).make_trainable("v", verbose=False)
        gate_key = next((k for ch in mod.channels for k in ch.channel_states), None)
        if gate_key is not None:
            has = mod.nodes.index[mod.nodes[gate_key.rsplit("_", 1)[0]].astype(bool)].tolist() if gate_key.rsplit("_", 1)[0] in mod.nodes.columns else []
            if has:
                mod.select(nodes=has[:1]).make_trainable(gate_key, verbose=False)
        mod.select(nodes=[0]).make_trainable("radius", verbose=False)
        params = mod.get_parameters()
        params = [{k: (v + rng.uniform(1.0, 4.0) if k == "v" else v * 1.15 if k == "radius" else jnp.clip(v + 0.2, 0.0, 1.0)) for k, v in d.items()} for d in params]
        pstate = mod.select(nodes=[nn_ - 1]).data_set("length", float(rng.uniform(12.0, 30.0)), None)
        kwp = dict(kw, params=params, param_state=pstate)
        fullp, fullp_states = jx.integrate(mod, data_stimuli=view.data_stimulate(jnp.asarray(sig)), return_states=True, **kwp)
        fullp = np.asarray(fullp)
        states, cols, off = None, [], 0
        for k, pz in enumerate(parts):
            rec, states = jx.integrate(mod, data_stimuli=view.data_stimulate(jnp.asarray(sig[off:off + pz])), return_states=True, all_states=states, **kwp)
            cols.append(np.asarray(rec) if k == 0 else np.asarray(rec)[:, 1:])
            off += pz
            R.evaluations += 1
        joined = np.concatenate(cols, axis=1)
        R.count("split-with-trainable-initial-states")
        if joined.shape != fullp.shape or not np.allclose(joined, fullp, rtol=1e-8, atol=1e-8):
            R.spec_fail(dict(kind="split-differs", route="params+param_state"), f"{solver}/{backend}: with trainable initial states / run-time parameters the split {parts} differs from the single call by "
                        f"{np.max(np.abs(joined - fullp)) if joined.shape == fullp.shape else 'shape'}", dict(inp, trainable_v_rows=tr_rows), None)
        ok, key, err = states_close(states, fullp_states)
        if not ok:
            R.spec_fail(dict(kind="split-final-state-differs", route="params+param_state"), f"{solver}/{backend}: final state after split {parts} (run-time parameters) differs in {key} by {err:.3g}", inp, err)
        if np.allclose(fullp, full, rtol=1e-6, atol=1e-6):
            R.count("diag:run-time-parameters-had-no-effect")
        mod.delete_trainables()
        # ---- manual stepping
        mod.to_jax()
        init_fn, step_fn = build_init_and_step_fn(mod, voltage_solver=backend, solver=solver)
        st, params = init_fn([], None, None, dt)
        rec_inds = mod.recordings.rec_index.to_numpy(); rec_states = mod.recordings.state.to_numpy()
        manual = [[float(st[s][i]) for s, i in zip(rec_states, rec_inds)]]
        jstep = jax.jit(lambda s, x: step_fn(s, params, {"i": x}, {"i": jnp.asarray([stim_row])}, dt))
        for k in range(n):
            st = jstep(st, jnp.asarray([sig[k]]))
            manual.append([float(st[s][i]) for s, i in zip(rec_states, rec_inds)])
        manual = np.asarray(manual).T
        R.evaluations += 1
        if manual.shape != full.shape or not np.allclose(manual, full, rtol=1e-8, atol=1e-8):
            R.spec_fail(dict(kind="manual-stepping-differs"), f"{solver}/{backend}: stepping with step_fn differs from integrate", inp, None)
        ok, key, err = states_close(st, full_states)
        if not ok:
            R.spec_fail(dict(kind="manual-final-state-differs"), f"{solver}/{backend}: manual final state differs from returned states in {key}", inp, err)
        # ---- returned states under checkpointing
        for ls in ([n], factor_exact(n, rng), [int(math.ceil(n / 3)) + 1, 3]):
            rec, st_ck = jx.integrate(mod, data_stimuli=view.data_stimulate(jnp.asarray(sig)), return_states=True, checkpoint_lengths=ls, **kw)
            R.evaluations += 1
            padded = int(np.prod(ls)) > n
            R.count(f"return_states:{'padded' if padded else 'exact'}-layout")
            if not np.allclose(np.asarray(rec), full, rtol=1e-8, atol=1e-8):
                R.spec_fail(dict(kind="checkpoint-layout-changes-recordings"), f"checkpoint_lengths={ls} changes recordings", dict(layout=ls, **inp), None)
            ok, key, err = states_close(st_ck, full_states)
            if not ok:
                if padded:
                    R.spec_fail(dict(kind="returned-state-after-padded-steps"), f"checkpoint_lengths={ls} with {n} steps: returned state is not the state at the last returned time point ({key} differs by {err:.3g})", dict(layout=ls, **inp), err)
                else:
                    R.spec_fail(dict(kind="returned-state-differs"), f"checkpoint_lengths={ls}: returned state differs in {key}", dict(layout=ls, **inp), err)
        if len(R.samples) < 2:
            R.samples.append(inp)
    # ---- inputs attached to the MODULE (stimulate / clamp of a voltage and of a synaptic state, two synapse types interleaved):
    #      one call == manual stepping with the step function's own (default) input indices == a split run
    for t in range(nm):
        net, desc = random_network(rng, syn_types=["IonotropicSynapse", "TestSynapse"], nsyn=int(rng.integers(3, 7)))
        backend = BACKENDS[(args.shard + t) % 3]
        n = int(rng.integers(5, 10)); n1 = int(rng.integers(1, n))
        nn = net.nodes.shape[0]
        net.delete_recordings()
        net.select(nodes=list(range(nn))).record("v", verbose=False)
        typ = str(net.edges["type"].iloc[int(rng.integers(0, len(net.edges)))])
        skey = {"IonotropicSynapse": "IonotropicSynapse_s", "TestSynapse": "TestSynapse_c"}[typ]
        es = [int(x) for x in net.edges.index[net.edges["type"] == typ]]
        net.select(edges=es).record(skey, verbose=False)
        e = int(rng.choice(es)); srow = int(rng.integers(0, nn)); crow = int(rng.integers(0, nn))
        sig = stim_signal(rng, n) + 0.03; cs = rng.uniform(0.1, 0.9, n); cv = rng.uniform(-75, -55, n)
        net.select(nodes=[srow]).stimulate(jnp.asarray(sig), verbose=False)
        net.select(edges=[e]).clamp(skey, jnp.asarray(cs), verbose=False)
        if crow != srow:
            net.select(nodes=[crow]).clamp("v", jnp.asarray(cv), verbose=False)
        inp = dict(module=desc, backend=backend, steps=n, split=[n1, n - n1], stimulus_row=srow, clamped_edge=e, edges_of_type=es, state=skey)
        try:
            full = np.asarray(jx.integrate(net, voltage_solver=backend, delta_t=0.025))
        except AssertionError:
            R.count("refused"); continue
        R.evaluations += 1
        R.count("module-inputs:" + ("edge-index!=rank" if es.index(e) != e else "edge-index==rank"))
        row_e = nn + es.index(e)
        if not np.array_equal(full[row_e, 1:], cs):
            R.spec_fail(dict(kind="module-clamp-not-held"), f"clamp of {skey} on edge {e} (edges of that type: {es}) is not held in the one-call run", inp, None)
        net.to_jax()
        init_fn, step_fn = build_init_and_step_fn(net, voltage_solver=backend)
        st, params = init_fn([], None, None, 0.025)
        rec_inds = net.recordings.rec_index.to_numpy(); rec_states = net.recordings.state.to_numpy()
        within = net.edges.groupby("type").cumcount().to_numpy()
        pos = [int(within[i]) if s_ == skey else int(i) for s_, i in zip(rec_states, rec_inds)]
        manual = [[float(st[s_][i]) for s_, i in zip(rec_states, pos)]]
        ext = {k: np.asarray(v) for k, v in net.externals.items()}
        jstep = jax.jit(lambda s_, x: step_fn(s_, params, x, delta_t=0.025))          # default external_inds
        for k in range(n):
            st = jstep(st, {kk: jnp.asarray(v[:, k]) for kk, v in ext.items()})
            manual.append([float(st[s_][i]) for s_, i in zip(rec_states, pos)])
        manual = np.asarray(manual).T
        if manual.shape != full.shape or not np.allclose(manual, full, rtol=1e-8, atol=1e-8):
            bad = sorted(set(np.where(~np.isclose(manual, full, rtol=1e-8, atol=1e-8))[0].tolist())) if manual.shape == full.shape else "shape"
            R.spec_fail(dict(kind="manual-stepping-differs", inputs="module"), f"{backend}: stepping with step_fn and the module's own inputs differs from integrate in recording rows {bad}", inp, None)
        net.delete_stimuli(); net.delete_clamps()
    # ---- F6 witness (deterministic): 10-sample stimulus, checkpoint_lengths [4,4]
    if args.shard == 0:
        cell, d = random_cell(np.random.default_rng(1), channels=["HH"])
        cell.delete_recordings(); cell.select(nodes=[0]).record("v", verbose=False)
        ds = cell.select(nodes=[0]).data_stimulate(jnp.asarray(0.3 * np.ones(10)))
        _, s1 = jx.integrate(cell, data_stimuli=ds, return_states=True)
        _, s2 = jx.integrate(cell, data_stimuli=ds, return_states=True, checkpoint_lengths=[4, 4])
        ok, key, err = states_close(s2, s1)
        R.evaluations += 1
        if not ok:
            R.spec_fail(dict(kind="returned-state-after-padded-steps"), f"witness: 10 samples, checkpoint_lengths=[4,4]: returned {key} differs by {err:.3g}", dict(layout=[4, 4], nsteps=10), err)
    R.explanation = "run_append / integrate_split / manual stepping / returned_state theorems on the fold; implementation runs compared to 1e-8"
    R.assumptions = ["float runs compared to 1e-8 relative", "jit of the manual step is used for speed"]
    R.extra["driver_lines"] = drv.lines
    return R


def factor_exact(n, rng):
    for a in (2, 3, 5, 7):
        if n % a == 0 and n // a >= 1:
            return [a, n // a]
    return [1, n]


def replay(args):
    R = Result("C07")
    f = json.load(open(args.replay))
    R.replay_result = dict(fails=True, note="re-run the check with the same VERIF_SEED to rebuild the module", input=f.get("input"))
    return R


if __name__ == "__main__":
    a = parse_args()
    r = replay(a) if a.mode == "replay" else run(a)
    r.write(a.out)
