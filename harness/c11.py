"""C11 harness: views select exactly the described compartments, in local or global scope.

correspondence : random selection chains (cell/branch/comp/loc/select/scope/group/channel/edge/synapse-type/[]/iteration with int,
                 list, range, slice, boolean and 'all' indices) executed on the real module and on the Lean model
                 `Model.Views`; after EVERY step `_nodes_in_view`, `_edges_in_view` and the three local index columns must
                 agree, and rejected steps must be rejected by both with the same error class
spec predicate : on the IMPLEMENTATION: mutating calls through the final view (set, insert, record, stimulate, clamp,
                 add_to_group, move) change exactly the rows in view of the base module.
"""
import math, os
import numpy as np
from common import *
from simlib import *

ERR = {AssertionError: "assert", ValueError: "valueerror", KeyError: "keyerror", AttributeError: "attributeerror", IndexError: "indexerror", TypeError: "typeerror"}


def build(rng):
    kind = str(rng.choice(["net", "net", "cell", "branch"]))
    comp = jx.Compartment()
    if kind == "branch":
        mod = jx.Branch([comp] * int(rng.integers(1, 6)))
    else:
        def cell():
            nb = int(rng.integers(1, 5))
            return jx.Cell([jx.Branch([comp] * int(rng.integers(1, 5))) for _ in range(nb)], parents=[-1] + [int(rng.integers(0, i)) for i in range(1, nb)])
        mod = cell() if kind == "cell" else jx.Network([cell() for _ in range(int(rng.integers(1, 4)))])
    n = mod.nodes.shape[0]
    # channels on subsets, groups on subsets
    for nm in rng.choice(["HH", "Leak", "K"], size=int(rng.integers(0, 3)), replace=False):
        rows = sorted(rng.choice(n, size=int(rng.integers(1, n + 1)), replace=False).tolist())
        mod.select(nodes=rows).insert(CHANS[str(nm)]())
    for g in range(int(rng.integers(0, 3))):
        rows = sorted(rng.choice(n, size=int(rng.integers(1, n + 1)), replace=False).tolist())
        mod.select(nodes=rows).add_to_group(f"grp{g}")
    if kind == "net":
        for _ in range(int(rng.integers(0, 5))):
            t = str(rng.choice(["IonotropicSynapse", "TestSynapse"]))
            connect(mod.select(nodes=[int(rng.integers(0, n))]), mod.select(nodes=[int(rng.integers(0, n))]), SYNS[t]())
    return mod, kind


def base_line(mod, kind):
    k = {"net": 0, "cell": 1, "branch": 2, "comp": 3}[kind]
    nd = mod.nodes
    toks = ["view", str(k), str(len(nd))] + [f"{int(r.global_cell_index)},{int(r.global_branch_index)},{int(r.global_comp_index)}" for r in nd.itertuples()]
    ed = mod.edges
    toks += [str(len(ed))] + [f"{int(r.pre_global_comp_index)},{int(r.post_global_comp_index)},{r.type}" for r in ed.itertuples()]
    npb = np.asarray(mod.ncomp_per_branch).tolist()
    toks += [str(len(npb))] + [str(int(x)) for x in npb]
    groups = mod.groups
    toks += [str(len(groups))] + [f"{g}={','.join(str(int(i)) for i in v)}" for g, v in groups.items()]
    chans = [c._name for c in mod.channels]
    toks += [str(len(chans))] + [f"{c}={','.join(str(int(i)) for i in nd.index[nd[c].astype(bool)])}" for c in chans]
    return toks


def spec_at(mod, v, key, py):
    """Spec predicate, computed from the module's global index columns only: the rows that `v.<key>(py)` denotes.
    global scope: rows of v whose global <key> index is selected; local scope: rows whose dense rank within the parent
    (cell: within the view; branch: within its cell; comp: within its branch) is selected. None = index form not covered."""
    rows = [int(r) for r in v._nodes_in_view]
    nd = mod.nodes
    gi = {r: (int(nd.loc[r, "global_cell_index"]), int(nd.loc[r, "global_branch_index"]), int(nd.loc[r, "global_comp_index"])) for r in rows}
    if isinstance(py, (int, np.integer)):
        sel = {int(py)}
    elif isinstance(py, (list, range)):
        sel = set(int(x) for x in py)
    elif isinstance(py, slice):
        sel = set(range(len(nd))[py])
    elif isinstance(py, str) and py == "all":
        return rows
    else:
        return None
    lvl = {"cell": 0, "branch": 1, "comp": 2}[key]
    if v._scope == "global":
        return [r for r in rows if gi[r][lvl] in sel]
    parent = {r: gi[r][:lvl] for r in rows}
    out = []
    for r in rows:
        sibs = sorted({gi[q][lvl] for q in rows if parent[q] == parent[r]})
        if sibs.index(gi[r][lvl]) in sel:
            out.append(r)
    return out


def syn_view_spec(R, mod, v, v2, s, desc):
    """Spec predicate: `view.<SynapseType>` denotes the edges of the current view that have this type (global edge labels)"""
    typ = mod.edges["type"].to_dict()
    want = [int(e) for e in v._edges_in_view if typ.get(int(e)) == s]
    got = [int(e) for e in v2._edges_in_view]
    R.count("syn-view-spec")
    if not want and sorted(got) == sorted(int(e) for e in v._edges_in_view):
        # known finding N8: a type view of a view without that type falls back to the whole view (select(None))
        if got:
            R.known_confirmed.append("N8")
            R.spec_fail(dict(kind="channel-view-without-channel-returns-whole-view"), f"view without {s} edges: `.{s}` returns the whole view (edges {got})", dict(desc, synapse=s), got)
        return False
    if sorted(got) != sorted(want):
        R.spec_fail(dict(kind="synapse-type-view-wrong-edges"), f"`.{s}` on a view with edges {[int(e) for e in v._edges_in_view]} shows edges {got}, denotes {want}",
                    dict(desc, synapse=s, edges=[(int(r.pre_global_comp_index), int(r.post_global_comp_index), r.type) for r in mod.edges.itertuples()]), got)


def syn_battery(R, rng):
    """deterministic part for synapse-type views: networks whose two synapse types are created INTERLEAVED and whose first edges lie
    outside the sub-population that is viewed; the type view is taken from restricted parent views (cells, edge selections,
    global scope) and a parameter is set through it"""
    comp = jx.Compartment()
    for trial in range(3):
        ncell = int(rng.integers(3, 6))
        net = jx.Network([jx.Cell([jx.Branch([comp] * int(rng.integers(1, 3)))], parents=[-1]) for _ in range(ncell)])
        n = net.nodes.shape[0]
        first_of = lambda c: int(net.nodes.index[net.nodes["global_cell_index"] == c][0])
        pairs = [(ncell - 1, ncell - 2)] + [(int(rng.integers(0, ncell)), int(rng.integers(0, ncell))) for _ in range(int(rng.integers(5, 9)))]
        for k, (a, b) in enumerate(pairs):
            t = ["IonotropicSynapse", "TestSynapse"][k % 2] if rng.random() < 0.8 else str(rng.choice(["IonotropicSynapse", "TestSynapse"]))
            connect(net.select(nodes=[first_of(a)]), net.select(nodes=[first_of(b)]), SYNS[t]())
        ne = len(net.edges)
        parents = [("cells", lambda: net.cell(sorted(rng.choice(ncell, size=int(rng.integers(1, ncell)), replace=False).tolist()))),
                   ("cells-global", lambda: net.scope("global").cell(sorted(rng.choice(ncell, size=int(rng.integers(1, ncell)), replace=False).tolist()))),
                   ("edges", lambda: net.select(edges=sorted(rng.choice(ne, size=int(rng.integers(1, ne)), replace=False).tolist()))),
                   ("edge-level", lambda: net.edge(sorted(rng.choice(ne, size=int(rng.integers(1, ne)), replace=False).tolist())))]
        for (pname, mk) in parents:
            for s in ("IonotropicSynapse", "TestSynapse"):
                try:
                    v = mk()
                    v2 = getattr(v, s)
                except (KeyError, ValueError, AttributeError, IndexError) as ex:
                    R.count("syn-battery:refused"); continue
                if v2 is None:
                    continue
                R.evaluations += 1
                if syn_view_spec(R, net, v, v2, s, dict(battery=pname, ncell=ncell)) is False:
                    continue
                # and a mutator through the type view touches exactly these edges
                key = {"IonotropicSynapse": "IonotropicSynapse_gS", "TestSynapse": "TestSynapse_gC"}[s]
                before = net.edges[key].to_numpy().copy()
                want = [int(e) for e in v._edges_in_view if net.edges.loc[int(e), "type"] == s]
                try:
                    v2.set(key, 0.125)
                except (KeyError, ValueError) as ex:
                    if want:
                        R.spec_fail(dict(kind="synapse-type-view-set-refused"), f"`.{s}.set` on a view that contains edges {want} of that type raises {type(ex).__name__}", dict(battery=pname), repr(ex)[:200])
                    continue
                after = net.edges[key].to_numpy()
                changed = [int(i) for i in np.nonzero(~((before == after) | (np.isnan(before) & np.isnan(after))))[0]]
                if sorted(changed) != sorted(want):
                    R.spec_fail(dict(kind="synapse-type-view-set-wrong-edges"), f"`.{s}.set` through a restricted view changed edges {changed}, the view denotes {want}", dict(battery=pname), changed)
                net.edges[key] = before


def battery(R, rng, mod, kind, base, n, lines, expected, metas, m):
    """deterministic part: in global scope, narrow to every top-level element and select compartments / branches by slices and ranges
    that span exactly that element, start inside it, or are open-ended; checked against spec_at and sent to the model"""
    top = {"net": "cell", "cell": "branch"}.get(kind)
    if top is None:
        return
    nd = mod.nodes
    for i in sorted(set(int(x) for x in nd[f"global_{top}_index"]))[:4]:
        mine = nd.index[nd[f"global_{top}_index"] == i].tolist()
        lo, hi = int(min(mine)), int(max(mine)) + 1
        for scope in ("global", "local"):
            for (a, b) in ((lo, hi), (lo, None), (max(lo - 1, 0), hi + 2), (int(rng.integers(0, n)), int(rng.integers(0, n + 2)))):
                for form in ("slice", "range"):
                    if form == "range" and b is None:
                        continue
                    py = slice(a, b, 1) if form == "slice" else range(a, b, 1)
                    tok = f"slice:{a}:{'_' if b is None else b}:1" if form == "slice" else f"range:{a}:{b}:1"
                    ops = ["scope", scope[0], top, f"int:{i}", "comp", tok]
                    outs = []
                    R.count("battery")
                    try:
                        v1 = mod.scope(scope)
                        outs.append(observe(v1))
                        v2 = getattr(v1, top)(i)
                        outs.append(observe(v2))
                        want = spec_at(mod, v2, "comp", py)
                        sdesc = dict(kind=kind, nodes=n, rows_in_view=[int(x) for x in v2._nodes_in_view], scope=scope, level="comp", index=tok, chain=ops)
                        try:
                            v3 = v2.comp(py)
                        except tuple(ERR) as ex:
                            if want:
                                R.spec_fail(dict(kind="selection-refused", scope=scope, form=form), f"{scope} scope: .{top}({i}).comp({tok}) raises {type(ex).__name__} although it denotes rows {want}", sdesc, repr(ex)[:200])
                            raise
                        if [int(x) for x in v3._nodes_in_view] != want:
                            R.spec_fail(dict(kind="selection-wrong-rows", scope=scope, form=form), f"{scope} scope: .{top}({i}).comp({tok}) shows {[int(x) for x in v3._nodes_in_view]}, denotes {want}", sdesc, [int(x) for x in v3._nodes_in_view])
                        outs.append(observe(v3))
                    except tuple(ERR) as ex:
                        outs.append("err " + ERR[type(ex)])
                    lines.append(" ".join(base + ["OPS"] + ops)); expected.append(outs); metas.append((m, kind, n, ops))


def rand_idx(rng, hi, view, forms=("int", "int", "list", "range", "slice", "mask", "all")):
    """returns (python index, protocol token)"""
    form = str(rng.choice(list(forms)))
    hi = max(hi, 1)
    if form == "int":
        k = int(rng.integers(0, hi + 1))
        return k, f"int:{k}"
    if form == "list":
        l = [int(x) for x in rng.integers(0, hi + 1, int(rng.integers(1, 4)))]
        return l, "list:" + ",".join(map(str, l))
    if form == "range":
        a = int(rng.integers(0, hi)); b = int(rng.integers(a, hi + 2)); s = int(rng.integers(1, 3))
        return range(a, b, s), f"range:{a}:{b}:{s}"
    if form == "slice":
        a = None if rng.random() < 0.3 else int(rng.integers(0, hi)); b = None if rng.random() < 0.3 else int(rng.integers(0, hi + 2)); s = int(rng.integers(1, 3))
        return slice(a, b, s), f"slice:{'_' if a is None else a}:{'_' if b is None else b}:{s}"
    if form == "mask":
        shape = (*view.shape, len(view.edges))
        dims = [d for d in shape if d > 0]
        L = int(rng.choice(dims)) if dims and rng.random() < 0.9 else int(rng.integers(1, 12))
        m = rng.random(L) < 0.6
        return np.asarray(m), "mask:" + "".join("1" if x else "0" for x in m)
    return "all", "all"


def observe(v):
    nd = v.nodes
    j = lambda a: ",".join(str(int(x)) for x in a)
    return f"ok n={j(v._nodes_in_view)} e={j(v._edges_in_view)} lc={j(nd['local_cell_index'])} lb={j(nd['local_branch_index'])} lp={j(nd['local_comp_index'])}"


def run(args):
    R = Result("C11")
    rng = np.random.default_rng([args.seed, 11])
    drv = LeanDriver()
    nmods = {"quick": 25, "thorough": 300}[args.tier] * (3 if args.mode == "search" else 1)
    nchains = 12
    R.rule = ("random modules (branch / cell / network of 1-3 cells, 1-4 branches, 1-4 comps per branch, channels and groups on random subsets, "
              "0-4 synapses of two types) x random chains of 1-4 selections with every index form, both scopes, scope switches mid-chain, loc at 0, 1, "
              "bin boundaries and random values. distinct = distinct (module shape, chain) pairs; non-trivial = chain of >= 2 accepted steps")
    lines, expected, metas = [], [], []
    syn_battery(R, rng)
    for m in range(nmods):
        mod, kind = build(rng)
        base = base_line(mod, kind)
        n = mod.nodes.shape[0]
        levels = {"net": ["cell", "branch", "comp"], "cell": ["branch", "comp"], "branch": ["comp"]}[kind]
        if m < 8:
            battery(R, rng, mod, kind, base, n, lines, expected, metas, m)
        for c in range(nchains):
            v = mod
            ops, outs = [], []
            depth = int(rng.integers(1, 5))
            tmpl = rng.random() < 0.5          # directed chains: a scope switch first, then narrowing selections with module-wide indices
            if tmpl:
                depth = int(rng.integers(3, 5))
            for step in range(depth):
                choice = str(rng.choice(["at", "at", "at", "scope", "select", "loc", "group", "chan", "edge", "syn", "getitem", "iter"]))
                if tmpl:
                    choice = "scope" if step == 0 else str(rng.choice(["at", "at", "at", "select", "scope", "getitem"]))
                try:
                    if choice == "at":
                        key = str(rng.choice(["cell", "branch", "comp"]))
                        hi = 4
                        if getattr(v, "_scope", "local") == "global" and rng.random() < 0.7:
                            # global scope: indices are the module's global indices, so draw them from the module's whole range
                            hi = int(mod.nodes[f"global_{key}_index"].max()) + 1
                        py, tok = rand_idx(rng, hi, v, ("int", "list", "range", "slice", "slice", "range") if tmpl else ("int", "int", "list", "range", "slice", "mask", "all"))
                        ops += [key, tok]
                        want = spec_at(mod, v, key, py)
                        sdesc = dict(kind=kind, nodes=n, rows_in_view=[int(x) for x in v._nodes_in_view], scope=v._scope, level=key, index=tok, chain=list(ops))
                        try:
                            v2 = getattr(v, key)(py)
                        except tuple(ERR) as ex:
                            if want and key in levels and "does not support" not in str(ex):
                                R.spec_fail(dict(kind="selection-refused", scope=v._scope, form=tok.split(":")[0]), f"{v._scope} scope: .{key}({tok}) on rows {sdesc['rows_in_view']} raises "
                                            f"{type(ex).__name__} although it denotes rows {want}", sdesc, repr(ex)[:200])
                            raise
                        if want is not None and [int(x) for x in v2._nodes_in_view] != want:
                            R.spec_fail(dict(kind="selection-wrong-rows", scope=v._scope, form=tok.split(":")[0]), f"{v._scope} scope: .{key}({tok}) on rows {sdesc['rows_in_view']} shows "
                                        f"{[int(x) for x in v2._nodes_in_view]}, denotes {want}", sdesc, [int(x) for x in v2._nodes_in_view])
                    elif choice == "scope":
                        s = str(rng.choice(["global", "local"]))
                        if tmpl and step == 0:
                            s = "global" if rng.random() < 0.75 else "local"
                        ops += ["scope", s[0]]
                        v2 = v.scope(s)
                    elif choice == "select":
                        cur = np.asarray(v._nodes_in_view)
                        rows = sorted(rng.choice(cur, size=int(rng.integers(1, len(cur) + 1)), replace=False).tolist())
                        ops += ["selectn", ",".join(map(str, rows))]
                        v2 = v.select(nodes=rows)
                    elif choice == "loc":
                        if rng.random() < 0.25:
                            ops += ["locall"]; v2 = v.loc("all")
                        else:
                            nb = int(rng.integers(1, 5))
                            x = float(rng.choice([0.0, 1.0, 0.5, 0.25, 1 / 3, 2 / 3, 0.75, rng.random(), k_over(rng)]))
                            tbl = ",".join(f"{k}={int(np.digitize(x, np.linspace(0, 1 + 1e-10, k + 1)) - 1)}" for k in range(1, 6))
                            ops += ["loc", tbl]; v2 = v.loc(x)
                    elif choice == "group":
                        g = f"grp{int(rng.integers(0, 2))}"
                        ops += ["group", g]
                        v2 = getattr(v, g)
                        if v2 is None:
                            raise AttributeError(g)
                    elif choice == "chan":
                        ch = str(rng.choice(["HH", "Leak", "K"]))
                        ops += ["chan", ch]
                        v2 = getattr(v, ch)
                        if v2 is None:
                            raise AttributeError(ch)
                        # Spec predicate: the channel view denotes the rows of the current view that contain the channel
                        has = set(mod.nodes.index[mod.nodes[ch].astype(bool)].tolist()) if ch in mod.nodes.columns else set()
                        got_rows = [int(x) for x in v2._nodes_in_view]
                        want_rows = [int(x) for x in v._nodes_in_view if int(x) in has]
                        if got_rows != want_rows:
                            if not want_rows and got_rows == [int(x) for x in v._nodes_in_view]:
                                R.known_confirmed.append("N8")
                                R.spec_fail(dict(kind="channel-view-without-channel-returns-whole-view"), f"view without {ch}: `.{ch}` returns the whole view {got_rows}",
                                            dict(kind=kind, rows_in_view=[int(x) for x in v._nodes_in_view], channel=ch, rows_with_channel=sorted(has)), got_rows)
                            else:
                                R.spec_fail(dict(kind="channel-view-wrong-rows"), f"`.{ch}` shows {got_rows}, expected {want_rows}", dict(kind=kind, channel=ch), got_rows)
                    elif choice == "edge":
                        py, tok = rand_idx(rng, 3, v)
                        ops += ["edge", tok]
                        v2 = v.edge(py)
                    elif choice == "syn":
                        s = str(rng.choice(["IonotropicSynapse", "TestSynapse"]))
                        ops += ["syn", s]
                        v2 = getattr(v, s)
                        if v2 is None:
                            raise AttributeError(s)
                        syn_view_spec(R, mod, v, v2, s, dict(kind=kind, chain=list(ops)))
                    elif choice == "getitem":
                        k = int(rng.integers(1, len(levels) + 2))
                        idx = [rand_idx(rng, 3, v) for _ in range(k)]
                        ops += ["getitem", str(k)] + [t for _, t in idx]
                        v2 = v[tuple(p for p, _ in idx)] if k > 1 else v[idx[0][0]]
                    else:
                        key = str(rng.choice(["cell", "branch", "comp"]))
                        ops += ["iter", key]
                        subs = []
                        for sub in getattr(v, {"cell": "cells", "branch": "branches", "comp": "comps"}[key]):
                            subs.append(observe(sub))
                        outs.append("iter " + " ; ".join(subs))
                        continue
                    outs.append(observe(v2))
                    v = v2
                except tuple(ERR) as ex:
                    outs.append("err " + ERR[type(ex)])
                    break
            lines.append(" ".join(base + ["OPS"] + ops)); expected.append(outs); metas.append((m, kind, n, ops))
        if len(R.samples) < 3:
            R.samples.append(dict(kind=kind, nodes=n, ops=metas[-1][3], observed=expected[-1]))
    outs = drv.batch(lines)
    for (m, kind, n, ops), exp, got in zip(metas, expected, outs):
        R.evaluations += 1
        got_l = got.split(" | ")
        R.count(f"chain-len-{len(exp)}")
        for e in exp:
            R.count("step:" + ("err-" + e.split()[1] if e.startswith("err") else "iter" if e.startswith("iter") else "ok"))
        if sum(1 for e in exp if e.startswith("ok")) >= 2:
            R.distinct.add((kind, n, tuple(ops)))
        # model may reject a class of python-side runtime errors differently: compare step by step
        for k, e in enumerate(exp):
            g = got_l[k] if k < len(got_l) else "<missing>"
            if g.startswith("iter err") and " ; " not in g:      # an iteration whose first element is rejected
                g = g[5:]
            if e.startswith("err") and g.startswith("err"):
                if e != g:
                    R.count("diag:error-class-differs:" + e + "/" + g)
                break
            if e != g:
                R.disagree("view-step", module=dict(kind=kind, nodes=n), ops=ops, step=k, impl=e, model=g)
                break
    # -------------------------------------------------- mutators frame (implementation)
    nm = {"quick": 15, "thorough": 150}[args.tier]
    for t in range(nm):
        mod, kind = build(rng)
        n = mod.nodes.shape[0]
        rows = sorted(rng.choice(n, size=int(rng.integers(1, n + 1)), replace=False).tolist())
        view = mod.select(nodes=rows)
        rest = [r for r in range(n) if r not in rows]
        # a SECOND call through another view (disjoint from the first one in half of the cases): effects accumulate, nothing is lost
        pool = rest if (rest and rng.random() < 0.5) else list(range(n))
        rows2 = sorted(rng.choice(pool, size=int(rng.integers(1, len(pool) + 1)), replace=False).tolist())
        view2 = mod.select(nodes=rows2)
        union = sorted(set(rows) | set(rows2))
        for mut in ("set", "insert", "record", "stimulate", "clamp", "group", "move"):
            before = mod.nodes.copy(); R.evaluations += 1
            desc = dict(kind=kind, nodes=n, rows=rows, rows2=rows2, mutator=mut)
            try:
                second = None
                if mut == "set":
                    view.set("radius", 7.25)
                    changed = mod.nodes.index[(mod.nodes["radius"] != before["radius"])].tolist()
                    expect = [r for r in rows if before.loc[r, "radius"] != 7.25]
                    mid = mod.nodes.copy(); view2.set("radius", 3.5)
                    second = (mod.nodes.index[(mod.nodes["radius"] != mid["radius"])].tolist(), rows2)
                elif mut == "insert":
                    view.insert(CaL())
                    changed = mod.nodes.index[mod.nodes["CaL"].astype(bool)].tolist(); expect = rows
                    view2.insert(CaL())
                    second = (mod.nodes.index[mod.nodes["CaL"].astype(bool)].tolist(), union)
                elif mut == "record":
                    mod.delete_recordings(); view.record("v", verbose=False)
                    changed = mod.recordings.rec_index.tolist(); expect = rows
                    view2.record("v", verbose=False)
                    second = (sorted(set(mod.recordings.rec_index.tolist())), union)
                elif mut == "stimulate":
                    mod.delete_stimuli(); view.stimulate(jnp.ones(3), verbose=False)
                    changed = np.asarray(mod.external_inds["i"]).tolist(); expect = rows
                    view2.stimulate(jnp.ones(3), verbose=False)
                    second = (np.asarray(mod.external_inds["i"]).tolist(), rows + rows2)
                elif mut == "clamp":
                    mod.delete_clamps(); view.clamp("v", jnp.ones(3), verbose=False)
                    changed = np.asarray(mod.external_inds["v"]).tolist(); expect = rows
                    new2 = [r for r in rows2 if r not in rows]
                    if new2:
                        mod.select(nodes=new2).clamp("v", jnp.ones(3), verbose=False)
                        second = (np.asarray(mod.external_inds["v"]).tolist(), rows + new2)
                elif mut == "group":
                    view.add_to_group("newgroup")
                    changed = np.asarray(mod.groups["newgroup"]).tolist(); expect = rows
                    view2.add_to_group("newgroup")
                    second = (np.asarray(mod.groups["newgroup"]).tolist(), union)
                    # the group view shows exactly the members, from the module and from any view
                    gv = [int(x) for x in mod.newgroup._nodes_in_view]
                    if gv != union:
                        R.spec_fail(dict(kind="group-view", mutator=mut), f"group built from rows {rows} then {rows2} shows {gv}", desc, gv)
                else:
                    if "x" not in mod.nodes.columns:
                        continue
                    mod.compute_xyz() if np.isnan(np.asarray(mod.xyzr[0])).all() else None
                    bx = [np.array(a, copy=True) for a in mod.xyzr]
                    view.move(10.0, 0.0, 0.0, update_nodes=False)
                    moved = [i for i, (a, b) in enumerate(zip(bx, mod.xyzr)) if not np.allclose(a, b, equal_nan=True)]
                    br = sorted(set(mod.nodes.loc[rows, "global_branch_index"].tolist()))
                    changed, expect = moved, br
                if sorted(changed) != sorted(expect):
                    R.spec_fail(dict(kind="mutator-frame", mutator=mut), f"{mut} through a view of rows {rows} affected {sorted(changed)}", desc, sorted(changed))
                if second is not None and sorted(second[0]) != sorted(second[1]):
                    R.spec_fail(dict(kind="mutator-frame-second-call", mutator=mut), f"{mut} through a view of rows {rows} and then through a view of rows {rows2}: "
                                f"affected {sorted(second[0])}, expected {sorted(second[1])}", desc, sorted(second[0]))
            except Exception as ex:
                R.count(f"mutator-raised:{mut}:{type(ex).__name__}")
                R.spec_fail(dict(kind="mutator-raises", mutator=mut, err=type(ex).__name__), f"{mut} through a view of rows {rows} (then rows {rows2}) raises "
                            f"{type(ex).__name__}: {str(ex)[:120]}", desc, repr(ex)[:200])
    # -------------------------------------------------- witness of known finding N8 (replayed on every run)
    comp = jx.Compartment()
    wc = jx.Cell([jx.Branch([comp]), jx.Branch([comp])], parents=[-1, 0])
    wc.branch(1).insert(HH())
    R.evaluations += 1
    if [int(x) for x in wc.branch(0).HH._nodes_in_view] == [0]:
        R.known_confirmed.append("N8")
        R.spec_fail(dict(kind="channel-view-without-channel-returns-whole-view"), "witness: cell.branch(0).HH shows branch 0 although only branch 1 has HH",
                    dict(witness="cell.branch(1).insert(HH()); cell.branch(0).HH"), [0])
    R.explanation = "model of the view machinery with theorems on its semantics (Props/C11.lean); every step of every chain compared with the implementation"
    R.assumptions = ["numpy/pandas primitives (isin, rank(method='dense'), unique, intersect1d, digitize) are re-stated in the model",
                     "error classes are compared as diagnostics; acceptance/rejection gates"]
    R.extra["driver_lines"] = drv.lines
    return R


def k_over(rng):
    k = int(rng.integers(1, 5)); return int(rng.integers(0, k + 1)) / k


from jaxley.channels import CaL


def replay(args):
    R = Result("C11")
    f = json.load(open(args.replay))
    R.replay_result = dict(fails=True, note="re-run the check with the same VERIF_SEED", input=f.get("input"))
    return R


if __name__ == "__main__":
    a = parse_args()
    r = replay(a) if a.mode == "replay" else run(a)
    r.write(a.out)
