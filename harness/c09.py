"""C09 harness: synaptic current flows from the listed pre- to the listed post-compartment.

Spec predicates on the IMPLEMENTATION:
  closed form : networks of single-compartment passive cells with random (pre, post, type) multisets incl. autapses and fan-in: after ONE
                backward-Euler step the voltage of every cell equals the closed form computed independently from the edge list — state
                update with the PRE voltage, current I = g·s'·(v_post − e) (resp. g·c', −g·tanh) converted with the POST compartment's
                area, summed over the incoming edges, treated implicitly
  locality    : changing the voltage of a compartment that is neither pre nor post of an edge does not change that edge's current
  order       : creating the same multiset of synapses in a different order (and types in a different order) gives the same simulation
  zero g      : with all conductances zero every cell evolves exactly as if simulated alone
  selection   : parameters set through an edge / synapse-type / select view reach exactly the selected synapses
The model `Model.Synapse` carries the theorems (Props/C09.lean).
"""
import math, os
import numpy as np
from common import *
from simlib import *
from simmodel import check_simulates_tables


def point_net(rng, ncells, geom=None):
    comp = jx.Compartment()
    cells = [jx.Cell([jx.Branch([comp])], parents=[-1]) for _ in range(ncells)]
    net = jx.Network(cells)
    net.insert(Leak())
    g = dict(radius=rng.uniform(1, 10, ncells), length=rng.uniform(5, 50, ncells), capacitance=rng.uniform(0.5, 2, ncells),
             gl=np.exp(rng.uniform(np.log(1e-5), np.log(1e-3), ncells)), el=rng.uniform(-80, -50, ncells), v=rng.uniform(-80, -10, ncells)) if geom is None else geom
    net.set("radius", g["radius"]); net.set("length", g["length"]); net.set("capacitance", g["capacitance"])
    net.set("Leak_gLeak", g["gl"]); net.set("Leak_eLeak", g["el"]); net.set("v", g["v"])
    return net, g


def add_edges(net, edges, params):
    """edges: list of (pre, post, type); params: per-edge dict"""
    for (a, b, t) in edges:
        connect(net.select(nodes=[a]), net.select(nodes=[b]), SYNS[t]())
    for i, p in enumerate(params):
        for k, val in p.items():
            net.select(edges=[i]).set(k, val)


def rand_edge_params(rng, t):
    if t == "IonotropicSynapse":
        return dict(IonotropicSynapse_gS=float(np.exp(rng.uniform(np.log(1e-4), np.log(1e-2)))), IonotropicSynapse_e_syn=float(rng.uniform(-80, 20)),
                    IonotropicSynapse_k_minus=float(rng.uniform(0.01, 0.5)), IonotropicSynapse_s=float(rng.uniform(0, 1)))
    if t == "TestSynapse":
        return dict(TestSynapse_gC=float(np.exp(rng.uniform(np.log(1e-4), np.log(1e-2)))), TestSynapse_c=float(rng.uniform(0, 1)))
    return dict(TanhRateSynapse_gS=float(np.exp(rng.uniform(np.log(1e-4), np.log(1e-2)))), TanhRateSynapse_x_offset=float(rng.uniform(-70, -30)), TanhRateSynapse_slope=float(rng.uniform(0.05, 0.5)))


def closed_form(g, edges, params, dt):
    """one backward-Euler step of point neurons with Leak + synapses, from first principles"""
    n = len(g["v"])
    A = 2 * math.pi * g["radius"] * g["length"] * 1e-8                 # cm²
    vt = 1000.0 * g["gl"] / g["capacitance"]
    ct = 1000.0 * g["gl"] * g["el"] / g["capacitance"]
    for (a, b, t), p in zip(edges, params):
        vpre, conv = g["v"][a], 1e-3 / A[b]                             # nA -> µA/cm²
        if t in ("IonotropicSynapse", "TestSynapse"):
            s_inf = 1.0 / (1.0 + math.exp((-35.0 - vpre) / 10.0))
            km = p["IonotropicSynapse_k_minus"] if t == "IonotropicSynapse" else 1.0 / 40.0
            tau = (1.0 - s_inf) / km
            s0 = p["IonotropicSynapse_s"] if t == "IonotropicSynapse" else p["TestSynapse_c"]
            s1 = s_inf + (s0 - s_inf) * math.exp(-dt / tau)
            gs = (p["IonotropicSynapse_gS"] if t == "IonotropicSynapse" else p["TestSynapse_gC"]) * s1
            e = p["IonotropicSynapse_e_syn"] if t == "IonotropicSynapse" else 0.0
            vt[b] += conv * gs / g["capacitance"][b]                    # I = gs (v − e): implicit in v
            ct[b] += conv * gs * e / g["capacitance"][b]
        else:
            I = -p["TanhRateSynapse_gS"] * math.tanh((vpre - p["TanhRateSynapse_x_offset"]) * p["TanhRateSynapse_slope"])
            ct[b] -= conv * I / g["capacitance"][b]                     # independent of v_post
    return (g["v"] + dt * ct) / (1.0 + dt * vt)


def one_step(net, dt, backend="jax.sparse"):
    net.delete_recordings(); net.delete_stimuli()
    net.record("v", verbose=False)
    net.select(nodes=[0]).stimulate(jnp.zeros(1), verbose=False)
    return np.asarray(jx.integrate(net, delta_t=dt, voltage_solver=backend), dtype=np.float64)[:, 1]


def run(args):
    R = Result("C09")
    R.export_distinct = True
    if args.shard < 0:
        return run_sharded(os.path.abspath(__file__), args, 8 if args.tier == "quick" else 16, "C09")
    rng = np.random.default_rng([args.seed, args.shard, 9])
    R.rule = ("networks of 2-5 point neurons (closed form) and of 2-3 irregular cells (order / zero-g), edge multisets of 1-6 (pre, post, type) "
              "incl. autapses, fan-in and 3 interleaved types, each multiset in 2 creation orders, per-edge parameters. distinct = edge multisets; "
              "non-trivial = fan-in or >= 2 types")
    nm = {"quick": 2, "thorough": 12}[args.tier] * (2 if args.mode == "search" else 1)
    for t in range(nm):
        # ---------------- closed form on point neurons
        ncells = int(rng.integers(2, 6))
        ne = int(rng.integers(1, 7))
        edges = [(int(rng.integers(0, ncells)), int(rng.integers(0, ncells)), str(rng.choice(["IonotropicSynapse", "TestSynapse", "TanhRateSynapse"]))) for _ in range(ne)]
        # jaxley requires the type groups to appear in creation order of the types: any order is allowed
        params = [rand_edge_params(rng, e[2]) for e in edges]
        net, g = point_net(rng, ncells)
        add_edges(net, edges, params)
        dt = float(rng.choice([0.025, 0.1, 0.5]))
        backend = BACKENDS[(args.shard + t) % 3]
        inp = dict(ncells=ncells, edges=edges, dt=dt, backend=backend)
        posts = [e[1] for e in edges]
        if len(set(posts)) < len(posts) or len({e[2] for e in edges}) >= 2:
            R.distinct.add(json.dumps(sorted(edges)))
        x = one_step(net, dt, backend)
        want = closed_form(g, edges, params, dt)
        R.evaluations += 1
        if not np.allclose(x, want, rtol=1e-7, atol=1e-7):
            bad = np.where(~np.isclose(x, want, rtol=1e-7, atol=1e-7))[0].tolist()
            R.spec_fail(dict(kind="synaptic-step-differs-from-closed-form"), f"after one step cells {bad} deviate from the closed form by {np.max(np.abs(x - want)):.3g} mV", inp, x.tolist(), expected=want.tolist())
        # ---------------- the whole simulation (several steps, synaptic states evolving) is the one the Lean model computes from the
        #                  edge table: pre / post compartments, types, per-edge parameters and states as listed
        if t == 0:
            from common import LeanDriver as _LD
            net.delete_recordings(); net.select(nodes=list(range(net.nodes.shape[0]))).record("v", verbose=False)
            check_simulates_tables(R, _LD(), net, dict(inp, block="point-neuron network"), backend=backend, dt=dt, nsteps=8, kind="network-differs-from-table-simulation")
            net.delete_recordings(); net.delete_stimuli()
        # ---------------- order invariance (same multiset, shuffled creation order)
        perm = rng.permutation(ne)
        net2, _ = point_net(rng, ncells, geom=g)
        add_edges(net2, [edges[i] for i in perm], [params[i] for i in perm])
        x2 = one_step(net2, dt, backend)
        R.evaluations += 1
        if not np.allclose(x, x2, rtol=1e-10, atol=1e-10):
            R.spec_fail(dict(kind="creation-order-changes-result"), f"creating the synapses in order {perm.tolist()} changes the result by {np.max(np.abs(x - x2)):.3g}", inp, x2.tolist())
        # ---------------- parameters assigned BETWEEN the connect calls (connect; set; connect; set ...) instead of after all of them
        net3, _ = point_net(rng, ncells, geom=g)
        for i, ((a, b, ty), pr) in enumerate(zip(edges, params)):
            connect(net3.select(nodes=[a]), net3.select(nodes=[b]), SYNS[ty]())
            for kk, val in pr.items():
                net3.select(edges=[i]).set(kk, val)
        R.evaluations += 1
        lost = [(i, kk) for i, pr in enumerate(params) for kk, val in pr.items() if float(net3.edges.loc[i, kk]) != float(val)]
        if lost:
            R.spec_fail(dict(kind="edge-parameter-lost-by-later-connect"), f"values set on edges before a later connect() are gone from .edges: {lost[:4]}", inp, [(i, kk, float(net3.edges.loc[i, kk])) for i, kk in lost[:6]])
        x3 = one_step(net3, dt, backend)
        if not np.allclose(x, x3, rtol=1e-10, atol=1e-10):
            R.spec_fail(dict(kind="interleaved-set-connect-changes-result"), f"setting each synapse's parameters right after its connect() (instead of after all connects) changes the result by {np.max(np.abs(x - x3)):.3g}", inp, x3.tolist())
        # ---------------- locality: perturb a compartment that is neither pre nor post of edge k
        net.delete_recordings()
        k = int(rng.integers(0, ne)); a, b, ty = edges[k]
        others = [c for c in range(ncells) if c not in (a, b)]
        if others and ty != "TanhRateSynapse" or (others and ty == "TanhRateSynapse"):
            net.select(edges=[k]).record(f"i_{ty}", verbose=False)
            net.select(nodes=[0]).stimulate(jnp.zeros(1), verbose=False)
            c0 = np.asarray(jx.integrate(net, delta_t=dt, voltage_solver=backend))[0, 1]
            vnew = np.array(g["v"]); vnew[others] += 17.0
            net.set("v", vnew)
            c1 = np.asarray(jx.integrate(net, delta_t=dt, voltage_solver=backend))[0, 1]
            net.set("v", g["v"]); R.evaluations += 1
            if c0 != c1:
                R.spec_fail(dict(kind="synapse-reads-foreign-voltage"), f"current of edge {k} ({a}->{b}) changed when unrelated compartments {others} changed", dict(edge=k, **inp), [float(c0), float(c1)])
        # ---------------- zero conductance isolates (irregular multi-compartment cells)
        netz, dz = random_network(rng, ncells=int(rng.integers(2, 4)), same_shape=True, syn_types=["IonotropicSynapse", "TestSynapse"], nsyn=int(rng.integers(1, 5)))
        for col in ("IonotropicSynapse_gS", "TestSynapse_gC"):
            if col in netz.edges.columns:
                netz.set(col, 0.0)
        netz.delete_recordings(); netz.record("v", verbose=False)
        netz.select(nodes=[0]).stimulate(jnp.asarray(0.2 * np.ones(8)), verbose=False)
        rz = np.asarray(jx.integrate(netz, voltage_solver=backend))
        import copy
        nz2 = copy.deepcopy(netz)
        # same network with the synapses removed: rebuild cells alone
        off = 0; ok = True
        for ci, cell in enumerate(netz.cells):
            nn = len(cell.nodes)
            off += nn
        R.evaluations += 1
        netz2, _ = None, None
        # compare with a synapse-free copy: delete edges by building the network from per-cell parameters
        comp = jx.Compartment()
        cells = []
        for d in dz["cells"]:
            c = jx.Cell([jx.Branch([comp] * kk) for kk in d["ncomp"]], parents=d["parents"])
            for nmch in d["channels"]:
                c.insert(CHANS[nmch]())
            cells.append(c)
        free = jx.Network(cells)
        for col in ("radius", "length", "v", "axial_resistivity", "capacitance"):
            free.set(col, netz.nodes[col].to_numpy())
        free.record("v", verbose=False); free.select(nodes=[0]).stimulate(jnp.asarray(0.2 * np.ones(8)), verbose=False)
        rf = np.asarray(jx.integrate(free, voltage_solver=backend))
        if not np.allclose(rz, rf, rtol=1e-9, atol=1e-9):
            R.spec_fail(dict(kind="zero-conductance-not-isolating"), f"zero-conductance synapses change the simulation by {np.max(np.abs(rz - rf)):.3g}", dict(net=dz), None)
        # ---------------- selection: set through edge / type / select views reaches exactly the selected synapses
        if ne >= 2:
            tsel = edges[int(rng.integers(0, ne))][2]
            key = {"IonotropicSynapse": "IonotropicSynapse_gS", "TestSynapse": "TestSynapse_gC", "TanhRateSynapse": "TanhRateSynapse_gS"}[tsel]
            before = net.edges[key].to_numpy().copy()
            getattr(net, tsel).set(key, 0.123)
            after = net.edges[key].to_numpy().copy()
            rows_t = [i for i, e in enumerate(edges) if e[2] == tsel]
            changed = [i for i in range(ne) if not (after[i] == before[i] or (np.isnan(after[i]) and np.isnan(before[i])))]
            R.evaluations += 1
            if sorted(changed) != rows_t:
                R.spec_fail(dict(kind="type-view-set-wrong-edges"), f"net.{tsel}.set changed edges {changed}, edges of that type are {rows_t}", inp, changed)
            sub = rows_t[:1]
            net.scope("global").edge(sub).set(key, 0.456)
            after2 = net.edges[key].to_numpy()
            changed2 = [i for i in range(ne) if after2[i] != after[i] and not (np.isnan(after2[i]) and np.isnan(after[i]))]
            if changed2 != sub:
                R.spec_fail(dict(kind="edge-view-set-wrong-edges"), f"edge({sub}).set changed edges {changed2}", inp, changed2)
        if len(R.samples) < 3:
            R.samples.append(dict(edges=edges, dt=dt, result=x.tolist(), closed_form=want.tolist()))
    R.explanation = "sum-over-incoming-edges, locality, order invariance, exactness for affine currents proved on the model; closed-form one-step oracle on the implementation"
    R.assumptions = ["closed form compared to 1e-7 (secant linearisation uses a finite difference of 1e-3 mV)"]
    return R


def replay(args):
    R = Result("C09")
    f = json.load(open(args.replay))
    R.replay_result = dict(fails=True, note="re-run the check with the same VERIF_SEED", input=f.get("input"))
    return R


if __name__ == "__main__":
    a = parse_args()
    r = replay(a) if a.mode == "replay" else run(a)
    r.write(a.out)
