"""C06 harness: results do not depend on how the simulation is executed.

 (a) the real `nested_checkpoint_scan` with an exact integer step vs the Lean model of `_inner_nested_scan` (and the
     flat scan) for random factorisations up to depth 4                                   [correspondence, exact]
 (b) `integrate`: eager vs jit vs vmap (over stimuli and over parameters) vs random checkpoint layouts with
     prod >= steps                                                                        [spec predicate, 1e-9]
 (c) purity: deep snapshot of the module before/after `integrate`; a second call is bit-identical [spec predicate]
"""
import math, os
import numpy as np
from common import *
from simlib import *
from jaxley.utils.jax_utils import nested_checkpoint_scan


def factorizations(rng, n, depth):
    """random list of `depth` positive lengths with product n (n chosen as a product)"""
    ls = [int(rng.integers(1, 5)) for _ in range(depth)]
    return ls


def run(args):
    R = Result("C06")
    R.export_distinct = True
    if args.shard < 0:
        return run_sharded(os.path.abspath(__file__), args, 8 if args.tier == "quick" else 16, "C06")
    rng = np.random.default_rng([args.seed, args.shard, 6])
    drv = LeanDriver()
    R.rule = ("(a) random nested lengths (depth 1-4, each 1-4) with exact int64 scan; (b,c) random cells/networks with channels and synapses, "
              "random stimulus, random checkpoint layouts (depth 1-3, product >= steps), batch sizes 1-4. distinct = distinct (layout) resp. "
              "(module description, layout); non-trivial = depth >= 2 or product > steps")
    # ---------------- (a) nested scan, exact
    na = {"quick": 15, "thorough": 150}[args.tier]
    lines, cases = [], []
    for _ in range(na):
        depth = int(rng.integers(1, 5))
        ls = [int(rng.integers(1, 5)) for _ in range(depth)]
        n = int(np.prod(ls))
        xs = rng.integers(-1000, 1000, n)
        s0 = int(rng.integers(0, 1000))

        def f(s, x):
            return (s * 31 + x) % 1000003, s + 2 * x
        carry, out = nested_checkpoint_scan(f, jnp.asarray(s0, dtype=jnp.int64), jnp.asarray(xs, dtype=jnp.int64), length=n, nested_lengths=ls)
        flat_c, flat_o = jax.lax.scan(f, jnp.asarray(s0, dtype=jnp.int64), jnp.asarray(xs, dtype=jnp.int64))
        cases.append((ls, xs.tolist(), s0, int(carry), np.asarray(out).tolist(), int(flat_c), np.asarray(flat_o).tolist()))
        lines.append(" ".join(["nscan", str(depth)] + [str(l) for l in ls] + [str(n)] + [str(int(x)) for x in xs] + [str(s0)]))
    for (ls, xs, s0, carry, out, fc, fo), o in zip(cases, drv.batch(lines)):
        R.evaluations += 1
        if len(ls) >= 2:
            R.distinct.add(json.dumps(["nscan", ls]))
        toks = o.split()
        mc, mo = int(toks[1]), ([int(t) for t in toks[2].split(",")] if len(toks) > 2 else [])
        if (mc, mo) != (carry, out):
            R.disagree("nested_checkpoint_scan", lengths=ls, impl=[carry, out[:6]], model=[mc, mo[:6]])
        if (carry, out) != (fc, fo):
            R.spec_fail(dict(kind="nested-scan-differs-from-scan"), f"nested_checkpoint_scan with lengths {ls} differs from lax.scan", dict(lengths=ls, xs=xs, s0=s0), [carry, out])
    # ---------------- (c') the ARGUMENTS of integrate are inputs: the same param_state / params / data objects can be passed again
    for t in range(nm0 := {"quick": 1, "thorough": 4}[args.tier]):
        net, desc = random_network(rng, syn_types=["IonotropicSynapse", "TestSynapse"], nsyn=int(rng.integers(3, 7)))
        backend = BACKENDS[(args.shard + t) % 3]
        net.delete_recordings(); net.select(nodes=list(range(net.nodes.shape[0]))).record("v", verbose=False)
        typ = str(net.edges["type"].iloc[-1])
        es = [int(x) for x in net.edges.index[net.edges["type"] == typ]]
        e = es[-1]                                           # the last edge of its type: global index != rank whenever types interleave
        gkey = {"IonotropicSynapse": "IonotropicSynapse_gS", "TestSynapse": "TestSynapse_gC"}[typ]
        val = 5e-3
        ps = net.select(edges=[e]).data_set(gkey, val, None)
        ps = net.select(nodes=[0]).data_set("radius", 2.5, ps)
        ds = net.select(nodes=[0]).data_stimulate(jnp.asarray(stim_signal(rng, 8) + 0.05))
        def freeze(o):
            if isinstance(o, (list, tuple)):
                return [freeze(x) for x in o]
            if isinstance(o, dict):
                return {str(k): freeze(v) for k, v in sorted(o.items(), key=lambda kv: str(kv[0]))}
            if hasattr(o, "to_dict"):
                return freeze(o.to_dict())
            if hasattr(o, "shape"):
                return np.asarray(o).tolist()
            return o if isinstance(o, (int, float, str, bool, type(None))) else str(o)
        inp = dict(module=desc, backend=backend, edge=e, edges_of_type=es, key=gkey)
        b_ps, b_ds = json.dumps(freeze(ps)), json.dumps(freeze(ds))
        try:
            r1 = np.asarray(jx.integrate(net, param_state=ps, data_stimuli=ds, voltage_solver=backend))
        except AssertionError:
            R.count("refused"); continue
        r2 = np.asarray(jx.integrate(net, param_state=ps, data_stimuli=ds, voltage_solver=backend))
        R.evaluations += 1
        R.count("args:" + ("edge-index!=rank" if es.index(e) != e else "edge-index==rank"))
        if json.dumps(freeze(ps)) != b_ps or json.dumps(freeze(ds)) != b_ds:
            R.spec_fail(dict(kind="integrate-mutates-arguments"), "integrate changed the param_state / data_stimuli objects passed to it", inp, None)
        if not np.array_equal(r1, r2, equal_nan=True):
            R.spec_fail(dict(kind="repeat-not-bit-identical", args="param_state"), f"a second integrate call with the same param_state differs by {np.nanmax(np.abs(r1 - r2)):.3g}", inp, None)
        import copy as _copy
        m2 = _copy.deepcopy(net); m2.select(edges=[e]).set(gkey, val); m2.select(nodes=[0]).set("radius", 2.5)
        r3 = np.asarray(jx.integrate(m2, data_stimuli=ds, voltage_solver=backend))
        if not np.allclose(r1, r3, rtol=1e-12, atol=1e-12):
            R.spec_fail(dict(kind="param_state-differs-from-set"), f"param_state route differs from the set() route by {np.nanmax(np.abs(r1 - r3)):.3g}", inp, None)
    # ---------------- (b), (c) integrate
    nm = {"quick": 1, "thorough": 4}[args.tier] * (2 if args.mode == "search" else 1)
    for t in range(nm):
        mod, desc = random_module(rng)
        backend = BACKENDS[(args.shard + t) % 3]
        nsteps = int(rng.integers(5, 14))
        rec_rows = add_random_recordings(mod, rng)
        stim_row = int(rng.integers(0, mod.nodes.shape[0]))
        sig = stim_signal(rng, nsteps)
        view = mod.select(nodes=[stim_row])

        def sim(amp, ck=None):
            ds = view.data_stimulate(amp * jnp.asarray(sig))
            return jx.integrate(mod, data_stimuli=ds, voltage_solver=backend, checkpoint_lengths=ck)
        before = snapshot(mod)
        try:
            eager = np.asarray(sim(1.0))
        except AssertionError as ex:   # jaxley backends may refuse networks of differently shaped cells
            R.count("refused"); continue
        after = snapshot(mod)
        R.evaluations += 1
        inp = dict(module=desc, backend=backend, nsteps=nsteps, stim_row=stim_row)
        if before != after:
            diff = [k for k in before if before[k] != after[k]]
            R.spec_fail(dict(kind="integrate-mutates-module", fields=diff), f"integrate changed module fields {diff}", inp, diff)
        again = np.asarray(sim(1.0))
        if not np.array_equal(eager, again, equal_nan=True):
            R.spec_fail(dict(kind="repeat-not-bit-identical"), "second integrate call is not bit-identical", inp, float(np.nanmax(np.abs(eager - again))))
        if snapshot(mod) != before:
            R.spec_fail(dict(kind="integrate-mutates-module", fields=["second call"]), "second integrate call changed the module", inp, None)
        if not np.all(np.isfinite(eager)):
            R.spec_fail(dict(kind="nonfinite-recording"), "recordings contain non-finite values", inp, None)
        tol = dict(rtol=1e-9, atol=1e-9)
        # jit
        jitted = np.asarray(jax.jit(sim)(1.0)); R.evaluations += 1
        if not np.allclose(eager, jitted, **tol):
            R.spec_fail(dict(kind="jit-differs"), f"jit result differs from eager by {np.max(np.abs(eager - jitted)):.3g}", inp, float(np.max(np.abs(eager - jitted))))
        # vmap over stimuli
        bs = int(rng.integers(1, 5)); amps = rng.uniform(0.2, 2.0, bs)
        try:
            vm = np.asarray(jax.vmap(sim)(jnp.asarray(amps))); R.evaluations += 1
        except NotImplementedError as ex:      # jax's spsolve has no batching rule: a refusal, not a wrong answer
            R.count(f"vmap-refused:{backend}"); vm = None
        for k in range(bs if vm is not None else 0):
            ref = np.asarray(sim(float(amps[k])))
            if not np.allclose(vm[k], ref, **tol):
                R.spec_fail(dict(kind="vmap-stimulus-differs"), f"vmap over stimuli differs from the sequential call (batch {bs}, item {k})", dict(amps=amps.tolist(), **inp), float(np.max(np.abs(vm[k] - ref))))
        # vmap over parameters
        mod.delete_trainables()
        mod.select(nodes=list(range(mod.nodes.shape[0]))).make_trainable("radius", verbose=False)
        p0 = mod.get_parameters()
        ds = view.data_stimulate(jnp.asarray(sig))

        def simp(p):
            return jx.integrate(mod, params=p, data_stimuli=ds, voltage_solver=backend)
        scales = rng.uniform(0.8, 1.25, bs)
        batched = [{k: jnp.stack([v * s for s in scales]) for k, v in d.items()} for d in p0]
        try:
            vp = np.asarray(jax.vmap(simp)(batched)); R.evaluations += 1
        except NotImplementedError:
            R.count(f"vmap-refused:{backend}"); vp = None
        for k in range(bs if vp is not None else 0):
            ref = np.asarray(simp([{kk: v * scales[k] for kk, v in d.items()} for d in p0]))
            if not np.allclose(vp[k], ref, **tol):
                R.spec_fail(dict(kind="vmap-params-differs"), f"vmap over parameters differs from the sequential call (item {k})", inp, float(np.max(np.abs(vp[k] - ref))))
        mod.delete_trainables()
        # checkpoint layouts with product >= steps
        for _ in range(3):
            depth = int(rng.integers(1, 4))
            ls = [int(rng.integers(1, 6)) for _ in range(depth - 1)]
            rest = -(-nsteps // int(np.prod(ls)))          # ceil: smallest last factor that covers the run
            ls.append(rest + int(rng.integers(0, 3)))
            ck = np.asarray(sim(1.0, ck=ls)); R.evaluations += 1
            R.distinct.add(json.dumps([desc.get("parents", "net"), ls, nsteps]))
            R.count(f"layout-depth-{depth}{'-padded' if int(np.prod(ls)) > nsteps else ''}")
            if ck.shape != eager.shape or not np.allclose(ck, eager, **tol):
                R.spec_fail(dict(kind="checkpoint-layout-changes-recordings"), f"checkpoint_lengths={ls} ({nsteps} steps) changes the recordings", dict(layout=ls, **inp), None)
        # execution HISTORY: a layout that was already used in this process is used again with another stimulus and other
        # parameters; the result must be that of a fresh un-checkpointed run with those inputs (nothing may be remembered
        # from the earlier execution)
        for depth in (2, 3):
            ls = [int(rng.integers(2, 5)) for _ in range(depth - 1)]
            ls.append(-(-nsteps // int(np.prod(ls))) + int(rng.integers(0, 2)))
            first = np.asarray(sim(1.0, ck=ls)); R.evaluations += 1
            r_old = mod.nodes["radius"].to_numpy().copy()
            mod.set("radius", r_old * float(rng.uniform(1.3, 2.0)))
            amp2 = float(rng.uniform(0.3, 0.8))
            try:
                ref2 = np.asarray(sim(amp2)); again2 = np.asarray(sim(amp2, ck=ls)); R.evaluations += 1
                R.count(f"history-layout-depth-{depth}")
                if not np.allclose(first, eager, **tol):
                    R.spec_fail(dict(kind="checkpoint-layout-changes-recordings"), f"checkpoint_lengths={ls} ({nsteps} steps) changes the recordings", dict(layout=ls, **inp), None)
                if again2.shape != ref2.shape or not np.allclose(again2, ref2, **tol):
                    R.spec_fail(dict(kind="result-depends-on-earlier-execution"),
                                f"second run with checkpoint_lengths={ls} (other stimulus, other radii) differs from the un-checkpointed run of the same inputs by "
                                f"{float(np.max(np.abs(again2 - ref2))):.3g}", dict(layout=ls, amp2=amp2, **inp), None)
            finally:
                mod.set("radius", r_old)
        if len(R.samples) < 2:
            R.samples.append(dict(module=desc, backend=backend, nsteps=nsteps))
    R.explanation = ("nested_scan_eq_scan and recs_checkpoint_invariant are theorems for every layout/depth; jit, vmap and the absence of side "
                     "effects are runtime behaviour, measured here")
    R.assumptions = ["jit/vmap/XLA compared to 1e-9, not bit-wise", "module snapshot covers nodes, edges, recordings, externals, trainables, groups"]
    R.extra["driver_lines"] = drv.lines
    return R


def replay(args):
    R = Result("C06")
    f = json.load(open(args.replay))
    inp = f.get("input", {})
    if "lengths" in inp and "xs" in inp:
        def g(s, x):
            return (s * 31 + x) % 1000003, s + 2 * x
        n = len(inp["xs"])
        c, o = nested_checkpoint_scan(g, jnp.asarray(inp["s0"], dtype=jnp.int64), jnp.asarray(inp["xs"], dtype=jnp.int64), length=n, nested_lengths=inp["lengths"])
        fc, fo = jax.lax.scan(g, jnp.asarray(inp["s0"], dtype=jnp.int64), jnp.asarray(inp["xs"], dtype=jnp.int64))
        R.replay_result = dict(fails=(int(c) != int(fc)) or (np.asarray(o).tolist() != np.asarray(fo).tolist()))
    else:
        R.replay_result = dict(fails=True, note="re-run the check with the same VERIF_SEED to rebuild the module", input=inp)
    return R


if __name__ == "__main__":
    a = parse_args()
    r = replay(a) if a.mode == "replay" else run(a)
    r.write(a.out)
