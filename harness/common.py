"""Shared harness helpers: Lean driver process, float<->bits, result writer.

Runs under /venv/bin/python with the real jaxley imported from VERIF_REPO (via PYTHONPATH set by
bin/check).  Every random choice comes from numpy.random.default_rng(seed).
"""
import argparse, json, math, os, struct, subprocess, sys, time
from fractions import Fraction

ROOT = os.environ.get("VERIF_ROOT", os.path.dirname(os.path.dirname(os.path.abspath(__file__))))
DRIVER = os.path.join(ROOT, "lean", ".lake", "build", "bin", "driver")


def f2b(x: float) -> int:
    return struct.unpack("<Q", struct.pack("<d", float(x)))[0]


def b2f(n: int) -> float:
    return struct.unpack("<d", struct.pack("<Q", int(n)))[0]


def ulps(a: float, b: float) -> float:
    """distance in units in the last place (inf if exactly one is nan)."""
    if math.isnan(a) or math.isnan(b):
        return 0.0 if (math.isnan(a) and math.isnan(b)) else math.inf
    if a == b:
        return 0.0
    if math.isinf(a) or math.isinf(b):
        return math.inf

    def key(x):
        n = f2b(x)
        return n if n < 2 ** 63 else 2 ** 63 - n
    return abs(key(a) - key(b))


def close(a, b, rel=1e-9, abs_=1e-12, maxulp=64):
    if math.isnan(a) or math.isnan(b):
        return math.isnan(a) and math.isnan(b)
    if a == b:
        return True
    if ulps(a, b) <= maxulp:
        return True
    return abs(a - b) <= abs_ + rel * max(abs(a), abs(b))


def frac(x) -> str:
    f = Fraction(float(x))
    return f"{f.numerator}/{f.denominator}"


def parse_frac(s: str) -> Fraction:
    n, d = s.split("/") if "/" in s else (s, "1")
    return Fraction(int(n), int(d))


class LeanDriver:
    """Batch interface to the compiled Lean driver: send many lines, get as many lines back."""

    def __init__(self):
        if not os.path.exists(DRIVER):
            raise RuntimeError(f"driver not built: {DRIVER}")
        self.lines = 0

    def batch(self, lines):
        if not lines:
            return []
        p = subprocess.run([DRIVER], input="\n".join(lines) + "\n", capture_output=True, text=True)
        out = p.stdout.splitlines()
        self.lines += len(lines)
        if len(out) != len(lines):
            raise RuntimeError(f"driver returned {len(out)} lines for {len(lines)} requests: {p.stderr[-500:]}")
        return out

    @staticmethod
    def kline(name, args, pfx="-", states=None, params=None, rat=False):
        enc = frac if rat else (lambda x: str(f2b(x)))
        st = states or {}
        pr = params or {}
        toks = ["kr" if rat else "k", name, pfx, str(len(args))] + [enc(a) for a in args]
        toks += ["S", str(len(st))] + [t for k, v in st.items() for t in (k, enc(v))]
        toks += ["P", str(len(pr))] + [t for k, v in pr.items() for t in (k, enc(v))]
        return " ".join(toks)

    @staticmethod
    def parse_kv(line, rat=False):
        if not line.startswith("ok"):
            return None
        out = {}
        for tok in line.split()[1:]:
            k, v = tok.rsplit("=", 1)
            out[k] = parse_frac(v) if rat else b2f(int(v))
        return out

    @staticmethod
    def specline(name, args):
        return " ".join(["spec", name] + [str(f2b(a)) for a in args])

    @staticmethod
    def parse_one(line):
        if not line.startswith("ok"):
            return None
        return b2f(int(line.split()[1]))


def setup_jax():
    import jax
    jax.config.update("jax_enable_x64", True)
    jax.config.update("jax_platform_name", "cpu")
    return jax


def parse_args():
    ap = argparse.ArgumentParser()
    ap.add_argument("--tier", default="quick")
    ap.add_argument("--seed", type=int, default=0)
    ap.add_argument("--mode", default="check")     # check | search | replay
    ap.add_argument("--out", required=True)
    ap.add_argument("--hint")
    ap.add_argument("--replay")
    ap.add_argument("--shard", type=int, default=-1)
    ap.add_argument("--nshards", type=int, default=0)
    return ap.parse_args()


def run_sharded(script, args, nshards, result_cls_prop):
    """run `script` as `nshards` worker processes (each with --shard k) and merge their Result files."""
    procs, outs = [], []
    for k in range(nshards):
        o = f"{args.out}.shard{k}"
        outs.append(o)
        cmd = [sys.executable, script, "--tier", args.tier, "--seed", str(args.seed), "--mode", args.mode, "--out", o,
               "--shard", str(k), "--nshards", str(nshards)]
        if args.hint:
            cmd += ["--hint", args.hint]
        procs.append(subprocess.Popen(cmd, stdout=subprocess.PIPE, stderr=subprocess.PIPE, text=True))
    R = Result(result_cls_prop)
    errs = []
    for p, o in zip(procs, outs):
        so, se = p.communicate()
        if not os.path.exists(o):
            errs.append(se[-1500:]); continue
        d = json.load(open(o)); os.remove(o)
        R.evaluations += d["evaluations"]
        R.disagreements += d["disagreements"]
        R.spec_failures += d["spec_failures"]
        R.known_confirmed += d["known_confirmed"]
        cov = d["coverage"]
        R.samples += cov.get("samples", [])
        for k, v in cov.get("input_distribution", {}).items():
            R.hist[k] = R.hist.get(k, 0) + v
        R.distinct |= set(map(str, cov.get("distinct_keys", [])))
        R.rule = cov.get("rule", R.rule)
        R.explanation = d.get("explanation", R.explanation)
        R.assumptions = d.get("assumptions", R.assumptions)
    if errs:
        raise RuntimeError("shard failed: " + errs[0])
    return R


class Result:
    """Collects what a harness run covered (written as JSON for bin/check)."""

    def __init__(self, prop):
        self.prop = prop
        self.t0 = time.time()
        self.evaluations = 0
        self.distinct = set()
        self.disagreements = []
        self.spec_failures = []
        self.known_confirmed = []
        self.samples = []
        self.hist = {}
        self.rule = ""
        self.explanation = ""
        self.assumptions = []
        self.trusted_base = []
        self.extra = {}
        self.replay_result = None

    def count(self, key, n=1):
        self.hist[key] = self.hist.get(key, 0) + n

    def disagree(self, what, **kw):
        if len(self.disagreements) < 50:
            self.disagreements.append(dict(what=what, **kw))
        self.count("disagreement:" + what)

    def spec_fail(self, signature, what, input, observed, **kw):
        self.count("spec_failure:" + str(signature))
        if self.hist["spec_failure:" + str(signature)] <= 10:   # keep at most 10 witnesses per signature
            self.spec_failures.append(dict(signature=signature, what=what, input=input, observed=observed, **kw))

    def write(self, path):
        cov = dict(evaluations=self.evaluations, distinct_nontrivial=len(self.distinct), rule=self.rule,
                   samples=self.samples[:8], input_distribution=self.hist, **self.extra)
        if getattr(self, "export_distinct", False):
            cov["distinct_keys"] = sorted(map(str, self.distinct))
        json.dump(dict(property=self.prop, evaluations=self.evaluations, disagreements=self.disagreements,
                       spec_failures=self.spec_failures, known_confirmed=sorted(set(self.known_confirmed)),
                       coverage=cov, explanation=self.explanation, assumptions=self.assumptions,
                       trusted_base=self.trusted_base, replay_result=self.replay_result,
                       wall_s=time.time() - self.t0), open(path, "w"), indent=1, default=str)


def load_known(prop):
    p = os.path.join(ROOT, "known_findings.json")
    if not os.path.exists(p):
        return []
    return [k for k in json.load(open(p))["findings"] if k["property"] == prop]
