"""C05 harness: gradients obtained by differentiating through a simulation are correct.

 (A) passive cells with stimulus, every differentiable quantity perturbed along random directions d (radius, length, axial resistivity,
     capacitance, leak conductance and reversal, initial voltages via data_set; stimulus amplitudes via data_stimulate):
       <jax.grad(loss), d>  on the real code, all solvers x backends x checkpoint layouts (exact and padded)
     vs the FORWARD-MODE derivative of the Lean cable model run over dual numbers (driver `cabledual`)          [correspondence]
     vs converged central finite differences of the real code in float64 (Richardson, three step sizes)        [spec predicate]
 (B) active models (HH, Na/K, synapses) with make_trainable on channel / synapse parameters, geometry and initial states, shared
     parameters and groups of unequal size: jax.grad vs finite differences                                     [spec predicate]
JAX's AD, jax.checkpoint and the custom VJP of spsolve are runtime: trusted/measured, not proved.
"""
import os, math
import numpy as np
from common import *
from simlib import *
from cablelib import random_cell_desc, build_cell, f2b

KEYS = [("radius", "r"), ("length", "l"), ("axial_resistivity", "ra"), ("capacitance", "cm"), ("Leak_gLeak", "g"), ("Leak_eLeak", "e"), ("v", "v")]


def loss_fn_passive(cell, n, nsteps, dt, solver, backend, ck):
    views = [cell.select(nodes=[i]) for i in range(n)]

    def loss(theta):
        ps = None
        for j, (key, _) in enumerate(KEYS):
            for i in range(n):
                ps = views[i].data_set(key, theta[j, i], ps)
        ds = None
        for i in range(n):
            ds = views[i].data_stimulate(theta[len(KEYS), i] * jnp.ones(nsteps), ds)
        rec = jx.integrate(cell, param_state=ps, data_stimuli=ds, delta_t=dt, solver=solver, voltage_solver=backend, checkpoint_lengths=ck)
        return jnp.sum(rec[:, 1:] ** 2)
    return loss


def richardson(f, theta, d, scale):
    hs = [scale * 1e-3, scale * 5e-4, scale * 2.5e-4]
    cd = [(f(theta + h * d) - f(theta - h * d)) / (2 * h) for h in hs]
    r1 = (4 * cd[1] - cd[0]) / 3; r2 = (4 * cd[2] - cd[1]) / 3
    return float((16 * r2 - r1) / 15), float(abs(r2 - r1))


def run(args):
    R = Result("C05")
    R.export_distinct = True
    if args.shard < 0:
        return run_sharded(os.path.abspath(__file__), args, 8 if args.tier == "quick" else 16, "C05")
    rng = np.random.default_rng([args.seed, args.shard, 5])
    drv = LeanDriver()
    R.rule = ("(A) random passive cells (<= 4 branches, <= 3 comps), random directions over 8 kinds of quantities x compartments, solver x backend x "
              "checkpoint layout per case; (B) random active cells/networks with 1-3 make_trainable calls (channel, synapse, geometry, initial "
              "state; views that create groups of unequal size). distinct = (model, trainables, solver, backend, layout); non-trivial = "
              "gradient norm > 1e-9")
    nA = {"quick": 1, "thorough": 6}[args.tier] * (2 if args.mode == "search" else 1)
    for t in range(nA):
        d = random_cell_desc(rng, 4, 3)
        # moderate parameters so that finite differences converge
        n = sum(d["ncomp"])
        d["r"] = rng.uniform(0.5, 3, n).tolist(); d["l"] = rng.uniform(10, 50, n).tolist(); d["ra"] = rng.uniform(500, 3000, n).tolist()
        d["cm"] = rng.uniform(0.7, 1.5, n).tolist(); d["g"] = np.exp(rng.uniform(np.log(5e-5), np.log(5e-4), n)).tolist()
        d["istim"] = rng.uniform(-0.3, 0.3, n).tolist()
        cell = build_cell(d)
        cell.delete_recordings(); cell.record("v", verbose=False)
        nsteps = int(rng.integers(4, 9)); dt = 0.025
        solver = ["bwd_euler", "crank_nicolson"][(args.shard + t) % 2]
        backend = BACKENDS[(args.shard // 2 + t) % 3]
        ck = [None, [nsteps], [2, int(math.ceil(nsteps / 2)) + 1], [2, 2, int(math.ceil(nsteps / 4)) + 1]][(args.shard + t) % 4]
        theta = np.array([d["r"], d["l"], d["ra"], d["cm"], d["g"], d["e"], d["v"], d["istim"]], dtype=np.float64)
        scale = np.array([1, 10, 1000, 1, 1e-4, 10, 10, 0.1])[:, None] * np.ones((1, n))
        direction = rng.normal(size=theta.shape) * scale * (rng.random(theta.shape) < 0.6)
        loss = loss_fn_passive(cell, n, nsteps, dt, solver, backend, ck)
        inp = dict(cell=d, nsteps=nsteps, solver=solver, backend=backend, checkpoint_lengths=ck)
        try:
            g = np.asarray(jax.grad(loss)(jnp.asarray(theta)))
        except Exception as ex:
            R.spec_fail(dict(kind="grad-raises", err=type(ex).__name__), f"jax.grad through integrate raises {type(ex).__name__}: {str(ex)[:150]}", inp, repr(ex)[:200]); continue
        ad = float(np.sum(g * direction))
        R.evaluations += 1
        if abs(ad) > 1e-9:
            R.distinct.add(json.dumps([d["parents"], d["ncomp"], solver, backend, ck]))
        # model: forward mode over dual numbers
        toks = ["cabledual", solver, str(nsteps), str(len(d["parents"]))] + [str(p) for p in d["parents"]] + [str(len(d["ncomp"]))] + [str(k) for k in d["ncomp"]] + [str(16 * n)]
        for i in range(n):
            r, l, ra, cm, gg, e, v, I = theta[:, i]
            dr, dl, dra, dcm, dg, de, dv, dI = direction[:, i]
            gm, dgm = 1000.0 * gg, 1000.0 * dg
            km, dkm = 1000.0 * gg * e, 1000.0 * (dg * e + gg * de)
            for val in (r, dr, l, dl, ra, dra, cm, dcm, gm, dgm, km, dkm, v, dv, I, dI):
                toks.append(str(f2b(val)))
        toks.append(str(f2b(dt)))
        o = drv.batch([" ".join(toks)])[0].split()
        mloss, mdl = b2f(int(o[1])), b2f(int(o[2]))
        iloss = float(loss(jnp.asarray(theta)))
        if not close(iloss, mloss, rel=1e-8, abs_=1e-9):
            R.disagree("loss", input=inp, impl=iloss, model=mloss)
        if not close(ad, mdl, rel=1e-6, abs_=1e-7 * (1 + abs(ad))):
            R.disagree("directional-derivative", input=inp, impl_jax_grad=ad, model_dual=mdl)
        # finite differences on the real code
        fd, err = richardson(lambda th: float(loss(jnp.asarray(th))), theta, direction, 1.0)
        if not (abs(ad - fd) <= 1e-4 * max(1.0, abs(fd)) + 10 * err):
            R.spec_fail(dict(kind="grad-differs-from-finite-differences", model="passive"), f"{solver}/{backend}/ck={ck}: <grad, d> = {ad!r} but central differences give {fd!r} (± {err:.2g})", inp, ad, fd=fd)
        if len(R.samples) < 2:
            R.samples.append(dict(input=dict(parents=d["parents"], ncomp=d["ncomp"], solver=solver, backend=backend, ck=ck), jax_grad=ad, model_dual=mdl, finite_diff=fd))
    # ---------------- (B) active models with make_trainable
    nB = {"quick": 1, "thorough": 6}[args.tier]
    for t in range(nB + 1):
        directed = t == nB      # one directed model per shard: one parameter per branch, branches of unequal size (padded index groups)
        kind = "net" if (args.shard + t) % 2 == 0 and not directed else "cell"
        if directed:
            ncs = [[4, 2, 3], [1, 3, 2], [2, 4, 1], [3, 1, 4]][args.shard % 4]
            comp_ = jx.Compartment()
            mod = jx.Cell([jx.Branch([comp_] * k_) for k_ in ncs], parents=[-1, 0, 0])
            mod.insert(HH()); mod.set("v", -65.0)
            mod.set("radius", rng.uniform(0.5, 3.0, sum(ncs))); mod.set("length", rng.uniform(5.0, 40.0, sum(ncs)))
            desc = dict(parents=[-1, 0, 0], ncomp=ncs, channels=["HH"], directed=True)
        elif kind == "cell":
            mod, desc = random_cell(rng, 3, 3, channels=["HH"] if rng.random() < 0.5 else ["Na", "K", "Leak"])
        else:
            mod, desc = random_network(rng, same_shape=True, syn_types=["IonotropicSynapse", "TestSynapse"], nsyn=int(rng.integers(1, 4)))
        desc["kind"] = kind
        n = mod.nodes.shape[0]
        mod.delete_recordings(); mod.select(nodes=rows_pick(rng, n)).record("v", verbose=False)
        # the loss may read ANY recorded quantity: in every second case also a membrane current (and, in networks, a synaptic current)
        rec_extra = []
        if t % 2 == 1 or directed:
            ch = mod.channels[int(rng.integers(0, len(mod.channels)))] if len(mod.channels) else None
            if ch is not None:
                has = mod.nodes.index[mod.nodes[ch._name].astype(bool)].tolist()
                if has:
                    try:
                        mod.select(nodes=[int(has[0])]).record(ch.current_name, verbose=False); rec_extra.append(ch.current_name)
                    except KeyError:
                        pass
            if kind == "net" and len(mod.edges):
                typ0 = str(mod.edges["type"].iloc[0])
                try:
                    mod.select(edges=[0]).record("i_" + typ0, verbose=False); rec_extra.append("i_" + typ0)
                except KeyError:
                    pass
            R.count("loss-reads-currents" if rec_extra else "loss-reads-voltages-only")
        desc["recorded_currents"] = rec_extra
        nsteps = int(rng.integers(5, 10))
        stim = 0.3 * np.ones(nsteps)
        mod.select(nodes=[0]).stimulate(jnp.asarray(stim), verbose=False)
        solver = ["bwd_euler", "crank_nicolson"][(args.shard + t) % 2]
        backend = BACKENDS[(args.shard + t) % 3]
        ck = [None, [3, int(math.ceil(nsteps / 3)) + 1]][(args.shard + t) % 2]
        cands = ["radius", "length", "axial_resistivity", "capacitance", "v"] + [k for c in mod.channels for k in list(c.channel_params) + list(c.channel_states)[:1]]
        made = []
        if directed:
            for key in ("radius", str(rng.choice(["HH_gNa", "HH_gK", "length", "capacitance", "HH_m"]))):
                mod.branch("all").make_trainable(key, verbose=False); made.append((key, "branch-all"))
        for _ in range(int(rng.integers(1, 4)) if not directed else 0):
            key = str(rng.choice(cands))
            how = str(rng.choice(["all", "branch", "comp"]))
            try:
                if how == "all":
                    mod.make_trainable(key, verbose=False)
                elif how == "branch":
                    nb = int(mod.nodes.global_branch_index.max()) + 1
                    idx = sorted(rng.choice(nb, size=int(rng.integers(1, nb + 1)), replace=False).tolist())
                    (mod.scope("global").branch(idx) if kind == "cell" else mod.cell(0).scope("global").branch([i for i in idx if i in mod.cell(0).nodes.global_branch_index.tolist()] or [0])).make_trainable(key, verbose=False)
                else:
                    mod.select(nodes=rows_pick(rng, n)).make_trainable(key, verbose=False)
                made.append((key, how))
            except AssertionError:
                pass
        if kind == "net" and len(mod.edges):
            typ = str(mod.edges["type"].iloc[0]); skey = {"IonotropicSynapse": "IonotropicSynapse_gS", "TestSynapse": "TestSynapse_gC"}[typ]
            getattr(mod, typ).make_trainable(skey, verbose=False); made.append((skey, "synapse-type"))
        if not made:
            continue
        p0 = mod.get_parameters()

        def loss(p):
            rec = jx.integrate(mod, params=p, solver=solver, voltage_solver=backend, checkpoint_lengths=ck)
            return jnp.sum((rec[:, 1:] + 60.0) ** 2) * 1e-2
        inp = dict(module=desc, trainables=made, solver=solver, backend=backend, checkpoint_lengths=ck, index_groups=[np.asarray(i).tolist() for i in mod.indices_set_by_trainables])
        try:
            g = jax.grad(loss)(p0)
        except AssertionError:
            R.count("refused"); continue
        except Exception as ex:
            R.spec_fail(dict(kind="grad-raises", err=type(ex).__name__), f"jax.grad raises {type(ex).__name__}: {str(ex)[:150]}", inp, repr(ex)[:200]); continue
        flat0 = np.concatenate([np.asarray(list(d_.values())[0], dtype=np.float64).ravel() for d_ in p0])
        gflat = np.concatenate([np.asarray(list(d_.values())[0], dtype=np.float64).ravel() for d_ in g])
        dirn = rng.normal(size=flat0.shape) * np.abs(flat0) * 0.5
        ad = float(np.sum(gflat * dirn))

        def unflat(x):
            out, k = [], 0
            for d_ in p0:
                key, val = list(d_.items())[0]
                m = int(np.asarray(val).size)
                out.append({key: jnp.asarray(x[k:k + m]).reshape(np.asarray(val).shape)}); k += m
            return out
        fd, err = richardson(lambda x: float(loss(unflat(x))), flat0, dirn, 1.0)
        R.evaluations += 1
        if abs(ad) > 1e-9:
            R.distinct.add(json.dumps([str(desc)[:120], made, solver, backend, ck]))
        if not np.all(np.isfinite(gflat)):
            R.spec_fail(dict(kind="grad-nonfinite"), "gradient contains non-finite entries", inp, None)
        elif not (abs(ad - fd) <= 2e-4 * max(1.0, abs(fd)) + 10 * err):
            R.spec_fail(dict(kind="grad-differs-from-finite-differences", model="active"), f"{solver}/{backend}/ck={ck}: <grad, d> = {ad!r}, central differences {fd!r} (± {err:.2g})", inp, ad, fd=fd)
        mod.delete_trainables()
    R.explanation = ("forward-mode derivative of the Lean cable model (dual numbers) vs jax.grad on the real code, and jax.grad vs Richardson-"
                     "extrapolated central differences; theorems: dual evaluation is the derivative for the expression language of the kernels (Props/C05)")
    R.assumptions = ["JAX AD / jax.checkpoint / spsolve VJP are trusted runtime", "finite differences converge for the sampled step sizes (error estimate used in the tolerance)"]
    R.extra["driver_lines"] = drv.lines
    return R


def rows_pick(rng, n):
    return sorted(rng.choice(n, size=int(rng.integers(1, n + 1)), replace=False).tolist())


def replay(args):
    R = Result("C05")
    f = json.load(open(args.replay))
    R.replay_result = dict(fails=True, note="re-run the check with the same VERIF_SEED", input=f.get("input"))
    return R


if __name__ == "__main__":
    a = parse_args()
    r = replay(a) if a.mode == "replay" else run(a)
    r.write(a.out)
