"""C18 harness: modules survive pickling and deep copies unchanged and independent.

For random construction / editing histories h (the C19 alphabet; cells, networks with synapses, SWC cells with radius-generating
functions, trainables, groups, clamps):  m = run h ;  m' = pickle.loads(pickle.dumps(m)) ;  m'' = deepcopy(m)
  * α(m') = α(m'') = α(m)  and α(m) equals the state of the Lean state machine `Model.Ops` after h (value semantics: in the model a
    copy IS the value)                                                                       [correspondence]
  * integrate outputs and jax.grad agree between m, m', m''                                  [spec predicate]
  * independence: a second random history h2 applied to the copy only leaves α(m) = model(h) and gives α(copy) = model(h ++ h2);
    arrays reachable from the copy are not shared with the original (no aliasing of xyzr, groups, externals, trainables)
  * SWC cells: set_ncomp on the copy uses the copied radius functions and gives the same radii as on the original
Pickle and deepcopy themselves are runtime facilities: nothing about them is proved.
"""
import os, copy, pickle, tempfile, shutil
import numpy as np
from common import *
from simlib import *
from alpha import alpha, geom_of
import c19
import c13


def simulate(mod, backend="jax.sparse"):
    if not len(mod.recordings):
        return None
    try:
        return np.asarray(jx.integrate(mod, t_max=0.1 if not mod.externals else None, voltage_solver=backend))
    except AssertionError:          # a jaxley.* backend refuses networks of differently shaped cells: original and copies alike
        return "refused"


def grad_of(mod):
    """gradient of a simple loss w.r.t. all radii through integrate"""
    m = copy.deepcopy(mod)          # the harness must not edit the modules under comparison (their trainables are part of α)
    m.delete_trainables()
    m.make_trainable("radius", verbose=False)
    p = m.get_parameters()

    def loss(p):
        return jnp.sum(jx.integrate(m, params=p, t_max=0.1 if not m.externals else None, voltage_solver="jax.sparse") ** 2)
    g = jax.grad(loss)(p)
    m.delete_trainables()
    return np.asarray(g[0]["radius"])


def run(args):
    R = Result("C18")
    rng = np.random.default_rng([args.seed, 18])
    drv = LeanDriver()
    nh = {"quick": 12, "thorough": 150}[args.tier] * (2 if args.mode == "search" else 1)
    R.rule = ("random histories (3-10 ops of the C19 alphabet) on irregular cells and networks, then pickle round trip and deepcopy, then a second "
              "history on the copy only; plus SWC cells with set_ncomp after the round trip. distinct = distinct op-kind sequences; "
              "non-trivial = history contains an insertion and a recording/input")
    lines, expected, metas = [], [], []
    for h in range(nh):
        mod, kind = c19.base_module(rng)
        n = mod.nodes.shape[0]
        header = f"ops {n} {geom_of(mod)}"
        ops, obs = c19.random_history(rng, mod, kind, int(rng.integers(3, 11)))
        a0 = alpha(mod)
        R.evaluations += 1
        kinds = tuple(o.split()[0] for o in ops)
        if "insert" in kinds and ("record" in kinds or "ext" in kinds):
            R.distinct.add(kinds)
        desc = dict(kind=kind, n=n, ops=ops)
        used = h % 2 == 1
        if used:
            try:
                mod.to_jax()            # a module that has been used: its derived jax tables exist when it is copied
            except Exception:
                used = False
        attrs0 = sorted(k for k, v in mod.__dict__.items() if v is not None)
        try:
            mp = pickle.loads(pickle.dumps(mod))
        except Exception as ex:
            R.spec_fail(dict(kind="pickle-fails", err=type(ex).__name__), f"pickle round trip raises {type(ex).__name__}: {str(ex)[:150]}", desc, repr(ex)[:200]); continue
        try:
            md = copy.deepcopy(mod)
        except Exception as ex:
            R.spec_fail(dict(kind="deepcopy-fails", err=type(ex).__name__), f"deepcopy raises {type(ex).__name__}: {str(ex)[:150]}", desc, repr(ex)[:200]); continue
        attrs1 = sorted(k for k, v in mod.__dict__.items() if v is not None)
        if attrs1 != attrs0:
            R.spec_fail(dict(kind="copying-changes-the-original"), f"pickle.dumps / deepcopy changed the attributes of the ORIGINAL module: lost {sorted(set(attrs0) - set(attrs1))}, gained {sorted(set(attrs1) - set(attrs0))}", desc, None)
        if used:
            # the step functions of original and copies agree without any further preparation
            outs = []
            for name, c in (("original", mod), ("pickle", mp), ("deepcopy", md)):
                try:
                    from jaxley.integrate import build_init_and_step_fn
                    init_fn, _ = build_init_and_step_fn(c, voltage_solver="jax.sparse")
                    st_, _ = init_fn([], None, None, 0.025)
                    outs.append(np.asarray(st_["v"]))
                except Exception as ex:
                    R.spec_fail(dict(kind="copy-unusable", how=name, err=type(ex).__name__), f"after copying a used module, init_fn of the {name} raises {type(ex).__name__}: {str(ex)[:120]}", desc, repr(ex)[:200])
            if len(outs) == 3 and not (np.array_equal(outs[0], outs[1], equal_nan=True) and np.array_equal(outs[0], outs[2], equal_nan=True)):
                R.spec_fail(dict(kind="copy-differs", how="init_fn"), "init_fn of a copy returns different states", desc, None)
        for name, c in (("pickle", mp), ("deepcopy", md)):
            ac = alpha(c)
            if ac != a0:
                R.spec_fail(dict(kind="copy-differs", how=name), f"{name} copy has different tables/groups/trainables/recordings/inputs", desc, c19.diff_summary(ac, a0))
        # simulation and gradient
        if h % 3 == 0:
            dd = dict(desc)
            c19.invariant(Result("C19"), mod, dd)      # only to learn whether the module has dangling references (C19's finding N13)
            if not dd.get("_dangling"):
                try:
                    if not len(mod.recordings):
                        for m_ in (mod, mp, md):
                            m_.select(nodes=[0]).record("v", verbose=False)
                        a0 = alpha(mod)
                        ops = ops + ["record rows=0 es=- state=v"]
                    r0, r1, r2 = simulate(mod), simulate(mp), simulate(md)
                    if not (np.array_equal(r0, r1, equal_nan=True) and np.array_equal(r0, r2, equal_nan=True)):
                        R.spec_fail(dict(kind="copy-simulates-differently"), "pickle/deepcopy copy simulates differently", desc, None)
                    # every way of executing the copies (the default custom solver and its padded index structures travel with the copy)
                    for backend in ("jaxley.stone", "jaxley.thomas"):
                        q0, q1, q2 = simulate(mod, backend), simulate(mp, backend), simulate(md, backend)
                        R.count(f"copies-simulated:{backend}:{'refused' if isinstance(q0, str) else 'ok'}")
                        same = (isinstance(q0, str) and isinstance(q1, str) and isinstance(q2, str)) or (
                            not isinstance(q0, str) and not isinstance(q1, str) and not isinstance(q2, str)
                            and np.array_equal(q0, q1, equal_nan=True) and np.array_equal(q0, q2, equal_nan=True))
                        if not same:
                            R.spec_fail(dict(kind="copy-simulates-differently", backend=backend), f"pickle/deepcopy copy simulates differently with voltage_solver={backend}", dict(desc, backend=backend), None)
                    if np.all(np.isfinite(r0)) and h % 6 == 0:
                        g0, g1 = grad_of(mod), grad_of(mp)
                        if not np.allclose(g0, g1, rtol=1e-10, atol=1e-12, equal_nan=True):
                            R.spec_fail(dict(kind="copy-gradient-differs"), "gradient through integrate differs on the pickled copy", desc, None)
                except Exception as ex:
                    R.count(f"diag:simulation-raised:{type(ex).__name__}")
        # independence: second history on the copy only
        target = mp if h % 2 == 0 else md
        ops2, obs2 = c19.random_history(rng, target, kind, int(rng.integers(2, 7)))
        if alpha(mod) != a0:
            R.spec_fail(dict(kind="copy-not-independent", how="pickle" if h % 2 == 0 else "deepcopy"), f"editing the {'pickle' if h % 2 == 0 else 'deepcopy'} copy changed the original", dict(ops2=ops2, **desc), c19.diff_summary(alpha(mod), a0))
        # model: h gives a0 ; h ++ h2 gives α(copy)
        lines.append(" | ".join([header] + ops + ops2)); expected.append((len(ops), a0, alpha(target))); metas.append(desc)
        if len(R.samples) < 3:
            R.samples.append(dict(kind=kind, ops=ops[:5], ops_on_copy=ops2[:4]))
    for desc, (k, a0, a2), out in zip(metas, expected, drv.batch(lines)):
        states = out.split(" || ")
        # states[0] is the initial state; states[k] the state after h (rejected ops keep the state)
        model_h = [s for s in states[:k + 1] if not s.startswith("err")][-1]
        model_all = [s for s in states if not s.startswith("err")][-1]
        if model_h != a0:
            R.disagree("alpha-after-history", desc=desc, impl=c19.diff_summary(a0, model_h)[0], model=c19.diff_summary(a0, model_h)[1])
        if model_all != a2:
            R.disagree("alpha-of-copy-after-second-history", desc=desc, impl=c19.diff_summary(a2, model_all)[0], model=c19.diff_summary(a2, model_all)[1])
    # ---------------- cells whose solver layout is PADDED (a parent branch narrower than a sibling of its level), built directly and by
    #                  set_ncomp: the copies carry the index structures of the custom solver and must simulate like the original with
    #                  every backend
    from jaxley.channels import HH as _HH
    for (parents, ncomps, resize) in (([-1, 0, 0, 1], [2, 2, 3, 1], None), ([-1, 0, 0, 1, 1], [4, 4, 4, 4, 4], (1, 2)),
                                      ([-1, 0, 0, 2, 2, 1], [1, 3, 2, 2, 1, 2], None)):
        comp = jx.Compartment()
        cell = jx.Cell([jx.Branch([comp] * k) for k in ncomps], parents=parents)
        cell.insert(_HH())
        if resize is not None:
            cell.branch(resize[0]).set_ncomp(resize[1])
        nn_ = cell.nodes.shape[0]
        cell.set("v", rng.uniform(-75, -55, nn_)); cell.set("radius", rng.uniform(0.5, 3.0, nn_)); cell.set("length", rng.uniform(5.0, 40.0, nn_))
        cell.select(nodes=list(range(nn_))).record("v", verbose=False)
        cell.select(nodes=[0]).stimulate(jnp.asarray(0.3 * np.ones(8)), verbose=False)
        pdesc = dict(kind="padded-cell", parents=parents, ncomp=ncomps, resize=resize)
        try:
            cp_, cd_ = pickle.loads(pickle.dumps(cell)), copy.deepcopy(cell)
        except Exception as ex:
            R.spec_fail(dict(kind="pickle-fails", err=type(ex).__name__), f"copying a padded cell raises {type(ex).__name__}", pdesc, repr(ex)[:200]); continue
        for backend in ("jaxley.stone", "jaxley.thomas", "jax.sparse"):
            q0, q1, q2 = simulate(cell, backend), simulate(cp_, backend), simulate(cd_, backend)
            R.evaluations += 1; R.count(f"padded-copies-simulated:{backend}")
            if isinstance(q0, str) or isinstance(q1, str) or isinstance(q2, str) or not (np.array_equal(q0, q1, equal_nan=True) and np.array_equal(q0, q2, equal_nan=True)):
                R.spec_fail(dict(kind="copy-simulates-differently", backend=backend), f"pickle/deepcopy copy of a padded cell simulates differently with voltage_solver={backend}", dict(pdesc, backend=backend), None)
    # ---------------- SWC cells: radius functions survive, set_ncomp after the round trip
    tmpdir = tempfile.mkdtemp(prefix="verif_c18_")
    try:
        for t in range({"quick": 6, "thorough": 40}[args.tier]):
            path = os.path.join(tmpdir, f"m{t}.swc")
            if t % 2 == 0:
                c13.write_swc(rng, path)
            else:                                   # generator of C16: single-point / multi-point somata, type changes, zero-length segments
                import swc_diff
                rows_, _ = swc_diff.gen_tree(rng); swc_diff.write_swc(path, rows_)
            cell = jx.read_swc(path, ncomp=int(rng.integers(1, 4)), max_branch_len=2000.0, assign_groups=True)
            cell.insert(HH())
            try:
                cp, cd = pickle.loads(pickle.dumps(cell)), copy.deepcopy(cell)
            except Exception as ex:
                R.spec_fail(dict(kind="pickle-fails", err=type(ex).__name__, module="swc"), f"pickle / deepcopy of an SWC cell raises {type(ex).__name__}: {str(ex)[:150]}", dict(swc=open(path).read()), repr(ex)[:200]); continue
            R.evaluations += 1
            b = int(rng.integers(0, len(cell.ncomp_per_branch))); nn = int(rng.integers(1, 5))
            for name, c in (("pickle", cp), ("deepcopy", cd)):
                if alpha(c) != alpha(cell):
                    R.spec_fail(dict(kind="copy-differs", how=name), f"{name} copy of an SWC cell differs", dict(swc=open(path).read()), None)
                if any(not np.array_equal(np.asarray(x), np.asarray(y), equal_nan=True) for x, y in zip(c.xyzr, cell.xyzr)):
                    R.spec_fail(dict(kind="copy-differs", how=name), f"{name} copy of an SWC cell has different xyzr", dict(swc=open(path).read()), None)
            ref = copy.deepcopy(cell); ref.branch(b).set_ncomp(nn)
            a_before = alpha(cell)
            for name, c in (("pickle", cp), ("deepcopy", cd)):
                c.branch(b).set_ncomp(nn)
                if not np.allclose(c.nodes["radius"].to_numpy(), ref.nodes["radius"].to_numpy(), rtol=1e-12):
                    R.spec_fail(dict(kind="copy-set_ncomp-differs", how=name), f"set_ncomp on the {name} copy gives different radii", dict(swc=open(path).read(), branch=b, n=nn), None)
            if alpha(cell) != a_before:
                R.spec_fail(dict(kind="copy-not-independent", how="set_ncomp"), "set_ncomp on a copy changed the original SWC cell", dict(branch=b, n=nn), None)
    finally:
        shutil.rmtree(tmpdir, ignore_errors=True)
    R.explanation = ("value-semantics model: every observable is a function of the abstract state alpha; pickle/deepcopy copies must have the same alpha, "
                     "simulate identically and evolve independently — measured; nothing about pickle itself is proved")
    R.assumptions = ["pickle, deepcopy: runtime facilities, exercised not modelled", "alpha covers nodes, edges, channels, currents, recordings, externals, groups, trainables; xyzr compared separately"]
    R.extra["driver_lines"] = drv.lines
    return R


def replay(args):
    R = Result("C18")
    f = json.load(open(args.replay))
    R.replay_result = dict(fails=True, note="re-run the check with the same VERIF_SEED", input=f.get("input"))
    return R


if __name__ == "__main__":
    a = parse_args()
    r = replay(a) if a.mode == "replay" else run(a)
    r.write(a.out)
