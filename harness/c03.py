"""C03 harness: gate updates of every built-in mechanism.

correspondence : generated Lean kernels (Float, via the driver) vs the real `update_states` / `*_gate`
spec predicate : evaluated on the IMPLEMENTATION's outputs — finite, in [0,1], equal to the closed form
                 `Spec.gateClosedForm` (computed by the Lean driver from the implementation's own rates),
                 toward-not-past.
inputs         : removable singularities and their ±1,±2-ulp neighbours (enumerated from the theorems'
                 singular sets), clip thresholds ±ulp, interval endpoints, seeded random doubles.
"""
import math, sys
import numpy as np
from common import *

setup_jax()
import jax.numpy as jnp
from jaxley.channels import HH, Na, K, Km, CaL, CaT, Leak
from jaxley.synapses import IonotropicSynapse, TestSynapse

# mechanism table: name -> (ctor, kind, gates)
# gate: (state suffix, gate fn name or None, gate kind 'ab'|'inf', extra param keys in gate-call order,
#        singular offsets [(param_key or None, offset)])
MECHS = {
    "HH": (HH, "channel", [("m", "m_gate", "ab", [], [(None, -40.0)]), ("h", "h_gate", "ab", [], []),
                            ("n", "n_gate", "ab", [], [(None, -55.0)])]),
    "Na": (Na, "channel", [("m", "m_gate", "ab", ["vt"], [("vt", 13.0), ("vt", 40.0)]), ("h", "h_gate", "ab", ["vt"], [])]),
    "K": (K, "channel", [("n", "n_gate", "ab", ["vt"], [("vt", 15.0)])]),
    "Km": (Km, "channel", [("p", "p_gate", "inf", ["{p}_taumax"], [])]),
    "CaL": (CaL, "channel", [("q", "q_gate", "ab", [], [(None, -27.0)]), ("r", "r_gate", "ab", [], [])]),
    "CaT": (CaT, "channel", [("u", "u_gate", "inf", ["{p}_vx"], [])]),
    "IonotropicSynapse": (IonotropicSynapse, "synapse", [("s", None, "syn", ["{p}_k_minus"], [])]),
    "TestSynapse": (TestSynapse, "synapse", [("c", None, "syn", [], [])]),
}
PARAM_RANGES = {"vt": (-70.0, -50.0), "taumax": (100.0, 5000.0), "vx": (-5.0, 5.0), "k_minus": (1e-3, 1.0)}


def neighbours(x, k=2):
    out = [x]
    a = b = x
    for _ in range(k):
        a = np.nextafter(a, -np.inf); b = np.nextafter(b, np.inf)
        out += [float(a), float(b)]
    return out


def gen_inputs(mech, rng, n_random, prefix):
    """list of dict(v, dt, x, params)"""
    ctor, kind, gates = MECHS[mech]
    inst = ctor()
    defaults = dict(getattr(inst, "channel_params", None) or getattr(inst, "synapse_params", {}))
    cases = []

    def params_random():
        p = dict(defaults)
        for key in list(p):
            base = key.split("_", 1)[-1] if key.startswith(mech) else key
            if base in PARAM_RANGES:
                lo, hi = PARAM_RANGES[base]
                p[key] = float(rng.uniform(lo, hi)) if base != "k_minus" else float(np.exp(rng.uniform(np.log(lo), np.log(hi))))
        return p

    # (a) singular voltages and neighbours, default and random-integer vt (exactly representable sums)
    for (sfx, gname, gk, pkeys, sing) in gates:
        for (pk, off) in sing:
            for vt in ([None] if pk is None else [-60.0, -55.0, -63.0]):
                p = dict(defaults)
                if pk is not None:
                    p[pk] = vt
                v0 = off if pk is None else vt + off
                for v in neighbours(v0):
                    for dt in (0.025, 1.0):
                        for x in (0.0, 0.3, 1.0):
                            cases.append(dict(v=v, dt=dt, x=x, params=p, tag="singular" if v == v0 else "near-singular"))
    # (b) clip thresholds of the exponentials: voltages where some save_exp argument crosses 20
    for v0 in (-240.0, -200.0, 200.0, -127.0, -125.0, -22.0, -19.0, 165.0):
        for v in neighbours(v0, 1):
            cases.append(dict(v=v, dt=0.025, x=0.5, params=dict(defaults), tag="clip"))
    # (c) endpoints
    for v in (-200.0, 200.0, 0.0, -65.0):
        for dt in (1e-300, 1e-9, 1e3):
            for x in (0.0, 1.0, 5e-324, 1.0 - 2 ** -53):
                cases.append(dict(v=v, dt=dt, x=x, params=params_random(), tag="endpoint"))
    # (d) random
    for _ in range(n_random):
        v = float(rng.uniform(-200, 200)) if rng.random() < 0.8 else float(rng.uniform(-80, 40))
        dt = float(np.exp(rng.uniform(np.log(1e-6), np.log(1e3))))
        x = float(rng.choice([rng.uniform(0, 1), 0.0, 1.0], p=[0.9, 0.05, 0.05]))
        cases.append(dict(v=v, dt=dt, x=x, params=params_random(), tag="random"))
    return inst, cases


def run(args):
    R = Result("C03")
    rng = np.random.default_rng(args.seed)
    n_random = {"quick": 400, "thorough": 6000}[args.tier]
    if args.mode == "search":
        n_random *= 5
    drv = LeanDriver()
    known = load_known("C03")
    R.rule = ("per mechanism: enumerated singular voltages ±0,1,2 ulp × dt × x; clip thresholds ±1 ulp; endpoints; "
              "seeded random (v,dt,x,params). distinct = distinct (mechanism, v, dt, x, params) tuples; "
              "non-trivial = update differs from the input state")
    for mech, (ctor, kind, gates) in MECHS.items():
        for prefix in ([mech] if args.tier == "quick" else [mech, "ren"]):
            inst, cases = gen_inputs(mech, rng, n_random, prefix)
            if prefix != mech:
                inst = ctor().change_name(prefix) if kind == "channel" else ctor(prefix)
                for c in cases:
                    c["params"] = {(prefix + k[len(mech):] if k.startswith(mech + "_") else k): v for k, v in c["params"].items()}
            N = len(cases)
            v = np.array([c["v"] for c in cases]); dt = np.array([c["dt"] for c in cases])
            xs = np.array([c["x"] for c in cases])
            pkeys = list(cases[0]["params"].keys())
            P = {k: jnp.asarray(np.array([c["params"][k] for c in cases])) for k in pkeys}
            S = {f"{prefix}_{g[0]}": jnp.asarray(xs) for g in gates}
            # ---- implementation
            try:
                if kind == "channel":
                    out = inst.update_states(S, jnp.asarray(dt), jnp.asarray(v), P)
                else:
                    out = inst.update_states(S, jnp.asarray(dt), jnp.asarray(v), jnp.asarray(v) * 0 - 60.0, P)
                out = {k: np.asarray(val, dtype=np.float64) for k, val in out.items()}
            except Exception as ex:  # the implementation refuses every input: a spec failure for all of them
                R.spec_fail(dict(kind="update-raises", mech=mech), f"{mech}.update_states raises {type(ex).__name__}: {ex}",
                            dict(mech=mech, prefix=prefix, case=cases[0]), repr(ex))
                R.evaluations += N
                continue
            # rates from the implementation's own gate functions
            rates = {}
            for (sfx, gname, gk, gpk, sing) in gates:
                if gk == "syn":
                    continue
                gargs = [P[k.format(p=prefix)] for k in gpk]
                a, b = getattr(inst, gname)(jnp.asarray(v), *gargs)
                rates[sfx] = (np.asarray(a, dtype=np.float64) * np.ones(N), np.asarray(b, dtype=np.float64) * np.ones(N))
            # ---- model (generated kernels in Float)
            lean_name = f"{mech}.update_states"
            lines = []
            for i, c in enumerate(cases):
                a = [c["dt"], c["v"]] if kind == "channel" else [c["dt"], c["v"], -60.0]
                lines.append(drv.kline(lean_name, a, pfx=prefix, states={k: c["x"] for k in S}, params=c["params"]))
            mout = [drv.parse_kv(l) for l in drv.batch(lines)]
            # closed forms from the Spec, using the implementation's rates
            slines, smeta = [], []
            for (sfx, gname, gk, gpk, sing) in gates:
                for i, c in enumerate(cases):
                    if gk == "ab":
                        a, b = rates[sfx][0][i], rates[sfx][1][i]
                        xinf, tau = a / (a + b) if (a + b) != 0 else math.nan, 1.0 / (a + b) if (a + b) != 0 else math.nan
                    elif gk == "inf":
                        xinf, tau = rates[sfx][0][i], rates[sfx][1][i]
                    else:
                        sinf = 1.0 / (1.0 + math.exp(min((-35.0 - c["v"]) / 10.0, 700)))
                        km = c["params"].get(f"{prefix}_k_minus", 1.0 / 40.0)
                        xinf, tau = sinf, (1.0 - sinf) / km
                    smeta.append((sfx, i, xinf, tau))
                    slines.append(drv.specline("gateClosedForm", [c["x"], c["dt"], xinf, tau]))
            closed = [drv.parse_one(l) for l in drv.batch(slines)]
            cf = {}
            for (sfx, i, xinf, tau), val in zip(smeta, closed):
                cf[(sfx, i)] = (val, xinf, tau)
            # ---- compare
            for i, c in enumerate(cases):
                R.evaluations += 1
                key = (mech, prefix, c["v"], c["dt"], c["x"], tuple(sorted(c["params"].items())))
                R.count(f"{mech}:{c['tag']}")
                have_model = True          # without a model value only the correspondence is skipped, never the Spec predicate
                if mout[i] is None:
                    R.disagree("model-unavailable", mech=mech, case=c); have_model = False
                elif set(mout[i]) != set(out):
                    R.disagree("key-set", mech=mech, impl=sorted(out), model=sorted(mout[i]), case=c); have_model = False
                for (sfx, gname, gk, gpk, sing) in gates:
                    k = f"{prefix}_{sfx}"
                    yi, ym = float(out[k][i]), (mout[i][k] if have_model else None)
                    closed_v, xinf, tau = cf[(sfx, i)]
                    if yi != c["x"]:
                        R.distinct.add(key)
                    # correspondence (model vs implementation); NaN must coincide
                    if have_model and not close(yi, ym, rel=1e-9, abs_=1e-13, maxulp=256):
                        # near the removable singularity both sides suffer the same cancellation but with
                        # different exp implementations: not comparable, recorded as diagnostic only
                        if c["tag"] == "near-singular":
                            R.count("diag:near-singular-model-impl-differ")
                        else:
                            R.disagree("value", mech=mech, gate=sfx, impl=yi, model=ym, case=c)
                    # spec predicate on the implementation
                    # the rate expression is exactly 0/0 in double arithmetic (same association as the code:
                    # `v - vt - off`, `-(v + 40)`, `-v - 27`)
                    sing_here = any((((c["v"] - c["params"][pk]) - off) if pk is not None else (c["v"] - off)) == 0.0
                                    for (pk, off) in sing)
                    inp = dict(mech=mech, prefix=prefix, gate=sfx, **c)
                    if not math.isfinite(yi):
                        sig = dict(kind="gate-nan-at-removable-singularity") if (sing_here and math.isnan(yi)) else dict(kind="nonfinite", mech=mech, gate=sfx)
                        R.spec_fail(sig, f"{mech} gate {sfx}: update returns {yi} at v={c['v']!r}", inp, yi)
                        if sing_here:
                            R.known_confirmed.append("F4")
                        continue
                    if not (0.0 <= yi <= 1.0):
                        R.spec_fail(dict(kind="out-of-unit-interval", mech=mech, gate=sfx), f"{mech} gate {sfx}: update {yi!r} not in [0,1]", inp, yi)
                        continue
                    if c["tag"] in ("near-singular",) or not (math.isfinite(xinf) and math.isfinite(tau)):
                        continue
                    if not close(yi, closed_v, rel=1e-9, abs_=1e-12, maxulp=256):
                        R.spec_fail(dict(kind="not-closed-form", mech=mech, gate=sfx),
                                    f"{mech} gate {sfx}: update {yi!r} differs from closed form {closed_v!r}", inp, yi, closed_form=closed_v)
                        continue
                    # toward, never past (slack: a few ulps of 1)
                    if (yi - xinf) * (c["x"] - xinf) < -1e-15 or abs(yi - xinf) > abs(c["x"] - xinf) + 1e-15:
                        R.spec_fail(dict(kind="overshoot", mech=mech, gate=sfx), f"{mech} gate {sfx}: moves past/away from steady state", inp, yi, xinf=xinf)
            if len(R.samples) < 8:
                R.samples.append(dict(mech=mech, prefix=prefix, case=cases[len(cases) // 2],
                                      impl={k: float(out[k][len(cases) // 2]) for k in out}))
    # Leak has no state
    try:
        assert Leak().update_states({}, 0.025, jnp.asarray([-70.0]), {}) == {}
        R.evaluations += 1
    except Exception as ex:
        R.spec_fail(dict(kind="leak-update"), f"Leak.update_states: {ex!r}", {}, repr(ex))
    R.explanation = ("theorems over ℝ about the generated kernels (all v, dt, x); float layer sampled: model(Float) vs "
                     "implementation, and Spec closed form on the implementation's outputs")
    R.assumptions = ["IEEE rounding and XLA exp are not modelled (sampled)", "theorems are over ℝ, not doubles"]
    R.extra["driver_lines"] = drv.lines
    return R


def replay(args):
    import json
    R = Result("C03")
    f = json.load(open(args.replay))
    inp = f.get("input", {})
    if "mech" not in inp:
        R.replay_result = dict(fails=False, note="replay names a broken obligation; nothing to execute")
        return R
    ctor, kind, gates = MECHS[inp["mech"]]
    prefix = inp.get("prefix", inp["mech"])
    inst = ctor() if prefix == inp["mech"] else (ctor().change_name(prefix) if kind == "channel" else ctor(prefix))
    S = {f"{prefix}_{g[0]}": jnp.asarray([inp["x"]]) for g in gates}
    P = {k: jnp.asarray([v]) for k, v in inp["params"].items()}
    if kind == "channel":
        out = inst.update_states(S, inp["dt"], jnp.asarray([inp["v"]]), P)
    else:
        out = inst.update_states(S, inp["dt"], jnp.asarray([inp["v"]]), jnp.asarray([-60.0]), P)
    val = float(out[f"{prefix}_{inp['gate']}"][0])
    R.replay_result = dict(fails=not (math.isfinite(val) and 0 <= val <= 1) or f.get("signature", {}).get("kind") in ("not-closed-form", "overshoot"),
                           observed=val, input=inp)
    return R


if __name__ == "__main__":
    a = parse_args()
    r = replay(a) if a.mode == "replay" else run(a)
    r.write(a.out)
