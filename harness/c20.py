"""C20 harness: connectivity builders.

The sampler's draws are RECORDED (the pandas / numpy sampling functions are wrapped in this process; originals are
called) and handed to the Lean model `Model.Connect`; the edges the real builders append must equal the model's
(correspondence).  Spec predicates on the implementation: fully_connect = exactly pre x post; matrix connect = exactly the
True entries (row-major); sparse_connect ⊆ pre x post, succeeds for every forced number of connections incl. 0 and 1;
pre site = first compartment of the pre cell; post site inside the intended post cell; rows appended with consecutive
edge indices, right type / type_ind and locs (k+1/2)/ncomp.
"""
import os
import numpy as np
import pandas as pd
from common import *
from simlib import *
from jaxley.connect import fully_connect, sparse_connect, connectivity_matrix_connect
import sys as _sys
jc = _sys.modules["jaxley.connect"]


def make_net(rng, ncells):
    comp = jx.Compartment()
    cells = []
    for _ in range(ncells):
        nb = int(rng.integers(1, 4))
        cells.append(jx.Cell([jx.Branch([comp] * int(rng.integers(1, 4))) for _ in range(nb)], parents=[-1] + [int(rng.integers(0, i)) for i in range(1, nb)]))
    return jx.Network(cells)


def edges_of(net, start=0):
    e = net.edges.iloc[start:]
    nodes = net.nodes
    pre = e.pre_global_comp_index.to_numpy().astype(int); post = e.post_global_comp_index.to_numpy().astype(int)
    return pre, post, nodes.loc[pre, "global_cell_index"].to_numpy().astype(int), nodes.loc[post, "global_cell_index"].to_numpy().astype(int)


def first_comp(net, cell):
    return int(net.nodes.index[net.nodes.global_cell_index == cell][0])


def check_rows(R, net, start, syn_name, desc):
    """appended rows: consecutive global_edge_index, type, type_ind, locs"""
    e = net.edges.iloc[start:]
    if len(e) == 0:
        return
    if e.global_edge_index.tolist() != list(range(start, start + len(e))) or e.index.tolist() != list(range(start, start + len(e))):
        R.spec_fail(dict(kind="edge-index-not-consecutive"), "appended edges do not have consecutive indices", desc, e.global_edge_index.tolist())
    if set(e["type"]) != {syn_name}:
        R.spec_fail(dict(kind="edge-type"), "appended edges have the wrong type", desc, list(e["type"]))
    npb = np.asarray(net.ncomp_per_branch); cum = np.concatenate([[0], np.cumsum(npb)])
    for col, loccol in (("pre_global_comp_index", "pre_locs"), ("post_global_comp_index", "post_locs")):
        for c, loc in zip(e[col].astype(int), e[loccol]):
            b = int(net.nodes.loc[c, "global_branch_index"])
            want = (0.5 + (c - cum[b])) / npb[b]
            if abs(loc - want) > 1e-12:
                R.spec_fail(dict(kind="edge-loc"), f"{loccol} {loc} != {(want)}", desc, float(loc))


def run(args):
    R = Result("C20")
    rng = np.random.default_rng([args.seed, 20])
    drv = LeanDriver()
    n = {"quick": 40, "thorough": 500}[args.tier] * (3 if args.mode == "search" else 1)
    R.rule = ("random networks of 2-7 cells with different branch/compartment counts; random disjoint or overlapping pre/post cell subsets "
              "(equal and unequal sizes); random boolean matrices incl. all-False/all-True; sparse_connect with p in {0, 0.3, 1} and the binomial "
              "forced to 0,1,2,k; two synapse types interleaved. distinct = (builder, npre, npost, outcome); non-trivial = npre != npost or >= 2 pairs")
    lines, checks = [], []
    for t in range(n):
        ncells = int(rng.integers(2, 8))
        net = make_net(rng, ncells)
        cells = list(range(ncells))
        npre = int(rng.integers(1, ncells)); npost = int(rng.integers(1, ncells))
        pre = sorted(rng.choice(cells, npre, replace=False).tolist()); post = sorted(rng.choice(cells, npost, replace=False).tolist())
        builder = ["full", "matrix", "sparse"][t % 3]
        syn = SYNS[str(rng.choice(["IonotropicSynapse", "TestSynapse"]))]()
        # an unrelated synapse of another type first, so that appended rows do not start at 0
        if rng.random() < 0.5:
            connect(net.select(nodes=[0]), net.select(nodes=[1]), TanhRateSynapse())
        start = len(net.edges)
        desc = dict(builder=builder, ncells=ncells, pre=pre, post=post, ncomp=[int(x) for x in net.nodes.groupby("global_cell_index").size()])
        R.evaluations += 1
        R.count(f"{builder}:{'eq' if npre == npost else 'neq'}")
        if npre != npost or npre * npost >= 2:
            R.distinct.add(json.dumps([builder, pre, post, t]))
        presites = [first_comp(net, c) for c in pre]
        try:
            if builder == "full":
                rec = {}
                orig = pd.core.groupby.DataFrameGroupBy.sample

                def wrapped(self, *a, **k):
                    out = orig(self, *a, **k); rec["flat"] = out.index.to_numpy().tolist(); return out
                pd.core.groupby.DataFrameGroupBy.sample = wrapped
                try:
                    fully_connect(net.cell(pre), net.cell(post), syn)
                finally:
                    pd.core.groupby.DataFrameGroupBy.sample = orig
                p, q, pc, qc = edges_of(net, start)
                pairs = sorted(zip(pc.tolist(), qc.tolist()))
                want = sorted((a, b) for a in pre for b in post)
                if pairs != want:
                    R.spec_fail(dict(kind="fully-connect-pairs", equal=npre == npost), f"fully_connect({pre},{post}) created cell pairs {pairs}", desc, pairs)
                lines.append(" ".join(["fc", str(npost), str(npre)] + [str(s) for s in presites] + [str(len(rec["flat"]))] + [str(int(x)) for x in rec["flat"]]))
                checks.append((desc, list(zip(p.tolist(), q.tolist()))))
            elif builder == "matrix":
                kind = rng.random()
                M = np.zeros((npre, npost), bool) if kind < 0.1 else np.ones((npre, npost), bool) if kind < 0.2 else rng.random((npre, npost)) < 0.5
                rec = []
                orig = jc.sample_comp

                def wrapped(view, num=1, replace=True):
                    out = orig(view, num, replace); rec.extend(np.asarray(out).tolist()); return out
                jc.sample_comp = wrapped
                try:
                    if M.any():
                        connectivity_matrix_connect(net.cell(pre), net.cell(post), syn, M)
                    else:
                        try:
                            connectivity_matrix_connect(net.cell(pre), net.cell(post), syn, M)
                        except ValueError as ex:      # np.hstack of an empty list: recorded as a spec failure below
                            R.spec_fail(dict(kind="matrix-connect-empty-matrix-raises"), f"connectivity_matrix_connect with an all-False matrix raises {ex!r}", desc, repr(ex))
                finally:
                    jc.sample_comp = orig
                p, q, pc, qc = edges_of(net, start)
                want = [(pre[i], post[j]) for i in range(npre) for j in range(npost) if M[i, j]]
                if list(zip(pc.tolist(), qc.tolist())) != want:
                    R.spec_fail(dict(kind="matrix-connect-entries"), f"connectivity_matrix_connect created {list(zip(pc.tolist(), qc.tolist()))}, True entries are {want}", desc, None)
                if M.any():
                    lines.append(" ".join(["mc", str(npre)] + [str(s) for s in presites] + [str(npre)] + ["".join("1" if x else "0" for x in row) or "-" for row in M] + [str(len(rec))] + [str(int(x)) for x in rec]))
                    checks.append((desc, list(zip(p.tolist(), q.tolist()))))
            else:
                forced = [0, 1, 2, None, None][t % 5]
                pval = float(rng.choice([0.0, 0.3, 1.0]))
                origb = np.random.binomial
                if forced is not None:
                    np.random.binomial = lambda n_, p_, f=forced: min(f, 10 ** 9)
                try:
                    sparse_connect(net.cell(pre), net.cell(post), syn, pval)
                except Exception as ex:
                    R.spec_fail(dict(kind="sparse-connect-raises", n=forced), f"sparse_connect raises {type(ex).__name__}: {ex} (forced draws {forced}, p={pval})", desc, repr(ex))
                finally:
                    np.random.binomial = origb
                p, q, pc, qc = edges_of(net, start)
                R.count(f"sparse:n={len(p) if len(p) < 3 else '3+'}")
                if forced is not None and len(p) != forced:
                    R.spec_fail(dict(kind="sparse-connect-count"), f"sparse_connect created {len(p)} synapses for {forced} drawn connections", desc, len(p))
                if not all(a in pre and b in post for a, b in zip(pc.tolist(), qc.tolist())):
                    R.spec_fail(dict(kind="sparse-connect-outside"), "sparse_connect created a synapse outside pre x post", desc, list(zip(pc.tolist(), qc.tolist())))
                if pval == 1.0 and forced is None and len(p) != npre * npost:
                    R.count("diag:sparse p=1 draws with replacement")
            # sites
            p, q, pc, qc = edges_of(net, start)
            for a, c in zip(p.tolist(), pc.tolist()):
                if a != first_comp(net, c):
                    R.spec_fail(dict(kind="pre-site"), f"presynaptic site {a} is not the first compartment of cell {c}", desc, a)
            check_rows(R, net, start, syn._name, desc)
        except AssertionError as ex:
            R.spec_fail(dict(kind="builder-assert"), f"{builder} raised AssertionError {ex}", desc, repr(ex))
        except Exception as ex:       # legal populations: any other exception of a builder is a failure of the property as well
            R.spec_fail(dict(kind="builder-raises", builder=builder, err=type(ex).__name__), f"{builder} builder raises {type(ex).__name__}: {str(ex)[:150]} for pre cells {pre}, post cells {post}", desc, repr(ex)[:200])
        if len(R.samples) < 4:
            R.samples.append(dict(desc=desc, edges=list(zip(*[x.tolist() for x in edges_of(net, start)[:2]]))))
    for (desc, impl), o in zip(checks, drv.batch(lines)):
        model = [tuple(int(x) for x in t.split(":")) for t in o.split()[1].split(",")] if len(o.split()) > 1 else []
        if model != impl:
            R.disagree("edges", desc=desc, impl=impl, model=model)
    R.explanation = "index arithmetic of the builders proved for every draw (Props/C20.lean); draws recorded from the real samplers and replayed in the model"
    R.assumptions = ["pandas groupby(...).sample returns num_pre samples per post cell, post-cell major (observed on every run)"]
    R.extra["driver_lines"] = drv.lines
    return R


def replay(args):
    R = Result("C20")
    f = json.load(open(args.replay))
    R.replay_result = dict(fails=True, note="re-run the check with the same VERIF_SEED", input=f.get("input"))
    return R


if __name__ == "__main__":
    a = parse_args()
    r = replay(a) if a.mode == "replay" else run(a)
    r.write(a.out)
