"""Differential harness for the Lean model of a WHOLE SIMULATION (`lean/JaxleyVerif/Model/Sim.lean`, driver command `sim`).

`encode_module` reads everything from the REAL module's public tables (`nodes`, `edges`, `channels`, `synapses`,
`recordings`, `externals`, `external_inds`, `comb_parents`, `ncomp_per_branch`), `run_model` asks the Lean driver,
`compare` runs `jx.integrate` next to it.  CLI:  python harness/simmodel.py --seed S --n N
"""
import argparse, json, math, sys, time
import numpy as np
from common import *
from simlib import *   # sets up jax (x64, cpu), jx, CHANS, SYNS, random_cell, random_network, random_module

SOLVERS = ["bwd_euler", "crank_nicolson", "fwd_euler"]
SIM_BACKENDS = ["jaxley.thomas", "jax.sparse"]
REL, ABS = 1e-9, 1e-9


# ------------------------------------------------------------------------------------------------ encoding

def _cells_of(mod):
    """per cell (parents with −1 for the root, ncomp per branch), from the module's own branch structure"""
    ncomp = [int(k) for k in np.asarray(mod.ncomp_per_branch).tolist()] if hasattr(mod, "ncomp_per_branch") else None
    if hasattr(mod, "nbranches_per_cell") and hasattr(mod, "comb_parents") and isinstance(mod, jx.Network):
        par = [int(p) for p in np.asarray(mod.comb_parents).tolist()]
        out, off = [], 0
        for nb in mod.nbranches_per_cell:
            nb = int(nb)
            ps = [(-1 if p < 0 else p - off) for p in par[off:off + nb]]
            out.append((ps, ncomp[off:off + nb]))
            off += nb
        return out
    if hasattr(mod, "comb_parents"):
        return [([int(p) for p in np.asarray(mod.comb_parents).tolist()], ncomp)]
    n = mod.nodes.shape[0]
    return [([-1], [n])]          # Branch / Compartment


def _fb(x):
    return str(f2b(float(x)))


def _externals_of(mod):
    """`module.externals` / `module.external_inds` as they are (the model pads / truncates like `integrate(t_max=…)`)"""
    out = []
    for key in mod.externals.keys():
        vals = np.asarray(mod.externals[key], dtype=np.float64)          # (num, T)
        inds = [int(i) for i in np.asarray(mod.external_inds[key]).tolist()]
        out.append((key, inds, vals))
    return out


def encode_module(mod, dt, solver, nsteps, backend="jax.sparse"):
    nodes, edges = mod.nodes, mod.edges
    n = nodes.shape[0]
    toks = ["sim", solver, backend, _fb(dt), str(nsteps)]
    cells = _cells_of(mod)
    assert sum(sum(c[1]) for c in cells) == n
    toks.append(str(len(cells)))
    for ps, ns in cells:
        toks += [str(len(ps))] + [str(p) for p in ps] + [str(len(ns))] + [str(k) for k in ns]
    toks.append(str(5 * n))
    cols = [nodes[k].to_numpy(dtype=np.float64) for k in ("radius", "length", "axial_resistivity", "capacitance", "v")]
    for i in range(n):
        toks += [_fb(c[i]) for c in cols]
    # channels (module order)
    toks.append(str(len(mod.channels)))
    for ch in mod.channels:
        flags = nodes[ch._name].to_numpy()
        toks += [type(ch).__name__, ch._name, str(n)] + [("1" if (f is True or f == 1) else "0") for f in flags.tolist()]
        for names in (list(ch.channel_params), list(ch.channel_states)):
            toks.append(str(len(names)))
            for k in names:
                toks += [k, str(n)] + [_fb(x) for x in nodes[k].to_numpy(dtype=np.float64)]
    # synapse types and edges (row order)
    syns = list(getattr(mod, "synapses", []) or [])
    toks.append(str(len(syns)))
    for s in syns:
        toks += [type(s).__name__, s._name]
    ne = 0 if edges is None or len(edges) == 0 else len(edges)
    toks.append(str(ne))
    for r in range(ne):
        row = edges.iloc[r]
        t = int(row["type_ind"])
        s = syns[t]
        toks += [str(int(row["pre_global_comp_index"])), str(int(row["post_global_comp_index"])), str(t)]
        for names in (list(s.synapse_params), list(s.synapse_states)):
            toks.append(str(len(names)))
            for k in names:
                toks += [k, _fb(row[k])]
    # externals
    exts = _externals_of(mod)
    toks.append(str(len(exts)))
    for key, inds, vals in exts:
        toks += [key, str(len(inds))] + [str(i) for i in inds]
        toks += [str(vals.shape[1]), str(vals.shape[1] * len(inds))]
        toks += [_fb(x) for x in vals.T.reshape(-1)]          # time-major
    # recordings
    recs = mod.recordings
    toks.append(str(len(recs)))
    for st, ix in zip(recs["state"].tolist(), recs["rec_index"].tolist()):
        toks += [str(st), str(int(ix))]
    return " ".join(toks)


def parse_sim(ans):
    if ans.startswith("ok"):
        body = ans.split()[1:]
        return "ok", np.asarray([[b2f(int(t)) for t in tr.split(",")] for tr in body], dtype=np.float64)
    return ans.strip(), None


def run_model(drv, line):
    return parse_sim(drv.batch([line])[0])


def t_max_for(nsteps, dt):
    """a `t_max` for which `int(t_max // dt + 1) == nsteps`"""
    t = (nsteps - 0.5) * dt
    assert int(t // dt + 1) == nsteps
    return t


def run_real(mod, dt, solver, backend, nsteps):
    try:
        rec = jx.integrate(mod, delta_t=dt, t_max=t_max_for(nsteps, dt), solver=solver, voltage_solver=backend)
    except (NotImplementedError, TypeError, AssertionError, ValueError) as ex:
        return "refused:" + type(ex).__name__, None
    return "ok", np.asarray(rec, dtype=np.float64)


def trace_diff(a, b):
    """(max over the trace of |a−b| / (1 + max(|a|,|b|)), within tolerance?) — with ABS == REL the tolerance
    `|a−b| ≤ ABS + REL·max(|a|,|b|)` is exactly `value ≤ REL`; NaN must meet NaN, ±inf must meet the same ±inf"""
    if a.shape != b.shape:
        return math.inf, False
    if (np.isnan(a) != np.isnan(b)).any():
        return math.inf, False
    fin = np.isfinite(a) & np.isfinite(b)
    rest = ~fin & ~np.isnan(a)
    if rest.any() and not (a[rest] == b[rest]).all():
        return math.inf, False
    if not fin.any():
        return 0.0, True
    d = np.abs(a[fin] - b[fin])
    scale = np.maximum(np.abs(a[fin]), np.abs(b[fin]))
    ok = bool((d <= ABS + REL * scale).all())
    return float(np.max(d / (1.0 + scale))), ok


def compare(mod, drv, dt, solver, backend, nsteps):
    """dict(status, maxrel per recording, ok)"""
    line = encode_module(mod, dt, solver, nsteps, backend)
    ms, mt = run_model(drv, line)
    rs, rt = run_real(mod, dt, solver, backend, nsteps)
    out = dict(solver=solver, backend=backend, nsteps=nsteps, dt=dt, model=ms, real=rs)
    if ms == "ok" and rs == "ok":
        if mt.shape != rt.shape:
            out.update(ok=False, why=f"shape {mt.shape} vs {rt.shape}")
            return out
        per = [trace_diff(mt[j], rt[j]) for j in range(rt.shape[0])]
        out.update(ok=all(p[1] for p in per), maxrel=max(p[0] for p in per), per_recording=[p[0] for p in per])
        if not out["ok"]:
            bad = [j for j, p in enumerate(per) if not p[1]]
            j = bad[0]
            k = int(np.argmax(np.abs(np.nan_to_num(mt[j] - rt[j], nan=np.inf))))
            out["why"] = dict(recording=j, state=str(mod.recordings["state"].tolist()[j]), index=int(mod.recordings["rec_index"].tolist()[j]),
                              column=k, model=float(mt[j][k]), real=float(rt[j][k]))
    else:
        out["ok"] = (ms == "refused") == rs.startswith("refused")
        out["maxrel"] = 0.0
    return out


# ------------------------------------------------------------------------------------------------ random modules

SYN_STATE = {"IonotropicSynapse": "IonotropicSynapse_s", "TestSynapse": "TestSynapse_c"}


def enrich_cell(cell, rng, names, partial=True):
    """insert `names` (possibly only in PART of the compartments), per-compartment parameters and initial states"""
    n = cell.nodes.shape[0]
    where = {}
    for nm in names:
        if partial and n > 1 and rng.random() < 0.5:
            k = int(rng.integers(1, n))
            sub = sorted(int(i) for i in rng.choice(n, size=k, replace=False))
            cell.select(nodes=sub).insert(CHANS[nm]())
        else:
            sub = list(range(n))
            cell.insert(CHANS[nm]())
        where[nm] = sub
    for ch in cell.channels:
        sub = where[ch._name]
        view = cell.select(nodes=sub)
        for k, d in ch.channel_params.items():
            if rng.random() < 0.7:
                if k.startswith("e") or k in ("vt",) or k.endswith("_vx"):
                    val = d + rng.uniform(-4.0, 4.0, len(sub))
                else:
                    val = d * np.exp(rng.uniform(-0.7, 0.7, len(sub)))
                view.set(k, val)
        for k in ch.channel_states:
            view.set(k, rng.uniform(0.05, 0.95, len(sub)))
    cell.set("capacitance", rng.uniform(0.7, 1.5, n))
    return where


def rich_cell(rng, max_branches=4, max_ncomp=3, same_ncomp=None, unbranched=False):
    nb = 1 if unbranched else int(rng.integers(1, max_branches + 1))
    ncomp = [same_ncomp or int(rng.integers(1, max_ncomp + 1)) for _ in range(nb)]
    parents = [-1] + [int(rng.integers(0, i)) for i in range(1, nb)]
    comp = jx.Compartment()
    cell = jx.Cell([jx.Branch([comp] * k) for k in ncomp], parents=parents)
    n = sum(ncomp)
    names = [str(x) for x in rng.choice(["HH", "Na", "K", "Leak", "Km", "CaL", "CaT"], size=int(rng.integers(1, 5)), replace=False)]
    if "HH" not in names and "Leak" not in names:
        names.append("Leak")
    rng.shuffle(names)
    cell.set("radius", rng.uniform(0.5, 3.0, n)); cell.set("length", rng.uniform(5.0, 40.0, n))
    cell.set("axial_resistivity", rng.uniform(500.0, 5000.0, n))
    cell.set("v", rng.uniform(-72.0, -55.0, n))
    where = enrich_cell(cell, rng, names)
    return cell, dict(parents=parents, ncomp=ncomp, channels=names, where=where)


def rich_network(rng, unbranched=False):
    ncells = int(rng.integers(2, 5))
    # one ncomp for all branches (what the jaxley.* backends and forward Euler need in a network) — or not
    k = int(rng.integers(1, 4)) if rng.random() < (0.75 if unbranched else 0.5) else None
    cells, descs = [], []
    for _ in range(ncells):
        c, d = rich_cell(rng, 3, 3, same_ncomp=k, unbranched=unbranched)
        cells.append(c); descs.append(d)
    net = jx.Network(cells)
    n = net.nodes.shape[0]
    cell_of = net.nodes["global_cell_index"].to_numpy()
    types = [str(x) for x in rng.choice(list(SYNS), size=int(rng.integers(1, 4)), replace=False)]
    nsyn = int(rng.integers(len(types), 9))
    seq = types + [str(rng.choice(types)) for _ in range(nsyn - len(types))]
    rng.shuffle(seq)                              # types interleaved in `.edges`
    edges = []
    fan_post = int(rng.integers(0, n))
    for j, t in enumerate(seq):
        pre = int(rng.integers(0, n))
        r = rng.random()
        if r < 0.25:                               # fan-in: several edges onto one compartment
            post = fan_post
        elif r < 0.45:                             # autapse: a compartment of the same cell (possibly the same compartment)
            post = int(rng.choice(np.where(cell_of == cell_of[pre])[0]))
        else:
            post = int(rng.integers(0, n))
        connect(net.select(nodes=[pre]), net.select(nodes=[post]), SYNS[t]())
        edges.append((pre, post, t))
    for s in net.synapses:
        rows = net.edges.index[net.edges["type"] == s._name].to_numpy()
        view = net.select(edges=rows)
        for kname, d in s.synapse_params.items():
            if kname.endswith("_gS") or kname.endswith("_gC"):
                view.set(kname, np.exp(rng.uniform(np.log(1e-5), np.log(1e-3), len(rows))))
            elif kname.endswith("_e_syn"):
                view.set(kname, rng.uniform(-80.0, 10.0, len(rows)))
            elif kname.endswith("_k_minus"):
                view.set(kname, rng.uniform(0.01, 0.1, len(rows)))
            elif kname.endswith("_x_offset"):
                view.set(kname, rng.uniform(-75.0, -55.0, len(rows)))
            elif kname.endswith("_slope"):
                view.set(kname, rng.uniform(0.05, 0.5, len(rows)))
        for kname in s.synapse_states:
            view.set(kname, rng.uniform(0.05, 0.9, len(rows)))
    return net, dict(cells=descs, edges=edges)


def add_inputs(mod, rng, nsteps):
    """several stimuli (two on one compartment), a voltage clamp, a clamp of a channel state, sometimes of a synaptic state"""
    n = mod.nodes.shape[0]
    mod.delete_stimuli(); mod.delete_clamps()
    info = dict(stim=[], clamp=[])
    T = int(nsteps + rng.integers(-3, 4)) if nsteps > 4 else nsteps       # `i` is padded / truncated by t_max
    nst = int(rng.integers(1, 4))
    comps = [int(rng.integers(0, n)) for _ in range(nst)]
    comps.append(comps[0])                                               # two stimuli on the same compartment
    for c in comps:
        s = np.zeros(T); a, b = sorted(int(x) for x in rng.integers(0, T, 2)); s[a:max(b, a + 1)] = float(rng.uniform(-0.3, 0.8))
        s += rng.uniform(-0.02, 0.02, T)
        mod.select(nodes=[c]).stimulate(jnp.asarray(s), verbose=False)
        info["stim"].append(c)
    if rng.random() < 0.7:
        c = int(rng.integers(0, n))
        mod.select(nodes=[c]).clamp("v", jnp.asarray(rng.uniform(-75.0, -40.0, nsteps + int(rng.integers(0, 3)))), verbose=False)
        info["clamp"].append(("v", c))
    cands = [(k, int(i)) for ch in mod.channels for k in ch.channel_states
             for i in np.where(mod.nodes[ch._name].to_numpy().astype(bool))[0]]
    if cands and rng.random() < 0.8:
        k, c = cands[int(rng.integers(0, len(cands)))]
        mod.select(nodes=[c]).clamp(k, jnp.asarray(rng.uniform(0.1, 0.9, nsteps)), verbose=False)
        info["clamp"].append((k, c))
    if isinstance(mod, jx.Network) and len(mod.edges) and rng.random() < 0.5:
        ecands = [(SYN_STATE[t], int(r)) for r, t in enumerate(mod.edges["type"].tolist()) if t in SYN_STATE]
        if ecands:
            k, e = ecands[int(rng.integers(0, len(ecands)))]
            mod.select(edges=[e]).clamp(k, jnp.asarray(rng.uniform(0.1, 0.9, nsteps)), verbose=False)
            info["clamp"].append((k, e))
    return info


def add_recordings(mod, rng):
    """v, channel states, membrane currents, synaptic states and currents — in scrambled order"""
    n = mod.nodes.shape[0]
    mod.delete_recordings()
    want = [("v", "n", int(i)) for i in rng.choice(n, size=min(n, int(rng.integers(1, 4))), replace=False)]
    for ch in mod.channels:
        has = np.where(mod.nodes[ch._name].to_numpy().astype(bool))[0]
        for k in ch.channel_states:
            if rng.random() < 0.6:
                want.append((k, "n", int(rng.choice(has))))
        if rng.random() < 0.4:
            want.append((ch.current_name, "n", int(rng.choice(has))))   # a view only knows the currents of ITS channels
    if isinstance(mod, jx.Network) and len(mod.edges):
        for r, t in enumerate(mod.edges["type"].tolist()):
            if t in SYN_STATE and rng.random() < 0.6:
                want.append((SYN_STATE[t], "e", r))
            if rng.random() < 0.3:
                want.append((f"i_{t}", "e", r))
    order = rng.permutation(len(want))
    for j in order:
        k, kind, i = want[j]
        view = mod.select(nodes=[i]) if kind == "n" else mod.select(edges=[i])
        view.record(k, verbose=False)
    return [want[j] for j in order]


def random_case(rng, kind=None, unbranched=False):
    kind = kind or str(rng.choice(["cell", "net", "net"]))
    if kind == "cell":
        mod, d = rich_cell(rng, unbranched=unbranched)
        d = dict(kind="cell", **d)
    elif kind == "simlib":
        mod, d = random_module(rng)                    # the generators of harness/simlib.py, unchanged
    else:
        mod, d = rich_network(rng, unbranched=unbranched)
        d = dict(kind="net", **d)
    nsteps = int(rng.integers(5, 41))
    dt = float(rng.choice([0.025, 0.01, 0.05]))
    d["inputs"] = add_inputs(mod, rng, nsteps)
    d["recordings"] = add_recordings(mod, rng)
    return mod, d, nsteps, dt


def main():
    ap = argparse.ArgumentParser()
    ap.add_argument("--seed", type=int, default=0)
    ap.add_argument("--n", type=int, default=20)
    ap.add_argument("--backends", default=",".join(SIM_BACKENDS))
    ap.add_argument("--solvers", default=",".join(SOLVERS))
    ap.add_argument("--out")
    a = ap.parse_args()
    drv = LeanDriver()
    rng = np.random.default_rng(a.seed)
    t0 = time.time()
    cases, fails, maxrel, refused = 0, [], 0.0, 0
    hist = {}
    for m in range(a.n):
        kind = ["cell", "net", "net", "simlib"][m % 4]
        unbranched = (m % 3 == 2)                       # modules on which forward Euler is defined
        mod, d, nsteps, dt = random_case(rng, kind, unbranched=unbranched and kind != "simlib")
        for solver in a.solvers.split(","):
            for backend in a.backends.split(","):
                r = compare(mod, drv, dt, solver, backend, nsteps)
                cases += 1
                key = f"{d['kind']}:{solver}:{backend}:{r['model']}"
                hist[key] = hist.get(key, 0) + 1
                if r["model"] != "ok":
                    refused += 1
                maxrel = max(maxrel, r.get("maxrel", 0.0))
                if not r["ok"]:
                    fails.append(dict(module=m, seed=a.seed, desc=d, result=r))
    out = dict(seed=a.seed, modules=a.n, cases=cases, refused_both=refused, max_relative_difference=maxrel,
               failures=fails, histogram=hist, driver_lines=drv.lines, wall_s=round(time.time() - t0, 1))
    js = json.dumps(out, indent=1, default=str)
    if a.out:
        open(a.out, "w").write(js)
    print(js)
    return 0 if not fails else 1


if __name__ == "__main__":
    sys.exit(main())


# ------------------------------------------------------------------------------------------------ used by the property checks

def check_simulates_tables(R, drv, mod, desc, solver="bwd_euler", backend="jax.sparse", dt=0.025, nsteps=None,
                           kind="module-does-not-simulate-its-tables"):
    """Spec predicate shared by C07/C08/C09/C12/C19: the recorded traces of `jx.integrate(mod)` equal those of the Lean model of a
    whole simulation (`Model/Sim.lean`) that is driven ONLY by the module's tables (nodes, edges, recordings, externals,
    branch structure).  Refusals must coincide.  Returns the comparison dict (None when the module could not be encoded)."""
    try:
        lens = [int(np.asarray(v).shape[1]) for v in mod.externals.values()]
        if nsteps is None:
            nsteps = min(lens) if lens else 5
        nsteps = int(max(2, min(nsteps, 14)))
        if not len(mod.recordings):
            mod.select(nodes=[0]).record("v", verbose=False)
        out = compare(mod, drv, dt, solver, backend, nsteps)
    except (KeyError, IndexError) as ex:      # e.g. dangling recordings of a deleted channel (known finding N13): not this predicate's business
        R.count("simmodel:not-encodable:" + type(ex).__name__)
        return None
    R.evaluations += 1
    # every module is a new shape: the compiled executables of `integrate` pile up in long (thorough) runs
    check_simulates_tables.calls = getattr(check_simulates_tables, "calls", 0) + 1
    if check_simulates_tables.calls % 8 == 0:
        jax.clear_caches()
    R.count(f"simmodel:{solver}:{backend}:{out['model']}")
    if out["model"] == "ok" and out["real"] == "ok":
        R.extra["simmodel_max_reldiff"] = max(R.extra.get("simmodel_max_reldiff", 0.0), float(out.get("maxrel", 0.0)))
    if not out["ok"]:
        R.spec_fail(dict(kind=kind), f"jx.integrate ({solver}, {backend}, {nsteps} steps) does not simulate the module's tables: "
                    f"model={out['model']} real={out['real']} {out.get('why')}", dict(desc, solver=solver, backend=backend, nsteps=nsteps, dt=dt),
                    out.get("why"))
    return out
