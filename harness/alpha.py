"""Abstraction function α : jaxley Module -> canonical abstract state (same text format as Driver/Ops.lean `canon`)."""
import math
import numpy as np
from common import f2b

INDEX_COLS = {"local_cell_index", "local_branch_index", "local_comp_index", "global_cell_index", "global_branch_index",
              "global_comp_index", "controlled_by_param"}
EDGE_META = {"global_edge_index", "pre_global_comp_index", "post_global_comp_index", "type", "type_ind", "pre_locs", "post_locs",
             "controlled_by_param", "local_edge_index"}


def bits(x):
    if x is None or (isinstance(x, float) and math.isnan(x)):
        return "nan"
    try:
        xf = float(x)
    except Exception:
        return "nan"
    return "nan" if math.isnan(xf) else str(f2b(xf))


def alpha(mod):
    nodes = mod.nodes
    chan_names = [c._name for c in mod.channels]
    cols = []
    for c in nodes.columns:
        if c in INDEX_COLS or c in chan_names:
            continue
        cols.append(c + ":" + ",".join(bits(v) for v in nodes[c].tolist()))
    flags = [c + ":" + "".join("1" if bool(v) else "0" for v in nodes[c].tolist()) for c in chan_names]
    edges = []
    ed = mod.edges
    for _, r in ed.iterrows():
        vals = sorted(f"{k}={bits(r[k])}" for k in ed.columns if k not in EDGE_META and bits(r[k]) != "nan")
        edges.append(f"{int(r['pre_global_comp_index'])}>{int(r['post_global_comp_index'])}:{r['type']}:{int(r['type_ind'])}:" + "&".join(vals))
    recs = [f"{int(i)}:{s}" for i, s in zip(mod.recordings.rec_index.tolist(), mod.recordings.state.tolist())] if len(mod.recordings) else []
    ext = []
    for k in mod.externals:
        inds = np.asarray(mod.external_inds[k]).astype(int).tolist()
        data = np.asarray(mod.externals[k], dtype=np.float64)
        ext.append(f"{k}:" + ",".join(map(str, inds)) + ":" + ";".join(",".join(str(f2b(x)) for x in row) for row in data))
    groups = [f"{g}:" + ",".join(str(int(i)) for i in v) for g, v in mod.groups.items()]
    train = []
    for p, inds in zip(mod.trainable_params, mod.indices_set_by_trainables):
        key = list(p.keys())[0]
        train.append(f"{key}:" + "/".join(",".join(str(int(i)) for i in row) for row in np.asarray(inds).tolist()))
    return (f"n={len(nodes)} cols={'|'.join(sorted(cols))} flags={'|'.join(sorted(flags))} chans={','.join(chan_names)} "
            f"cur={','.join(mod.membrane_current_names)} edges={'|'.join(edges)} syns={','.join(mod.synapse_names)} "
            f"recs={'|'.join(recs)} ext={'|'.join(sorted(ext))} groups={'|'.join(sorted(groups))} train={'|'.join(train)}")


def geom_of(mod):
    """initial column values (must be uniform) for the `ops` header"""
    out = []
    for c in mod.nodes.columns:
        if c in INDEX_COLS:
            continue
        vals = set(bits(v) for v in mod.nodes[c].tolist())
        assert len(vals) == 1, (c, vals)
        out.append(f"{c}:{vals.pop()}")
    return ",".join(out)


def chan_tokens(ch):
    P = ",".join(f"{k}:{f2b(v)}" for k, v in ch.channel_params.items()) or "-"
    S = ",".join(f"{k}:{f2b(v)}" for k, v in ch.channel_states.items()) or "-"
    return f"name={ch._name} cur={ch.current_name} P={P} S={S}"


def syn_tokens(s):
    P = ",".join(f"{k}:{f2b(v)}" for k, v in s.synapse_params.items()) or "-"
    S = ",".join(f"{k}:{f2b(v)}" for k, v in s.synapse_states.items()) or "-"
    return f"name={s._name} P={P} S={S}"
