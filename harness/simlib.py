"""Random ACTIVE modules (cells and networks with channels, synapses, recordings) for the time-axis properties
(C05, C06, C07, C08, C09, C10, C18, C19)."""
import numpy as np
from common import *

jax = setup_jax()
import jax.numpy as jnp
import jaxley as jx
from jaxley.channels import HH, Na, K, Km, CaL, CaT, Leak
from jaxley.synapses import IonotropicSynapse, TestSynapse, TanhRateSynapse
from jaxley.connect import connect

CHANS = dict(HH=HH, Na=Na, K=K, Km=Km, CaL=CaL, CaT=CaT, Leak=Leak)
SYNS = dict(IonotropicSynapse=IonotropicSynapse, TestSynapse=TestSynapse, TanhRateSynapse=TanhRateSynapse)
BACKENDS = ["jaxley.stone", "jaxley.thomas", "jax.sparse"]


def random_cell(rng, max_branches=3, max_ncomp=3, same_ncomp=None, channels=None):
    nb = int(rng.integers(1, max_branches + 1))
    ncomp = [same_ncomp or int(rng.integers(1, max_ncomp + 1)) for _ in range(nb)]
    parents = [-1] + [int(rng.integers(0, i)) for i in range(1, nb)]
    comp = jx.Compartment()
    cell = jx.Cell([jx.Branch([comp] * k) for k in ncomp], parents=parents)
    n = sum(ncomp)
    names = channels if channels is not None else list(rng.choice(["HH", "Na", "K", "Leak", "Km", "CaL", "CaT"], size=int(rng.integers(1, 4)), replace=False))
    if "Na" in names and "K" not in names and "HH" not in names:
        names.append("Leak") if "Leak" not in names else None
    for nm in names:
        cell.insert(CHANS[nm]())
    cell.set("radius", rng.uniform(0.5, 3.0, n)); cell.set("length", rng.uniform(5.0, 40.0, n))
    cell.set("axial_resistivity", rng.uniform(500.0, 5000.0, n))
    cell.set("v", rng.uniform(-72.0, -60.0, n))
    return cell, dict(parents=parents, ncomp=ncomp, channels=names)


def random_network(rng, ncells=None, same_shape=True, syn_types=None, nsyn=None):
    ncells = ncells or int(rng.integers(2, 4))
    k = int(rng.integers(1, 3))
    cells, descs = [], []
    first = None
    for _ in range(ncells):
        if same_shape and first is not None:
            comp = jx.Compartment()
            c = jx.Cell([jx.Branch([comp] * kk) for kk in first["ncomp"]], parents=first["parents"])
            for nm in first["channels"]:
                c.insert(CHANS[nm]())
            d = first
        else:
            c, d = random_cell(rng, 3, 3, same_ncomp=k, channels=["HH"])
            first = first or d
        cells.append(c); descs.append(d)
    net = jx.Network(cells)
    n = net.nodes.shape[0]
    net.set("radius", rng.uniform(0.5, 3.0, n)); net.set("length", rng.uniform(5.0, 40.0, n))
    net.set("v", rng.uniform(-72.0, -60.0, n))
    types = syn_types or list(rng.choice(list(SYNS), size=int(rng.integers(1, 3)), replace=False))
    nsyn = nsyn or int(rng.integers(1, 5))
    edges = []
    for _ in range(nsyn):
        t = str(rng.choice(types))
        pre, post = int(rng.integers(0, n)), int(rng.integers(0, n))
        connect(net.select(nodes=[pre]), net.select(nodes=[post]), SYNS[t]())
        edges.append((pre, post, t))
    for t in {e[2] for e in edges}:
        gk = {"IonotropicSynapse": "IonotropicSynapse_gS", "TestSynapse": "TestSynapse_gC", "TanhRateSynapse": "TanhRateSynapse_gS"}[t]
        rows = net.edges.index[net.edges["type"] == t].to_numpy()
        net.select(edges=rows).set(gk, np.exp(rng.uniform(np.log(1e-5), np.log(1e-3), len(rows))))
    return net, dict(cells=descs, edges=edges)


def random_module(rng, kind=None):
    kind = kind or str(rng.choice(["cell", "net"]))
    if kind == "cell":
        m, d = random_cell(rng)
        return m, dict(kind="cell", **d)
    m, d = random_network(rng)
    return m, dict(kind="net", **d)


def add_random_recordings(mod, rng, k=3):
    n = mod.nodes.shape[0]
    mod.delete_recordings()
    rows = rng.choice(n, size=min(k, n), replace=False)
    for r in rows:
        mod.select(nodes=[int(r)]).record("v", verbose=False)
    # one channel state if present
    for ch in mod.channels:
        if ch.channel_states:
            key = list(ch.channel_states)[0]
            has = mod.nodes.index[mod.nodes[ch._name].astype(bool)].to_numpy()
            if len(has):
                mod.select(nodes=[int(has[0])]).record(key, verbose=False)
                break
    return [int(r) for r in rows]


def stim_signal(rng, nsteps):
    amp = float(rng.uniform(0.05, 0.5))
    s = np.zeros(nsteps)
    a, b = sorted(rng.integers(0, nsteps, 2))
    s[a:max(b, a + 1)] = amp
    return s


def snapshot(mod):
    """deep, comparable snapshot of everything integrate must not change"""
    import pandas as pd

    def arr(x):
        return np.asarray(x).tolist() if x is not None else None
    snap = dict(nodes=mod.nodes.to_csv(), edges=mod.edges.to_csv(), recordings=mod.recordings.to_csv(),
                externals={k: arr(v) for k, v in mod.externals.items()}, external_inds={k: arr(v) for k, v in mod.external_inds.items()},
                trainable_params=[{k: arr(v) for k, v in p.items()} for p in mod.trainable_params],
                indices_set_by_trainables=[arr(i) for i in mod.indices_set_by_trainables],
                groups={k: arr(v) for k, v in getattr(mod, "groups", {}).items()} if isinstance(getattr(mod, "groups", {}), dict) else str(getattr(mod, "groups", None)),
                channels=[c._name for c in mod.channels], synapses=[s._name for s in getattr(mod, "synapses", [])])
    return snap
