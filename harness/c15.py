"""C15 harness: refinement ladders on the real code against closed-form cable theory.

 (a) units      : steady-state voltage of one compartment under constant current = E + I·100/(2π r l g)
 (b) time order : RC relaxation of one passive compartment, dt = dt0/2^k: backward Euler order 1, Crank–Nicolson order 2,
                  and errors below the PROVED bounds (Props/C15: n·h² resp. n·h³/2 on the decay factor)
 (c) space order: sealed uniform passive cable, ncomp = n0·2^k: steady-state input resistance (stimulated compartment) and
                  transfer resistance (far end) against the Green's function
                      G(x, x0) = R∞ · cosh(x_< /λ) · cosh((L − x_>)/λ) / sinh(L/λ),   λ = sqrt(r/(2 g ρ)),  R∞ = ρ λ /(π r²)
                  evaluated at the compartment centres: order 2
 all voltage-solver backends.
"""
import math, os
import numpy as np
from common import *
from cablelib import *


def passive_branch(ncomp, r, L, ra, cm, g, E, v0):
    b = jx.Branch([jx.Compartment()] * ncomp)
    b.insert(Leak())
    b.set("radius", r); b.set("length", L / ncomp); b.set("axial_resistivity", ra); b.set("capacitance", cm)
    b.set("Leak_gLeak", g); b.set("Leak_eLeak", E); b.set("v", v0)
    return b


def passive_cell(ncomps, parents, radii, lengths, ra, cm, g, E):
    """passive cell whose branch b has ncomps[b] equal compartments, radius radii[b] and total length lengths[b]"""
    comp = jx.Compartment()
    cell = jx.Cell([jx.Branch([comp] * k) for k in ncomps], parents=parents)
    cell.insert(Leak())
    for b, (k, rad, Lb) in enumerate(zip(ncomps, radii, lengths)):
        cell.branch(b).set("radius", rad); cell.branch(b).set("length", Lb / k)
    cell.set("axial_resistivity", ra); cell.set("capacitance", cm)
    cell.set("Leak_gLeak", g); cell.set("Leak_eLeak", E); cell.set("v", E)
    return cell


def simulate(mod, rec_nodes, stim_node, amp, nsteps, dt, solver, backend):
    mod.delete_recordings(); mod.delete_stimuli()
    mod.select(nodes=rec_nodes).record("v", verbose=False)
    mod.select(nodes=[stim_node]).stimulate(jnp.asarray(amp * np.ones(nsteps)), verbose=False)
    return np.asarray(jx.integrate(mod, delta_t=dt, solver=solver, voltage_solver=backend), dtype=np.float64)


def orders(errs):
    return [math.log2(errs[i] / errs[i + 1]) if errs[i + 1] > 0 and errs[i] > 0 else float("nan") for i in range(len(errs) - 1)]


def run(args):
    R = Result("C15")
    R.export_distinct = True
    if args.shard < 0:
        return run_sharded(os.path.abspath(__file__), args, 6 if args.tier == "quick" else 12, "C15")
    rng = np.random.default_rng([args.seed, args.shard, 15])
    backend = BACKENDS[args.shard % 3]
    R.rule = ("random passive parameters (r, L within 0.5–4 length constants, ρ, c, g, E); ladders dt0/2^k (k<=6) and ncomp n0·2^k (k<=5); "
              "backend per shard (all three covered); distinct = (experiment, parameters, backend); non-trivial = error above 1e-9")
    nrep = 1 if args.tier == "quick" else 3
    for rep in range(nrep):
        r = float(np.exp(rng.uniform(np.log(0.5), np.log(5)))); ra = float(rng.uniform(50, 500)); cm = float(rng.uniform(0.5, 2))
        g = float(np.exp(rng.uniform(np.log(5e-5), np.log(1e-3)))); E = float(rng.uniform(-80, -50))
        lam_cm = math.sqrt(r * 1e-4 / (2 * g * ra)); lam = lam_cm * 1e4    # µm
        par = dict(r=r, ra=ra, cm=cm, g=g, E=E, lambda_um=lam, backend=backend)
        kind = (args.shard // 3 + rep) % 2
        if kind == 0:
            # ---------------- (a)+(b) single compartment
            l = float(rng.uniform(5, 50)); v0 = E + float(rng.uniform(10, 30)); I = float(rng.uniform(0.01, 0.2))
            A = 2 * math.pi * r * l
            tau = cm / (1000 * g)
            comp = passive_branch(1, r, l, ra, cm, g, E, v0)
            # (a) steady state: backward Euler with a huge step
            rec = simulate(comp, [0], 0, I, 4, 1e7, "bwd_euler", backend)
            vss = E + I * 100 / (A * g)
            R.evaluations += 1; R.distinct.add(json.dumps(["steady", par]))
            if not close(float(rec[0, -1]), vss, rel=1e-6, abs_=1e-9):
                R.spec_fail(dict(kind="steady-state-units"), f"single compartment steady state {rec[0,-1]!r} vs E+I·100/(A·g) = {vss!r}", dict(I=I, l=l, **par), float(rec[0, -1]), expected=vss)
            # (b) relaxation to T = tau
            T = tau
            for solver, expo in (("bwd_euler", 1), ("crank_nicolson", 2)):
                errs, bounds = [], []
                ks = range(2, 8)
                for k in ks:
                    n = 2 ** k; dt = T / n
                    rec = simulate(comp, [0], 0, 0.0, n, dt, solver, backend)
                    exact = E + (v0 - E) * math.exp(-T / tau)
                    errs.append(abs(float(rec[0, -1]) - exact))
                    h = dt / tau
                    bounds.append(abs(v0 - E) * (n * h * h if solver == "bwd_euler" else n * h ** 3 / 2))
                    R.evaluations += 1
                od = orders(errs)
                R.distinct.add(json.dumps(["relax", solver, par]))
                R.count(f"time-ladder:{solver}")
                inp = dict(solver=solver, tau=tau, v0=v0, errs=errs, orders=od, **par)
                if not all(e <= b * (1 + 1e-6) + 1e-9 for e, b in zip(errs, bounds)):
                    R.spec_fail(dict(kind="time-error-exceeds-proved-bound", solver=solver), f"{solver}: error exceeds the proved bound", inp, errs, bounds=bounds)
                tail = [o for o, e in zip(od[-3:], errs[-3:]) if e > 1e-9]
                if tail and not all(o >= expo - 0.25 for o in tail):       # at least the expected order (faster pre-asymptotic decay is no violation)
                    R.spec_fail(dict(kind="time-order", solver=solver), f"{solver}: observed orders {od} expected {expo}", inp, od)
                if len(R.samples) < 3:
                    R.samples.append(dict(experiment="RC relaxation", solver=solver, errs=errs, orders=od))
        else:
            # ---------------- (c) sealed cable, steady state
            L = lam * float(rng.uniform(0.5, 3.0)); I = 0.1
            Rinf = ra * lam_cm / (math.pi * (r * 1e-4) ** 2)          # Ω
            errs_in, errs_tr = [], []
            n0 = 2 if rng.random() < 0.5 else 3
            ks = range(1, 6)
            for k in ks:
                N = n0 * 2 ** k
                cable = passive_branch(N, r, L, ra, cm, g, E, E)
                rec = simulate(cable, [0, N - 1], 0, I, 6, 1e7, "bwd_euler", backend)
                dx = L / N
                x0 = dx / 2; x1 = L - dx / 2
                G = lambda x, y: Rinf * math.cosh(min(x, y) / lam) * math.cosh((L - max(x, y)) / lam) / math.sinh(L / lam)
                # I nA * R Ω = 1e-9 V·… -> mV: 1e-9 * R * 1e3 = 1e-6 R
                v_in = E + I * 1e-6 * G(x0, x0); v_tr = E + I * 1e-6 * G(x1, x0)
                errs_in.append(abs(float(rec[0, -1]) - v_in) / abs(v_in - E)); errs_tr.append(abs(float(rec[1, -1]) - v_tr) / abs(v_tr - E))
                R.evaluations += 1
            R.distinct.add(json.dumps(["cable", par, L]))
            R.count("space-ladder")
            for name, errs in (("input", errs_in), ("transfer", errs_tr)):
                od = orders(errs)
                inp = dict(L=L, n0=n0, errs=errs, orders=od, **par)
                if errs[0] > 0.2:
                    R.spec_fail(dict(kind="cable-steady-state", what=name), f"{name} resistance off by {errs[0]:.3g} relative at N={n0*2}", inp, errs)
                tail = [o for o, e in zip(od[-3:], errs[-3:]) if e > 1e-8]
                if tail and not all(o >= 2 - 0.3 for o in tail):
                    R.spec_fail(dict(kind="space-order", what=name), f"{name} resistance: observed orders {od} expected 2", inp, od)
            # ---------------- (c') the same cable built from SEVERAL branches: a chain of n0 branches (2^k compartments each, i.e. ONE
            #      compartment per branch on the first rung) is the same discretisation as one branch: same steady state
            G = lambda x, y: Rinf * math.cosh(min(x, y) / lam) * math.cosh((L - max(x, y)) / lam) / math.sinh(L / lam)
            for k in (0, 1, 2):
                N = n0 * 2 ** k
                one = simulate(passive_branch(N, r, L, ra, cm, g, E, E), [0, N - 1], 0, I, 6, 1e7, "bwd_euler", backend)[:, -1]
                chain = simulate(passive_cell([2 ** k] * n0, [-1] + list(range(n0 - 1)), [r] * n0, [L / n0] * n0, ra, cm, g, E), [0, N - 1], 0, I, 6, 1e7, "bwd_euler", backend)[:, -1]
                R.evaluations += 1
                R.count("chain-of-branches")
                if not np.allclose(one - E, chain - E, rtol=1e-7, atol=1e-12):
                    R.spec_fail(dict(kind="chain-of-branches-differs-from-branch", comps_per_branch=2 ** k if k == 0 else "2+"),
                                f"{backend}: a cable of {n0} chained branches with {2 ** k} compartment(s) each deviates from the same cable as one branch: "
                                f"{(chain - E).tolist()} vs {(one - E).tolist()} mV above rest", dict(L=L, n0=n0, k=k, **par), (chain - E).tolist(), branch=(one - E).tolist())
            # ---------------- (c'') Rall's equivalent cylinder: parent + two daughters obeying the 3/2 rule, daughters discretised with
            #      DIFFERENT compartment counts (the coarser one listed first); input and transfer resistance converge at order 2
            rd = r * 2.0 ** (-2.0 / 3.0); lam_d = lam * 2.0 ** (-1.0 / 3.0)
            Lp = 0.4 * L; ell_d = (L - Lp) / lam; Ld = ell_d * lam_d
            e_in, e_tr = [], []
            for k in range(1, 5):
                ncs = [2 * 2 ** k, 1 * 2 ** k, 2 * 2 ** k]
                tree = passive_cell(ncs, [-1, 0, 0], [r, rd, rd], [Lp, Ld, Ld], ra, cm, g, E)
                last = sum(ncs) - 1
                rec = simulate(tree, [0, last], 0, I, 6, 1e7, "bwd_euler", backend)[:, -1]
                x0 = Lp / ncs[0] / 2; x1 = Lp + (Ld - Ld / ncs[2] / 2) * (lam / lam_d)
                v_in = E + I * 1e-6 * G(x0, x0); v_tr = E + I * 1e-6 * G(x1, x0)
                e_in.append(abs(float(rec[0]) - v_in) / abs(v_in - E)); e_tr.append(abs(float(rec[1]) - v_tr) / abs(v_tr - E))
                R.evaluations += 1
            R.count("rall-ladder")
            for name, errs in (("input", e_in), ("transfer", e_tr)):
                od = orders(errs)
                inp = dict(L=L, Lp=Lp, Ld=Ld, rd=rd, errs=errs, orders=od, **par)
                if errs[-1] > 0.05 or not (errs[-1] < errs[0]):
                    R.spec_fail(dict(kind="rall-tree-steady-state", what=name), f"{backend}: Rall tree (3/2 rule, daughters with different compartment counts): {name} resistance does not approach the equivalent cylinder: relative errors {errs}", inp, errs)
                tail = [o for o, e in zip(od[-2:], errs[-2:]) if e > 1e-8]
                if tail and not all(o >= 2 - 0.35 for o in tail):
                    R.spec_fail(dict(kind="space-order", what=name, geometry="rall-tree"), f"{backend}: Rall tree, {name} resistance: observed orders {od} expected 2", inp, od)
            if len(R.samples) < 3:
                R.samples.append(dict(experiment="sealed cable", L_over_lambda=L / lam, errs_input=errs_in, orders_input=orders(errs_in), errs_transfer=errs_tr))
    R.explanation = ("proved: amplification factors, local and global order bounds, cosine eigenmodes and their second-order eigenvalue error; "
                     "measured: the real code's refinement ladders against closed forms")
    R.assumptions = ["the limit for non-uniform / branched geometries is not proved", "ladders are finite (k <= 6)"]
    return R


def replay(args):
    R = Result("C15")
    f = json.load(open(args.replay))
    R.replay_result = dict(fails=True, note="re-run the check with the same VERIF_SEED to reproduce the ladder", input=f.get("input"))
    return R


if __name__ == "__main__":
    a = parse_args()
    r = replay(a) if a.mode == "replay" else run(a)
    r.write(a.out)
