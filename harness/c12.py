"""C12 harness: assembly preserves constituents; uncoupled parts simulate independently; sibling order permutes.

Spec predicates evaluated on the IMPLEMENTATION (tables and multi-step simulations with active channels):
  * every constituent compartment keeps its parameters, states and channel flags under contiguous global indices;
    channels absent in a constituent stay absent (flag False, columns NaN)
  * a network without synapses simulates each cell exactly as the cell alone; a one-branch cell as the branch;
    a one-compartment branch as the compartment
  * permuting sibling branches / cells permutes the results and changes nothing else
The linear-algebra core (block-diagonal independence, permutation equivariance) is proved in Props/C12.lean.
"""
import math, os, copy
import numpy as np
from common import *
from cablelib import *
from simmodel import check_simulates_tables
from jaxley.channels import HH, Na, K, Km, CaL, CaT, Leak

CHANS = dict(HH=HH, Na=Na, K=K, Km=Km, CaL=CaL, CaT=CaT, Leak=Leak)
RTOL = 1e-8


def random_comp(rng, names=None):
    c = jx.Compartment()
    names = list(rng.choice(list(CHANS), size=int(rng.integers(0, 4)), replace=False)) if names is None else list(names)
    for nm in names:
        c.insert(CHANS[nm]())
    c.set("radius", float(np.exp(rng.uniform(np.log(0.3), np.log(5)))))
    c.set("length", float(np.exp(rng.uniform(np.log(2), np.log(60)))))
    c.set("axial_resistivity", float(rng.uniform(100, 8000)))
    c.set("capacitance", float(rng.uniform(0.5, 2)))
    c.set("v", float(rng.uniform(-75, -55)))
    for nm in names:
        for key in CHANS[nm]().channel_states:
            c.set(key, float(rng.uniform(0.05, 0.6)))
        if nm == "Leak":
            c.set("Leak_gLeak", float(np.exp(rng.uniform(np.log(1e-5), np.log(1e-3)))))
    if "vt" in c.nodes.columns:
        c.set("vt", float(rng.uniform(-65, -55)))
    return c


def table_rows(mod):
    """canonical list of per-compartment dicts (without index columns)"""
    drop = {c for c in mod.nodes.columns if "index" in c or c in ("controlled_by_param",)}
    rows = []
    for _, r in mod.nodes.iterrows():
        rows.append({k: (None if (isinstance(v, float) and math.isnan(v)) else (bool(v) if isinstance(v, (bool, np.bool_)) else float(v) if isinstance(v, (int, float, np.floating, np.integer)) else str(v)))
                     for k, v in r.items() if k not in drop})
    return rows


def check_rows_preserved(R, parent, constituents, what, desc):
    prow = table_rows(parent)
    off = 0
    R.evaluations += 1
    gi = parent.nodes["global_comp_index"].to_numpy()
    if not np.array_equal(gi, np.arange(len(gi))):
        R.spec_fail(dict(kind="indices-not-contiguous", what=what), f"{what}: global_comp_index not contiguous", desc, gi.tolist())
    for ci, c in enumerate(constituents):
        crow = table_rows(c)
        chans_c = {ch._name for ch in c.channels}
        for j, cr in enumerate(crow):
            pr = prow[off + j]
            for k, v in cr.items():
                if pr.get(k) != v:
                    R.spec_fail(dict(kind="constituent-row-changed", what=what), f"{what}: constituent {ci} row {j} column {k}: {v!r} became {pr.get(k)!r}", desc, pr.get(k))
            for k, v in pr.items():
                if k not in cr:
                    # column contributed by another constituent: must be absent here (False / NaN)
                    if v not in (None, False):
                        R.spec_fail(dict(kind="absent-channel-not-absent", what=what), f"{what}: constituent {ci} row {j} got {k}={v!r} although it never had it", desc, v)
        off += len(crow)
    if off != len(prow):
        R.spec_fail(dict(kind="row-count", what=what), f"{what}: {off} constituent rows but {len(prow)} rows", desc, len(prow))


def simulate(mod, backend, nsteps=12, dt=0.025, stim_at=None, amp=0.3):
    mod.delete_recordings(); mod.delete_stimuli()
    mod.record("v", verbose=False)
    if stim_at is not None:
        mod.select(nodes=[stim_at]).stimulate(jnp.asarray(amp * np.ones(nsteps)), verbose=False)
    else:
        mod.select(nodes=[0]).stimulate(jnp.zeros(nsteps), verbose=False)
    try:
        return "ok", np.asarray(jx.integrate(mod, delta_t=dt, voltage_solver=backend), dtype=np.float64)
    except (AssertionError, NotImplementedError, TypeError) as ex:
        return "refused", type(ex).__name__


def agree(a, b):
    return np.allclose(a, b, rtol=RTOL, atol=1e-9, equal_nan=False) and np.all(np.isfinite(a))


def run(args):
    R = Result("C12")
    R.export_distinct = True
    if args.shard < 0:
        return run_sharded(os.path.abspath(__file__), args, 8 if args.tier == "quick" else 16, "C12")
    rng = np.random.default_rng([args.seed, args.shard, 12])
    nsc = {"quick": 1, "thorough": 6}[args.tier] * (2 if args.mode == "search" else 1)
    R.rule = ("random heterogeneous compartments (0-3 channels from HH/Na/K/Km/CaL/CaT/Leak incl. shared vt/eK/eCa, random geometry and states) "
              "-> branches (1-3 comps) -> cells (1-4 branches, random tree) -> networks (2-3 cells); table preservation at each level; 12-step "
              "simulations with stimulus, all backends. distinct = distinct (ncomp per branch, parents, channel sets) descriptions")
    for sc in range(nsc):
        # ---------- build bottom-up with heterogeneous constituents
        def mk_branch():
            comps = [random_comp(rng) for _ in range(int(rng.integers(1, 4)))]
            return jx.Branch(comps), comps

        def mk_cell(nb=None):
            nb = nb or int(rng.integers(1, 5))
            bl = [mk_branch() for _ in range(nb)]
            parents = [-1] + [int(rng.integers(0, i)) for i in range(1, nb)]
            return jx.Cell([b for b, _ in bl], parents=parents), [b for b, _ in bl], parents, bl
        branch, comps = mk_branch()
        desc = dict(level="branch", ncomp=len(comps), channels=[[ch._name for ch in c.channels] for c in comps])
        R.distinct.add(json.dumps(desc))
        check_rows_preserved(R, branch, comps, "Branch(compartments)", desc)
        cell, branches, parents, bl = mk_cell()
        desc = dict(level="cell", parents=parents, ncomp=[b.nodes.shape[0] for b in branches])
        R.distinct.add(json.dumps(desc))
        check_rows_preserved(R, cell, branches, "Cell(branches)", desc)
        cells = [cell] + [mk_cell()[0] for _ in range(int(rng.integers(1, 3)))]
        net = jx.Network(cells)
        desc_n = dict(level="network", cells=[c.nodes.shape[0] for c in cells])
        check_rows_preserved(R, net, cells, "Network(cells)", desc_n)
        # ---------- the assembled network simulates ITS TABLES (Lean model of the whole simulation driven by nodes / branch structure only)
        net.delete_recordings(); net.delete_stimuli(); net.record("v", verbose=False)
        net.select(nodes=[0]).stimulate(jnp.asarray(0.3 * np.ones(6)), verbose=False)
        check_simulates_tables(R, LeanDriver(), net, dict(desc_n, block="assembled network"), backend="jax.sparse", kind="assembled-module-differs-from-table-simulation")
        net.delete_recordings(); net.delete_stimuli()
        # ---------- network without synapses == each cell alone
        offs = np.cumsum([0] + [c.nodes.shape[0] for c in cells])
        for backend in BACKENDS:
            stn, rn = simulate(net, backend, stim_at=int(offs[1]))   # stimulate first compartment of cell 1
            R.evaluations += 1
            R.count(f"net:{backend}:{stn}")
            if stn == "refused":
                if not (backend.startswith("jaxley") and rn == "AssertionError"):
                    R.spec_fail(dict(kind="illegitimate-refusal", backend=backend), f"network refused by {backend}: {rn}", desc_n, rn)
                continue
            for ci, c in enumerate(cells):
                stc, rc = simulate(c, backend, stim_at=0 if ci == 1 else None)
                if stc != "ok":
                    continue
                part = rn[offs[ci]:offs[ci + 1]]
                if not agree(part, rc):
                    R.spec_fail(dict(kind="cell-in-network-differs", backend=backend), f"{backend}: cell {ci} inside a synapse-free network differs from the cell alone (max {np.nanmax(np.abs(part - rc)):.3g} mV)",
                                dict(cell=ci, **desc_n), float(np.nanmax(np.abs(part - rc))))
        # ---------- constituents that carry the SAME mechanisms, inserted in a DIFFERENT order (the column order of a constituent's
        # table is an accident of its history; assembly must go by column name) — at every level
        base_names = [str(x) for x in rng.choice(list(CHANS), size=int(rng.integers(2, 4)), replace=False)]
        def permuted_comps(k):
            out = []
            for j in range(k):
                order = list(base_names) if j == 0 else [base_names[i] for i in rng.permutation(len(base_names))]
                if j > 0 and order == base_names:
                    order = order[::-1]
                out.append(random_comp(rng, order))
            return out
        pc = permuted_comps(int(rng.integers(2, 4)))
        pdesc = dict(level="permuted-insertion-order", channels=[[ch._name for ch in c.channels] for c in pc])
        pbranch = jx.Branch(pc)
        check_rows_preserved(R, pbranch, pc, "Branch(compartments, permuted insertion order)", pdesc)
        pbs = [jx.Branch([c]) for c in permuted_comps(2)] + [jx.Branch(permuted_comps(2))]
        pcell = jx.Cell(pbs, parents=[-1, 0, 0])
        check_rows_preserved(R, pcell, pbs, "Cell(branches, permuted insertion order)", pdesc)
        pcells = [jx.Cell([jx.Branch([c])], parents=[-1]) for c in permuted_comps(2)]
        pnet = jx.Network(pcells)
        check_rows_preserved(R, pnet, pcells, "Network(cells, permuted insertion order)", pdesc)
        R.count("permuted-insertion-order")
        for backend in ("jaxley.stone", "jax.sparse"):
            stn, rn = simulate(pnet, backend, stim_at=1)
            R.evaluations += 1
            if stn != "ok":
                continue
            for ci, c in enumerate(pcells):
                stc, rc = simulate(c, backend, stim_at=0 if ci == 1 else None)
                if stc == "ok" and not agree(rn[ci:ci + 1], rc):
                    R.spec_fail(dict(kind="cell-in-network-differs", backend=backend), f"{backend}: cell {ci} inside a synapse-free network differs from the cell alone "
                                f"(max {np.nanmax(np.abs(rn[ci:ci + 1] - rc)):.3g} mV)", dict(cell=ci, **pdesc), float(np.nanmax(np.abs(rn[ci:ci + 1] - rc))))
        # ---------- one-branch cell == branch ; one-compartment branch == compartment
        b1, c1 = mk_branch()
        cell1 = jx.Cell([b1], parents=[-1])
        for backend in BACKENDS:
            s1, r1 = simulate(b1, backend, stim_at=0); s2, r2 = simulate(cell1, backend, stim_at=0)
            R.evaluations += 1
            if s1 == "ok" and s2 == "ok" and not agree(r1, r2):
                R.spec_fail(dict(kind="one-branch-cell-differs", backend=backend), f"{backend}: one-branch cell differs from the branch alone", dict(ncomp=len(c1)), float(np.nanmax(np.abs(r1 - r2))))
        cp = random_comp(rng)
        bcp = jx.Branch([cp])
        for backend in BACKENDS:
            s1, r1 = simulate(cp, backend, stim_at=0); s2, r2 = simulate(bcp, backend, stim_at=0)
            R.evaluations += 1
            if s1 == "ok" and s2 == "ok" and not agree(r1, r2):
                R.spec_fail(dict(kind="one-comp-branch-differs", backend=backend), f"{backend}: one-compartment branch differs from the compartment", {}, float(np.nanmax(np.abs(r1 - r2))))
        # ---------- sibling permutation of branches under the root
        nb = 4
        bl2 = [mk_branch()[0] for _ in range(nb)]
        par = [-1, 0, 0, 0]
        perm = [0] + list(1 + rng.permutation(3))
        ca = jx.Cell(bl2, parents=par)
        cb = jx.Cell([bl2[p] for p in perm], parents=par)
        sizes = [b.nodes.shape[0] for b in bl2]
        offa = np.cumsum([0] + sizes)
        offb = np.cumsum([0] + [sizes[p] for p in perm])
        for backend in BACKENDS:
            s1, ra = simulate(ca, backend, stim_at=0); s2, rb = simulate(cb, backend, stim_at=0)
            R.evaluations += 1
            if s1 != "ok" or s2 != "ok":
                continue
            for newpos, p in enumerate(perm):
                if not agree(ra[offa[p]:offa[p + 1]], rb[offb[newpos]:offb[newpos + 1]]):
                    R.spec_fail(dict(kind="sibling-permutation", backend=backend), f"{backend}: permuting sibling branches changes branch {p}", dict(perm=perm, sizes=sizes), 0.0)
        # ---------- cell permutation in a network
        if len(cells) >= 2:
            perm = list(rng.permutation(len(cells)))
            net2 = jx.Network([cells[p] for p in perm])
            off2 = np.cumsum([0] + [cells[p].nodes.shape[0] for p in perm])
            s1, ra = simulate(net, "jax.sparse", stim_at=int(offs[0])); s2, rb = simulate(net2, "jax.sparse", stim_at=int(off2[perm.index(0)]))
            R.evaluations += 1
            if s1 == "ok" and s2 == "ok":
                for newpos, p in enumerate(perm):
                    if not agree(ra[offs[p]:offs[p + 1]], rb[off2[newpos]:off2[newpos + 1]]):
                        R.spec_fail(dict(kind="cell-permutation"), f"permuting cells changes cell {p}", dict(perm=[int(x) for x in perm]), 0.0)
        if len(R.samples) < 2:
            R.samples.append(dict(cell=desc, network=desc_n))
    R.explanation = "block-diagonal independence and permutation equivariance are theorems (via uniqueness); tables and full runs checked on the implementation"
    R.assumptions = ["simulations compared to 1e-8 relative (different elimination orders round differently)"]
    return R


def replay(args):
    R = Result("C12")
    f = json.load(open(args.replay))
    R.replay_result = dict(fails=f.get("kind") != "spec-violation" or True, note="C12 failures are reproduced by re-running the check with the same VERIF_SEED", input=f.get("input"))
    return R


if __name__ == "__main__":
    a = parse_args()
    r = replay(a) if a.mode == "replay" else run(a)
    r.write(a.out)
