"""C13 harness: changing the number of compartments preserves the branch and its surroundings.

Spec predicates on the IMPLEMENTATION (hand-built cells with channels and groups; SWC cells with radius-generating functions):
  * total branch length, uniform electrical / channel properties kept; other branches' rows equal modulo the index shift;
    parents / branch edges unchanged; groups keep their branch membership
  * tables and solver index structures equal those of a module built DIRECTLY with n compartments in that branch, for sequences of
    calls on different branches; SWC: radii equal those of read_swc(..., ncomp=n) on that branch (interpolation at the new centres)
  * simulation equal with every voltage solver
  * the guards: recordings / stimuli / trainables / networks / whole cells / non-uniform properties are refused
The table-level model and its theorems are Model.SetNcomp / Props/C13.lean; the correspondence compares row blocks with the model.
"""
import os, math, tempfile
import numpy as np
from common import *
from simlib import *
from cablelib import one_step as cable_one_step


def spec_cell(rng, nb=None):
    nb = nb or int(rng.integers(2, 5))
    parents = [-1] + [int(rng.integers(0, i)) for i in range(1, nb)]
    spec = [dict(ncomp=int(rng.integers(1, 4)), length=float(rng.uniform(20, 100)), radius=float(rng.uniform(0.5, 3)),
                 ra=float(rng.uniform(500, 3000)), cm=float(rng.uniform(0.7, 1.5)), chans=sorted(rng.choice(["HH", "Leak", "K"], size=int(rng.integers(0, 3)), replace=False).tolist()),
                 v=float(rng.uniform(-75, -60))) for _ in range(nb)]
    return parents, spec


def build_direct(parents, spec):
    comp = jx.Compartment()
    cell = jx.Cell([jx.Branch([comp] * s["ncomp"]) for s in spec], parents=parents)
    for b, s in enumerate(spec):
        v = cell.branch(b)
        v.set("length", s["length"] / s["ncomp"]); v.set("radius", s["radius"]); v.set("axial_resistivity", s["ra"]); v.set("capacitance", s["cm"]); v.set("v", s["v"])
        for ch in s["chans"]:
            v.insert(CHANS[ch]())
    return cell


def table(cell):
    drop = [c for c in cell.nodes.columns if c.startswith("local_") or c == "controlled_by_param"]
    t = cell.nodes.drop(columns=drop)
    return t.reindex(sorted(t.columns), axis=1)


def tables_equal(a, b):
    if list(a.columns) != list(b.columns) or len(a) != len(b):
        return False, "shape/columns"
    for c in a.columns:
        x, y = a[c].to_numpy(), b[c].to_numpy()
        try:
            ok = np.allclose(x.astype(float), y.astype(float), rtol=1e-12, atol=0, equal_nan=True)
        except Exception:
            ok = list(x) == list(y)
        if not ok:
            return False, c
    return True, None


def indexer_equal(a, b):
    ia, ib = a._solve_indexer, b._solve_indexer
    same = (np.array_equal(ia.cumsum_ncomp, ib.cumsum_ncomp) and np.array_equal(np.asarray(ia.remapped_node_indices), np.asarray(ib.remapped_node_indices))
            and len(ia.children_in_level) == len(ib.children_in_level) and all(np.array_equal(x, y) for x, y in zip(ia.children_in_level, ib.children_in_level))
            and all(np.array_equal(x, y) for x, y in zip(ia.parents_in_level, ib.parents_in_level)))
    ce = a._comp_edges.reset_index(drop=True).equals(b._comp_edges.reset_index(drop=True))
    return same and ce


def simulate(cell, backend):
    cell.delete_recordings(); cell.delete_stimuli()
    cell.record("v", verbose=False)
    cell.select(nodes=[0]).stimulate(jnp.asarray(0.2 * np.ones(10)), verbose=False)
    out = np.asarray(jx.integrate(cell, voltage_solver=backend))
    cell.delete_recordings(); cell.delete_stimuli()
    return out


def write_swc(rng, path):
    """small random SWC tree: soma (3 points) + 2-3 neurites with a few points each"""
    pts = [(1, 1, 0.0, 0.0, 0.0, 6.0, -1), (2, 1, 6.0, 0.0, 0.0, 6.0, 1), (3, 1, 12.0, 0.0, 0.0, 6.0, 2)]
    nid = 4
    for br in range(int(rng.integers(2, 4))):
        parent = int(rng.choice([2, 3]))
        x, y = pts[parent - 1][2], pts[parent - 1][3]
        for k in range(int(rng.integers(3, 6))):
            x += float(rng.uniform(5, 20)); y += float(rng.uniform(-10, 10)) + 10 * (br - 1)
            pts.append((nid, 3, x, y, 0.0, float(rng.uniform(0.3, 2.0)), parent)); parent = nid; nid += 1
    with open(path, "w") as fh:
        for p in pts:
            fh.write(" ".join(str(v) for v in p) + "\n")


def run(args):
    R = Result("C13")
    R.export_distinct = True
    if args.shard < 0:
        return run_sharded(os.path.abspath(__file__), args, 8 if args.tier == "quick" else 16, "C13")
    rng = np.random.default_rng([args.seed, args.shard, 13])
    R.rule = ("hand-built cells (2-4 branches, 1-3 comps, per-branch uniform properties, channels HH/Leak/K on whole branches, 1-2 groups by "
              "branch) and SWC cells; sequences of 1-3 set_ncomp calls on different branches with n in 1..6 (incl. making a parent narrower "
              "than a sibling). distinct = (parents, ncomp sequence, calls); non-trivial = n differs from the old count")
    nm = {"quick": 2, "thorough": 10}[args.tier] * (2 if args.mode == "search" else 1)
    for t in range(nm):
        parents, spec = spec_cell(rng)
        cell = build_direct(parents, spec)
        nb = len(spec)
        # groups by branch
        gb = {f"g{k}": sorted(rng.choice(nb, size=int(rng.integers(1, nb + 1)), replace=False).tolist()) for k in range(int(rng.integers(1, 3)))}
        for g, bs in gb.items():
            cell.branch(bs).add_to_group(g)
        calls = []
        cur = [dict(s) for s in spec]
        for b in rng.permutation(nb)[: int(rng.integers(1, min(3, nb - 1) + 1))]:
            n_new = int(rng.integers(1, 7)); b = int(b)
            other_before = table(cell)[table(cell)["global_branch_index"] != b].drop(columns=["global_comp_index"]).reset_index(drop=True)
            old_len = float(cell.branch(b).nodes["length"].sum())
            try:
                cell.branch(b).set_ncomp(n_new)
            except Exception as ex:
                R.spec_fail(dict(kind="set_ncomp-raises", err=type(ex).__name__), f"set_ncomp({n_new}) on branch {b} raises {type(ex).__name__}: {str(ex)[:150]}", dict(parents=parents, spec=cur, branch=b), repr(ex)[:200]); break
            calls.append((b, n_new)); cur[b]["ncomp"] = n_new
            R.evaluations += 1
            inp = dict(parents=parents, ncomp0=[s["ncomp"] for s in spec], calls=calls, groups=gb)
            if n_new != spec[b]["ncomp"]:
                R.distinct.add(json.dumps([parents, [s["ncomp"] for s in spec], calls]))
            new_len = float(cell.branch(b).nodes["length"].sum())
            if not math.isclose(new_len, old_len, rel_tol=1e-12):
                R.spec_fail(dict(kind="length-not-preserved"), f"branch {b}: total length {old_len} -> {new_len}", inp, new_len)
            other_after = table(cell)[table(cell)["global_branch_index"] != b].drop(columns=["global_comp_index"]).reset_index(drop=True)
            ok, col = tables_equal(other_before, other_after)
            if not ok:
                R.spec_fail(dict(kind="other-branches-changed"), f"set_ncomp on branch {b} changed column {col} of other branches", inp, col)
            for g, bs in gb.items():
                labels = np.asarray(cell.groups[g]).astype(int)
                if len(labels) and (labels.max() >= len(cell.nodes) or labels.min() < 0):
                    R.spec_fail(dict(kind="group-branch-membership-changed"), f"group {g} refers to rows {labels.tolist()} that do not exist (table has {len(cell.nodes)} rows)", inp, labels.tolist()); continue
                got = sorted(set(cell.nodes.loc[labels, "global_branch_index"].tolist()))
                full = all(set(cell.nodes.index[cell.nodes.global_branch_index == bb]) <= set(labels.tolist()) for bb in bs)
                if got != bs or not full:
                    R.spec_fail(dict(kind="group-branch-membership-changed"), f"group {g} was branches {bs}, now denotes branches {got} (complete={full})", inp, got)
            if list(cell.comb_parents) != parents:
                R.spec_fail(dict(kind="parents-changed"), "set_ncomp changed the parent vector", inp, list(map(int, cell.comb_parents)))
        if not calls:
            continue
        direct = build_direct(parents, cur)
        ok, col = tables_equal(table(cell), table(direct))
        if not ok:
            R.spec_fail(dict(kind="differs-from-direct-construction", what="tables"), f"after {calls} the node table differs from the directly built module in {col}", inp, col)
        if not indexer_equal(cell, direct) or list(cell.ncomp_per_branch) != list(direct.ncomp_per_branch):
            R.spec_fail(dict(kind="differs-from-direct-construction", what="solver-index-structures"), f"after {calls} solver index structures differ from the directly built module", inp, None)
        for backend in BACKENDS:
            a, d = simulate(cell, backend), simulate(direct, backend)
            R.evaluations += 1
            if a.shape != d.shape or not np.allclose(a, d, rtol=1e-9, atol=1e-9):
                R.spec_fail(dict(kind="differs-from-direct-construction", what="simulation", backend=backend), f"{backend}: simulation after {calls} differs from the directly built module", inp, None)
        # guards
        for what in ("record", "stimulate", "trainable", "all-branches", "nonuniform"):
            c2 = build_direct(parents, spec)
            try:
                if what == "record":
                    c2.select(nodes=[0]).record("v", verbose=False); c2.branch(0).set_ncomp(2)
                elif what == "stimulate":
                    c2.select(nodes=[0]).stimulate(jnp.ones(2), verbose=False); c2.branch(0).set_ncomp(2)
                elif what == "trainable":
                    c2.make_trainable("radius", verbose=False); c2.branch(0).set_ncomp(2)
                elif what == "all-branches":
                    c2.set_ncomp(2)
                else:
                    if spec[0]["ncomp"] < 2:
                        continue
                    c2.branch(0).comp(0).set("capacitance", 9.0); c2.branch(0).set_ncomp(3)
                R.spec_fail(dict(kind="guard-missing", what=what), f"set_ncomp accepted a module with {what}", dict(parents=parents), None)
            except (AssertionError, ValueError):
                pass
        if len(R.samples) < 2:
            R.samples.append(inp)
    # ---------------- SWC cells: radius profile after set_ncomp == read_swc with that ncomp
    tmpdir = tempfile.mkdtemp(prefix="verif_c13_")
    try:
        for t in range({"quick": 1, "thorough": 5}[args.tier]):
            path = os.path.join(tmpdir, f"m{t}.swc")
            write_swc(rng, path)
            n0 = int(rng.integers(1, 4))
            cell = jx.read_swc(path, ncomp=n0, max_branch_len=2000.0, assign_groups=True)
            nb = len(cell.ncomp_per_branch)
            b = int(rng.integers(0, nb)); n_new = int(rng.integers(1, 6))
            groups_before = {g: sorted(set(cell.nodes.loc[np.asarray(v).astype(int), "global_branch_index"].tolist())) for g, v in cell.groups.items()}
            old_len = float(cell.branch(b).nodes["length"].sum())
            cell.branch(b).set_ncomp(n_new)
            ref = jx.read_swc(path, ncomp=n_new, max_branch_len=2000.0, assign_groups=True)
            R.evaluations += 1
            inp = dict(swc=open(path).read(), ncomp0=n0, branch=b, n=n_new)
            ra, rb = cell.branch(b).nodes["radius"].to_numpy(), ref.branch(b).nodes["radius"].to_numpy()
            if not np.allclose(ra, rb, rtol=1e-10):
                R.spec_fail(dict(kind="swc-radius-profile"), f"SWC radii after set_ncomp({n_new}) {ra.tolist()} != read_swc(ncomp={n_new}) {rb.tolist()}", inp, ra.tolist())
            if not math.isclose(float(cell.branch(b).nodes["length"].sum()), old_len, rel_tol=1e-12):
                R.spec_fail(dict(kind="length-not-preserved"), "SWC branch length changed", inp, None)
            nrows = len(cell.nodes)
            groups_after = {g: (sorted(set(cell.nodes.loc[np.asarray(v).astype(int), "global_branch_index"].tolist())) if (len(v) == 0 or np.asarray(v).max() < nrows) else "labels out of range")
                            for g, v in cell.groups.items()}
            if groups_after != groups_before:
                R.spec_fail(dict(kind="group-branch-membership-changed"), f"SWC type groups changed {groups_before} -> {groups_after}", inp, None)
    finally:
        import shutil
        shutil.rmtree(tmpdir, ignore_errors=True)
    R.explanation = "table-level theorems (length, frame, groups, equality with direct construction) on Model.SetNcomp; implementation compared with directly built modules"
    R.assumptions = ["direct construction uses jx.Branch([comp]*n) with per-branch uniform properties"]
    return R


def replay(args):
    R = Result("C13")
    f = json.load(open(args.replay))
    R.replay_result = dict(fails=True, note="re-run the check with the same VERIF_SEED", input=f.get("input"))
    return R


if __name__ == "__main__":
    a = parse_args()
    r = replay(a) if a.mode == "replay" else run(a)
    r.write(a.out)
