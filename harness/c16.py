"""C16 harness: SWC import preserves the traced morphology.

correspondence : the executable Lean model of the reader (`Model.Swc`, mirrors `_split_into_branches`, `_split_long_branches`,
                 `_build_parents`, `_compute_pathlengths`, the radius functions, `build_radiuses_from_xyzr`, `read_swc`) vs the REAL
                 `swc_to_jaxley` / `read_swc` on seeded random well-formed SWC trees: parents, branch point lists, per-branch lengths
                 (1e-12), per-compartment radii and lengths (1e-10), type groups
spec predicate : on the IMPLEMENTATION, against the independent `Spec.Swc` evaluated by the Lean driver: one branch per unbranched
                 same-type section with the file's connectivity, section lengths under the documented conventions, section types;
                 plus: total length and parents do not depend on ncomp; every compartment radius lies between the extreme traced
                 radii of its branch (or is the min_radius clip); type groups partition the branches
The generator and the comparison are harness/swc_diff.py (written with the model).
"""
import os, shutil, tempfile, warnings, math
import numpy as np
from common import *
import swc_diff as sd
from swc_diff import gen_tree, write_swc, run_python, lean_line, parse_lean, relclose, swcmod

warnings.simplefilter("ignore")
import jaxley as jx


def soma_not_contiguous(rows):
    """root is a soma point, the 2nd line is not, but another child of the root is (known finding D2)"""
    types = {i: ty for (i, ty, *_r) in rows}
    root = rows[0]
    return root[1] == 1 and rows[1][1] != 1 and any(r[6] == root[0] and r[1] == 1 for r in rows[2:])


def run(args):
    R = Result("C16")
    rng = np.random.default_rng([args.seed, 0x5C])
    drv = LeanDriver()
    n = {"quick": 60, "thorough": 900}[args.tier] * (3 if args.mode == "search" else 1)
    R.rule = ("seeded random well-formed SWC trees (branch points with 2-3 children, 1-5 points per section, types 1-6, single- and multi-"
              "point somata, neurites leaving any soma point, zero-length segments, type changes mid-path) x ncomp 1..5 x max_branch_len "
              "{None, forcing splits} x min_radius {None, 0.5}. distinct = distinct files; non-trivial = >= 3 branches")
    tmp = tempfile.mkdtemp(prefix="verif_c16_")
    try:
        jobs = []
        for t in range(n):
            long = t % 7 == 3
            rows, meta = gen_tree(rng, long=long)
            path = os.path.join(tmp, f"case{t}.swc")
            write_swc(path, rows)
            content = np.loadtxt(path)
            ncomp = int(rng.integers(1, 6))
            minr = None if rng.random() < 0.5 else 0.5
            mbl = None
            if rng.random() < 0.3 or long:
                try:
                    base = swcmod.swc_to_jaxley(path, max_branch_len=None)[1]
                    # one third of the split cases ask for so many pieces that the reader's cap of 10 pieces per section is reached
                    mbl = float(np.round(max(base) * (rng.uniform(0.25, 0.95) if (rng.random() < 0.65 and not long) else rng.uniform(0.03, 0.12)), 3))
                except Exception:
                    mbl = 10.0
            try:
                py = run_python(path, ncomp, mbl, minr)
            except Exception as ex:
                py = ex
            jobs.append((t, path, rows, meta, content, ncomp, mbl, minr, py))
        outs = drv.batch([lean_line(j[4], j[5], j[6], j[7]) for j in jobs])
        for (t, path, rows, meta, content, ncomp, mbl, minr, py), out in zip(jobs, outs):
            R.evaluations += 1
            swc_text = "".join(f"{i} {ty} {x} {y} {z} {r} {p}\n" for (i, ty, x, y, z, r, p) in rows)
            inp = dict(swc=swc_text, ncomp=ncomp, max_branch_len=mbl, min_radius=minr)
            ln = parse_lean(out)
            if out.startswith("bad-op"):
                R.disagree("driver-error", input=inp, out=out[:100]); continue
            if isinstance(py, Exception) or ln is None:
                if isinstance(py, Exception) and ln is None:
                    R.count(f"reader-raises:{type(py).__name__}:{'split' if mbl is not None else 'nosplit'}")
                    if mbl is not None:
                        R.spec_fail(dict(kind="reader-raises-with-max_branch_len"), f"read_swc(max_branch_len={mbl}) raises {type(py).__name__}: {str(py)[:120]}", inp, repr(py)[:200])
                    else:
                        R.spec_fail(dict(kind="reader-raises", err=type(py).__name__), f"read_swc raises {type(py).__name__} on a well-formed file: {str(py)[:120]}", inp, repr(py)[:200])
                else:
                    R.disagree("acceptance", input=inp, impl=("raised " + repr(py)[:100]) if isinstance(py, Exception) else "accepted", model=out[:100])
                continue
            if len(py["parents"]) >= 3:
                R.distinct.add(swc_text)
            R.count("padded-root" if py["branches"][0] == [0] else "single-point-soma" if py["branches"][0] == [1] else "multi-point-soma")
            for what, tol in (("parents", None), ("branches", None), ("types", None), ("lengths", 1e-12), ("radii", 1e-10), ("complen", 1e-10), ("groups", None)):
                same = (py[what] == ln[what]) if tol is None else relclose(py[what], ln[what], tol)
                if not same:
                    R.disagree(what, input=inp, impl=py[what], model=ln[what]); break
            # ---- Spec: sections
            k0 = 1 if py["branches"][0] == [0] else 0
            if mbl is None:
                d2 = soma_not_contiguous(rows)
                if ln["spec"] != py["branches"][k0:]:
                    if d2:
                        R.known_confirmed.append("D2")
                        R.spec_fail(dict(kind="branches-differ-from-sections", cause="soma-points-not-contiguous"), "a dendrite is listed before the remaining soma points: the reader treats the soma as a single point", inp, py["branches"], sections=ln["spec"])
                    else:
                        R.spec_fail(dict(kind="branches-differ-from-sections"), f"branches {py['branches'][k0:]} are not the unbranched same-type sections {ln['spec']}", inp, py["branches"], sections=ln["spec"])
                else:
                    if not relclose(py["lengths"][k0:], ln["speclen"], 1e-12):
                        R.spec_fail(dict(kind="section-length"), f"branch lengths {py['lengths'][k0:]} differ from the traced path lengths {ln['speclen']}", inp, py["lengths"], expected=ln["speclen"])
                    if py["types"][k0:] != ln["spectypes"]:
                        R.spec_fail(dict(kind="section-type"), f"branch types {py['types'][k0:]} differ from the SWC types of the sections {ln['spectypes']}", inp, py["types"], expected=ln["spectypes"])
            else:
                # max_branch_len: every branch is a contiguous piece of a section, pieces are connected, total length is kept
                secs = ln["spec"]
                for b in py["branches"][k0:]:
                    if len(b) >= 2 and not any(any(sec[i:i + len(b)] == b for i in range(len(sec))) for sec in secs):
                        if not soma_not_contiguous(rows):
                            R.spec_fail(dict(kind="split-piece-not-in-a-section"), f"with max_branch_len={mbl} branch {b} is not a contiguous piece of a section {secs}", inp, b)
                        break
                # ... and carries the SWC type of that section (so the type groups stay the partition by SWC type)
                if not soma_not_contiguous(rows) and len(ln["spectypes"]) == len(secs):
                    for j, b in enumerate(py["branches"][k0:]):
                        hit = [si for si, sec in enumerate(secs) if len(b) >= 2 and any(sec[i:i + len(b)] == b for i in range(len(sec)))]
                        if len(hit) == 1 and int(py["types"][k0 + j]) != int(ln["spectypes"][hit[0]]):
                            R.spec_fail(dict(kind="split-piece-type"), f"with max_branch_len={mbl} branch {k0 + j} = points {b} has type {py['types'][k0 + j]} but lies in a "
                                        f"section of SWC type {ln['spectypes'][hit[0]]}", inp, py["types"], sections=secs, section_types=ln["spectypes"])
                            break
                tot_spec = sum(ln["speclen"]) if ln["spec"] else None
                if tot_spec is not None and not soma_not_contiguous(rows) and not math.isclose(sum(py["lengths"][k0:]), tot_spec, rel_tol=1e-9):
                    # zero-length sections are set to 1.0 per piece: allow that documented convention
                    if not any(l == 1.0 for l in py["lengths"]):
                        R.spec_fail(dict(kind="split-changes-total-length"), f"max_branch_len={mbl}: total length {sum(py['lengths'][k0:])} != traced total {tot_spec}", inp, sum(py["lengths"][k0:]))
            # ---- groups partition the branches by type
            names = {0: "undefined", 1: "soma", 2: "axon", 3: "basal", 4: "apical", 5: "custom"}
            want = {}
            for b, ty in enumerate(py["types"]):
                want.setdefault(names.get(int(ty), f"custom{int(ty)}"), []).append(b)
            if py["groups"] != want:
                R.spec_fail(dict(kind="groups-not-partition-by-type"), f"groups {py['groups']} are not the partition of the branches by type {want}", inp, py["groups"])
            # ---- radii between the traced extremes of the branch (or the clip)
            for b, pts in enumerate(py["branches"]):
                rads = [rows[max(p, 1) - 1][5] for p in pts]
                lo, hi = min(rads), max(rads)
                for r in py["radii"][b * ncomp:(b + 1) * ncomp]:
                    ok = (lo - 1e-9 <= r <= hi + 1e-9) or (minr is not None and r == minr)
                    if not ok:
                        R.spec_fail(dict(kind="radius-outside-traced-range"), f"branch {b}: compartment radius {r} outside the traced radii [{lo},{hi}]", inp, r); break
            # ---- independence of ncomp: parents and total length
            if t % 4 == 0:
                other = (ncomp % 5) + 1
                try:
                    py2 = run_python(path, other, mbl, minr)
                    if py2["parents"] != py["parents"] or not relclose(py2["lengths"], py["lengths"], 1e-12):
                        R.spec_fail(dict(kind="depends-on-ncomp"), f"parents / branch lengths change between ncomp={ncomp} and ncomp={other}", inp, None)
                    if not math.isclose(sum(py2["complen"]), sum(py["complen"]), rel_tol=1e-10):
                        R.spec_fail(dict(kind="depends-on-ncomp"), "total length depends on ncomp", inp, None)
                except Exception as ex:
                    R.spec_fail(dict(kind="reader-raises", err=type(ex).__name__), f"read_swc(ncomp={other}) raises although ncomp={ncomp} works", inp, repr(ex)[:200])
            if len(R.samples) < 2:
                R.samples.append(dict(input=inp, branches=py["branches"], parents=py["parents"], lengths=py["lengths"]))
    finally:
        shutil.rmtree(tmp, ignore_errors=True)
    # ---- witnesses of the open known findings D2, D3, D4 (replayed on every run)
    tmp = tempfile.mkdtemp(prefix="verif_c16w_")
    try:
        w2 = "1 1 0 0 0 5 -1\n2 3 5 0 0 1 1\n3 3 10 0 0 1 2\n4 1 0 5 0 5 1\n5 1 0 10 0 5 4\n"
        p2 = os.path.join(tmp, "d2.swc"); open(p2, "w").write(w2)
        br = run_python(p2, 1, None, None)["branches"]
        R.evaluations += 1
        if br == [[1], [1, 2, 3], [1, 4, 5]]:
            R.known_confirmed.append("D2")
            R.spec_fail(dict(kind="branches-differ-from-sections", cause="soma-points-not-contiguous"), "witness D2: 3-point soma with a dendrite listed first is read as a single-point soma", dict(swc=w2), br)
        w3 = "1 1 0 0 0 5 -1\n2 2 10 0 0 1 1\n3 2 20 0 0 1 2\n"
        p3 = os.path.join(tmp, "d3.swc"); open(p3, "w").write(w3)
        try:
            run_python(p3, 1, 9.0, None)
        except Exception as ex:
            R.spec_fail(dict(kind="reader-raises-with-max_branch_len"), f"witness D3: max_branch_len=9 below the soma diameter raises {type(ex).__name__}", dict(swc=w3, max_branch_len=9.0), repr(ex)[:200])
        w4 = "1 3 0 0 0 1 -1\n2 4 10 0 0 1 1\n3 4 20 0 0 1 2\n"
        p4 = os.path.join(tmp, "d4.swc"); open(p4, "w").write(w4)
        ty = run_python(p4, 1, None, None)["types"]
        if ty == [3]:
            R.known_confirmed.append("D4")
            R.spec_fail(dict(kind="section-type", cause="type-change-at-second-point-of-non-soma-root"), "witness D4: root of type 3 followed by an apical path is one branch typed basal", dict(swc=w4), ty)
    finally:
        shutil.rmtree(tmp, ignore_errors=True)
    R.explanation = "executable model of the reader (bit-exact with the implementation) + independent section Spec evaluated by the Lean driver; combinatorial and interpolation theorems in Props/C16.lean"
    R.assumptions = ["np.loadtxt parsing and Euclidean sqrt rounding are trusted", "the Spec (sections, conventions) is a hand-written reading of the property"]
    R.extra["driver_lines"] = drv.lines
    return R


def replay(args):
    R = Result("C16")
    f = json.load(open(args.replay))
    inp = f.get("input", {})
    if "swc" not in inp:
        R.replay_result = dict(fails=True, note="no file in replay"); return R
    tmp = tempfile.mkdtemp(prefix="verif_c16r_")
    try:
        p = os.path.join(tmp, "r.swc"); open(p, "w").write(inp["swc"])
        try:
            py = run_python(p, inp.get("ncomp", 1), inp.get("max_branch_len"), inp.get("min_radius"))
            content = np.loadtxt(p)
            ln = parse_lean(LeanDriver().batch([lean_line(content, inp.get("ncomp", 1), inp.get("max_branch_len"), inp.get("min_radius"))])[0])
            k0 = 1 if py["branches"][0] == [0] else 0
            R.replay_result = dict(fails=ln is None or ln["spec"] != py["branches"][k0:] or py["types"][k0:] != ln["spectypes"], branches=py["branches"], sections=ln and ln["spec"], types=py["types"])
        except Exception as ex:
            R.replay_result = dict(fails=True, raised=repr(ex)[:200])
    finally:
        shutil.rmtree(tmp, ignore_errors=True)
    return R


if __name__ == "__main__":
    a = parse_args()
    r = replay(a) if a.mode == "replay" else run(a)
    r.write(a.out)
