import Driver.Proto
import JaxleyVerif.Gen.Kernels
import JaxleyVerif.Model.Transforms
namespace Driver
open JaxleyVerif JaxleyVerif.Gen JaxleyVerif.Model

/-- parse a transform expression; returns the transform and the remaining tokens.
`sig l u | sp l | nsp u | aff a b | chain n T… | mask b T` -/
partial def parseTf : List String → Option (Tf Float × List String)
  | "sig" :: l :: u :: rest => do
      let l ← parseF? l; let u ← parseF? u
      let lo := SigmoidTransform.init_lower l u
      let w := SigmoidTransform.init_width l u
      some (⟨SigmoidTransform.forward lo w, SigmoidTransform.inverse lo w⟩, rest)
  | "sp" :: l :: rest => do
      let l ← parseF? l
      let lo := SoftplusTransform.init_lower l
      some (⟨SoftplusTransform.forward lo, SoftplusTransform.inverse lo⟩, rest)
  | "nsp" :: u :: rest => do
      let u ← parseF? u
      let lo := NegSoftplusTransform.init_lower u
      some (⟨NegSoftplusTransform.forward lo, NegSoftplusTransform.inverse lo⟩, rest)
  | "aff" :: a :: b :: rest => do
      let a ← parseF? a; let b ← parseF? b
      let a' := AffineTransform.init_a a b
      let b' := AffineTransform.init_b a b
      some (⟨AffineTransform.forward a' b', AffineTransform.inverse a' b'⟩, rest)
  | "chain" :: n :: rest => do
      let n ← n.toNat?
      let rec go (k : Nat) (acc : List (Tf Float)) (toks : List String) : Option (List (Tf Float) × List String) :=
        match k with
        | 0 => some (acc.reverse, toks)
        | k+1 => do
            let (t, r) ← parseTf toks
            go k (t :: acc) r
      let (ts, r) ← go n [] rest
      some (chain ts, r)
  | "mask" :: b :: rest => do
      let (t, r) ← parseTf rest
      let m := b == "1"
      some (⟨fun x => (maskedFwd [m] t [x]).headD x, fun y => (maskedInv [m] t [y]).headD y⟩, r)
  | _ => none

/-- `tff x T` / `tfi y T` -/
def handleTf (fwd : Bool) (toks : List String) : String :=
  match toks with
  | x :: rest =>
    match parseF? x, parseTf rest with
    | some x, some (t, _) => "ok " ++ fbits (if fwd then t.fwd x else t.inv x)
    | _, _ => "bad-op"
  | _ => "bad-op"

end Driver
