import Driver.Proto
import JaxleyVerif.Gen.Dispatch
import JaxleyVerif.Spec.Published
namespace Driver
open JaxleyVerif

/-- `k name pfx n a.. S m (k v).. P m (k v)..` over Float -/
def handleKernel (toks : List String) : String :=
  match toks with
  | name :: pfx :: rest =>
    match takeN parseF? rest with
    | some (args, "S" :: r1) =>
      match takeKV parseF? r1 with
      | some (st, "P" :: r2) =>
        match takeKV parseF? r2 with
        | some (pr, _) =>
          let nan : Float := 0.0 / 0.0
          match Gen.dispatchFloat name (if pfx == "-" then "" else pfx) args.toArray (lookupD nan st) (lookupD nan pr) with
          | some out => "ok " ++ showKV fbits out
          | none => "unknown-kernel"
        | none => "bad-op"
      | _ => "bad-op"
    | _ => "bad-op"
  | _ => "bad-op"

def handleKernelRat (toks : List String) : String :=
  match toks with
  | name :: pfx :: rest =>
    match takeN parseRat? rest with
    | some (args, "S" :: r1) =>
      match takeKV parseRat? r1 with
      | some (st, "P" :: r2) =>
        match takeKV parseRat? r2 with
        | some (pr, _) =>
          match Gen.dispatchRat name (if pfx == "-" then "" else pfx) args.toArray (lookupD 0 st) (lookupD 0 pr) with
          | some out => "ok " ++ showKV ratToString out
          | none => "unknown-kernel"
        | none => "bad-op"
      | _ => "bad-op"
    | _ => "bad-op"
  | _ => "bad-op"

/-- Spec functions over Float: `spec name a..` -/
def handleSpec (toks : List String) : String :=
  match toks with
  | name :: rest =>
    match rest.mapM parseF? with
    | none => "bad-op"
    | some a =>
      let g (i : Nat) : Float := a.getD i 0
      let one (x : Float) := "ok " ++ fbits x
      match name with
      | "gateClosedForm" => one (Spec.gateClosedForm (g 0) (g 1) (g 2) (g 3))
      | "xinfOf" => one (Spec.xinfOf (g 0) (g 1))
      | "tauOf" => one (Spec.tauOf (g 0) (g 1))
      | "HH.alpha_m" => one (Spec.HH.alpha_m (g 0))
      | "HH.beta_m" => one (Spec.HH.beta_m (g 0))
      | "HH.alpha_h" => one (Spec.HH.alpha_h (g 0))
      | "HH.beta_h" => one (Spec.HH.beta_h (g 0))
      | "HH.alpha_n" => one (Spec.HH.alpha_n (g 0))
      | "HH.beta_n" => one (Spec.HH.beta_n (g 0))
      | "HH.current" => one (Spec.HH.current (g 0) (g 1) (g 2) (g 3) (g 4) (g 5) (g 6) (g 7) (g 8) (g 9))
      | "Posp.leak_current" => one (Spec.Posp.leak_current (g 0) (g 1) (g 2))
      | "Posp.alpha_m" => one (Spec.Posp.alpha_m (g 0) (g 1))
      | "Posp.beta_m" => one (Spec.Posp.beta_m (g 0) (g 1))
      | "Posp.alpha_h" => one (Spec.Posp.alpha_h (g 0) (g 1))
      | "Posp.beta_h" => one (Spec.Posp.beta_h (g 0) (g 1))
      | "Posp.na_current" => one (Spec.Posp.na_current (g 0) (g 1) (g 2) (g 3) (g 4))
      | "Posp.alpha_n" => one (Spec.Posp.alpha_n (g 0) (g 1))
      | "Posp.beta_n" => one (Spec.Posp.beta_n (g 0) (g 1))
      | "Posp.k_current" => one (Spec.Posp.k_current (g 0) (g 1) (g 2) (g 3))
      | "Posp.p_inf" => one (Spec.Posp.p_inf (g 0))
      | "Posp.tau_p" => one (Spec.Posp.tau_p (g 0) (g 1))
      | "Posp.km_current" => one (Spec.Posp.km_current (g 0) (g 1) (g 2) (g 3))
      | "Posp.alpha_q" => one (Spec.Posp.alpha_q (g 0))
      | "Posp.beta_q" => one (Spec.Posp.beta_q (g 0))
      | "Posp.alpha_r" => one (Spec.Posp.alpha_r (g 0))
      | "Posp.beta_r" => one (Spec.Posp.beta_r (g 0))
      | "Posp.cal_current" => one (Spec.Posp.cal_current (g 0) (g 1) (g 2) (g 3) (g 4))
      | "Posp.s_inf" => one (Spec.Posp.s_inf (g 0) (g 1))
      | "Posp.u_inf" => one (Spec.Posp.u_inf (g 0) (g 1))
      | "Posp.tau_u" => one (Spec.Posp.tau_u (g 0) (g 1))
      | "Posp.cat_current" => one (Spec.Posp.cat_current (g 0) (g 1) (g 2) (g 3) (g 4))
      | "AM.s_inf" => one (Spec.AM.s_inf (g 0))
      | "AM.tau_s" => one (Spec.AM.tau_s (g 0) (g 1))
      | "AM.current" => one (Spec.AM.current (g 0) (g 1) (g 2) (g 3))
      | _ => "unknown-spec"
  | _ => "bad-op"

/-- `specdefaults name pfx` : documented default tables of the Spec -/
def handleSpecDefaults (toks : List String) : String :=
  match toks with
  | [name, pfx] =>
    let t : Option (List (String × Float)) :=
      match name with
      | "HH" => some (Spec.HH.defaults pfx)
      | "Leak" => some (Spec.Posp.leak_defaults pfx)
      | "Na" => some (Spec.Posp.na_defaults pfx)
      | "K" => some (Spec.Posp.k_defaults pfx)
      | "Km" => some (Spec.Posp.km_defaults pfx)
      | "CaL" => some (Spec.Posp.cal_defaults pfx)
      | "CaT" => some (Spec.Posp.cat_defaults pfx)
      | "IonotropicSynapse" => some (Spec.AM.defaults pfx)
      | _ => none
    match t with
    | some kv => "ok " ++ showKV fbits kv
    | none => "unknown-spec"
  | _ => "bad-op"

end Driver
