import Driver.Proto
import JaxleyVerif.Model.SolveJaxley
namespace Driver
open JaxleyVerif JaxleyVerif.Model JaxleyVerif.Model.SolveJaxley

/-- parse `n` then `n` pairs `b p` -/
def takePairs : List String → Option (List (Nat × Nat) × List String)
  | [] => none
  | n :: rest => do
    let k ← n.toNat?
    if rest.length < 2 * k then none else
    let xs ← (rest.take (2 * k)).mapM (fun s => s.toNat?)
    let rec pair : List Nat → List (Nat × Nat)
      | a :: b :: tl => (a, b) :: pair tl
      | _ => []
    some (pair xs, rest.drop (2 * k))

def takeLevels : Nat → List String → Option (List (List (Nat × Nat) × List (Nat × Nat)) × List String)
  | 0, r => some ([], r)
  | k + 1, r => do
    let (c, r1) ← takePairs r
    let (p, r2) ← takePairs r1
    let (rest, r3) ← takeLevels k r2
    some ((c, p) :: rest, r3)

/-! Boolean mirrors of `WF` and `Sat` of `Lemmas/SolveJaxleyGlobal.lean` (the hypotheses and the conclusion of `solve_correct`),
evaluated on every captured schedule / result -/
section checks
variable {α : Type} [Add α] [Sub α] [Mul α] [Div α] [Neg α] [OfNat α 0] [OfNat α 1] [BEq α]

def pairsC (sc : Sched) : List (Nat × Nat) := sc.childrenInLevel.flatten
def pairsP (sc : Sched) : List (Nat × Nat) := sc.parentsInLevel.flatten
def branchesOf (sc : Sched) : List Nat := sc.roots ++ (pairsC sc).map (·.1)
def nodupB (l : List Nat) : Bool := l.eraseDups.length == l.length
def bpOfChildB (sc : Sched) (b : Nat) : Option Nat := ((pairsC sc).find? (·.1 == b)).map (·.2)

def wfB (ix : Idx) (sc : Sched) (st : St α) : Bool :=
  let bs := branchesOf sc
  let nl := sc.childrenInLevel.length
  sc.childrenInLevel.length == sc.parentsInLevel.length
  && bs.all (fun b => 1 ≤ ix.ncomp b && ix.cumsum b + ix.ncomp b ≤ ix.cumsum (b + 1))
  && bs.all (fun b => bs.all (fun b' => b == b' || ix.cumsum (b + 1) ≤ ix.cumsum b' || ix.cumsum (b' + 1) ≤ ix.cumsum b))
  && bs.all (fun b => (List.range (ix.paddedLast b - ix.last b)).all (fun t =>
        let j := ix.last b + 1 + t
        st.diags j == 1 && st.lowers j == 0 && st.solves j == 0 && st.uppers (j - 1) == 0 && st.uppers j == 0))
  && nodupB bs && nodupB ((pairsP sc).map (·.1)) && nodupB ((pairsP sc).map (·.2))
  && (List.range nl).all (fun k =>
        (sc.childrenInLevel.getD k []).all (fun c => (sc.parentsInLevel.getD k []).any (fun q => q.2 == c.2))
        && (sc.parentsInLevel.getD k []).all (fun q => (sc.childrenInLevel.getD k []).any (fun c => c.2 == q.2)))
  && (sc.parentsInLevel.getD 0 []).all (fun q => sc.roots.contains q.1)
  && (List.range nl).all (fun k => (sc.parentsInLevel.getD (k + 1) []).all (fun q => ((sc.childrenInLevel.getD k []).map (·.1)).contains q.1))

def rowCompB (ix : Idx) (sc : Sched) (st : St α) (x z : Nat → α) (b i : Nat) : α :=
  (if ix.first b < i then st.lowers i * x (i - 1) else 0) + st.diags i * x i
  + (if i < ix.paddedLast b then st.uppers i * x (i + 1) else 0)
  + (if i = ix.first b then (match bpOfChildB sc b with | some p => st.condC b * z p | none => 0) else 0)
  + (if i = ix.last b then (match bpOfParent sc b with | some p => st.condP b * z p | none => 0) else 0)

def rowBpB (ix : Idx) (sc : Sched) (st : St α) (x z : Nat → α) (p : Nat) : α :=
  st.bpDiags p * z p
  + (((pairsP sc).filter (·.2 == p)).map (fun q => st.weightP q.1 * x (ix.last q.1))).foldl (· + ·) 0
  + ((childrenOfBp sc p).map (fun c => st.weightC c * x (ix.first c))).foldl (· + ·) 0

def satB (ix : Idx) (sc : Sched) (st : St α) (x z : Nat → α) : Bool :=
  (branchesOf sc).all (fun b => (List.range (ix.paddedLast b + 1 - ix.first b)).all (fun t =>
      let i := ix.first b + t
      rowCompB ix sc st x z b i == st.solves i))
  && (pairsP sc).all (fun q => rowBpB ix sc st x z q.2 == st.bpSolves q.2)
end checks

/-- `jsolve <rat|float> total nb nbp  (nb+1) cumsum…  nb ncomp…  L {kc pairs kp pairs}×L  nr roots…  then the ten arrays, each
preceded by its length`.  Answers the flat solution (as doubles) and, in exact arithmetic, whether it equals the abstract Hines
recursion on the rose tree of the same system. -/
def runJSolve {α : Type} [Add α] [Sub α] [Mul α] [Div α] [Neg α] [OfNat α 0] [OfNat α 1] [BEq α]
    (parse : String → Option α) (toF : α → Float) (toks : List String) : String :=
  match toks with
  | total :: nb :: nbp :: rest =>
    match total.toNat?, nb.toNat?, nbp.toNat? with
    | some total, some _nb, some _nbp =>
      (do
        let (cums, r1) ← takeN (fun s => s.toNat?) rest
        let (ncs, r2) ← takeN (fun s => s.toNat?) r1
        let nl ← r2.head? >>= (·.toNat?)
        let (levels, r3) ← takeLevels nl r2.tail
        let (roots, r4) ← takeN (fun s => s.toNat?) r3
        let (diags, r5) ← takeN parse r4
        let (lowers, r6) ← takeN parse r5
        let (uppers, r7) ← takeN parse r6
        let (solves, r8) ← takeN parse r7
        let (bpd, r9) ← takeN parse r8
        let (bps, r10) ← takeN parse r9
        let (cc, r11) ← takeN parse r10
        let (wc, r12) ← takeN parse r11
        let (cp, r13) ← takeN parse r12
        let (wp, _) ← takeN parse r13
        let fn (l : List α) : Nat → α := let a := l.toArray; fun i => a.getD i 0
        let fnN (l : List Nat) : Nat → Nat := let a := l.toArray; fun i => a.getD i 0
        let ix : Idx := ⟨fnN cums, fnN ncs⟩
        let sc : Sched := { childrenInLevel := levels.map Prod.fst, parentsInLevel := levels.map Prod.snd, roots := roots }
        let st : St α := ⟨fn diags, fn lowers, fn uppers, fn solves, fn bpd, fn bps, fn cc, fn wc, fn cp, fn wp⟩
        let out := SolveJaxley.solve ix sc st
        let xs := (List.range total).map (fun i => out.solves i)
        let spec : List (Nat × α) := specSolve ix sc st total (2 * total + 2 * cums.length + 4)
        let agree := spec.all (fun (p : Nat × α) => p.1 ≥ total || out.solves p.1 == p.2)
        let nspec := (spec.filter (fun (p : Nat × α) => p.1 < total)).length
        let wf := wfB ix sc st
        let sat := satB ix sc st out.solves (fun p => out.bpSolves p / out.bpDiags p)
        some (s!"ok exact={if agree then 1 else 0} wf={if wf then 1 else 0} sat={if sat then 1 else 0} nspec={nspec} x=" ++ ",".intercalate (xs.map (fun x => fbits (toF x)))
              ++ " spec=" ++ ",".intercalate ((spec.filter (fun (p : Nat × α) => p.1 < total)).map (fun (p : Nat × α) => s!"{p.1}:{fbits (toF p.2)}")))).getD "bad-op"
    | _, _, _ => "bad-op"
  | _ => "bad-op"

def handleJSolve (toks : List String) : String :=
  match toks with
  | "rat" :: rest => runJSolve (α := Rat) parseRat? ratToFloat rest
  | "float" :: rest => runJSolve (α := Float) parseF? id rest
  | _ => "bad-op"

end Driver
