import Driver.Proto
import JaxleyVerif.Model.SolveJaxleySpec
namespace Driver
open JaxleyVerif JaxleyVerif.Model JaxleyVerif.Model.SolveJaxley

/-- parse `n` then `n` pairs `b p` -/
def takePairs : List String → Option (List (Nat × Nat) × List String)
  | [] => none
  | n :: rest => do
    let k ← n.toNat?
    if rest.length < 2 * k then none else
    let xs ← (rest.take (2 * k)).mapM (fun s => s.toNat?)
    let rec pair : List Nat → List (Nat × Nat)
      | a :: b :: tl => (a, b) :: pair tl
      | _ => []
    some (pair xs, rest.drop (2 * k))

def takeLevels : Nat → List String → Option (List (List (Nat × Nat) × List (Nat × Nat)) × List String)
  | 0, r => some ([], r)
  | k + 1, r => do
    let (c, r1) ← takePairs r
    let (p, r2) ← takePairs r1
    let (rest, r3) ← takeLevels k r2
    some ((c, p) :: rest, r3)

/-- `jsolve <rat|float> total nb nbp  (nb+1) cumsum…  nb ncomp…  L {kc pairs kp pairs}×L  nr roots…  then the ten arrays, each
preceded by its length`.  Answers the flat solution (as doubles) and, in exact arithmetic, whether it equals the abstract Hines
recursion on the rose tree of the same system. -/
def runJSolve {α : Type} [Add α] [Sub α] [Mul α] [Div α] [Neg α] [OfNat α 0] [OfNat α 1] [BEq α]
    (parse : String → Option α) (toF : α → Float) (toks : List String) : String :=
  match toks with
  | total :: nb :: nbp :: rest =>
    match total.toNat?, nb.toNat?, nbp.toNat? with
    | some total, some _nb, some _nbp =>
      (do
        let (cums, r1) ← takeN (fun s => s.toNat?) rest
        let (ncs, r2) ← takeN (fun s => s.toNat?) r1
        let nl ← r2.head? >>= (·.toNat?)
        let (levels, r3) ← takeLevels nl r2.tail
        let (roots, r4) ← takeN (fun s => s.toNat?) r3
        let (diags, r5) ← takeN parse r4
        let (lowers, r6) ← takeN parse r5
        let (uppers, r7) ← takeN parse r6
        let (solves, r8) ← takeN parse r7
        let (bpd, r9) ← takeN parse r8
        let (bps, r10) ← takeN parse r9
        let (cc, r11) ← takeN parse r10
        let (wc, r12) ← takeN parse r11
        let (cp, r13) ← takeN parse r12
        let (wp, _) ← takeN parse r13
        let fn (l : List α) : Nat → α := let a := l.toArray; fun i => a.getD i 0
        let fnN (l : List Nat) : Nat → Nat := let a := l.toArray; fun i => a.getD i 0
        let ix : Idx := ⟨fnN cums, fnN ncs⟩
        let sc : Sched := { childrenInLevel := levels.map Prod.fst, parentsInLevel := levels.map Prod.snd, roots := roots }
        let st : St α := ⟨fn diags, fn lowers, fn uppers, fn solves, fn bpd, fn bps, fn cc, fn wc, fn cp, fn wp⟩
        let out := SolveJaxley.solve ix sc st
        let xs := (List.range total).map (fun i => out.solves i)
        let spec : List (Nat × α) := specSolve ix sc st total (2 * total + 2 * cums.length + 4)
        let agree := spec.all (fun (p : Nat × α) => p.1 ≥ total || out.solves p.1 == p.2)
        let nspec := (spec.filter (fun (p : Nat × α) => p.1 < total)).length
        let wf := wfB ix sc
        let pad := padB ix sc st
        let piv := pivOkB ix sc st
        let sat := satB ix sc st out.solves (fun p => out.bpSolves p / out.bpDiags p)
        some (s!"ok exact={if agree then 1 else 0} wf={if wf then 1 else 0} pad={if pad then 1 else 0} piv={if piv then 1 else 0} sat={if sat then 1 else 0} nspec={nspec} x=" ++ ",".intercalate (xs.map (fun x => fbits (toF x)))
              ++ " spec=" ++ ",".intercalate ((spec.filter (fun (p : Nat × α) => p.1 < total)).map (fun (p : Nat × α) => s!"{p.1}:{fbits (toF p.2)}")))).getD "bad-op"
    | _, _, _ => "bad-op"
  | _ => "bad-op"

def handleJSolve (toks : List String) : String :=
  match toks with
  | "rat" :: rest => runJSolve (α := Rat) parseRat? ratToFloat rest
  | "float" :: rest => runJSolve (α := Float) parseF? id rest
  | _ => "bad-op"

end Driver
