import Driver.Kernels
import Driver.Transforms
import Driver.Cable
import Driver.Scan
import Driver.Views
import Driver.Connect
import Driver.Params
import Driver.Ops
import Driver.Swc
import Driver.CableDual
import Driver.SolveJaxley
import Driver.InitStates
import Driver.Sim
import Driver.AssembleJaxley
open Driver

def handle (line : String) : String :=
  match (line.trimAscii.toString.splitOn " ").filter (· ≠ "") with
  | "k" :: rest => handleKernel rest
  | "kr" :: rest => handleKernelRat rest
  | "spec" :: rest => handleSpec rest
  | "specdefaults" :: rest => handleSpecDefaults rest
  | "tff" :: rest => handleTf true rest
  | "tfi" :: rest => handleTf false rest
  | "cable" :: rest => handleCable rest
  | "nscan" :: rest => handleNScan rest
  | "icore" :: rest => handleICore rest
  | "view" :: rest => handleView rest
  | "fc" :: rest => handleFC rest
  | "mc" :: rest => handleMC rest
  | "mt" :: rest => handleMT rest
  | "scat" :: rest => handleScat rest
  | "ops" :: rest => handleOps rest
  | "cabledual" :: rest => handleCableDual rest
  | "swc" :: rest => handleSwc rest
  | "jsolve" :: rest => handleJSolve rest
  | "initst" :: rest => handleInitSt rest
  | "sim" :: rest => handleSim rest
  | "jasm" :: rest => handleJAsm rest
  | "ping" :: _ => "pong"
  | _ => "bad-op"

partial def loop (h : IO.FS.Stream) (out : IO.FS.Stream) : IO Unit := do
  let line ← h.getLine
  if line.isEmpty then return ()
  out.putStrLn (handle line)
  loop h out

def main : IO Unit := do
  let out ← IO.getStdout
  loop (← IO.getStdin) out
  out.flush
