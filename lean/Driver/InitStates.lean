import Driver.Proto
import JaxleyVerif.Gen.Dispatch
import JaxleyVerif.Model.InitStates
namespace Driver
open JaxleyVerif JaxleyVerif.Model.InitStates

/-- one row: `v  nmem mem…  S kv…  P kv…` -/
def takeRow (toks : List String) : Option ((Row Float × List Nat × List String) × List String) := do
  let v ← toks.head? >>= parseF?
  let (mem, r1) ← takeN (fun s => s.toNat?) toks.tail
  let (st, r2) ← takeKV parseF? r1
  let (pr, r3) ← takeKV parseF? r2
  some ((⟨v, lookupD 0 st, lookupD 0 pr⟩, mem, st.map (·.1)), r3)

def takeRows : Nat → List String → Option (List (Row Float × List Nat × List String))
  | 0, _ => some []
  | k + 1, toks => do
    let (r, rest) ← takeRow toks
    let rs ← takeRows k rest
    some (r :: rs)

/-- `initst dt nch {kind pfx}×nch nrows rows…` : `Module.init_states` through the model, the channels' `init_state` being the
generated kernels (by name).  Answers every state column of every row. -/
def handleInitSt (toks : List String) : String :=
  match toks with
  | dt :: nch :: rest =>
    (do
      let dt ← parseF? dt
      let nch ← nch.toNat?
      if rest.length < 2 * nch + 1 then none else
      let chtoks := rest.take (2 * nch)
      let rec pairs : List String → List (String × String)
        | a :: b :: tl => (a, b) :: pairs tl
        | _ => []
      let chs := pairs chtoks
      let chans : List (Chan Float) := chs.map (fun (kp : String × String) =>
        ⟨kp.2, fun st v pr d => (Gen.dispatchFloat (kp.1 ++ ".init_state") kp.2 #[v, d] st pr).getD []⟩)
      let r1 := rest.drop (2 * nch)
      let nrows ← r1.head? >>= (·.toNat?)
      let rows ← takeRows nrows r1.tail
      let out := rows.map (fun (r : Row Float × List Nat × List String) =>
        let has : String → Bool := fun nm => r.2.1.any (fun i => (chs.getD i ("", "")).2 == nm)
        let r' := initRow chans has dt r.1
        ",".intercalate (r.2.2.map (fun k => s!"{k}={fbits (r'.states k)}")))
      some ("ok " ++ " ".intercalate (out.map (fun (s : String) => if s.isEmpty then "-" else s)))).getD "bad-op"
  | _ => "bad-op"

end Driver
