/-
`sim` : a whole simulation of a module described by its tables, on ONE line.

  sim <solver> <backend> <dt> <nsteps>
      <ncells>  { <nb> p_1 … p_nb  <nb> n_1 … n_nb }                       per cell: parents (−1 root), ncomp per branch
      <5·N>     { radius length axial_resistivity capacitance v }          per compartment (N = total, global order)
      <nchan>   { <Class> <_name> <N> flag…  <np> { <param> <N> x… }  <ns> { <state> <N> x… } }
      <nsyn>    { <Class> <_name> }                                        `module.synapses` order
      <nedges>  { <pre> <post> <type_ind>  <np> { <param> x }  <ns> { <state> x } }      `.edges` row order
      <nkeys>   { <key> <m> ind…  <T> <T·m> x… }                           `module.externals[key]` (m inputs, T samples), time-major;
                                                                           padded / truncated to nsteps as `integrate(t_max=…)` does
      <nrec>    { <state> <index> }                                        recordings (global indices)
  doubles are decimal UInt64 bit patterns.
Answer: `ok t_0 t_1 …` with one comma-separated trace (columns 0..nsteps, bit patterns) per recording,
`refused` (the code raises for this module / solver / backend: forward Euler with a branch point or with
`jax.sparse`, a jaxley.* backend on cells whose levels differ in width, unknown solver or backend) or `bad-op` (malformed line / unknown mechanism).
-/
import Driver.Proto
import JaxleyVerif.Model.Sim
namespace Driver
open JaxleyVerif JaxleyVerif.Model.Sim JaxleyVerif.Model.Step JaxleyVerif.Spec.Cable

abbrev P := StateT (List String) Option

namespace P
def tok : P String := fun s => match s with | [] => none | t :: r => some (t, r)
def fail {β} : P β := fun _ => none
def nat : P Nat := do let t ← tok; match t.toNat? with | some n => pure n | none => fail
def int : P Int := do let t ← tok; match t.toInt? with | some n => pure n | none => fail
def flt : P Float := do let t ← tok; match parseF? t with | some x => pure x | none => fail
def many {β} (n : Nat) (p : P β) : P (List β) := (List.range n).mapM (fun _ => p)
def counted {β} (p : P β) : P (List β) := do let n ← nat; many n p
/-- `<name> <k> x_1 … x_k` -/
def column : P (String × Array Float) := do
  let k ← tok
  let xs ← counted flt
  pure (k, xs.toArray)
def scalarKV : P (String × Float) := do
  let k ← tok
  let x ← flt
  pure (k, x)
end P

structure EdgeRow where
  pre : Nat
  post : Nat
  ty : Nat
  params : List (String × Float)
  states : List (String × Float)

structure SimIn where
  solver : String
  backend : String
  dt : Float
  nsteps : Nat
  m : Module
  u0 : State Float
  cols : List ExtCol
  recs : List (String × Nat)

def mergeCols (acc : List (String × Array Float)) (cols : List (String × Array Float)) : List (String × Array Float) :=
  cols.foldl (fun acc c => if acc.any (·.1 == c.1) then acc else acc ++ [c]) acc

def parseSim : P SimIn := do
  let solver ← P.tok
  let backend ← P.tok
  let dt ← P.flt
  let nsteps ← P.nat
  let cells ← P.counted (do
    let ps ← P.counted P.int
    let ns ← P.counted P.nat
    if ps.length != ns.length then P.fail else pure (ps, ns))
  let geo ← P.counted P.flt
  let n := (cells.map (fun c => Model.Cable.nTotal c.2)).foldl (· + ·) 0
  if geo.length != 5 * n then P.fail else
  let ga := geo.toArray
  let comps : Array (Comp Float) := (Array.range n).map (fun i =>
    ⟨ga.getD (5 * i) 0.0, ga.getD (5 * i + 1) 0.0, ga.getD (5 * i + 2) 0.0, ga.getD (5 * i + 3) 0.0⟩)
  let v0 := (List.range n).map (fun i => ga.getD (5 * i + 4) 0.0)
  -- channels
  let chans ← P.counted (do
    let cls ← P.tok
    let pfx ← P.tok
    let flags ← P.counted P.nat
    let ps ← P.counted P.column
    let ss ← P.counted P.column
    if flags.length != n || (ps ++ ss).any (fun c => c.2.size != n) then P.fail
    else if (Gen.dispatchFloat (cls ++ ".channel_states") pfx #[] (fun _ => 0.0) (fun _ => 0.0)).isNone then P.fail
    else pure (({ name := cls, pfx := pfx, member := (flags.map (· != 0)).toArray } : Chan), ps, ss))
  -- synapse types and edges
  let syns ← P.counted (do
    let cls ← P.tok
    let pfx ← P.tok
    if (Gen.dispatchFloat (cls ++ ".synapse_states") pfx #[] (fun _ => 0.0) (fun _ => 0.0)).isNone then P.fail
    else pure (cls, pfx))
  let edges ← P.counted (do
    let pre ← P.nat
    let post ← P.nat
    let ty ← P.nat
    let ps ← P.counted P.scalarKV
    let ss ← P.counted P.scalarKV
    if pre ≥ n || post ≥ n || ty ≥ syns.length then P.fail
    else pure ({ pre := pre, post := post, ty := ty, params := ps, states := ss } : EdgeRow))
  let ea := edges.toArray
  let rowsOf (t : Nat) : List EdgeRow := edges.filter (·.ty == t)
  let keysOf (rows : List EdgeRow) (f : EdgeRow → List (String × Float)) : List String :=
    ((rows.head?.map f).getD []).map (·.1)
  let colOf (rows : List EdgeRow) (f : EdgeRow → List (String × Float)) (k : String) : Array Float :=
    (rows.map (fun r => lookupD Model.Sim.nan (f r) k)).toArray
  let synTypes : List SynType := (List.range syns.length).map (fun t =>
    let rows := rowsOf t
    let s := syns.getD t ("", "")
    { name := s.1, pfx := s.2, pre := (rows.map (·.pre)).toArray, post := (rows.map (·.post)).toArray,
      params := (keysOf rows (·.params)).map (fun k => (k, colOf rows (·.params) k)) })
  let synState : State Float := (List.range syns.length).flatMap (fun t =>
    let rows := rowsOf t
    (keysOf rows (·.states)).map (fun k => (k, (colOf rows (·.states) k).toList)))
  let withinType : Array Nat := (Array.range ea.size).map (fun e =>
    let t := (ea.getD e ⟨0, 0, 0, [], []⟩).ty
    ((List.range e).filter (fun e' => (ea.getD e' ⟨0, 0, 0, [], []⟩).ty == t)).length)
  let edgeStates := synState.map (·.1) ++ syns.map (fun s => "i_" ++ s.2)
  let m : Module := {
    cells := cells, comps := comps,
    nodeParams := chans.foldl (fun acc c => mergeCols acc c.2.1) [],
    chans := chans.map (·.1), syns := synTypes, withinType := withinType, edgeStates := edgeStates }
  let chanState : State Float := (chans.foldl (fun acc c => mergeCols acc c.2.2) []).map (fun c => (c.1, c.2.toList))
  let u0 : State Float := [("v", v0)] ++ chanState ++ synState
  -- externals
  let cols ← P.counted (do
    let key ← P.tok
    let inds ← P.counted P.nat
    let len ← P.nat
    let vals ← P.counted P.flt
    let mm := inds.length
    if vals.length != len * mm then P.fail else
    let va := vals.toArray
    pure ({ key := key, inds := inds,
            rows := (List.range len).map (fun k => (List.range mm).map (fun j => va.getD (k * mm + j) 0.0)) } : ExtCol))
  let recs ← P.counted (do
    let k ← P.tok
    let i ← P.nat
    pure (k, i))
  let rest ← get
  if !rest.isEmpty then P.fail else
  pure { solver := solver, backend := backend, dt := dt, nsteps := nsteps, m := m, u0 := u0, cols := cols, recs := recs }

def handleSim (toks : List String) : String :=
  match parseSim toks with
  | none => "bad-op"
  | some (s, _) =>
    match integrate s.m s.solver s.backend s.dt s.nsteps s.u0 s.cols s.recs with
    | none => "refused"
    | some traces => "ok " ++ " ".intercalate (traces.map (fun t => ",".intercalate (t.map fbits)))

end Driver
