import Driver.Proto
import JaxleyVerif.Prelude.Dual
import JaxleyVerif.Model.Cable
namespace Driver
open JaxleyVerif JaxleyVerif.Model.Cable JaxleyVerif.Spec.Cable

/-- `cabledual solver nsteps NB parents NB ncomp 16n (value,tangent per quantity: r l ra cm gm km v istim) dt_bits`
→ `ok loss dloss` where loss = Σ_steps Σ_comps v², differentiated along the given tangent direction by running the
cable model over dual numbers -/
def handleCableDual (toks : List String) : String :=
  match toks with
  | solver :: nsteps :: rest =>
    match takeN (fun s => s.toInt?) rest with
    | none => "bad-op"
    | some (parents, r1) =>
    match takeN (fun s => s.toNat?) r1 with
    | none => "bad-op"
    | some (ncomp, r2) =>
    match takeN parseF? r2 with
    | none => "bad-op"
    | some (vals, r3) =>
    match r3 with
    | [dts] =>
      match parseF? dts with
      | none => "bad-op"
      | some dt =>
        let nt := nTotal ncomp
        if vals.length != 16 * nt then "bad-op" else
        let va := vals.toArray
        let g (i k : Nat) : Dual Float := ⟨va.getD (16 * i + 2 * k) 0, va.getD (16 * i + 2 * k + 1) 0⟩
        let c0 : CellIn (Dual Float) := {
          parents := parents, ncomp := ncomp,
          comps := (Array.range nt).map (fun i => ⟨g i 0, g i 1, g i 2, g i 3⟩),
          gm := (Array.range nt).map (fun i => g i 4), km := (Array.range nt).map (fun i => g i 5),
          v := (Array.range nt).map (fun i => g i 6), istim := (Array.range nt).map (fun i => g i 7) }
        let dtd : Dual Float := ⟨dt, 0⟩
        let stepf (c : CellIn (Dual Float)) : List (Dual Float) :=
          if solver == "crank_nicolson" then stepCN c dtd else stepBwd c dtd
        let rec go (k : Nat) (c : CellIn (Dual Float)) (acc : Dual Float) : Dual Float :=
          match k with
          | 0 => acc
          | k + 1 =>
            let x := stepf c
            let acc' := x.foldl (fun a xi => a + xi * xi) acc
            go k { c with v := x.toArray } acc'
        let l := go (parseNat! nsteps) c0 ⟨0, 0⟩
        s!"ok {fbits l.re} {fbits l.eps}"
    | _ => "bad-op"
  | _ => "bad-op"

end Driver
