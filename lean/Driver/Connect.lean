import Driver.Proto
import JaxleyVerif.Model.Connect
namespace Driver
open JaxleyVerif.Model.Connect

def showPairs (l : List (Nat × Nat)) : String := "ok " ++ ",".intercalate (l.map (fun p => s!"{p.1}:{p.2}"))

/-- `fc npost P pre… F flat…` -/
def handleFC (toks : List String) : String :=
  match toks with
  | npost :: rest =>
    match takeN (fun s => s.toNat?) rest with
    | some (pre, r1) => match takeN (fun s => s.toNat?) r1 with
      | some (flat, _) => showPairs (fullyConnect pre (parseNat! npost) flat)
      | none => "bad-op"
    | none => "bad-op"
  | _ => "bad-op"

/-- `mc P pre… R nrows row(0/1 string)… S samples…` -/
def handleMC (toks : List String) : String :=
  match takeN (fun s => s.toNat?) toks with
  | some (pre, r1) => match takeN (fun (s : String) => some (s.toList.map (· == '1'))) r1 with
    | some (rows, r2) => match takeN (fun s => s.toNat?) r2 with
      | some (samples, _) => showPairs (matrixConnect pre rows samples)
      | none => "bad-op"
    | none => "bad-op"
  | none => "bad-op"

end Driver
