import Driver.Proto
import JaxleyVerif.Model.Ops
namespace Driver
open JaxleyVerif.Model.Ops

def nl (s : String) : List Nat := if s == "" || s == "-" then [] else (s.splitOn ",").filterMap (·.toNat?)
def kvl (s : String) : List (String × Nat) :=
  if s == "" || s == "-" then [] else (s.splitOn ",").filterMap (fun t => match t.splitOn ":" with
    | [k, v] => v.toNat?.map (fun n => (k, n)) | _ => none)

def argOf (toks : List String) (key : String) : String :=
  match toks.find? (fun t => t.startsWith (key ++ "=")) with
  | some t => (t.drop (key.length + 1)).toString
  | none => ""

def insertSortedS (x : String) : List String → List String
  | [] => [x]
  | y :: ys => if x < y then x :: y :: ys else y :: insertSortedS x ys
def sortS (l : List String) : List String := l.foldl (fun acc x => insertSortedS x acc) []

def showOpt : Option Nat → String | some v => toString v | none => "nan"

def canon (m : Mod) : String :=
  let j (l : List Nat) := ",".intercalate (l.map toString)
  let cols := sortS (m.cols.map (fun p => p.1 ++ ":" ++ ",".intercalate (p.2.map showOpt)))
  let flags := sortS (m.flags.map (fun p => p.1 ++ ":" ++ String.mk (p.2.map (fun b => if b then '1' else '0'))))
  let edges := m.edges.map (fun e => s!"{e.pre}>{e.post}:{e.ty}:{e.tyInd}:" ++
    "&".intercalate (sortS (e.vals.map (fun kv => kv.1 ++ "=" ++ showOpt kv.2))))
  let ext := sortS (m.ext.map (fun p => p.1 ++ ":" ++ j (p.2.map (·.1)) ++ ":" ++ ";".intercalate (p.2.map (fun r => j r.2))))
  let groups := sortS (m.groups.map (fun g => g.1 ++ ":" ++ j g.2))
  let train := m.trainables.map (fun t => t.1 ++ ":" ++ "/".intercalate (t.2.map j))
  s!"n={m.n} cols={"|".intercalate cols} flags={"|".intercalate flags} chans={",".intercalate (m.chans.map (·.name))} " ++
  s!"cur={",".intercalate m.currents} edges={"|".intercalate edges} syns={",".intercalate (m.syns.map (·.name))} " ++
  s!"recs={"|".intercalate (m.recs.map (fun r => s!"{r.1}:{r.2}"))} ext={"|".intercalate ext} " ++
  s!"groups={"|".intercalate groups} train={"|".intercalate train}"

def applyOp (m : Mod) (toks : List String) : Except String Mod :=
  let a := argOf toks
  match toks.headD "" with
  | "insert" => .ok (insert m (nl (a "rows")) ⟨a "name", kvl (a "P"), kvl (a "S"), a "cur"⟩)
  | "delchan" => deleteChannel m (nl (a "rows")) ⟨a "name", kvl (a "P"), kvl (a "S"), a "cur"⟩
  | "set" => setNode m (nl (a "rows")) (a "key") ((a "val").toNat?.getD 0)
  | "group" => .ok (addToGroup m (nl (a "rows")) (a "name"))
  | "record" => record m (nl (a "rows")) (nl (a "es")) (a "state")
  | "delrecs" => .ok (deleteRecordingsAll m)
  | "ext" => externalInput m (nl (a "rows")) (nl (a "es")) (a "key") (((a "data").splitOn ";").map nl)
  | "delext" => .ok (deleteExternal m (nl (a "rows")) (nl (a "es")) (a "key"))
  | "train" => .ok (makeTrainable m (a "key") (((a "groups").splitOn ";").map nl))
  | "deltrain" => .ok (deleteTrainablesAll m)
  | "connect" => .ok (connect m (nl (a "pre")) (nl (a "post")) ⟨a "name", kvl (a "P"), kvl (a "S")⟩)
  | _ => .error "bad-op"

/-- `ops n geom | op | op …` → canonical state after every op, separated by ` || ` -/
def handleOps (toks : List String) : String :=
  let line := " ".intercalate toks
  match line.splitOn " | " with
  | hd :: ops =>
    match (hd.splitOn " ").filter (· ≠ "") with
    | [n, geom] =>
      let m0 := init (parseNat! n) (kvl geom)
      let rec go (m : Mod) : List String → List String
        | [] => []
        | o :: os =>
          match applyOp m ((o.splitOn " ").filter (· ≠ "")) with
          | .ok m' => canon m' :: go m' os
          | .error e => s!"err {e}" :: go m os
      " || ".intercalate (canon m0 :: go m0 ops)
    | _ => "bad-op"
  | [] => "bad-op"

end Driver
