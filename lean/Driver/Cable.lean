import Driver.Proto
import JaxleyVerif.Model.Cable
namespace Driver
open JaxleyVerif JaxleyVerif.Model.Cable JaxleyVerif.Spec.Cable

/-- generic runner, parametrised by the scalar's parser / abs / toFloat -/
def runCable {α : Type} [Add α] [Sub α] [Mul α] [Div α] [Neg α] [OfScientific α] [HasPi α] [OfNat α 0] [Inhabited α]
    [LT α] [DecidableLT α]
    (parse : String → Option α) (absf : α → α) (toF : α → Float) (toks : List String) : String :=
  match toks with
  | solver :: rest =>
    match takeN (fun s => s.toInt?) rest with
    | none => "bad-op"
    | some (parents, r1) =>
    match takeN (fun s => s.toNat?) r1 with
    | none => "bad-op"
    | some (ncomp, r2) =>
    match takeN parse r2 with
    | none => "bad-op"
    | some (vals, r3) =>
    match r3 with
    | dts :: "X" :: xs =>
      match parse dts, xs.mapM parse with
      | some dt, some ximpl =>
        let nt := nTotal ncomp
        if vals.length != 8 * nt || ximpl.length != nt then "bad-op" else
        let va := vals.toArray
        let g (i k : Nat) : α := va.getD (8 * i + k) 0
        let c : CellIn α := {
          parents := parents, ncomp := ncomp,
          comps := (Array.range nt).map (fun i => ⟨g i 0, g i 1, g i 2, g i 3⟩),
          gm := (Array.range nt).map (fun i => g i 4), km := (Array.range nt).map (fun i => g i 5),
          v := (Array.range nt).map (fun i => g i 6), istim := (Array.range nt).map (fun i => g i 7) }
        let xi : Array α := ximpl.toArray
        let maxOf (l : List α) : α := l.foldl (fun a b => if a < b then b else a) 0
        let relres (c : CellIn α) (dt : α) (x : Nat → α) : α :=
          maxOf ((List.range nt).map (fun i => let r := specRow absf c dt x i; absf r.1 / r.2))
        match solver with
        | "bwd_euler" =>
          let xm := stepBwd c dt
          let diff := maxOf ((List.range nt).map (fun i => absf (xm.getD i 0 - xi.getD i 0)))
          let be := relres c dt (fun i => xi.getD i 0)
          let mr := relres c dt (fun i => xm.getD i 0)
          let cb := chargeBalance c dt (fun i => xi.getD i 0)
          let cbm := chargeBalance c dt (fun i => xm.getD i 0)
          s!"ok refused=0 maxdiff={fbits (toF diff)} bwderr={fbits (toF be)} modelres={fbits (toF mr)} charge={fbits (toF cb)} chargemodel={fbits (toF cbm)} model=" ++
            ",".intercalate (xm.map (fun x => fbits (toF x)))
        | "crank_nicolson" =>
          let xm := stepCN c dt
          let diff := maxOf ((List.range nt).map (fun i => absf (xm.getD i 0 - xi.getD i 0)))
          -- recover the half-step solution from the implementation's output: (x + v)/2 must solve bwd(dt/2)
          let half (i : Nat) : α := (xi.getD i 0 + c.v.getD i 0) / 2.0
          let be := relres c (dt / 2.0) half
          let hm := stepBwd c (dt / 2.0)
          let mr := relres c (dt / 2.0) (fun i => hm.getD i 0)
          s!"ok refused=0 maxdiff={fbits (toF diff)} bwderr={fbits (toF be)} modelres={fbits (toF mr)} charge=0 chargemodel=0 model=" ++
            ",".intercalate (xm.map (fun x => fbits (toF x)))
        | "fwd_euler" =>
          match stepFwd c dt with
          | none => "ok refused=1"
          | some xm =>
            let diff := maxOf ((List.range nt).map (fun i => absf (xm.getD i 0 - xi.getD i 0)))
            -- explicit scheme: the SpecSys row evaluated with the OLD voltages on the right-hand side
            -- C (x − v)/dt = F(v): residual of the implementation against the Spec vector field
            let cOld : CellIn α := c
            let resid := maxOf ((List.range nt).map (fun i =>
              let r := specRow absf { cOld with v := c.v } dt (fun j => c.v.getD j 0) i
              -- specRow with x := v has zero capacitive term; its residual is −F(v)·(µA); the step must satisfy
              -- C (x_i − v_i)/dt + r.1 = 0
              let cp := c.comps.getD i default
              absf (capUF cp * (xi.getD i 0 - c.v.getD i 0) / dt + r.1) / (r.2 + capUF cp * absf (xi.getD i 0) / dt)))
            s!"ok refused=0 maxdiff={fbits (toF diff)} bwderr={fbits (toF resid)} modelres=0 charge=0 chargemodel=0 model=" ++
              ",".intercalate (xm.map (fun x => fbits (toF x)))
        | _ => "bad-solver"
      | _, _ => "bad-op"
    | _ => "bad-op"
  | _ => "bad-op"

def handleCable (toks : List String) : String :=
  match toks with
  | "rat" :: rest => runCable (α := Rat) parseRat? ratAbs ratToFloat rest
  | "float" :: rest => runCable (α := Float) parseF? Float.abs id rest
  | _ => "bad-op"

end Driver
