import Driver.Proto
import JaxleyVerif.Model.Params
namespace Driver
open JaxleyVerif.Model.Params

def natListC (s : String) : List Nat := if s == "" || s == "-" then [] else (s.splitOn ",").filterMap (·.toNat?)

/-- `mt n rows ctrl` : rows = labels in view holding the parameter, ctrl = their controlled_by_param values (same order)
→ padded index groups `g1;g2;…` -/
def handleMT (toks : List String) : String :=
  match toks with
  | [n, rows, ctrl] =>
    let rs := natListC rows
    let cs := natListC ctrl
    let tbl := rs.zip cs
    let f (r : Nat) : Nat := match tbl.find? (·.1 == r) with | some p => p.2 | none => 0
    let gs := padGroups (parseNat! n) (groupsOf rs f)
    "ok " ++ ";".intercalate (gs.map (fun g => ",".intercalate (g.map toString)))
  | _ => "bad-op"

/-- `scat arr(bits,…) P (groups `g1;g2` vals `v1,v2`)*` : `applyPstate` on bit patterns -/
def handleScat (toks : List String) : String :=
  match toks with
  | arr :: rest =>
    let a := natListC arr
    let rec go : List String → List (List (List Nat) × List Nat)
      | g :: v :: tl => ((g.splitOn ";").map natListC, natListC v) :: go tl
      | _ => []
    "ok " ++ ",".intercalate ((applyPstate a (go rest)).map toString)
  | _ => "bad-op"

end Driver
