import Driver.Proto
import JaxleyVerif.Model.Views
namespace Driver
open JaxleyVerif.Model.Views

def parseIdx (s : String) : Option Idx :=
  match s.splitOn ":" with
  | ["all"] => some .all
  | ["none"] => some .none
  | ["int", k] => k.toInt?.map .int
  | ["list", l] => if l == "" then some (.list []) else ((l.splitOn ",").mapM (fun (t : String) => t.toInt?)).map Idx.list
  | ["range", a, b, s] => do some (.range (← a.toInt?) (← b.toInt?) (← s.toInt?))
  | ["slice", a, b, s] => do
      let a' := if a == "_" then Option.none else a.toNat?
      let b' := if b == "_" then Option.none else b.toNat?
      some (.slice a' b' (← s.toNat?))
  | ["mask", m] => some (.mask (m.toList.map (· == '1')))
  | _ => Option.none

def natList (s : String) : List Nat := if s == "" then [] else (s.splitOn ",").filterMap (·.toNat?)

def showView (b : Base) (v : View) : String :=
  let j (l : List Nat) := ",".intercalate (l.map toString)
  s!"ok n={j v.nodes} e={j v.edges} lc={j (v.nodes.map (localIdx b v.nodes .cell))} lb={j (v.nodes.map (localIdx b v.nodes .branch))} lp={j (v.nodes.map (localIdx b v.nodes .comp))}"

def showRes (b : Base) : Except String View → String
  | .ok v => showView b v
  | .error e => s!"err {e}"

def parseKey : String → Option Key
  | "cell" => some .cell | "branch" => some .branch | "comp" => some .comp | _ => Option.none

/-- apply ops left to right; returns the outputs after each op -/
partial def runOps (b : Base) (v : View) : List String → List String
  | [] => []
  | "scope" :: s :: rest => let v' := setScope v (if s == "g" then .glob else .loc); showView b v' :: runOps b v' rest
  | "selectn" :: l :: rest => cont b v (select b v (some (natList l)) Option.none) rest
  | "selecte" :: l :: rest => cont b v (select b v Option.none (some (natList l))) rest
  | "selectne" :: l :: e :: rest => cont b v (select b v (some (natList l)) (some (natList e))) rest
  | "locall" :: rest => cont b v (locAll b v) rest
  | "loc" :: tbl :: rest =>
      -- table `ncomp=bin,ncomp=bin`
      let t := (tbl.splitOn ",").filterMap (fun p => match p.splitOn "=" with | [a, c] => (do some ((← a.toNat?), (← c.toNat?))) | _ => Option.none)
      cont b v (locView b v (fun n => match t.find? (·.1 == n) with | some p => p.2 | none => 0)) rest
  | "group" :: nm :: rest => cont b v (groupView b v nm) rest
  | "chan" :: nm :: rest => cont b v (channelView b v nm) rest
  | "syn" :: nm :: rest => cont b v (synapseView b v nm) rest
  | "edge" :: i :: rest => match parseIdx i with
      | some ix => cont b v (atEdges b v ix) rest
      | Option.none => ["bad-op"]
  | "getitem" :: k :: rest => match k.toNat? with
      | some n => match (rest.take n).mapM parseIdx with
          | some ixs => cont b v (getItem b v ixs) (rest.drop n)
          | Option.none => ["bad-op"]
      | Option.none => ["bad-op"]
  | "iter" :: k :: rest => match parseKey k with
      | some key => ("iter " ++ " ; ".intercalate ((iterViews b v key).map (showRes b))) :: runOps b v rest
      | Option.none => ["bad-op"]
  | k :: i :: rest => match parseKey k, parseIdx i with
      | some key, some ix => cont b v (atNodes b v key ix) rest
      | _, _ => ["bad-op"]
  | _ => ["bad-op"]
where
  cont (b : Base) (v : View) (r : Except String View) (rest : List String) : List String :=
    match r with
    | .ok v' => showView b v' :: runOps b v' rest
    | .error e => [s!"err {e}"]

/-- `view kind N c,b,p … E pre,post,type … B ncomp… G name=labels … C name=labels … OPS …` -/
def handleView (toks : List String) : String :=
  match toks with
  | kind :: rest =>
    match takeN (fun s => match s.splitOn "," with | [a, c, d] => (do some (⟨← a.toNat?, ← c.toNat?, ← d.toNat?⟩ : Node)) | _ => Option.none) rest with
    | some (nodes, r1) =>
      match takeN (fun s => match s.splitOn "," with | [a, c, d] => (do some (⟨← a.toNat?, ← c.toNat?, d⟩ : Edge)) | _ => Option.none) r1 with
      | some (edges, r2) =>
        match takeN (fun s => s.toNat?) r2 with
        | some (ncomp, r3) =>
          let kv (s : String) : Option (String × List Nat) := match s.splitOn "=" with | [a, c] => some (a, natList c) | _ => Option.none
          match takeN kv r3 with
          | some (groups, r4) =>
            match takeN kv r4 with
            | some (chans, "OPS" :: ops) =>
              let cum := ncomp.foldl (fun acc n => acc ++ [acc.getLastD 0 + n]) [0]
              let b : Base := { kind := kind.toNat?.getD 0, nodes := nodes.toArray, edges := edges.toArray,
                                ncompPerBranch := ncomp.toArray, cumsumNcomp := cum.toArray, groups := groups, chans := chans }
              " | ".intercalate (runOps b (fullView b) ops)
            | _ => "bad-op"
          | Option.none => "bad-op"
        | Option.none => "bad-op"
      | Option.none => "bad-op"
    | Option.none => "bad-op"
  | _ => "bad-op"

end Driver
