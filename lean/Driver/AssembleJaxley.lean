import Driver.Proto
import Driver.SolveJaxley
import JaxleyVerif.Model.AssembleJaxley
namespace Driver
open JaxleyVerif JaxleyVerif.Model JaxleyVerif.Model.SolveJaxley

/-- `jasm <rat|float> total n  (nb+1) cumsum…  nb ncomp…  L {kc pairs kp pairs}×L  nr roots…
      n v…  n vt…  n ct…  E {src snk type}×E  E g…  n mask…  K parInds…  J childInds…  G groupInds…  dt`
the inputs of `step_voltage_implicit_with_jaxley_spsolve` as captured from the real code.  Answers the ten assembled arrays
(as doubles, for the comparison with the arrays the code handed to `_triang_branched`), whether the structural hypothesis
`edgesWfB` of the assembly theorems holds, and — in exact arithmetic — whether the values the solver model reads back satisfy
the physical edge-list system `PhysSys` (the conclusion of `jaxley_backend_solves_physical_system`, evaluated). -/
def runJAsm {α : Type} [Add α] [Sub α] [Mul α] [Div α] [Neg α] [OfNat α 0] [OfNat α 1] [BEq α]
    (parse : String → Option α) (toF : α → Float) (toks : List String) : String :=
  match toks with
  | total :: n :: rest =>
    match total.toNat?, n.toNat? with
    | some total, some n =>
      (do
        let (cums, r1) ← takeN (fun s => s.toNat?) rest
        let (ncs, r2) ← takeN (fun s => s.toNat?) r1
        let nl ← r2.head? >>= (·.toNat?)
        let (levels, r3) ← takeLevels nl r2.tail
        let (roots, r4) ← takeN (fun s => s.toNat?) r3
        let (v, r5) ← takeN parse r4
        let (vt, r6) ← takeN parse r5
        let (ct, r7) ← takeN parse r6
        let ne ← r7.head? >>= (·.toNat?)
        if r7.tail.length < 3 * ne then none else
        let etoks ← (r7.tail.take (3 * ne)).mapM (fun (s : String) => s.toNat?)
        let rec triples : List Nat → List (Nat × Nat × Nat)
          | a :: b :: c :: tl => (a, b, c) :: triples tl
          | _ => []
        let es := triples etoks
        let (gs, r9) ← takeN parse (r7.tail.drop (3 * ne))
        let (mask, r10) ← takeN (fun s => s.toNat?) r9
        let (parI, r11) ← takeN (fun s => s.toNat?) r10
        let (chI, r12) ← takeN (fun s => s.toNat?) r11
        let (grp, r13) ← takeN (fun s => s.toNat?) r12
        let dt ← r13.head? >>= parse
        let fn (l : List α) : Nat → α := let a := l.toArray; fun i => a.getD i 0
        let fnN (l : List Nat) : Nat → Nat := let a := l.toArray; fun i => a.getD i 0
        let ix : Idx := ⟨fnN cums, fnN ncs⟩
        let sc : Sched := { childrenInLevel := levels.map Prod.fst, parentsInLevel := levels.map Prod.snd, roots := roots }
        let edges : List (Nat × Nat × Nat × α) := (es.zip gs).map (fun (p : (Nat × Nat × Nat) × α) => (p.1.1, p.1.2.1, p.1.2.2, p.2))
        let inp : AsmIn α := { n := n, v := fn v, vt := fn vt, ct := fn ct, edges := edges, mask := fnN mask,
                               parInds := parI, childInds := chI, groupInds := grp, dt := dt }
        let st0 := assembleJ inp
        -- materialise the assembled arrays (the model's arrays are closures over the edge list)
        let nbA := ncs.length
        let mat (f : Nat → α) (k : Nat) : Nat → α := let a := ((List.range k).map f).toArray; fun i => a.getD i 0
        let st : St α := ⟨mat st0.diags total, mat st0.lowers total, mat st0.uppers total, mat st0.solves total,
                          mat st0.bpDiags parI.length, mat st0.bpSolves parI.length,
                          mat st0.condC nbA, mat st0.weightC nbA, mat st0.condP nbA, mat st0.weightP nbA⟩
        let ewf := edgesWfB ix sc inp
        let wf := wfB ix sc
        let out := SolveJaxley.solve ix sc st
        let xs := mat (readBack inp out) n
        let zs := mat (fun p => out.bpSolves p / out.bpDiags p) parI.length
        let phys := physSysB inp xs zs
        let arr (f : Nat → α) (k : Nat) : String := ",".intercalate ((List.range k).map (fun i => fbits (toF (f i))))
        let nb := ncs.length
        let nbp := parI.length
        some (s!"ok ewf={if ewf then 1 else 0} wf={if wf then 1 else 0} phys={if phys then 1 else 0}"
          ++ " diags=" ++ arr st.diags total ++ " lowers=" ++ arr st.lowers total ++ " uppers=" ++ arr st.uppers total
          ++ " solves=" ++ arr st.solves total ++ " bpd=" ++ arr st.bpDiags nbp ++ " bps=" ++ arr st.bpSolves nbp
          ++ " cc=" ++ arr st.condC nb ++ " wc=" ++ arr st.weightC nb ++ " cp=" ++ arr st.condP nb ++ " wp=" ++ arr st.weightP nb
          ++ " x=" ++ arr xs n)).getD "bad-op"
    | _, _ => "bad-op"
  | _ => "bad-op"

def handleJAsm (toks : List String) : String :=
  match toks with
  | "rat" :: rest => runJAsm (α := Rat) parseRat? ratToFloat rest
  | "float" :: rest => runJAsm (α := Float) parseF? id rest
  | _ => "bad-op"

end Driver
