/-
Line protocol helpers (import-free apart from the model prelude).
Doubles travel as decimal `UInt64` bit patterns; rationals as `num/den`.
-/
import JaxleyVerif.Prelude.Scalar
namespace Driver
open JaxleyVerif

def fbits (x : Float) : String := toString (floatToBitsNat x)
def parseF? (s : String) : Option Float := s.toNat?.map floatOfBitsNat

def parseNat! (s : String) : Nat := s.toNat?.getD 0
def parseInt! (s : String) : Int := s.toInt?.getD 0

/-- parse `n` then `n` items using `f`; returns items and the rest -/
def takeN {β} (f : String → Option β) : List String → Option (List β × List String)
  | [] => none
  | n :: rest => do
    let k ← n.toNat?
    if rest.length < k then none
    else
      let items ← (rest.take k).mapM f
      some (items, rest.drop k)

/-- parse `m` then `m` (key, value) pairs -/
def takeKV {β} (f : String → Option β) : List String → Option (List (String × β) × List String)
  | [] => none
  | n :: rest => do
    let k ← n.toNat?
    if rest.length < 2 * k then none
    else
      let rec go : Nat → List String → Option (List (String × β))
        | 0, _ => some []
        | i+1, key :: v :: tl => do
            let x ← f v
            let r ← go i tl
            some ((key, x) :: r)
        | _, _ => none
      let items ← go k rest
      some (items, rest.drop (2 * k))

def lookupD {β} (d : β) (kv : List (String × β)) (k : String) : β :=
  match kv.find? (fun p => p.1 == k) with
  | some p => p.2
  | none => d

def showKV {β} (f : β → String) (kv : List (String × β)) : String :=
  " ".intercalate (kv.map (fun p => s!"{p.1}={f p.2}"))

end Driver
