/-
`swc <ncomp> <maxlen bits | -> <minr bits | -> <npoints> then per point: id type xbits ybits zbits rbits parent`
→ `ok parents=… branches=… types=… lengths=… radii=… complen=… groups=… spec=… speclen=…` or `err <reason>`
(two extra trailing fields: `spectypes=` the Spec's section types, `wf=0|1` the Spec's `wellFormed`).
-/
import Driver.Proto
import JaxleyVerif.Model.Swc
import JaxleyVerif.Spec.Swc
namespace Driver
open JaxleyVerif
open JaxleyVerif.Model

def parseOptF? (s : String) : Option (Option Float) :=
  if s == "-" then some none else (parseF? s).map some

def parseSwcPoints : Nat → List String → Option (List Swc.Point)
  | 0, _ => some []
  | n + 1, id :: ty :: x :: y :: z :: r :: par :: rest => do
    let p : Swc.Point := { id := ← id.toNat?, type := ← ty.toNat?, x := ← parseF? x, y := ← parseF? y,
                           z := ← parseF? z, r := ← parseF? r, parent := ← par.toInt? }
    let ps ← parseSwcPoints n rest
    some (p :: ps)
  | _, _ => none

def commaSep {α} (f : α → String) (l : List α) : String := ",".intercalate (l.map f)
def showBranches (bs : List (List Nat)) : String := ";".intercalate (bs.map (commaSep toString))

def insertGroup (g : String × List Nat) : List (String × List Nat) → List (String × List Nat)
  | [] => [g]
  | h :: t => if g.1 < h.1 then g :: h :: t else h :: insertGroup g t

def handleSwc (toks : List String) : String :=
  match toks with
  | ncomp :: maxlen :: minr :: npts :: rest =>
    match ncomp.toNat?, parseOptF? maxlen, parseOptF? minr, npts.toNat? with
    | some ncomp, some maxlen, some minr, some n =>
      match parseSwcPoints n rest with
      | none => "bad-op"
      | some pts =>
        match Swc.readSwc pts.toArray ncomp maxlen minr with
        | .error e => s!"err {e}"
        | .ok cell =>
          let m := cell.morph
          let file : Spec.Swc.File := pts.map (fun p =>
            { id := p.id, type := p.type, x := p.x, y := p.y, z := p.z, r := p.r, parent := p.parent })
          let spec := Spec.Swc.specBranches file
          let groups := cell.groups.foldr insertGroup []
          " ".intercalate
            [ "ok"
            , "parents=" ++ commaSep toString m.parents
            , "branches=" ++ showBranches m.branches
            , "types=" ++ commaSep toString m.types
            , "lengths=" ++ commaSep fbits m.pathlengths
            , "radii=" ++ commaSep fbits cell.radii
            , "complen=" ++ commaSep fbits cell.compLens
            , "groups=" ++ "|".intercalate (groups.map (fun g => s!"{g.1}:{commaSep toString g.2}"))
            , "spec=" ++ showBranches spec
            , "speclen=" ++ commaSep fbits (spec.map (Spec.Swc.sectionLength file))
            , "spectypes=" ++ commaSep toString (spec.map (Spec.Swc.sectionType file))
            , "wf=" ++ (if Spec.Swc.wellFormed file then "1" else "0") ]
    | _, _, _, _ => "bad-op"
  | _ => "bad-op"

end Driver
