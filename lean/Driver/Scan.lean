import Driver.Proto
import JaxleyVerif.Model.Scan
namespace Driver
open JaxleyVerif.Model

/-- the exact integer step used for the correspondence with the real `nested_checkpoint_scan` -/
def intStep (s : Int) (x : Int) : Int × Int := ((s * 31 + x) % 1000003, s + 2 * x)

/-- `nscan d l₁…l_d n x₁…x_n s0` → `ok carry out₁,…` using the model of `_inner_nested_scan` -/
def handleNScan (toks : List String) : String :=
  match takeN (fun s => s.toNat?) toks with
  | some (ls, r1) =>
    match takeN (fun s => s.toInt?) r1 with
    | some (xs, [s0]) =>
      let r := nested intStep ls (parseInt! s0) xs
      s!"ok {r.1} " ++ ",".intercalate (r.2.map toString)
    | _ => "bad-op"
  | none => "bad-op"

/-- `icore <ck: d l₁…l_d | 0> n x₁…x_n s0` → recordings and returned state of `integrateCore` -/
def handleICore (toks : List String) : String :=
  match takeN (fun s => s.toNat?) toks with
  | some (ls, r1) =>
    match takeN (fun s => s.toInt?) r1 with
    | some (xs, [s0]) =>
      let r := integrateCore (fun s x => (intStep s x).1) (fun s => s) 0 (parseInt! s0) xs (if ls.isEmpty then none else some ls)
      s!"ok {r.2} " ++ ",".intercalate (r.1.map toString)
    | _ => "bad-op"
  | none => "bad-op"

end Driver
