/-
Abstract Hines solver: two-pass elimination of a tree-structured linear system (import-free).

A system is given as a rose tree: every node carries its diagonal `d`, right-hand side `b`, the
coefficient `up` of its PARENT's unknown in its own row, and the coefficient `down` of its OWN unknown in
the parent's row.  (For the root `up`/`down` are irrelevant and the parent value passed in is 0.)
This is what `_triang_branched`/`_backsub_branched` of jaxley/solver_voltage.py compute level by level.
-/
namespace JaxleyVerif.Model

inductive HTree (K : Type) where
  | node (id : Nat) (d b up down : K) (kids : List (HTree K)) : HTree K

namespace HTree
variable {K : Type} [Add K] [Sub K] [Mul K] [Div K] [OfNat K 0]

mutual
/-- upward pass: Schur-complement pivot and right-hand side of a node after eliminating its subtree -/
def elim : HTree K → K × K
  | node _ d b _ _ kids =>
    let r := elimKids kids
    (d - r.1, b - r.2)
/-- `(Σ_c down_c·up_c/d'_c , Σ_c down_c·b'_c/d'_c)` -/
def elimKids : List (HTree K) → K × K
  | [] => (0, 0)
  | (node i d b up down kids) :: rest =>
    let e := elim (node i d b up down kids)
    let r := elimKids rest
    (down * up / e.1 + r.1, down * e.2 / e.1 + r.2)
end

mutual
/-- downward pass: given the parent's value, the values of the subtree as an association list -/
def back (xp : K) : HTree K → List (Nat × K)
  | node i d b up down kids =>
    let e := elim (node i d b up down kids)
    let x := (e.2 - up * xp) / e.1
    (i, x) :: backKids x kids
def backKids (x : K) : List (HTree K) → List (Nat × K)
  | [] => []
  | t :: rest => back x t ++ backKids x rest
end

/-- solve a rooted system -/
def solve (t : HTree K) : List (Nat × K) := back 0 t

def rootId : HTree K → Nat
  | node i _ _ _ _ _ => i

end HTree
end JaxleyVerif.Model
