/-
Code-shaped model of the custom branched tridiagonal solver of jaxley/solver_voltage.py
(`_triang_branched`, `_backsub_branched`, `_triang_level`, `_backsub_level`, `_eliminate_children_lower`,
`_eliminate_parents_upper`, `_eliminate_parents_lower`, `_eliminate_children_upper`), of the Thomas routines of
tridiax it calls (`thomas_triang_upper`, `thomas_backsub_lower`) and of `JaxleySolveIndexer`
(jaxley/utils/solver_utils.py): the padded flat layout (`cumsum_ncomp`, `ncomp_per_branch`, `first`, `last`,
`_padded_last`), the level schedule (`children_in_level`, `parents_in_level`, `root_inds`).  Import-free.

Arrays are total functions `Nat → K` (a jnp array with its in-bounds accesses); `.at[i].set/add` is `upd`.
A `vmap` over the branches of one level reads the OLD arrays and writes disjoint cells; it is modelled as a
fold that reads from the state at the start of the level step.
-/
import JaxleyVerif.Model.Hines
namespace JaxleyVerif.Model.SolveJaxley
open JaxleyVerif.Model

/-- `arr.at[i].set(v)` -/
def upd {K : Type} (f : Nat → K) (i : Nat) (v : K) : Nat → K := fun j => if j = i then v else f j

/-- `JaxleySolveIndexer` -/
structure Idx where
  cumsum : Nat → Nat        -- `cumsum_ncomp`: start of the (padded) slot of every branch; `cumsum (b+1)` is its end
  ncomp : Nat → Nat         -- `ncomp_per_branch`: real number of compartments
namespace Idx
def first (ix : Idx) (b : Nat) : Nat := ix.cumsum b
def last (ix : Idx) (b : Nat) : Nat := ix.cumsum b + ix.ncomp b - 1
def paddedLast (ix : Idx) (b : Nat) : Nat := ix.cumsum (b + 1) - 1
end Idx

/-- the arrays the solver works on -/
structure St (K : Type) where
  diags : Nat → K
  lowers : Nat → K
  uppers : Nat → K
  solves : Nat → K
  bpDiags : Nat → K         -- per branch point
  bpSolves : Nat → K
  condC : Nat → K           -- `branchpoint_conds_children`   (per branch; coefficient of x_bp in the row of the first compartment)
  weightC : Nat → K         -- `branchpoint_weights_children` (coefficient of x_first in the branch-point row)
  condP : Nat → K           -- `branchpoint_conds_parents`    (coefficient of x_bp in the row of the last compartment)
  weightP : Nat → K         -- `branchpoint_weights_parents`  (coefficient of x_last in the branch-point row)

/-- the level schedule -/
structure Sched where
  childrenInLevel : List (List (Nat × Nat))    -- per level: (child branch, branch point)
  parentsInLevel : List (List (Nat × Nat))     -- per level: (parent branch, branch point)
  roots : List Nat

variable {K : Type} [Add K] [Sub K] [Mul K] [Div K] [Neg K] [OfNat K 0] [OfNat K 1]

/-! ### tridiax: Thomas triangulation (removing the upper diagonal) and back substitution on one slot `[s, e]` -/

/-- rows `e-1, …, s+1` (`k` of them remain; the row being processed is `s + k`); `u`, `y` are the already normalised entries -/
def triangMid (d lo up b : Nat → K) (s : Nat) : Nat → (Nat → K) × (Nat → K) → (Nat → K) × (Nat → K)
  | 0, uy => uy
  | k + 1, (u, y) =>
    let i := s + (k + 1)
    let p := d i - up i * u (i + 1)
    triangMid d lo up b s k (upd u i (lo i / p), upd y i ((b i - up i * y (i + 1)) / p))

/-- `thomas_triang_upper` applied to the slot `[s, e]` of the flat arrays, results written back as `_triang_level` does
(`diags`, `lowers`, `solves` set to the returned arrays, `uppers` set to 0) -/
def triangSlot (st : St K) (s e : Nat) : St K :=
  if e ≤ s then { st with uppers := st.uppers }      -- one row: tridiax returns its inputs unchanged
  else
    let d := st.diags; let lo := st.lowers; let up := st.uppers; let b := st.solves
    let u0 : Nat → K := upd (fun _ => 0) e (lo e / d e)
    let y0 : Nat → K := upd (fun _ => 0) e (b e / d e)
    let (u, y) := triangMid d lo up b s (e - s - 1) (u0, y0)
    let d0 := d s - up s * u (s + 1)
    let ys := b s - up s * y (s + 1)
    { st with
      diags := fun j => if j = s then d0 else if s < j ∧ j ≤ e then 1 else st.diags j
      lowers := fun j => if s < j ∧ j ≤ e then u j else st.lowers j
      solves := fun j => if j = s then ys else if s < j ∧ j ≤ e then y j else st.solves j
      uppers := fun j => if s ≤ j ∧ j < e then 0 else st.uppers j }

/-- forward substitution `x_s = y_s / d_s`, `x_i = y_i − u_i x_{i−1}` for `k` further rows -/
def backMid (lo y : Nat → K) (s : Nat) : Nat → (Nat → K) → (Nat → K)
  | 0, x => x
  | k + 1, x =>
    let x' := backMid lo y s k x
    let i := s + (k + 1)
    upd x' i (y i - lo i * x' (i - 1))

/-- `thomas_backsub_lower` on the slot `[s, e]`, written back as `_backsub_level` does (`lowers` := 0, `diags` := 1) -/
def backsubSlot (st : St K) (s e : Nat) : St K :=
  let x0 : Nat → K := upd st.solves s (st.solves s / st.diags s)
  let x := backMid st.lowers st.solves s (e - s) x0
  { st with
    solves := fun j => if s ≤ j ∧ j ≤ e then x j else st.solves j
    lowers := fun j => if s < j ∧ j ≤ e then 0 else st.lowers j
    diags := fun j => if s ≤ j ∧ j ≤ e then 1 else st.diags j }

/-! ### one level -/

def triangLevel (ix : Idx) (bs : List Nat) (st : St K) : St K :=
  bs.foldl (fun acc b => triangSlot acc (ix.first b) (ix.paddedLast b)) st

def backsubLevel (ix : Idx) (bs : List Nat) (st : St K) : St K :=
  bs.foldl (fun acc b => backsubSlot acc (ix.first b) (ix.paddedLast b)) st

/-- `_eliminate_children_lower`: fold the (triangulated) first row of every child of the level into its branch-point row -/
def elimChildrenLower (ix : Idx) (cil : List (Nat × Nat)) (st : St K) : St K :=
  cil.foldl (fun acc (bp : Nat × Nat) =>
    let b := bp.1; let p := bp.2
    let f := -(st.weightC b) / st.diags (ix.first b)
    { acc with
      bpDiags := upd acc.bpDiags p (acc.bpDiags p + f * st.condC b)
      bpSolves := upd acc.bpSolves p (acc.bpSolves p + f * st.solves (ix.first b))
      weightC := upd acc.weightC b 0 }) st

/-- `_eliminate_parents_upper`: eliminate the branch-point unknown from the last row of the parent -/
def elimParentsUpper (ix : Idx) (pil : List (Nat × Nat)) (st : St K) : St K :=
  pil.foldl (fun acc (bp : Nat × Nat) =>
    let b := bp.1; let p := bp.2
    let f := st.condP b / st.bpDiags p
    { acc with
      diags := upd acc.diags (ix.last b) (acc.diags (ix.last b) + -f * st.weightP b)
      solves := upd acc.solves (ix.last b) (acc.solves (ix.last b) + -f * st.bpSolves p)
      condP := upd acc.condP b 0 }) st

/-- `_eliminate_parents_lower` (back substitution): the branch-point right-hand side loses the parent's term -/
def elimParentsLower (ix : Idx) (pil : List (Nat × Nat)) (st : St K) : St K :=
  pil.foldl (fun acc (bp : Nat × Nat) =>
    let b := bp.1; let p := bp.2
    { acc with
      bpSolves := upd acc.bpSolves p (acc.bpSolves p + -(st.solves (ix.last b)) * st.weightP b / st.diags (ix.last b))
      weightP := upd acc.weightP b 0 }) st

/-- `_eliminate_children_upper` (back substitution): the first row of every child loses the branch-point term -/
def elimChildrenUpper (ix : Idx) (cil : List (Nat × Nat)) (st : St K) : St K :=
  cil.foldl (fun acc (bp : Nat × Nat) =>
    let b := bp.1; let p := bp.2
    { acc with
      solves := upd acc.solves (ix.first b) (acc.solves (ix.first b) + -(st.bpSolves p) * st.condC b / st.bpDiags p)
      condC := upd acc.condC b 0 }) st

/-! ### the two passes -/

/-- `_triang_branched`: levels from the deepest to the shallowest, then the roots -/
def triangBranched (ix : Idx) (sc : Sched) (st : St K) : St K :=
  let st' := ((sc.childrenInLevel.zip sc.parentsInLevel).reverse).foldl (fun acc (lv : List (Nat × Nat) × List (Nat × Nat)) =>
    let a1 := triangLevel ix (lv.1.map (·.1)) acc
    let a2 := elimChildrenLower ix lv.1 a1
    elimParentsUpper ix lv.2 a2) st
  triangLevel ix sc.roots st'

/-- `_backsub_branched`: roots first, then the levels from the shallowest to the deepest -/
def backsubBranched (ix : Idx) (sc : Sched) (st : St K) : St K :=
  let st0 := backsubLevel ix sc.roots st
  (sc.childrenInLevel.zip sc.parentsInLevel).foldl (fun acc (lv : List (Nat × Nat) × List (Nat × Nat)) =>
    let a1 := elimParentsLower ix lv.2 acc
    let a2 := elimChildrenUpper ix lv.1 a1
    backsubLevel ix (lv.1.map (·.1)) a2) st0

/-- the solver: both passes; the solution is read from `solves` -/
def solve (ix : Idx) (sc : Sched) (st : St K) : St K := backsubBranched ix sc (triangBranched ix sc st)

/-! ### the same system as a rose tree (Spec side: `Model.Hines`) -/

/-- the branch point at the distal end of branch `b` (if `b` is a parent) -/
def bpOfParent (sc : Sched) (b : Nat) : Option Nat :=
  (sc.parentsInLevel.flatten.find? (·.1 == b)).map (·.2)
/-- the child branches of branch point `p` -/
def childrenOfBp (sc : Sched) (p : Nat) : List Nat :=
  (sc.childrenInLevel.flatten.filter (·.2 == p)).map (·.1)

mutual
/-- compartment `i` (absolute flat index) of branch `b`, `up`/`down` given by the caller -/
def compTree (ix : Idx) (sc : Sched) (st : St K) (bpBase : Nat) : Nat → Nat → Nat → K → K → HTree K
  | 0, _, i, up, down => HTree.node i (st.diags i) (st.solves i) up down []
  | fuel + 1, b, i, up, down =>
    if i < ix.last b then
      HTree.node i (st.diags i) (st.solves i) up down [compTree ix sc st bpBase fuel b (i + 1) (st.lowers (i + 1)) (st.uppers i)]
    else
      match bpOfParent sc b with
      | none => HTree.node i (st.diags i) (st.solves i) up down []
      | some p =>
        HTree.node i (st.diags i) (st.solves i) up down
          [HTree.node (bpBase + p) (st.bpDiags p) (st.bpSolves p) (st.weightP b) (st.condP b)
            (kidsTree ix sc st bpBase fuel (childrenOfBp sc p))]
def kidsTree (ix : Idx) (sc : Sched) (st : St K) (bpBase : Nat) : Nat → List Nat → List (HTree K)
  | 0, _ => []
  | _, [] => []
  | fuel + 1, c :: cs =>
    compTree ix sc st bpBase fuel c (ix.first c) (st.condC c) (st.weightC c) :: kidsTree ix sc st bpBase fuel cs
end

/-- the rose tree of the system below root branch `r` -/
def treeOfRoot (ix : Idx) (sc : Sched) (st : St K) (bpBase fuel r : Nat) : HTree K :=
  compTree ix sc st bpBase fuel r (ix.first r) 0 0

/-- exact solution by the abstract Hines recursion, for all roots -/
def specSolve (ix : Idx) (sc : Sched) (st : St K) (bpBase fuel : Nat) : List (Nat × K) :=
  sc.roots.flatMap (fun r => HTree.solve (treeOfRoot ix sc st bpBase fuel r))

end JaxleyVerif.Model.SolveJaxley
