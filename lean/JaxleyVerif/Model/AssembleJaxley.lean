/-
Code-shaped model of the ASSEMBLY of the ten arrays the custom solver works on
(`step_voltage_implicit_with_jaxley_spsolve`, jaxley/solver_voltage.py, before `_triang_branched` is called), of the structural
facts the morphology builders guarantee about the typed edge table (`edgesWfB`), and of the PHYSICAL linear system in edge-list
form (`PhysSys`): the implicit-Euler cable equations, exactly the matrix `step_voltage_implicit_with_jax_spsolve` builds from
the same edge table.  Import-free apart from the solver model/spec.

Edge types: 0 comp → comp inside a branch, 1 branch point → last comp of its parent branch, 2 branch point → first comp of a
child branch, 3 parent's last comp → branch point, 4 child's first comp → branch point.
Node ids: compartments `0 .. n-1`, branch point `k` is node `n + k`.
-/
import JaxleyVerif.Model.SolveJaxleySpec
namespace JaxleyVerif.Model.SolveJaxley

/-- (source, sink, type, axial conductance) -/
abbrev Edge (K : Type) := Nat × Nat × Nat × K
def eSrc {K : Type} (e : Edge K) : Nat := e.1
def eSnk {K : Type} (e : Edge K) : Nat := e.2.1
def eTy {K : Type} (e : Edge K) : Nat := e.2.2.1
def eG {K : Type} (e : Edge K) : K := e.2.2.2

/-- the inputs of `step_voltage_implicit_with_jaxley_spsolve` -/
structure AsmIn (K : Type) where
  n : Nat                                  -- number of compartments (`internal_node_inds` = 0..n-1)
  v : Nat → K                              -- voltages
  vt : Nat → K                             -- voltage_terms
  ct : Nat → K                             -- constant_terms
  edges : List (Nat × Nat × Nat × K)       -- (source, sink, type, axial_conductance) in the order of the code's arrays
  mask : Nat → Nat                         -- idx.mask : compartment → flat padded cell
  parInds : List Nat                       -- par_inds[k]   : parent BRANCH of the k-th type-1 edge / branch point k
  childInds : List Nat                     -- child_inds[j] : child BRANCH of the j-th type-2 edge
  groupInds : List Nat                     -- idx.branchpoint_group_inds for concat(type-3 values, type-4 values)
  dt : K

/-- `arr[types == t]` : the edges of type `t`, in the order of the table -/
def edgesOf {K : Type} (inp : AsmIn K) (t : Nat) : List (Edge K) := inp.edges.filter (fun e => eTy e == t)

/-- `np.isin(types, [0, 1, 2])` -/
def isC2C (t : Nat) : Bool := t == 0 || t == 1 || t == 2

section assemble
variable {K : Type} [Add K] [Mul K] [Neg K] [OfNat K 0] [OfNat K 1]

/-- `base.at[inds].add(vals)` (the updates applied one after the other) -/
def scatterAdd (base : Nat → K) (upds : List (Nat × K)) : Nat → K :=
  upds.foldl (fun acc u => upd acc u.1 (acc u.1 + u.2)) base

/-- the same function, evaluated per cell (the closure chain of `scatterAdd` is re-evaluated by every later stage; compiled
code uses this form, by the kernel-checked equation `scatterAdd_eq_fast`) -/
def scatterAddFast (base : Nat → K) (upds : List (Nat × K)) : Nat → K :=
  fun j => upds.foldl (fun a u => if j = u.1 then a + u.2 else a) (base j)

@[csimp] theorem scatterAdd_eq_fast : @scatterAdd = @scatterAddFast := by
  funext K _ base upds j
  unfold scatterAdd scatterAddFast
  induction upds generalizing base with
  | nil => rfl
  | cons u us ih =>
    simp only [List.foldl_cons]
    rw [ih]
    congr 1
    unfold upd
    split
    · next h => subst h; rfl
    · rfl

/-- `base.at[inds].set(vals)` (later entries win) -/
def scatterSet (base : Nat → K) (upds : List (Nat × K)) : Nat → K :=
  upds.foldl (fun acc u => upd acc u.1 u.2) base

/-- the ten arrays handed to `_triang_branched` -/
def assembleJ (inp : AsmIn K) : St K :=
  -- c2c = np.isin(types, [0, 1, 2]);  diags = ones;  diags.at[mask(sinks[c2c])].add(dt * g[c2c])
  let c2c := inp.edges.filter (fun e => isC2C (eTy e))
  let diags1 := scatterAdd (fun _ => (1 : K)) (c2c.map (fun e => (inp.mask (eSnk e), inp.dt * eG e)))
  -- diags.at[mask(internal_node_inds)].add(dt * voltage_terms)
  let diags := scatterAdd diags1 ((List.range inp.n).map (fun i => (inp.mask i, inp.dt * inp.vt i)))
  -- solves = zeros;  solves.at[mask(internal_node_inds)].add(voltages + dt * constant_terms)
  let solves := scatterAdd (fun _ => (0 : K)) ((List.range inp.n).map (fun i => (inp.mask i, inp.v i + inp.dt * inp.ct i)))
  -- c2c = types == 0
  let e0 := edgesOf inp 0
  -- uppers.at[mask(sinks[c2c][sources > sinks])].add(-dt * g)
  let uppers := scatterAdd (fun _ => (0 : K))
    ((e0.filter (fun e => decide (eSnk e < eSrc e))).map (fun e => (inp.mask (eSnk e), -inp.dt * eG e)))
  -- lowers.at[mask(sinks[c2c][sources < sinks])].add(-dt * g)
  let lowers := scatterAdd (fun _ => (0 : K))
    ((e0.filter (fun e => decide (eSrc e < eSnk e))).map (fun e => (inp.mask (eSnk e), -inp.dt * eG e)))
  let condsParents := (edgesOf inp 1).map eG           -- axial_conductances[types == 1]
  let condsChildren := (edgesOf inp 2).map eG
  let weightsParents := (edgesOf inp 3).map eG
  let weightsChildren := (edgesOf inp 4).map eG
  -- branchpoint_diags = -group_and_sum(concat(w_parents, w_children), group_inds, num_branchpoints)
  let groupSums := scatterAdd (fun _ => (0 : K)) (inp.groupInds.zip (weightsParents ++ weightsChildren))
  let condsChildren' := condsChildren.map (fun g => -inp.dt * g)
  let condsParents' := condsParents.map (fun g => -inp.dt * g)
  { diags := diags
    lowers := lowers
    uppers := uppers
    solves := solves
    bpDiags := fun p => -(groupSums p)
    bpSolves := fun _ => 0
    condC := scatterSet (fun _ => (0 : K)) (inp.childInds.zip condsChildren')
    weightC := scatterSet (fun _ => (0 : K)) (inp.childInds.zip weightsChildren)
    condP := scatterSet (fun _ => (0 : K)) (inp.parInds.zip condsParents')
    weightP := scatterSet (fun _ => (0 : K)) (inp.parInds.zip weightsParents) }

/-- the padded vector of a compartment vector: cell `mask i` carries `xc i`, every other cell 0 -/
def padX (inp : AsmIn K) (xc : Nat → K) : Nat → K := fun j =>
  match (List.range inp.n).find? (fun i => inp.mask i == j) with
  | some i => xc i
  | none => 0

/-- `solves[mask(internal_node_inds)]` : what the code returns -/
def readBack (inp : AsmIn K) (st : St K) : Nat → K := fun i => st.solves (inp.mask i)

end assemble

/-! ### what the morphology builders guarantee about the tables -/

/-- structural well-formedness of the edge table / index tables relative to the indexer and the level schedule
(independent of all numbers) -/
def edgesWfB {K : Type} (ix : Idx) (sc : Sched) (inp : AsmIn K) : Bool :=
  let n := inp.n
  let bs := branchesOf sc
  let inSlot := fun (b j : Nat) => decide (ix.first b ≤ j) && decide (j ≤ ix.paddedLast b)
  let e0 := edgesOf inp 0
  let e1 := edgesOf inp 1
  let e2 := edgesOf inp 2
  let e3 := edgesOf inp 3
  let e4 := edgesOf inp 4
  -- (M1) `mask` is injective on the compartments
  nodupB ((List.range n).map inp.mask)
  -- (M2) every compartment lies in the slot of some branch of the schedule
  && (List.range n).all (fun i => bs.any (fun b => inSlot b (inp.mask i)))
  -- (E0) a type-0 edge joins two distinct compartments that are neighbouring cells of one slot, in the order of their ids
  && e0.all (fun e => decide (eSrc e < n) && decide (eSnk e < n) && !(eSrc e == eSnk e)
      && (!(decide (eSrc e < eSnk e)) || inp.mask (eSrc e) + 1 == inp.mask (eSnk e))
      && (!(decide (eSnk e < eSrc e)) || inp.mask (eSnk e) + 1 == inp.mask (eSrc e))
      && bs.any (fun b => inSlot b (inp.mask (eSrc e)) && inSlot b (inp.mask (eSnk e))))
  -- (P) parents: one type-1 and one type-3 edge per entry of `par_inds`, no parent branch twice
  && (inp.parInds.length == e1.length) && (inp.parInds.length == e3.length) && nodupB inp.parInds
  -- (P1) the k-th type-1 edge runs from a branch-point node into the last compartment of branch `par_inds[k]`,
  --      and the schedule knows that branch point as the one at the end of that branch
  && (inp.parInds.zip e1).all (fun be => decide (eSnk be.2 < n) && inp.mask (eSnk be.2) == ix.last be.1
      && decide (n ≤ eSrc be.2) && bpOfParent sc be.1 == some (eSrc be.2 - n))
  -- (P3) the k-th type-3 edge runs from the last compartment of branch `par_inds[k]` into that branch-point node
  && (inp.parInds.zip e3).all (fun be => decide (eSrc be.2 < n) && inp.mask (eSrc be.2) == ix.last be.1
      && decide (n ≤ eSnk be.2) && bpOfParent sc be.1 == some (eSnk be.2 - n))
  -- (C) children: one type-2 and one type-4 edge per entry of `child_inds`, no child branch twice
  && (inp.childInds.length == e2.length) && (inp.childInds.length == e4.length) && nodupB inp.childInds
  -- (C2) the j-th type-2 edge runs from a branch-point node into the first compartment of branch `child_inds[j]`,
  --      and the schedule knows that branch point as the one this branch hangs on
  && (inp.childInds.zip e2).all (fun be => decide (eSnk be.2 < n) && inp.mask (eSnk be.2) == ix.first be.1
      && decide (n ≤ eSrc be.2) && bpOfChild sc be.1 == some (eSrc be.2 - n))
  -- (C4) the j-th type-4 edge runs from the first compartment of branch `child_inds[j]` into that branch-point node
  && (inp.childInds.zip e4).all (fun be => decide (eSrc be.2 < n) && inp.mask (eSrc be.2) == ix.first be.1
      && decide (n ≤ eSnk be.2) && bpOfChild sc be.1 == some (eSnk be.2 - n))
  -- (G) `branchpoint_group_inds` sends every type-3 / type-4 value to the branch point it flows into
  && (inp.groupInds == (e3 ++ e4).map (fun e => eSnk e - n))
  -- (S) every parent / child pair of the schedule has its edges
  && (pairsP sc).all (fun q => inp.parInds.contains q.1) && (pairsC sc).all (fun c => inp.childInds.contains c.1)
  -- (B) the k-th type-3 edge flows into branch point k
  && (e3.map (fun e => eSnk e - n) == List.range inp.parInds.length)

/-! ### the physical system in edge-list form -/

section phys
variable {K : Type} [Add K] [Sub K] [Mul K] [Neg K] [OfNat K 0] [OfNat K 1]

/-- left-hand side of the implicit-Euler equation of compartment `i` -/
def physRowComp (inp : AsmIn K) (xc z : Nat → K) (i : Nat) : K :=
  (1 + inp.dt * inp.vt i
      + inp.dt * sumL ((inp.edges.filter (fun e => eSnk e == i && isC2C (eTy e))).map eG)) * xc i
  - inp.dt * sumL ((inp.edges.filter (fun e => eSnk e == i && eTy e == 0)).map (fun e => eG e * xc (eSrc e)))
  - inp.dt * sumL ((inp.edges.filter (fun e => eSnk e == i && (eTy e == 1 || eTy e == 2))).map
      (fun e => eG e * z (eSrc e - inp.n)))

/-- its right-hand side -/
def physRhsComp (inp : AsmIn K) (i : Nat) : K := inp.v i + inp.dt * inp.ct i

/-- left-hand side of the Kirchhoff equation of branch point `p` (right-hand side 0) -/
def physRowBp (inp : AsmIn K) (xc z : Nat → K) (p : Nat) : K :=
  -(sumL ((inp.edges.filter (fun e => eSnk e == inp.n + p && (eTy e == 3 || eTy e == 4))).map eG)) * z p
  + sumL ((inp.edges.filter (fun e => eSnk e == inp.n + p && (eTy e == 3 || eTy e == 4))).map
      (fun e => eG e * xc (eSrc e)))

/-- number of branch points (`len(branchpoint_conds_parents)`) -/
def numBp (inp : AsmIn K) : Nat := inp.parInds.length

/-- `(xc, z)` solves the implicit-Euler cable system given by the edge table -/
def PhysSys (inp : AsmIn K) (xc z : Nat → K) : Prop :=
  (∀ i, i < inp.n → physRowComp inp xc z i = physRhsComp inp i) ∧
  (∀ p, p < numBp inp → physRowBp inp xc z p = 0)

def physSysB [BEq K] (inp : AsmIn K) (xc z : Nat → K) : Bool :=
  (List.range inp.n).all (fun i => physRowComp inp xc z i == physRhsComp inp i)
  && (List.range (numBp inp)).all (fun p => physRowBp inp xc z p == 0)

end phys
end JaxleyVerif.Model.SolveJaxley
