/-
Model of `jax.lax.scan`, `nested_checkpoint_scan` / `_inner_nested_scan` (jaxley/utils/jax_utils.py) and of the
time-axis logic of `integrate` (jaxley/integrate.py): padding / truncation with `t_max`, zero padding up to
`prod(checkpoint_lengths)`, recording of the initial state, truncation of the outputs.  Import-free.
`jax.checkpoint` is the identity on values; `reshape` to `(l₀, l₁, …)` is chunking.
-/
namespace JaxleyVerif.Model

variable {σ ι ο : Type}

/-- `lax.scan`: thread the carry, collect the outputs -/
def scan (f : σ → ι → σ × ο) (s : σ) : List ι → σ × List ο
  | [] => (s, [])
  | x :: xs =>
    let r := f s x
    let t := scan f r.1 xs
    (t.1, r.2 :: t.2)

/-- split a list into consecutive chunks of length `n` (`x.reshape((l₀, n, …))`) -/
def chunks (n : Nat) : Nat → List ι → List (List ι)
  | 0, _ => []
  | k + 1, xs => xs.take n :: chunks n k (xs.drop n)

def prodL : List Nat → Nat
  | [] => 1
  | l :: ls => l * prodL ls

/-- outer scan over chunks with an inner function returning lists of outputs; outputs concatenated
(`jax.tree_util.tree_map(jnp.concatenate, out)`) -/
def scanChunks (g : σ → List ι → σ × List ο) (s : σ) : List (List ι) → σ × List ο
  | [] => (s, [])
  | c :: cs =>
    let r := g s c
    let t := scanChunks g r.1 cs
    (t.1, r.2 ++ t.2)

/-- `_inner_nested_scan f init xs lengths` -/
def nested (f : σ → ι → σ × ο) : List Nat → σ → List ι → σ × List ο
  | [], s, xs => scan f s xs            -- not reachable from the API (lengths is non-empty)
  | [_], s, xs => scan f s xs
  | l :: l' :: ls, s, xs => scanChunks (nested f (l' :: ls)) s (chunks (prodL (l' :: ls)) l xs)

/-! ### `integrate`'s time axis -/

/-- the scan body of `integrate`: one `step_fn` unless the step is padding (then the state is kept), followed by the
gather of the recorded states -/
def body (step : σ → ι → σ) (rec0 : σ → ο) (s : σ) (inp : ι × Bool) : σ × ο :=
  let s' := if inp.2 then s else step s inp.1
  (s', rec0 s')

/-- what `integrate` does with the (already padded/truncated by `t_max`) inputs `xs`, a zero input `zero`,
and `checkpoint_lengths` (`none` = no checkpointing): returns (recordings incl. the initial one, returned state).
The inputs are zipped with `is_padding = arange(length) >= nsteps_to_return`. -/
def integrateCore (step : σ → ι → σ) (rec0 : σ → ο) (zero : ι) (s : σ) (xs : List ι) (ck : Option (List Nat)) :
    List ο × σ :=
  let n := xs.length
  let ls := match ck with | none => [n] | some ls => ls
  let len := prodL ls
  let padded := xs.map (fun x => (x, false)) ++ List.replicate (len - n) (zero, true)
  let r := nested (body step rec0) ls s padded
  (rec0 s :: r.2.take n, r.1)

/-- pad a stimulus with zeros or truncate any input to `t_max_steps` samples -/
def fitToTmax (zero : ι) (steps : Nat) (xs : List ι) : List ι :=
  if steps > xs.length then xs ++ List.replicate (steps - xs.length) zero else xs.take steps

end JaxleyVerif.Model
