/-
Hand model of jaxley's View machinery (jaxley/modules/base.py): `_reformat_index`, `_at_nodes`, `_at_edges`,
`select`, `scope`, `loc`, group / channel / synapse-type views, `_set_inds_in_view`, `_update_local_indices`,
`__getitem__`, iteration.  Import-free.  A view is the ordered list of node labels and edge labels it shows
(`_nodes_in_view`, `_edges_in_view`) plus its scope.
-/
namespace JaxleyVerif.Model.Views

structure Node where
  cell : Nat
  branch : Nat
  comp : Nat
deriving DecidableEq, Repr

structure Edge where
  pre : Nat        -- global compartment index
  post : Nat
  ty : String
deriving DecidableEq, Repr

/-- the part of the base module the views read -/
structure Base where
  kind : Nat                              -- 0 network, 1 cell, 2 branch, 3 compartment
  nodes : Array Node                      -- row label = position
  edges : Array Edge                      -- row label = position = global_edge_index
  ncompPerBranch : Array Nat              -- by global branch index
  cumsumNcomp : Array Nat                 -- by global branch index (leading zero)
  groups : List (String × List Nat)
  chans : List (String × List Nat)        -- channel name ↦ labels of rows that contain it

inductive Scope | glob | loc
deriving DecidableEq, Repr

structure View where
  nodes : List Nat
  edges : List Nat
  scope : Scope
  cur : String := "view"        -- `_current_view`: how this view was obtained (drives `__getitem__`)
  /-- the column `local_edge_index`, which exists only below a synapse-type view (label ↦ value assigned there) -/
  ledge : Option (List (Nat × Nat)) := Option.none
deriving Repr

inductive Key | cell | branch | comp
deriving DecidableEq, Repr

/-- first-occurrence distinct (`pd.unique`) -/
def distinct : List Nat → List Nat
  | [] => []
  | x :: xs => x :: (distinct xs).filter (· ≠ x)

/-- ascending distinct (`np.unique`) -/
def insertSorted (x : Nat) : List Nat → List Nat
  | [] => [x]
  | y :: ys => if x < y then x :: y :: ys else if x == y then y :: ys else y :: insertSorted x ys
def sortedDistinct (l : List Nat) : List Nat := l.foldl (fun acc x => insertSorted x acc) []

/-- `rank(method="dense") − 1`: number of distinct values smaller than `x` -/
def denseRank (x : Nat) (vals : List Nat) : Nat := ((distinct vals).filter (· < x)).length

def nodeOf (b : Base) (l : Nat) : Node := b.nodes.getD l ⟨0, 0, 0⟩
def globalIdx (b : Base) (k : Key) (l : Nat) : Nat :=
  match k with | .cell => (nodeOf b l).cell | .branch => (nodeOf b l).branch | .comp => (nodeOf b l).comp

/-- `_update_local_indices`: dense rank of the cell among the cells in view; of the branch among the branches of the
same cell in view; of the compartment among the compartments of the same (cell, branch) in view -/
def localIdx (b : Base) (v : List Nat) (k : Key) (l : Nat) : Nat :=
  let n := nodeOf b l
  match k with
  | .cell => denseRank n.cell (v.map (fun m => (nodeOf b m).cell))
  | .branch => denseRank n.branch ((v.filter (fun m => (nodeOf b m).cell == n.cell)).map (fun m => (nodeOf b m).branch))
  | .comp => denseRank n.comp ((v.filter (fun m => (nodeOf b m).cell == n.cell && (nodeOf b m).branch == n.branch)).map
      (fun m => (nodeOf b m).comp))

def idxIn (b : Base) (v : View) (k : Key) (l : Nat) : Nat :=
  match v.scope with | .glob => globalIdx b k l | .loc => localIdx b v.nodes k l

/-! ### index expressions (`_reformat_index`) -/

inductive Idx where
  | all
  | none
  | int (k : Int)
  | list (l : List Int)
  | range (a b s : Int)                       -- python `range(a, b, s)`, s > 0
  | slice (a b : Option Nat) (s : Nat)         -- python `slice(a, b, s)`, non-negative bounds, s ≥ 1
  | mask (m : List Bool)
deriving Repr

def rangeList (a b s : Int) (fuel : Nat) : List Int :=
  match fuel with
  | 0 => []
  | f + 1 => if a < b then a :: rangeList (a + s) b s f else []

/-- `shape` of a view: numbers of distinct cells / branches / compartments in view, cut to the module level -/
def shape (b : Base) (v : View) : List Nat :=
  let raw := [(distinct (v.nodes.map (globalIdx b .cell))).length, (distinct (v.nodes.map (globalIdx b .branch))).length,
              (distinct (v.nodes.map (globalIdx b .comp))).length]
  raw.drop b.kind

/-- resolve an index expression to `none` (= "all") or an explicit list; `Except` models the assertion errors -/
def reformat (b : Base) (v : View) : Idx → Except String (Option (List Int))
  | .all => .ok Option.none
  | .none => .ok (some [])
  | .int k => .ok (some [k])
  | .list l => .ok (some l)
  | .range a c s => .ok (some (rangeList a c s (c - a).toNat.succ))
  | .slice a c s =>
      let n := b.nodes.size
      let lo := a.getD 0
      let hi := min (c.getD n) n
      .ok (some ((rangeList lo hi s (n + 1))))
  | .mask m =>
      let sh := shape b v ++ [v.edges.length]
      match sh.find? (· == m.length) with
      | Option.none => .error "assert"
      | some _ => .ok (some ((List.range m.length).filter (fun i => m.getD i false) |>.map Int.ofNat))

def memInt (x : Nat) (l : List Int) : Bool := l.contains (Int.ofNat x)

/-! ### edges in view after a node selection (`_set_inds_in_view`, node indices given) -/

def compsOf (b : Base) (ls : List Nat) : List Nat := distinct (ls.map (globalIdx b .comp))

def edgesAfterNodes (b : Base) (ptrEdges : List Nat) (newNodes : List Nat) : List Nat :=
  let comps := compsOf b newNodes
  let possible := (List.range b.edges.size).filter (fun e =>
    let ed := b.edges.getD e ⟨0, 0, ""⟩
    comps.contains ed.pre && comps.contains ed.post)
  -- np.intersect1d: ascending, unique
  sortedDistinct (possible.filter (fun e => ptrEdges.contains e))

/-- nodes in view after an edge selection (`_set_inds_in_view`, edge indices given) -/
def nodesAfterEdges (b : Base) (ptrNodes : List Nat) (newEdges : List Nat) : List Nat :=
  let comps := sortedDistinct (newEdges.flatMap (fun e => let ed := b.edges.getD e ⟨0, 0, ""⟩; [ed.pre, ed.post]))
  let possible := (List.range b.nodes.size).filter (fun l => comps.contains (globalIdx b .comp l))
  sortedDistinct (possible.filter (fun l => ptrNodes.contains l))

def hasChildview (b : Base) (k : Key) : Bool :=
  match k with | .cell => b.kind < 1 | .branch => b.kind < 2 | .comp => b.kind < 3

/-- which rows of the parent view a resolved index keeps -/
def keepFn (b : Base) (v : View) (k : Key) (r : Option (List Int)) (lab : Nat) : Bool :=
  match r with
  | Option.none => true
  | some l => memInt (idxIn b v k lab) l

def keyName : Key → String | .cell => "cell" | .branch => "branch" | .comp => "comp"

/-- `_at_nodes(key, idx)` -/
def atNodes (b : Base) (v : View) (k : Key) (i : Idx) : Except String View :=
  if !hasChildview b k then .error "assert" else
  match reformat b v i with
  | .error e => .error e
  | .ok r =>
    let ns := v.nodes.filter (keepFn b v k r)
    if ns.isEmpty then .error "valueerror"
    else .ok { nodes := ns, edges := edgesAfterNodes b v.edges ns, scope := v.scope, ledge := v.ledge, cur := keyName k }

/-- `select(nodes=…, edges=…)`: explicit labels (no scope involved); `none` leaves that side to `_set_inds_in_view` -/
def select (b : Base) (v : View) (nodes : Option (List Nat)) (edges : Option (List Nat)) : Except String View :=
  match nodes, edges with
  | Option.none, Option.none => .ok { v with cur := "filter" }
  | some ns, Option.none =>
      if ns.isEmpty then .error "valueerror" else
      if ns.any (fun l => l ≥ b.nodes.size || !(v.nodes.contains l)) then .error "keyerror" else
      .ok { nodes := ns, edges := edgesAfterNodes b v.edges ns, scope := v.scope, cur := "filter", ledge := v.ledge }
  | Option.none, some es =>
      if es.any (fun e => e ≥ b.edges.size || !(v.edges.contains e)) then .error "keyerror" else
      let ns := nodesAfterEdges b v.nodes es
      if ns.isEmpty then .error "valueerror" else .ok { nodes := ns, edges := es, scope := v.scope, cur := "filter", ledge := v.ledge }
  | some ns, some es =>
      if ns.isEmpty then .error "valueerror" else
      if ns.any (fun l => !(v.nodes.contains l)) || es.any (fun e => !(v.edges.contains e)) then .error "keyerror" else
      .ok { nodes := ns, edges := es, scope := v.scope, cur := "filter", ledge := v.ledge }

def setScope (v : View) (s : Scope) : View := { v with scope := s, cur := "view" }

/-- `loc(x)` for a numeric location: compartment `min(⌊x·n_b·(1/(1+1e-10))⌋, …)` — the bin of `x` among
`linspace(0, 1+1e-10, n_b+1)` — of every branch in view; the digitize result is supplied by `bin` -/
def locView (b : Base) (v : View) (bin : Nat → Nat) : Except String View :=
  let branches := distinct (v.nodes.map (globalIdx b .branch))
  let comps := branches.map (fun br => bin (b.ncompPerBranch.getD br 1) + b.cumsumNcomp.getD br 0)
  let keep := v.nodes.filter (fun l => comps.contains (globalIdx b .comp l))
  if keep.isEmpty then .error "valueerror"
  else .ok { nodes := keep, edges := edgesAfterNodes b v.edges keep, scope := v.scope, cur := "loc", ledge := v.ledge }

/-- `loc("all")` (after the N2 fix): every compartment of every branch in view -/
def locAll (b : Base) (v : View) : Except String View :=
  let branches := distinct (v.nodes.map (globalIdx b .branch))
  let comps := branches.flatMap (fun br =>
    (List.range (b.ncompPerBranch.getD br 1)).map (fun k => k + b.cumsumNcomp.getD br 0))
  let keep := v.nodes.filter (fun l => comps.contains (globalIdx b .comp l))
  if keep.isEmpty then .error "valueerror"
  else .ok { nodes := keep, edges := edgesAfterNodes b v.edges keep, scope := v.scope, cur := "loc", ledge := v.ledge }

/-- group view `module.<group>` : `select(groups[name] ∩ nodes in view)` (np.intersect1d: ascending) -/
def groupView (b : Base) (v : View) (name : String) : Except String View :=
  match b.groups.find? (·.1 == name) with
  | Option.none => .error "attributeerror"
  | some g =>
    let inView := sortedDistinct (g.2.filter (fun l => v.nodes.contains l))
    (select b v (some inView) Option.none).map (fun w => { w with cur := name })

/-- channel view `module.<Channel>` : rows of the current view that contain the channel.
NB (mirrors the code, known finding N8): if NO row in view contains the channel the code returns `select(None)`,
i.e. the whole current view. -/
def channelView (b : Base) (v : View) (name : String) : Except String View :=
  match b.chans.find? (·.1 == name) with
  | Option.none => .error "attributeerror"
  | some c =>
    let rows := v.nodes.filter (fun l => c.2.contains l)
    if rows.isEmpty then .ok { v with cur := name }
    else (select b v (some rows) Option.none).map (fun w => { w with cur := name })

/-- `_at_edges("edge", idx)`: by `global_edge_index` in global scope; in local scope by the column
`local_edge_index`, which only exists below a synapse-type view (otherwise `KeyError`) -/
def atEdges (b : Base) (v : View) (i : Idx) : Except String View := do
  if v.scope == .loc && v.ledge.isNone then throw "keyerror"
  let r ← reformat b v i
  let key : Nat → Nat := fun e => match v.scope, v.ledge with
    | .loc, some tbl => (match tbl.find? (·.1 == e) with | some p => p.2 | Option.none => e)
    | _, _ => e
  let es := match r with
    | Option.none => v.edges
    | some l => v.edges.filter (fun e => memInt (key e) l)
  let ns := nodesAfterEdges b v.nodes es
  if ns.isEmpty then throw "valueerror"
  pure { nodes := ns, edges := es, scope := v.scope, cur := "edge", ledge := v.ledge }

/-- synapse-type view `net.<SynapseName>`; as for channels, a type that exists in the base but not in the current view
yields the whole current view (`select(None)`) -/
def synapseView (b : Base) (v : View) (name : String) : Except String View :=
  if !(b.edges.toList.any (fun e => e.ty == name)) then .error "attributeerror" else
  let es := v.edges.filter (fun e => (b.edges.getD e ⟨0, 0, ""⟩).ty == name)
  if es.isEmpty then .ok { v with cur := name, ledge := some (v.edges.zipIdx) }
  else
    let ns := nodesAfterEdges b v.nodes es
    if ns.isEmpty then .error "valueerror"
    else .ok { nodes := ns, edges := es, scope := v.scope, cur := name, ledge := some (es.zipIdx) }

def kindName (b : Base) : String := match b.kind with | 0 => "network" | 1 => "cell" | 2 => "branch" | _ => "comp"

def fullView (b : Base) : View :=
  { nodes := List.range b.nodes.size, edges := List.range b.edges.size, scope := .loc, cur := kindName b }

/-- `_childviews()`: the levels below `_current_view` (empty if the view was not obtained by cell/branch/comp) -/
def childKeys (cur : String) : List Key :=
  match cur with
  | "network" => [Key.cell, Key.branch, Key.comp]
  | "cell" => [Key.branch, Key.comp]
  | "branch" => [Key.comp]
  | _ => []

/-- `__getitem__`: successive `_at_nodes` over the child levels of the CURRENT view -/
def getItem (b : Base) (v : View) (idx : List Idx) : Except String View :=
  if (b.groups.any (·.1 == v.cur)) && !(["network", "cell", "branch"].contains v.cur) then .error "assert"
  else if idx.length > (childKeys v.cur).length then .error "assert"
  else (idx.zip (childKeys v.cur)).foldlM (fun vw p => atNodes b vw p.2 p.1) v

/-- iteration at level `k`: one view per distinct index (in the view's scope) in order of first appearance -/
def iterViews (b : Base) (v : View) (k : Key) : List (Except String View) :=
  (distinct (v.nodes.map (idxIn b v k))).map (fun i => atNodes b v k (.int (Int.ofNat i)))

end JaxleyVerif.Model.Views
