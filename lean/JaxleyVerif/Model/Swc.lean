/-
Executable model of jaxley's SWC reader (`jaxley/io/swc.py`: `swc_to_jaxley`, `read_swc`; helpers in
`jaxley/utils/cell_utils.py`).  The model MIRRORS the Python code statement by statement, quirks included, over `Float`
(IEEE double; numpy's summation order is reproduced).  Where the Python code would raise, the model returns
`Except.error` with a reason.

Domain of the model (checked by `inDomain`, otherwise `error "domain"`): at least two rows, every id in `1..n`, the first
row has parent `-1`, every other row has a parent in `1..n`.  (Outside it numpy's negative-index wrap-around would be
needed; such files are not trees.)
-/
import JaxleyVerif.Prelude.Scalar
namespace JaxleyVerif.Model.Swc

structure Point where
  id : Nat
  type : Nat
  x : Float
  y : Float
  z : Float
  r : Float
  parent : Int
deriving Inhabited

abbrev Content := Array Point

/-- `content[id - 1]` -/
def row (c : Content) (id : Nat) : Point := c.getD (id - 1) default

def inDomain (c : Content) : Bool :=
  let n := c.size
  n ≥ 2
  && c.all (fun p => 1 ≤ p.id && p.id ≤ n)
  && (c.getD 0 default).parent == -1
  && (c.toList.drop 1).all (fun p => 1 ≤ p.parent && p.parent ≤ (n : Int))

/-- `types[0] == 1 and types[1] != 1` -/
def isSinglePointSoma (c : Content) : Bool :=
  (c.getD 0 default).type == 1 && (c.getD 1 default).type != 1

/-! ### numpy helpers -/

/-- Python slice `l[start:stop]` (negative indices count from the end; `none` = open end). -/
def pySlice {α} (l : List α) (start : Int) (stop : Option Int) : List α :=
  let n : Int := l.length
  let norm (i : Int) : Nat := if i < 0 then (max (i + n) 0).toNat else (min i n).toNat
  let s := norm start
  let e := match stop with | none => l.length | some j => norm j
  (l.drop s).take (e - s)

/-- numpy's `pairwise_sum` for contiguous doubles (`n < 8`: plain loop; `n ≤ 128`: 8 accumulators; else halves). -/
def pairwiseSum (a : Array Float) : (fuel lo n : Nat) → Float
  | 0, _, _ => 0.0
  | fuel + 1, lo, n =>
    if n < 8 then
      (List.range n).foldl (fun res i => res + a.getD (lo + i) 0.0) 0.0
    else if n ≤ 128 then
      let r0 : Array Float := (Array.range 8).map (fun j => a.getD (lo + j) 0.0)
      let blocks := (n - n % 8) / 8          -- block 0 initialises the accumulators
      let r := (List.range (blocks - 1)).foldl
        (fun r b => (Array.range 8).map (fun j => r.getD j 0.0 + a.getD (lo + 8 * (b + 1) + j) 0.0)) r0
      let g (j : Nat) := r.getD j 0.0
      let res := ((g 0 + g 1) + (g 2 + g 3)) + ((g 4 + g 5) + (g 6 + g 7))
      (List.range (n % 8)).foldl (fun res i => res + a.getD (lo + (n - n % 8) + i) 0.0) res
    else
      let n2 := n / 2
      let n2 := n2 - n2 % 8
      pairwiseSum a fuel lo n2 + pairwiseSum a fuel (lo + n2) (n - n2)

/-- `np.sum` of a 1-d float64 array: identity `0` plus the pairwise sum. -/
def npSum (l : List Float) : Float :=
  let a := l.toArray
  0.0 + pairwiseSum a (a.size + 1) 0 a.size

/-- `np.cumsum` (sequential). -/
def npCumsum : List Float → List Float
  | [] => []
  | x :: xs => (xs.foldl (fun (acc : List Float × Float) y => let s := acc.2 + y; (s :: acc.1, s)) ([x], x)).1.reverse

/-- `np.linspace(start, stop, n)` (endpoint = True). -/
def npLinspace (start stop : Float) (n : Nat) : List Float :=
  if n == 0 then []
  else
    let div := n - 1
    let delta := stop - start
    if div == 0 then [0.0 * delta + start]
    else
      let step := delta / div.toFloat
      let y : List Float :=
        if step == 0.0 then (List.range n).map (fun k => (k.toFloat / div.toFloat) * delta + start)
        else (List.range n).map (fun k => k.toFloat * step + start)
      y.take (n - 1) ++ [stop]                 -- `y[-1] = stop`

/-! ### `_split_into_branches` -/

/-- first loop: parents at which a new branch starts (`branch_inds`). -/
def branchInds (c : Content) : List Int :=
  (c.toList.foldl
    (fun (acc : List Int × Option (Nat × Nat)) p =>
      let isNew := match acc.2 with
        | none => true                                          -- `x != None`
        | some (prevInd, prevType) => p.parent != (prevInd : Int) || p.type != prevType
      ((if isNew then p.parent :: acc.1 else acc.1), some (p.id, p.type)))
    ([], none)).1.reverse

structure SplitState where
  branches : Array (List Nat) := #[]
  cur : List Nat := []
  types : Array Nat := #[]
  /-- Python's `current_type` (assigned from every non-root row) -/
  curType : Nat
  /-- type of the second traced point: the type of the branch that follows a single-point soma (D1 fix) -/
  secondType : Nat := 0

def splitStep (inds1 : List Int) (sps : Bool) (st : SplitState) (p : Point) : SplitState :=
  let st := if p.parent == -1 then { st with types := st.types.push p.type } else { st with curType := p.type }
  let st := if p.parent == -1 && sps && p.id == 1 then
      { st with branches := st.branches.push [p.id], types := st.types.push st.secondType } else st
  if inds1.contains p.parent then
    let st := if st.cur.length > 1 then
        { st with branches := st.branches.push st.cur, types := st.types.push st.curType } else st
    { st with cur := [p.parent.toNat, p.id] }
  else
    { st with cur := st.cur ++ [p.id] }

/-- `_split_into_branches`: branches as lists of point ids, and `all_types`. -/
def splitIntoBranches (c : Content) (sps : Bool) : List (List Nat) × List Nat :=
  let inds1 := (branchInds c).drop 1
  let st0 : SplitState := { curType := (c.toList.getLast?.map (·.type)).getD 0, secondType := (c.getD 1 default).type }
  let st := c.toList.foldl (splitStep inds1 sps) st0
  ((st.branches.push st.cur).toList, st.types.toList)

/-! ### `_compute_pathlengths` -/

def dist (a b : Point) : Float :=
  let dx := b.x - a.x; let dy := b.y - a.y; let dz := b.z - a.z
  Float.sqrt (dx * dx + dy * dy + dz * dz)

def consecDists : List Point → List Float
  | a :: b :: rest => dist a b :: consecDists (b :: rest)
  | _ => []

/-- segment lengths of one branch (`coords[np.asarray(b) - 1]` is a copy, so `content` is never modified). -/
def branchPathlengths (c : Content) (sps : Bool) (b : List Nat) : Except String (List Float) :=
  match b.map (row c) with
  | [] => .error "empty-branch"                      -- IndexError: float index array
  | [p] => .ok [2 * p.r]
  | p0 :: p1 :: rest =>
    let p0 := if p0.type == 1 && p1.type != 1 && sps then p1 else p0
    .ok (consecDists (p0 :: p1 :: rest))

def computePathlengths (c : Content) (sps : Bool) (bs : List (List Nat)) : Except String (List (List Float)) :=
  bs.mapM (branchPathlengths c sps)

/-! ### `_split_long_branches` -/

def splitBranchEqually (branch : List Nat) (k : Nat) : List (List Nat) :=
  let npe : Int := (branch.length / k : Nat)
  let first := pySlice branch 0 (some npe)
  let mids := (List.range (k - 2)).map (fun j => let i : Int := (j + 1 : Nat); pySlice branch (i * npe - 1) (some ((i + 1) * npe)))
  let last := pySlice branch (((k : Int) - 1) * npe - 1) none
  first :: mids ++ [last]

def listMax : List Float → Float
  | [] => 0.0
  | x :: xs => xs.foldl (fun m y => if y > m then y else m) x     -- Python `max`

/-- the `while length > max_branch_len` loop; `fuel = 10` is exact because of the `num_subbranches > 10` break. -/
def splitLoop (c : Content) (sps : Bool) (maxLen : Float) (branch : List Nat) :
    (fuel : Nat) → (num : Nat) → (split : List (List Nat)) → (length : Float) → Except String (Nat × List (List Nat))
  | 0, num, split, _ => .ok (num, split)
  | fuel + 1, num, split, length =>
    if length > maxLen then
      -- every sub-branch needs at least two traced points (D3 fix): otherwise stop splitting
      if branch.length / (num + 1) < 2 then .ok (num, split) else do
      let num := num + 1
      let split := splitBranchEqually branch num
      let ls ← computePathlengths c sps split
      let length := listMax (ls.map npSum)
      if num > 10 then .ok (num, split) else splitLoop c sps maxLen branch fuel num split length
    else .ok (num, split)

def zip3 {α β γ} : List α → List β → List γ → List (α × β × γ)
  | a :: as, b :: bs, c :: cs => (a, b, c) :: zip3 as bs cs
  | _, _, _ => []

def splitLongBranches (c : Content) (sps : Bool) (maxLen : Float) (bs : List (List Nat)) (ts : List Nat) :
    Except String (List (List Nat) × List Nat) := do
  let pls ← computePathlengths c sps bs
  let lens := pls.map npSum
  let parts ← (zip3 bs ts lens).mapM (fun (b, t, l) => do
    let (num, split) ← splitLoop c sps maxLen b 10 1 [b] l
    pure (split, List.replicate num t))
  pure (parts.flatMap (·.1), parts.flatMap (·.2))

/-! ### sorting (`np.argsort(kind="mergesort")`: stable) -/

def insertStable {α} (key : α → Nat) (x : α) : List α → List α
  | [] => [x]
  | y :: ys => if key x ≤ key y then x :: y :: ys else y :: insertStable key x ys

/-- stable sort by key (each element is inserted from the right in FRONT of equal keys, so equal keys keep their original order) -/
def stableSortBy {α} (key : α → Nat) (l : List α) : List α := l.foldr (insertStable key) []

def splitIntoBranchesAndSort (c : Content) (maxLen : Option Float) (sps : Bool) :
    Except String (List (List Nat) × List Nat) := do
  let (bs, ts) := splitIntoBranches c sps
  let (bs, ts) ← match maxLen with
    | none => pure (bs, ts)
    | some m => splitLongBranches c sps m bs ts
  if bs.any (·.isEmpty) then .error "empty-branch"        -- `b[0]` IndexError
  let n := bs.length
  -- `sorting` = stable argsort of the first ids; `types[s]` raises if `types` is shorter
  let order := stableSortBy (fun i => (bs.getD i []).headD 0) (List.range n)
  if ts.length < n then .error "types-shorter-than-branches"
  pure (order.map (fun i => bs.getD i []), order.map (fun i => ts.getD i 0))

/-! ### `_build_parents` -/

def buildParents (bs : List (List Nat)) : Except String (List Int) := do
  if bs.any (·.isEmpty) then .error "empty-branch"
  let lasts := bs.map (fun b => b.getLast?.getD 0)
  (List.range bs.length).mapM (fun i => do
    let parentInd := ((bs.getD i []).headD 0)
    let ind := (List.range lasts.length).filter (fun j => lasts.getD j 0 == parentInd)
    match ind with
    | [] => if parentInd == 1 then pure (-1 : Int) else .error "assert-connect-to-beginning"
    | [j] => if j != i then pure (j : Int)
             else if parentInd == 1 then pure (-1 : Int) else .error "assert-connect-to-beginning"
    | _ => .error "ambiguous-truth-value")           -- `ind != i` on an array with several elements

/-! ### radius functions -/

inductive RadFn where
  | interp (cutoffs radiuses : Array Float)
  | const (r : Float)

/-- `_radius_generating_fn` -/
def radiusGeneratingFn (rads : List Float) (eachLen : List Float) : RadFn :=
  let eachLen := eachLen.map (fun l => if l < 1e-8 then 1e-8 else l)
  let summed := npSum eachLen
  let cut := ((npCumsum (0.0 :: eachLen)).map (· / summed)).toArray
  let cut := cut.modify 0 (· - 1e-8)
  let cut := cut.modify (cut.size - 1) (· + 1e-8)
  let rads := match rads with | [r] => [r, r] | _ => rads
  .interp cut rads.toArray

/-- `_radius_generating_fns` (with the pre-padding `parents` and `types`). -/
def radiusGeneratingFns (c : Content) (bs : List (List Nat)) (eachLength : List (List Float))
    (parents : List Int) (types : List Nat) : Except String (List RadFn) :=
  (List.range bs.length).mapM (fun i => do
    let rads := (bs.getD i []).map (fun id => (row c id).r)
    let par := parents.getD i (-1)
    let rads ← if par > -1 && types.getD i 0 != types.getD par.toNat 0 then
        match rads with
        | _ :: r1 :: rest => pure (r1 :: r1 :: rest)
        | _ => .error "index-error-rads"
      else pure rads
    pure (radiusGeneratingFn rads (eachLength.getD i [])))

/-- `_radius` / `_padded_radius` at one location.  `np.digitize(loc, cutoffs, right=False)` on increasing bins is the
number of leading cutoffs `≤ loc`. -/
def radiusAt (f : RadFn) (loc : Float) : Except String Float :=
  match f with
  | .const r => .ok (r * 1.0)
  | .interp cut rad =>
    let index := (cut.toList.takeWhile (fun b => b ≤ loc)).length
    if index == 0 || index ≥ cut.size || index ≥ rad.size then .error "digitize-out-of-range"
    else
      let leftRad := rad.getD (index - 1) 0.0
      let rightRad := rad.getD index 0.0
      let leftLoc := cut.getD (index - 1) 0.0
      let rightLoc := cut.getD index 0.0
      let within := (loc - leftLoc) / (rightLoc - leftLoc)
      .ok (leftRad + (rightRad - leftRad) * within)

/-- compartment centres `np.linspace(1/(2n), 1 - 1/(2n), n)` -/
def centres (ncomp : Nat) : List Float :=
  let nonSplit := 1.0 / ncomp.toFloat
  npLinspace (nonSplit / 2.0) (1.0 - nonSplit / 2.0) ncomp

/-- `build_radiuses_from_xyzr` (branch-major) -/
def buildRadiuses (fns : List RadFn) (minRadius : Option Float) (ncomp : Nat) : Except String (List Float) := do
  let locs := centres ncomp
  let rs ← fns.mapM (fun f => locs.mapM (radiusAt f))
  let flat := rs.flatten
  match minRadius with
  | none => if flat.all (· > 0.0) then pure flat else .error "assert-radius-zero"
  | some m => pure (flat.map (fun r => if r < m then m else r))

/-! ### `swc_to_jaxley` and `read_swc` -/

structure Morph where
  parents : List Int
  branches : List (List Nat)
  types : List Nat
  pathlengths : List Float
  radFns : List RadFn

def swcToJaxley (c : Content) (maxLen : Option Float) : Except String Morph := do
  if !inDomain c then .error "domain"
  let sps := isSinglePointSoma c
  let (bs, ts) ← splitIntoBranchesAndSort c maxLen sps
  let parents ← buildParents bs
  let eachLength ← computePathlengths c sps bs
  let pathlengths := (eachLength.map npSum).map (fun l => if l == 0.0 then 1.0 else l)
  let fns ← radiusGeneratingFns c bs eachLength parents ts
  if (parents.filter (· == -1)).length > 1 then
    pure { parents := (-1 : Int) :: parents.map (· + 1)
           branches := [0] :: bs
           types := 5 :: ts
           pathlengths := 0.1 :: pathlengths
           radFns := RadFn.const (c.getD 0 default).r :: fns }
  else
    pure { parents := parents, branches := bs, types := ts, pathlengths := pathlengths, radFns := fns }

def groupName (t : Nat) : String :=
  match t with
  | 0 => "undefined" | 1 => "soma" | 2 => "axon" | 3 => "basal" | 4 => "apical" | 5 => "custom"
  | t => s!"custom{t}"

def insertNat (x : Nat) : List Nat → List Nat
  | [] => [x]
  | y :: ys => if x < y then x :: y :: ys else if x == y then y :: ys else y :: insertNat x ys

/-- sorted distinct values (`np.unique`) -/
def uniqueSorted (l : List Nat) : List Nat := l.foldr insertNat []

structure Cell where
  morph : Morph
  radii : List Float          -- per compartment, branch-major
  compLens : List Float       -- per compartment, branch-major
  groups : List (String × List Nat)   -- in `np.unique(types)` order: name ↦ branch indices

def readSwc (c : Content) (ncomp : Nat) (maxLen minRadius : Option Float) : Except String Cell := do
  let m ← swcToJaxley c maxLen
  let radii ← buildRadiuses m.radFns minRadius ncomp
  let compLens := m.pathlengths.flatMap (fun l => List.replicate ncomp (l / ncomp.toFloat))
  let groups := (uniqueSorted m.types).map (fun t =>
    (groupName t, (List.range m.types.length).filter (fun i => m.types.getD i 0 == t)))
  pure { morph := m, radii := radii, compLens := compLens, groups := groups }

end JaxleyVerif.Model.Swc
