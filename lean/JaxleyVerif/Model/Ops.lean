/-
The module as a pure state machine (hand model of the editing API of jaxley/modules/base.py and network.py).

`Mod` is the abstract state that the correspondence harness extracts from a real module with the abstraction function
`α` (harness/alpha.py): node columns (values are opaque bit patterns, `none` = NaN), channel flags, channel / synapse
registries, edges, recordings, external inputs, groups, trainables.  Every operation takes the row / edge labels of the view
it is called through (view resolution is `Model.Views`).  Import-free.
-/
namespace JaxleyVerif.Model.Ops

structure ChanDesc where
  name : String
  params : List (String × Nat)       -- key ↦ default value (bit pattern)
  states : List (String × Nat)
  current : String
deriving Repr, DecidableEq

structure SynDesc where
  name : String
  params : List (String × Nat)
  states : List (String × Nat)
deriving Repr, DecidableEq

structure EdgeRow where
  pre : Nat
  post : Nat
  ty : String
  tyInd : Nat
  vals : List (String × Option Nat)   -- synaptic parameters and states of this row (others NaN = absent)
deriving Repr, DecidableEq

structure Mod where
  n : Nat
  cols : List (String × List (Option Nat))
  flags : List (String × List Bool)
  chans : List ChanDesc
  currents : List String
  edges : List EdgeRow
  syns : List SynDesc
  recs : List (Nat × String)
  ext : List (String × List (Nat × List Nat))
  groups : List (String × List Nat)
  trainables : List (String × List (List Nat))
deriving Repr

def ChanDesc.keys (c : ChanDesc) : List String := c.params.map (·.1) ++ c.states.map (·.1)

/-! ### column helpers -/

def getCol (m : Mod) (k : String) : Option (List (Option Nat)) := (m.cols.find? (·.1 == k)).map (·.2)
def getFlag (m : Mod) (k : String) : Option (List Bool) := (m.flags.find? (·.1 == k)).map (·.2)

/-- write `v` at the given rows of a column (creating the column filled with NaN if absent) -/
def writeCol (n : Nat) (cols : List (String × List (Option Nat))) (k : String) (rows : List Nat) (v : Option Nat) :
    List (String × List (Option Nat)) :=
  let upd (c : List (Option Nat)) : List (Option Nat) := (List.range n).map (fun i => if rows.contains i then v else c.getD i none)
  if cols.any (·.1 == k) then cols.map (fun p => if p.1 == k then (p.1, upd p.2) else p)
  else cols ++ [(k, upd (List.replicate n none))]

def writeFlag (n : Nat) (flags : List (String × List Bool)) (k : String) (rows : List Nat) (v : Bool) :
    List (String × List Bool) :=
  let upd (c : List Bool) : List Bool := (List.range n).map (fun i => if rows.contains i then v else c.getD i false)
  if flags.any (·.1 == k) then flags.map (fun p => if p.1 == k then (p.1, upd p.2) else p)
  else flags ++ [(k, upd (List.replicate n false))]

/-! ### operations -/

/-- `view.insert(channel)` -/
def insert (m : Mod) (rows : List Nat) (c : ChanDesc) : Mod :=
  let chans := if m.chans.any (·.name == c.name) then m.chans else m.chans ++ [c]
  let currents := if m.currents.contains c.current then m.currents else m.currents ++ [c.current]
  let flags := writeFlag m.n m.flags c.name rows true
  let cols := (c.params ++ c.states).foldl (fun cs kv => writeCol m.n cs kv.1 rows (some kv.2)) m.cols
  { m with chans := chans, currents := currents, flags := flags, cols := cols }

def flagAt (m : Mod) (name : String) (i : Nat) : Bool := ((getFlag m name).getD []).getD i false

/-- `view.delete_channel(channel)` (after the F10 fix: shared columns / currents survive where still needed) -/
def deleteChannel (m : Mod) (rows : List Nat) (c : ChanDesc) : Except String Mod :=
  if !(m.chans.any (·.name == c.name) && rows.any (fun r => flagAt m c.name r)) then .error "valueerror" else
  let others := m.chans.filter (·.name != c.name)
  let cols1 := c.keys.foldl (fun cs key =>
    let users := (others.filter (fun o => o.keys.contains key)).map (·.name)
    let clear := rows.filter (fun r => !(users.any (fun u => flagAt m u r)))
    writeCol m.n cs key clear none) m.cols
  let flags1 := writeFlag m.n m.flags c.name rows false
  let allOff := ((flags1.find? (·.1 == c.name)).map (·.2)).getD [] |>.all (· == false)
  if allOff then
    let shared := c.keys.filter (fun key => others.any (fun o => o.keys.contains key))
    let dropped := c.keys.filter (fun key => !(shared.contains key))
    -- recordings and clamps of states that no longer exist go with the channel (fix N13)
    -- (a state of the deleted channel is gone unless another channel has a STATE of that name; a parameter of that name does not keep it)
    let goneStates := ((c.states.map (·.1)).filter (fun key => !(others.any (fun o => o.states.any (·.1 == key)))))
      ++ (if others.any (·.current == c.current) then [] else [c.current])
    .ok { m with
      chans := others,
      currents := if others.any (·.current == c.current) then m.currents else m.currents.erase c.current,
      cols := cols1.filter (fun p => !(dropped.contains p.1)),
      flags := flags1.filter (fun p => p.1 != c.name),
      recs := m.recs.filter (fun r => !(goneStates.contains r.2)),
      ext := m.ext.filter (fun e => !(goneStates.contains e.1)) }
  else .ok { m with cols := cols1, flags := flags1 }

/-- `view.set(key, val)` on a node column: rows in view that hold the key -/
def setNode (m : Mod) (rows : List Nat) (k : String) (v : Nat) : Except String Mod :=
  match getCol m k with
  | none => .error "keyerror"
  | some col =>
    let targets := rows.filter (fun r => (col.getD r none).isSome)
    .ok { m with cols := writeCol m.n m.cols k targets (some v) }

/-- `view.add_to_group(name)`: first call stores the rows as given, later calls store the sorted union -/
def insertSorted (x : Nat) : List Nat → List Nat
  | [] => [x]
  | y :: ys => if x < y then x :: y :: ys else if x == y then y :: ys else y :: insertSorted x ys
def sortedUnion (a b : List Nat) : List Nat := (a ++ b).foldl (fun acc x => insertSorted x acc) []

def addToGroup (m : Mod) (rows : List Nat) (name : String) : Mod :=
  if m.groups.any (·.1 == name) then
    { m with groups := m.groups.map (fun g => if g.1 == name then (g.1, sortedUnion g.2 rows) else g) }
  else { m with groups := m.groups ++ [(name, rows)] }

/-- names of recordable node states / edge states (`_get_state_names`) -/
def nodeStates (m : Mod) : List String := m.chans.flatMap (fun c => c.states.map (·.1)) ++ ["v", "i"] ++ m.currents

/-- `_get_state_names` of a VIEW: only the channels that are present in some row of the view count -/
def chansIn (m : Mod) (rows : List Nat) : List ChanDesc :=
  m.chans.filter (fun c => rows.any (fun r => ((((m.flags.find? (·.1 == c.name)).map (·.2)).getD []).getD r false)))
def nodeStatesIn (m : Mod) (rows : List Nat) : List String :=
  (chansIn m rows).flatMap (fun c => c.states.map (·.1)) ++ ["v", "i"] ++ (chansIn m rows).map (·.current)
def edgeStates (m : Mod) : List String := m.syns.flatMap (fun s => s.states.map (·.1)) ++ m.syns.map (fun s => "i_" ++ s.name)
/-- `_get_state_names` of a VIEW, edge part: a view keeps only the synapse types that have an edge in view
(`_set_synapses_in_view`), so only THEIR states count; the synaptic current names are not filtered -/
def synsIn (m : Mod) (es : List Nat) : List SynDesc :=
  m.syns.filter (fun s => es.any (fun e => ((m.edges[e]?).map (·.ty == s.name)).getD false))
def edgeStatesIn (m : Mod) (es : List Nat) : List String :=
  (synsIn m es).flatMap (fun s => s.states.map (·.1)) ++ m.syns.map (fun s => "i_" ++ s.name)

/-- `view.record(state)`: append `(index, state)` for the rows (node state) or edges (edge state) in view, drop duplicates
(first occurrence wins, order kept) -/
def dedup : List (Nat × String) → List (Nat × String)
  | [] => []
  | x :: xs => x :: (dedup xs).filter (· != x)

def record (m : Mod) (rows es : List Nat) (state : String) : Except String Mod :=
  if (nodeStatesIn m rows).contains state then .ok { m with recs := dedup (m.recs ++ rows.map (fun r => (r, state))) }
  else if (edgeStatesIn m es).contains state then .ok { m with recs := dedup (m.recs ++ es.map (fun e => (e, state))) }
  else .error "keyerror"

def deleteRecordingsAll (m : Mod) : Mod := { m with recs := [] }

/-- `view.stimulate / view.clamp` (`_external_input`): one data row per index in view (a single row is repeated);
appended to an existing key (after the N1 fix: edge indices for edge states) -/
def externalInput (m : Mod) (rows es : List Nat) (key : String) (data : List (List Nat)) : Except String Mod :=
  if !((nodeStatesIn m rows).contains key || (edgeStatesIn m es).contains key) then .error "keyerror" else
  let inds := if (nodeStatesIn m rows).contains key then rows else es
  if !(data.length == 1 || data.length == inds.length) then .error "assert" else
  let d := if data.length == inds.length then data else List.replicate inds.length (data.headD [])
  let new := inds.zip d
  if m.ext.any (·.1 == key) then
    .ok { m with ext := m.ext.map (fun p => if p.1 == key then (p.1, p.2 ++ new) else p) }
  else .ok { m with ext := m.ext ++ [(key, new)] }

/-- `view.delete_clamps(state)` / `view.delete_stimuli()` for one key (after the N10 fix) -/
def deleteExternal (m : Mod) (rows es : List Nat) (key : String) : Mod :=
  let inView := if (edgeStates m).contains key then es else rows
  let ext' := m.ext.filterMap (fun p =>
    if p.1 == key then
      let kept := p.2.filter (fun r => !(inView.contains r.1))
      if kept.isEmpty then none else some (p.1, kept)
    else some p)
  { m with ext := ext' }

/-- `view.make_trainable(key)` on a node key: the padded index groups are appended -/
def makeTrainable (m : Mod) (key : String) (groups : List (List Nat)) : Mod :=
  { m with trainables := m.trainables ++ [(key, groups)] }

def deleteTrainablesAll (m : Mod) : Mod := { m with trainables := [] }

/-- `connect(pre, post, synapse)` / `_append_multiple_synapses` -/
def connect (m : Mod) (pre post : List Nat) (s : SynDesc) : Mod :=
  let isNew := !(m.syns.any (·.name == s.name))
  let tyInd := if isNew then m.syns.length else (m.syns.findIdx? (·.name == s.name)).getD 0
  let vals : List (String × Option Nat) := (s.params ++ s.states).map (fun kv => (kv.1, some kv.2))
  let new := (pre.zip post).map (fun pq => ({ pre := pq.1, post := pq.2, ty := s.name, tyInd := tyInd, vals := vals } : EdgeRow))
  { m with syns := if isNew then m.syns ++ [s] else m.syns, edges := m.edges ++ new }

/-! ### the consistency invariant -/

structure WF (m : Mod) : Prop where
  colLen : ∀ p ∈ m.cols, p.2.length = m.n
  flagLen : ∀ p ∈ m.flags, p.2.length = m.n
  recIdx : ∀ r ∈ m.recs, ((nodeStates m).contains r.2 = true → r.1 < m.n)
  extIdx : ∀ p ∈ m.ext, (nodeStates m).contains p.1 = true → ∀ r ∈ p.2, r.1 < m.n
  grpIdx : ∀ g ∈ m.groups, ∀ r ∈ g.2, r < m.n
  edgeIdx : ∀ e ∈ m.edges, e.pre < m.n ∧ e.post < m.n

/-- empty module with `n` compartments and the four geometry columns + `v` -/
def init (n : Nat) (geom : List (String × Nat)) : Mod :=
  { n := n, cols := geom.map (fun kv => (kv.1, List.replicate n (some kv.2))), flags := [], chans := [], currents := [],
    edges := [], syns := [], recs := [], ext := [], groups := [], trainables := [] }

end JaxleyVerif.Model.Ops
