/-
Order of operations inside `Module.step` and the input plumbing of `integrate` (import-free):

  externals "i"  →  scatter_add of converted currents  (`_get_external_input`)
  mechanisms     →  channel and synapse state updates, current terms
  clamps (≠ i,v) →  `u[key].at[inds].set(vals)`      AFTER the mechanism step
  voltage solve  →  only `v` is written
  clamp v        →  `u["v"].at[inds].set(vals)`        AFTER the solve
and `step_current`, `t_max` handling.
-/
namespace JaxleyVerif.Model.Step

variable {α : Type}

/-- named state arrays -/
abbrev State (α : Type) := List (String × List α)

def getArr (u : State α) (k : String) : List α := ((u.find? (·.1 == k)).map (·.2)).getD []
def setArr (u : State α) (k : String) (a : List α) : State α :=
  if u.any (·.1 == k) then u.map (fun p => if p.1 == k then (k, a) else p) else u ++ [(k, a)]

/-- `.at[inds].set(vals)` (out-of-bounds dropped; later writes win) -/
def setAt (a : List α) (inds : List Nat) (vals : List α) : List α :=
  (inds.zip vals).foldl (fun acc iv => if iv.1 < acc.length then acc.set iv.1 iv.2 else acc) a

/-- `scatter_add(zeros, inds, vals)` : several inputs to one compartment add -/
def scatterAdd [Add α] [OfNat α 0] (n : Nat) (inds : List Nat) (vals : List α) : List α :=
  (inds.zip vals).foldl (fun acc iv =>
    if iv.1 < acc.length then acc.set iv.1 (acc.getD iv.1 0 + iv.2) else acc) (List.replicate n 0)

/-- one external input: key, indices, one sample per index for THIS time step -/
structure Ext (α : Type) where
  key : String
  inds : List Nat
  vals : List α

/-- clamps of non-voltage states are applied to the state produced by the mechanisms -/
def clampStates (u : State α) (exts : List (Ext α)) : State α :=
  exts.foldl (fun acc e => if e.key == "i" || e.key == "v" then acc else setArr acc e.key (setAt (getArr acc e.key) e.inds e.vals)) u

def clampV (u : State α) (exts : List (Ext α)) : State α :=
  exts.foldl (fun acc e => if e.key == "v" then setArr acc "v" (setAt (getArr acc "v") e.inds e.vals) else acc) u

/-- `Module.step` with the mechanism step and the voltage solve as parameters:
`mech u iext` updates channel/synapse states (reading the OLD voltages), `solve u iext` returns the new voltages -/
def step (mech : State α → List α → State α) (solve : State α → State α → List α → List α) (iext : List (Ext α) → List α)
    (u : State α) (exts : List (Ext α)) : State α :=
  let i := iext exts
  let u1 := mech u i
  let u2 := clampStates u1 exts
  let v' := solve u u2 i
  clampV (setArr u2 "v" v') exts

/-! ### `step_current` and `t_max` -/

/-- `step_current(i_delay, i_dur, i_amp, dt, t_max, i_offset)` with the three integer quantities the code computes in
double arithmetic supplied by the caller: `ws = int(i_delay/dt)`, `we = int((i_delay+i_dur)/dt)`, `n = int(t_max//dt)+2` -/
def stepCurrent (ws we n : Nat) (amp off : α) : List α :=
  (List.range n).map (fun k => if ws ≤ k ∧ k < we then amp else off)

end JaxleyVerif.Model.Step
