/-
Executable model of a WHOLE SIMULATION: one `Module.step` (jaxley/modules/base.py, jaxley/modules/network.py) and
`integrate` (jaxley/integrate.py) for a module DESCRIBED BY ITS TABLES (import-free, `Float`).

The state is the code's dictionary `u`: one named array per state
  "v", channel states, membrane currents (`i_HH`, `i_Na`, …)      — one entry per compartment (global numbering)
  synaptic states, synaptic currents (`i_<Synapse>`)                — one entry per edge OF THAT TYPE (row order)
One step (`Model.Step.step` fixes the order; the pieces are defined here):
  1. `i_ext`            stimuli (nA) added per compartment                                  (`_get_external_input`)
  2. channel states     every channel in `module.channels` order, on its member compartments, with the OLD voltage;
                        a later channel sees the states written by an earlier one           (`_step_channels_state`)
  3. channel currents   secant through `v` and `v + 1e-3`, `·1000` (mA/cm² → µA/cm²), currents stored as states
                                                                                            (`_channel_currents`)
  4. synaptic states    per type, OLD voltages, the whole per-type arrays are replaced       (`_step_synapse_state`)
  5. synaptic currents  point current → density of the POST compartment, secant in the post voltage only, summed per
                        post compartment; `i_<Synapse>` stores the point current (nA) per edge (`_synapse_currents`)
  6. clamps of states other than `i`, `v`   (after the mechanisms: they act on the NEXT step's currents)
  7. voltage solve      per cell with `Model.Cable.stepBwd / stepCN / stepFwd`, `gm = v_terms + syn_v_terms`,
                        `km = const_terms + syn_const_terms`, stimulus converted inside `Cable.constantTerm`
  8. clamp of `v`
Every mechanism formula is reached through the GENERATED dispatch (`Gen.dispatchFloat`) by class name.
`integrate`: `get_all_states` (tables + initial currents), padding / truncation of the externals by `t_max`
(`Model.fitToTmax`), the scan with the recording of the initial state (`Model.integrateCore`), the translation of
global edge indices of recordings and clamps to within-type indices, and `accepts`: the (solver, backend)
combinations for which the code raises instead of simulating.
Quirks of the code that are mirrored: `record` (clamped gather), `localInd` (rank within the
edge's OWN type even when the state belongs to another type).
-/
import JaxleyVerif.Gen.Dispatch
import JaxleyVerif.Model.Cable
import JaxleyVerif.Model.Step
import JaxleyVerif.Model.Synapse
import JaxleyVerif.Model.Scan

namespace JaxleyVerif.Model.Sim
open JaxleyVerif JaxleyVerif.Spec.Cable JaxleyVerif.Model.Cable JaxleyVerif.Model.Step

/-- a channel of `module.channels` -/
structure Chan where
  name   : String            -- class name (key of the generated dispatch), e.g. "HH"
  pfx    : String            -- `channel._name`: membership column and prefix of parameters / states
  member : Array Bool        -- `nodes[_name]`, one flag per compartment

/-- a synapse type of `module.synapses` together with the rows of `.edges` of that type (row order) -/
structure SynType where
  name   : String
  pfx    : String
  pre    : Array Nat         -- global compartment index
  post   : Array Nat
  params : List (String × Array Float)   -- `jaxedges[param]` : only the rows of this type

structure Module where
  cells      : List (List Int × List Nat)       -- per cell: parents (−1 root), ncomp per branch
  comps      : Array (Comp Float)               -- radius, length, axial_resistivity, capacitance
  nodeParams : List (String × Array Float)      -- channel parameter columns of `.nodes` (shared names are one column)
  chans      : List Chan
  syns       : List SynType
  withinType : Array Nat                        -- rank of every global edge among the edges of ITS type
  edgeStates : List String                      -- names of the states that are indexed by edges

def nan : Float := 0.0 / 0.0

/-- the secant offset used by `_channel_currents` and `_synapse_currents` -/
def diff : Float := 1e-3

def ncompTotal (m : Module) : Nat := m.comps.size

/-- state of compartment / edge `i` as the name → value map handed to a kernel -/
def stateAt (u : State Float) (i : Nat) : String → Float := fun k => (getArr u k).getD i nan

/-- `params[p][indices]` for one compartment (geometry is appended by the code under these four names) -/
def nodeParamAt (m : Module) (i : Nat) : String → Float := fun k =>
  let c := m.comps.getD i default
  match k with
  | "radius" => c.r
  | "length" => c.l
  | "axial_resistivity" => c.ra
  | "capacitance" => c.cm
  | _ => match m.nodeParams.find? (·.1 == k) with
    | some p => p.2.getD i nan
    | none => nan

def edgeParamAt (s : SynType) (e : Nat) : String → Float := fun k =>
  match s.params.find? (·.1 == k) with
  | some p => p.2.getD e nan
  | none => nan

/-- a generated kernel returning named values (`update_states`) -/
def kernelKV (name pfx : String) (args : Array Float) (st pr : String → Float) : List (String × Float) :=
  (Gen.dispatchFloat name pfx args st pr).getD []

/-- a generated kernel returning one value (`compute_current`) -/
def kernel1 (name pfx : String) (args : Array Float) (st pr : String → Float) : Float :=
  match Gen.dispatchFloat name pfx args st pr with
  | some ((_, x) :: _) => x
  | _ => nan

def setEntry (u : State Float) (k : String) (i : Nat) (x : Float) : State Float :=
  setArr u k ((getArr u k).set i x)

def members (c : Chan) : List Nat := (List.range c.member.size).filter (fun i => c.member.getD i false)

/-- `membrane_current_names`: the current names of the channels, without repetition -/
def currentNames (m : Module) : List String :=
  m.chans.foldl (fun acc c =>
    let n := (Gen.dispatchStr (c.name ++ ".current_name") c.pfx).getD ("i_" ++ c.pfx)
    if acc.contains n then acc else acc ++ [n]) []

/-! ### channels -/

/-- `_step_channels_state` -/
def stepChannelsState (m : Module) (dt : Float) (u : State Float) : State Float :=
  let v := getArr u "v"
  m.chans.foldl (fun u c =>
    -- one vectorised call per channel: every member compartment reads the state as it is before this channel
    let upd := (members c).map (fun i =>
      (i, kernelKV (c.name ++ ".update_states") c.pfx #[dt, v.getD i nan] (stateAt u i) (nodeParamAt m i)))
    upd.foldl (fun u ikv => ikv.2.foldl (fun u kx => setEntry u kx.1 ikv.1 kx.2) u) u) u

/-- `_channel_currents`: new state (currents written), `voltage_terms`, `constant_terms` (µA/cm²) -/
def channelCurrents (m : Module) (u : State Float) : State Float × Array Float × Array Float :=
  let n := ncompTotal m
  let v := getArr u "v"
  let zeros : Array Float := Array.replicate n 0.0
  let cur0 : List (String × Array Float) := (currentNames m).map (fun k => (k, zeros))
  let r := m.chans.foldl (fun (acc : Array Float × Array Float × List (String × Array Float)) c =>
    let cname := (Gen.dispatchStr (c.name ++ ".current_name") c.pfx).getD ("i_" ++ c.pfx)
    (members c).foldl (fun acc i =>
      let vi := v.getD i nan
      let st := stateAt u i
      let pr := nodeParamAt m i
      let i0 := kernel1 (c.name ++ ".compute_current") c.pfx #[vi] st pr
      let i1 := kernel1 (c.name ++ ".compute_current") c.pfx #[vi + diff] st pr
      let vt := (i1 - i0) / diff
      let ct := i0 - vt * vi
      (acc.1.modify i (· + vt * 1000.0),
       acc.2.1.modify i (· + (-ct) * 1000.0),
       acc.2.2.map (fun p => if p.1 == cname then (p.1, p.2.modify i (· + i0)) else p))) acc)
    (zeros, zeros, cur0)
  let u' := r.2.2.foldl (fun u p => setArr u p.1 p.2.toList) u
  (u', r.1, r.2.1)

/-! ### synapses -/

/-- `Network._step_synapse_state` -/
def stepSynapseState (m : Module) (dt : Float) (u : State Float) : State Float :=
  let v := getArr u "v"
  m.syns.foldl (fun u s =>
    let upd := (List.range s.pre.size).map (fun e =>
      kernelKV (s.name ++ ".update_states") s.pfx
        #[dt, v.getD (s.pre.getD e 0) nan, v.getD (s.post.getD e 0) nan] (stateAt u e) (edgeParamAt s e))
    -- `states[key] = val` : the arrays returned by the synapse replace the old ones
    ((upd.headD []).map (·.1)).foldl (fun u k =>
      setArr u k (upd.map (fun kv => ((kv.find? (·.1 == k)).map (·.2)).getD nan))) u) u

/-- the edges of one type as `Model.Synapse.SynEdge`s whose current is already the DENSITY in the post compartment
(`convert_point_process_to_distributed` with the POST compartment's radius and length) -/
def synEdges (m : Module) (u : State Float) (s : SynType) : List (Synapse.SynEdge Float) :=
  (List.range s.pre.size).map (fun e =>
    let post := s.post.getD e 0
    let cp := m.comps.getD post default
    { pre := s.pre.getD e 0, post := post,
      cur := fun vpre vpost =>
        Gen.convert_point_process_to_distributed
          (kernel1 (s.name ++ ".compute_current") s.pfx #[vpre, vpost] (stateAt u e) (edgeParamAt s e)) cp.r cp.l })

/-- `Network._synapse_currents`: new state (`i_<Synapse>` written), `syn_voltage_terms`, `syn_constant_terms` -/
def synapseCurrents (m : Module) (u : State Float) : State Float × Array Float × Array Float :=
  let n := ncompTotal m
  let v := getArr u "v"
  let vf : Nat → Float := fun i => v.getD i nan
  let edges := m.syns.flatMap (synEdges m u)
  let terms := (Array.range n).map (fun c => Synapse.synTerms (fun _ => 1.0) vf diff edges c)
  let u' := m.syns.foldl (fun u' s =>
    setArr u' ("i_" ++ s.pfx) ((List.range s.pre.size).map (fun e =>
      kernel1 (s.name ++ ".compute_current") s.pfx #[vf (s.pre.getD e 0), vf (s.post.getD e 0)] (stateAt u e) (edgeParamAt s e)))) u
  (u', terms.map (·.1), terms.map (·.2))

/-! ### one step -/

def keyGm : String := " gm"
def keyKm : String := " km"

/-- the mechanism part of `Module.step`; the linearisation is carried to the solve under two reserved keys -/
def mech (m : Module) (dt : Float) (u : State Float) (_iext : List Float) : State Float :=
  let u1 := stepChannelsState m dt u
  let (u2, vt, ct) := channelCurrents m u1
  let u3 := stepSynapseState m dt u2
  let (u4, svt, sct) := synapseCurrents m u3
  let n := ncompTotal m
  let gm := (List.range n).map (fun i => vt.getD i 0.0 + svt.getD i 0.0)
  let km := (List.range n).map (fun i => ct.getD i 0.0 + sct.getD i 0.0)
  setArr (setArr u4 keyGm gm) keyKm km

/-- compartment offsets of the cells -/
def cellOffsets (m : Module) : List Nat :=
  (m.cells.foldl (fun acc c => acc ++ [acc.getLastD 0 + nTotal c.2]) [0]).take m.cells.length

def cellIn (m : Module) (k : Nat) (v gm km istim : Array Float) : CellIn Float :=
  let c := m.cells.getD k ([], [])
  let off := (cellOffsets m).getD k 0
  let nt := nTotal c.2
  let sl (a : Array Float) : Array Float := (Array.range nt).map (fun i => a.getD (off + i) 0.0)
  { parents := c.1, ncomp := c.2,
    comps := (Array.range nt).map (fun i => m.comps.getD (off + i) default),
    gm := sl gm, km := sl km, v := sl v, istim := sl istim }

/-- forward Euler is refused as soon as ANY cell of the module has a branch point -/
def refusesFwd (m : Module) : Bool :=
  m.cells.any (fun c => (compEdges c.1 c.2).any (fun e => e.2.2 != 0))

/-- all branches of the module (every cell is one branch when `refusesFwd` is false): ncomp per branch -/
def allNcomp (m : Module) : List Nat := m.cells.flatMap (·.2)

def uniformNcomp (m : Module) : Bool :=
  let ns := allNcomp m
  ns.all (· == ns.headD 0)

/-- the voltage solve: the network is a forest, every cell is solved on its own -/
def solve (m : Module) (solver : String) (dt : Float) (uOld uNew : State Float) (iext : List Float) : List Float :=
  let v := (getArr uOld "v").toArray
  let gm := (getArr uNew keyGm).toArray
  let km := (getArr uNew keyKm).toArray
  let istim := iext.toArray
  (List.range m.cells.length).flatMap (fun k =>
    let c := cellIn m k v gm km istim
    match solver with
    | "bwd_euler" => stepBwd c dt
    | "crank_nicolson" => stepCN c dt
    | _ => (stepFwd c dt).getD [])

/-! ### which (solver, backend) combinations the code accepts -/

/-- `compute_levels`: number of branches between a branch and the root -/
def depth (parents : List Int) : Nat → Nat → Nat
  | 0, _ => 0
  | fuel + 1, b =>
    match parents.getD b (-1) with
    | Int.ofNat p => 1 + depth parents fuel p
    | Int.negSucc _ => 0

/-- padded width of every level of a cell (`max_ncomp_in_level`) -/
def levelWidths (c : List Int × List Nat) : List Nat :=
  let nb := c.2.length
  let lev := (List.range nb).map (depth c.1 nb)
  let maxLev := lev.foldl max 0
  (List.range (maxLev + 1)).map (fun l =>
    ((List.range nb).filter (fun b => lev.getD b 0 == l)).foldl (fun a b => max a (c.2.getD b 0)) 0)

/-- the `jaxley.*` backends process level `l` of ALL cells in one batch and assert that the (padded) branches of the
batch have one width (`JaxleySolveIndexer._consecutive_indices`); inside a cell the padding guarantees it -/
def jaxleyBackendAccepts (m : Module) : Bool :=
  let ws := m.cells.map levelWidths
  let maxL := ws.foldl (fun a w => max a w.length) 0
  (List.range maxL).all (fun l =>
    let xs := ws.filterMap (fun w => w[l]?)
    xs.all (· == xs.headD 0))

/-- does `integrate(…, solver, voltage_solver = backend)` run at all? -/
def accepts (m : Module) (solver backend : String) : Bool :=
  let jaxleyB := backend == "jaxley.thomas" || backend == "jaxley.stone"
  if !(jaxleyB || backend == "jax.sparse") then false
  else match solver with
    | "fwd_euler" =>
      -- `step_voltage_explicit` only takes the arguments of the jaxley.* backends
      jaxleyB && !refusesFwd m
    | "bwd_euler" | "crank_nicolson" => !jaxleyB || jaxleyBackendAccepts m
    | _ => false

/-- `_within_type_edge_inds` : edge-indexed states are stored per type -/
def localInd (m : Module) (key : String) (i : Nat) : Nat :=
  if m.edgeStates.contains key then m.withinType.getD i i else i

/-- stimuli of one time step in nA per compartment (several stimuli on one compartment add) -/
def iExt (m : Module) (exts : List (Ext Float)) : List Float :=
  exts.foldl (fun acc e =>
    if e.key == "i" then
      let s := scatterAdd (ncompTotal m) e.inds e.vals
      (List.range (ncompTotal m)).map (fun i => acc.getD i 0.0 + s.getD i 0.0)
    else acc) (List.replicate (ncompTotal m) 0.0)

/-- `Module.step` (externals carry GLOBAL indices) -/
def step (m : Module) (solver : String) (dt : Float) (u : State Float) (exts : List (Ext Float)) : State Float :=
  let exts' := exts.map (fun e => { e with inds := e.inds.map (localInd m e.key) })
  Step.step (mech m dt) (solve m solver dt) (iExt m) u exts'

/-! ### integrate -/

/-- `get_all_states`: the tables' states plus the initial channel and synaptic currents -/
def initState (m : Module) (u : State Float) : State Float :=
  let (u1, _, _) := channelCurrents m u
  let (u2, _, _) := synapseCurrents m u1
  u2

/-- `state[rec_state][rec_ind]`; an index beyond the array reads the LAST element (JAX clamps gather indices) — reachable
by recording `i_<Synapse>` through an edge of another type, whose within-type rank is then used -/
def record (m : Module) (recs : List (String × Nat)) (u : State Float) : List Float :=
  recs.map (fun r =>
    let a := getArr u r.1
    a.getD (min (localInd m r.1 r.2) (a.length - 1)) nan)

/-- one key of `module.externals`: the indices and the samples, time-major (`externals[key].T`) -/
structure ExtCol where
  key  : String
  inds : List Nat
  rows : List (List Float)      -- one row per time step, one value per index

/-- `t_max` handling of `integrate`: with `nsteps = int(t_max // delta_t + 1)` a stimulus (`i`) that is too short is
padded with zeros, every input that is too long is truncated, a clamp that is too short makes the code raise -/
def fitExternals (nsteps : Nat) (cols : List ExtCol) : Option (List (List (Ext Float))) :=
  if cols.any (fun c => c.key != "i" && nsteps > c.rows.length) then none
  else
    let fitted := cols.map (fun c => (c, Model.fitToTmax (List.replicate c.inds.length 0.0) nsteps c.rows))
    some ((List.range nsteps).map (fun k =>
      fitted.map (fun cr => ({ key := cr.1.key, inds := cr.1.inds, vals := cr.2.getD k [] } : Ext Float))))

/-- `integrate(module, t_max = …, delta_t = dt, solver, voltage_solver = backend)` without checkpointing: the result
has one trace per recording with `nsteps + 1` columns (column 0 = initial state); `none` when the code refuses to run -/
def integrate (m : Module) (solver backend : String) (dt : Float) (nsteps : Nat) (u0 : State Float) (cols : List ExtCol)
    (recs : List (String × Nat)) : Option (List (List Float)) :=
  if !accepts m solver backend then none
  else match fitExternals nsteps cols with
    | none => none
    | some exts =>
      let r := Model.integrateCore (step m solver dt) (record m recs) [] (initState m u0) exts none
      some ((List.range recs.length).map (fun j => r.1.map (fun row => row.getD j nan)))

end JaxleyVerif.Model.Sim
