/-
Hand model of `Network._synapse_currents` / `gather_synapes` (jaxley/modules/network.py, utils/syn_utils.py); import-free.

For every edge `e` (in edge-table order, grouped by type — the grouping only permutes the summation):
  c(v)   = conv_post(e) · I_e(v_pre(e), v)              current density in the POST compartment (µA/cm²),
                                                         conv = 10⁵/(2π r l) of the post compartment
  vt_e   = (c(v_post + d) − c(v_post)) / d               secant slope in the post voltage only (after the N12 fix)
  ct_e   = c(v_post) − vt_e · v_post
and per compartment  `syn_v_terms[c] = Σ_{post e = c} vt_e`,  `syn_c_terms[c] = − Σ_{post e = c} ct_e`.
-/
namespace JaxleyVerif.Model.Synapse

structure SynEdge (α : Type) where
  pre : Nat
  post : Nat
  cur : α → α → α          -- I(v_pre, v_post) in nA, with this edge's state and parameters

section
variable {α : Type} [Add α] [Sub α] [Mul α] [Div α] [Neg α] [OfNat α 0]

/-- secant linearisation of one edge: (voltage term, constant term) -/
def edgeTerms (conv : Nat → α) (v : Nat → α) (d : α) (e : SynEdge α) : α × α :=
  let c0 := conv e.post * e.cur (v e.pre) (v e.post)
  let c1 := conv e.post * e.cur (v e.pre) (v e.post + d)
  let vt := (c1 - c0) / d
  (vt, c0 - vt * v e.post)

/-- `gather_synapes` + accumulation over all edges: terms of compartment `c` -/
def synTerms (conv : Nat → α) (v : Nat → α) (d : α) (edges : List (SynEdge α)) (c : Nat) : α × α :=
  edges.foldl (fun acc e =>
    if e.post == c then
      let t := edgeTerms conv v d e
      (acc.1 + t.1, acc.2 - t.2)
    else acc) (0, 0)

end
end JaxleyVerif.Model.Synapse
