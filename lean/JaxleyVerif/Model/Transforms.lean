/-
Hand model of the combinators of jaxley/optimize/transforms.py that are not scalar formulas
(ChainTransform, MaskedTransform, CustomTransform, ParamTransform).  Import-free.
-/
namespace JaxleyVerif.Model

/-- a transform is a pair of functions -/
structure Tf (α : Type) where
  fwd : α → α
  inv : α → α

/-- `ChainTransform.forward`: apply the transforms left to right -/
def chainFwd {α} (ts : List (Tf α)) (x : α) : α := ts.foldl (fun acc t => t.fwd acc) x
/-- `ChainTransform.inverse`: apply the inverses right to left (`reversed(self.transforms)`) -/
def chainInv {α} (ts : List (Tf α)) (y : α) : α := ts.reverse.foldl (fun acc t => t.inv acc) y

def chain {α} (ts : List (Tf α)) : Tf α := ⟨chainFwd ts, chainInv ts⟩

/-- `MaskedTransform`: `jnp.where(mask, f(x), x)` elementwise -/
def maskedFwd {α} (mask : List Bool) (t : Tf α) (xs : List α) : List α :=
  List.zipWith (fun m x => if m then t.fwd x else x) mask xs
def maskedInv {α} (mask : List Bool) (t : Tf α) (ys : List α) : List α :=
  List.zipWith (fun m y => if m then t.inv y else y) mask ys

/-- `ParamTransform.forward/inverse` on a flattened pytree: `tree_map(lambda x, tf: tf.forward(x), params, tf_dict)` -/
def paramFwd {α} (tfs : List (Tf α)) (ps : List α) : List α := List.zipWith (fun p t => t.fwd p) ps tfs
def paramInv {α} (tfs : List (Tf α)) (ps : List α) : List α := List.zipWith (fun p t => t.inv p) ps tfs

end JaxleyVerif.Model
