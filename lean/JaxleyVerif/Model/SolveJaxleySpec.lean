/-
What it means for the custom solver (`Model.SolveJaxley.solve`) to be right — import-free, executable, shared by the
theorem `Lemmas.SolveJaxleyGlobal.solve_correct` and by the driver (which evaluates the very same definitions, in exact
rational arithmetic, on every schedule / array set captured from the real `_triang_branched` / `_backsub_branched`).

* `wfB ix sc`       structural well-formedness of the indexer + level schedule (a Bool; independent of the numbers)
* `rowComp`, `rowBp`, `Sat`   the linear system DENOTED by the ten arrays: one row per (padded) slot cell, one per branch point
* `pe`              Schur pivots / right-hand sides along one slot, counted from its end
* `PivOK`, `pivOkB` every divisor the elimination meets is non-zero (defined along the run of the triangulation pass)
-/
import JaxleyVerif.Model.SolveJaxley
namespace JaxleyVerif.Model.SolveJaxley

/-! ### structure of the schedule -/

def pairsC (sc : Sched) : List (Nat × Nat) := sc.childrenInLevel.flatten
def pairsP (sc : Sched) : List (Nat × Nat) := sc.parentsInLevel.flatten
/-- every branch the schedule mentions: the roots and every child -/
def branchesOf (sc : Sched) : List Nat := sc.roots ++ (pairsC sc).map (·.1)
/-- the levels as the two passes traverse them -/
def levels (sc : Sched) : List (List (Nat × Nat) × List (Nat × Nat)) := sc.childrenInLevel.zip sc.parentsInLevel
/-- the branch point at the proximal end of branch `b` (if `b` is a child) -/
def bpOfChild (sc : Sched) (b : Nat) : Option Nat := ((pairsC sc).find? (·.1 == b)).map (·.2)

def nodupB : List Nat → Bool
  | [] => true
  | a :: l => !(l.contains a) && nodupB l

/-- the parents of a level are branches that were children of the level above (roots for the first level) -/
def chainB : List Nat → List (List (Nat × Nat) × List (Nat × Nat)) → Bool
  | _, [] => true
  | avail, lv :: rest => lv.2.all (fun q => avail.contains q.1) && chainB (lv.1.map (·.1)) rest

/-- within one level the children and the parents meet at the same branch points -/
def levelMatchB (lv : List (Nat × Nat) × List (Nat × Nat)) : Bool :=
  lv.1.all (fun c => lv.2.any (fun q => q.2 == c.2)) && lv.2.all (fun q => lv.1.any (fun c => c.2 == q.2))

/-- structural well-formedness of indexer + schedule:
slots are non-empty, contain their real compartments and are pairwise disjoint; every branch occurs once (as a root or as a
child); every parent branch and every branch point occurs once among the parents; children and parents of a level meet at the
same branch points; the parents of a level were children of the previous one. -/
def wfB (ix : Idx) (sc : Sched) : Bool :=
  let bs := branchesOf sc
  (sc.childrenInLevel.length == sc.parentsInLevel.length)
  && bs.all (fun b => decide (1 ≤ ix.ncomp b) && decide (ix.cumsum b + ix.ncomp b ≤ ix.cumsum (b + 1)))
  && bs.all (fun b => bs.all (fun b' => b == b' || decide (ix.cumsum (b + 1) ≤ ix.cumsum b')
        || decide (ix.cumsum (b' + 1) ≤ ix.cumsum b)))
  && nodupB bs && nodupB ((pairsP sc).map (·.1)) && nodupB ((pairsP sc).map (·.2))
  && (levels sc).all levelMatchB
  && chainB sc.roots (levels sc)

section numeric
variable {K : Type} [Add K] [Sub K] [Mul K] [Div K] [Neg K] [OfNat K 0] [OfNat K 1]

/-! ### the system denoted by the arrays -/

def sumL (l : List K) : K := l.foldr (· + ·) 0

/-- left-hand side of the row of flat cell `i` of branch `b` (`x` : values of the cells, `z` : values of the branch points) -/
def rowComp (ix : Idx) (sc : Sched) (st : St K) (x z : Nat → K) (b i : Nat) : K :=
  (if ix.first b < i then st.lowers i * x (i - 1) else 0) + st.diags i * x i
  + (if i < ix.paddedLast b then st.uppers i * x (i + 1) else 0)
  + (if i = ix.first b then (match bpOfChild sc b with | some p => st.condC b * z p | none => 0) else 0)
  + (if i = ix.last b then (match bpOfParent sc b with | some p => st.condP b * z p | none => 0) else 0)

/-- left-hand side of the row of branch point `p` -/
def rowBp (ix : Idx) (sc : Sched) (st : St K) (x z : Nat → K) (p : Nat) : K :=
  st.bpDiags p * z p
  + sumL (((pairsP sc).filter (·.2 == p)).map (fun q => st.weightP q.1 * x (ix.last q.1)))
  + sumL ((childrenOfBp sc p).map (fun c => st.weightC c * x (ix.first c)))

/-- `(x, z)` satisfies every row of the system denoted by `st` -/
def Sat (ix : Idx) (sc : Sched) (st : St K) (x z : Nat → K) : Prop :=
  (∀ b ∈ branchesOf sc, ∀ i, ix.first b ≤ i → i ≤ ix.paddedLast b → rowComp ix sc st x z b i = st.solves i)
  ∧ (∀ q ∈ pairsP sc, rowBp ix sc st x z q.2 = st.bpSolves q.2)

def satB [BEq K] (ix : Idx) (sc : Sched) (st : St K) (x z : Nat → K) : Bool :=
  (branchesOf sc).all (fun b => (List.range (ix.paddedLast b + 1 - ix.first b)).all (fun t =>
      let i := ix.first b + t
      rowComp ix sc st x z b i == st.solves i))
  && (pairsP sc).all (fun q => rowBp ix sc st x z q.2 == st.bpSolves q.2)

/-- diagnostic only (NOT a hypothesis of `solve_correct`): the padding cells behind the last real compartment are identity rows -/
def padB [BEq K] (ix : Idx) (sc : Sched) (st : St K) : Bool :=
  (branchesOf sc).all (fun b => (List.range (ix.paddedLast b - ix.last b)).all (fun t =>
    let j := ix.last b + 1 + t
    st.diags j == 1 && st.lowers j == 0 && st.solves j == 0 && st.uppers (j - 1) == 0 && st.uppers j == 0))

/-! ### pivots -/

/-- Schur pivots and right-hand sides of the rows of a slot, counted from its (padded) end `e`:
`pe k` belongs to row `e - k`.  This is `HTree.elim` along the path `e, e-1, …`. -/
def pe (d lo up b : Nat → K) (e : Nat) : Nat → K × K
  | 0 => (d e, b e)
  | k + 1 =>
    let i := e - (k + 1)
    let r := pe d lo up b e k
    (d i - up i * lo (i + 1) / r.1, b i - up i * r.2 / r.1)

/-- the three steps of one level of the triangulation pass -/
def trLevel (ix : Idx) (lv : List (Nat × Nat) × List (Nat × Nat)) (acc : St K) : St K :=
  elimParentsUpper ix lv.2 (elimChildrenLower ix lv.1 (triangLevel ix (lv.1.map (·.1)) acc))

/-- the state after the levels (deepest first), before the roots are triangulated -/
def trLevels (ix : Idx) (lvs : List (List (Nat × Nat) × List (Nat × Nat))) (st : St K) : St K :=
  lvs.foldl (fun acc lv => trLevel ix lv acc) st

/-- no pivot of the slot `[s, e]` vanishes -/
def SlotPiv (st : St K) (s e : Nat) : Prop :=
  ∀ k, k ≤ e - s → (pe st.diags st.lowers st.uppers st.solves e k).1 ≠ 0

/-- along the levels in the order of the triangulation pass: the slot pivots of every child of the level (in the state at the
start of the level) and the diagonal of every branch point of the level after its children were folded in are non-zero -/
def PivLevels (ix : Idx) : List (List (Nat × Nat) × List (Nat × Nat)) → St K → Prop
  | [], _ => True
  | lv :: rest, st =>
    (∀ c ∈ lv.1, SlotPiv st (ix.first c.1) (ix.paddedLast c.1))
    ∧ (∀ q ∈ lv.2, (elimChildrenLower ix lv.1 (triangLevel ix (lv.1.map (·.1)) st)).bpDiags q.2 ≠ 0)
    ∧ PivLevels ix rest (trLevel ix lv st)

/-- every divisor the solver meets is non-zero -/
def PivOK (ix : Idx) (sc : Sched) (st : St K) : Prop :=
  PivLevels ix (levels sc).reverse st
  ∧ ∀ r ∈ sc.roots, SlotPiv (trLevels ix (levels sc).reverse st) (ix.first r) (ix.paddedLast r)

def slotPivB [BEq K] (st : St K) (s e : Nat) : Bool :=
  (List.range (e - s + 1)).all (fun k => !((pe st.diags st.lowers st.uppers st.solves e k).1 == 0))

def pivLevelsB [BEq K] (ix : Idx) : List (List (Nat × Nat) × List (Nat × Nat)) → St K → Bool
  | [], _ => true
  | lv :: rest, st =>
    lv.1.all (fun c => slotPivB st (ix.first c.1) (ix.paddedLast c.1))
    && lv.2.all (fun q => !((elimChildrenLower ix lv.1 (triangLevel ix (lv.1.map (·.1)) st)).bpDiags q.2 == 0))
    && pivLevelsB ix rest (trLevel ix lv st)

def pivOkB [BEq K] (ix : Idx) (sc : Sched) (st : St K) : Bool :=
  pivLevelsB ix (levels sc).reverse st
  && sc.roots.all (fun r => slotPivB (trLevels ix (levels sc).reverse st) (ix.first r) (ix.paddedLast r))

end numeric
end JaxleyVerif.Model.SolveJaxley
