/-
Hand model of the three ways a parameter value reaches the simulated arrays (jaxley/modules/base.py):
`set` (table write), `data_set` / `make_trainable` (index groups scattered into the arrays by `get_all_parameters` /
`get_all_states` with `.at[inds].set(val[:, None])`), and `write_trainables`.  Import-free; the value type is abstract.
-/
namespace JaxleyVerif.Model.Params

variable {V : Type}

/-- `set(key, val)` through a view: rows in view whose current entry is not NaN (`none`) receive the value
(`val k` for the `k`-th such row) -/
def setCol (col : List (Option V)) (inView : List Nat) (val : Nat → V) : List (Option V) :=
  let targets := inView.filter (fun r => (col.getD r none).isSome)
  (List.range col.length).map (fun r =>
    match targets.idxOf? r with
    | some k => some (val k)
    | none => col.getD r none)

/-- write one value at one index; out-of-bounds indices are dropped (JAX scatter) -/
def put (arr : List V) (i : Nat) (x : V) : List V := if i < arr.length then arr.set i x else arr

/-- `arr.at[inds].set(vals[:, None])`: row `g` of the index array receives `vals[g]`; rows are written in order -/
def scatter (arr : List V) (inds : List (List Nat)) (vals : List V) : List V :=
  (inds.zip vals).foldl (fun a gv => gv.1.foldl (fun a' i => put a' i gv.2) a) arr

/-- the loop of `get_all_parameters` over `pstate` for one key: later entries are applied later -/
def applyPstate (arr : List V) (ps : List (List (List Nat) × List V)) : List V :=
  ps.foldl (fun a p => scatter a p.1 p.2) arr

/-- `make_trainable`: groups of `controlled_by_param` (each group: row labels in view order), padded to equal length
with the out-of-bounds index `n` (the number of rows) -/
def padGroups (n : Nat) (groups : List (List Nat)) : List (List Nat) :=
  let m := groups.foldl (fun a g => max a g.length) 0
  groups.map (fun g => g ++ List.replicate (m - g.length) n)

end JaxleyVerif.Model.Params

namespace JaxleyVerif.Model.Params

/-- groups of `make_trainable`: rows of the view that hold the parameter (`notNan`), grouped by the view's
`controlled_by_param` value (groupby sorts the group keys ascending; rows keep the view order) -/
def insertKey (k : Nat) : List Nat → List Nat
  | [] => [k]
  | y :: ys => if k < y then k :: y :: ys else if k == y then y :: ys else y :: insertKey k ys

def groupsOf (rows : List Nat) (ctrl : Nat → Nat) : List (List Nat) :=
  let keys := rows.foldl (fun acc r => insertKey (ctrl r) acc) []
  keys.map (fun k => rows.filter (fun r => ctrl r == k))

end JaxleyVerif.Model.Params
