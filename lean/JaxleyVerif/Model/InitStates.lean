/-
Hand model of `Module.init_states` (jaxley/modules/base.py), import-free.

    states = snapshot of all state columns ; params = get_all_parameters(...)        -- taken ONCE, before the loop
    for channel in module.channels:                                                  -- insertion order
        rows = nodes[nodes[channel._name]]                                           -- rows where the channel is inserted
        init = channel.init_state(states[rows], v[rows], params[rows], delta_t)      -- from the SNAPSHOT
        for key, val in init.items():  nodes.loc[rows, key] = val                    -- only the returned keys, only these rows

A row is `(v, states, params)`; a channel is its membership predicate and its `init_state` (the generated kernel, by name).
Because every channel reads the snapshot, a channel never sees what an earlier channel wrote.
-/
namespace JaxleyVerif.Model.InitStates

structure Row (α : Type) where
  v : α
  states : String → α
  params : String → α

structure Chan (α : Type) where
  name : String
  /-- `channel.init_state(states, v, params, delta_t)` : returned (key, value) list -/
  init : (String → α) → α → (String → α) → α → List (String × α)

variable {α : Type}

/-- `nodes.loc[row, key] = val` for every returned pair, in order (a later pair with the same key wins) -/
def writeKeys (st : String → α) (kv : List (String × α)) : String → α :=
  kv.foldl (fun acc p => fun k => if k = p.1 then p.2 else acc k) st

/-- one row: the channels in module order; `has c` tells whether channel `c` is inserted in this row;
every `init` is evaluated on the SNAPSHOT `snap` of the row, the writes accumulate in `cur` -/
def initRowFrom (chans : List (Chan α)) (has : String → Bool) (dt : α) (snap : Row α) (cur : String → α) : String → α :=
  chans.foldl (fun acc c => if has c.name then writeKeys acc (c.init snap.states snap.v snap.params dt) else acc) cur

def initRow (chans : List (Chan α)) (has : String → Bool) (dt : α) (r : Row α) : Row α :=
  { r with states := initRowFrom chans has dt r r.states }

/-- `Module.init_states` on a node table (rows with their membership flags) -/
def initStates (chans : List (Chan α)) (dt : α) (rows : List (Row α × (String → Bool))) : List (Row α × (String → Bool)) :=
  rows.map (fun rh => (initRow chans rh.2 dt rh.1, rh.2))

/-- the value `init_states` leaves in column `k` of a row, as a lookup: the LAST inserted member channel that returns `k` -/
def lastWriter (chans : List (Chan α)) (has : String → Bool) (dt : α) (snap : Row α) (k : String) : Option α :=
  chans.foldl (fun acc c =>
    if has c.name then
      match (c.init snap.states snap.v snap.params dt).reverse.find? (fun p => p.1 = k) with
      | some p => some p.2
      | none => acc
    else acc) none

end JaxleyVerif.Model.InitStates
