/-
Hand model of jaxley/connect.py with the sampler's outcome as an explicit argument (import-free).

* `fully_connect`: pandas returns `num_pre` sampled compartments for each post cell, post-cell major (`flat`); the code
  reorders them with `reshape((num_post, num_pre)).T.ravel()` and repeats every pre row `num_post` times
* `connectivity_matrix_connect`: `np.where(M)` enumerates the True entries row-major
* `sparse_connect`: `n` sampled (pre cell, post cell) pairs, sorted by pre cell (stable), one sampled post compartment each
-/
namespace JaxleyVerif.Model.Connect

/-- `x.reshape((npost, npre)).T.ravel()`: entry `a·npost + b` is `flat[b·npre + a]` -/
def transposeRavel (npost npre : Nat) (flat : List Nat) : List Nat :=
  (List.range npre).flatMap (fun a => (List.range npost).map (fun b => flat.getD (b * npre + a) 0))

/-- `rows.index.repeat(npost)` -/
def repeatEach (npost : Nat) (pre : List Nat) : List Nat := pre.flatMap (fun p => List.replicate npost p)

/-- edges `(pre site, post site)` created by `fully_connect`; `preSite a` = first compartment of the `a`-th pre cell,
`flat` = sampled post compartments, post-cell major -/
def fullyConnect (preSites : List Nat) (npost : Nat) (flat : List Nat) : List (Nat × Nat) :=
  (repeatEach npost preSites).zip (transposeRavel npost preSites.length flat)

/-- True entries of a boolean matrix in row-major order (`np.where`) -/
def whereTrue (m : List (List Bool)) : List (Nat × Nat) :=
  (List.range m.length).flatMap (fun i =>
    ((List.range (m.getD i []).length).filter (fun j => (m.getD i []).getD j false)).map (fun j => (i, j)))

/-- edges of `connectivity_matrix_connect`: for the k-th True entry `(i, j)`: pre site of pre cell `i`, `k`-th sampled
compartment (which lies in post cell `j`) -/
def matrixConnect (preSites : List Nat) (m : List (List Bool)) (samples : List Nat) : List (Nat × Nat) :=
  ((whereTrue m).map (fun ij => preSites.getD ij.1 0)).zip samples

/-- stable sort of pairs by first component (`np.argsort` is applied to the pre cells; ties keep order for the default
quicksort only by luck — the model sorts stably and the harness compares multisets) -/
def insertByFst (p : Nat × Nat) : List (Nat × Nat) → List (Nat × Nat)
  | [] => [p]
  | q :: qs => if p.1 < q.1 then p :: q :: qs else q :: insertByFst p qs
def sortByFst (l : List (Nat × Nat)) : List (Nat × Nat) := l.foldr insertByFst []

/-- `sparse_connect`: pairs of (pre cell, post cell) drawn, then per pair the pre site and a sampled post compartment -/
def sparseConnect (preSiteOf : Nat → Nat) (pairs : List (Nat × Nat)) (samples : List Nat) : List (Nat × Nat) :=
  ((sortByFst pairs).map (fun p => preSiteOf p.1)).zip samples

end JaxleyVerif.Model.Connect
