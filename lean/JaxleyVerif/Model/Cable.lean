/-
Code-shaped model of one implicit voltage step of a cell (import-free, polymorphic, executable over Rat/Float):

* node numbering, `par_inds`, `child_belongs_to_branchpoint` as in `compute_children_and_parents`
* the typed `comp_edges` table in the code's concatenation order (`Cell._init_morph_jax_spsolve`)
* `compute_axial_conductances` through the GENERATED kernels (`Gen.compute_coupling_cond`, …)
* the linear system of `step_voltage_implicit_with_jax_spsolve` (diagonal, off-diagonals, right-hand side)
* its solution by the abstract Hines solver on the node tree (what the jaxley.* backends compute level-wise)
* the explicit (forward Euler) update and the Crank–Nicolson combination of `Module.step`
-/
import JaxleyVerif.Gen.Kernels
import JaxleyVerif.Spec.Cable
import JaxleyVerif.Model.Hines

namespace JaxleyVerif.Model.Cable
open JaxleyVerif JaxleyVerif.Spec.Cable

structure CellIn (α : Type) where
  parents : List Int               -- per branch, −1 for the root
  ncomp   : List Nat               -- per branch
  comps   : Array (Comp α)         -- per compartment (global order)
  gm      : Array α                -- membrane linearisation  i_mem = gm·V − km   (µA/cm² per mV)
  km      : Array α                -- (µA/cm²)
  v       : Array α                -- voltages (mV)
  istim   : Array α                -- stimulus per compartment (nA)

/-- cumulative sum with leading zero -/
def cumsum (l : List Nat) : List Nat := l.foldl (fun acc n => acc ++ [acc.getLastD 0 + n]) [0]

/-- ascending insertion without duplicates (`np.unique`) -/
def insertUniq (x : Nat) : List Nat → List Nat
  | [] => [x]
  | y :: ys => if x < y then x :: y :: ys else if x == y then y :: ys else y :: insertUniq x ys

/-- `par_inds = np.unique(parents[1:])` : branches that have children, ascending -/
def parInds (parents : List Int) : List Nat :=
  parents.foldl (fun acc p => if p < 0 then acc else insertUniq p.toNat acc) []

/-- rank of `x` in an ascending duplicate-free list (`remap_to_consecutive`) -/
def rankIn (x : Nat) (l : List Nat) : Nat := (l.filter (· < x)).length

def nTotal (c : List Nat) : Nat := c.foldl (· + ·) 0

/-- `(source, sink, type)` in the order of `Cell._init_morph_jax_spsolve` -/
def compEdges (parents : List Int) (ncomp : List Nat) : List (Nat × Nat × Nat) :=
  let cum := cumsum ncomp
  let ntot := nTotal ncomp
  let pin := parInds parents
  let nb := ncomp.length
  -- type 0, per branch: forward then backward
  let t0 := (List.range nb).flatMap (fun b =>
    let n := ncomp.getD b 0
    let cs := cum.getD b 0
    ((List.range (n - 1)).map (fun k => (cs + k, cs + k + 1, 0))) ++
    ((List.range (n - 1)).map (fun k => (cs + k + 1, cs + k, 0))))
  -- type 1: branch point k -> last compartment of its parent branch
  let t1 := (List.range pin.length).map (fun k => (ntot + k, cum.getD (pin.getD k 0 + 1) 0 - 1, 1))
  -- type 2: branch point -> first compartment of every child branch (in branch order)
  let t2 := (List.range nb).filterMap (fun b =>
    match parents.getD b (-1) with
    | Int.negSucc _ => none
    | Int.ofNat p => some (ntot + rankIn p pin, cum.getD b 0, 2))
  let t3 := t1.map (fun e => (e.2.1, e.1, 3))
  let t4 := t2.map (fun e => (e.2.1, e.1, 4))
  t0 ++ t1 ++ t2 ++ t3 ++ t4

section
variable {α : Type} [Add α] [Sub α] [Mul α] [Div α] [Neg α] [OfScientific α] [HasPi α] [OfNat α 0] [Inhabited α]

/-- `compute_axial_conductances`, one value per edge (already divided by the sink's capacitance for types 0–2) -/
def axialCond (comps : Array (Comp α)) (e : Nat × Nat × Nat) : α :=
  let src := comps.getD e.1 default
  let snk := comps.getD e.2.1 default
  match e.2.2 with
  | 0 => Gen.compute_coupling_cond snk.r src.r snk.ra src.ra snk.l src.l / snk.cm
  | 1 => Gen.compute_coupling_cond_branchpoint snk.r snk.ra snk.l / snk.cm
  | 2 => Gen.compute_coupling_cond_branchpoint snk.r snk.ra snk.l / snk.cm
  | _ => Gen.compute_impact_on_node src.r src.ra src.l * 1000.0

structure LinSys (α : Type) where
  n     : Nat                      -- number of nodes (compartments + branch points)
  diag  : Array α
  rhs   : Array α
  off   : List (Nat × Nat × α)     -- (row, col, value)

/-- voltage terms / constant terms handed to the solver by `Module.step` -/
def voltageTerm (c : CellIn α) (i : Nat) : α := c.gm.getD i 0 / (c.comps.getD i default).cm
def constantTerm (c : CellIn α) (i : Nat) : α :=
  let cp := c.comps.getD i default
  (c.km.getD i 0 + Gen.convert_point_process_to_distributed (c.istim.getD i 0) cp.r cp.l) / cp.cm

/-- the system of `step_voltage_implicit_with_jax_spsolve` (row = sink, column = source) -/
def assemble (c : CellIn α) (dt : α) : LinSys α :=
  let ntot := nTotal c.ncomp
  let edges := compEdges c.parents c.ncomp
  let nn := ntot + (parInds c.parents).length
  let d0 : Array α := Array.replicate nn 0
  let diag1 := edges.foldl (fun d e => d.modify e.2.1 (· + dt * axialCond c.comps e)) d0
  let diag2 := (List.range ntot).foldl (fun d i => d.modify i (· + (1.0 + dt * voltageTerm c i))) diag1
  let rhs := (List.range ntot).foldl (fun r i => r.modify i (· + (c.v.getD i 0 + dt * constantTerm c i))) d0
  { n := nn, diag := diag2, rhs := rhs, off := edges.map (fun e => (e.2.1, e.1, -(dt * axialCond c.comps e))) }

def offAt (s : LinSys α) (row col : Nat) : α :=
  match s.off.find? (fun t => t.1 == row && t.2.1 == col) with
  | some t => t.2.2
  | none => 0

end

/-- parent of a node in the node tree: previous compartment inside a branch; the branch point of the parent
branch for the first compartment of a child branch; the LAST compartment of the parent branch for a branch point -/
def parentNode (parents : List Int) (ncomp : List Nat) (node : Nat) : Option Nat :=
  let cum := cumsum ncomp
  let ntot := nTotal ncomp
  let pin := parInds parents
  if node ≥ ntot then
    some (cum.getD (pin.getD (node - ntot) 0 + 1) 0 - 1)
  else
    -- branch of the compartment
    let b := ((List.range ncomp.length).filter (fun b => cum.getD b 0 ≤ node)).getLastD 0
    if node > cum.getD b 0 then some (node - 1)
    else match parents.getD b (-1) with
      | Int.negSucc _ => none
      | Int.ofNat p => some (ntot + rankIn p pin)

section
variable {α : Type} [Add α] [Sub α] [Mul α] [Div α] [Neg α] [OfScientific α] [HasPi α] [OfNat α 0] [Inhabited α]

/-- the rose tree of a system rooted at `node` (fuel = number of nodes) -/
def buildTree (s : LinSys α) (par : Nat → Option Nat) : Nat → Nat → HTree α
  | 0, node => HTree.node node (s.diag.getD node 0) (s.rhs.getD node 0) 0 0 []
  | fuel + 1, node =>
    let kids := (List.range s.n).filter (fun k => par k == some node)
    let up : α := match par node with | some p => offAt s node p | none => 0
    let down : α := match par node with | some p => offAt s p node | none => 0
    HTree.node node (s.diag.getD node 0) (s.rhs.getD node 0) up down (kids.map (buildTree s par fuel))

/-- one backward-Euler step of a cell: values of all nodes, indexed by node id -/
def stepImplicit (c : CellIn α) (dt : α) : List (Nat × α) :=
  let s := assemble c dt
  let par := parentNode c.parents c.ncomp
  let roots := (List.range s.n).filter (fun k => par k == none)
  roots.flatMap (fun r => HTree.solve (buildTree s par s.n r))

def lookup (l : List (Nat × α)) (i : Nat) : α :=
  match l.find? (fun p => p.1 == i) with | some p => p.2 | none => 0

/-- compartment voltages after a backward-Euler step -/
def stepBwd (c : CellIn α) (dt : α) : List α :=
  let sol := stepImplicit c dt
  (List.range (nTotal c.ncomp)).map (lookup sol)

/-- Crank–Nicolson as in `Module.step`: `2·bwd(dt/2) − v` -/
def stepCN (c : CellIn α) (dt : α) : List α :=
  let half := stepBwd c (dt / 2.0)
  (List.range (nTotal c.ncomp)).map (fun i => 2.0 * half.getD i 0 - c.v.getD i 0)

/-- forward Euler of `step_voltage_explicit` (refused for branched morphologies) -/
def stepFwd (c : CellIn α) (dt : α) : Option (List α) :=
  let edges := compEdges c.parents c.ncomp
  if edges.any (fun e => e.2.2 != 0) then none
  else
    let ntot := nTotal c.ncomp
    some ((List.range ntot).map (fun i =>
      let vi := c.v.getD i 0
      let field0 : α := -(voltageTerm c i) * vi + constantTerm c i
      let field := edges.foldl (fun acc e =>
        if e.2.1 == i then acc + (c.v.getD e.1 0 - vi) * axialCond c.comps e else acc) field0
      vi + dt * field))

/-! ### Spec residuals (from raw physics, independent of the generated conductance kernels) -/

/-- branch-point potentials determined by Kirchhoff from compartment voltages `x` -/
def bpPotential (c : CellIn α) (x : Nat → α) (k : Nat) : α :=
  let cum := cumsum c.ncomp
  let pin := parInds c.parents
  let pb := pin.getD k 0
  let lastPar := cum.getD (pb + 1) 0 - 1
  let kidsFirst := (List.range c.ncomp.length).filter (fun b => c.parents.getD b (-1) == Int.ofNat pb)
    |>.map (fun b => cum.getD b 0)
  let members := lastPar :: kidsFirst
  let num := members.foldl (fun a i => a + gEnd (c.comps.getD i default) * x i) 0
  let den := members.foldl (fun a i => a + gEnd (c.comps.getD i default)) 0
  num / den

/-- right-hand side minus left-hand side of the SpecSys row of compartment `i` (µA), and the scale
`Σ|terms|` used for the relative residual.  `abs` is passed in (Rat/Float). -/
def specRow (absf : α → α) (c : CellIn α) (dt : α) (x : Nat → α) (i : Nat) : α × α :=
  let cum := cumsum c.ncomp
  let ntot := nTotal c.ncomp
  let pin := parInds c.parents
  let cp := c.comps.getD i default
  let b := ((List.range c.ncomp.length).filter (fun b => cum.getD b 0 ≤ i)).getLastD 0
  let first := cum.getD b 0
  let last := cum.getD (b + 1) 0 - 1
  let xi := x i
  let tcap := capUF cp * (xi - c.v.getD i 0) / dt
  let tmem := areaCm2 cp * (c.gm.getD i 0 * xi - c.km.getD i 0)
  let tstim := 1.0e-3 * c.istim.getD i 0
  -- neighbours inside the branch
  let nb1 : List α := (if i > first then [1.0e3 * gAxial cp (c.comps.getD (i - 1) default) * (x (i - 1) - xi)] else []) ++
                     (if i < last then [1.0e3 * gAxial cp (c.comps.getD (i + 1) default) * (x (i + 1) - xi)] else [])
  -- branch point at the start (child side)
  let nb2 : List α := if i == first then
      (match c.parents.getD b (-1) with
       | Int.negSucc _ => []
       | Int.ofNat p => [1.0e3 * gEnd cp * (bpPotential c x (rankIn p pin) - xi)]) else []
  -- branch point at the end (parent side)
  let nb3 : List α := if i == last && pin.contains b then
      [1.0e3 * gEnd cp * (bpPotential c x (rankIn b pin) - xi)] else []
  let ax := (nb1 ++ nb2 ++ nb3)
  let axs := ax.foldl (· + ·) 0
  let res := tcap - axs + tmem - tstim
  let scale := absf tcap + ax.foldl (fun a t => a + absf t) 0 + absf (areaCm2 cp * (c.gm.getD i 0 * xi))
                + absf (areaCm2 cp * c.km.getD i 0) + absf tstim
                + capUF cp * absf xi / dt + capUF cp * absf (c.v.getD i 0) / dt
  let _ := ntot
  (res, scale)

/-- total charge balance of a backward-Euler step (µA): `Σ C_i (x_i − v_i)/dt − Σ (10⁻³ I_i − A_i (gm_i x_i − km_i))` -/
def chargeBalance (c : CellIn α) (dt : α) (x : Nat → α) : α :=
  (List.range (nTotal c.ncomp)).foldl (fun a i =>
    let cp := c.comps.getD i default
    a + capUF cp * (x i - c.v.getD i 0) / dt - 1.0e-3 * c.istim.getD i 0
      + areaCm2 cp * (c.gm.getD i 0 * x i - c.km.getD i 0)) 0

end
end JaxleyVerif.Model.Cable
