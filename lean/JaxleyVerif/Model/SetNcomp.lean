/-
Hand model of `Module.set_ncomp` at table level (jaxley/modules/base.py), after the F9 fix.  Import-free.

A cell's node table is a list of rows in branch order; `P` bundles every property that `set_ncomp` requires to be uniform
within the branch (capacitance, axial resistivity, channel flags, channel parameters and states) and copies unchanged.
The radius of the new compartments is supplied by `radiusOf j` (the constant old radius, or the SWC radius function
evaluated at the new centres `(j+½)/n`, see C16).
-/
namespace JaxleyVerif.Model.SetNcomp

structure Row (α P : Type) where
  branch : Nat
  len : α
  rad : α
  props : P
deriving Repr

structure CellT (α P : Type) where
  rows : List (Row α P)
  groups : List (String × List Nat)      -- row labels (positions)

variable {α P : Type}

def sumLen [Add α] [OfNat α 0] (rows : List (Row α P)) : α := rows.foldl (fun a r => a + r.len) 0

/-- `branch(b).set_ncomp(n)` on a table whose rows are grouped by branch -/
def setNcomp [Add α] [Div α] [OfNat α 0] [NatCast α] [Inhabited P]
    (c : CellT α P) (b n : Nat) (radiusOf : Nat → α) : CellT α P :=
  let before := c.rows.takeWhile (fun r => r.branch != b)
  let rest := c.rows.dropWhile (fun r => r.branch != b)
  let old := rest.takeWhile (fun r => r.branch == b)
  let after := rest.dropWhile (fun r => r.branch == b)
  let start := before.length
  let k := old.length
  let total := sumLen old
  let props := match old.head? with | some r => r.props | none => default
  let new : List (Row α P) := (List.range n).map (fun j => { branch := b, len := total / (n : α), rad := radiusOf j, props := props })
  let remap (g : List Nat) : List Nat :=
    let within := g.any (fun r => start ≤ r && r < start + k)
    g.filter (· < start) ++ (if within then (List.range n).map (· + start) else []) ++
      (g.filter (fun r => start + k ≤ r)).map (fun r => r - k + n)
  { rows := before ++ new ++ after, groups := c.groups.map (fun g => (g.1, remap g.2)) }

/-- a cell specified branch by branch: number of compartments, total length, radius, uniform properties -/
structure BranchSpec (α P : Type) where
  ncomp : Nat
  length : α
  radius : α
  props : P

/-- direct construction of the node table from per-branch specifications (uniform branches) -/
def build [Div α] [NatCast α] (specs : List (BranchSpec α P)) : List (Row α P) :=
  (specs.zipIdx).flatMap (fun sb =>
    (List.range sb.1.ncomp).map (fun _ => ({ branch := sb.2, len := sb.1.length / (sb.1.ncomp : α), rad := sb.1.radius, props := sb.1.props } : Row α P)))

/-- the set of branches a group touches -/
def branchesOf (rows : List (Row α P)) (g : List Nat) : List Nat :=
  (g.filterMap (fun i => rows[i]?.map (·.branch))).eraseDups

end JaxleyVerif.Model.SetNcomp
