import Mathlib.Tactic.Ring
import Mathlib.Tactic.FieldSimp
import Mathlib.Tactic.NormNum
import Mathlib.Tactic.Linarith

/-- Close an arithmetic identity over a field robustly: the proofs about generated kernels must survive a
harmless reordering of the arithmetic in the Python source, so no step may depend on the exact shape of
the goal after the previous one.  (`ring` is never run before `norm_num` has normalised the scientific
literals `20.0`, … — on raw `OfScientific` literals it can produce an ill-typed proof term.) -/
macro "close_arith" : tactic =>
  `(tactic| first
    | done
    | (norm_num; done)
    | (norm_num; ring; done)
    | (norm_num; field_simp; done)
    | (norm_num; field_simp; ring; done)
    | (ring; done)
    | (field_simp; ring; done))
