/-
The scalar instance used by all theorems: `ℝ` with Mathlib's transcendental functions.
-/
import Mathlib.Analysis.SpecialFunctions.Exp
import Mathlib.Analysis.SpecialFunctions.Log.Basic
import Mathlib.Analysis.SpecialFunctions.Sqrt
import Mathlib.Analysis.SpecialFunctions.Trigonometric.Basic
import Mathlib.Analysis.SpecialFunctions.Trigonometric.DerivHyp
import JaxleyVerif.Prelude.Scalar

namespace JaxleyVerif

noncomputable instance instTranscReal : Transc ℝ where
  exp := Real.exp
  log := Real.log
  log1p := fun x => Real.log (1 + x)
  tanh := Real.tanh
  sqrt := Real.sqrt
  pi := Real.pi

noncomputable instance instHasPiReal : HasPi ℝ := ⟨Real.pi⟩
@[simp] theorem haspi_real : (HasPi.pi : ℝ) = Real.pi := rfl

@[simp] theorem transc_exp_real (x : ℝ) : Transc.exp x = Real.exp x := rfl
@[simp] theorem transc_log_real (x : ℝ) : Transc.log x = Real.log x := rfl
@[simp] theorem transc_log1p_real (x : ℝ) : Transc.log1p x = Real.log (1 + x) := rfl
@[simp] theorem transc_tanh_real (x : ℝ) : Transc.tanh x = Real.tanh x := rfl
@[simp] theorem transc_sqrt_real (x : ℝ) : Transc.sqrt x = Real.sqrt x := rfl
@[simp] theorem transc_pi_real : (Transc.pi : ℝ) = Real.pi := rfl

end JaxleyVerif
