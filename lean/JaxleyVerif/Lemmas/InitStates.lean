/-
Lemmas about the model of `Module.init_states` (`Model/InitStates.lean`): what a column holds afterwards, frame, idempotence.
Core Lean only.
-/
import JaxleyVerif.Model.InitStates

namespace JaxleyVerif.Model.InitStates
variable {α : Type}

/-- the keys a returned list writes -/
def keysOf (kv : List (String × α)) : List String := kv.map (·.1)

theorem writeKeys_of_not_mem (st : String → α) (kv : List (String × α)) (k : String) (h : k ∉ keysOf kv) :
    writeKeys st kv k = st k := by
  induction kv generalizing st with
  | nil => rfl
  | cons p kv ih =>
    simp only [keysOf, List.map_cons, List.mem_cons, not_or] at h
    simp only [writeKeys, List.foldl_cons]
    have := ih (fun k' => if k' = p.1 then p.2 else st k') (by simpa [keysOf] using h.2)
    simp only [writeKeys] at this
    rw [this]
    simp [h.1]

/-- a key that occurs once in the returned list receives its value -/
theorem writeKeys_of_mem (st : String → α) (kv : List (String × α)) (k : String) (x : α)
    (hmem : (k, x) ∈ kv) (hnd : (keysOf kv).Nodup) : writeKeys st kv k = x := by
  induction kv generalizing st with
  | nil => cases hmem
  | cons p kv ih =>
    simp only [keysOf, List.map_cons, List.nodup_cons] at hnd
    simp only [writeKeys, List.foldl_cons]
    rcases List.mem_cons.mp hmem with h | h
    · subst h
      have := writeKeys_of_not_mem (fun k' => if k' = k then x else st k') kv k (by simpa [keysOf] using hnd.1)
      simp only [writeKeys] at this
      rw [this]; simp
    · have := ih (fun k' => if k' = p.1 then p.2 else st k') h (by simpa [keysOf] using hnd.2)
      simpa [writeKeys] using this

/-- **frame**: a column that no member channel returns is left alone (whatever the accumulator) -/
theorem initRowFrom_frame (chans : List (Chan α)) (has : String → Bool) (dt : α) (snap : Row α) (cur : String → α) (k : String)
    (h : ∀ c ∈ chans, has c.name = true → k ∉ keysOf (c.init snap.states snap.v snap.params dt)) :
    initRowFrom chans has dt snap cur k = cur k := by
  induction chans generalizing cur with
  | nil => rfl
  | cons c cs ih =>
    simp only [initRowFrom, List.foldl_cons]
    have ih' := fun cur' => ih cur' (fun c' hc' => h c' (List.mem_cons_of_mem _ hc'))
    simp only [initRowFrom] at ih'
    rw [ih']
    by_cases hc : has c.name = true
    · simp only [hc, if_true]
      exact writeKeys_of_not_mem _ _ _ (h c List.mem_cons_self hc)
    · simp [hc]

/-- rows where no channel is inserted are untouched -/
theorem initRow_no_channel (chans : List (Chan α)) (has : String → Bool) (dt : α) (r : Row α)
    (h : ∀ c ∈ chans, has c.name = false) : (initRow chans has dt r).states = r.states := by
  funext k
  exact initRowFrom_frame chans has dt r r.states k (fun c hc hh => by rw [h c hc] at hh; cases hh)

/-- voltages and parameters are never written -/
theorem initRow_v (chans : List (Chan α)) (has : String → Bool) (dt : α) (r : Row α) :
    (initRow chans has dt r).v = r.v ∧ (initRow chans has dt r).params = r.params := ⟨rfl, rfl⟩

/-- **what a member channel leaves behind**: if channel `c` is inserted in the row, its returned keys are distinct and no
OTHER member channel returns the key `k`, then after `init_states` column `k` holds the value `c.init_state` computed from the
row's own voltage and parameters (as they were BEFORE the call) -/
theorem initRowFrom_member (chans : List (Chan α)) (has : String → Bool) (dt : α) (snap : Row α) (cur : String → α)
    (c : Chan α) (hc : c ∈ chans) (hhas : has c.name = true) (k : String) (x : α)
    (hmem : (k, x) ∈ c.init snap.states snap.v snap.params dt)
    (hnd : (keysOf (c.init snap.states snap.v snap.params dt)).Nodup)
    (hother : ∀ c' ∈ chans, c' ≠ c → has c'.name = true → k ∉ keysOf (c'.init snap.states snap.v snap.params dt)) :
    initRowFrom chans has dt snap cur k = x := by
  induction chans generalizing cur with
  | nil => cases hc
  | cons d ds ih =>
    simp only [initRowFrom, List.foldl_cons]
    by_cases hdc : d = c
    · subst hdc
      simp only [hhas, if_true]
      by_cases hin : d ∈ ds
      · have := ih (writeKeys cur (d.init snap.states snap.v snap.params dt)) hin
          (fun c' hc' => hother c' (List.mem_cons_of_mem _ hc'))
        simpa [initRowFrom] using this
      · have hfr := initRowFrom_frame ds has dt snap (writeKeys cur (d.init snap.states snap.v snap.params dt)) k
          (fun c' hc' hh => hother c' (List.mem_cons_of_mem _ hc') (fun e => hin (e ▸ hc')) hh)
        simp only [initRowFrom] at hfr
        rw [hfr]
        exact writeKeys_of_mem _ _ _ _ hmem hnd
    · have hcds : c ∈ ds := by
        rcases List.mem_cons.mp hc with h | h
        · exact absurd h.symm hdc
        · exact h
      have := fun cur' => ih cur' hcds (fun c' hc' => hother c' (List.mem_cons_of_mem _ hc'))
      simp only [initRowFrom] at this
      exact this _

/-- `writeKeys` looks at the old table only in the column it is asked about, and not at all if the column is written -/
theorem writeKeys_congr (st1 st2 : String → α) (kv : List (String × α)) (k : String)
    (h : st1 k = st2 k ∨ k ∈ keysOf kv) : writeKeys st1 kv k = writeKeys st2 kv k := by
  induction kv generalizing st1 st2 with
  | nil =>
    rcases h with h | h
    · exact h
    · cases h
  | cons p kv ih =>
    simp only [writeKeys, List.foldl_cons]
    have := ih (fun k' => if k' = p.1 then p.2 else st1 k') (fun k' => if k' = p.1 then p.2 else st2 k') ?_
    · simpa [writeKeys] using this
    · by_cases hk : k = p.1
      · left; simp [hk]
      · rcases h with h | h
        · left; simp [hk, h]
        · right
          simp only [keysOf, List.map_cons, List.mem_cons] at h
          rcases h with h | h
          · exact absurd h hk
          · exact h

/-- the same for a whole row -/
theorem initRowFrom_congr (chans : List (Chan α)) (has : String → Bool) (dt : α) (snap : Row α) (cur1 cur2 : String → α)
    (k : String)
    (h : cur1 k = cur2 k ∨ ∃ c ∈ chans, has c.name = true ∧ k ∈ keysOf (c.init snap.states snap.v snap.params dt)) :
    initRowFrom chans has dt snap cur1 k = initRowFrom chans has dt snap cur2 k := by
  induction chans generalizing cur1 cur2 with
  | nil =>
    rcases h with h | ⟨c, hc, _⟩
    · exact h
    · cases hc
  | cons c cs ih =>
    simp only [initRowFrom, List.foldl_cons]
    have ih' := ih (if has c.name = true then writeKeys cur1 (c.init snap.states snap.v snap.params dt) else cur1)
      (if has c.name = true then writeKeys cur2 (c.init snap.states snap.v snap.params dt) else cur2)
    simp only [initRowFrom] at ih'
    apply ih'
    by_cases hh : has c.name = true
    · simp only [hh, if_true]
      rcases h with h | ⟨c', hc', hh', hk'⟩
      · left; exact writeKeys_congr _ _ _ _ (Or.inl h)
      · rcases List.mem_cons.mp hc' with e | e
        · subst e; left; exact writeKeys_congr _ _ _ _ (Or.inr hk')
        · right; exact ⟨c', e, hh', hk'⟩
    · simp only [hh]
      rcases h with h | ⟨c', hc', hh', hk'⟩
      · left; exact h
      · rcases List.mem_cons.mp hc' with e | e
        · subst e; exact absurd hh' hh
        · right; exact ⟨c', e, hh', hk'⟩

/-- the states of the snapshot matter only through the channels' `init_state` -/
theorem initRowFrom_snapshot (chans : List (Chan α)) (has : String → Bool) (dt : α) (snap snap' : Row α) (cur : String → α)
    (hv : snap'.v = snap.v) (hp : snap'.params = snap.params)
    (hind : ∀ c ∈ chans, ∀ s s' v p, c.init s v p dt = c.init s' v p dt) :
    initRowFrom chans has dt snap' cur = initRowFrom chans has dt snap cur := by
  induction chans generalizing cur with
  | nil => rfl
  | cons c cs ih =>
    simp only [initRowFrom, List.foldl_cons]
    have e : c.init snap'.states snap'.v snap'.params dt = c.init snap.states snap.v snap.params dt := by
      rw [hv, hp]; exact hind c List.mem_cons_self _ _ _ _
    rw [e]
    have := ih (if has c.name = true then writeKeys cur (c.init snap.states snap.v snap.params dt) else cur)
      (fun c' hc' => hind c' (List.mem_cons_of_mem _ hc'))
    simpa [initRowFrom] using this

/-- **idempotence**: when no channel's `init_state` reads the states (true of every built-in channel: it is a function of the
voltage and the parameters), a second `init_states` changes nothing -/
theorem initRow_idem (chans : List (Chan α)) (has : String → Bool) (dt : α) (r : Row α)
    (hind : ∀ c ∈ chans, ∀ s s' v p, c.init s v p dt = c.init s' v p dt) :
    initRow chans has dt (initRow chans has dt r) = initRow chans has dt r := by
  have h1 : (initRow chans has dt (initRow chans has dt r)).states = (initRow chans has dt r).states := by
    show initRowFrom chans has dt (initRow chans has dt r) (initRow chans has dt r).states = _
    rw [initRowFrom_snapshot chans has dt r (initRow chans has dt r) _ rfl rfl hind]
    funext k
    show initRowFrom chans has dt r (initRowFrom chans has dt r r.states) k = initRowFrom chans has dt r r.states k
    apply initRowFrom_congr
    by_cases hw : ∃ c ∈ chans, has c.name = true ∧ k ∈ keysOf (c.init r.states r.v r.params dt)
    · exact Or.inr hw
    · left
      apply initRowFrom_frame
      intro c hc hh hk
      exact hw ⟨c, hc, hh, hk⟩
  show ({ v := r.v, states := (initRow chans has dt (initRow chans has dt r)).states, params := r.params } : Row α) = _
  rw [h1]
  rfl

end JaxleyVerif.Model.InitStates
