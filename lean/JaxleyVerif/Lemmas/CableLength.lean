/- lengths of the voltage vectors returned by the cell solvers of `Model/Cable.lean` (core Lean only) -/
import JaxleyVerif.Model.Cable

namespace JaxleyVerif.Model.Cable
variable {α : Type} [Add α] [Sub α] [Mul α] [Div α] [Neg α] [OfScientific α] [HasPi α] [OfNat α 0] [Inhabited α]

/-- a backward-Euler step returns one voltage per compartment of the cell -/
theorem stepBwd_length (c : CellIn α) (dt : α) : (stepBwd c dt).length = nTotal c.ncomp := by
  unfold stepBwd
  simp

/-- a Crank–Nicolson step returns one voltage per compartment of the cell -/
theorem stepCN_length (c : CellIn α) (dt : α) : (stepCN c dt).length = nTotal c.ncomp := by
  unfold stepCN
  simp

/-- a forward-Euler step, when it is accepted, returns one voltage per compartment of the cell -/
theorem stepFwd_length (c : CellIn α) (dt : α) (l : List α) (h : stepFwd c dt = some l) : l.length = nTotal c.ncomp := by
  unfold stepFwd at h
  simp only at h
  split at h
  · cases h
  · cases h
    simp

/-- forward Euler is accepted exactly for cells without branch points -/
theorem stepFwd_isSome (c : CellIn α) (dt : α) :
    (stepFwd c dt).isSome = !((compEdges c.parents c.ncomp).any (fun e => e.2.2 != 0)) := by
  unfold stepFwd
  simp only
  split
  · rename_i h; simp [h]
  · rename_i h
    have h' : (compEdges c.parents c.ncomp).any (fun e => e.2.2 != 0) = false := by simpa using h
    rw [h']
    rfl

end JaxleyVerif.Model.Cable
