/-
The pivot hypothesis of `solve_correct` holds for cable-like systems: strictly row-dominant Z-rows for the compartments,
(minus) weighted Kirchhoff rows for the branch points.  Along the triangulation pass every not-yet-triangulated slot stays a
strictly dominant Z-block (`DomB`) and every branch-point row keeps `bpDiags ≤ −(weightP + Σ remaining weightC)` (`BpDom`).
-/
import JaxleyVerif.Lemmas.SolveJaxleyGlobal
import Mathlib.Algebra.Order.Field.Basic
import Mathlib.Algebra.Order.Field.Rat
import Mathlib.Tactic.Linarith
import Mathlib.Tactic.Positivity
import Mathlib.Tactic.IntervalCases

namespace JaxleyVerif.Model.SolveJaxley
variable {K : Type} [Field K] [LinearOrder K] [IsStrictOrderedRing K]

/-- the arrays are those of a discretised cable: compartment rows are strictly row-dominant Z-rows (positive diagonal, non-positive
couplings), branch-point rows are (minus) weighted Kirchhoff rows with positive weights -/
structure Dominant (ix : Idx) (sc : Sched) (st : St K) : Prop where
  lo_nonpos : ∀ b ∈ branchesOf sc, ∀ i, ix.first b < i → i ≤ ix.paddedLast b → st.lowers i ≤ 0
  up_nonpos : ∀ b ∈ branchesOf sc, ∀ i, ix.first b ≤ i → i < ix.paddedLast b → st.uppers i ≤ 0
  condC_nonpos : ∀ c ∈ pairsC sc, st.condC c.1 ≤ 0
  condP_nonpos : ∀ q ∈ pairsP sc, st.condP q.1 ≤ 0
  wC_pos : ∀ c ∈ pairsC sc, 0 < st.weightC c.1
  wP_pos : ∀ q ∈ pairsP sc, 0 < st.weightP q.1
  bp_diag : ∀ q ∈ pairsP sc, st.bpDiags q.2 = -(st.weightP q.1 + sumL ((childrenOfBp sc q.2).map (fun c => st.weightC c)))
  row_dom : ∀ b ∈ branchesOf sc, ∀ i, ix.first b ≤ i → i ≤ ix.paddedLast b →
      0 < st.diags i + (if ix.first b < i then st.lowers i else 0) + (if i < ix.paddedLast b then st.uppers i else 0)
          + (if i = ix.first b then (match bpOfChild sc b with | some _ => st.condC b | none => 0) else 0)
          + (if i = ix.last b then (match bpOfParent sc b with | some _ => st.condP b | none => 0) else 0)

/-! ### scalar bounds -/

theorem piv_bound (d u l P g : K) (hl : l ≤ 0) (hg : g ≤ 0) (hP : 0 < P + l + g) (hu : u ≤ 0) :
    d + u ≤ d - u * l / P := by
  have hP0 : 0 < P := by linarith
  have hne := hP0.ne'
  have key : d - u * l / P - (d + u) = -u * ((P + l) / P) := by field_simp; ring
  have : 0 ≤ -u * ((P + l) / P) := mul_nonneg (by linarith) (div_nonneg (by linarith) hP0.le)
  linarith

theorem ecl_bound (w d0 cc : K) (hw : 0 ≤ w) (hc : cc ≤ 0) (hd : 0 < d0 + cc) : -w / d0 * cc ≤ w := by
  have hd0 : 0 < d0 := by linarith
  have hne := hd0.ne'
  have key : w - -w / d0 * cc = w * ((d0 + cc) / d0) := by field_simp; ring
  have : 0 ≤ w * ((d0 + cc) / d0) := mul_nonneg hw (div_nonneg hd.le hd0.le)
  linarith

theorem epu_bound (d cp D wP : K) (hcp : cp ≤ 0) (hD : D ≤ -wP) (hw : 0 < wP) : d + cp ≤ d + -(cp / D) * wP := by
  have hD0 : D < 0 := by linarith
  have hne := hD0.ne
  have key : d + -(cp / D) * wP - (d + cp) = -cp * ((wP + D) / D) := by field_simp; ring
  have : 0 ≤ -cp * ((wP + D) / D) := mul_nonneg (by linarith) (div_nonneg_of_nonpos (by linarith) hD0.le)
  linarith

theorem sumL_nonneg {α : Type} (l : List α) (f : α → K) (h : ∀ a ∈ l, 0 ≤ f a) : 0 ≤ sumL (l.map f) := by
  induction l with
  | nil => exact le_refl _
  | cons a t ih =>
    simp only [List.map_cons, sumL_cons]
    exact add_nonneg (h a (by simp)) (ih (fun a' ha' => h a' (List.mem_cons_of_mem _ ha')))

omit [LinearOrder K] [IsStrictOrderedRing K] in
theorem sumL_upd_zero' (l : List Nat) (w : Nat → K) (b : Nat) (hn : l.Nodup) (hb : b ∈ l) :
    sumL (l.map (fun c => upd w b 0 c)) = sumL (l.map (fun c => w c)) - w b := by
  have := sumL_upd_zero l id (fun _ => (1 : K)) w b (by simpa using hn) b hb rfl
  simpa using this

omit [LinearOrder K] [IsStrictOrderedRing K] in
theorem sumL_upd_notin' (l : List Nat) (w : Nat → K) (b : Nat) (v : K) (hb : b ∉ l) :
    sumL (l.map (fun c => upd w b v c)) = sumL (l.map (fun c => w c)) := by
  apply sumL_congr
  intro a ha
  exact upd_ne _ _ _ _ (fun he => hb (he ▸ ha))

/-! ### Thomas on a strictly dominant Z-block: every Schur pivot keeps the row excess -/

theorem pe_dominant (d lo up y g : Nat → K) (s e : Nat) (hlo : ∀ i, s < i → i ≤ e → lo i ≤ 0)
    (hup : ∀ i, s ≤ i → i < e → up i ≤ 0) (hg : ∀ i, s ≤ i → i ≤ e → g i ≤ 0)
    (hex : ∀ i, s ≤ i → i ≤ e → 0 < d i + (if s < i then lo i else 0) + (if i < e then up i else 0) + g i) :
    ∀ n i, i + n = e → s ≤ i → 0 < (pe d lo up y e (e - i)).1 + (if s < i then lo i else 0) + g i := by
  intro n
  induction n with
  | zero =>
    intro i hi hs
    have : i = e := by omega
    subst this
    have h := hex i hs le_rfl
    rw [if_neg (lt_irrefl _), add_zero] at h
    simpa [pe] using h
  | succ n ih =>
    intro i hi hs
    have hlt : i < e := by omega
    have ih' := ih (i + 1) (by omega) (by omega)
    rw [if_pos (show s < i + 1 by omega)] at ih'
    rw [pe_sub d lo up y e i hlt]
    have hx := hex i hs (by omega)
    rw [if_pos hlt] at hx
    have hb := piv_bound (d i) (up i) (lo (i + 1)) (pe d lo up y e (e - (i + 1))).1 (g (i + 1))
      (hlo (i + 1) (by omega) (by omega)) (hg (i + 1) (by omega) (by omega)) ih' (hup i hs hlt)
    show 0 < d i - up i * lo (i + 1) / (pe d lo up y e (e - (i + 1))).1 + (if s < i then lo i else 0) + g i
    linarith

/-! ### dominance of the slot of a branch -/

def cC (sc : Sched) (s : St K) (b : Nat) : K := match bpOfChild sc b with | some _ => s.condC b | none => 0
def cP (sc : Sched) (s : St K) (b : Nat) : K := match bpOfParent sc b with | some _ => s.condP b | none => 0
/-- row excess: diagonal plus the (non-positive) couplings of the row -/
def excess (ix : Idx) (sc : Sched) (s : St K) (b i : Nat) : K :=
  s.diags i + (if ix.first b < i then s.lowers i else 0) + (if i < ix.paddedLast b then s.uppers i else 0)
    + (if i = ix.first b then cC sc s b else 0) + (if i = ix.last b then cP sc s b else 0)

/-- the slot of `b` is a strictly row-dominant Z-block -/
structure DomB (ix : Idx) (sc : Sched) (s : St K) (b : Nat) : Prop where
  lo : ∀ i, ix.first b < i → i ≤ ix.paddedLast b → s.lowers i ≤ 0
  up : ∀ i, ix.first b ≤ i → i < ix.paddedLast b → s.uppers i ≤ 0
  cc : cC sc s b ≤ 0
  cp : cP sc s b ≤ 0
  ex : ∀ i, ix.first b ≤ i → i ≤ ix.paddedLast b → 0 < excess ix sc s b i

omit [IsStrictOrderedRing K] in
theorem DomB_congr {ix : Idx} {sc : Sched} {st st' : St K} {b : Nat} (h : SlotEq ix st st' b)
    (hc : st'.condC b = st.condC b) (hp : st'.condP b = st.condP b) (hD : DomB ix sc st b) : DomB ix sc st' b := by
  obtain ⟨d1, d2, d3, d4, d5⟩ := hD
  refine ⟨?_, ?_, ?_, ?_, ?_⟩
  · intro i h1 h2
    rw [(h i (by omega) h2).2.1]; exact d1 i h1 h2
  · intro i h1 h2
    rw [(h i h1 (by omega)).2.2.1]; exact d2 i h1 h2
  · unfold cC at d3 ⊢; rw [hc]; exact d3
  · unfold cP at d4 ⊢; rw [hp]; exact d4
  · intro i h1 h2
    have := d5 i h1 h2
    obtain ⟨a1, a2, a3, -⟩ := h i h1 h2
    unfold excess cC cP at this ⊢
    rw [a1, a2, a3, hc, hp]
    exact this

theorem domB_pe {ix : Idx} {sc : Sched} {s : St K} {b : Nat} (hD : DomB ix sc s b) :
    ∀ i, ix.first b ≤ i → i ≤ ix.paddedLast b →
      0 < (pe s.diags s.lowers s.uppers s.solves (ix.paddedLast b) (ix.paddedLast b - i)).1
        + (if ix.first b < i then s.lowers i else 0)
        + ((if i = ix.first b then cC sc s b else 0) + (if i = ix.last b then cP sc s b else 0)) := by
  intro i h1 h2
  refine pe_dominant s.diags s.lowers s.uppers s.solves
    (fun i => (if i = ix.first b then cC sc s b else 0) + (if i = ix.last b then cP sc s b else 0))
    (ix.first b) (ix.paddedLast b) hD.lo hD.up ?_ ?_ (ix.paddedLast b - i) i (by omega) h1
  · intro j _ _
    have := hD.cc
    have := hD.cp
    show (if j = ix.first b then cC sc s b else 0) + (if j = ix.last b then cP sc s b else 0) ≤ 0
    split_ifs <;> linarith
  · intro j j1 j2
    have := hD.ex j j1 j2
    unfold excess at this
    show 0 < s.diags j + (if ix.first b < j then s.lowers j else 0) + (if j < ix.paddedLast b then s.uppers j else 0)
      + ((if j = ix.first b then cC sc s b else 0) + (if j = ix.last b then cP sc s b else 0))
    linarith

theorem slotPiv_of_domB {ix : Idx} {sc : Sched} {s : St K} {b : Nat} (hse : ix.first b ≤ ix.paddedLast b)
    (hD : DomB ix sc s b) : SlotPiv s (ix.first b) (ix.paddedLast b) := by
  intro k hk
  have h := domB_pe hD (ix.paddedLast b - k) (by omega) (by omega)
  rw [show ix.paddedLast b - (ix.paddedLast b - k) = k by omega] at h
  have h1 : (if ix.first b < ix.paddedLast b - k then s.lowers (ix.paddedLast b - k) else 0) ≤ 0 := by
    split
    · exact hD.lo _ ‹_› (by omega)
    · exact le_refl _
  have h2 : (if ix.paddedLast b - k = ix.first b then cC sc s b else 0) +
      (if ix.paddedLast b - k = ix.last b then cP sc s b else 0) ≤ 0 := by
    have := hD.cc
    have := hD.cp
    split_ifs <;> linarith
  intro h0
  rw [h0] at h
  linarith

/-- after its triangulation the first row of a dominant slot still dominates its branch-point coupling -/
theorem triangSlot_first {ix : Idx} {sc : Sched} {s : St K} {b : Nat} (hse : ix.first b ≤ ix.paddedLast b)
    (hD : DomB ix sc s b) :
    0 < (triangSlot s (ix.first b) (ix.paddedLast b)).diags (ix.first b) + cC sc s b := by
  have h := domB_pe hD (ix.first b) le_rfl hse
  rw [if_neg (lt_irrefl _), if_pos rfl, add_zero] at h
  have hdg : (triangSlot s (ix.first b) (ix.paddedLast b)).diags (ix.first b) =
      (pe s.diags s.lowers s.uppers s.solves (ix.paddedLast b) (ix.paddedLast b - ix.first b)).1 := by
    rcases Nat.eq_or_lt_of_le hse with he | hlt
    · rw [triangSlot_single s _ _ (le_of_eq he.symm), ← he, Nat.sub_self]
      rfl
    · exact (triangSlot_spec s _ _ hlt).1
  rw [hdg]
  have := hD.cp
  split_ifs at h <;> linarith

omit [LinearOrder K] [IsStrictOrderedRing K] in
theorem triangLevel_frame {ix : Idx} {sc : Sched} (hwf : WF ix sc) : ∀ (bs : List Nat) (acc : St K),
    (∀ b ∈ bs, b ∈ branchesOf sc) →
    BpEq acc (triangLevel ix bs acc) ∧
    (∀ b' ∈ branchesOf sc, b' ∉ bs → SlotEq ix acc (triangLevel ix bs acc) b') := by
  intro bs
  induction bs with
  | nil => intro acc _; exact ⟨BpEq.refl _, fun b' _ _ => SlotEq.refl ix acc b'⟩
  | cons b t ih =>
    intro acc hbs
    have hb := hbs b (by simp)
    obtain ⟨i1, i2⟩ := ih (triangSlot acc (ix.first b) (ix.paddedLast b)) (fun b' hb' => hbs b' (List.mem_cons_of_mem _ hb'))
    have hfold : triangLevel ix (b :: t) acc = triangLevel ix t (triangSlot acc (ix.first b) (ix.paddedLast b)) := rfl
    rw [hfold]
    have hBp1 : BpEq acc (triangSlot acc (ix.first b) (ix.paddedLast b)) := triangSlot_bp acc _ _
    refine ⟨hBp1.trans i1, ?_⟩
    intro b' hb' hnot
    simp only [List.mem_cons, not_or] at hnot
    refine SlotEq.trans ?_ (i2 b' hb' hnot.2)
    intro j h1 h2
    have hout := hwf.disj b' hb' b hb hnot.1 j h1 h2
    obtain ⟨f1, f2, f3, f4⟩ := triangSlot_frame acc (ix.first b) (ix.paddedLast b) j hout
    exact ⟨f1, f2, f3, f4⟩

theorem triangLevel_first {ix : Idx} {sc : Sched} (hwf : WF ix sc) : ∀ (bs : List Nat) (acc : St K), bs.Nodup →
    (∀ b ∈ bs, b ∈ branchesOf sc ∧ DomB ix sc acc b) →
    ∀ b ∈ bs, 0 < (triangLevel ix bs acc).diags (ix.first b) + cC sc (triangLevel ix bs acc) b := by
  intro bs
  induction bs with
  | nil => intro acc _ _ b hb; simp at hb
  | cons b t ih =>
    intro acc hn hpre b' hb'
    simp only [List.nodup_cons] at hn
    obtain ⟨hb, hD⟩ := hpre b (by simp)
    have hs := hwf.slot b hb
    have hfold : triangLevel ix (b :: t) acc = triangLevel ix t (triangSlot acc (ix.first b) (ix.paddedLast b)) := rfl
    rw [hfold]
    have hbp := triangSlot_bp acc (ix.first b) (ix.paddedLast b)
    rcases List.mem_cons.mp hb' with he | hb't
    · subst he
      obtain ⟨e1, e2⟩ := triangLevel_frame hwf t (triangSlot acc (ix.first b') (ix.paddedLast b'))
        (fun b'' hb'' => (hpre b'' (List.mem_cons_of_mem _ hb'')).1)
      have h0 := triangSlot_first (by omega) hD
      rw [(e2 b' hb hn.1 (ix.first b') le_rfl (by omega)).1]
      unfold cC at h0 ⊢
      rw [e1.2.2.1, hbp.2.2.1]
      exact h0
    · refine ih _ hn.2 ?_ b' hb't
      intro b'' hb''
      obtain ⟨h1, h2⟩ := hpre b'' (List.mem_cons_of_mem _ hb'')
      have hne : b'' ≠ b := fun he => hn.1 (he ▸ hb'')
      refine ⟨h1, DomB_congr ?_ (by rw [hbp.2.2.1]) (by rw [hbp.2.2.2.2.1]) h2⟩
      intro j j1 j2
      have hout := hwf.disj b'' h1 b hb hne j j1 j2
      obtain ⟨f1, f2, f3, f4⟩ := triangSlot_frame acc (ix.first b) (ix.paddedLast b) j hout
      exact ⟨f1, f2, f3, f4⟩

/-! ### the branch-point rows -/

/-- the row of branch point `q.2` still dominates: `bpDiags ≤ −(weightP + Σ remaining weightC)` with non-negative weights -/
def BpDom (sc : Sched) (s : St K) (q : Nat × Nat) : Prop :=
  s.bpDiags q.2 ≤ -(s.weightP q.1 + sumL ((childrenOfBp sc q.2).map (fun c => s.weightC c))) ∧ 0 < s.weightP q.1 ∧
  ∀ c ∈ childrenOfBp sc q.2, 0 ≤ s.weightC c

omit [IsStrictOrderedRing K] in
theorem BpDom_of_eq {sc : Sched} {s s' : St K} {q : Nat × Nat} (h1 : s'.bpDiags = s.bpDiags)
    (h2 : s'.weightP = s.weightP) (h3 : s'.weightC = s.weightC) (h : BpDom sc s q) : BpDom sc s' q := by
  unfold BpDom
  rw [h1, h2, h3]
  exact h

theorem BpDom_neg {sc : Sched} {s : St K} {q : Nat × Nat} (h : BpDom sc s q) :
    s.bpDiags q.2 ≤ -s.weightP q.1 ∧ 0 < s.weightP q.1 := by
  obtain ⟨b1, b2, b3⟩ := h
  have := sumL_nonneg (childrenOfBp sc q.2) (fun c => s.weightC c) b3
  exact ⟨by linarith, b2⟩

theorem eclStep_bpdom {ix : Idx} {sc : Sched} (hwf : WF ix sc) (acc : St K) (c q : Nat × Nat)
    (hmem : c.1 ∈ childrenOfBp sc c.2) (hd : 0 < acc.diags (ix.first c.1) + acc.condC c.1) (hc : acc.condC c.1 ≤ 0)
    (hB : BpDom sc acc q) : BpDom sc (eclStep ix acc c) q := by
  obtain ⟨b1, b2, b3⟩ := hB
  refine ⟨?_, b2, ?_⟩
  · by_cases hq : c.2 = q.2
    · have hin : c.1 ∈ childrenOfBp sc q.2 := hq ▸ hmem
      have hw := b3 c.1 hin
      show upd acc.bpDiags c.2 _ q.2 ≤
        -(acc.weightP q.1 + sumL ((childrenOfBp sc q.2).map (fun c' => upd acc.weightC c.1 0 c')))
      rw [← hq] at b1 ⊢
      rw [upd_same, sumL_upd_zero' _ _ _ (childrenOfBp_nodup hwf c.2) hmem]
      have := ecl_bound (acc.weightC c.1) (acc.diags (ix.first c.1)) (acc.condC c.1) hw hc hd
      linarith
    · have hnot : c.1 ∉ childrenOfBp sc q.2 := fun hin => hq (childrenOfBp_unique hwf c.1 _ _ hmem hin)
      show upd acc.bpDiags c.2 _ q.2 ≤
        -(acc.weightP q.1 + sumL ((childrenOfBp sc q.2).map (fun c' => upd acc.weightC c.1 0 c')))
      rw [upd_ne _ _ _ _ (Ne.symm hq), sumL_upd_notin' _ _ _ _ hnot]
      exact b1
  · intro c' hc'
    show 0 ≤ upd acc.weightC c.1 0 c'
    unfold upd
    split
    · exact le_refl _
    · exact b3 c' hc'

theorem eclFold_bpdom {ix : Idx} {sc : Sched} (hwf : WF ix sc) (q : Nat × Nat) : ∀ (l : List (Nat × Nat)) (acc : St K),
    (∀ c ∈ l, c.1 ∈ childrenOfBp sc c.2 ∧ 0 < acc.diags (ix.first c.1) + acc.condC c.1 ∧ acc.condC c.1 ≤ 0) →
    BpDom sc acc q → BpDom sc (l.foldl (eclStep ix) acc) q := by
  intro l
  induction l with
  | nil => intro acc _ h; exact h
  | cons a t ih =>
    intro acc hpre h
    rw [List.foldl_cons]
    obtain ⟨p1, p2, p3⟩ := hpre a (by simp)
    exact ih (eclStep ix acc a) (fun c hc => hpre c (List.mem_cons_of_mem _ hc)) (eclStep_bpdom hwf acc a q p1 p2 p3 h)

/-! ### `elimParentsUpper` does not decrease the excess of the parent's last row -/

theorem epuStep_domB {ix : Idx} {sc : Sched} (hwf : WF ix sc) (acc : St K) (q : Nat × Nat) (b : Nat)
    (hq : q.1 ∈ branchesOf sc) (hb : b ∈ branchesOf sc) (hbp : bpOfParent sc q.1 = some q.2)
    (hD : acc.bpDiags q.2 ≤ -acc.weightP q.1) (hw : 0 < acc.weightP q.1) (hDom : DomB ix sc acc b) :
    DomB ix sc (epuStep ix acc q) b := by
  by_cases hne : q.1 = b
  · subst hne
    obtain ⟨d1, d2, d3, d4, d5⟩ := hDom
    have e2 : cP sc acc q.1 = acc.condP q.1 := by unfold cP; simp only [hbp]
    have e1 : cP sc (epuStep ix acc q) q.1 = 0 := by
      unfold cP
      simp only [hbp]
      exact upd_same _ _ _
    have hcp : acc.condP q.1 ≤ 0 := e2 ▸ d4
    refine ⟨d1, d2, d3, by rw [e1], ?_⟩
    intro i h1 h2
    have h := d5 i h1 h2
    have e4 : cC sc (epuStep ix acc q) q.1 = cC sc acc q.1 := rfl
    have e5 : (epuStep ix acc q).lowers = acc.lowers := rfl
    have e6 : (epuStep ix acc q).uppers = acc.uppers := rfl
    unfold excess at h ⊢
    rw [e4, e5, e6, e1]
    rw [e2] at h
    by_cases hi : i = ix.last q.1
    · subst hi
      have e3 : (epuStep ix acc q).diags (ix.last q.1) =
          acc.diags (ix.last q.1) + -(acc.condP q.1 / acc.bpDiags q.2) * acc.weightP q.1 := upd_same _ _ _
      rw [if_pos rfl] at h ⊢
      rw [e3]
      have := epu_bound (acc.diags (ix.last q.1)) (acc.condP q.1) (acc.bpDiags q.2) (acc.weightP q.1) hcp hD hw
      linarith
    · have e3 : (epuStep ix acc q).diags i = acc.diags i := upd_ne _ _ _ _ hi
      rw [if_neg hi] at h ⊢
      rw [e3]
      exact h
  · have hs := hwf.slot q.1 hq
    refine DomB_congr (st := acc) (st' := epuStep ix acc q) ?_ rfl (upd_ne _ _ _ _ (Ne.symm hne)) hDom
    intro j j1 j2
    have hout := hwf.disj b hb q.1 hq (Ne.symm hne) j j1 j2
    have hj : j ≠ ix.last q.1 := by omega
    exact ⟨upd_ne _ _ _ _ hj, rfl, rfl, upd_ne _ _ _ _ hj⟩

theorem epuFold_domB {ix : Idx} {sc : Sched} (hwf : WF ix sc) (b : Nat) (hb : b ∈ branchesOf sc) :
    ∀ (l : List (Nat × Nat)) (acc : St K),
    (∀ q ∈ l, q.1 ∈ branchesOf sc ∧ bpOfParent sc q.1 = some q.2 ∧ acc.bpDiags q.2 ≤ -acc.weightP q.1 ∧
      0 < acc.weightP q.1) → DomB ix sc acc b → DomB ix sc (l.foldl (epuStep ix) acc) b := by
  intro l
  induction l with
  | nil => intro acc _ h; exact h
  | cons a t ih =>
    intro acc hpre h
    rw [List.foldl_cons]
    obtain ⟨p1, p2, p3, p4⟩ := hpre a (by simp)
    exact ih (epuStep ix acc a) (fun c hc => hpre c (List.mem_cons_of_mem _ hc)) (epuStep_domB hwf acc a b p1 hb p2 p3 p4 h)

/-! ### the triangulation pass keeps the dominance of everything it has not yet eliminated -/

structure DInv (ix : Idx) (sc : Sched) (post : List Lv) (s : St K) : Prop where
  dom : ∀ b ∈ branchesOf sc, b ∉ (chs post).map (·.1) → DomB ix sc s b
  bp : ∀ q ∈ pairsP sc, BpDom sc s q

theorem domLevel {ix : Idx} {sc : Sched} (hwf : WF ix sc) {pre : List Lv} {lv : Lv} {post : List Lv}
    (hd : levels sc = pre ++ lv :: post) (s : St K) (hD : DInv ix sc post s) :
    (∀ c ∈ lv.1, SlotPiv s (ix.first c.1) (ix.paddedLast c.1)) ∧
    (∀ q ∈ lv.2, (elimChildrenLower ix lv.1 (triangLevel ix (lv.1.map (·.1)) s)).bpDiags q.2 ≠ 0) ∧
    DInv ix sc (lv :: post) (trLevel ix lv s) := by
  have L := lvOK_of_wf hwf hd
  have hdomC : ∀ c ∈ lv.1, DomB ix sc s c.1 := by
    intro c hc
    refine hD.dom c.1 (L.cbr c hc) ?_
    intro hin
    obtain ⟨c', hc', he⟩ := List.mem_map.mp hin
    exact L.c_notpost c hc c' hc' he
  have hpiv : ∀ c ∈ lv.1, SlotPiv s (ix.first c.1) (ix.paddedLast c.1) := by
    intro c hc
    have hs := hwf.slot c.1 (L.cbr c hc)
    exact slotPiv_of_domB (by omega) (hdomC c hc)
  rw [show trLevel ix lv s =
    elimParentsUpper ix lv.2 (elimChildrenLower ix lv.1 (triangLevel ix (lv.1.map (·.1)) s)) from rfl]
  -- step 1
  have hbs : ∀ b ∈ lv.1.map (·.1), b ∈ branchesOf sc ∧ DomB ix sc s b := by
    intro b hb
    obtain ⟨c, hc, rfl⟩ := List.mem_map.mp hb
    exact ⟨L.cbr c hc, hdomC c hc⟩
  obtain ⟨⟨e1, e2, e3, e4, e5, e6⟩, f1⟩ := triangLevel_frame hwf (lv.1.map (·.1)) s (fun b hb => (hbs b hb).1)
  have hfirst := triangLevel_first hwf _ s L.cnd hbs
  generalize triangLevel ix (lv.1.map (·.1)) s = a1 at e1 e2 e3 e4 e5 e6 f1 hfirst ⊢
  have hF1 : ∀ c ∈ lv.1, c.1 ∈ childrenOfBp sc c.2 ∧ 0 < a1.diags (ix.first c.1) + a1.condC c.1 ∧
      a1.condC c.1 ≤ 0 := by
    intro c hc
    have h := hfirst c.1 (List.mem_map_of_mem hc)
    have hcc := (hdomC c hc).cc
    unfold cC at h hcc
    simp only [L.cbp c hc] at h hcc
    rw [← e3] at hcc
    exact ⟨L.cmem c hc, h, hcc⟩
  have hbp1 : ∀ q ∈ pairsP sc, BpDom sc a1 q := fun q hq => BpDom_of_eq e1 e6 e4 (hD.bp q hq)
  have hdom1 : ∀ b ∈ branchesOf sc, b ∉ (lv.1 ++ chs post).map (·.1) → DomB ix sc a1 b := by
    intro b hb hn
    simp only [List.map_append, List.mem_append, not_or] at hn
    exact DomB_congr (f1 b hb hn.1) (by rw [e3]) (by rw [e5]) (hD.dom b hb hn.2)
  -- step 2
  rw [ecl_eq_fold ix lv.1 a1 L.cnd]
  obtain ⟨g1, g2, g3, g4, g5, g6, g7, g8, g9, g10⟩ := eclFold_frame ix lv.1 a1
  have hbp2 : ∀ q ∈ pairsP sc, BpDom sc (lv.1.foldl (eclStep ix) a1) q :=
    fun q hq => eclFold_bpdom hwf q lv.1 a1 hF1 (hbp1 q hq)
  generalize lv.1.foldl (eclStep ix) a1 = a2 at g1 g2 g3 g4 g5 g6 g7 g8 g9 g10 hbp2 ⊢
  have hdom2 : ∀ b ∈ branchesOf sc, b ∉ (lv.1 ++ chs post).map (·.1) → DomB ix sc a2 b := by
    intro b hb hn
    exact DomB_congr (fun j _ _ => ⟨by rw [g1], by rw [g2], by rw [g3], by rw [g4]⟩) (by rw [g5]) (by rw [g6])
      (hdom1 b hb hn)
  -- step 3
  rw [epu_eq_fold ix lv.2 a2 L.pnd]
  obtain ⟨h1, h2, h3, h4, h5, h6, h7, h8, h9⟩ := epuFold_frame ix lv.2 a2
  refine ⟨hpiv, ?_, ⟨?_, ?_⟩⟩
  · intro q hq
    have := BpDom_neg (hbp2 q (L.pmem q hq))
    exact ne_of_lt (by linarith [this.1, this.2])
  · intro b hb hn
    rw [chs_cons] at hn
    refine epuFold_domB hwf b hb lv.2 a2 ?_ (hdom2 b hb hn)
    intro q hq
    have := BpDom_neg (hbp2 q (L.pmem q hq))
    exact ⟨L.pbr q hq, L.pbp q hq, this.1, this.2⟩
  · intro q hq
    exact BpDom_of_eq h3 h7 h6 (hbp2 q hq)

theorem domPass {ix : Idx} {sc : Sched} (hwf : WF ix sc) (st : St K) (h0 : DInv ix sc [] st) : ∀ (post pre : List Lv),
    levels sc = pre ++ post →
    PivLevels ix post.reverse st ∧ Inv1 ix post (trLevels ix post.reverse st) ∧
      DInv ix sc post (trLevels ix post.reverse st) := by
  intro post
  induction post with
  | nil =>
    intro pre _
    exact ⟨trivial, ⟨fun q hq => by simp at hq, fun q hq => by simp at hq, fun q hq => by simp at hq,
      fun q hq => by simp at hq⟩, h0⟩
  | cons lv post ih =>
    intro pre hd
    obtain ⟨i1, i2, i3⟩ := ih (pre ++ [lv]) (by rw [hd]; simp)
    obtain ⟨r1, r2, r3⟩ := domLevel hwf hd _ i3
    rw [List.reverse_cons, PivLevels_append, trLevels_append]
    refine ⟨⟨i1, ?_⟩, ?_, r3⟩
    · simp only [PivLevels]
      exact ⟨r1, r2, trivial⟩
    · exact (trLevel_spec hwf hd _ i2 r1 r2).1

omit [IsStrictOrderedRing K] in
theorem dInv_of_dominant {ix : Idx} {sc : Sched} {st : St K} (hd : Dominant ix sc st) : DInv ix sc [] st := by
  refine ⟨?_, ?_⟩
  · intro b hb _
    refine ⟨hd.lo_nonpos b hb, hd.up_nonpos b hb, ?_, ?_, ?_⟩
    · unfold cC
      cases hc : bpOfChild sc b with
      | none => exact le_refl _
      | some p =>
        rcases bpOfChild_cases sc b with h | ⟨q, hq, he⟩
        · rw [hc] at h; cases h
        · exact he ▸ hd.condC_nonpos q hq
    · unfold cP
      cases hc : bpOfParent sc b with
      | none => exact le_refl _
      | some p =>
        rcases bpOfParent_cases sc b with h | ⟨q, hq, he⟩
        · rw [hc] at h; cases h
        · exact he ▸ hd.condP_nonpos q hq
    · intro i h1 h2
      exact hd.row_dom b hb i h1 h2
  · intro q hq
    refine ⟨le_of_eq (hd.bp_diag q hq), hd.wP_pos q hq, ?_⟩
    intro c hc
    exact (hd.wC_pos (c, q.2) ((mem_childrenOfBp sc c q.2).mp hc)).le

/-! ### non-vacuity: the example schedule of `SolveJaxleyGlobal` with the sign convention of the real arrays -/

/-- `exSt` with the sign convention of the real arrays: positive weights, `bpDiags = −Σ weights` -/
def exStD : St ℚ := { exSt with weightC := fun _ => 1, weightP := fun _ => 1, bpDiags := fun _ => -3 }

theorem ex_branches : ∀ b ∈ branchesOf exSc, b = 0 ∨ b = 1 ∨ b = 2 := by
  intro b hb
  simpa [branchesOf, exSc, pairsC] using hb

theorem ex_dominant : Dominant exIx exSc exStD := by
  have c0 : bpOfChild exSc 0 = none := by decide
  have c1 : bpOfChild exSc 1 = some 0 := by decide
  have c2 : bpOfChild exSc 2 = some 0 := by decide
  have p0 : bpOfParent exSc 0 = some 0 := by decide
  have p1 : bpOfParent exSc 1 = none := by decide
  have p2 : bpOfParent exSc 2 = none := by decide
  refine ⟨?_, ?_, ?_, ?_, ?_, ?_, ?_, ?_⟩
  · intro b hb i h1 h2
    simp only [exStD, exSt]
    split <;> norm_num
  · intro b hb i h1 h2
    simp only [exStD, exSt]
    split <;> norm_num
  · intro c _; simp [exStD, exSt]
  · intro c _; simp [exStD, exSt]
  · intro c _; simp [exStD]
  · intro c _; simp [exStD]
  · intro q hq
    have : q = (0, 0) := by simpa [pairsP, exSc] using hq
    subst this
    have : childrenOfBp exSc 0 = [1, 2] := by decide
    simp only [this, exStD, List.map_cons, List.map_nil, sumL_cons, sumL_nil']
    norm_num
  · intro b hb i h1 h2
    rcases ex_branches b hb with rfl | rfl | rfl
    · simp only [exIx, Idx.first, Idx.paddedLast, Idx.last] at h1 h2 ⊢
      rw [c0, p0]
      interval_cases i <;> norm_num [exStD, exSt]
    · simp only [exIx, Idx.first, Idx.paddedLast, Idx.last] at h1 h2 ⊢
      rw [c1, p1]
      interval_cases i <;> norm_num [exStD, exSt]
    · simp only [exIx, Idx.first, Idx.paddedLast, Idx.last] at h1 h2 ⊢
      rw [c2, p2]
      interval_cases i <;> norm_num [exStD, exSt]

example : ∃ (ix : Idx) (sc : Sched) (st : St ℚ), wfB ix sc = true ∧ Dominant ix sc st := ⟨exIx, exSc, exStD, ex_wf, ex_dominant⟩

/-- **no pivot of the triangulation pass vanishes on a cable-like system** -/
theorem pivOK_of_dominant (ix : Idx) (sc : Sched) (st : St K) (hwf : wfB ix sc = true) (hd : Dominant ix sc st) :
    PivOK ix sc st := by
  have hw := wf_unpack hwf
  obtain ⟨p1, -, p3⟩ := domPass hw st (dInv_of_dominant hd) (levels sc) [] rfl
  refine ⟨p1, ?_⟩
  intro r hr
  have hndB := hw.ndB
  unfold branchesOf at hndB
  obtain ⟨-, -, hdisj⟩ := List.nodup_append.mp hndB
  have hrb : r ∈ branchesOf sc := List.mem_append_left _ hr
  have hs := hw.slot r hrb
  refine slotPiv_of_domB (by omega) (p3.dom r hrb ?_)
  intro hin
  rw [← hw.pc] at hin
  exact hdisj r hr r hin rfl

/-- unconditional correctness for cable-like systems -/
theorem solve_correct_of_dominant (ix : Idx) (sc : Sched) (st : St K) (hwf : wfB ix sc = true) (hd : Dominant ix sc st) :
    Sat ix sc st (solve ix sc st).solves (fun p => (solve ix sc st).bpSolves p / (solve ix sc st).bpDiags p) :=
  solve_correct ix sc st hwf (pivOK_of_dominant ix sc st hwf hd)

end JaxleyVerif.Model.SolveJaxley
