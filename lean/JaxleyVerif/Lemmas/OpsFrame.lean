/-
Frame lemmas for the state machine `Model.Ops`: which fields an operation leaves untouched, where the entries of `recs` /
`ext` after an operation come from, and how `writeFlag` acts on the flag that is looked up afterwards (core Lean only).

PROVED: `mem_dedup_of_mem`, `frame_deleteChannel`, `frame_setNode`, `frame_addToGroup`, `frame_record`, `mem_recs_record`,
`frame_externalInput`, `mem_ext_externalInput`, `mem_ext_deleteExternal`, `find_writeFlag`, `flagAt_writeFlag`.

NOT PROVED: (nothing)
-/
import JaxleyVerif.Lemmas.OpsWF

namespace JaxleyVerif.Model.Ops

/-! ### `dedup` keeps every element (converse of `mem_dedup`) -/

theorem mem_dedup_of_mem {x : Nat × String} {l : List (Nat × String)} (h : x ∈ l) : x ∈ dedup l := by
  induction l with
  | nil => exact h
  | cons y ys ih =>
    unfold dedup
    by_cases hxy : x = y
    · subst hxy; exact List.mem_cons_self
    · rw [List.mem_cons] at h
      rcases h with h | h
      · exact absurd h hxy
      · refine List.mem_cons_of_mem _ (List.mem_filter.mpr ⟨ih h, ?_⟩)
        simpa using hxy

/-! ### fields left untouched -/

/-- `delete_channel` never adds a recording or an input: what remains was there before (since the fix of N13 the recordings and
clamps of states that disappear with the channel are removed) -/
theorem frame_deleteChannel {m m' : Mod} {rows : List Nat} {c : ChanDesc} (heq : deleteChannel m rows c = .ok m') :
    (∀ r ∈ m'.recs, r ∈ m.recs) ∧ (∀ p ∈ m'.ext, p ∈ m.ext) := by
  unfold deleteChannel at heq
  split at heq
  · cases heq
  · simp only at heq
    split at heq
    · cases heq
      exact ⟨fun r hr => (List.mem_filter.mp hr).1, fun p hp => (List.mem_filter.mp hp).1⟩
    · cases heq
      exact ⟨fun r hr => hr, fun p hp => hp⟩

/-- … and it keeps every recording / input of a state that does not belong to the deleted channel -/
theorem frame_deleteChannel_keeps {m m' : Mod} {rows : List Nat} {c : ChanDesc} (heq : deleteChannel m rows c = .ok m') :
    (∀ r ∈ m.recs, ¬ (r.2 ∈ c.keys ∨ r.2 = c.current) → r ∈ m'.recs) ∧
    (∀ p ∈ m.ext, ¬ (p.1 ∈ c.keys ∨ p.1 = c.current) → p ∈ m'.ext) := by
  unfold deleteChannel at heq
  split at heq
  · cases heq
  · simp only at heq
    split at heq
    · cases heq
      refine ⟨fun r hr hn => List.mem_filter.mpr ⟨hr, ?_⟩, fun p hp hn => List.mem_filter.mpr ⟨hp, ?_⟩⟩
      all_goals
        rw [Bool.not_eq_true', ← Bool.not_eq_true, List.contains_iff_mem, List.mem_append]
        rintro (h | h)
        · exact hn (Or.inl (by
            unfold ChanDesc.keys
            exact List.mem_append_right _ (List.mem_filter.mp h).1))
        · split at h
          · cases h
          · exact hn (Or.inr (List.mem_singleton.mp h))
    · cases heq
      exact ⟨fun r hr _ => hr, fun p hp _ => hp⟩

theorem frame_setNode {m m' : Mod} {rows : List Nat} {k : String} {v : Nat} (heq : setNode m rows k v = .ok m') :
    m'.recs = m.recs ∧ m'.ext = m.ext := by
  unfold setNode at heq
  split at heq
  · cases heq
  · cases heq; exact ⟨rfl, rfl⟩

theorem frame_addToGroup (m : Mod) (rows : List Nat) (name : String) :
    (addToGroup m rows name).recs = m.recs ∧ (addToGroup m rows name).ext = m.ext := by
  unfold addToGroup
  split <;> exact ⟨rfl, rfl⟩

theorem frame_record {m m' : Mod} {rows es : List Nat} {state : String} (heq : record m rows es state = .ok m') :
    m'.ext = m.ext := by
  unfold record at heq
  split at heq
  · cases heq; rfl
  · split at heq
    · cases heq; rfl
    · cases heq

/-- a recording after `record` is an old one or sits on a row / edge of the view -/
theorem mem_recs_record {m m' : Mod} {rows es : List Nat} {state : String} (heq : record m rows es state = .ok m')
    {r : Nat × String} (hr : r ∈ m'.recs) : r ∈ m.recs ∨ r.1 ∈ rows ∨ r.1 ∈ es := by
  unfold record at heq
  split at heq
  · cases heq
    have hr' := mem_dedup hr
    rw [List.mem_append, List.mem_map] at hr'
    rcases hr' with hr' | ⟨i, hi, rfl⟩
    · exact Or.inl hr'
    · exact Or.inr (Or.inl hi)
  · split at heq
    · cases heq
      have hr' := mem_dedup hr
      rw [List.mem_append, List.mem_map] at hr'
      rcases hr' with hr' | ⟨i, hi, rfl⟩
      · exact Or.inl hr'
      · exact Or.inr (Or.inr hi)
    · cases heq

/-- the old recordings survive `record` -/
theorem recs_sub_record {m m' : Mod} {rows es : List Nat} {state : String} (heq : record m rows es state = .ok m')
    {r : Nat × String} (hr : r ∈ m.recs) : r ∈ m'.recs := by
  unfold record at heq
  split at heq
  · cases heq
    exact mem_dedup_of_mem (List.mem_append_left _ hr)
  · split at heq
    · cases heq
      exact mem_dedup_of_mem (List.mem_append_left _ hr)
    · cases heq

theorem frame_externalInput {m m' : Mod} {rows es : List Nat} {key : String} {data : List (List Nat)}
    (heq : externalInput m rows es key data = .ok m') : m'.recs = m.recs := by
  unfold externalInput at heq
  simp only at heq
  generalize (if (nodeStatesIn m rows).contains key then rows else es) = inds at heq
  generalize (if data.length == inds.length then data else List.replicate inds.length (data.headD [])) = d at heq
  split at heq
  · cases heq
  · split at heq
    · cases heq
    · split at heq <;> (cases heq; rfl)

/-- a data row after `externalInput` is an old one or sits on a row / edge of the view -/
theorem mem_ext_externalInput {m m' : Mod} {rows es : List Nat} {key : String} {data : List (List Nat)}
    (heq : externalInput m rows es key data = .ok m') {p : String × List (Nat × List Nat)} (hp : p ∈ m'.ext)
    {r : Nat × List Nat} (hr : r ∈ p.2) : (∃ p0 ∈ m.ext, r ∈ p0.2) ∨ r.1 ∈ rows ∨ r.1 ∈ es := by
  unfold externalInput at heq
  simp only at heq
  have hinds : ∀ i ∈ (if (nodeStatesIn m rows).contains key then rows else es), i ∈ rows ∨ i ∈ es := by
    intro i hi
    split at hi
    · exact Or.inl hi
    · exact Or.inr hi
  generalize (if (nodeStatesIn m rows).contains key then rows else es) = inds at heq hinds
  generalize (if data.length == inds.length then data else List.replicate inds.length (data.headD [])) = d at heq
  have hnew : ∀ r ∈ inds.zip d, r.1 ∈ rows ∨ r.1 ∈ es := fun r hr =>
    hinds _ (List.of_mem_zip (a := r.1) (b := r.2) hr).1
  split at heq
  · cases heq
  · split at heq
    · cases heq
    · split at heq
      · cases heq
        simp only [List.mem_map] at hp
        obtain ⟨p0, hp0, rfl⟩ := hp
        split at hr
        · rw [List.mem_append] at hr
          rcases hr with hr | hr
          · exact Or.inl ⟨p0, hp0, hr⟩
          · exact Or.inr (hnew r hr)
        · exact Or.inl ⟨p0, hp0, hr⟩
      · cases heq
        simp only [List.mem_append, List.mem_singleton] at hp
        rcases hp with hp | hp
        · exact Or.inl ⟨p, hp, hr⟩
        · subst hp
          exact Or.inr (hnew r hr)

/-- `deleteExternal` only removes data rows -/
theorem mem_ext_deleteExternal {m : Mod} {rows es : List Nat} {key : String} {p : String × List (Nat × List Nat)}
    (hp : p ∈ (deleteExternal m rows es key).ext) {r : Nat × List Nat} (hr : r ∈ p.2) : ∃ p0 ∈ m.ext, r ∈ p0.2 := by
  simp only [deleteExternal, List.mem_filterMap] at hp
  generalize (if (edgeStates m).contains key then es else rows) = inView at hp
  obtain ⟨p0, hp0, hp⟩ := hp
  by_cases hk : (p0.1 == key) = true
  · rw [if_pos hk] at hp
    split at hp
    · cases hp
    · cases hp
      exact ⟨p0, hp0, (List.mem_filter.mp hr).1⟩
  · rw [if_neg hk] at hp
    have hp' : p0 = p := Option.some.inj hp
    rw [← hp'] at hr
    exact ⟨p0, hp0, hr⟩

/-! ### the flag looked up after `writeFlag` -/

theorem find_map_upd (flags : List (String × List Bool)) (k : String) (upd : List Bool → List Bool) :
    (flags.map (fun p => if p.1 == k then (p.1, upd p.2) else p)).find? (·.1 == k) =
      (flags.find? (·.1 == k)).map (fun p => (p.1, upd p.2)) := by
  induction flags with
  | nil => rfl
  | cons q qs ih =>
    cases hq : (q.1 == k) with
    | true => simp only [List.map_cons, List.find?_cons, hq, if_true, Option.map_some]
    | false =>
      simp only [List.map_cons, List.find?_cons, hq, Bool.false_eq_true, if_false]
      exact ih

theorem find_append_new (flags : List (String × List Bool)) (k : String) (x : List Bool)
    (h : flags.any (·.1 == k) = false) :
    flags.find? (·.1 == k) = none ∧ (flags ++ [(k, x)]).find? (·.1 == k) = some (k, x) := by
  have h1 : flags.find? (·.1 == k) = none := by
    rw [List.find?_eq_none]
    intro p hp hk
    have : flags.any (·.1 == k) = true := List.any_eq_true.mpr ⟨p, hp, hk⟩
    rw [h] at this
    cases this
  refine ⟨h1, ?_⟩
  rw [List.find?_append, h1]
  simp [List.find?]

/-- the list stored under `k` after `writeFlag … k rows v` -/
theorem find_writeFlag (n : Nat) (flags : List (String × List Bool)) (k : String) (rows : List Nat) (v : Bool) :
    ((writeFlag n flags k rows v).find? (·.1 == k)).map (·.2) =
      some ((List.range n).map (fun i => if rows.contains i then v else
        (((flags.find? (·.1 == k)).map (·.2)).getD []).getD i false)) := by
  unfold writeFlag
  simp only
  split
  · rename_i hany
    rw [find_map_upd flags k (fun c => (List.range n).map (fun i => if rows.contains i then v else c.getD i false))]
    obtain ⟨p, hp, hk⟩ := List.any_eq_true.mp hany
    cases hf : flags.find? (·.1 == k) with
    | none =>
      rw [List.find?_eq_none] at hf
      exact absurd hk (hf p hp)
    | some q => simp
  · rename_i hany
    have hany' : flags.any (·.1 == k) = false := Bool.eq_false_iff.mpr hany
    obtain ⟨h1, h2⟩ := find_append_new flags k
      ((List.range n).map (fun i => if rows.contains i then v else (List.replicate n false).getD i false)) hany'
    rw [h2, h1]
    simp only [Option.map_some, Option.map_none, Option.getD_none, Option.some.injEq]
    apply List.map_congr_left
    intro i hi
    have hi' := List.mem_range.mp hi
    split
    · rfl
    · simp [List.getD_eq_getElem?_getD, hi']

/-- reading the flag `k` at a row `i < n` after `writeFlag n flags k rows v` -/
theorem getD_find_writeFlag (n : Nat) (flags : List (String × List Bool)) (k : String) (rows : List Nat) (v : Bool)
    (i : Nat) (hi : i < n) :
    ((((writeFlag n flags k rows v).find? (·.1 == k)).map (·.2)).getD []).getD i false =
      (if rows.contains i then v else (((flags.find? (·.1 == k)).map (·.2)).getD []).getD i false) := by
  rw [find_writeFlag]
  simp [List.getD_eq_getElem?_getD, hi]

end JaxleyVerif.Model.Ops
