/-
"No dangling references" for the state machine `Model.Ops` (core Lean only): every recording and every external input refers to
a state that exists in the module.  Per-operation preservation lemmas; the invariant is proved together with
`CurInv` (the current of every registered channel is listed in `currents`).

`deleteChannel` needs a side condition (`delOkB`: a registered channel of the same name IS the descriptor handed to
`delete_channel`), see `Props/C19.lean` for the counterexample.
-/
import JaxleyVerif.Lemmas.OpsFrame

namespace JaxleyVerif.Model.Ops

/-- every recording and every input refers to a state that exists in the module -/
def NoDangling (m : Mod) : Prop :=
  (∀ r ∈ m.recs, r.2 ∈ nodeStates m ∨ r.2 ∈ edgeStates m) ∧ (∀ p ∈ m.ext, p.1 ∈ nodeStates m ∨ p.1 ∈ edgeStates m)

/-- the current of every registered channel is a listed membrane current -/
def CurInv (m : Mod) : Prop := ∀ c ∈ m.chans, c.current ∈ m.currents

/-- two channel descriptors can coexist: one name means one descriptor (since the refinement of the N13 fix — a state of the
deleted channel is gone unless another channel has a STATE of that name — nothing else is needed) -/
def chanCompatB (c d : ChanDesc) : Bool :=
  if c.name == d.name then decide (c = d) else true

/-- the descriptor handed to `delete_channel` is compatible with the registry -/
def delOkB (m : Mod) (c : ChanDesc) : Bool := m.chans.all (fun d => chanCompatB c d)

/-! ### views see a subset of the module's states -/

theorem nodeStatesIn_sub {m : Mod} (hc : CurInv m) {rows : List Nat} {s : String} (h : s ∈ nodeStatesIn m rows) :
    s ∈ nodeStates m := by
  unfold nodeStatesIn at h
  rw [mem_nodeStates]
  rw [List.mem_append, List.mem_append] at h
  rcases h with (h | h) | h
  · obtain ⟨c, hcm, hs⟩ := List.mem_flatMap.mp h
    exact Or.inl ⟨c, (List.mem_filter.mp hcm).1, hs⟩
  · simp only [List.mem_cons, List.not_mem_nil, or_false] at h
    rcases h with h | h
    · exact Or.inr (Or.inl h)
    · exact Or.inr (Or.inr (Or.inl h))
  · obtain ⟨c, hcm, rfl⟩ := List.mem_map.mp h
    exact Or.inr (Or.inr (Or.inr (hc c (List.mem_filter.mp hcm).1)))

theorem edgeStatesIn_sub {m : Mod} {es : List Nat} {s : String} (h : s ∈ edgeStatesIn m es) : s ∈ edgeStates m := by
  unfold edgeStatesIn at h
  unfold edgeStates
  rw [List.mem_append] at h ⊢
  rcases h with h | h
  · left
    rw [List.mem_flatMap] at h ⊢
    obtain ⟨sd, hsd, hs⟩ := h
    exact ⟨sd, (List.mem_filter.mp hsd).1, hs⟩
  · exact Or.inr h

/-! ### operations that do not touch the registries -/

theorem noDangling_of_same {m m' : Mod} (h : NoDangling m) (hch : m'.chans = m.chans) (hcu : m'.currents = m.currents)
    (hsy : m'.syns = m.syns) (hr : ∀ r ∈ m'.recs, r ∈ m.recs) (he : ∀ p ∈ m'.ext, ∃ p0 ∈ m.ext, p0.1 = p.1) :
    NoDangling m' := by
  have hn : nodeStates m' = nodeStates m := by unfold nodeStates; rw [hch, hcu]
  have hs : edgeStates m' = edgeStates m := by unfold edgeStates; rw [hsy]
  unfold NoDangling
  rw [hn, hs]
  refine ⟨fun r hr' => h.1 r (hr r hr'), fun p hp => ?_⟩
  obtain ⟨p0, hp0, he0⟩ := he p hp
  rw [← he0]
  exact h.2 p0 hp0

theorem nodeStates_grow {m m' : Mod} (hc : ∀ c ∈ m.chans, c ∈ m'.chans) (hi : ∀ s ∈ m.currents, s ∈ m'.currents)
    {s : String} (h : s ∈ nodeStates m) : s ∈ nodeStates m' := nodeStates_mono hc hi h

theorem noDangling_insert {m : Mod} (rows : List Nat) (c : ChanDesc) (h : NoDangling m) : NoDangling (insert m rows c) := by
  have hc : ∀ d ∈ m.chans, d ∈ (insert m rows c).chans := by
    intro d hd
    show d ∈ (if m.chans.any (·.name == c.name) then m.chans else m.chans ++ [c])
    split
    · exact hd
    · exact List.mem_append_left _ hd
  have hi : ∀ s ∈ m.currents, s ∈ (insert m rows c).currents := by
    intro s hs
    show s ∈ (if m.currents.contains c.current then m.currents else m.currents ++ [c.current])
    split
    · exact hs
    · exact List.mem_append_left _ hs
  have hs : edgeStates (insert m rows c) = edgeStates m := rfl
  refine ⟨fun r hr => ?_, fun p hp => ?_⟩
  · rcases h.1 r hr with h1 | h1
    · exact Or.inl (nodeStates_grow hc hi h1)
    · exact Or.inr (hs ▸ h1)
  · rcases h.2 p hp with h1 | h1
    · exact Or.inl (nodeStates_grow hc hi h1)
    · exact Or.inr (hs ▸ h1)

theorem curInv_insert {m : Mod} (rows : List Nat) (c : ChanDesc) (h : CurInv m) : CurInv (insert m rows c) := by
  intro d hd
  have hd' : d ∈ (if m.chans.any (·.name == c.name) then m.chans else m.chans ++ [c]) := hd
  show d.current ∈ (if m.currents.contains c.current then m.currents else m.currents ++ [c.current])
  have hold : ∀ d ∈ m.chans, d.current ∈ (if m.currents.contains c.current then m.currents else m.currents ++ [c.current]) := by
    intro d hd
    split
    · exact h d hd
    · exact List.mem_append_left _ (h d hd)
  split at hd'
  · exact hold d hd'
  · rcases List.mem_append.mp hd' with h1 | h1
    · exact hold d h1
    · rw [List.mem_singleton.mp h1]
      split
      · rename_i hc; exact List.contains_iff_mem.mp hc
      · exact List.mem_append_right _ (List.mem_singleton.mpr rfl)

theorem noDangling_connect {m : Mod} (pre post : List Nat) (s : SynDesc) (h : NoDangling m) :
    NoDangling (connect m pre post s) := by
  have hn : nodeStates (connect m pre post s) = nodeStates m := rfl
  have hs : ∀ x ∈ edgeStates m, x ∈ edgeStates (connect m pre post s) := by
    intro x hx
    have hsub : ∀ sd ∈ m.syns, sd ∈ (connect m pre post s).syns := by
      intro sd hsd
      show sd ∈ (if (!(m.syns.any (·.name == s.name))) = true then m.syns ++ [s] else m.syns)
      split
      · exact List.mem_append_left _ hsd
      · exact hsd
    unfold edgeStates at hx ⊢
    rw [List.mem_append] at hx ⊢
    rcases hx with hx | hx
    · left
      rw [List.mem_flatMap] at hx ⊢
      obtain ⟨sd, hsd, hxs⟩ := hx
      exact ⟨sd, hsub sd hsd, hxs⟩
    · right
      rw [List.mem_map] at hx ⊢
      obtain ⟨sd, hsd, hxs⟩ := hx
      exact ⟨sd, hsub sd hsd, hxs⟩
  refine ⟨fun r hr => ?_, fun p hp => ?_⟩
  · rcases h.1 r hr with h1 | h1
    · exact Or.inl (hn ▸ h1)
    · exact Or.inr (hs _ h1)
  · rcases h.2 p hp with h1 | h1
    · exact Or.inl (hn ▸ h1)
    · exact Or.inr (hs _ h1)

/-! ### `record` and `externalInput` only accept existing states -/

theorem noDangling_record {m m' : Mod} {rows es : List Nat} {state : String} (h : NoDangling m) (hc : CurInv m)
    (heq : record m rows es state = .ok m') : NoDangling m' ∧ m'.chans = m.chans ∧ m'.currents = m.currents := by
  unfold record at heq
  split at heq
  · rename_i hst
    cases heq
    refine ⟨⟨fun r hr => ?_, h.2⟩, rfl, rfl⟩
    have hr' := mem_dedup hr
    rw [List.mem_append, List.mem_map] at hr'
    rcases hr' with hr' | ⟨i, _, rfl⟩
    · exact h.1 r hr'
    · exact Or.inl (nodeStatesIn_sub hc (List.contains_iff_mem.mp hst))
  · split at heq
    · rename_i _ hst
      cases heq
      refine ⟨⟨fun r hr => ?_, h.2⟩, rfl, rfl⟩
      have hr' := mem_dedup hr
      rw [List.mem_append, List.mem_map] at hr'
      rcases hr' with hr' | ⟨i, _, rfl⟩
      · exact h.1 r hr'
      · exact Or.inr (edgeStatesIn_sub (List.contains_iff_mem.mp hst))
    · cases heq

theorem noDangling_externalInput {m m' : Mod} {rows es : List Nat} {key : String} {data : List (List Nat)}
    (h : NoDangling m) (hc : CurInv m) (heq : externalInput m rows es key data = .ok m') :
    NoDangling m' ∧ m'.chans = m.chans ∧ m'.currents = m.currents := by
  unfold externalInput at heq
  simp only at heq
  generalize (if (nodeStatesIn m rows).contains key then rows else es) = inds at heq
  generalize (if data.length == inds.length then data else List.replicate inds.length (data.headD [])) = d at heq
  split at heq
  · cases heq
  · rename_i hkey
    have hk : key ∈ nodeStates m ∨ key ∈ edgeStates m := by
      have hkey' : (nodeStatesIn m rows).contains key = true ∨ (edgeStatesIn m es).contains key = true := by
        cases h1 : (nodeStatesIn m rows).contains key
        · cases h2 : (edgeStatesIn m es).contains key
          · rw [h1, h2] at hkey
            exact absurd rfl hkey
          · exact Or.inr rfl
        · exact Or.inl rfl
      rcases hkey' with h1 | h1
      · exact Or.inl (nodeStatesIn_sub hc (List.contains_iff_mem.mp h1))
      · exact Or.inr (edgeStatesIn_sub (List.contains_iff_mem.mp h1))
    split at heq
    · cases heq
    · split at heq
      · cases heq
        refine ⟨⟨h.1, fun p hp => ?_⟩, rfl, rfl⟩
        obtain ⟨p0, hp0, hpe⟩ := List.mem_map.mp hp
        have : p.1 = p0.1 := by
          rw [← hpe]
          split <;> rfl
        rw [this]
        exact h.2 p0 hp0
      · cases heq
        refine ⟨⟨h.1, fun p hp => ?_⟩, rfl, rfl⟩
        rcases List.mem_append.mp hp with hp | hp
        · exact h.2 p hp
        · rw [List.mem_singleton.mp hp]
          exact hk

theorem noDangling_deleteExternal {m : Mod} (rows es : List Nat) (key : String) (h : NoDangling m) :
    NoDangling (deleteExternal m rows es key) := by
  refine noDangling_of_same h rfl rfl rfl (fun r hr => hr) ?_
  intro p hp
  unfold deleteExternal at hp
  simp only at hp
  generalize (if (edgeStates m).contains key then es else rows) = inView at hp
  rw [List.mem_filterMap] at hp
  obtain ⟨p0, hp0, hpe⟩ := hp
  refine ⟨p0, hp0, ?_⟩
  by_cases hk : (p0.1 == key) = true
  · rw [if_pos hk] at hpe
    by_cases hem : (p0.2.filter (fun r => !(inView.contains r.1))).isEmpty = true
    · rw [if_pos hem] at hpe
      exact absurd hpe (by simp)
    · rw [if_neg hem] at hpe
      rw [← Option.some.inj hpe]
  · rw [if_neg hk] at hpe
    rw [← Option.some.inj hpe]

/-! ### `deleteChannel` -/

/-- the states that disappear with channel `c` (the list `delete_channel` filters recordings and inputs by) -/
def goneOf (m : Mod) (c : ChanDesc) : List String :=
  let others := m.chans.filter (·.name != c.name)
  ((c.states.map (·.1)).filter (fun key => !(others.any (fun o => o.states.any (·.1 == key)))))
    ++ (if others.any (·.current == c.current) then [] else [c.current])

/-- the two outcomes of an accepted `delete_channel`: the channel stays registered (nothing relevant changes) or it is removed -/
theorem deleteChannel_cases {m m' : Mod} {rows : List Nat} {c : ChanDesc} (heq : deleteChannel m rows c = .ok m') :
    (m'.chans = m.chans ∧ m'.currents = m.currents ∧ m'.syns = m.syns ∧ m'.recs = m.recs ∧ m'.ext = m.ext) ∨
    (m'.chans = m.chans.filter (·.name != c.name) ∧
     m'.currents = (if (m.chans.filter (·.name != c.name)).any (·.current == c.current) then m.currents
        else m.currents.erase c.current) ∧
     m'.syns = m.syns ∧
     m'.recs = m.recs.filter (fun r => !((goneOf m c).contains r.2)) ∧
     m'.ext = m.ext.filter (fun e => !((goneOf m c).contains e.1))) := by
  unfold deleteChannel at heq
  split at heq
  · cases heq
  · simp only at heq
    split at heq
    · cases heq
      exact Or.inr ⟨rfl, rfl, rfl, rfl, rfl⟩
    · cases heq
      exact Or.inl ⟨rfl, rfl, rfl, rfl, rfl⟩

/-- **the heart**: a state of the old module that is not among the gone states is a state of the module without the channel -/
theorem nodeStates_after_delete {m m' : Mod} {c : ChanDesc} (hok : delOkB m c = true)
    (hch : m'.chans = m.chans.filter (·.name != c.name))
    (hcu : m'.currents = (if (m.chans.filter (·.name != c.name)).any (·.current == c.current) then m.currents
        else m.currents.erase c.current))
    {s : String} (hs : s ∈ nodeStates m) (hg : s ∉ goneOf m c) : s ∈ nodeStates m' := by
  rw [mem_nodeStates] at hs ⊢
  rw [hch, hcu]
  unfold goneOf at hg
  simp only [List.mem_append, not_or] at hg
  obtain ⟨hg1, hg2⟩ := hg
  rcases hs with ⟨d, hd, hsd⟩ | h | h | h
  · by_cases hname : d.name = c.name
    · -- the registered descriptor is the one handed to `delete_channel`
      have hcomp := (List.all_eq_true.mp hok) d hd
      unfold chanCompatB at hcomp
      rw [if_pos (by simpa using hname.symm)] at hcomp
      have hdc : c = d := by simpa using hcomp
      subst hdc
      -- not gone, hence a state of a channel that stays
      have hstay : (m.chans.filter (·.name != c.name)).any (fun o => o.states.any (·.1 == s)) = true := by
        cases hb : (m.chans.filter (·.name != c.name)).any (fun o => o.states.any (·.1 == s))
        · exact absurd (List.mem_filter.mpr ⟨hsd, by rw [hb]; rfl⟩) hg1
        · rfl
      rw [List.any_eq_true] at hstay
      obtain ⟨o, ho, hso⟩ := hstay
      rw [List.any_eq_true] at hso
      obtain ⟨st2, hst2, he2⟩ := hso
      exact Or.inl ⟨o, ho, List.mem_map.mpr ⟨st2, hst2, by simpa using he2⟩⟩
    · exact Or.inl ⟨d, List.mem_filter.mpr ⟨hd, by simpa using hname⟩, hsd⟩
  · exact Or.inr (Or.inl h)
  · exact Or.inr (Or.inr (Or.inl h))
  · refine Or.inr (Or.inr (Or.inr ?_))
    split
    · exact h
    · rename_i hno
      rw [if_neg hno] at hg2
      have hne : s ≠ c.current := fun he => hg2 (List.mem_singleton.mpr he)
      exact (List.mem_erase_of_ne hne).mpr h

theorem noDangling_deleteChannel {m m' : Mod} {rows : List Nat} {c : ChanDesc} (h : NoDangling m)
    (hok : delOkB m c = true) (heq : deleteChannel m rows c = .ok m') : NoDangling m' := by
  rcases deleteChannel_cases heq with ⟨h1, h2, h3, h4, h5⟩ | ⟨h1, h2, h3, h4, h5⟩
  · exact noDangling_of_same h h1 h2 h3 (fun r hr => h4 ▸ hr) (fun p hp => ⟨p, h5 ▸ hp, rfl⟩)
  · have hs : edgeStates m' = edgeStates m := by unfold edgeStates; rw [h3]
    refine ⟨fun r hr => ?_, fun p hp => ?_⟩
    · rw [h4, List.mem_filter] at hr
      have hng : r.2 ∉ goneOf m c := by
        have := hr.2
        rw [Bool.not_eq_true', ← Bool.not_eq_true, List.contains_iff_mem] at this
        exact this
      rcases h.1 r hr.1 with hn | he
      · exact Or.inl (nodeStates_after_delete hok h1 h2 hn hng)
      · exact Or.inr (hs ▸ he)
    · rw [h5, List.mem_filter] at hp
      have hng : p.1 ∉ goneOf m c := by
        have := hp.2
        rw [Bool.not_eq_true', ← Bool.not_eq_true, List.contains_iff_mem] at this
        exact this
      rcases h.2 p hp.1 with hn | he
      · exact Or.inl (nodeStates_after_delete hok h1 h2 hn hng)
      · exact Or.inr (hs ▸ he)

theorem curInv_deleteChannel {m m' : Mod} {rows : List Nat} {c : ChanDesc} (h : CurInv m)
    (heq : deleteChannel m rows c = .ok m') : CurInv m' := by
  rcases deleteChannel_cases heq with ⟨h1, h2, -, -, -⟩ | ⟨h1, h2, -, -, -⟩
  · intro d hd
    rw [h2]
    exact h d (h1 ▸ hd)
  · intro d hd
    rw [h1] at hd
    rw [h2]
    have hdm := (List.mem_filter.mp hd).1
    split
    · exact h d hdm
    · rename_i hno
      have hne : d.current ≠ c.current := by
        intro he
        apply hno
        rw [List.any_eq_true]
        exact ⟨d, hd, by simpa using he⟩
      exact (List.mem_erase_of_ne hne).mpr (h d hdm)

end JaxleyVerif.Model.Ops
