/-
The ASSEMBLY of the custom solver's ten arrays (`Model.AssembleJaxley.assembleJ`, the code-shaped model of
`step_voltage_implicit_with_jaxley_spsolve` up to the call of `_triang_branched`) and the physical system:

* `assembleJ_dominant`     the assembled arrays are a `Dominant` (cable-like) system whenever dt > 0, all axial conductances > 0
                           and all voltage terms ≥ 0  — so the solver is unconditionally correct on them
* `assembleJ_denotes`      DENOTATION: `Sat ix sc (assembleJ inp) (padX inp xc) z ↔ PhysSys inp xc z` over any field
  (`assembleJ_denotes_gen` for an arbitrary padded vector: additionally the cells without compartment carry 0)
* `jaxley_backend_solves_physical_system`   what the code reads back solves the implicit-Euler cable equations of the edge table,
                           and every solution of those equations has the same compartment values

Method: every array cell is brought into closed form as a sum over the edge table (`scatterAdd_map`, `scatterSet_zip`,
`asm_*`), the sums over the zipped tables `par_inds`/`child_inds` × edges are converted into sums over edges with the
equivalent predicate (`sumL_zip_filter'`, `sumL_group`), and the physical sums are split by edge type (`split0`, `split12`,
`split34`, `split012`).
-/
import JaxleyVerif.Model.AssembleJaxley
import JaxleyVerif.Lemmas.SolveJaxleyDominant

namespace JaxleyVerif.Model.SolveJaxley

section part1
/-! ### sums and scatters -/

section toolkit
variable {K : Type} [Field K]

theorem sumL_append (l l' : List K) : sumL (l ++ l') = sumL l + sumL l' := by
  induction l with
  | nil => simp [sumL_nil']
  | cons a t ih => simp only [List.cons_append, sumL_cons, ih, add_assoc]

theorem sumL_mul_left {α : Type} (c : K) (l : List α) (f : α → K) :
    c * sumL (l.map f) = sumL (l.map (fun a => c * f a)) := by
  induction l with
  | nil => simp [sumL_nil']
  | cons a t ih => simp only [List.map_cons, sumL_cons, mul_add, ih]

theorem sumL_mul_right {α : Type} (c : K) (l : List α) (f : α → K) :
    sumL (l.map f) * c = sumL (l.map (fun a => f a * c)) := by
  induction l with
  | nil => simp [sumL_nil']
  | cons a t ih => simp only [List.map_cons, sumL_cons, add_mul, ih]

theorem sumL_filter_split {α : Type} (l : List α) (R P Q : α → Bool) (f : α → K)
    (hR : ∀ a ∈ l, R a = (P a || Q a)) (hd : ∀ a ∈ l, ¬ (P a = true ∧ Q a = true)) :
    sumL ((l.filter R).map f) = sumL ((l.filter P).map f) + sumL ((l.filter Q).map f) := by
  induction l with
  | nil => simp [sumL_nil']
  | cons a t ih =>
    have ih' := ih (fun a' ha' => hR a' (List.mem_cons_of_mem _ ha')) (fun a' ha' => hd a' (List.mem_cons_of_mem _ ha'))
    have h1 := hR a (by simp)
    have h2 := hd a (by simp)
    simp only [List.filter_cons, h1]
    cases hp : P a <;> cases hq : Q a
    · simpa using ih'
    · simp only [Bool.false_or, if_true, List.map_cons, sumL_cons, ih']
      simp
      ring
    · simp only [Bool.true_or, if_true, List.map_cons, sumL_cons, ih']
      simp
      ring
    · exact absurd ⟨hp, hq⟩ h2

theorem filter_key_of_nodup {α : Type} (l : List α) (k : α → Nat) (hn : (l.map k).Nodup) (a : α) (ha : a ∈ l) :
    l.filter (fun x => k x == k a) = [a] := by
  induction l with
  | nil => simp at ha
  | cons x t ih =>
    simp only [List.map_cons, List.nodup_cons] at hn
    rcases List.mem_cons.mp ha with rfl | h
    · have : t.filter (fun x => k x == k a) = [] := by
        rw [List.filter_eq_nil_iff]
        intro y hy he
        simp only [beq_iff_eq] at he
        exact hn.1 (he ▸ List.mem_map_of_mem hy)
      simp [this]
    · have hx : k x ≠ k a := by
        intro he
        exact hn.1 (he ▸ List.mem_map_of_mem h)
      simp [hx, ih hn.2 h]

theorem scatterAdd_map {α : Type} (l : List α) (k : α → Nat) (v : α → K) : ∀ (base : Nat → K) (j : Nat),
    scatterAdd base (l.map (fun a => (k a, v a))) j = base j + sumL ((l.filter (fun a => k a == j)).map v) := by
  induction l with
  | nil => intro base j; simp [scatterAdd, sumL_nil']
  | cons a t ih =>
    intro base j
    have h : scatterAdd base (((a :: t)).map (fun a => (k a, v a))) j =
        scatterAdd (upd base (k a) (base (k a) + v a)) (t.map (fun a => (k a, v a))) j := rfl
    rw [h, ih]
    by_cases hj : k a = j
    · subst hj
      simp [upd_same, sumL_cons, add_assoc]
    · have hj' : j ≠ k a := fun h => hj h.symm
      simp [upd_ne _ _ _ _ hj', hj]

theorem scatterSet_sum {α : Type} (Z : List (Nat × α)) (val : α → K) (b : Nat) : ∀ (base : Nat → K),
    (Z.map (·.1)).Nodup →
    scatterSet base (Z.map (fun p => (p.1, val p.2))) b =
      if b ∈ Z.map (·.1) then sumL ((Z.filter (fun p => p.1 == b)).map (fun p => val p.2)) else base b := by
  induction Z with
  | nil => intro base _; simp [scatterSet]
  | cons a t ih =>
    intro base hn
    simp only [List.map_cons, List.nodup_cons] at hn
    have h : scatterSet base (((a :: t)).map (fun p => (p.1, val p.2))) b =
        scatterSet (upd base a.1 (val a.2)) (t.map (fun p => (p.1, val p.2))) b := rfl
    rw [h, ih _ hn.2]
    by_cases hb : a.1 = b
    · subst hb
      have hft : t.filter (fun p => p.1 == a.1) = [] := by
        rw [List.filter_eq_nil_iff]
        intro y hy he
        simp only [beq_iff_eq] at he
        exact hn.1 (he ▸ List.mem_map_of_mem hy)
      simp [hn.1, upd_same, hft, sumL_cons, sumL_nil']
    · have hb' : b ≠ a.1 := fun h => hb h.symm
      have hf : (a :: t).filter (fun p => p.1 == b) = t.filter (fun p => p.1 == b) := by simp [hb]
      rw [hf]
      by_cases hmem : b ∈ t.map (·.1)
      · have h2 : b ∈ List.map (·.1) (a :: t) := by
          rw [List.map_cons]; exact List.mem_cons_of_mem _ hmem
        rw [if_pos hmem, if_pos h2]
      · have h2 : b ∉ List.map (·.1) (a :: t) := by
          rw [List.map_cons, List.mem_cons]
          exact fun h => h.elim hb' hmem
        rw [if_neg hmem, if_neg h2, upd_ne _ _ _ _ hb']

/-- `zeros.at[keys].set(vals)` with pairwise distinct keys, as a sum over the matching entries -/
theorem scatterSet_zip {α : Type} (keys : List Nat) (l : List α) (val : α → K) (b : Nat) (hn : keys.Nodup)
    (hlen : keys.length = l.length) :
    scatterSet (fun _ => (0 : K)) (keys.zip (l.map val)) b =
      sumL (((keys.zip l).filter (fun p => p.1 == b)).map (fun p => val p.2)) := by
  have hz : keys.zip (l.map val) = (keys.zip l).map (fun p => (p.1, val p.2)) := by
    rw [List.zip_map_right]
    rfl
  have hk : (keys.zip l).map (·.1) = keys := List.map_fst_zip (by omega)
  rw [hz, scatterSet_sum _ _ _ _ (by rw [hk]; exact hn)]
  split
  · rfl
  · rename_i hnot
    have : (keys.zip l).filter (fun p => p.1 == b) = [] := by
      rw [List.filter_eq_nil_iff]
      intro y hy he
      simp only [beq_iff_eq] at he
      exact hnot (he ▸ List.mem_map_of_mem hy)
    rw [this]
    rfl

/-- a sum over the entries of a zip with a given key, as a sum over the values satisfying the equivalent predicate -/
theorem sumL_zip_filter {α : Type} (keys : List Nat) (l : List α) (hlen : keys.length = l.length) (b : Nat)
    (Q : α → Bool) (φ : α → K) (h : ∀ p ∈ keys.zip l, (p.1 == b) = Q p.2) :
    sumL (((keys.zip l).filter (fun p => p.1 == b)).map (fun p => φ p.2)) = sumL ((l.filter Q).map φ) := by
  have h1 : (keys.zip l).filter (fun p => p.1 == b) = (keys.zip l).filter (fun p => Q p.2) :=
    List.filter_congr h
  have hl : l = (keys.zip l).map (·.2) := (List.map_snd_zip (by omega)).symm
  rw [h1]
  conv_rhs => rw [hl, List.filter_map, List.map_map]
  rfl

theorem mem_zip_of_mem_right {α : Type} (keys : List Nat) (l : List α) (hlen : keys.length = l.length) (e : α)
    (he : e ∈ l) : ∃ b, (b, e) ∈ keys.zip l := by
  have hl : l = (keys.zip l).map (·.2) := (List.map_snd_zip (by omega)).symm
  rw [hl] at he
  obtain ⟨p, hp, rfl⟩ := List.mem_map.mp he
  exact ⟨p.1, hp⟩

theorem mem_zip_of_mem_left {α : Type} (keys : List Nat) (l : List α) (hlen : keys.length = l.length) (b : Nat)
    (hb : b ∈ keys) : ∃ e, (b, e) ∈ keys.zip l := by
  have hl : keys = (keys.zip l).map (·.1) := (List.map_fst_zip (by omega)).symm
  rw [hl] at hb
  obtain ⟨p, hp, rfl⟩ := List.mem_map.mp hb
  exact ⟨p.2, hp⟩

/-- regrouping: a sum over groups (one per key of a duplicate-free list) is the sum over the entries whose key is listed -/
theorem sumL_group {α : Type} (Z : List (Nat × α)) (f : Nat × α → K) : ∀ (C : List Nat), C.Nodup →
    sumL (C.map (fun c => sumL ((Z.filter (fun p => p.1 == c)).map f))) =
      sumL ((Z.filter (fun p => C.contains p.1)).map f) := by
  intro C
  induction C with
  | nil => intro _; simp [sumL_nil']
  | cons c t ih =>
    intro hn
    simp only [List.nodup_cons] at hn
    rw [List.map_cons, sumL_cons, ih hn.2]
    symm
    apply sumL_filter_split
    · intro a _
      rw [List.contains_cons]
    · intro a _ ⟨h1, h2⟩
      simp only [beq_iff_eq] at h1
      rw [List.contains_iff_mem, h1] at h2
      exact hn.1 h2

end toolkit
end part1

section part2
variable {K : Type}

/-- `edgesWfB` as propositions -/
structure EW (ix : Idx) (sc : Sched) (inp : AsmIn K) : Prop where
  m_nd : ((List.range inp.n).map inp.mask).Nodup
  m_slot : ∀ i ∈ List.range inp.n, ∃ b ∈ branchesOf sc, ix.first b ≤ inp.mask i ∧ inp.mask i ≤ ix.paddedLast b
  e0 : ∀ e ∈ edgesOf inp 0, eSrc e < inp.n ∧ eSnk e < inp.n ∧ eSrc e ≠ eSnk e ∧
    (eSrc e < eSnk e → inp.mask (eSrc e) + 1 = inp.mask (eSnk e)) ∧
    (eSnk e < eSrc e → inp.mask (eSnk e) + 1 = inp.mask (eSrc e)) ∧
    ∃ b ∈ branchesOf sc, (ix.first b ≤ inp.mask (eSrc e) ∧ inp.mask (eSrc e) ≤ ix.paddedLast b) ∧
      (ix.first b ≤ inp.mask (eSnk e) ∧ inp.mask (eSnk e) ≤ ix.paddedLast b)
  plen1 : inp.parInds.length = (edgesOf inp 1).length
  plen3 : inp.parInds.length = (edgesOf inp 3).length
  pnd : inp.parInds.Nodup
  p1 : ∀ be ∈ inp.parInds.zip (edgesOf inp 1), eSnk be.2 < inp.n ∧ inp.mask (eSnk be.2) = ix.last be.1 ∧
    inp.n ≤ eSrc be.2 ∧ bpOfParent sc be.1 = some (eSrc be.2 - inp.n)
  p3 : ∀ be ∈ inp.parInds.zip (edgesOf inp 3), eSrc be.2 < inp.n ∧ inp.mask (eSrc be.2) = ix.last be.1 ∧
    inp.n ≤ eSnk be.2 ∧ bpOfParent sc be.1 = some (eSnk be.2 - inp.n)
  clen2 : inp.childInds.length = (edgesOf inp 2).length
  clen4 : inp.childInds.length = (edgesOf inp 4).length
  cnd : inp.childInds.Nodup
  c2 : ∀ be ∈ inp.childInds.zip (edgesOf inp 2), eSnk be.2 < inp.n ∧ inp.mask (eSnk be.2) = ix.first be.1 ∧
    inp.n ≤ eSrc be.2 ∧ bpOfChild sc be.1 = some (eSrc be.2 - inp.n)
  c4 : ∀ be ∈ inp.childInds.zip (edgesOf inp 4), eSrc be.2 < inp.n ∧ inp.mask (eSrc be.2) = ix.first be.1 ∧
    inp.n ≤ eSnk be.2 ∧ bpOfChild sc be.1 = some (eSnk be.2 - inp.n)
  grp : inp.groupInds = (edgesOf inp 3 ++ edgesOf inp 4).map (fun e => eSnk e - inp.n)
  covP : ∀ q ∈ pairsP sc, q.1 ∈ inp.parInds
  covC : ∀ c ∈ pairsC sc, c.1 ∈ inp.childInds
  bps : (edgesOf inp 3).map (fun e => eSnk e - inp.n) = List.range inp.parInds.length

theorem ew_unpack {ix : Idx} {sc : Sched} {inp : AsmIn K} (h : edgesWfB ix sc inp = true) : EW ix sc inp := by
  unfold edgesWfB at h
  simp only [Bool.and_eq_true, List.all_eq_true, List.any_eq_true, decide_eq_true_eq, beq_iff_eq, Bool.or_eq_true,
    Bool.not_eq_true', beq_eq_false_iff_ne, decide_eq_false_iff_not, nodupB_iff, List.contains_iff_mem, ne_eq] at h
  obtain ⟨⟨⟨⟨⟨⟨⟨⟨⟨⟨⟨⟨⟨⟨⟨⟨h1, h2⟩, h3⟩, h4⟩, h5⟩, h6⟩, h7⟩, h8⟩, h9⟩, h10⟩, h11⟩, h12⟩, h13⟩, h14⟩, h15⟩, h16⟩, h17⟩ := h
  refine ⟨h1, h2, ?_, h4, h5, h6, ?_, ?_, h9, h10, h11, ?_, ?_, h14, h15, h16, h17⟩
  · intro e he
    obtain ⟨⟨⟨⟨⟨a1, a2⟩, a3⟩, a4⟩, a5⟩, b, hb, a6⟩ := h3 e he
    refine ⟨a1, a2, a3, ?_, ?_, b, hb, a6⟩
    · intro hl; exact a4.resolve_left (fun hn => hn hl)
    · intro hl; exact a5.resolve_left (fun hn => hn hl)
  · intro be hbe
    obtain ⟨⟨⟨a1, a2⟩, a3⟩, a4⟩ := h7 be hbe
    exact ⟨a1, a2, a3, a4⟩
  · intro be hbe
    obtain ⟨⟨⟨a1, a2⟩, a3⟩, a4⟩ := h8 be hbe
    exact ⟨a1, a2, a3, a4⟩
  · intro be hbe
    obtain ⟨⟨⟨a1, a2⟩, a3⟩, a4⟩ := h12 be hbe
    exact ⟨a1, a2, a3, a4⟩
  · intro be hbe
    obtain ⟨⟨⟨a1, a2⟩, a3⟩, a4⟩ := h13 be hbe
    exact ⟨a1, a2, a3, a4⟩
end part2

section part3
variable {K : Type} [Field K]

/-! ### more list tools -/

theorem sumL_zip_filter' {α : Type} (keys : List Nat) (l : List α) (hlen : keys.length = l.length)
    (P : Nat × α → Bool) (f : Nat × α → K) (Q : α → Bool) (φ : α → K)
    (hP : ∀ p ∈ keys.zip l, P p = Q p.2) (hf : ∀ p ∈ keys.zip l, f p = φ p.2) :
    sumL (((keys.zip l).filter P).map f) = sumL ((l.filter Q).map φ) := by
  have h1 : (keys.zip l).filter P = (keys.zip l).filter (fun p => Q p.2) := List.filter_congr hP
  have hl : l = (keys.zip l).map (·.2) := (List.map_snd_zip (by omega)).symm
  rw [h1]
  conv_rhs => rw [hl, List.filter_map, List.map_map]
  apply sumL_congr
  intro p hp
  exact hf p (List.mem_filter.mp hp).1

theorem sumL_filter_congr {α : Type} (l : List α) (P Q : α → Bool) (f : α → K) (h : ∀ a ∈ l, P a = Q a) :
    sumL ((l.filter P).map f) = sumL ((l.filter Q).map f) := by
  rw [List.filter_congr h]

/-! ### structure: schedule facts -/

theorem bpOfParent_iff {ix : Idx} {sc : Sched} (hwf : WF ix sc) (b p : Nat) :
    bpOfParent sc b = some p ↔ (b, p) ∈ pairsP sc := by
  constructor
  · intro h
    unfold bpOfParent at h
    cases hf : List.find? (·.1 == b) sc.parentsInLevel.flatten with
    | none => rw [hf] at h; cases h
    | some q =>
      rw [hf] at h
      have h1 : q.1 = b := by simpa using List.find?_some hf
      have h2 : q.2 = p := by simpa using h
      have := List.mem_of_find?_eq_some hf
      rw [← h1, ← h2]
      exact this
  · intro h
    have := find_fst_of_nodup _ hwf.ndP1 (b, p) h
    unfold bpOfParent pairsP at *
    rw [this]
    rfl

theorem bpOfChild_iff {ix : Idx} {sc : Sched} (hwf : WF ix sc) (b p : Nat) :
    bpOfChild sc b = some p ↔ (b, p) ∈ pairsC sc := by
  constructor
  · intro h
    unfold bpOfChild at h
    cases hf : List.find? (·.1 == b) (pairsC sc) with
    | none => rw [hf] at h; cases h
    | some q =>
      rw [hf] at h
      have h1 : q.1 = b := by simpa using List.find?_some hf
      have h2 : q.2 = p := by simpa using h
      have := List.mem_of_find?_eq_some hf
      rw [← h1, ← h2]
      exact this
  · intro h
    have := find_fst_of_nodup _ hwf.ndC (b, p) h
    unfold bpOfChild
    rw [this]
    rfl

theorem pairsC_branch {sc : Sched} (c : Nat × Nat) (h : c ∈ pairsC sc) : c.1 ∈ branchesOf sc := by
  unfold branchesOf
  exact List.mem_append_right _ (List.mem_map_of_mem h)

theorem pairsP_branch {ix : Idx} {sc : Sched} (hwf : WF ix sc) (q : Nat × Nat) (h : q ∈ pairsP sc) :
    q.1 ∈ branchesOf sc := by
  rw [hwf.pp] at h
  obtain ⟨lv, hlv, hq⟩ := List.mem_flatMap.mp h
  obtain ⟨pre, post, hd⟩ := List.mem_iff_append.mp hlv
  exact (lvOK_of_wf hwf hd).pbr q hq

theorem slot_unique {ix : Idx} {sc : Sched} (hwf : WF ix sc) (b b' : Nat) (hb : b ∈ branchesOf sc)
    (hb' : b' ∈ branchesOf sc) (j : Nat) (h1 : ix.first b ≤ j) (h2 : j ≤ ix.paddedLast b) (h3 : ix.first b' ≤ j)
    (h4 : j ≤ ix.paddedLast b') : b = b' := by
  by_contra hne
  have := hwf.disj b hb b' hb' hne j h1 h2
  omega

/-! ### `padX` -/

section padx
variable {ix : Idx} {sc : Sched} {inp : AsmIn K}

omit [Field K] in
theorem mask_inj (ew : EW ix sc inp) {i i' : Nat} (hi : i < inp.n) (hi' : i' < inp.n) (h : inp.mask i = inp.mask i') :
    i = i' :=
  List.inj_on_of_nodup_map ew.m_nd (List.mem_range.mpr hi) (List.mem_range.mpr hi') h

omit [Field K] in
theorem beq_mask (ew : EW ix sc inp) {s i : Nat} (hs : s < inp.n) (hi : i < inp.n) :
    (inp.mask s == inp.mask i) = (s == i) := by
  by_cases h : s = i
  · subst h; simp
  · have : inp.mask s ≠ inp.mask i := fun he => h (mask_inj ew hs hi he)
    simp [h, this]

theorem padX_mask (ew : EW ix sc inp) (xc : Nat → K) {i : Nat} (hi : i < inp.n) :
    padX inp xc (inp.mask i) = xc i := by
  unfold padX
  cases hf : List.find? (fun i' => inp.mask i' == inp.mask i) (List.range inp.n) with
  | none =>
    rw [List.find?_eq_none] at hf
    exact absurd (by simp) (hf i (List.mem_range.mpr hi))
  | some i' =>
    have h1 : inp.mask i' = inp.mask i := by simpa using List.find?_some hf
    have h2 := List.mem_range.mp (List.mem_of_find?_eq_some hf)
    rw [mask_inj ew h2 hi h1]

theorem padX_notin (xc : Nat → K) {j : Nat} (h : ∀ i, i < inp.n → inp.mask i ≠ j) : padX inp xc j = 0 := by
  unfold padX
  cases hf : List.find? (fun i' => inp.mask i' == j) (List.range inp.n) with
  | none => rfl
  | some i' =>
    have h1 : inp.mask i' = j := by simpa using List.find?_some hf
    have h2 := List.mem_range.mp (List.mem_of_find?_eq_some hf)
    exact absurd h1 (h i' h2)

end padx

/-! ### the arrays in closed form -/

theorem asm_diags (inp : AsmIn K) (j : Nat) :
    (assembleJ inp).diags j =
      1 + sumL (((inp.edges.filter (fun e => isC2C (eTy e))).filter (fun e => inp.mask (eSnk e) == j)).map
            (fun e => inp.dt * eG e))
        + sumL (((List.range inp.n).filter (fun i => inp.mask i == j)).map (fun i => inp.dt * inp.vt i)) := by
  show scatterAdd (scatterAdd _ _) _ j = _
  rw [scatterAdd_map, scatterAdd_map]

theorem asm_solves (inp : AsmIn K) (j : Nat) :
    (assembleJ inp).solves j =
      0 + sumL (((List.range inp.n).filter (fun i => inp.mask i == j)).map (fun i => inp.v i + inp.dt * inp.ct i)) := by
  show scatterAdd _ _ j = _
  rw [scatterAdd_map]

theorem asm_lowers (inp : AsmIn K) (j : Nat) :
    (assembleJ inp).lowers j =
      0 + sumL ((((edgesOf inp 0).filter (fun e => decide (eSrc e < eSnk e))).filter
          (fun e => inp.mask (eSnk e) == j)).map (fun e => -inp.dt * eG e)) := by
  show scatterAdd _ _ j = _
  rw [scatterAdd_map]

theorem asm_uppers (inp : AsmIn K) (j : Nat) :
    (assembleJ inp).uppers j =
      0 + sumL ((((edgesOf inp 0).filter (fun e => decide (eSnk e < eSrc e))).filter
          (fun e => inp.mask (eSnk e) == j)).map (fun e => -inp.dt * eG e)) := by
  show scatterAdd _ _ j = _
  rw [scatterAdd_map]

theorem asm_condC {ix : Idx} {sc : Sched} {inp : AsmIn K} (ew : EW ix sc inp) (b : Nat) :
    (assembleJ inp).condC b =
      sumL (((inp.childInds.zip (edgesOf inp 2)).filter (fun p => p.1 == b)).map (fun p => -inp.dt * eG p.2)) := by
  show scatterSet _ (inp.childInds.zip (((edgesOf inp 2).map eG).map _)) b = _
  rw [List.map_map]
  exact scatterSet_zip _ _ _ b ew.cnd ew.clen2

theorem asm_weightC {ix : Idx} {sc : Sched} {inp : AsmIn K} (ew : EW ix sc inp) (b : Nat) :
    (assembleJ inp).weightC b =
      sumL (((inp.childInds.zip (edgesOf inp 4)).filter (fun p => p.1 == b)).map (fun p => eG p.2)) := by
  show scatterSet _ (inp.childInds.zip ((edgesOf inp 4).map eG)) b = _
  exact scatterSet_zip _ _ _ b ew.cnd ew.clen4

theorem asm_condP {ix : Idx} {sc : Sched} {inp : AsmIn K} (ew : EW ix sc inp) (b : Nat) :
    (assembleJ inp).condP b =
      sumL (((inp.parInds.zip (edgesOf inp 1)).filter (fun p => p.1 == b)).map (fun p => -inp.dt * eG p.2)) := by
  show scatterSet _ (inp.parInds.zip (((edgesOf inp 1).map eG).map _)) b = _
  rw [List.map_map]
  exact scatterSet_zip _ _ _ b ew.pnd ew.plen1

theorem asm_weightP {ix : Idx} {sc : Sched} {inp : AsmIn K} (ew : EW ix sc inp) (b : Nat) :
    (assembleJ inp).weightP b =
      sumL (((inp.parInds.zip (edgesOf inp 3)).filter (fun p => p.1 == b)).map (fun p => eG p.2)) := by
  show scatterSet _ (inp.parInds.zip ((edgesOf inp 3).map eG)) b = _
  exact scatterSet_zip _ _ _ b ew.pnd ew.plen3

theorem asm_bpDiags {ix : Idx} {sc : Sched} {inp : AsmIn K} (ew : EW ix sc inp) (p : Nat) :
    (assembleJ inp).bpDiags p =
      -(sumL ((inp.edges.filter (fun e => eSnk e == inp.n + p && eTy e == 3)).map eG)
        + sumL ((inp.edges.filter (fun e => eSnk e == inp.n + p && eTy e == 4)).map eG)) := by
  show -(scatterAdd _ (inp.groupInds.zip (((edgesOf inp 3).map eG) ++ ((edgesOf inp 4).map eG))) p) = _
  rw [ew.grp, ← List.map_append, List.zip_map', scatterAdd_map, zero_add, List.filter_append, List.map_append,
    sumL_append]
  have h3 : ∀ e ∈ edgesOf inp 3, (eSnk e - inp.n == p) = (eSnk e == inp.n + p) := by
    intro e he
    obtain ⟨b, hb⟩ := mem_zip_of_mem_right _ _ ew.plen3 e he
    have : inp.n ≤ eSnk e := (ew.p3 _ hb).2.2.1
    by_cases h : eSnk e = inp.n + p
    · simp [h]
    · have : eSnk e - inp.n ≠ p := by omega
      simp [h, this]
  have h4 : ∀ e ∈ edgesOf inp 4, (eSnk e - inp.n == p) = (eSnk e == inp.n + p) := by
    intro e he
    obtain ⟨b, hb⟩ := mem_zip_of_mem_right _ _ ew.clen4 e he
    have : inp.n ≤ eSnk e := (ew.c4 _ hb).2.2.1
    by_cases h : eSnk e = inp.n + p
    · simp [h]
    · have : eSnk e - inp.n ≠ p := by omega
      simp [h, this]
  rw [List.filter_congr h3, List.filter_congr h4]
  unfold edgesOf
  rw [List.filter_filter, List.filter_filter]
end part3

section part4
variable {K : Type} [Field K]

theorem filter2 {α : Type} (l : List α) (A B : α → Bool) :
    (l.filter A).filter B = l.filter (fun a => A a && B a) := by
  rw [List.filter_filter]
  apply List.filter_congr
  intro a _
  rw [Bool.and_comm]

omit [Field K] in
theorem mem_edgesOf (inp : AsmIn K) (t : Nat) (e : Edge K) : e ∈ edgesOf inp t ↔ e ∈ inp.edges ∧ eTy e = t := by
  unfold edgesOf
  simp [List.mem_filter]

section core
variable {ix : Idx} {sc : Sched} {inp : AsmIn K}

omit [Field K] in
theorem c2c_snk (ew : EW ix sc inp) (e : Edge K) (he : e ∈ inp.edges) (hc : isC2C (eTy e) = true) : eSnk e < inp.n := by
  unfold isC2C at hc
  simp only [Bool.or_eq_true, beq_iff_eq] at hc
  rcases hc with (h | h) | h
  · exact (ew.e0 e ((mem_edgesOf inp 0 e).mpr ⟨he, h⟩)).2.1
  · obtain ⟨b, hb⟩ := mem_zip_of_mem_right _ _ ew.plen1 e ((mem_edgesOf inp 1 e).mpr ⟨he, h⟩)
    exact (ew.p1 _ hb).1
  · obtain ⟨b, hb⟩ := mem_zip_of_mem_right _ _ ew.clen2 e ((mem_edgesOf inp 2 e).mpr ⟨he, h⟩)
    exact (ew.c2 _ hb).1

/-! #### a real cell -/

theorem diags_real (ew : EW ix sc inp) {i : Nat} (hi : i < inp.n) :
    (assembleJ inp).diags (inp.mask i) =
      1 + inp.dt * sumL ((inp.edges.filter (fun e => eSnk e == i && isC2C (eTy e))).map eG) + inp.dt * inp.vt i := by
  rw [asm_diags, filter2]
  have h1 : ∀ e ∈ inp.edges, (isC2C (eTy e) && inp.mask (eSnk e) == inp.mask i) = (eSnk e == i && isC2C (eTy e)) := by
    intro e he
    cases hc : isC2C (eTy e)
    · simp
    · rw [beq_mask ew (c2c_snk ew e he hc) hi]; simp
  have h2 : (List.range inp.n).filter (fun i' => inp.mask i' == inp.mask i) = [i] :=
    filter_key_of_nodup _ inp.mask ew.m_nd i (List.mem_range.mpr hi)
  rw [List.filter_congr h1, h2, sumL_mul_left]
  simp [sumL_cons, sumL_nil']

theorem solves_real (ew : EW ix sc inp) {i : Nat} (hi : i < inp.n) :
    (assembleJ inp).solves (inp.mask i) = inp.v i + inp.dt * inp.ct i := by
  have h2 : (List.range inp.n).filter (fun i' => inp.mask i' == inp.mask i) = [i] :=
    filter_key_of_nodup _ inp.mask ew.m_nd i (List.mem_range.mpr hi)
  rw [asm_solves, h2]
  simp [sumL_cons, sumL_nil']

theorem lowers_real (ew : EW ix sc inp) {i : Nat} (hi : i < inp.n) :
    (assembleJ inp).lowers (inp.mask i) =
      sumL ((inp.edges.filter (fun e => eSnk e == i && (eTy e == 0 && decide (eSrc e < eSnk e)))).map
        (fun e => -inp.dt * eG e)) := by
  rw [asm_lowers, zero_add]
  unfold edgesOf
  rw [filter2, filter2]
  apply sumL_filter_congr
  intro e he
  cases h0 : (eTy e == 0)
  · simp
  · have := (ew.e0 e ((mem_edgesOf inp 0 e).mpr ⟨he, by simpa using h0⟩)).2.1
    rw [beq_mask ew this hi]
    simp [Bool.and_comm]

theorem uppers_real (ew : EW ix sc inp) {i : Nat} (hi : i < inp.n) :
    (assembleJ inp).uppers (inp.mask i) =
      sumL ((inp.edges.filter (fun e => eSnk e == i && (eTy e == 0 && decide (eSnk e < eSrc e)))).map
        (fun e => -inp.dt * eG e)) := by
  rw [asm_uppers, zero_add]
  unfold edgesOf
  rw [filter2, filter2]
  apply sumL_filter_congr
  intro e he
  cases h0 : (eTy e == 0)
  · simp
  · have := (ew.e0 e ((mem_edgesOf inp 0 e).mpr ⟨he, by simpa using h0⟩)).2.1
    rw [beq_mask ew this hi]
    simp [Bool.and_comm]

/-- the lower entry of a real cell times the value of the previous cell -/
theorem lowers_x (hwf : WF ix sc) (ew : EW ix sc inp) (x xc : Nat → K) (hx : ∀ i, i < inp.n → x (inp.mask i) = xc i)
    {i b : Nat} (hi : i < inp.n)
    (hb : b ∈ branchesOf sc) (h1 : ix.first b ≤ inp.mask i) (h2 : inp.mask i ≤ ix.paddedLast b) :
    (if ix.first b < inp.mask i then (assembleJ inp).lowers (inp.mask i) * x (inp.mask i - 1) else 0) =
      sumL ((inp.edges.filter (fun e => eSnk e == i && (eTy e == 0 && decide (eSrc e < eSnk e)))).map
        (fun e => -inp.dt * eG e * xc (eSrc e))) := by
  have hfact : ∀ e ∈ inp.edges.filter (fun e => eSnk e == i && (eTy e == 0 && decide (eSrc e < eSnk e))),
      eSrc e < inp.n ∧ inp.mask (eSrc e) + 1 = inp.mask i ∧ ix.first b < inp.mask i := by
    intro e he
    rw [List.mem_filter] at he
    simp only [Bool.and_eq_true, beq_iff_eq, decide_eq_true_eq] at he
    obtain ⟨hE, hs, ht, hl⟩ := he
    obtain ⟨a1, -, -, a4, -, b', hb', a6, a7⟩ := ew.e0 e ((mem_edgesOf inp 0 e).mpr ⟨hE, ht⟩)
    have h3 := a4 hl
    rw [hs] at h3 a7
    have := slot_unique hwf b b' hb hb' _ h1 h2 a7.1 a7.2
    subst this
    exact ⟨a1, h3, by omega⟩
  by_cases hlt : ix.first b < inp.mask i
  · rw [if_pos hlt, lowers_real ew hi, sumL_mul_right]
    apply sumL_congr
    intro e he
    obtain ⟨a1, a2, -⟩ := hfact e he
    rw [show inp.mask i - 1 = inp.mask (eSrc e) by omega, hx _ a1]
  · rw [if_neg hlt]
    have : inp.edges.filter (fun e => eSnk e == i && (eTy e == 0 && decide (eSrc e < eSnk e))) = [] := by
      rw [List.filter_eq_nil_iff]
      intro e he hp
      exact hlt (hfact e (List.mem_filter.mpr ⟨he, hp⟩)).2.2
    rw [this]
    rfl

/-- the upper entry of a real cell times the value of the next cell -/
theorem uppers_x (hwf : WF ix sc) (ew : EW ix sc inp) (x xc : Nat → K) (hx : ∀ i, i < inp.n → x (inp.mask i) = xc i)
    {i b : Nat} (hi : i < inp.n)
    (hb : b ∈ branchesOf sc) (h1 : ix.first b ≤ inp.mask i) (h2 : inp.mask i ≤ ix.paddedLast b) :
    (if inp.mask i < ix.paddedLast b then (assembleJ inp).uppers (inp.mask i) * x (inp.mask i + 1) else 0) =
      sumL ((inp.edges.filter (fun e => eSnk e == i && (eTy e == 0 && decide (eSnk e < eSrc e)))).map
        (fun e => -inp.dt * eG e * xc (eSrc e))) := by
  have hfact : ∀ e ∈ inp.edges.filter (fun e => eSnk e == i && (eTy e == 0 && decide (eSnk e < eSrc e))),
      eSrc e < inp.n ∧ inp.mask i + 1 = inp.mask (eSrc e) ∧ inp.mask i < ix.paddedLast b := by
    intro e he
    rw [List.mem_filter] at he
    simp only [Bool.and_eq_true, beq_iff_eq, decide_eq_true_eq] at he
    obtain ⟨hE, hs, ht, hl⟩ := he
    obtain ⟨a1, -, -, -, a5, b', hb', a6, a7⟩ := ew.e0 e ((mem_edgesOf inp 0 e).mpr ⟨hE, ht⟩)
    have h3 := a5 hl
    rw [hs] at h3 a7
    have := slot_unique hwf b b' hb hb' _ h1 h2 a7.1 a7.2
    subst this
    exact ⟨a1, h3, by omega⟩
  by_cases hlt : inp.mask i < ix.paddedLast b
  · rw [if_pos hlt, uppers_real ew hi, sumL_mul_right]
    apply sumL_congr
    intro e he
    obtain ⟨a1, a2, -⟩ := hfact e he
    rw [a2, hx _ a1]
  · rw [if_neg hlt]
    have : inp.edges.filter (fun e => eSnk e == i && (eTy e == 0 && decide (eSnk e < eSrc e))) = [] := by
      rw [List.filter_eq_nil_iff]
      intro e he hp
      exact hlt (hfact e (List.mem_filter.mpr ⟨he, hp⟩)).2.2
    rw [this]
    rfl

/-! #### the branch-point couplings of the first / last cell -/

omit [Field K] in
theorem zkey_c2 (hwf : WF ix sc) (ew : EW ix sc inp) {i b : Nat} (hi : i < inp.n) (hb : b ∈ branchesOf sc)
    (h1 : ix.first b ≤ inp.mask i) (h2 : inp.mask i ≤ ix.paddedLast b) :
    ∀ pe ∈ inp.childInds.zip (edgesOf inp 2),
      (eSnk pe.2 = i → pe.1 = b ∧ inp.mask i = ix.first b) ∧ (pe.1 = b → inp.mask i = ix.first b → eSnk pe.2 = i) := by
  intro pe hpe
  obtain ⟨a1, a2, a3, a4⟩ := ew.c2 pe hpe
  have hbr := pairsC_branch _ ((bpOfChild_iff hwf _ _).mp a4)
  have hs := hwf.slot pe.1 hbr
  constructor
  · intro h
    rw [h] at a2
    have := slot_unique hwf b pe.1 hb hbr _ h1 h2 (by omega) (by omega)
    exact ⟨this.symm, by rw [a2, this]⟩
  · intro h hj
    rw [h, ← hj] at a2
    exact mask_inj ew a1 hi a2

theorem condC_first (hwf : WF ix sc) (ew : EW ix sc inp) {i b : Nat} (hi : i < inp.n) (hb : b ∈ branchesOf sc)
    (hj : inp.mask i = ix.first b) :
    (assembleJ inp).condC b =
      sumL ((inp.edges.filter (fun e => eSnk e == i && eTy e == 2)).map (fun e => -inp.dt * eG e)) ∧
    ∀ e ∈ inp.edges.filter (fun e => eSnk e == i && eTy e == 2), inp.n ≤ eSrc e ∧ bpOfChild sc b = some (eSrc e - inp.n) := by
  have hs := hwf.slot b hb
  have key := zkey_c2 hwf ew hi hb (by omega) (by omega)
  constructor
  · rw [asm_condC ew, sumL_zip_filter' _ _ ew.clen2 (fun p => p.1 == b) (fun p => -inp.dt * eG p.2)
      (fun e => eSnk e == i) (fun e => -inp.dt * eG e) ?_ (fun _ _ => rfl)]
    · unfold edgesOf
      rw [filter2]
      apply sumL_filter_congr
      intro e _
      rw [Bool.and_comm]
    · intro pe hpe
      obtain ⟨k1, k2⟩ := key pe hpe
      by_cases h : pe.1 = b
      · simp [h, k2 h hj]
      · have : eSnk pe.2 ≠ i := fun he => h (k1 he).1
        simp [h, this]
  · intro e he
    rw [List.mem_filter] at he
    simp only [Bool.and_eq_true, beq_iff_eq] at he
    obtain ⟨hE, hsn, ht⟩ := he
    obtain ⟨b', hb'⟩ := mem_zip_of_mem_right _ _ ew.clen2 e ((mem_edgesOf inp 2 e).mpr ⟨hE, ht⟩)
    have := ((key _ hb').1 hsn).1
    obtain ⟨-, -, a3, a4⟩ := ew.c2 _ hb'
    exact ⟨a3, this ▸ a4⟩

omit [Field K] in
theorem condC_notfirst (hwf : WF ix sc) (ew : EW ix sc inp) {i b : Nat} (hi : i < inp.n) (hb : b ∈ branchesOf sc)
    (h1 : ix.first b ≤ inp.mask i) (h2 : inp.mask i ≤ ix.paddedLast b) (hne : inp.mask i ≠ ix.first b) :
    inp.edges.filter (fun e => eSnk e == i && eTy e == 2) = [] := by
  rw [List.filter_eq_nil_iff]
  intro e hE hp
  simp only [Bool.and_eq_true, beq_iff_eq] at hp
  obtain ⟨b', hb'⟩ := mem_zip_of_mem_right _ _ ew.clen2 e ((mem_edgesOf inp 2 e).mpr ⟨hE, hp.2⟩)
  exact hne ((zkey_c2 hwf ew hi hb h1 h2 _ hb').1 hp.1).2

omit [Field K] in
theorem zkey_p1 (hwf : WF ix sc) (ew : EW ix sc inp) {i b : Nat} (hi : i < inp.n) (hb : b ∈ branchesOf sc)
    (h1 : ix.first b ≤ inp.mask i) (h2 : inp.mask i ≤ ix.paddedLast b) :
    ∀ pe ∈ inp.parInds.zip (edgesOf inp 1),
      (eSnk pe.2 = i → pe.1 = b ∧ inp.mask i = ix.last b) ∧ (pe.1 = b → inp.mask i = ix.last b → eSnk pe.2 = i) := by
  intro pe hpe
  obtain ⟨a1, a2, a3, a4⟩ := ew.p1 pe hpe
  have hbr := pairsP_branch hwf _ ((bpOfParent_iff hwf _ _).mp a4)
  have hs := hwf.slot pe.1 hbr
  constructor
  · intro h
    rw [h] at a2
    have := slot_unique hwf b pe.1 hb hbr _ h1 h2 (by omega) (by omega)
    exact ⟨this.symm, by rw [a2, this]⟩
  · intro h hj
    rw [h, ← hj] at a2
    exact mask_inj ew a1 hi a2

theorem condP_last (hwf : WF ix sc) (ew : EW ix sc inp) {i b : Nat} (hi : i < inp.n) (hb : b ∈ branchesOf sc)
    (hj : inp.mask i = ix.last b) :
    (assembleJ inp).condP b =
      sumL ((inp.edges.filter (fun e => eSnk e == i && eTy e == 1)).map (fun e => -inp.dt * eG e)) ∧
    ∀ e ∈ inp.edges.filter (fun e => eSnk e == i && eTy e == 1), inp.n ≤ eSrc e ∧ bpOfParent sc b = some (eSrc e - inp.n) := by
  have hs := hwf.slot b hb
  have key := zkey_p1 hwf ew hi hb (by omega) (by omega)
  constructor
  · rw [asm_condP ew, sumL_zip_filter' _ _ ew.plen1 (fun p => p.1 == b) (fun p => -inp.dt * eG p.2)
      (fun e => eSnk e == i) (fun e => -inp.dt * eG e) ?_ (fun _ _ => rfl)]
    · unfold edgesOf
      rw [filter2]
      apply sumL_filter_congr
      intro e _
      rw [Bool.and_comm]
    · intro pe hpe
      obtain ⟨k1, k2⟩ := key pe hpe
      by_cases h : pe.1 = b
      · simp [h, k2 h hj]
      · have : eSnk pe.2 ≠ i := fun he => h (k1 he).1
        simp [h, this]
  · intro e he
    rw [List.mem_filter] at he
    simp only [Bool.and_eq_true, beq_iff_eq] at he
    obtain ⟨hE, hsn, ht⟩ := he
    obtain ⟨b', hb'⟩ := mem_zip_of_mem_right _ _ ew.plen1 e ((mem_edgesOf inp 1 e).mpr ⟨hE, ht⟩)
    have := ((key _ hb').1 hsn).1
    obtain ⟨-, -, a3, a4⟩ := ew.p1 _ hb'
    exact ⟨a3, this ▸ a4⟩

omit [Field K] in
theorem condP_notlast (hwf : WF ix sc) (ew : EW ix sc inp) {i b : Nat} (hi : i < inp.n) (hb : b ∈ branchesOf sc)
    (h1 : ix.first b ≤ inp.mask i) (h2 : inp.mask i ≤ ix.paddedLast b) (hne : inp.mask i ≠ ix.last b) :
    inp.edges.filter (fun e => eSnk e == i && eTy e == 1) = [] := by
  rw [List.filter_eq_nil_iff]
  intro e hE hp
  simp only [Bool.and_eq_true, beq_iff_eq] at hp
  obtain ⟨b', hb'⟩ := mem_zip_of_mem_right _ _ ew.plen1 e ((mem_edgesOf inp 1 e).mpr ⟨hE, hp.2⟩)
  exact hne ((zkey_p1 hwf ew hi hb h1 h2 _ hb').1 hp.1).2

end core
end part4

section part5
variable {K : Type} [Field K]

section core2
variable {ix : Idx} {sc : Sched} {inp : AsmIn K}

/-! #### a cell that carries no compartment (padding) -/

theorem pad_cell (ew : EW ix sc inp) {j : Nat} (hj : ∀ i, i < inp.n → inp.mask i ≠ j) :
    (assembleJ inp).diags j = 1 ∧ (assembleJ inp).solves j = 0 ∧ (assembleJ inp).lowers j = 0 ∧
    (assembleJ inp).uppers j = 0 := by
  have hr : (List.range inp.n).filter (fun i => inp.mask i == j) = [] := by
    rw [List.filter_eq_nil_iff]
    intro i hi he
    exact hj i (List.mem_range.mp hi) (by simpa using he)
  have hc : (inp.edges.filter (fun e => isC2C (eTy e))).filter (fun e => inp.mask (eSnk e) == j) = [] := by
    rw [List.filter_eq_nil_iff]
    intro e he hm
    rw [List.mem_filter] at he
    exact hj _ (c2c_snk ew e he.1 he.2) (by simpa using hm)
  have h0 : ∀ (P : Edge K → Bool), ((edgesOf inp 0).filter P).filter (fun e => inp.mask (eSnk e) == j) = [] := by
    intro P
    rw [List.filter_eq_nil_iff]
    intro e he hm
    have he0 := (List.mem_filter.mp he).1
    exact hj _ (ew.e0 e he0).2.1 (by simpa using hm)
  refine ⟨?_, ?_, ?_, ?_⟩
  · rw [asm_diags, hr, hc]; simp [sumL_nil']
  · rw [asm_solves, hr]; simp [sumL_nil']
  · rw [asm_lowers, h0]; simp [sumL_nil']
  · rw [asm_uppers, h0]; simp [sumL_nil']

theorem condC_pad (ew : EW ix sc inp) {b : Nat} (hj : ∀ i, i < inp.n → inp.mask i ≠ ix.first b) :
    (assembleJ inp).condC b = 0 := by
  rw [asm_condC ew]
  have : (inp.childInds.zip (edgesOf inp 2)).filter (fun p => p.1 == b) = [] := by
    rw [List.filter_eq_nil_iff]
    intro pe hpe he
    obtain ⟨a1, a2, -, -⟩ := ew.c2 pe hpe
    have hb : pe.1 = b := by simpa using he
    exact hj _ a1 (hb ▸ a2)
  rw [this]
  rfl

theorem condP_pad (ew : EW ix sc inp) {b : Nat} (hj : ∀ i, i < inp.n → inp.mask i ≠ ix.last b) :
    (assembleJ inp).condP b = 0 := by
  rw [asm_condP ew]
  have : (inp.parInds.zip (edgesOf inp 1)).filter (fun p => p.1 == b) = [] := by
    rw [List.filter_eq_nil_iff]
    intro pe hpe he
    obtain ⟨a1, a2, -, -⟩ := ew.p1 pe hpe
    have hb : pe.1 = b := by simpa using he
    exact hj _ a1 (hb ▸ a2)
  rw [this]
  rfl

/-! #### a branch-point row -/

theorem weightP_bp (hwf : WF ix sc) (ew : EW ix sc inp) {b p : Nat} (hq : (b, p) ∈ pairsP sc) :
    (assembleJ inp).weightP b = sumL ((inp.edges.filter (fun e => eSnk e == inp.n + p && eTy e == 3)).map eG) ∧
    ∀ e ∈ inp.edges.filter (fun e => eSnk e == inp.n + p && eTy e == 3),
      eSrc e < inp.n ∧ inp.mask (eSrc e) = ix.last b := by
  have hbp := (bpOfParent_iff hwf b p).mpr hq
  have key : ∀ pe ∈ inp.parInds.zip (edgesOf inp 3), (pe.1 == b) = (eSnk pe.2 == inp.n + p) := by
    intro pe hpe
    obtain ⟨-, -, a3, a4⟩ := ew.p3 pe hpe
    by_cases h : pe.1 = b
    · rw [h, hbp] at a4
      have : p = eSnk pe.2 - inp.n := by simpa using a4
      have h2 : eSnk pe.2 = inp.n + p := by omega
      simp [h, h2]
    · have : eSnk pe.2 ≠ inp.n + p := by
        intro he
        rw [he, Nat.add_sub_cancel_left] at a4
        have hm := (bpOfParent_iff hwf _ _).mp a4
        have := List.inj_on_of_nodup_map hwf.ndP2 hm hq rfl
        exact h (congrArg Prod.fst this)
      simp [h, this]
  constructor
  · rw [asm_weightP ew, sumL_zip_filter' _ _ ew.plen3 (fun pe => pe.1 == b) (fun pe => eG pe.2)
      (fun e => eSnk e == inp.n + p) eG key (fun _ _ => rfl)]
    unfold edgesOf
    rw [filter2]
    apply sumL_filter_congr
    intro e _
    rw [Bool.and_comm]
  · intro e he
    rw [List.mem_filter] at he
    simp only [Bool.and_eq_true, beq_iff_eq] at he
    obtain ⟨hE, hsn, ht⟩ := he
    obtain ⟨b', hb'⟩ := mem_zip_of_mem_right _ _ ew.plen3 e ((mem_edgesOf inp 3 e).mpr ⟨hE, ht⟩)
    have hk := key _ hb'
    have hbb : b' = b := by
      have : ((b', e).1 == b) = true := by rw [hk]; simpa using hsn
      simpa using this
    obtain ⟨a1, a2, -, -⟩ := ew.p3 _ hb'
    exact ⟨a1, hbb ▸ a2⟩

theorem weightC_sum (hwf : WF ix sc) (ew : EW ix sc inp) (p : Nat) (ψ : Nat → K) (ψ' : Edge K → K)
    (hψ : ∀ pe ∈ inp.childInds.zip (edgesOf inp 4), ψ pe.1 = ψ' pe.2) :
    sumL ((childrenOfBp sc p).map (fun c => (assembleJ inp).weightC c * ψ c)) =
      sumL ((inp.edges.filter (fun e => eSnk e == inp.n + p && eTy e == 4)).map (fun e => eG e * ψ' e)) := by
  have h1 : ∀ c ∈ childrenOfBp sc p, (assembleJ inp).weightC c * ψ c =
      sumL (((inp.childInds.zip (edgesOf inp 4)).filter (fun pe => pe.1 == c)).map (fun pe => eG pe.2 * ψ pe.1)) := by
    intro c _
    rw [asm_weightC ew, sumL_mul_right]
    apply sumL_congr
    intro pe hpe
    have : pe.1 = c := by simpa using (List.mem_filter.mp hpe).2
    rw [this]
  rw [sumL_congr _ _ _ h1, sumL_group _ _ _ (childrenOfBp_nodup hwf p),
    sumL_zip_filter' _ _ ew.clen4 _ _ (fun e => eSnk e == inp.n + p) (fun e => eG e * ψ' e) ?_
      (fun pe hpe => by rw [hψ pe hpe])]
  · unfold edgesOf
    rw [filter2]
    apply sumL_filter_congr
    intro e _
    rw [Bool.and_comm]
  · intro pe hpe
    obtain ⟨-, -, a3, a4⟩ := ew.c4 pe hpe
    by_cases h : eSnk pe.2 = inp.n + p
    · rw [h, Nat.add_sub_cancel_left] at a4
      have : pe.1 ∈ childrenOfBp sc p := (mem_childrenOfBp sc _ _).mpr ((bpOfChild_iff hwf _ _).mp a4)
      simp [h, this]
    · have : pe.1 ∉ childrenOfBp sc p := by
        intro hm
        have h2 := (bpOfChild_iff hwf _ _).mpr ((mem_childrenOfBp sc _ _).mp hm)
        rw [h2] at a4
        have : p = eSnk pe.2 - inp.n := by simpa using a4
        omega
      simp [h, this]

/-! #### splitting the sums of the physical system by edge type -/

theorem split0 (ew : EW ix sc inp) (i : Nat) (φ : Edge K → K) :
    sumL ((inp.edges.filter (fun e => eSnk e == i && eTy e == 0)).map φ) =
      sumL ((inp.edges.filter (fun e => eSnk e == i && (eTy e == 0 && decide (eSrc e < eSnk e)))).map φ)
      + sumL ((inp.edges.filter (fun e => eSnk e == i && (eTy e == 0 && decide (eSnk e < eSrc e)))).map φ) := by
  apply sumL_filter_split
  · intro e he
    cases hs : (eSnk e == i)
    · simp
    · cases ht : (eTy e == 0)
      · simp
      · have := (ew.e0 e ((mem_edgesOf inp 0 e).mpr ⟨he, by simpa using ht⟩)).2.2.1
        have : eSrc e < eSnk e ∨ eSnk e < eSrc e := by omega
        rcases this with h | h <;> simp [h]
  · intro e _ ⟨h1, h2⟩
    simp only [Bool.and_eq_true, decide_eq_true_eq] at h1 h2
    omega

omit [Field K] in
theorem bool_split12 (a : Bool) (t : Nat) : (a && (t == 1 || t == 2)) = ((a && t == 1) || (a && t == 2)) := by
  cases a <;> simp

theorem split12 (i : Nat) (φ : Edge K → K) :
    sumL ((inp.edges.filter (fun e => eSnk e == i && (eTy e == 1 || eTy e == 2))).map φ) =
      sumL ((inp.edges.filter (fun e => eSnk e == i && eTy e == 1)).map φ)
      + sumL ((inp.edges.filter (fun e => eSnk e == i && eTy e == 2)).map φ) := by
  apply sumL_filter_split
  · intro e _
    cases (eSnk e == i) <;> simp
  · intro e _ ⟨h1, h2⟩
    simp only [Bool.and_eq_true, beq_iff_eq] at h1 h2
    omega

theorem split34 (s : Nat) (φ : Edge K → K) :
    sumL ((inp.edges.filter (fun e => eSnk e == s && (eTy e == 3 || eTy e == 4))).map φ) =
      sumL ((inp.edges.filter (fun e => eSnk e == s && eTy e == 3)).map φ)
      + sumL ((inp.edges.filter (fun e => eSnk e == s && eTy e == 4)).map φ) := by
  apply sumL_filter_split
  · intro e _
    cases (eSnk e == s) <;> simp
  · intro e _ ⟨h1, h2⟩
    simp only [Bool.and_eq_true, beq_iff_eq] at h1 h2
    omega

theorem split012 (ew : EW ix sc inp) (i : Nat) (φ : Edge K → K) :
    sumL ((inp.edges.filter (fun e => eSnk e == i && isC2C (eTy e))).map φ) =
      (sumL ((inp.edges.filter (fun e => eSnk e == i && (eTy e == 0 && decide (eSrc e < eSnk e)))).map φ)
       + sumL ((inp.edges.filter (fun e => eSnk e == i && (eTy e == 0 && decide (eSnk e < eSrc e)))).map φ))
      + (sumL ((inp.edges.filter (fun e => eSnk e == i && eTy e == 1)).map φ)
       + sumL ((inp.edges.filter (fun e => eSnk e == i && eTy e == 2)).map φ)) := by
  rw [← split0 ew, ← split12]
  apply sumL_filter_split
  · intro e _
    unfold isC2C
    cases (eSnk e == i) <;> simp [Bool.or_assoc]
  · intro e _ ⟨h1, h2⟩
    simp only [Bool.and_eq_true, beq_iff_eq, Bool.or_eq_true] at h1 h2
    omega

end core2
end part5

section part6
variable {K : Type} [Field K] [LinearOrder K] [IsStrictOrderedRing K]

theorem sumL_nonpos {α : Type} (l : List α) (f : α → K) (h : ∀ a ∈ l, f a ≤ 0) : sumL (l.map f) ≤ 0 := by
  induction l with
  | nil => exact le_refl _
  | cons a t ih =>
    simp only [List.map_cons, sumL_cons]
    exact add_nonpos (h a (by simp)) (ih (fun a' ha' => h a' (List.mem_cons_of_mem _ ha')))

theorem sumL_pos {α : Type} (l : List α) (f : α → K) (hne : l ≠ []) (h : ∀ a ∈ l, 0 < f a) : 0 < sumL (l.map f) := by
  cases l with
  | nil => exact absurd rfl hne
  | cons a t =>
    simp only [List.map_cons, sumL_cons]
    exact add_pos_of_pos_of_nonneg (h a (by simp))
      (sumL_nonneg t f (fun a' ha' => (h a' (List.mem_cons_of_mem _ ha')).le))

/-- **what the code assembles from a cable is a dominant system** -/
theorem assembleJ_dominant (ix : Idx) (sc : Sched) (inp : AsmIn K) (hwfB : wfB ix sc = true)
    (hew : edgesWfB ix sc inp = true) (hdt : 0 < inp.dt) (hg : ∀ e ∈ inp.edges, 0 < e.2.2.2)
    (hvt : ∀ i, i < inp.n → 0 ≤ inp.vt i) : Dominant ix sc (assembleJ inp) := by
  have hwf := wf_unpack hwfB
  have ew := ew_unpack hew
  have hg' : ∀ e ∈ inp.edges, 0 < eG e := hg
  have hterm : ∀ e ∈ inp.edges, -inp.dt * eG e ≤ 0 := by
    intro e he
    have := mul_pos hdt (hg' e he)
    linarith
  have hfl : ∀ (P : Edge K → Bool), 0 ≤ sumL ((inp.edges.filter P).map eG) := by
    intro P
    exact sumL_nonneg _ _ (fun e he => (hg' e (List.mem_filter.mp he).1).le)
  have hlo : ∀ j, (assembleJ inp).lowers j ≤ 0 := by
    intro j
    rw [asm_lowers, zero_add]
    apply sumL_nonpos
    intro e he
    have := (mem_edgesOf inp 0 e).mp (List.mem_filter.mp (List.mem_filter.mp he).1).1
    exact hterm e this.1
  have hup : ∀ j, (assembleJ inp).uppers j ≤ 0 := by
    intro j
    rw [asm_uppers, zero_add]
    apply sumL_nonpos
    intro e he
    have := (mem_edgesOf inp 0 e).mp (List.mem_filter.mp (List.mem_filter.mp he).1).1
    exact hterm e this.1
  have hcC : ∀ b, (assembleJ inp).condC b ≤ 0 := by
    intro b
    rw [asm_condC ew]
    apply sumL_nonpos
    intro pe hpe
    have := (mem_edgesOf inp 2 pe.2).mp (List.of_mem_zip (List.mem_filter.mp hpe).1).2
    exact hterm _ this.1
  have hcP : ∀ b, (assembleJ inp).condP b ≤ 0 := by
    intro b
    rw [asm_condP ew]
    apply sumL_nonpos
    intro pe hpe
    have := (mem_edgesOf inp 1 pe.2).mp (List.of_mem_zip (List.mem_filter.mp hpe).1).2
    exact hterm _ this.1
  refine ⟨fun b _ i _ _ => hlo i, fun b _ i _ _ => hup i, fun c _ => hcC c.1, fun q _ => hcP q.1, ?_, ?_, ?_, ?_⟩
  · -- weightC > 0
    intro c hc
    obtain ⟨e, he⟩ := mem_zip_of_mem_left _ _ ew.clen4 c.1 (ew.covC c hc)
    rw [asm_weightC ew]
    apply sumL_pos
    · intro hnil
      have : (c.1, e) ∈ (inp.childInds.zip (edgesOf inp 4)).filter (fun p => p.1 == c.1) :=
        List.mem_filter.mpr ⟨he, by simp⟩
      rw [hnil] at this
      simp at this
    · intro pe hpe
      have := (mem_edgesOf inp 4 pe.2).mp (List.of_mem_zip (List.mem_filter.mp hpe).1).2
      exact hg' _ this.1
  · -- weightP > 0
    intro q hq
    obtain ⟨e, he⟩ := mem_zip_of_mem_left _ _ ew.plen3 q.1 (ew.covP q hq)
    rw [asm_weightP ew]
    apply sumL_pos
    · intro hnil
      have : (q.1, e) ∈ (inp.parInds.zip (edgesOf inp 3)).filter (fun p => p.1 == q.1) :=
        List.mem_filter.mpr ⟨he, by simp⟩
      rw [hnil] at this
      simp at this
    · intro pe hpe
      have := (mem_edgesOf inp 3 pe.2).mp (List.of_mem_zip (List.mem_filter.mp hpe).1).2
      exact hg' _ this.1
  · -- the branch-point diagonal
    intro q hq
    have h1 := (weightP_bp hwf ew (b := q.1) (p := q.2) hq).1
    have h2 := weightC_sum hwf ew q.2 (fun _ => (1 : K)) (fun _ => (1 : K)) (fun _ _ => rfl)
    simp only [mul_one] at h2
    rw [asm_bpDiags ew, h1, h2]
  · -- row dominance
    intro b hb j h1 h2
    by_cases him : ∃ i, i < inp.n ∧ inp.mask i = j
    · obtain ⟨i, hi, rfl⟩ := him
      have hd := diags_real ew hi
      rw [split012 ew i eG] at hd
      have hl := lowers_real ew hi
      have hu := uppers_real ew hi
      rw [← sumL_mul_left] at hl hu
      have a0 := hfl (fun e => eSnk e == i && (eTy e == 0 && decide (eSrc e < eSnk e)))
      have a1 := hfl (fun e => eSnk e == i && (eTy e == 0 && decide (eSnk e < eSrc e)))
      have a2 := hfl (fun e => eSnk e == i && eTy e == 1)
      have a3 := hfl (fun e => eSnk e == i && eTy e == 2)
      have hv := mul_nonneg hdt.le (hvt i hi)
      have m0 := mul_nonneg hdt.le a0
      have m1 := mul_nonneg hdt.le a1
      have m2 := mul_nonneg hdt.le a2
      have m3 := mul_nonneg hdt.le a3
      show 0 < excess ix sc (assembleJ inp) b (inp.mask i)
      unfold excess
      have tC : -inp.dt * sumL ((inp.edges.filter (fun e => eSnk e == i && eTy e == 2)).map eG) ≤
          (if inp.mask i = ix.first b then cC sc (assembleJ inp) b else 0) := by
        split
        · rename_i hf
          have := (condC_first hwf ew hi hb hf).1
          rw [← sumL_mul_left] at this
          unfold cC
          split
          · rw [this]
          · linarith
        · linarith
      have tP : -inp.dt * sumL ((inp.edges.filter (fun e => eSnk e == i && eTy e == 1)).map eG) ≤
          (if inp.mask i = ix.last b then cP sc (assembleJ inp) b else 0) := by
        split
        · rename_i hf
          have := (condP_last hwf ew hi hb hf).1
          rw [← sumL_mul_left] at this
          unfold cP
          split
          · rw [this]
          · linarith
        · linarith
      have tL : (assembleJ inp).lowers (inp.mask i) ≤
          (if ix.first b < inp.mask i then (assembleJ inp).lowers (inp.mask i) else 0) := by
        split
        · exact le_refl _
        · exact hlo _
      have tU : (assembleJ inp).uppers (inp.mask i) ≤
          (if inp.mask i < ix.paddedLast b then (assembleJ inp).uppers (inp.mask i) else 0) := by
        split
        · exact le_refl _
        · exact hup _
      linarith
    · have hj : ∀ i, i < inp.n → inp.mask i ≠ j := fun i hi he => him ⟨i, hi, he⟩
      obtain ⟨p1, -, p3, p4⟩ := pad_cell ew hj
      show 0 < excess ix sc (assembleJ inp) b j
      unfold excess
      have tC : (if j = ix.first b then cC sc (assembleJ inp) b else 0) = 0 := by
        split
        · rename_i hf
          unfold cC
          rw [condC_pad ew (hf ▸ hj)]
          split <;> rfl
        · rfl
      have tP : (if j = ix.last b then cP sc (assembleJ inp) b else 0) = 0 := by
        split
        · rename_i hf
          unfold cP
          rw [condP_pad ew (hf ▸ hj)]
          split <;> rfl
        · rfl
      rw [tC, tP, p1, p3, p4]
      simp
end part6

section part7
section denote
variable {K : Type} [Field K] {ix : Idx} {sc : Sched} {inp : AsmIn K}

theorem sumL_pull {α : Type} (c : K) (l : List α) (g f : α → K) :
    sumL (l.map (fun e => c * g e * f e)) = c * sumL (l.map (fun e => g e * f e)) := by
  rw [sumL_mul_left]
  apply sumL_congr
  intro e _
  ring

/-- the branch-point term of the first cell of a branch -/
theorem exC_real (hwf : WF ix sc) (ew : EW ix sc inp) (z : Nat → K) {i b : Nat} (hi : i < inp.n)
    (hb : b ∈ branchesOf sc) (h1 : ix.first b ≤ inp.mask i) (h2 : inp.mask i ≤ ix.paddedLast b) :
    (if inp.mask i = ix.first b then exC sc (assembleJ inp) z b else 0) =
      sumL ((inp.edges.filter (fun e => eSnk e == i && eTy e == 2)).map
        (fun e => -inp.dt * eG e * z (eSrc e - inp.n))) := by
  by_cases hf : inp.mask i = ix.first b
  · rw [if_pos hf]
    obtain ⟨hc, hz⟩ := condC_first hwf ew hi hb hf
    unfold exC
    cases hbc : bpOfChild sc b with
    | none =>
      have : inp.edges.filter (fun e => eSnk e == i && eTy e == 2) = [] := by
        rw [List.filter_eq_nil_iff]
        intro e he hp
        have := (hz e (List.mem_filter.mpr ⟨he, hp⟩)).2
        rw [hbc] at this
        cases this
      rw [this]
      rfl
    | some p =>
      show (assembleJ inp).condC b * z p = _
      rw [hc, sumL_mul_right]
      apply sumL_congr
      intro e he
      have := (hz e he).2
      rw [hbc] at this
      have hp : p = eSrc e - inp.n := by simpa using this
      rw [hp]
  · rw [if_neg hf, condC_notfirst hwf ew hi hb h1 h2 hf]
    rfl

/-- the branch-point term of the last cell of a branch -/
theorem exP_real (hwf : WF ix sc) (ew : EW ix sc inp) (z : Nat → K) {i b : Nat} (hi : i < inp.n)
    (hb : b ∈ branchesOf sc) (h1 : ix.first b ≤ inp.mask i) (h2 : inp.mask i ≤ ix.paddedLast b) :
    (if inp.mask i = ix.last b then exP sc (assembleJ inp) z b else 0) =
      sumL ((inp.edges.filter (fun e => eSnk e == i && eTy e == 1)).map
        (fun e => -inp.dt * eG e * z (eSrc e - inp.n))) := by
  by_cases hf : inp.mask i = ix.last b
  · rw [if_pos hf]
    obtain ⟨hc, hz⟩ := condP_last hwf ew hi hb hf
    unfold exP
    cases hbc : bpOfParent sc b with
    | none =>
      have : inp.edges.filter (fun e => eSnk e == i && eTy e == 1) = [] := by
        rw [List.filter_eq_nil_iff]
        intro e he hp
        have := (hz e (List.mem_filter.mpr ⟨he, hp⟩)).2
        rw [hbc] at this
        cases this
      rw [this]
      rfl
    | some p =>
      show (assembleJ inp).condP b * z p = _
      rw [hc, sumL_mul_right]
      apply sumL_congr
      intro e he
      have := (hz e he).2
      rw [hbc] at this
      have hp : p = eSrc e - inp.n := by simpa using this
      rw [hp]
  · rw [if_neg hf, condP_notlast hwf ew hi hb h1 h2 hf]
    rfl

/-- **the row of a real cell is the implicit-Euler equation of its compartment** -/
theorem row_real (hwf : WF ix sc) (ew : EW ix sc inp) (x xc z : Nat → K) (hx : ∀ i, i < inp.n → x (inp.mask i) = xc i)
    {i b : Nat} (hi : i < inp.n) (hb : b ∈ branchesOf sc) (h1 : ix.first b ≤ inp.mask i)
    (h2 : inp.mask i ≤ ix.paddedLast b) :
    rowComp ix sc (assembleJ inp) x z b (inp.mask i) = physRowComp inp xc z i := by
  rw [rowComp_eq]
  unfold extra physRowComp
  rw [lowers_x hwf ew x xc hx hi hb h1 h2, uppers_x hwf ew x xc hx hi hb h1 h2, exC_real hwf ew z hi hb h1 h2,
    exP_real hwf ew z hi hb h1 h2, diags_real ew hi, hx i hi, split0 ew i, split12 i,
    sumL_pull, sumL_pull, sumL_pull, sumL_pull]
  ring

/-- the row of a cell without compartment is `x j = 0` -/
theorem row_pad (ew : EW ix sc inp) (x z : Nat → K) {j b : Nat} (hj : ∀ i, i < inp.n → inp.mask i ≠ j) :
    rowComp ix sc (assembleJ inp) x z b j = x j ∧ (assembleJ inp).solves j = 0 := by
  obtain ⟨p1, p2, p3, p4⟩ := pad_cell ew hj
  refine ⟨?_, p2⟩
  rw [rowComp_eq]
  unfold extra
  have tC : (if j = ix.first b then exC sc (assembleJ inp) z b else 0) = 0 := by
    split
    · rename_i hf
      unfold exC
      rw [condC_pad ew (hf ▸ hj)]
      split
      · rw [zero_mul]
      · rfl
    · rfl
  have tP : (if j = ix.last b then exP sc (assembleJ inp) z b else 0) = 0 := by
    split
    · rename_i hf
      unfold exP
      rw [condP_pad ew (hf ▸ hj)]
      split
      · rw [zero_mul]
      · rfl
    · rfl
  rw [tC, tP, p1, p3, p4]
  simp

/-- **the row of a branch point is its Kirchhoff equation** -/
theorem rowBp_phys (hwf : WF ix sc) (ew : EW ix sc inp) (x xc z : Nat → K)
    (hx : ∀ i, i < inp.n → x (inp.mask i) = xc i) {b p : Nat} (hq : (b, p) ∈ pairsP sc) :
    rowBp ix sc (assembleJ inp) x z p = physRowBp inp xc z p := by
  unfold rowBp physRowBp
  obtain ⟨hw, hsrc⟩ := weightP_bp hwf ew hq
  have hflt := filter_snd_of_nodup _ hwf.ndP2 (b, p) hq
  have hC := weightC_sum hwf ew p (fun c => x (ix.first c)) (fun e => xc (eSrc e)) (by
    intro pe hpe
    obtain ⟨a1, a2, -, -⟩ := ew.c4 pe hpe
    show x (ix.first pe.1) = xc (eSrc pe.2)
    rw [← a2, hx _ a1])
  have hP : (assembleJ inp).weightP b * x (ix.last b) =
      sumL ((inp.edges.filter (fun e => eSnk e == inp.n + p && eTy e == 3)).map (fun e => eG e * xc (eSrc e))) := by
    rw [hw, sumL_mul_right]
    apply sumL_congr
    intro e he
    obtain ⟨a1, a2⟩ := hsrc e he
    rw [← a2, hx _ a1]
  rw [hflt, hC, asm_bpDiags ew, split34, split34]
  simp only [List.map_cons, List.map_nil, sumL_cons, sumL_nil', hP]
  ring

/-- the general form of the denotation: any padded vector `x`, read on the compartments as `xc` -/
theorem assembleJ_denotes_gen (hwf : WF ix sc) (ew : EW ix sc inp) (x xc z : Nat → K)
    (hx : ∀ i, i < inp.n → x (inp.mask i) = xc i) :
    Sat ix sc (assembleJ inp) x z ↔
      (PhysSys inp xc z ∧ ∀ b ∈ branchesOf sc, ∀ j, ix.first b ≤ j → j ≤ ix.paddedLast b →
        (∀ i, i < inp.n → inp.mask i ≠ j) → x j = 0) := by
  constructor
  · rintro ⟨hrows, hbps⟩
    refine ⟨⟨?_, ?_⟩, ?_⟩
    · intro i hi
      obtain ⟨b, hb, h1, h2⟩ := ew.m_slot i (List.mem_range.mpr hi)
      have := hrows b hb (inp.mask i) h1 h2
      rw [row_real hwf ew x xc z hx hi hb h1 h2, solves_real ew hi] at this
      exact this
    · intro p hp
      have hmem : p ∈ (edgesOf inp 3).map (fun e => eSnk e - inp.n) := by
        rw [ew.bps]; exact List.mem_range.mpr hp
      obtain ⟨e, he, hep⟩ := List.mem_map.mp hmem
      obtain ⟨b, hbe⟩ := mem_zip_of_mem_right _ _ ew.plen3 e he
      have h4 := (ew.p3 _ hbe).2.2.2
      have hq : (b, p) ∈ pairsP sc := (bpOfParent_iff hwf b p).mp (hep ▸ h4)
      have := hbps (b, p) hq
      rw [rowBp_phys hwf ew x xc z hx hq] at this
      exact this
    · intro b hb j h1 h2 hj
      have := hrows b hb j h1 h2
      obtain ⟨r1, r2⟩ := row_pad (ix := ix) (sc := sc) ew x z (b := b) hj
      rw [r1, r2] at this
      exact this
  · rintro ⟨⟨hcomp, hbp⟩, hpad⟩
    refine ⟨?_, ?_⟩
    · intro b hb j h1 h2
      by_cases him : ∃ i, i < inp.n ∧ inp.mask i = j
      · obtain ⟨i, hi, rfl⟩ := him
        rw [row_real hwf ew x xc z hx hi hb h1 h2, solves_real ew hi]
        exact hcomp i hi
      · have hj : ∀ i, i < inp.n → inp.mask i ≠ j := fun i hi he => him ⟨i, hi, he⟩
        obtain ⟨r1, r2⟩ := row_pad (ix := ix) (sc := sc) ew x z (b := b) hj
        rw [r1, r2]
        exact hpad b hb j h1 h2 hj
    · intro q hq
      obtain ⟨e, hbe⟩ := mem_zip_of_mem_left _ _ ew.plen3 q.1 (ew.covP q hq)
      have h4 := (ew.p3 _ hbe).2.2.2
      have hq2 : bpOfParent sc q.1 = some q.2 := (bpOfParent_iff hwf q.1 q.2).mpr hq
      have hp : q.2 = eSnk e - inp.n := by
        have : some q.2 = some (eSnk e - inp.n) := hq2 ▸ h4
        simpa using this
      have hlt : q.2 < numBp inp := by
        have hmem : q.2 ∈ (edgesOf inp 3).map (fun e => eSnk e - inp.n) :=
          List.mem_map.mpr ⟨e, (List.of_mem_zip hbe).2, hp.symm⟩
        rw [ew.bps] at hmem
        exact List.mem_range.mp hmem
      rw [rowBp_phys hwf ew x xc z hx (b := q.1) (p := q.2) hq]
      exact hbp q.2 hlt

/-- **DENOTATION**: the ten arrays the code assembles denote the physical implicit-Euler cable system of the edge table -/
theorem assembleJ_denotes (ix : Idx) (sc : Sched) (inp : AsmIn K) (hwfB : wfB ix sc = true)
    (hew : edgesWfB ix sc inp = true) (xc z : Nat → K) :
    Sat ix sc (assembleJ inp) (padX inp xc) z ↔ PhysSys inp xc z := by
  have hwf := wf_unpack hwfB
  have ew := ew_unpack hew
  rw [assembleJ_denotes_gen hwf ew (padX inp xc) xc z (fun i hi => padX_mask ew xc hi)]
  constructor
  · exact fun h => h.1
  · exact fun h => ⟨h, fun b _ j _ _ hj => padX_notin xc hj⟩

end denote

section final
variable {K : Type} [Field K] [LinearOrder K] [IsStrictOrderedRing K]

/-- **the custom backend solves the physical system**: what `step_voltage_implicit_with_jaxley_spsolve` reads back satisfies the
implicit-Euler cable equations of the edge table, and every solution of those equations has these compartment values -/
theorem jaxley_backend_solves_physical_system (ix : Idx) (sc : Sched) (inp : AsmIn K) (hwfB : wfB ix sc = true)
    (hew : edgesWfB ix sc inp = true) (hdt : 0 < inp.dt) (hg : ∀ e ∈ inp.edges, 0 < e.2.2.2)
    (hvt : ∀ i, i < inp.n → 0 ≤ inp.vt i) :
    PhysSys inp (readBack inp (solve ix sc (assembleJ inp)))
      (fun p => (solve ix sc (assembleJ inp)).bpSolves p / (solve ix sc (assembleJ inp)).bpDiags p) ∧
    ∀ xc z, PhysSys inp xc z → ∀ i, i < inp.n → xc i = readBack inp (solve ix sc (assembleJ inp)) i := by
  have hwf := wf_unpack hwfB
  have ew := ew_unpack hew
  have hdom := assembleJ_dominant ix sc inp hwfB hew hdt hg hvt
  have hsat := solve_correct_of_dominant ix sc (assembleJ inp) hwfB hdom
  constructor
  · exact ((assembleJ_denotes_gen hwf ew _ (readBack inp (solve ix sc (assembleJ inp))) _ (fun _ _ => rfl)).mp hsat).1
  · intro xc z hphys i hi
    have hs := (assembleJ_denotes ix sc inp hwfB hew xc z).mpr hphys
    have hu := (solve_unique ix sc (assembleJ inp) hwfB (pivOK_of_dominant ix sc _ hwfB hdom) _ _ hs).1
    obtain ⟨b, hb, h1, h2⟩ := ew.m_slot i (List.mem_range.mpr hi)
    have := hu b hb (inp.mask i) h1 h2
    rw [padX_mask ew xc hi] at this
    exact this

end final
end part7

/-! ### non-vacuity -/

/-- a cell with three branches: root (2 compartments), two children with 1 and 2 compartments; the children share a level, so
the slot of branch 1 is padded to 2 cells (cell 3 carries no compartment) -/
def exIx3 : Idx :=
  { cumsum := fun b => match b with | 0 => 0 | 1 => 2 | 2 => 4 | _ => 6
    ncomp := fun b => match b with | 0 => 2 | 1 => 1 | _ => 2 }
def exAsm : AsmIn ℚ :=
  { n := 5
    v := fun _ => -70, vt := fun _ => 1 / 2, ct := fun _ => -30
    edges := [(0, 1, 0, 3), (1, 0, 0, 3), (3, 4, 0, 5), (4, 3, 0, 5),      -- inside branch 0 and branch 2
              (5, 1, 1, 2),                                                  -- branch point → last comp of branch 0
              (5, 2, 2, 4), (5, 3, 2, 6),                                    -- branch point → first comps of branches 1, 2
              (1, 5, 3, 2),                                                  -- and back
              (2, 5, 4, 4), (3, 5, 4, 6)]
    mask := fun i => match i with | 0 => 0 | 1 => 1 | 2 => 2 | 3 => 4 | _ => 5
    parInds := [0], childInds := [1, 2], groupInds := [0, 0, 0]
    dt := 1 / 40 }

theorem exAsm_wf : wfB exIx3 exSc = true := by decide
theorem exAsm_ew : edgesWfB exIx3 exSc exAsm = true := by decide

example : PhysSys exAsm (readBack exAsm (solve exIx3 exSc (assembleJ exAsm)))
    (fun p => (solve exIx3 exSc (assembleJ exAsm)).bpSolves p / (solve exIx3 exSc (assembleJ exAsm)).bpDiags p) :=
  (jaxley_backend_solves_physical_system exIx3 exSc exAsm exAsm_wf exAsm_ew (by norm_num [exAsm])
    (by intro e he; simp only [exAsm, List.mem_cons, List.not_mem_nil, or_false] at he; rcases he with rfl | rfl | rfl | rfl | rfl | rfl | rfl | rfl | rfl | rfl <;> norm_num)
    (fun _ _ => by norm_num [exAsm])).1

end JaxleyVerif.Model.SolveJaxley
