/-
Helper lemmas about the generated gate-solver kernels over ℝ.
-/
import JaxleyVerif.Lemmas.Tactics
import Mathlib.Tactic.Ring
import Mathlib.Tactic.FieldSimp
import Mathlib.Tactic.Positivity
import Mathlib.Tactic.Linarith
import Mathlib.Tactic.NormNum
import JaxleyVerif.Lemmas.RealInst
import JaxleyVerif.Gen.Kernels

namespace JaxleyVerif
open JaxleyVerif.Gen

/-- the clip is inactive at or below 20 -/
theorem save_exp_eq {x : ℝ} (h : x ≤ 20) : save_exp x = Real.exp x := by
  unfold save_exp
  have : min x (20.0 : ℝ) = x := min_eq_left (by norm_num; exact h)
  simp [this]

theorem save_exp_clipped {x : ℝ} (h : 20 ≤ x) : save_exp x = Real.exp 20 := by
  unfold save_exp
  have : min x (20.0 : ℝ) = 20 := by rw [min_eq_right (by norm_num; exact h)]; norm_num
  simp [this]

theorem save_exp_pos (x : ℝ) : 0 < save_exp x := by
  unfold save_exp; simp; exact Real.exp_pos _

theorem save_exp_le (x : ℝ) : save_exp x ≤ Real.exp 20 := by
  unfold save_exp; simp
  exact Or.inr (by norm_num)

theorem save_exp_def (x : ℝ) : save_exp x = Real.exp (min x 20) := by
  unfold save_exp
  have : (20.0 : ℝ) = 20 := by norm_num
  simp [this]

theorem save_exp_mono {a b : ℝ} (hab : a ≤ b) : save_exp a ≤ save_exp b := by
  rw [save_exp_def, save_exp_def]
  exact Real.exp_le_exp.mpr (min_le_min_right _ hab)

theorem save_exp_strictMono {a b : ℝ} (hab : a < b) (hb : b ≤ 20) : save_exp a < save_exp b := by
  rw [save_exp_eq hb, save_exp_eq (le_trans hab.le hb)]
  exact Real.exp_lt_exp.mpr hab

/-- closed form of `exponential_euler`: the clip is inactive because `-dt/τ ≤ 0`. -/
theorem exponential_euler_closed {x dt xinf tau : ℝ} (hdt : 0 ≤ dt) (htau : 0 < tau) :
    exponential_euler x dt xinf tau = xinf + (x - xinf) * Real.exp (-dt / tau) := by
  unfold exponential_euler
  have h : -dt / tau ≤ 20 := by
    have : -dt / tau ≤ 0 := div_nonpos_of_nonpos_of_nonneg (by linarith) htau.le
    linarith
  simp only [save_exp_eq h]
  close_arith

theorem solve_inf_gate_exponential_closed {x dt sinf tau : ℝ} (hdt : 0 ≤ dt) (htau : 0 < tau) :
    solve_inf_gate_exponential x dt sinf tau = sinf + (x - sinf) * Real.exp (-dt / tau) := by
  unfold solve_inf_gate_exponential
  have e : (-1.0 : ℝ) / tau * dt = -dt / tau := by close_arith
  have h : -dt / tau ≤ 20 := by
    have : -dt / tau ≤ 0 := div_nonpos_of_nonpos_of_nonneg (by linarith) htau.le
    linarith
  simp only [e, save_exp_eq h]
  close_arith

theorem solve_gate_exponential_closed {x dt a b : ℝ} (hdt : 0 ≤ dt) (hab : 0 < a + b) :
    solve_gate_exponential x dt a b
      = a / (a + b) + (x - a / (a + b)) * Real.exp (-dt * (a + b)) := by
  unfold solve_gate_exponential
  have htau : (0:ℝ) < 1.0 / (a + b) := by norm_num; exact hab
  rw [exponential_euler_closed hdt htau]
  have : -dt / ((1.0:ℝ) / (a + b)) = -dt * (a + b) := by norm_num
  rw [this]
  have : a * ((1.0:ℝ) / (a + b)) = a / (a + b) := by close_arith
  rw [this]

/-- a convex-combination update stays in the unit interval -/
theorem convex_update_mem {x xinf e : ℝ} (hx0 : 0 ≤ x) (hx1 : x ≤ 1) (hi0 : 0 ≤ xinf) (hi1 : xinf ≤ 1)
    (he0 : 0 ≤ e) (he1 : e ≤ 1) :
    0 ≤ xinf + (x - xinf) * e ∧ xinf + (x - xinf) * e ≤ 1 := by
  constructor <;> nlinarith

end JaxleyVerif

namespace JaxleyVerif
open JaxleyVerif.Gen

theorem save_exp_sub_one_pos {z : ℝ} (hz : 0 < z) : 0 < save_exp z - 1 := by
  rw [save_exp_def]
  have : 0 < min z 20 := lt_min hz (by norm_num)
  have := Real.one_lt_exp_iff.mpr this
  linarith

theorem save_exp_sub_one_neg {z : ℝ} (hz : z < 0) : save_exp z - 1 < 0 := by
  rw [save_exp_def]
  have : min z 20 < 0 := lt_of_le_of_lt (min_le_left _ _) hz
  have := Real.exp_lt_one_iff.mpr this
  linarith

theorem save_exp_sub_one_eq_zero_iff {z : ℝ} : save_exp z - 1 = 0 ↔ z = 0 := by
  constructor
  · intro h
    rcases lt_trichotomy z 0 with hz | hz | hz
    · have := save_exp_sub_one_neg hz; linarith
    · exact hz
    · have := save_exp_sub_one_pos hz; linarith
  · rintro rfl
    rw [save_exp_def]; simp

/-- `x/(eˣ−1)` (with jaxley's clipped exponential) is positive away from its removable singularity -/
theorem efun_pos {x : ℝ} (hx : x ≠ 0) : 0 < efun x := by
  unfold efun
  have e1 : (1.0 : ℝ) = 1 := by norm_num
  rw [e1]
  rcases lt_or_gt_of_ne hx with h | h
  · exact div_pos_of_neg_of_neg h (save_exp_sub_one_neg h)
  · exact div_pos h (save_exp_sub_one_pos h)

theorem efun_defined_iff {x : ℝ} : efun.Defined x ↔ x ≠ 0 := by
  unfold efun.Defined
  have e1 : (1.0 : ℝ) = 1 := by norm_num
  have e0 : (0.0 : ℝ) = 0 := by norm_num
  rw [e1, e0, Ne, save_exp_sub_one_eq_zero_iff]

theorem vtrap_pos {x y : ℝ} (hx : x ≠ 0) (hy : 0 < y) : 0 < _vtrap x y := by
  unfold _vtrap
  have e1 : (1.0 : ℝ) = 1 := by norm_num
  rw [e1]
  rcases lt_or_gt_of_ne hx with h | h
  · exact div_pos_of_neg_of_neg h (save_exp_sub_one_neg (div_neg_of_neg_of_pos h hy))
  · exact div_pos h (save_exp_sub_one_pos (div_pos h hy))

theorem vtrap_defined_iff {x y : ℝ} (hy : 0 < y) : _vtrap.Defined x y ↔ x ≠ 0 := by
  unfold _vtrap.Defined
  have e1 : (1.0 : ℝ) = 1 := by norm_num
  have e0 : (0.0 : ℝ) = 0 := by norm_num
  rw [e1, e0, Ne, Ne, save_exp_sub_one_eq_zero_iff]
  constructor
  · rintro ⟨_, h⟩ hx; exact h (by rw [hx]; simp)
  · intro h; exact ⟨hy.ne', fun h' => h (by rcases div_eq_zero_iff.mp h' with h'' | h''; exact h''; exact absurd h'' hy.ne')⟩

end JaxleyVerif
