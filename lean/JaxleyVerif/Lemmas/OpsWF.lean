/-
Preservation of the consistency invariant `WF` by every operation of the state machine `Model.Ops` (core Lean only,
no Mathlib import is needed).

PROVED: `wf_init`, `writeCol_len`, `writeFlag_len`, `foldl_writeCol_len`, `n_*` (every op keeps `n`), and `WF`
preservation for `insert`, `deleteChannel`, `setNode`, `addToGroup`, `record`, `deleteRecordingsAll`, `externalInput`,
`deleteExternal`, `makeTrainable`, `deleteTrainablesAll`, `connect`.

NOT PROVED: (nothing)

ADDED HYPOTHESES (each is genuinely needed, see the doc comment of the theorem):
* `wf_insert`: `hrec`, `hext` -- `insert` enlarges `nodeStates` by the state names / current of the new channel; an index
  stored earlier under such a name while it was not a node state is not bounded by `WF`.  Counterexample without them:
  `n = 1`, `recs = [(5, "s")]`, no channels (so `WF` holds vacuously for that recording); inserting a channel with a state
  `"s"` makes `"s"` a node state and `5 < 1` fails.  (`wf_insert'` is the corollary under "all stored indices `< n`".)
  The hypothesis `rows < n` is NOT needed for `insert` (nor for `deleteChannel` / `setNode`): columns are rebuilt over
  `List.range n`, out-of-range rows are ignored.
* `wf_record`, `wf_externalInput`: `hes` -- in the edge branch the EDGE indices `es` are stored under a name that is not a
  node state of the VIEW (`nodeStatesIn m rows`) but may still be a node state of the MODULE (`nodeStates m`, which is what
  `WF.recIdx` / `WF.extIdx` look at); then they must be `< n`.  (`wf_record'` / `wf_externalInput'` are the corollaries
  under `∀ e ∈ es, e < m.n`.)
-/
import JaxleyVerif.Model.Ops

namespace JaxleyVerif.Model.Ops

/-! ### generic helpers -/

theorem foldl_inv {α β : Type} (P : β → Prop) (step : β → α → β) (hstep : ∀ b a, P b → P (step b a))
    (l : List α) (b : β) (hb : P b) : P (l.foldl step b) := by
  induction l generalizing b with
  | nil => exact hb
  | cons a l ih => exact ih _ (hstep b a hb)

/-! ### 2. `writeCol` / `writeFlag` keep every column at length `n` -/

theorem writeCol_len {n : Nat} {cols : List (String × List (Option Nat))} (k : String) (rows : List Nat) (v : Option Nat)
    (h : ∀ p ∈ cols, p.2.length = n) : ∀ p ∈ writeCol n cols k rows v, p.2.length = n := by
  intro p hp
  unfold writeCol at hp
  simp only at hp
  split at hp
  · rw [List.mem_map] at hp
    obtain ⟨q, hq, rfl⟩ := hp
    split
    · simp
    · exact h q hq
  · rw [List.mem_append] at hp
    rcases hp with hp | hp
    · exact h p hp
    · simp only [List.mem_singleton] at hp
      subst hp
      simp

theorem writeFlag_len {n : Nat} {flags : List (String × List Bool)} (k : String) (rows : List Nat) (v : Bool)
    (h : ∀ p ∈ flags, p.2.length = n) : ∀ p ∈ writeFlag n flags k rows v, p.2.length = n := by
  intro p hp
  unfold writeFlag at hp
  simp only at hp
  split at hp
  · rw [List.mem_map] at hp
    obtain ⟨q, hq, rfl⟩ := hp
    split
    · simp
    · exact h q hq
  · rw [List.mem_append] at hp
    rcases hp with hp | hp
    · exact h p hp
    · simp only [List.mem_singleton] at hp
      subst hp
      simp

/-- folding any family of `writeCol`s keeps the length invariant -/
theorem foldl_writeCol_len {α : Type} {n : Nat} (key : α → String) (rows : α → List Nat) (v : α → Option Nat)
    (l : List α) (cols : List (String × List (Option Nat))) (h : ∀ p ∈ cols, p.2.length = n) :
    ∀ p ∈ l.foldl (fun cs a => writeCol n cs (key a) (rows a) (v a)) cols, p.2.length = n :=
  foldl_inv (fun cs => ∀ p ∈ cs, p.2.length = n) _ (fun _ a hb => writeCol_len (key a) (rows a) (v a) hb) l cols h

/-! ### membership helpers -/

theorem mem_nodeStates {m : Mod} {s : String} :
    s ∈ nodeStates m ↔ (∃ c ∈ m.chans, s ∈ c.states.map (·.1)) ∨ s = "v" ∨ s = "i" ∨ s ∈ m.currents := by
  unfold nodeStates
  simp only [List.mem_append, List.mem_flatMap, List.mem_cons, List.not_mem_nil, or_false]
  constructor
  · rintro ((h | h | h) | h)
    · exact Or.inl h
    · exact Or.inr (Or.inl h)
    · exact Or.inr (Or.inr (Or.inl h))
    · exact Or.inr (Or.inr (Or.inr h))
  · rintro (h | h | h | h)
    · exact Or.inl (Or.inl h)
    · exact Or.inl (Or.inr (Or.inl h))
    · exact Or.inl (Or.inr (Or.inr h))
    · exact Or.inr h

/-- `nodeStates` is monotone in the channel registry and the current list -/
theorem nodeStates_mono {m m' : Mod} (hc : ∀ c ∈ m'.chans, c ∈ m.chans) (hi : ∀ s ∈ m'.currents, s ∈ m.currents)
    {s : String} (h : s ∈ nodeStates m') : s ∈ nodeStates m := by
  rw [mem_nodeStates] at h ⊢
  rcases h with ⟨c, hcm, hs⟩ | h | h | h
  · exact Or.inl ⟨c, hc c hcm, hs⟩
  · exact Or.inr (Or.inl h)
  · exact Or.inr (Or.inr (Or.inl h))
  · exact Or.inr (Or.inr (Or.inr (hi s h)))

/-- the only names `insert` can add to `nodeStates` are the state names and the current of the inserted channel -/
theorem mem_nodeStates_insert {m : Mod} {rows : List Nat} {c : ChanDesc} {s : String}
    (h : s ∈ nodeStates (insert m rows c)) : s ∈ nodeStates m ∨ s ∈ c.states.map (·.1) ∨ s = c.current := by
  rw [mem_nodeStates] at h
  rw [mem_nodeStates]
  rcases h with ⟨d, hd, hs⟩ | h | h | h
  · have hd' : d ∈ (if m.chans.any (·.name == c.name) then m.chans else m.chans ++ [c]) := hd
    split at hd'
    · exact Or.inl (Or.inl ⟨d, hd', hs⟩)
    · rw [List.mem_append, List.mem_singleton] at hd'
      rcases hd' with hd' | hd'
      · exact Or.inl (Or.inl ⟨d, hd', hs⟩)
      · subst hd'; exact Or.inr (Or.inl hs)
  · exact Or.inl (Or.inr (Or.inl h))
  · exact Or.inl (Or.inr (Or.inr (Or.inl h)))
  · have h' : s ∈ (if m.currents.contains c.current then m.currents else m.currents ++ [c.current]) := h
    split at h'
    · exact Or.inl (Or.inr (Or.inr (Or.inr h')))
    · rw [List.mem_append, List.mem_singleton] at h'
      rcases h' with h' | h'
      · exact Or.inl (Or.inr (Or.inr (Or.inr h')))
      · exact Or.inr (Or.inr h')

theorem mem_insertSorted {x y : Nat} {l : List Nat} (h : y ∈ insertSorted x l) : y = x ∨ y ∈ l := by
  induction l with
  | nil =>
    simp only [insertSorted, List.mem_singleton] at h
    exact Or.inl h
  | cons z zs ih =>
    unfold insertSorted at h
    split at h
    · rw [List.mem_cons] at h
      exact h
    · split at h
      · exact Or.inr h
      · rw [List.mem_cons] at h
        rcases h with h | h
        · exact Or.inr (by simp [h])
        · rcases ih h with h | h
          · exact Or.inl h
          · exact Or.inr (List.mem_cons_of_mem _ h)

theorem mem_foldl_insertSorted {y : Nat} (l acc : List Nat)
    (h : y ∈ l.foldl (fun acc x => insertSorted x acc) acc) : y ∈ l ∨ y ∈ acc := by
  induction l generalizing acc with
  | nil => exact Or.inr h
  | cons x xs ih =>
    rcases ih _ h with h | h
    · exact Or.inl (List.mem_cons_of_mem _ h)
    · rcases mem_insertSorted h with h | h
      · exact Or.inl (by simp [h])
      · exact Or.inr h

theorem mem_sortedUnion {y : Nat} {a b : List Nat} (h : y ∈ sortedUnion a b) : y ∈ a ∨ y ∈ b := by
  unfold sortedUnion at h
  rcases mem_foldl_insertSorted _ _ h with h | h
  · exact List.mem_append.mp h
  · cases h

theorem mem_dedup {x : Nat × String} {l : List (Nat × String)} (h : x ∈ dedup l) : x ∈ l := by
  induction l with
  | nil => exact h
  | cons y ys ih =>
    unfold dedup at h
    rw [List.mem_cons] at h
    rcases h with h | h
    · simp [h]
    · exact List.mem_cons_of_mem _ (ih (List.mem_filter.mp h).1)

/-! ### 4. every operation leaves `n` unchanged -/

theorem n_insert (m : Mod) (rows : List Nat) (c : ChanDesc) : (insert m rows c).n = m.n := rfl

theorem n_deleteChannel {m m' : Mod} {rows : List Nat} {c : ChanDesc} (heq : deleteChannel m rows c = .ok m') :
    m'.n = m.n := by
  unfold deleteChannel at heq
  split at heq
  · cases heq
  · simp only at heq
    split at heq <;> (cases heq; rfl)

theorem n_setNode {m m' : Mod} {rows : List Nat} {k : String} {v : Nat} (heq : setNode m rows k v = .ok m') :
    m'.n = m.n := by
  unfold setNode at heq
  split at heq
  · cases heq
  · cases heq; rfl

theorem n_addToGroup (m : Mod) (rows : List Nat) (name : String) : (addToGroup m rows name).n = m.n := by
  unfold addToGroup
  split <;> rfl

theorem n_record {m m' : Mod} {rows es : List Nat} {state : String} (heq : record m rows es state = .ok m') :
    m'.n = m.n := by
  unfold record at heq
  split at heq
  · cases heq; rfl
  · split at heq
    · cases heq; rfl
    · cases heq

theorem n_deleteRecordingsAll (m : Mod) : (deleteRecordingsAll m).n = m.n := rfl

theorem n_externalInput {m m' : Mod} {rows es : List Nat} {key : String} {data : List (List Nat)}
    (heq : externalInput m rows es key data = .ok m') : m'.n = m.n := by
  unfold externalInput at heq
  simp only at heq
  generalize (if (nodeStatesIn m rows).contains key then rows else es) = inds at heq
  generalize (if data.length == inds.length then data else List.replicate inds.length (data.headD [])) = d at heq
  split at heq
  · cases heq
  · split at heq
    · cases heq
    · split at heq <;> (cases heq; rfl)

theorem n_deleteExternal (m : Mod) (rows es : List Nat) (key : String) : (deleteExternal m rows es key).n = m.n := rfl
theorem n_makeTrainable (m : Mod) (key : String) (groups : List (List Nat)) : (makeTrainable m key groups).n = m.n := rfl
theorem n_deleteTrainablesAll (m : Mod) : (deleteTrainablesAll m).n = m.n := rfl
theorem n_connect (m : Mod) (pre post : List Nat) (s : SynDesc) : (connect m pre post s).n = m.n := rfl
theorem n_init (n : Nat) (geom : List (String × Nat)) : (init n geom).n = n := rfl

/-! ### 1. the initial module is well formed -/

theorem wf_init (n : Nat) (geom : List (String × Nat)) : WF (init n geom) where
  colLen := by
    intro p hp
    simp only [init, List.mem_map] at hp
    obtain ⟨kv, _, rfl⟩ := hp
    simp [init]
  flagLen := by intro p hp; cases hp
  recIdx := by intro r hr; cases hr
  extIdx := by intro p hp; cases hp
  grpIdx := by intro g hg; cases hg
  edgeIdx := by intro e he; cases he

/-! ### 3. preservation -/

/-- `insert`.  `hrows` is NOT needed (the columns are rebuilt with `List.range n`), so it is not assumed.
Added hypotheses `hrec` / `hext`: `insert` adds the state names and the current name of `c` to `nodeStates`.  `WF.recIdx` /
`WF.extIdx` only bound an index by `n` when its name is a node state, so a recording / external input that was stored under
such a name while it was NOT yet a node state (e.g. an edge index recorded under a synapse state of the same name) may hold
an index `≥ n` and would violate the invariant once the name becomes a node state.  The hypotheses say exactly that this
does not happen for the names that `c` brings in. -/
theorem wf_insert {m : Mod} {rows : List Nat} {c : ChanDesc} (h : WF m)
    (hrec : ∀ r ∈ m.recs, (r.2 ∈ c.states.map (·.1) ∨ r.2 = c.current) → r.1 < m.n)
    (hext : ∀ p ∈ m.ext, (p.1 ∈ c.states.map (·.1) ∨ p.1 = c.current) → ∀ r ∈ p.2, r.1 < m.n) :
    WF (insert m rows c) where
  colLen := foldl_writeCol_len (α := String × Nat) (fun kv => kv.1) (fun _ => rows) (fun kv => some kv.2) _ _ h.colLen
  flagLen := writeFlag_len _ _ _ h.flagLen
  recIdx := by
    intro r hr hs
    have hr' : r ∈ m.recs := hr
    rcases mem_nodeStates_insert (List.contains_iff_mem.mp hs) with hs | hs
    · exact h.recIdx r hr' (List.contains_iff_mem.mpr hs)
    · exact hrec r hr' hs
  extIdx := by
    intro p hp hs
    have hp' : p ∈ m.ext := hp
    rcases mem_nodeStates_insert (List.contains_iff_mem.mp hs) with hs | hs
    · exact h.extIdx p hp' (List.contains_iff_mem.mpr hs)
    · exact hext p hp' hs
  grpIdx := h.grpIdx
  edgeIdx := h.edgeIdx

/-- `insert` under the simple (stronger) hypotheses that all stored indices are in range -/
theorem wf_insert' {m : Mod} {rows : List Nat} {c : ChanDesc} (h : WF m)
    (hrec : ∀ r ∈ m.recs, r.1 < m.n) (hext : ∀ p ∈ m.ext, ∀ r ∈ p.2, r.1 < m.n) : WF (insert m rows c) :=
  wf_insert h (fun r hr _ => hrec r hr) (fun p hp _ => hext p hp)

/-- `deleteChannel` needs no side condition: columns are rebuilt at length `n`, and `nodeStates` can only shrink. -/
theorem wf_deleteChannel {m m' : Mod} {rows : List Nat} {c : ChanDesc} (h : WF m)
    (heq : deleteChannel m rows c = .ok m') : WF m' := by
  unfold deleteChannel at heq
  split at heq
  · cases heq
  · simp only at heq
    have hcols := foldl_writeCol_len (n := m.n) (fun key : String => key)
      (fun key => rows.filter (fun r =>
        !((((m.chans.filter (·.name != c.name)).filter (fun o => o.keys.contains key)).map (·.name)).any
          (fun u => flagAt m u r))))
      (fun _ => none) c.keys m.cols h.colLen
    have hflags := writeFlag_len c.name rows false h.flagLen
    split at heq
    · cases heq
      have hmono : ∀ s, s ∈ nodeStates
          { m with
            chans := m.chans.filter (·.name != c.name),
            currents := if (m.chans.filter (·.name != c.name)).any (·.current == c.current) then m.currents
              else m.currents.erase c.current } → s ∈ nodeStates m := by
        intro s hs
        refine nodeStates_mono (fun d hd => (List.mem_filter.mp hd).1) (fun t ht => ?_) hs
        simp only at ht
        split at ht
        · exact ht
        · exact List.mem_of_mem_erase ht
      refine ⟨?_, ?_, ?_, ?_, h.grpIdx, h.edgeIdx⟩
      · intro p hp
        exact hcols p (List.mem_filter.mp hp).1
      · intro p hp
        exact hflags p (List.mem_filter.mp hp).1
      · intro r hr hs
        exact h.recIdx r (List.mem_filter.mp hr).1 (List.contains_iff_mem.mpr (hmono _ (List.contains_iff_mem.mp hs)))
      · intro p hp hs
        exact h.extIdx p (List.mem_filter.mp hp).1 (List.contains_iff_mem.mpr (hmono _ (List.contains_iff_mem.mp hs)))
    · cases heq
      exact ⟨hcols, hflags, h.recIdx, h.extIdx, h.grpIdx, h.edgeIdx⟩

theorem wf_setNode {m m' : Mod} {rows : List Nat} {k : String} {v : Nat} (h : WF m)
    (heq : setNode m rows k v = .ok m') : WF m' := by
  unfold setNode at heq
  split at heq
  · cases heq
  · cases heq
    exact ⟨writeCol_len _ _ _ h.colLen, h.flagLen, h.recIdx, h.extIdx, h.grpIdx, h.edgeIdx⟩

theorem wf_addToGroup {m : Mod} {rows : List Nat} {name : String} (h : WF m) (hrows : ∀ r ∈ rows, r < m.n) :
    WF (addToGroup m rows name) := by
  unfold addToGroup
  split
  · refine ⟨h.colLen, h.flagLen, h.recIdx, h.extIdx, ?_, h.edgeIdx⟩
    intro g hg r hr
    simp only [List.mem_map] at hg
    obtain ⟨g0, hg0, rfl⟩ := hg
    split at hr
    · rcases mem_sortedUnion hr with hr | hr
      · exact h.grpIdx g0 hg0 r hr
      · exact hrows r hr
    · exact h.grpIdx g0 hg0 r hr
  · refine ⟨h.colLen, h.flagLen, h.recIdx, h.extIdx, ?_, h.edgeIdx⟩
    intro g hg r hr
    simp only [List.mem_append, List.mem_singleton] at hg
    rcases hg with hg | hg
    · exact h.grpIdx g hg r hr
    · subst hg; exact hrows r hr

/-- `record`.  Added hypothesis `hes`: when `state` is not a node state OF THE VIEW but is an edge state, the edge indices
`es` are stored.  `WF.recIdx` speaks about the node states of the WHOLE module, so if `state` is (also) a global node state
(a channel of the module outside the view, or a name clash between a channel state and a synapse state) the stored edge
indices must be `< n`.  When `state` is not a global node state nothing is required of `es`. -/
theorem wf_record {m m' : Mod} {rows es : List Nat} {state : String} (h : WF m) (hrows : ∀ r ∈ rows, r < m.n)
    (hes : (nodeStatesIn m rows).contains state = false → (nodeStates m).contains state = true → ∀ e ∈ es, e < m.n)
    (heq : record m rows es state = .ok m') : WF m' := by
  unfold record at heq
  split at heq
  · cases heq
    refine ⟨h.colLen, h.flagLen, ?_, h.extIdx, h.grpIdx, h.edgeIdx⟩
    intro r hr hs
    have hr' := mem_dedup hr
    rw [List.mem_append, List.mem_map] at hr'
    rcases hr' with hr' | ⟨i, hi, rfl⟩
    · exact h.recIdx r hr' hs
    · exact hrows i hi
  · split at heq
    · cases heq
      refine ⟨h.colLen, h.flagLen, ?_, h.extIdx, h.grpIdx, h.edgeIdx⟩
      intro r hr hs
      have hr' := mem_dedup hr
      rw [List.mem_append, List.mem_map] at hr'
      rcases hr' with hr' | ⟨i, hi, rfl⟩
      · exact h.recIdx r hr' hs
      · rename_i hn _
        exact hes (by simpa using hn) hs i hi
    · cases heq

/-- `record` under the simple (stronger) hypothesis that the edge indices are in range too -/
theorem wf_record' {m m' : Mod} {rows es : List Nat} {state : String} (h : WF m) (hrows : ∀ r ∈ rows, r < m.n)
    (hes : ∀ e ∈ es, e < m.n) (heq : record m rows es state = .ok m') : WF m' :=
  wf_record h hrows (fun _ _ => hes) heq

/-- `externalInput`.  Added hypothesis `hes`, for the same reason as in `wf_record`: when `key` is not a node state of the
view, the edge indices `es` are stored under `key`; they must be `< n` if `key` happens to be a global node state. -/
theorem wf_externalInput {m m' : Mod} {rows es : List Nat} {key : String} {data : List (List Nat)} (h : WF m)
    (hrows : ∀ r ∈ rows, r < m.n)
    (hes : (nodeStatesIn m rows).contains key = false → (nodeStates m).contains key = true → ∀ e ∈ es, e < m.n)
    (heq : externalInput m rows es key data = .ok m') : WF m' := by
  unfold externalInput at heq
  simp only at heq
  -- the freshly stored rows are in range whenever `key` is a global node state
  have hinds : (nodeStates m).contains key = true →
      ∀ i ∈ (if (nodeStatesIn m rows).contains key then rows else es), i < m.n := by
    intro hs i hi
    split at hi
    · exact hrows i hi
    · rename_i hn
      exact hes (by simpa using hn) hs i hi
  generalize (if (nodeStatesIn m rows).contains key then rows else es) = inds at heq hinds
  generalize (if data.length == inds.length then data else List.replicate inds.length (data.headD [])) = d at heq
  have hnew : (nodeStates m).contains key = true → ∀ r ∈ inds.zip d, r.1 < m.n := fun hs r hr =>
    hinds hs _ (List.of_mem_zip (a := r.1) (b := r.2) hr).1
  split at heq
  · cases heq
  · split at heq
    · cases heq
    · split at heq
      · cases heq
        refine ⟨h.colLen, h.flagLen, h.recIdx, ?_, h.grpIdx, h.edgeIdx⟩
        intro p hp hs r hr
        simp only [List.mem_map] at hp
        obtain ⟨p0, hp0, rfl⟩ := hp
        have hfst : (if (p0.1 == key) = true then (p0.1, p0.2 ++ inds.zip d) else p0).1 = p0.1 := by
          split <;> rfl
        have hs' : (nodeStates m).contains p0.1 = true := by rw [hfst] at hs; exact hs
        split at hr
        · rename_i hk
          have hk' : p0.1 = key := by simpa using hk
          rw [List.mem_append] at hr
          rcases hr with hr | hr
          · exact h.extIdx p0 hp0 hs' r hr
          · exact hnew (hk' ▸ hs') r hr
        · exact h.extIdx p0 hp0 hs' r hr
      · cases heq
        refine ⟨h.colLen, h.flagLen, h.recIdx, ?_, h.grpIdx, h.edgeIdx⟩
        intro p hp hs r hr
        simp only [List.mem_append, List.mem_singleton] at hp
        rcases hp with hp | hp
        · exact h.extIdx p hp hs r hr
        · subst hp
          exact hnew hs r hr

/-- `externalInput` under the simple (stronger) hypothesis that the edge indices are in range too -/
theorem wf_externalInput' {m m' : Mod} {rows es : List Nat} {key : String} {data : List (List Nat)} (h : WF m)
    (hrows : ∀ r ∈ rows, r < m.n) (hes : ∀ e ∈ es, e < m.n)
    (heq : externalInput m rows es key data = .ok m') : WF m' :=
  wf_externalInput h hrows (fun _ _ => hes) heq

theorem wf_deleteRecordingsAll {m : Mod} (h : WF m) : WF (deleteRecordingsAll m) :=
  ⟨h.colLen, h.flagLen, (by intro r hr; cases hr), h.extIdx, h.grpIdx, h.edgeIdx⟩

theorem wf_deleteExternal {m : Mod} {rows es : List Nat} {key : String} (h : WF m) :
    WF (deleteExternal m rows es key) := by
  refine ⟨h.colLen, h.flagLen, h.recIdx, ?_, h.grpIdx, h.edgeIdx⟩
  intro p hp hs r hr
  simp only [deleteExternal, List.mem_filterMap] at hp
  generalize (if (edgeStates m).contains key then es else rows) = inView at hp
  obtain ⟨p0, hp0, hp⟩ := hp
  by_cases hk : (p0.1 == key) = true
  · rw [if_pos hk] at hp
    split at hp
    · cases hp
    · cases hp
      exact h.extIdx p0 hp0 hs r (List.mem_filter.mp hr).1
  · rw [if_neg hk] at hp
    have hp' : p0 = p := Option.some.inj hp
    rw [← hp'] at hs hr
    exact h.extIdx p0 hp0 hs r hr

theorem wf_makeTrainable {m : Mod} {key : String} {groups : List (List Nat)} (h : WF m) :
    WF (makeTrainable m key groups) :=
  ⟨h.colLen, h.flagLen, h.recIdx, h.extIdx, h.grpIdx, h.edgeIdx⟩

theorem wf_deleteTrainablesAll {m : Mod} (h : WF m) : WF (deleteTrainablesAll m) :=
  ⟨h.colLen, h.flagLen, h.recIdx, h.extIdx, h.grpIdx, h.edgeIdx⟩

theorem wf_connect {m : Mod} {pre post : List Nat} {s : SynDesc} (h : WF m)
    (hpre : ∀ r ∈ pre, r < m.n) (hpost : ∀ r ∈ post, r < m.n) : WF (connect m pre post s) := by
  refine ⟨h.colLen, h.flagLen, h.recIdx, h.extIdx, h.grpIdx, ?_⟩
  intro e he
  simp only [connect, List.mem_append, List.mem_map] at he
  rcases he with he | ⟨pq, hpq, rfl⟩
  · exact h.edgeIdx e he
  · have := List.of_mem_zip (a := pq.1) (b := pq.2) hpq
    exact ⟨hpre _ this.1, hpost _ this.2⟩

end JaxleyVerif.Model.Ops
