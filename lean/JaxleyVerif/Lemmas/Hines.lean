/-
Correctness of the abstract Hines solver over an arbitrary field.
-/
import Mathlib.Tactic.Ring
import Mathlib.Tactic.FieldSimp
import Mathlib.Algebra.Field.Basic
import JaxleyVerif.Model.Hines

namespace JaxleyVerif.Model.HTree
variable {K : Type} [Field K]

/-- value assigned to the root of `t` by the backward pass, given the parent's value -/
def xval (xp : K) : HTree K → K
  | node i d b up down kids => ((elim (node i d b up down kids)).2 - up * xp) / (elim (node i d b up down kids)).1

def upOf : HTree K → K | node _ _ _ up _ _ => up
def downOf : HTree K → K | node _ _ _ _ down _ => down
def kidsOf : HTree K → List (HTree K) | node _ _ _ _ _ kids => kids

mutual
/-- all pivots met by the elimination are non-zero -/
def Piv : HTree K → Prop
  | node i d b up down kids => (elim (node i d b up down kids)).1 ≠ 0 ∧ PivKids kids
def PivKids : List (HTree K) → Prop
  | [] => True
  | t :: rest => Piv t ∧ PivKids rest
end

/-- `Σ_c down_c · x_c` over the children, with the values the backward pass assigns -/
def sumDown (x : K) : List (HTree K) → K
  | [] => 0
  | t :: rest => downOf t * xval x t + sumDown x rest

mutual
/-- every row of the subtree holds for the values assigned by the backward pass -/
def Holds (xp : K) : HTree K → Prop
  | node i d b up down kids =>
    let x := xval xp (node i d b up down kids)
    d * x + up * xp + sumDown x kids = b ∧ HoldsKids x kids
def HoldsKids (x : K) : List (HTree K) → Prop
  | [] => True
  | t :: rest => Holds x t ∧ HoldsKids x rest
end

theorem sumDown_eq (x : K) : ∀ kids : List (HTree K), PivKids kids →
    sumDown x kids = (elimKids kids).2 - x * (elimKids kids).1
  | [], _ => by simp [sumDown, elimKids]
  | (node i d b up down kids) :: rest, h => by
    obtain ⟨hp, hr⟩ := h
    have ih := sumDown_eq x rest hr
    have hp1 : (elim (node i d b up down kids)).1 ≠ 0 := hp.1
    simp only [sumDown, elimKids, downOf, xval, ih]
    field_simp
    ring

mutual
theorem hines_correct (xp : K) : ∀ t : HTree K, Piv t → Holds xp t
  | node i d b up down kids, h => by
    obtain ⟨hp, hk⟩ := h
    refine ⟨?_, hinesKids_correct _ kids hk⟩
    rw [sumDown_eq _ kids hk]
    have e1 : (elim (node i d b up down kids)).1 = d - (elimKids kids).1 := by simp [elim]
    have e2 : (elim (node i d b up down kids)).2 = b - (elimKids kids).2 := by simp [elim]
    have hp' : d - (elimKids kids).1 ≠ 0 := e1 ▸ hp
    simp only [xval, e1, e2]
    field_simp
    ring
theorem hinesKids_correct (x : K) : ∀ kids : List (HTree K), PivKids kids → HoldsKids x kids
  | [], _ => trivial
  | t :: rest, h => ⟨hines_correct x t h.1, hinesKids_correct x rest h.2⟩
end

/-- the association list returned by `back` carries exactly these values -/
theorem back_head (xp : K) (i : Nat) (d b up down : K) (kids : List (HTree K)) :
    back xp (node i d b up down kids)
      = (i, xval xp (node i d b up down kids)) :: backKids (xval xp (node i d b up down kids)) kids := by
  simp [back, xval]

end JaxleyVerif.Model.HTree
