/-
Pivot positivity of the Hines elimination for weakly row-dominant Z-matrices on a tree
(discharges the `Piv` hypothesis of `hines_correct` for every valid cable system).
-/
import Mathlib.Tactic.Linarith
import Mathlib.Tactic.Positivity
import Mathlib.Algebra.Order.Field.Basic
import JaxleyVerif.Lemmas.Hines

namespace JaxleyVerif.Model.HTree
variable {K : Type} [Field K] [LinearOrder K] [IsStrictOrderedRing K]

def dOf : HTree K → K | node _ d _ _ _ _ => d

/-- `Σ_c down_c` over a list of children -/
def sumDownCoef : List (HTree K) → K
  | [] => 0
  | t :: rest => downOf t + sumDownCoef rest

/-- row slack `d + up + Σ_c down_c` -/
def slack : HTree K → K
  | node _ d _ up _ kids => d + up + sumDownCoef kids

mutual
/-- off-diagonals non-positive, rows weakly dominant, and every node either strictly dominant or coupled to
its parent (`up < 0`) -/
def Good : HTree K → Prop
  | node i d b up down kids =>
    up ≤ 0 ∧ down ≤ 0 ∧ 0 ≤ slack (node i d b up down kids) ∧
    (up < 0 ∨ 0 < slack (node i d b up down kids)) ∧ GoodKids kids
def GoodKids : List (HTree K) → Prop
  | [] => True
  | t :: rest => Good t ∧ GoodKids rest
end

mutual
/-- after eliminating its subtree a good node has pivot `d' ≥ −up + slack` -/
theorem pivot_bound : ∀ t : HTree K, Good t → (elim t).1 ≥ -upOf t + slack t ∧ Piv t
  | node i d b up down kids, h => by
    obtain ⟨hup, hdown, hs, hstrict, hk⟩ := h
    obtain ⟨hb, hpk⟩ := pivotKids_bound kids hk
    have e1 : (elim (node i d b up down kids)).1 = d - (elimKids kids).1 := by simp [elim]
    have hge : (elim (node i d b up down kids)).1 ≥ -up + slack (node i d b up down kids) := by
      rw [e1]; simp only [slack]; linarith
    refine ⟨by simpa [upOf] using hge, ?_, hpk⟩
    have : 0 < -up + slack (node i d b up down kids) := by
      rcases hstrict with h1 | h1 <;> linarith
    exact ne_of_gt (lt_of_lt_of_le this hge)
/-- `Σ_c down_c·up_c/d'_c ≤ −Σ_c down_c` -/
theorem pivotKids_bound : ∀ kids : List (HTree K), GoodKids kids →
    (elimKids kids).1 ≤ -sumDownCoef kids ∧ PivKids kids
  | [], _ => by simp [elimKids, sumDownCoef, PivKids]
  | (node i d b up down kids) :: rest, h => by
    obtain ⟨hg, hr⟩ := h
    obtain ⟨hb, hp⟩ := pivot_bound (node i d b up down kids) hg
    obtain ⟨hrb, hrp⟩ := pivotKids_bound rest hr
    obtain ⟨hup, hdown, hs, hstrict, _⟩ := hg
    refine ⟨?_, hp, hrp⟩
    simp only [elimKids, sumDownCoef, downOf]
    simp only [upOf] at hb
    set e := (elim (node i d b up down kids)).1 with he
    have hepos : 0 < e := by
      have : 0 < -up + slack (node i d b up down kids) := by
        rcases hstrict with h1 | h1 <;> linarith
      linarith
    have hfrac : down * up / e ≤ -down := by
      rw [div_le_iff₀ hepos]
      have h1 : -up ≤ e := by linarith
      nlinarith
    linarith
end

/-- Hines returns a solution of every good tree system. -/
theorem hines_solves_good (t : HTree K) (h : Good t) : Holds 0 t :=
  hines_correct 0 t (pivot_bound t h).2

end JaxleyVerif.Model.HTree
