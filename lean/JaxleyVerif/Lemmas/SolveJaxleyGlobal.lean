/-
Global correctness of the code-shaped model of the custom branched tridiagonal solver (`Model.SolveJaxley.solve`):
for every well-formed indexer + level schedule and every array content whose pivots do not vanish, the returned arrays
solve the linear system the input arrays denote (`solve_correct`), and they are the only solution (`solve_unique`).

Architecture: every step of the two passes preserves the solution set (`Sat … (T st) x z ↔ Sat … st x z` for ALL `x z`):
* `thomas_equiv`, `triangSlot_sat`      Thomas triangulation of one slot (needs: pivots ≠ 0, no branch-point unknown in the last row)
* `backsub_equiv`, `backsubSlot_sat`    back substitution of one triangulated slot
* `eclStep_sat`, `epuStep_sat`, `eplStep_sat`, `ecuStep_sat`   the four branch-point steps, one branch at a time; the
  folds of the model (which read the state at the start of the step) equal the folds of these steps (`ecl_eq_fold` …) because
  the branches of a level are pairwise distinct
* `trLevel_spec`, `pass1`, `triangBranched_spec`   the triangulation pass with its invariant `Inv1` / `End1`
* `step2_spec`, `pass2`, `solve_spec`              the back-substitution pass (`Mono2`: what every step of it preserves)
* `sat_of_diag`                                    the final state is diagonal
The structural facts are unpacked once from `wfB` (`wf_unpack`, `lvOK_of_wf`).
-/
import Mathlib.Data.List.Nodup
import Mathlib.Tactic.Ring
import Mathlib.Tactic.FieldSimp
import Mathlib.Tactic.LinearCombination
import Mathlib.Tactic.NormNum
import Mathlib.Algebra.Field.Rat
import JaxleyVerif.Lemmas.SolveJaxley

namespace JaxleyVerif.Model.SolveJaxley

/-! ### structure of a well-formed schedule -/

abbrev Lv := List (Nat × Nat) × List (Nat × Nat)
/-- the (child, branch point) pairs of a list of levels -/
def chs (L : List Lv) : List (Nat × Nat) := L.flatMap (·.1)
/-- the (parent, branch point) pairs of a list of levels -/
def prs (L : List Lv) : List (Nat × Nat) := L.flatMap (·.2)

@[simp] theorem chs_nil : chs [] = [] := rfl
@[simp] theorem prs_nil : prs [] = [] := rfl
@[simp] theorem chs_cons (lv : Lv) (L : List Lv) : chs (lv :: L) = lv.1 ++ chs L := by simp [chs]
@[simp] theorem prs_cons (lv : Lv) (L : List Lv) : prs (lv :: L) = lv.2 ++ prs L := by simp [prs]
@[simp] theorem chs_append (L L' : List Lv) : chs (L ++ L') = chs L ++ chs L' := by simp [chs]
@[simp] theorem prs_append (L L' : List Lv) : prs (L ++ L') = prs L ++ prs L' := by simp [prs]

theorem nodupB_iff (l : List Nat) : nodupB l = true ↔ l.Nodup := by
  induction l with
  | nil => simp [nodupB]
  | cons a l ih => simp [nodupB, ih]

/-- `wfB` as propositions -/
structure WF (ix : Idx) (sc : Sched) : Prop where
  slot : ∀ b ∈ branchesOf sc, ix.first b ≤ ix.last b ∧ ix.last b ≤ ix.paddedLast b
  disj : ∀ b ∈ branchesOf sc, ∀ b' ∈ branchesOf sc, b ≠ b' → ∀ j, ix.first b ≤ j → j ≤ ix.paddedLast b →
    (j < ix.first b' ∨ ix.paddedLast b' < j)
  ndB : (branchesOf sc).Nodup
  ndP1 : ((pairsP sc).map (·.1)).Nodup
  ndP2 : ((pairsP sc).map (·.2)).Nodup
  pc : pairsC sc = chs (levels sc)
  pp : pairsP sc = prs (levels sc)
  mtch : ∀ lv ∈ levels sc, (∀ c ∈ lv.1, ∃ q ∈ lv.2, q.2 = c.2) ∧ (∀ q ∈ lv.2, ∃ c ∈ lv.1, c.2 = q.2)
  chain : chainB sc.roots (levels sc) = true

theorem wf_unpack {ix : Idx} {sc : Sched} (h : wfB ix sc = true) : WF ix sc := by
  unfold wfB at h
  simp only [Bool.and_eq_true, List.all_eq_true, beq_iff_eq, decide_eq_true_eq, Bool.or_eq_true, nodupB_iff] at h
  obtain ⟨⟨⟨⟨⟨⟨⟨hlen, hslot⟩, hdisj⟩, hnb⟩, hn1⟩, hn2⟩, hm⟩, hc⟩ := h
  refine ⟨?_, ?_, hnb, hn1, hn2, ?_, ?_, ?_, hc⟩
  · intro b hb
    have := hslot b hb
    simp only [Idx.first, Idx.last, Idx.paddedLast]
    omega
  · intro b hb b' hb' hne j h1 h2
    have s1 := hslot b hb
    have s2 := hslot b' hb'
    have := hdisj b hb b' hb'
    simp only [Idx.first, Idx.paddedLast] at *
    omega
  · simp only [pairsC, chs, levels, List.flatMap_def]
    rw [List.map_fst_zip (by omega)]
  · simp only [pairsP, prs, levels, List.flatMap_def]
    rw [List.map_snd_zip (by omega)]
  · intro lv hlv
    have := hm lv hlv
    simp only [levelMatchB, Bool.and_eq_true, List.all_eq_true, List.any_eq_true, beq_iff_eq] at this
    exact this

theorem find_fst_of_nodup (l : List (Nat × Nat)) (hn : (l.map (·.1)).Nodup) (q : Nat × Nat) (h : q ∈ l) :
    l.find? (·.1 == q.1) = some q := by
  induction l with
  | nil => simp at h
  | cons x t ih =>
    simp only [List.map_cons, List.nodup_cons] at hn
    rcases List.mem_cons.mp h with rfl | h
    · simp
    · have hx : x.1 ≠ q.1 := by
        intro he
        exact hn.1 (he ▸ List.mem_map_of_mem h)
      simp [hx, ih hn.2 h]

theorem filter_snd_of_nodup (l : List (Nat × Nat)) (hn : (l.map (·.2)).Nodup) (q : Nat × Nat) (h : q ∈ l) :
    l.filter (·.2 == q.2) = [q] := by
  induction l with
  | nil => simp at h
  | cons x t ih =>
    simp only [List.map_cons, List.nodup_cons] at hn
    rcases List.mem_cons.mp h with rfl | h
    · have : t.filter (·.2 == q.2) = [] := by
        rw [List.filter_eq_nil_iff]
        intro a ha he
        simp only [beq_iff_eq] at he
        exact hn.1 (he ▸ List.mem_map_of_mem ha)
      simp [this]
    · have hx : x.2 ≠ q.2 := by
        intro he
        exact hn.1 (he ▸ List.mem_map_of_mem h)
      simp [hx, ih hn.2 h]

theorem bpOfParent_cases (sc : Sched) (b : Nat) : bpOfParent sc b = none ∨ ∃ q ∈ pairsP sc, q.1 = b := by
  unfold bpOfParent
  cases hf : List.find? (·.1 == b) sc.parentsInLevel.flatten with
  | none => left; simp
  | some q =>
    right
    refine ⟨q, List.mem_of_find?_eq_some hf, ?_⟩
    have := List.find?_some hf
    simpa using this

theorem bpOfChild_cases (sc : Sched) (b : Nat) : bpOfChild sc b = none ∨ ∃ q ∈ pairsC sc, q.1 = b := by
  unfold bpOfChild
  cases hf : List.find? (·.1 == b) (pairsC sc) with
  | none => left; simp
  | some q =>
    right
    refine ⟨q, List.mem_of_find?_eq_some hf, ?_⟩
    have := List.find?_some hf
    simpa using this

theorem chain_avail : ∀ (pre : List Lv) (avail : List Nat) (lv : Lv) (post : List Lv),
    chainB avail (pre ++ lv :: post) = true →
    ∀ q ∈ prs (pre ++ [lv]), q.1 ∈ avail ∨ q.1 ∈ (chs pre).map (·.1) := by
  intro pre
  induction pre with
  | nil =>
    intro avail lv post h q hq
    simp only [List.nil_append, chainB, Bool.and_eq_true, List.all_eq_true, List.contains_iff_mem] at h
    simp only [List.nil_append, prs_cons, prs_nil, List.append_nil] at hq
    exact Or.inl (h.1 q hq)
  | cons l0 pre ih =>
    intro avail lv post h q hq
    simp only [List.cons_append, chainB, Bool.and_eq_true, List.all_eq_true, List.contains_iff_mem] at h
    simp only [List.cons_append, prs_cons, List.mem_append] at hq
    rcases hq with hq | hq
    · exact Or.inl (h.1 q hq)
    · right
      have := ih _ lv post h.2 q (by simpa using hq)
      simp only [chs_cons, List.map_append, List.mem_append]
      rcases this with h1 | h1
      · exact Or.inl h1
      · exact Or.inr h1

theorem match_chs (L : List Lv) (hm : ∀ lv ∈ L, (∀ c ∈ lv.1, ∃ q ∈ lv.2, q.2 = c.2)) :
    ∀ c ∈ chs L, ∃ q ∈ prs L, q.2 = c.2 := by
  intro c hc
  simp only [chs, prs, List.mem_flatMap] at hc ⊢
  obtain ⟨lv, hlv, hc⟩ := hc
  obtain ⟨q, hq, he⟩ := hm lv hlv c hc
  exact ⟨q, ⟨lv, hlv, hq⟩, he⟩

/-- the static facts about one level of a well-formed schedule -/
structure LvOK (ix : Idx) (sc : Sched) (pre : List Lv) (lv : Lv) (post : List Lv) : Prop where
  cnd : (lv.1.map (·.1)).Nodup
  cbr : ∀ c ∈ lv.1, c.1 ∈ branchesOf sc
  cbp : ∀ c ∈ lv.1, bpOfChild sc c.1 = some c.2
  cmem : ∀ c ∈ lv.1, c.1 ∈ childrenOfBp sc c.2
  cpar : ∀ c ∈ lv.1, ∃ q ∈ lv.2, q.2 = c.2
  pnd : (lv.2.map (·.1)).Nodup
  pbr : ∀ q ∈ lv.2, q.1 ∈ branchesOf sc
  pbp : ∀ q ∈ lv.2, bpOfParent sc q.1 = some q.2
  pflt : ∀ q ∈ lv.2, (pairsP sc).filter (·.2 == q.2) = [q]
  pmem : ∀ q ∈ lv.2, q ∈ pairsP sc
  pch : ∀ q ∈ lv.2, ∀ c ∈ childrenOfBp sc q.2, c ∈ lv.1.map (·.1)
  c_par : ∀ c ∈ lv.1, bpOfParent sc c.1 = none ∨ ∃ q ∈ prs post, q.1 = c.1
  p_notch : ∀ q ∈ lv.2, ∀ c ∈ lv.1 ++ chs post, c.1 ≠ q.1
  cbp_post : ∀ c ∈ lv.1, ∀ q ∈ prs post, q.2 ≠ c.2
  c_notpost : ∀ c ∈ lv.1, ∀ c' ∈ chs post, c'.1 ≠ c.1
  chbr : ∀ c ∈ chs post, c.1 ∈ branchesOf sc

theorem childrenOfBp_nodup {ix : Idx} {sc : Sched} (h : WF ix sc) (p : Nat) : (childrenOfBp sc p).Nodup := by
  unfold childrenOfBp
  have h1 : ((pairsC sc).map (·.1)).Nodup := by
    have := h.ndB
    unfold branchesOf at this
    exact (List.nodup_append.mp this).2.1
  exact List.Nodup.sublist (List.Sublist.map _ List.filter_sublist) h1

theorem mem_childrenOfBp (sc : Sched) (c p : Nat) : c ∈ childrenOfBp sc p ↔ (c, p) ∈ pairsC sc := by
  unfold childrenOfBp pairsC
  simp only [List.mem_map, List.mem_filter, beq_iff_eq]
  constructor
  · rintro ⟨q, ⟨hq, rfl⟩, rfl⟩
    exact hq
  · intro hq
    exact ⟨(c, p), ⟨hq, rfl⟩, rfl⟩

theorem lvOK_of_wf {ix : Idx} {sc : Sched} (h : WF ix sc) {pre : List Lv} {lv : Lv} {post : List Lv}
    (hd : levels sc = pre ++ lv :: post) : LvOK ix sc pre lv post := by
  have hpc : pairsC sc = chs pre ++ (lv.1 ++ chs post) := by rw [h.pc, hd]; simp
  have hpp : pairsP sc = prs pre ++ (lv.2 ++ prs post) := by rw [h.pp, hd]; simp
  have hlvmem : lv ∈ levels sc := by rw [hd]; simp
  have hB : branchesOf sc = sc.roots ++ ((chs pre).map (·.1) ++ ((lv.1 ++ chs post).map (·.1))) := by
    unfold branchesOf; rw [hpc]; simp
  have hndB := h.ndB
  have hndC : ((pairsC sc).map (·.1)).Nodup := by
    have := h.ndB
    unfold branchesOf at this
    exact (List.nodup_append.mp this).2.1
  have hcin : ∀ c ∈ lv.1 ++ chs post, c ∈ pairsC sc := by
    intro c hc; rw [hpc]; exact List.mem_append_right _ hc
  have hpin : ∀ q ∈ lv.2, q ∈ pairsP sc := by
    intro q hq; rw [hpp]; exact List.mem_append_right _ (List.mem_append_left _ hq)
  -- parents of `pre ++ [lv]` are roots or children of `pre`
  have hchain : ∀ q ∈ prs pre ++ lv.2, q.1 ∈ sc.roots ++ (chs pre).map (·.1) := by
    intro q hq
    have hc := h.chain
    rw [hd] at hc
    have := chain_avail pre sc.roots lv post hc q (by simpa using hq)
    exact List.mem_append.mpr this
  have hsep : ∀ q ∈ prs pre ++ lv.2, ∀ c ∈ lv.1 ++ chs post, c.1 ≠ q.1 := by
    intro q hq c hc he
    have h1 := hchain q hq
    have h2 : c.1 ∈ (lv.1 ++ chs post).map (·.1) := List.mem_map_of_mem hc
    rw [hB, ← List.append_assoc] at hndB
    exact List.disjoint_of_nodup_append hndB (he ▸ h1) h2
  have hmpre : ∀ c ∈ chs pre, ∃ q ∈ prs pre, q.2 = c.2 :=
    match_chs pre (fun l hl => (h.mtch l (by rw [hd]; exact List.mem_append_left _ hl)).1)
  have hmpost : ∀ c ∈ chs post, ∃ q ∈ prs post, q.2 = c.2 :=
    match_chs post (fun l hl => (h.mtch l (by rw [hd]; exact List.mem_append_right _ (List.mem_cons_of_mem _ hl))).1)
  have hnd2 := h.ndP2
  rw [hpp] at hnd2
  simp only [List.map_append] at hnd2
  obtain ⟨hn2a, hn2b, hn2c⟩ := List.nodup_append.mp hnd2
  obtain ⟨hn2d, hn2e, hn2f⟩ := List.nodup_append.mp hn2b
  refine
    { cnd := ?_, cbr := ?_, cbp := ?_, cmem := ?_, cpar := (h.mtch lv hlvmem).1, pnd := ?_, pbr := ?_, pbp := ?_,
      pflt := ?_, pmem := hpin, pch := ?_, c_par := ?_, p_notch := ?_, cbp_post := ?_, c_notpost := ?_, chbr := ?_ }
  · rw [hpc] at hndC
    simp only [List.map_append] at hndC
    exact ((List.nodup_append.mp (List.nodup_append.mp hndC).2.1).1)
  · intro c hc
    unfold branchesOf
    exact List.mem_append_right _ (List.mem_map_of_mem (hcin c (List.mem_append_left _ hc)))
  · intro c hc
    unfold bpOfChild
    rw [find_fst_of_nodup _ hndC c (hcin c (List.mem_append_left _ hc))]
    rfl
  · intro c hc
    rw [mem_childrenOfBp]
    exact hcin c (List.mem_append_left _ hc)
  · have := h.ndP1
    rw [hpp] at this
    simp only [List.map_append] at this
    exact ((List.nodup_append.mp (List.nodup_append.mp this).2.1).1)
  · intro q hq
    have := hchain q (List.mem_append_right _ hq)
    rw [hB, ← List.append_assoc]
    exact List.mem_append_left _ this
  · intro q hq
    unfold bpOfParent
    have := find_fst_of_nodup _ h.ndP1 q (hpin q hq)
    unfold pairsP at this
    rw [this]
    rfl
  · intro q hq
    exact filter_snd_of_nodup _ h.ndP2 q (hpin q hq)
  · intro q hq c hc
    rw [mem_childrenOfBp, hpc] at hc
    have hq2 : q.2 ∈ lv.2.map (·.2) := List.mem_map_of_mem hq
    rcases List.mem_append.mp hc with hc | hc
    · obtain ⟨q', hq', he⟩ := hmpre _ hc
      exact absurd rfl (hn2c q.2 (he ▸ List.mem_map_of_mem hq') q.2 (List.mem_append_left _ hq2))
    · rcases List.mem_append.mp hc with hc | hc
      · exact List.mem_map.mpr ⟨_, hc, rfl⟩
      · obtain ⟨q', hq', he⟩ := hmpost _ hc
        exact absurd rfl (hn2f q.2 hq2 q.2 (he ▸ List.mem_map_of_mem hq'))
  · intro c hc
    rcases bpOfParent_cases sc c.1 with hn | ⟨q, hq, he⟩
    · exact Or.inl hn
    · right
      rw [hpp, ← List.append_assoc] at hq
      rcases List.mem_append.mp hq with hq | hq
      · exact absurd he.symm (hsep q hq c (List.mem_append_left _ hc))
      · exact ⟨q, hq, he⟩
  · intro q hq c hc
    exact hsep q (List.mem_append_right _ hq) c hc
  · intro c hc q hq he
    obtain ⟨q', hq', he'⟩ := (h.mtch lv hlvmem).1 c hc
    exact hn2f q'.2 (List.mem_map_of_mem hq') q.2 (List.mem_map_of_mem hq) (by rw [he', he])
  · intro c hc c' hc' he
    rw [hpc] at hndC
    simp only [List.map_append] at hndC
    have := (List.nodup_append.mp (List.nodup_append.mp hndC).2.1).2.2
    exact this c.1 (List.mem_map_of_mem hc) c'.1 (List.mem_map_of_mem hc') he.symm
  · intro c hc
    unfold branchesOf
    exact List.mem_append_right _ (List.mem_map_of_mem (hcin c (List.mem_append_right _ hc)))

variable {K : Type} [Field K]

/-! ### sums -/

theorem sumL_nil' : sumL ([] : List K) = 0 := rfl
theorem sumL_cons (a : K) (l : List K) : sumL (a :: l) = a + sumL l := rfl

theorem sumL_zero {α : Type} (l : List α) (f : α → K) (h : ∀ a ∈ l, f a = 0) : sumL (l.map f) = 0 := by
  induction l with
  | nil => rfl
  | cons a t ih =>
    simp only [List.map_cons, sumL_cons]
    rw [h a (by simp), ih (fun a' ha' => h a' (List.mem_cons_of_mem _ ha')), add_zero]

theorem sumL_congr {α : Type} (l : List α) (f g : α → K) (h : ∀ a ∈ l, f a = g a) : sumL (l.map f) = sumL (l.map g) := by
  rw [List.map_congr_left h]

theorem sumL_upd_notin {α : Type} (l : List α) (key : α → Nat) (g : α → K) (w : Nat → K) (b : Nat) (v : K)
    (h : b ∉ l.map key) :
    sumL (l.map (fun a => upd w b v (key a) * g a)) = sumL (l.map (fun a => w (key a) * g a)) := by
  apply sumL_congr
  intro a ha
  have : key a ≠ b := fun he => h (he ▸ List.mem_map_of_mem ha)
  rw [upd_ne _ _ _ _ this]

theorem sumL_upd_zero {α : Type} (l : List α) (key : α → Nat) (g : α → K) (w : Nat → K) (b : Nat)
    (hn : (l.map key).Nodup) (a : α) (ha : a ∈ l) (hk : key a = b) :
    sumL (l.map (fun a' => upd w b 0 (key a') * g a')) = sumL (l.map (fun a' => w (key a') * g a')) - w b * g a := by
  induction l with
  | nil => simp at ha
  | cons x t ih =>
    simp only [List.map_cons, List.nodup_cons] at hn
    simp only [List.map_cons, sumL_cons]
    by_cases hx : key x = b
    · have hnt : b ∉ t.map key := hx ▸ hn.1
      have hax : a = x := by
        rcases List.mem_cons.mp ha with h | h
        · exact h
        · exact absurd (hk ▸ List.mem_map_of_mem h) hnt
      rw [sumL_upd_notin t key g w b 0 hnt, hx, upd_same, hax]
      ring
    · have hat : a ∈ t := by
        rcases List.mem_cons.mp ha with h | h
        · exact absurd (h ▸ hk) hx
        · exact h
      rw [ih hn.2 hat, upd_ne _ _ _ _ hx]
      ring

/-! ### the Thomas row operations preserve the solution set of a slot -/

theorem thomas_row_iff (L dd uu yy gg xi xi1 p' q' lo' : K) (hp' : p' ≠ 0) (hR : lo' * xi + p' * xi1 = q') :
    (L + dd * xi + uu * xi1 + gg = yy) ↔ (L + (dd - uu * lo' / p') * xi + gg = yy - uu * q' / p') := by
  have key : L + (dd - uu * lo' / p') * xi + gg - (yy - uu * q' / p') = L + dd * xi + uu * xi1 + gg - yy := by
    rw [← hR]; field_simp; ring
  constructor
  · intro h
    have h' := sub_eq_zero.mpr h
    rw [← key] at h'
    exact sub_eq_zero.mp h'
  · intro h
    have h' := sub_eq_zero.mpr h
    rw [key] at h'
    exact sub_eq_zero.mp h'

theorem norm_row_iff (l p q a b : K) (hp : p ≠ 0) : (l / p * a + 1 * b + 0 + 0 = q / p) ↔ (l * a + p * b + 0 = q) := by
  have key : l / p * a + 1 * b + 0 + 0 - q / p = (l * a + p * b + 0 - q) / p := by field_simp; ring
  constructor
  · intro h
    have h' := sub_eq_zero.mpr h
    rw [key, div_eq_zero_iff] at h'
    rcases h' with h' | h'
    · exact sub_eq_zero.mp h'
    · exact absurd h' hp
  · intro h
    have h' := sub_eq_zero.mpr h
    apply sub_eq_zero.mp
    rw [key, h', zero_div]

section thomas
variable (d lo up y g x : Nat → K) (s e : Nat)

/-- reduced row `i` (Schur pivot on the diagonal, no upper entry) -/
def RedRow (i : Nat) : Prop :=
  (if s < i then lo i * x (i - 1) else 0) + (pe d lo up y e (e - i)).1 * x i + g i = (pe d lo up y e (e - i)).2
/-- original row `i` -/
def OldRow (i : Nat) : Prop :=
  (if s < i then lo i * x (i - 1) else 0) + d i * x i + (if i < e then up i * x (i + 1) else 0) + g i = y i

theorem old_red_last : OldRow d lo up y g x s e e ↔ RedRow d lo up y g x s e e := by
  unfold OldRow RedRow
  simp only [lt_irrefl, if_false, add_zero, Nat.sub_self, pe]

theorem old_red_step (hpiv : ∀ k, k ≤ e - s → (pe d lo up y e k).1 ≠ 0) (hg : ∀ i, s < i → i ≤ e → g i = 0)
    (i : Nat) (h1 : s ≤ i) (h2 : i < e) (hR : RedRow d lo up y g x s e (i + 1)) :
    OldRow d lo up y g x s e i ↔ RedRow d lo up y g x s e i := by
  unfold RedRow at hR ⊢
  unfold OldRow
  rw [if_pos (show s < i + 1 by omega), Nat.add_sub_cancel, hg (i + 1) (by omega) (by omega), add_zero] at hR
  rw [pe_sub d lo up y e i h2, if_pos h2]
  exact thomas_row_iff _ _ _ _ _ _ _ _ _ _ (hpiv (e - (i + 1)) (by omega)) hR

theorem old_iff_red (hse : s ≤ e) (hpiv : ∀ k, k ≤ e - s → (pe d lo up y e k).1 ≠ 0) (hg : ∀ i, s < i → i ≤ e → g i = 0) :
    (∀ i, s ≤ i → i ≤ e → OldRow d lo up y g x s e i) ↔ (∀ i, s ≤ i → i ≤ e → RedRow d lo up y g x s e i) := by
  constructor
  · intro h
    have : ∀ n i, i + n = e → s ≤ i → RedRow d lo up y g x s e i := by
      intro n
      induction n with
      | zero =>
        intro i hi hs
        have : i = e := by omega
        subst this
        exact (old_red_last d lo up y g x s i).mp (h i hs le_rfl)
      | succ n ih =>
        intro i hi hs
        have hR := ih (i + 1) (by omega) (by omega)
        exact (old_red_step d lo up y g x s e hpiv hg i hs (by omega) hR).mp (h i hs (by omega))
    intro i h1 h2
    exact this (e - i) i (by omega) h1
  · intro h i h1 h2
    rcases Nat.eq_or_lt_of_le h2 with he | he
    · subst he
      exact (old_red_last d lo up y g x s i).mpr (h i h1 le_rfl)
    · exact (old_red_step d lo up y g x s e hpiv hg i h1 he (h (i + 1) (by omega) (by omega))).mpr (h i h1 h2)

end thomas

/-- **Thomas triangulation preserves the solution set of the slot** (`g` : the branch-point terms, absent behind the first row) -/
theorem thomas_equiv (d lo up y d' lo' up' y' g x : Nat → K) (s e : Nat) (h : s < e)
    (hpiv : ∀ k, k ≤ e - s → (pe d lo up y e k).1 ≠ 0) (hg : ∀ i, s < i → i ≤ e → g i = 0)
    (h1 : d' s = (pe d lo up y e (e - s)).1) (h2 : y' s = (pe d lo up y e (e - s)).2)
    (h3 : ∀ i, s < i → i ≤ e → d' i = 1 ∧ lo' i = lo i / (pe d lo up y e (e - i)).1 ∧
      y' i = (pe d lo up y e (e - i)).2 / (pe d lo up y e (e - i)).1)
    (h4 : ∀ j, s ≤ j → j < e → up' j = 0) :
    (∀ i, s ≤ i → i ≤ e →
      (if s < i then lo' i * x (i - 1) else 0) + d' i * x i + (if i < e then up' i * x (i + 1) else 0) + g i = y' i) ↔
    (∀ i, s ≤ i → i ≤ e →
      (if s < i then lo i * x (i - 1) else 0) + d i * x i + (if i < e then up i * x (i + 1) else 0) + g i = y i) := by
  have hold := old_iff_red d lo up y g x s e (le_of_lt h) hpiv hg
  unfold OldRow at hold
  rw [hold]
  apply forall_congr'; intro i
  apply forall_congr'; intro hi1
  apply forall_congr'; intro hi2
  unfold RedRow
  have hup : (if i < e then up' i * x (i + 1) else 0) = 0 := by
    split
    · rw [h4 i hi1 ‹_›, zero_mul]
    · rfl
  rw [hup]
  rcases Nat.eq_or_lt_of_le hi1 with hs | hs
  · subst hs
    rw [h1, h2, add_zero]
    simp only [lt_irrefl, if_false]
  · obtain ⟨a1, a2, a3⟩ := h3 i hs hi2
    rw [a1, a2, a3, if_pos hs, if_pos hs, hg i hs hi2]
    rw [norm_row_iff _ _ _ _ _ (hpiv (e - i) (by omega))]

/-- **back substitution preserves the solution set of a triangulated slot** -/
theorem backsub_equiv (d lo y y' x : Nat → K) (s e : Nat) (hse : s ≤ e) (hd : d s ≠ 0) (h0 : y' s = y s / d s)
    (hrec : ∀ i, s < i → i ≤ e → y' i = y i - lo i * y' (i - 1)) :
    (∀ i, s ≤ i → i ≤ e → x i = y' i) ↔ (d s * x s = y s ∧ ∀ i, s < i → i ≤ e → lo i * x (i - 1) + x i = y i) := by
  constructor
  · intro h
    refine ⟨?_, ?_⟩
    · rw [h s le_rfl hse, h0]; field_simp
    · intro i h1 h2
      rw [h i (by omega) h2, h (i - 1) (by omega) (by omega), hrec i h1 h2]; ring
  · rintro ⟨ha, hb⟩
    have : ∀ n i, i = s + n → i ≤ e → x i = y' i := by
      intro n
      induction n with
      | zero =>
        intro i hi _
        have : i = s := by omega
        subst this
        rw [h0, eq_div_iff hd]; linear_combination ha
      | succ n ih =>
        intro i hi hie
        have := ih (i - 1) (by omega) (by omega)
        rw [hrec i (by omega) hie, ← this]
        linear_combination hb i (by omega) hie
    intro i h1 h2
    exact this (i - s) i (by omega) h2

/-! ### rows -/

def exC (sc : Sched) (st : St K) (z : Nat → K) (b : Nat) : K :=
  match bpOfChild sc b with | some p => st.condC b * z p | none => 0
def exP (sc : Sched) (st : St K) (z : Nat → K) (b : Nat) : K :=
  match bpOfParent sc b with | some p => st.condP b * z p | none => 0
/-- the branch-point terms of row `i` of branch `b` -/
def extra (ix : Idx) (sc : Sched) (st : St K) (z : Nat → K) (b i : Nat) : K :=
  (if i = ix.first b then exC sc st z b else 0) + (if i = ix.last b then exP sc st z b else 0)

theorem rowComp_eq (ix : Idx) (sc : Sched) (st : St K) (x z : Nat → K) (b i : Nat) :
    rowComp ix sc st x z b i =
      (if ix.first b < i then st.lowers i * x (i - 1) else 0) + st.diags i * x i
      + (if i < ix.paddedLast b then st.uppers i * x (i + 1) else 0) + extra ix sc st z b i := by
  exact add_assoc _ _ _

theorem exC_zero {sc : Sched} {st : St K} {z : Nat → K} {b : Nat} (h : st.condC b = 0 ∨ bpOfChild sc b = none) :
    exC sc st z b = 0 := by
  unfold exC
  rcases h with h | h
  · rw [h]; split <;> simp
  · rw [h]

theorem exP_zero {sc : Sched} {st : St K} {z : Nat → K} {b : Nat} (h : st.condP b = 0 ∨ bpOfParent sc b = none) :
    exP sc st z b = 0 := by
  unfold exP
  rcases h with h | h
  · rw [h]; split <;> simp
  · rw [h]

theorem extra_congr (ix : Idx) (sc : Sched) (st st' : St K) (z : Nat → K) (b i : Nat)
    (h1 : st'.condC b = st.condC b) (h2 : st'.condP b = st.condP b) :
    extra ix sc st' z b i = extra ix sc st z b i := by
  unfold extra exC exP
  rw [h1, h2]

theorem rowComp_congr (ix : Idx) (sc : Sched) (st st' : St K) (x z : Nat → K) (b i : Nat)
    (hl : st'.lowers i = st.lowers i) (hd : st'.diags i = st.diags i) (hu : st'.uppers i = st.uppers i)
    (h1 : st'.condC b = st.condC b) (h2 : st'.condP b = st.condP b) :
    rowComp ix sc st' x z b i = rowComp ix sc st x z b i := by
  unfold rowComp
  rw [hl, hd, hu, h1, h2]

theorem rowBp_congr (ix : Idx) (sc : Sched) (st st' : St K) (x z : Nat → K) (p : Nat)
    (h1 : st'.bpDiags = st.bpDiags) (h2 : st'.weightP = st.weightP) (h3 : st'.weightC = st.weightC) :
    rowBp ix sc st' x z p = rowBp ix sc st x z p := by
  unfold rowBp
  rw [h1, h2, h3]

/-- the slot of `b` is triangulated -/
def Tri (ix : Idx) (st : St K) (b : Nat) : Prop :=
  (∀ j, ix.first b ≤ j → j < ix.paddedLast b → st.uppers j = 0) ∧
  (∀ j, ix.first b < j → j ≤ ix.paddedLast b → st.diags j = 1) ∧ st.diags (ix.first b) ≠ 0

/-- the rows of the slot of `b` are `x i = solves i` -/
def Diag (ix : Idx) (sc : Sched) (st : St K) (b : Nat) : Prop :=
  (∀ j, ix.first b ≤ j → j ≤ ix.paddedLast b → st.diags j = 1) ∧
  (∀ j, ix.first b < j → j ≤ ix.paddedLast b → st.lowers j = 0) ∧
  (∀ j, ix.first b ≤ j → j < ix.paddedLast b → st.uppers j = 0) ∧
  (st.condC b = 0 ∨ bpOfChild sc b = none) ∧ (st.condP b = 0 ∨ bpOfParent sc b = none)

theorem rowComp_tri (ix : Idx) (sc : Sched) (st : St K) (x z : Nat → K) (b i : Nat)
    (hU : ∀ j, ix.first b ≤ j → j < ix.paddedLast b → st.uppers j = 0)
    (hcc : st.condC b = 0 ∨ bpOfChild sc b = none) (hcp : st.condP b = 0 ∨ bpOfParent sc b = none)
    (h1 : ix.first b ≤ i) :
    rowComp ix sc st x z b i = (if ix.first b < i then st.lowers i * x (i - 1) else 0) + st.diags i * x i := by
  rw [rowComp_eq]
  have hu : (if i < ix.paddedLast b then st.uppers i * x (i + 1) else 0) = 0 := by
    split
    · rw [hU i h1 ‹_›, zero_mul]
    · rfl
  have he : extra ix sc st z b i = 0 := by
    unfold extra
    rw [exC_zero hcc, exP_zero hcp]
    simp
  rw [hu, he, add_zero, add_zero]

theorem rowComp_diag (ix : Idx) (sc : Sched) (st : St K) (x z : Nat → K) (b i : Nat) (h : Diag ix sc st b)
    (h1 : ix.first b ≤ i) (h2 : i ≤ ix.paddedLast b) : rowComp ix sc st x z b i = x i := by
  obtain ⟨a1, a2, a3, a4, a5⟩ := h
  rw [rowComp_tri ix sc st x z b i a3 a4 a5 h1, a1 i h1 h2, one_mul]
  split
  · rw [a2 i ‹_› h2, zero_mul, zero_add]
  · rw [zero_add]

/-! ### `triangSlot` preserves the solution set -/

theorem triangSlot_rows_self (ix : Idx) (sc : Sched) (st : St K) (x z : Nat → K) (b : Nat)
    (hse : ix.first b ≤ ix.paddedLast b) (hpiv : SlotPiv st (ix.first b) (ix.paddedLast b))
    (hcp : st.condP b = 0 ∨ bpOfParent sc b = none) :
    (∀ i, ix.first b ≤ i → i ≤ ix.paddedLast b →
      rowComp ix sc (triangSlot st (ix.first b) (ix.paddedLast b)) x z b i =
        (triangSlot st (ix.first b) (ix.paddedLast b)).solves i) ↔
    (∀ i, ix.first b ≤ i → i ≤ ix.paddedLast b → rowComp ix sc st x z b i = st.solves i) := by
  rcases Nat.eq_or_lt_of_le hse with he | hlt
  · rw [triangSlot_single st _ _ (le_of_eq he.symm)]
  · obtain ⟨t1, t2, t3, t4⟩ := triangSlot_spec st _ _ hlt
    obtain ⟨-, -, b3, -, b5, -⟩ := triangSlot_bp st (ix.first b) (ix.paddedLast b)
    simp only [rowComp_eq]
    have hex : ∀ i, extra ix sc (triangSlot st (ix.first b) (ix.paddedLast b)) z b i = extra ix sc st z b i :=
      fun i => extra_congr ix sc _ _ z b i (by rw [b3]) (by rw [b5])
    simp only [hex]
    refine thomas_equiv st.diags st.lowers st.uppers st.solves _ _ _ _ (fun i => extra ix sc st z b i) x
      (ix.first b) (ix.paddedLast b) hlt hpiv ?_ t1 t2 ?_ t4
    · intro i h1 h2
      unfold extra
      rw [if_neg (by omega), exP_zero hcp]
      simp
    · intro i h1 h2
      have := t3 (ix.paddedLast b - i) (by omega)
      rw [show ix.paddedLast b - (ix.paddedLast b - i) = i by omega] at this
      exact this

theorem triangSlot_sat {ix : Idx} {sc : Sched} (hwf : WF ix sc) (st : St K) (x z : Nat → K) (b : Nat)
    (hb : b ∈ branchesOf sc) (hpiv : SlotPiv st (ix.first b) (ix.paddedLast b))
    (hcp : st.condP b = 0 ∨ bpOfParent sc b = none) :
    Sat ix sc (triangSlot st (ix.first b) (ix.paddedLast b)) x z ↔ Sat ix sc st x z := by
  obtain ⟨b1, b2, b3, b4, b5, b6⟩ := triangSlot_bp st (ix.first b) (ix.paddedLast b)
  have hs := hwf.slot b hb
  unfold Sat
  apply and_congr
  · apply forall_congr'; intro b'
    apply forall_congr'; intro hb'
    by_cases hbb : b' = b
    · subst hbb
      exact triangSlot_rows_self ix sc st x z b' (by omega) hpiv hcp
    · apply forall_congr'; intro i
      apply forall_congr'; intro h1
      apply forall_congr'; intro h2
      have hout := hwf.disj b' hb' b hb hbb i h1 h2
      obtain ⟨f1, f2, f3, f4⟩ := triangSlot_frame st (ix.first b) (ix.paddedLast b) i hout
      rw [rowComp_congr ix sc st _ x z b' i f2 f1 f3 (by rw [b3]) (by rw [b5]), f4]
  · apply forall_congr'; intro q
    apply forall_congr'; intro _
    rw [rowBp_congr ix sc st _ x z q.2 b1 b6 b4, b2]

/-! ### `backsubSlot` preserves the solution set -/

theorem backsubSlot_rows_self (ix : Idx) (sc : Sched) (st : St K) (x z : Nat → K) (b : Nat)
    (hse : ix.first b ≤ ix.paddedLast b) (hT : Tri ix st b)
    (hcc : st.condC b = 0 ∨ bpOfChild sc b = none) (hcp : st.condP b = 0 ∨ bpOfParent sc b = none) :
    (∀ i, ix.first b ≤ i → i ≤ ix.paddedLast b →
      rowComp ix sc (backsubSlot st (ix.first b) (ix.paddedLast b)) x z b i =
        (backsubSlot st (ix.first b) (ix.paddedLast b)).solves i) ↔
    (∀ i, ix.first b ≤ i → i ≤ ix.paddedLast b → rowComp ix sc st x z b i = st.solves i) := by
  obtain ⟨c0, crec, cd, cl, -, cu⟩ := backsubSlot_spec st (ix.first b) (ix.paddedLast b) hse
  obtain ⟨tU, tD, tP⟩ := hT
  have e1 := backsub_equiv st.diags st.lowers st.solves (backsubSlot st (ix.first b) (ix.paddedLast b)).solves x
    (ix.first b) (ix.paddedLast b) hse tP c0 crec
  have L : (∀ i, ix.first b ≤ i → i ≤ ix.paddedLast b →
      rowComp ix sc (backsubSlot st (ix.first b) (ix.paddedLast b)) x z b i =
        (backsubSlot st (ix.first b) (ix.paddedLast b)).solves i) ↔
      (∀ i, ix.first b ≤ i → i ≤ ix.paddedLast b → x i = (backsubSlot st (ix.first b) (ix.paddedLast b)).solves i) := by
    apply forall_congr'; intro i
    apply forall_congr'; intro h1
    apply forall_congr'; intro h2
    rw [rowComp_tri ix sc (backsubSlot st (ix.first b) (ix.paddedLast b)) x z b i (by rw [cu]; exact tU) hcc hcp h1,
      cd i h1 h2, one_mul]
    split
    · rw [cl i ‹_› h2, zero_mul, zero_add]
    · rw [zero_add]
  have R : (∀ i, ix.first b ≤ i → i ≤ ix.paddedLast b → rowComp ix sc st x z b i = st.solves i) ↔
      (st.diags (ix.first b) * x (ix.first b) = st.solves (ix.first b) ∧
        ∀ i, ix.first b < i → i ≤ ix.paddedLast b → st.lowers i * x (i - 1) + x i = st.solves i) := by
    constructor
    · intro h
      refine ⟨?_, ?_⟩
      · have := h _ le_rfl hse
        rw [rowComp_tri ix sc _ x z b _ tU hcc hcp le_rfl, if_neg (lt_irrefl _), zero_add] at this
        exact this
      · intro i h1 h2
        have := h i (by omega) h2
        rw [rowComp_tri ix sc _ x z b _ tU hcc hcp (by omega), if_pos h1, tD i h1 h2, one_mul] at this
        exact this
    · rintro ⟨ha, hb⟩ i h1 h2
      rw [rowComp_tri ix sc _ x z b _ tU hcc hcp h1]
      rcases Nat.eq_or_lt_of_le h1 with he | hl
      · subst he
        rw [if_neg (lt_irrefl _), zero_add]; exact ha
      · rw [if_pos hl, tD i hl h2, one_mul]; exact hb i hl h2
  rw [L, R, e1]

theorem backsubSlot_sat {ix : Idx} {sc : Sched} (hwf : WF ix sc) (st : St K) (x z : Nat → K) (b : Nat)
    (hb : b ∈ branchesOf sc) (hT : Tri ix st b)
    (hcc : st.condC b = 0 ∨ bpOfChild sc b = none) (hcp : st.condP b = 0 ∨ bpOfParent sc b = none) :
    Sat ix sc (backsubSlot st (ix.first b) (ix.paddedLast b)) x z ↔ Sat ix sc st x z := by
  have hs := hwf.slot b hb
  have hse : ix.first b ≤ ix.paddedLast b := by omega
  obtain ⟨-, -, -, -, cf, cu⟩ := backsubSlot_spec st (ix.first b) (ix.paddedLast b) hse
  unfold Sat
  apply and_congr
  · apply forall_congr'; intro b'
    apply forall_congr'; intro hb'
    by_cases hbb : b' = b
    · subst hbb
      exact backsubSlot_rows_self ix sc st x z b' hse hT hcc hcp
    · apply forall_congr'; intro i
      apply forall_congr'; intro h1
      apply forall_congr'; intro h2
      have hout := hwf.disj b' hb' b hb hbb i h1 h2
      obtain ⟨f1, f2, f3⟩ := cf i hout
      rw [rowComp_congr ix sc st _ x z b' i f3 f2 (by rw [cu]) rfl rfl, f1]
  · exact Iff.rfl

/-! ### the branch-point steps, one branch at a time, reading the current state -/

def eclStep (ix : Idx) (acc : St K) (bp : Nat × Nat) : St K :=
  { acc with
    bpDiags := upd acc.bpDiags bp.2
      (acc.bpDiags bp.2 + -(acc.weightC bp.1) / acc.diags (ix.first bp.1) * acc.condC bp.1)
    bpSolves := upd acc.bpSolves bp.2
      (acc.bpSolves bp.2 + -(acc.weightC bp.1) / acc.diags (ix.first bp.1) * acc.solves (ix.first bp.1))
    weightC := upd acc.weightC bp.1 0 }

def epuStep (ix : Idx) (acc : St K) (bp : Nat × Nat) : St K :=
  { acc with
    diags := upd acc.diags (ix.last bp.1)
      (acc.diags (ix.last bp.1) + -(acc.condP bp.1 / acc.bpDiags bp.2) * acc.weightP bp.1)
    solves := upd acc.solves (ix.last bp.1)
      (acc.solves (ix.last bp.1) + -(acc.condP bp.1 / acc.bpDiags bp.2) * acc.bpSolves bp.2)
    condP := upd acc.condP bp.1 0 }

def eplStep (ix : Idx) (acc : St K) (bp : Nat × Nat) : St K :=
  { acc with
    bpSolves := upd acc.bpSolves bp.2
      (acc.bpSolves bp.2 + -(acc.solves (ix.last bp.1)) * acc.weightP bp.1 / acc.diags (ix.last bp.1))
    weightP := upd acc.weightP bp.1 0 }

def ecuStep (ix : Idx) (acc : St K) (bp : Nat × Nat) : St K :=
  { acc with
    solves := upd acc.solves (ix.first bp.1)
      (acc.solves (ix.first bp.1) + -(acc.bpSolves bp.2) * acc.condC bp.1 / acc.bpDiags bp.2)
    condC := upd acc.condC bp.1 0 }

theorem ecl_eq_fold (ix : Idx) (cil : List (Nat × Nat)) (st : St K) (hn : (cil.map (·.1)).Nodup) :
    elimChildrenLower ix cil st = cil.foldl (eclStep ix) st := by
  unfold elimChildrenLower
  suffices h : ∀ (l : List (Nat × Nat)) (acc : St K), (l.map (·.1)).Nodup → acc.diags = st.diags → acc.condC = st.condC →
      acc.solves = st.solves → (∀ b ∈ l.map (·.1), acc.weightC b = st.weightC b) →
      l.foldl (fun acc (bp : Nat × Nat) =>
        { acc with
          bpDiags := upd acc.bpDiags bp.2 (acc.bpDiags bp.2 + -(st.weightC bp.1) / st.diags (ix.first bp.1) * st.condC bp.1)
          bpSolves := upd acc.bpSolves bp.2
            (acc.bpSolves bp.2 + -(st.weightC bp.1) / st.diags (ix.first bp.1) * st.solves (ix.first bp.1))
          weightC := upd acc.weightC bp.1 0 }) acc = l.foldl (eclStep ix) acc from
    h cil st hn rfl rfl rfl (fun _ _ => rfl)
  intro l
  induction l with
  | nil => intros; rfl
  | cons a t ih =>
    intro acc hn h1 h2 h3 h4
    simp only [List.map_cons, List.nodup_cons] at hn
    simp only [List.foldl_cons]
    have e : ({ acc with
          bpDiags := upd acc.bpDiags a.2 (acc.bpDiags a.2 + -(st.weightC a.1) / st.diags (ix.first a.1) * st.condC a.1)
          bpSolves := upd acc.bpSolves a.2
            (acc.bpSolves a.2 + -(st.weightC a.1) / st.diags (ix.first a.1) * st.solves (ix.first a.1))
          weightC := upd acc.weightC a.1 0 } : St K) = eclStep ix acc a := by
      unfold eclStep
      rw [← h4 a.1 (by simp), h1, h2, h3]
    rw [e]
    refine ih _ hn.2 h1 h2 h3 ?_
    intro b hb
    have : b ≠ a.1 := fun he => hn.1 (he ▸ hb)
    show upd acc.weightC a.1 0 b = _
    rw [upd_ne _ _ _ _ this]
    exact h4 b (List.mem_cons_of_mem _ hb)

theorem epu_eq_fold (ix : Idx) (pil : List (Nat × Nat)) (st : St K) (hn : (pil.map (·.1)).Nodup) :
    elimParentsUpper ix pil st = pil.foldl (epuStep ix) st := by
  unfold elimParentsUpper
  suffices h : ∀ (l : List (Nat × Nat)) (acc : St K), (l.map (·.1)).Nodup → acc.bpDiags = st.bpDiags →
      acc.weightP = st.weightP → acc.bpSolves = st.bpSolves → (∀ b ∈ l.map (·.1), acc.condP b = st.condP b) →
      l.foldl (fun acc (bp : Nat × Nat) =>
        { acc with
          diags := upd acc.diags (ix.last bp.1)
            (acc.diags (ix.last bp.1) + -(st.condP bp.1 / st.bpDiags bp.2) * st.weightP bp.1)
          solves := upd acc.solves (ix.last bp.1)
            (acc.solves (ix.last bp.1) + -(st.condP bp.1 / st.bpDiags bp.2) * st.bpSolves bp.2)
          condP := upd acc.condP bp.1 0 }) acc = l.foldl (epuStep ix) acc from
    h pil st hn rfl rfl rfl (fun _ _ => rfl)
  intro l
  induction l with
  | nil => intros; rfl
  | cons a t ih =>
    intro acc hn h1 h2 h3 h4
    simp only [List.map_cons, List.nodup_cons] at hn
    simp only [List.foldl_cons]
    have e : ({ acc with
          diags := upd acc.diags (ix.last a.1)
            (acc.diags (ix.last a.1) + -(st.condP a.1 / st.bpDiags a.2) * st.weightP a.1)
          solves := upd acc.solves (ix.last a.1)
            (acc.solves (ix.last a.1) + -(st.condP a.1 / st.bpDiags a.2) * st.bpSolves a.2)
          condP := upd acc.condP a.1 0 } : St K) = epuStep ix acc a := by
      unfold epuStep
      rw [← h4 a.1 (by simp), h1, h2, h3]
    rw [e]
    refine ih _ hn.2 h1 h2 h3 ?_
    intro b hb
    have : b ≠ a.1 := fun he => hn.1 (he ▸ hb)
    show upd acc.condP a.1 0 b = _
    rw [upd_ne _ _ _ _ this]
    exact h4 b (List.mem_cons_of_mem _ hb)

theorem epl_eq_fold (ix : Idx) (pil : List (Nat × Nat)) (st : St K) (hn : (pil.map (·.1)).Nodup) :
    elimParentsLower ix pil st = pil.foldl (eplStep ix) st := by
  unfold elimParentsLower
  suffices h : ∀ (l : List (Nat × Nat)) (acc : St K), (l.map (·.1)).Nodup → acc.solves = st.solves →
      acc.diags = st.diags → (∀ b ∈ l.map (·.1), acc.weightP b = st.weightP b) →
      l.foldl (fun acc (bp : Nat × Nat) =>
        { acc with
          bpSolves := upd acc.bpSolves bp.2
            (acc.bpSolves bp.2 + -(st.solves (ix.last bp.1)) * st.weightP bp.1 / st.diags (ix.last bp.1))
          weightP := upd acc.weightP bp.1 0 }) acc = l.foldl (eplStep ix) acc from
    h pil st hn rfl rfl (fun _ _ => rfl)
  intro l
  induction l with
  | nil => intros; rfl
  | cons a t ih =>
    intro acc hn h1 h2 h4
    simp only [List.map_cons, List.nodup_cons] at hn
    simp only [List.foldl_cons]
    have e : ({ acc with
          bpSolves := upd acc.bpSolves a.2
            (acc.bpSolves a.2 + -(st.solves (ix.last a.1)) * st.weightP a.1 / st.diags (ix.last a.1))
          weightP := upd acc.weightP a.1 0 } : St K) = eplStep ix acc a := by
      unfold eplStep
      rw [← h4 a.1 (by simp), h1, h2]
    rw [e]
    refine ih _ hn.2 h1 h2 ?_
    intro b hb
    have : b ≠ a.1 := fun he => hn.1 (he ▸ hb)
    show upd acc.weightP a.1 0 b = _
    rw [upd_ne _ _ _ _ this]
    exact h4 b (List.mem_cons_of_mem _ hb)

theorem ecu_eq_fold (ix : Idx) (cil : List (Nat × Nat)) (st : St K) (hn : (cil.map (·.1)).Nodup) :
    elimChildrenUpper ix cil st = cil.foldl (ecuStep ix) st := by
  unfold elimChildrenUpper
  suffices h : ∀ (l : List (Nat × Nat)) (acc : St K), (l.map (·.1)).Nodup → acc.bpSolves = st.bpSolves →
      acc.bpDiags = st.bpDiags → (∀ b ∈ l.map (·.1), acc.condC b = st.condC b) →
      l.foldl (fun acc (bp : Nat × Nat) =>
        { acc with
          solves := upd acc.solves (ix.first bp.1)
            (acc.solves (ix.first bp.1) + -(st.bpSolves bp.2) * st.condC bp.1 / st.bpDiags bp.2)
          condC := upd acc.condC bp.1 0 }) acc = l.foldl (ecuStep ix) acc from
    h cil st hn rfl rfl (fun _ _ => rfl)
  intro l
  induction l with
  | nil => intros; rfl
  | cons a t ih =>
    intro acc hn h1 h2 h4
    simp only [List.map_cons, List.nodup_cons] at hn
    simp only [List.foldl_cons]
    have e : ({ acc with
          solves := upd acc.solves (ix.first a.1)
            (acc.solves (ix.first a.1) + -(st.bpSolves a.2) * st.condC a.1 / st.bpDiags a.2)
          condC := upd acc.condC a.1 0 } : St K) = ecuStep ix acc a := by
      unfold ecuStep
      rw [← h4 a.1 (by simp), h1, h2]
    rw [e]
    refine ih _ hn.2 h1 h2 ?_
    intro b hb
    have : b ≠ a.1 := fun he => hn.1 (he ▸ hb)
    show upd acc.condC a.1 0 b = _
    rw [upd_ne _ _ _ _ this]
    exact h4 b (List.mem_cons_of_mem _ hb)

theorem WF.ndC {ix : Idx} {sc : Sched} (h : WF ix sc) : ((pairsC sc).map (·.1)).Nodup := by
  have := h.ndB
  unfold branchesOf at this
  exact (List.nodup_append.mp this).2.1

theorem childrenOfBp_unique {ix : Idx} {sc : Sched} (h : WF ix sc) (c p p' : Nat)
    (h1 : c ∈ childrenOfBp sc p) (h2 : c ∈ childrenOfBp sc p') : p = p' := by
  rw [mem_childrenOfBp] at h1 h2
  have := List.inj_on_of_nodup_map h.ndC h1 h2 rfl
  exact (Prod.mk.injEq _ _ _ _ ▸ this).2

/-! ### `eclStep` -/

theorem ecl_row (D S w cc d0 y xf zz sP sC : K) (hd : d0 ≠ 0) (hrow : d0 * xf + cc * zz = y) :
    ((D + -w / d0 * cc) * zz + sP + (sC - w * xf) = S + -w / d0 * y) ↔ (D * zz + sP + sC = S) := by
  have := elim_child_row D S w cc d0 y xf zz (sP + (sC - w * xf)) hd hrow
  constructor
  · intro h
    have h' := this.mpr (by linear_combination h)
    linear_combination h'
  · intro h
    have h' := this.mp (by linear_combination h)
    linear_combination h'

theorem eclStep_sat {ix : Idx} {sc : Sched} (hwf : WF ix sc) (st : St K) (x z : Nat → K) (c : Nat × Nat)
    (hbr : c.1 ∈ branchesOf sc) (hbp : bpOfChild sc c.1 = some c.2) (hmem : c.1 ∈ childrenOfBp sc c.2)
    (hT : Tri ix st c.1) (hcp : st.condP c.1 = 0 ∨ bpOfParent sc c.1 = none) :
    Sat ix sc (eclStep ix st c) x z ↔ Sat ix sc st x z := by
  obtain ⟨hU, -, hd0⟩ := hT
  unfold Sat
  have hA : (∀ b ∈ branchesOf sc, ∀ i, ix.first b ≤ i → i ≤ ix.paddedLast b →
      rowComp ix sc (eclStep ix st c) x z b i = (eclStep ix st c).solves i) ↔
      (∀ b ∈ branchesOf sc, ∀ i, ix.first b ≤ i → i ≤ ix.paddedLast b → rowComp ix sc st x z b i = st.solves i) := Iff.rfl
  rw [hA]
  apply and_congr_right
  intro hrows
  have hs := hwf.slot c.1 hbr
  have hrow : st.diags (ix.first c.1) * x (ix.first c.1) + st.condC c.1 * z c.2 = st.solves (ix.first c.1) := by
    have := hrows c.1 hbr (ix.first c.1) le_rfl (by omega)
    rw [rowComp_eq] at this
    have hu : (if ix.first c.1 < ix.paddedLast c.1 then st.uppers (ix.first c.1) * x (ix.first c.1 + 1) else 0) = 0 := by
      split
      · rw [hU _ le_rfl ‹_›, zero_mul]
      · rfl
    have hE : extra ix sc st z c.1 (ix.first c.1) = st.condC c.1 * z c.2 := by
      unfold extra
      rw [if_pos rfl, exP_zero hcp]
      simp [exC, hbp]
    rw [hu, hE, if_neg (lt_irrefl _)] at this
    linear_combination this
  apply forall_congr'; intro q
  apply forall_congr'; intro hq
  by_cases hq2 : q.2 = c.2
  · rw [hq2]
    have hsum := sumL_upd_zero (childrenOfBp sc c.2) id (fun c' => x (ix.first c')) st.weightC c.1
      (by simpa using childrenOfBp_nodup hwf c.2) c.1 hmem rfl
    simp only [id] at hsum
    unfold rowBp
    simp only [eclStep, upd_same]
    rw [hsum]
    exact ecl_row _ _ _ _ _ _ _ _ _ _ hd0 hrow
  · have hnotin : c.1 ∉ (childrenOfBp sc q.2).map id := by
      intro hin
      simp only [List.map_id] at hin
      exact hq2 (childrenOfBp_unique hwf c.1 _ _ hin hmem)
    have hsum := sumL_upd_notin (childrenOfBp sc q.2) id (fun c' => x (ix.first c')) st.weightC c.1 0 hnotin
    simp only [id] at hsum
    unfold rowBp
    simp only [eclStep, upd_ne _ _ _ _ hq2]
    rw [hsum]

/-! ### `epuStep` -/

theorem epu_row (L U E D S w c d y xl zp : K) (hD : D ≠ 0) (hbp : D * zp + w * xl = S) :
    (L + (d + -(c / D) * w) * xl + U + E + 0 * zp = y + -(c / D) * S) ↔ (L + d * xl + U + E + c * zp = y) := by
  have := elim_parent_row D S w c d y xl zp (L + U + E) hD hbp
  constructor
  · intro h
    have h' := this.mpr (by linear_combination h)
    linear_combination h'
  · intro h
    have h' := this.mp (by linear_combination h)
    linear_combination h'

theorem epuStep_sat {ix : Idx} {sc : Sched} (hwf : WF ix sc) (st : St K) (x z : Nat → K) (q : Nat × Nat)
    (hbr : q.1 ∈ branchesOf sc) (hbp : bpOfParent sc q.1 = some q.2)
    (hflt : (pairsP sc).filter (·.2 == q.2) = [q]) (hmem : q ∈ pairsP sc) (hD : st.bpDiags q.2 ≠ 0)
    (hw : ∀ c ∈ childrenOfBp sc q.2, st.weightC c = 0) :
    Sat ix sc (epuStep ix st q) x z ↔ Sat ix sc st x z := by
  unfold Sat
  have hB : (∀ q' ∈ pairsP sc, rowBp ix sc (epuStep ix st q) x z q'.2 = (epuStep ix st q).bpSolves q'.2) ↔
      (∀ q' ∈ pairsP sc, rowBp ix sc st x z q'.2 = st.bpSolves q'.2) := Iff.rfl
  rw [hB]
  apply and_congr_left
  intro hbps
  have hbprow : st.bpDiags q.2 * z q.2 + st.weightP q.1 * x (ix.last q.1) = st.bpSolves q.2 := by
    have := hbps q hmem
    unfold rowBp at this
    rw [hflt, sumL_zero (childrenOfBp sc q.2) _ (fun c hc => by rw [hw c hc, zero_mul])] at this
    simp only [List.map_cons, List.map_nil, sumL_cons, sumL_nil'] at this
    linear_combination this
  have hs := hwf.slot q.1 hbr
  apply forall_congr'; intro b
  apply forall_congr'; intro hb
  apply forall_congr'; intro i
  apply forall_congr'; intro h1
  apply forall_congr'; intro h2
  by_cases hi : i = ix.last q.1
  · have hbq : b = q.1 := by
      by_contra hne
      have := hwf.disj b hb q.1 hbr hne i h1 h2
      omega
    subst hbq
    subst hi
    unfold rowComp
    simp only [epuStep, upd_same, if_true, hbp]
    exact epu_row _ _ _ _ _ _ _ _ _ _ _ hD hbprow
  · unfold rowComp
    by_cases hbq : b = q.1
    · subst hbq
      simp only [epuStep, upd_ne _ _ _ _ hi, if_neg hi]
    · simp only [epuStep, upd_ne _ _ _ _ hi, upd_ne _ _ _ _ hbq]

/-! ### `eplStep` -/

theorem eplStep_sat {ix : Idx} {sc : Sched} (hwf : WF ix sc) (st : St K) (x z : Nat → K) (q : Nat × Nat)
    (hbr : q.1 ∈ branchesOf sc) (hflt : (pairsP sc).filter (·.2 == q.2) = [q]) (hmem : q ∈ pairsP sc)
    (hDg : Diag ix sc st q.1) :
    Sat ix sc (eplStep ix st q) x z ↔ Sat ix sc st x z := by
  unfold Sat
  have hA : (∀ b ∈ branchesOf sc, ∀ i, ix.first b ≤ i → i ≤ ix.paddedLast b →
      rowComp ix sc (eplStep ix st q) x z b i = (eplStep ix st q).solves i) ↔
      (∀ b ∈ branchesOf sc, ∀ i, ix.first b ≤ i → i ≤ ix.paddedLast b → rowComp ix sc st x z b i = st.solves i) := Iff.rfl
  rw [hA]
  apply and_congr_right
  intro hrows
  have hs := hwf.slot q.1 hbr
  have hxl : x (ix.last q.1) = st.solves (ix.last q.1) := by
    have := hrows q.1 hbr (ix.last q.1) hs.1 hs.2
    rw [rowComp_diag ix sc st x z q.1 _ hDg hs.1 hs.2] at this
    exact this
  have hd1 : st.diags (ix.last q.1) = 1 := hDg.1 _ hs.1 hs.2
  apply forall_congr'; intro q'
  apply forall_congr'; intro hq'
  by_cases hq2 : q'.2 = q.2
  · rw [hq2]
    unfold rowBp
    rw [hflt]
    simp only [eplStep, upd_same, List.map_cons, List.map_nil, sumL_cons, sumL_nil', hd1, div_one, ← hxl]
    constructor
    · intro h; linear_combination h
    · intro h; linear_combination h
  · have hnotin : q.1 ∉ ((pairsP sc).filter (·.2 == q'.2)).map (·.1) := by
      intro hin
      obtain ⟨q'', hq'', he⟩ := List.mem_map.mp hin
      rw [List.mem_filter] at hq''
      have := List.inj_on_of_nodup_map hwf.ndP1 hq''.1 hmem he
      have h2 : q''.2 = q'.2 := by simpa using hq''.2
      rw [this] at h2
      exact hq2 h2.symm
    have hsum := sumL_upd_notin ((pairsP sc).filter (·.2 == q'.2)) (·.1) (fun q'' => x (ix.last q''.1)) st.weightP q.1 0 hnotin
    unfold rowBp
    simp only [eplStep, upd_ne _ _ _ _ hq2]
    rw [hsum]

/-! ### `ecuStep` -/

theorem ecu_row (L U E D S c d y xf zp : K) (hD : D ≠ 0) (hz : D * zp = S) :
    (L + d * xf + U + 0 * zp + E = y + -S * c / D) ↔ (L + d * xf + U + c * zp + E = y) := by
  have hz' : zp = S / D := by rw [eq_div_iff hD]; linear_combination hz
  rw [hz']
  constructor
  · intro h; linear_combination h
  · intro h; linear_combination h

theorem ecuStep_sat {ix : Idx} {sc : Sched} (hwf : WF ix sc) (st : St K) (x z : Nat → K) (c : Nat × Nat)
    (hbr : c.1 ∈ branchesOf sc) (hbp : bpOfChild sc c.1 = some c.2) (hq : ∃ q ∈ pairsP sc, q.2 = c.2)
    (hD : st.bpDiags c.2 ≠ 0) (hwP : ∀ q ∈ pairsP sc, st.weightP q.1 = 0 ∨ q.2 ≠ c.2)
    (hwC : ∀ c' ∈ childrenOfBp sc c.2, st.weightC c' = 0) :
    Sat ix sc (ecuStep ix st c) x z ↔ Sat ix sc st x z := by
  unfold Sat
  have hB : (∀ q' ∈ pairsP sc, rowBp ix sc (ecuStep ix st c) x z q'.2 = (ecuStep ix st c).bpSolves q'.2) ↔
      (∀ q' ∈ pairsP sc, rowBp ix sc st x z q'.2 = st.bpSolves q'.2) := Iff.rfl
  rw [hB]
  apply and_congr_left
  intro hbps
  have hz : st.bpDiags c.2 * z c.2 = st.bpSolves c.2 := by
    obtain ⟨q, hq, he⟩ := hq
    have := hbps q hq
    rw [he] at this
    unfold rowBp at this
    rw [sumL_zero (childrenOfBp sc c.2) _ (fun c' hc' => by rw [hwC c' hc', zero_mul]),
      sumL_zero (List.filter _ _) _ (fun q' hq' => by
        rw [List.mem_filter] at hq'
        rcases hwP q' hq'.1 with h | h
        · rw [h, zero_mul]
        · exact absurd (by simpa using hq'.2) h)] at this
    linear_combination this
  have hs := hwf.slot c.1 hbr
  apply forall_congr'; intro b
  apply forall_congr'; intro hb
  apply forall_congr'; intro i
  apply forall_congr'; intro h1
  apply forall_congr'; intro h2
  by_cases hi : i = ix.first c.1
  · have hbq : b = c.1 := by
      by_contra hne
      have := hwf.disj b hb c.1 hbr hne i h1 h2
      omega
    subst hbq
    subst hi
    unfold rowComp
    simp only [ecuStep, upd_same, if_true, hbp]
    exact ecu_row _ _ _ _ _ _ _ _ _ _ hD hz
  · unfold rowComp
    by_cases hbq : b = c.1
    · subst hbq
      simp only [ecuStep, upd_ne _ _ _ _ hi, if_neg hi]
    · simp only [ecuStep, upd_ne _ _ _ _ hi, upd_ne _ _ _ _ hbq]

/-! ### one level of Thomas triangulations -/

/-- the two states agree on the slot of `b` -/
def SlotEq (ix : Idx) (st st' : St K) (b : Nat) : Prop :=
  ∀ j, ix.first b ≤ j → j ≤ ix.paddedLast b →
    st'.diags j = st.diags j ∧ st'.lowers j = st.lowers j ∧ st'.uppers j = st.uppers j ∧ st'.solves j = st.solves j

/-- the two states agree on the branch-point arrays -/
def BpEq (st st' : St K) : Prop :=
  st'.bpDiags = st.bpDiags ∧ st'.bpSolves = st.bpSolves ∧ st'.condC = st.condC ∧ st'.weightC = st.weightC ∧
  st'.condP = st.condP ∧ st'.weightP = st.weightP

omit [Field K] in
theorem BpEq.refl (st : St K) : BpEq st st := ⟨rfl, rfl, rfl, rfl, rfl, rfl⟩
omit [Field K] in
theorem BpEq.trans {a b c : St K} (h1 : BpEq a b) (h2 : BpEq b c) : BpEq a c := by
  obtain ⟨a1, a2, a3, a4, a5, a6⟩ := h1
  obtain ⟨b1, b2, b3, b4, b5, b6⟩ := h2
  exact ⟨b1.trans a1, b2.trans a2, b3.trans a3, b4.trans a4, b5.trans a5, b6.trans a6⟩

omit [Field K] in
theorem SlotEq.refl (ix : Idx) (st : St K) (b : Nat) : SlotEq ix st st b := fun _ _ _ => ⟨rfl, rfl, rfl, rfl⟩
omit [Field K] in
theorem SlotEq.trans {ix : Idx} {a b c : St K} {br : Nat} (h1 : SlotEq ix a b br) (h2 : SlotEq ix b c br) :
    SlotEq ix a c br := by
  intro j hj1 hj2
  obtain ⟨a1, a2, a3, a4⟩ := h1 j hj1 hj2
  obtain ⟨b1, b2, b3, b4⟩ := h2 j hj1 hj2
  exact ⟨b1.trans a1, b2.trans a2, b3.trans a3, b4.trans a4⟩

theorem pe_congr (d lo up y d' lo' up' y' : Nat → K) (e : Nat) : ∀ k, k ≤ e →
    (∀ j, e - k ≤ j → j ≤ e → d' j = d j ∧ lo' j = lo j ∧ up' j = up j ∧ y' j = y j) →
    pe d' lo' up' y' e k = pe d lo up y e k := by
  intro k
  induction k with
  | zero =>
    intro _ h
    obtain ⟨a, -, -, b⟩ := h e (by omega) le_rfl
    simp only [pe, a, b]
  | succ k ih =>
    intro hk h
    have ih' := ih (by omega) (fun j h1 h2 => h j (by omega) h2)
    obtain ⟨a1, -, a3, a4⟩ := h (e - (k + 1)) le_rfl (by omega)
    obtain ⟨-, b2, -, -⟩ := h (e - (k + 1) + 1) (by omega) (by omega)
    simp only [pe]
    rw [ih', a1, a3, a4, b2]

theorem SlotPiv_congr {ix : Idx} {st st' : St K} {b : Nat} (h : SlotEq ix st st' b)
    (hse : ix.first b ≤ ix.paddedLast b)
    (hp : SlotPiv st (ix.first b) (ix.paddedLast b)) : SlotPiv st' (ix.first b) (ix.paddedLast b) := by
  intro k hk
  rw [pe_congr st.diags st.lowers st.uppers st.solves st'.diags st'.lowers st'.uppers st'.solves _ k (by omega)
    (fun j h1 h2 => h j (by omega) h2)]
  exact hp k hk

theorem Tri_congr {ix : Idx} {st st' : St K} {b : Nat} (h : SlotEq ix st st' b) (hse : ix.first b ≤ ix.paddedLast b)
    (hT : Tri ix st b) : Tri ix st' b := by
  obtain ⟨t1, t2, t3⟩ := hT
  refine ⟨?_, ?_, ?_⟩
  · intro j h1 h2
    rw [(h j h1 (by omega)).2.2.1]; exact t1 j h1 h2
  · intro j h1 h2
    rw [(h j (by omega) h2).1]; exact t2 j h1 h2
  · rw [(h _ le_rfl hse).1]; exact t3

theorem triangSlot_tri (ix : Idx) (st : St K) (b : Nat) (hse : ix.first b ≤ ix.paddedLast b)
    (hp : SlotPiv st (ix.first b) (ix.paddedLast b)) : Tri ix (triangSlot st (ix.first b) (ix.paddedLast b)) b := by
  rcases Nat.eq_or_lt_of_le hse with he | hlt
  · rw [triangSlot_single st _ _ (le_of_eq he.symm)]
    refine ⟨fun j h1 h2 => by omega, fun j h1 h2 => by omega, ?_⟩
    have := hp 0 (by omega)
    simp only [pe] at this
    rw [he]; exact this
  · obtain ⟨t1, -, t3, t4⟩ := triangSlot_spec st _ _ hlt
    refine ⟨t4, ?_, ?_⟩
    · intro j h1 h2
      have := (t3 (ix.paddedLast b - j) (by omega)).1
      rw [show ix.paddedLast b - (ix.paddedLast b - j) = j by omega] at this
      exact this
    · rw [t1]; exact hp _ le_rfl

theorem triangLevel_spec {ix : Idx} {sc : Sched} (hwf : WF ix sc) : ∀ (bs : List Nat) (acc : St K), bs.Nodup →
    (∀ b ∈ bs, b ∈ branchesOf sc ∧ SlotPiv acc (ix.first b) (ix.paddedLast b) ∧
      (acc.condP b = 0 ∨ bpOfParent sc b = none)) →
    (∀ x z, Sat ix sc (triangLevel ix bs acc) x z ↔ Sat ix sc acc x z) ∧
    (∀ b ∈ bs, Tri ix (triangLevel ix bs acc) b) ∧ BpEq acc (triangLevel ix bs acc) ∧
    (∀ b' ∈ branchesOf sc, b' ∉ bs → SlotEq ix acc (triangLevel ix bs acc) b') := by
  intro bs
  induction bs with
  | nil =>
    intro acc _ _
    exact ⟨fun _ _ => Iff.rfl, fun b hb => by simp at hb, BpEq.refl _, fun b' _ _ => SlotEq.refl ix acc b'⟩
  | cons b t ih =>
    intro acc hn hpre
    simp only [List.nodup_cons] at hn
    obtain ⟨hb, hpiv, hcp⟩ := hpre b (by simp)
    have hs := hwf.slot b hb
    have hse : ix.first b ≤ ix.paddedLast b := by omega
    have hbp := triangSlot_bp acc (ix.first b) (ix.paddedLast b)
    have hBp1 : BpEq acc (triangSlot acc (ix.first b) (ix.paddedLast b)) := hbp
    have hframe : ∀ b' ∈ branchesOf sc, b' ≠ b → SlotEq ix acc (triangSlot acc (ix.first b) (ix.paddedLast b)) b' := by
      intro b' hb' hne j h1 h2
      have hout := hwf.disj b' hb' b hb hne j h1 h2
      obtain ⟨f1, f2, f3, f4⟩ := triangSlot_frame acc (ix.first b) (ix.paddedLast b) j hout
      exact ⟨f1, f2, f3, f4⟩
    have hpre' : ∀ b' ∈ t, b' ∈ branchesOf sc ∧
        SlotPiv (triangSlot acc (ix.first b) (ix.paddedLast b)) (ix.first b') (ix.paddedLast b') ∧
        ((triangSlot acc (ix.first b) (ix.paddedLast b)).condP b' = 0 ∨ bpOfParent sc b' = none) := by
      intro b' hb't
      obtain ⟨h1, h2, h3⟩ := hpre b' (List.mem_cons_of_mem _ hb't)
      have hne : b' ≠ b := fun he => hn.1 (he ▸ hb't)
      refine ⟨h1, SlotPiv_congr (hframe b' h1 hne) (by have := hwf.slot b' h1; omega) h2, ?_⟩
      rw [hbp.2.2.2.2.1]; exact h3
    obtain ⟨i1, i2, i3, i4⟩ := ih (triangSlot acc (ix.first b) (ix.paddedLast b)) hn.2 hpre'
    have hfold : triangLevel ix (b :: t) acc = triangLevel ix t (triangSlot acc (ix.first b) (ix.paddedLast b)) := rfl
    rw [hfold]
    refine ⟨?_, ?_, hBp1.trans i3, ?_⟩
    · intro x z
      rw [i1 x z]
      exact triangSlot_sat hwf acc x z b hb hpiv hcp
    · intro b' hb'
      rcases List.mem_cons.mp hb' with he | hb't
      · subst he
        exact Tri_congr (i4 b' hb hn.1) hse (triangSlot_tri ix acc b' hse hpiv)
      · exact i2 b' hb't
    · intro b' hb' hnot
      simp only [List.mem_cons, not_or] at hnot
      exact (hframe b' hb' hnot.1).trans (i4 b' hb' hnot.2)

/-! ### one level of back substitutions -/

/-- what every step of the back-substitution pass preserves -/
def Mono2 (ix : Idx) (sc : Sched) (a b : St K) : Prop :=
  (∀ br, Diag ix sc a br → Diag ix sc b br) ∧ (∀ br, Tri ix a br → Tri ix b br) ∧
  (∀ br, a.weightP br = 0 → b.weightP br = 0) ∧ (∀ br, a.condC br = 0 → b.condC br = 0) ∧
  b.condP = a.condP ∧ b.bpDiags = a.bpDiags ∧ b.weightC = a.weightC

theorem Mono2.refl (ix : Idx) (sc : Sched) (a : St K) : Mono2 ix sc a a :=
  ⟨fun _ h => h, fun _ h => h, fun _ h => h, fun _ h => h, rfl, rfl, rfl⟩
theorem Mono2.trans {ix : Idx} {sc : Sched} {a b c : St K} (h1 : Mono2 ix sc a b) (h2 : Mono2 ix sc b c) :
    Mono2 ix sc a c := by
  obtain ⟨a1, a2, a3, a4, a5, a6, a7⟩ := h1
  obtain ⟨b1, b2, b3, b4, b5, b6, b7⟩ := h2
  exact ⟨fun br h => b1 br (a1 br h), fun br h => b2 br (a2 br h), fun br h => b3 br (a3 br h),
    fun br h => b4 br (a4 br h), b5.trans a5, b6.trans a6, b7.trans a7⟩

theorem backsubSlot_mono (ix : Idx) (sc : Sched) (st : St K) (s e : Nat) : Mono2 ix sc st (backsubSlot st s e) := by
  refine ⟨?_, ?_, fun _ h => h, fun _ h => h, rfl, rfl, rfl⟩
  · rintro br ⟨d1, d2, d3, d4, d5⟩
    refine ⟨?_, ?_, d3, d4, d5⟩
    · intro j h1 h2
      show (if s ≤ j ∧ j ≤ e then (1 : K) else st.diags j) = 1
      split
      · rfl
      · exact d1 j h1 h2
    · intro j h1 h2
      show (if s < j ∧ j ≤ e then (0 : K) else st.lowers j) = 0
      split
      · rfl
      · exact d2 j h1 h2
  · rintro br ⟨t1, t2, t3⟩
    refine ⟨t1, ?_, ?_⟩
    · intro j h1 h2
      show (if s ≤ j ∧ j ≤ e then (1 : K) else st.diags j) = 1
      split
      · rfl
      · exact t2 j h1 h2
    · show (if s ≤ ix.first br ∧ ix.first br ≤ e then (1 : K) else st.diags (ix.first br)) ≠ 0
      split
      · exact one_ne_zero
      · exact t3

theorem backsubSlot_diag (ix : Idx) (sc : Sched) (st : St K) (b : Nat) (hT : Tri ix st b)
    (hcc : st.condC b = 0 ∨ bpOfChild sc b = none) (hcp : st.condP b = 0 ∨ bpOfParent sc b = none) :
    Diag ix sc (backsubSlot st (ix.first b) (ix.paddedLast b)) b := by
  refine ⟨?_, ?_, hT.1, hcc, hcp⟩
  · intro j h1 h2
    show (if ix.first b ≤ j ∧ j ≤ ix.paddedLast b then (1 : K) else st.diags j) = 1
    rw [if_pos ⟨h1, h2⟩]
  · intro j h1 h2
    show (if ix.first b < j ∧ j ≤ ix.paddedLast b then (0 : K) else st.lowers j) = 0
    rw [if_pos ⟨h1, h2⟩]

theorem backsubLevel_spec {ix : Idx} {sc : Sched} (hwf : WF ix sc) : ∀ (bs : List Nat) (acc : St K),
    (∀ b ∈ bs, b ∈ branchesOf sc ∧ Tri ix acc b ∧ (acc.condC b = 0 ∨ bpOfChild sc b = none) ∧
      (acc.condP b = 0 ∨ bpOfParent sc b = none)) →
    (∀ x z, Sat ix sc (backsubLevel ix bs acc) x z ↔ Sat ix sc acc x z) ∧
    (∀ b ∈ bs, Diag ix sc (backsubLevel ix bs acc) b) ∧ Mono2 ix sc acc (backsubLevel ix bs acc) := by
  intro bs
  induction bs with
  | nil =>
    intro acc _
    exact ⟨fun _ _ => Iff.rfl, fun b hb => by simp at hb, Mono2.refl ix sc acc⟩
  | cons b t ih =>
    intro acc hpre
    obtain ⟨hb, hT, hcc, hcp⟩ := hpre b (by simp)
    have hm := backsubSlot_mono ix sc acc (ix.first b) (ix.paddedLast b)
    have hpre' : ∀ b' ∈ t, b' ∈ branchesOf sc ∧ Tri ix (backsubSlot acc (ix.first b) (ix.paddedLast b)) b' ∧
        ((backsubSlot acc (ix.first b) (ix.paddedLast b)).condC b' = 0 ∨ bpOfChild sc b' = none) ∧
        ((backsubSlot acc (ix.first b) (ix.paddedLast b)).condP b' = 0 ∨ bpOfParent sc b' = none) := by
      intro b' hb't
      obtain ⟨h1, h2, h3, h4⟩ := hpre b' (List.mem_cons_of_mem _ hb't)
      exact ⟨h1, hm.2.1 b' h2, h3, h4⟩
    obtain ⟨i1, i2, i3⟩ := ih (backsubSlot acc (ix.first b) (ix.paddedLast b)) hpre'
    have hfold : backsubLevel ix (b :: t) acc = backsubLevel ix t (backsubSlot acc (ix.first b) (ix.paddedLast b)) := rfl
    rw [hfold]
    refine ⟨?_, ?_, hm.trans i3⟩
    · intro x z
      rw [i1 x z]
      exact backsubSlot_sat hwf acc x z b hb hT hcc hcp
    · intro b' hb'
      rcases List.mem_cons.mp hb' with he | hb't
      · subst he
        exact i3.1 b' (backsubSlot_diag ix sc acc b' hT hcc hcp)
      · exact i2 b' hb't

/-! ### folds of branch-point steps -/

theorem foldl_sat {α : Type} {ix : Idx} {sc : Sched} (f : St K → α → St K) (Pre : St K → α → Prop)
    (hstab : ∀ acc a a', Pre acc a' → Pre (f acc a) a')
    (hsat : ∀ acc a, Pre acc a → ∀ x z, Sat ix sc (f acc a) x z ↔ Sat ix sc acc x z) :
    ∀ (l : List α) (acc : St K), (∀ a ∈ l, Pre acc a) → ∀ x z, Sat ix sc (l.foldl f acc) x z ↔ Sat ix sc acc x z := by
  intro l
  induction l with
  | nil => intro acc _ x z; exact Iff.rfl
  | cons a t ih =>
    intro acc hpre x z
    rw [List.foldl_cons, ih (f acc a) (fun a' ha' => hstab acc a a' (hpre a' (List.mem_cons_of_mem _ ha'))) x z]
    exact hsat acc a (hpre a (by simp)) x z

theorem foldl_mono2 {α : Type} {ix : Idx} {sc : Sched} (f : St K → α → St K)
    (h : ∀ acc a, Mono2 ix sc acc (f acc a)) : ∀ (l : List α) (acc : St K), Mono2 ix sc acc (l.foldl f acc) := by
  intro l
  induction l with
  | nil => intro acc; exact Mono2.refl ix sc acc
  | cons a t ih => intro acc; exact (h acc a).trans (ih (f acc a))

theorem upd_zero_mono (f : Nat → K) (i j : Nat) (h : f j = 0) : upd f i 0 j = 0 := by
  unfold upd; split
  · rfl
  · exact h

/-! #### `elimChildrenLower` -/

theorem eclFold_frame (ix : Idx) : ∀ (l : List (Nat × Nat)) (acc : St K),
    (l.foldl (eclStep ix) acc).diags = acc.diags ∧ (l.foldl (eclStep ix) acc).lowers = acc.lowers ∧
    (l.foldl (eclStep ix) acc).uppers = acc.uppers ∧ (l.foldl (eclStep ix) acc).solves = acc.solves ∧
    (l.foldl (eclStep ix) acc).condC = acc.condC ∧ (l.foldl (eclStep ix) acc).condP = acc.condP ∧
    (l.foldl (eclStep ix) acc).weightP = acc.weightP ∧
    (∀ b ∈ l.map (·.1), (l.foldl (eclStep ix) acc).weightC b = 0) ∧
    (∀ b, acc.weightC b = 0 → (l.foldl (eclStep ix) acc).weightC b = 0) ∧
    (∀ p, p ∉ l.map (·.2) → (l.foldl (eclStep ix) acc).bpDiags p = acc.bpDiags p) := by
  intro l
  induction l with
  | nil => intro acc; exact ⟨rfl, rfl, rfl, rfl, rfl, rfl, rfl, fun b hb => by simp at hb, fun _ h => h, fun _ _ => rfl⟩
  | cons a t ih =>
    intro acc
    obtain ⟨i1, i2, i3, i4, i5, i6, i7, i8, i9, i10⟩ := ih (eclStep ix acc a)
    rw [List.foldl_cons]
    refine ⟨i1, i2, i3, i4, i5, i6, i7, ?_, ?_, ?_⟩
    · intro b hb
      simp only [List.map_cons, List.mem_cons] at hb
      rcases hb with he | hb
      · exact i9 b (by rw [he]; exact upd_same _ _ _)
      · exact i8 b hb
    · intro b hb
      exact i9 b (upd_zero_mono _ _ _ hb)
    · intro p hp
      simp only [List.map_cons, List.mem_cons, not_or] at hp
      rw [i10 p hp.2]
      exact upd_ne _ _ _ _ hp.1

theorem eclFold_sat {ix : Idx} {sc : Sched} (hwf : WF ix sc) (l : List (Nat × Nat)) (acc : St K)
    (hpre : ∀ c ∈ l, c.1 ∈ branchesOf sc ∧ bpOfChild sc c.1 = some c.2 ∧ c.1 ∈ childrenOfBp sc c.2 ∧
      Tri ix acc c.1 ∧ (acc.condP c.1 = 0 ∨ bpOfParent sc c.1 = none)) (x z : Nat → K) :
    Sat ix sc (l.foldl (eclStep ix) acc) x z ↔ Sat ix sc acc x z :=
  foldl_sat (eclStep ix)
    (fun acc c => c.1 ∈ branchesOf sc ∧ bpOfChild sc c.1 = some c.2 ∧ c.1 ∈ childrenOfBp sc c.2 ∧
      Tri ix acc c.1 ∧ (acc.condP c.1 = 0 ∨ bpOfParent sc c.1 = none))
    (fun _ _ _ h => h)
    (fun acc c h x z => eclStep_sat hwf acc x z c h.1 h.2.1 h.2.2.1 h.2.2.2.1 h.2.2.2.2) l acc hpre x z

/-! #### `elimParentsUpper` -/

theorem epuFold_frame (ix : Idx) : ∀ (l : List (Nat × Nat)) (acc : St K),
    (l.foldl (epuStep ix) acc).lowers = acc.lowers ∧ (l.foldl (epuStep ix) acc).uppers = acc.uppers ∧
    (l.foldl (epuStep ix) acc).bpDiags = acc.bpDiags ∧ (l.foldl (epuStep ix) acc).bpSolves = acc.bpSolves ∧
    (l.foldl (epuStep ix) acc).condC = acc.condC ∧ (l.foldl (epuStep ix) acc).weightC = acc.weightC ∧
    (l.foldl (epuStep ix) acc).weightP = acc.weightP ∧
    (∀ b ∈ l.map (·.1), (l.foldl (epuStep ix) acc).condP b = 0) ∧
    (∀ b, acc.condP b = 0 → (l.foldl (epuStep ix) acc).condP b = 0) := by
  intro l
  induction l with
  | nil => intro acc; exact ⟨rfl, rfl, rfl, rfl, rfl, rfl, rfl, fun b hb => by simp at hb, fun _ h => h⟩
  | cons a t ih =>
    intro acc
    obtain ⟨i1, i2, i3, i4, i5, i6, i7, i8, i9⟩ := ih (epuStep ix acc a)
    rw [List.foldl_cons]
    refine ⟨i1, i2, i3, i4, i5, i6, i7, ?_, ?_⟩
    · intro b hb
      simp only [List.map_cons, List.mem_cons] at hb
      rcases hb with he | hb
      · exact i9 b (by rw [he]; exact upd_same _ _ _)
      · exact i8 b hb
    · intro b hb
      exact i9 b (upd_zero_mono _ _ _ hb)

theorem epuStep_tri {ix : Idx} {sc : Sched} (hwf : WF ix sc) (acc : St K) (q : Nat × Nat) (b : Nat)
    (hq : q.1 ∈ branchesOf sc) (hb : b ∈ branchesOf sc) (hne : q.1 ≠ b) (hT : Tri ix acc b) :
    Tri ix (epuStep ix acc q) b := by
  obtain ⟨t1, t2, t3⟩ := hT
  have hs := hwf.slot q.1 hq
  have hs' := hwf.slot b hb
  have hout := hwf.disj q.1 hq b hb hne (ix.last q.1) hs.1 hs.2
  refine ⟨t1, ?_, ?_⟩
  · intro j h1 h2
    show upd acc.diags (ix.last q.1) _ j = 1
    rw [upd_ne _ _ _ _ (by omega)]
    exact t2 j h1 h2
  · show upd acc.diags (ix.last q.1) _ (ix.first b) ≠ 0
    rw [upd_ne _ _ _ _ (by omega)]
    exact t3

theorem epuFold_tri {ix : Idx} {sc : Sched} (hwf : WF ix sc) (b : Nat) (hb : b ∈ branchesOf sc) :
    ∀ (l : List (Nat × Nat)) (acc : St K), (∀ q ∈ l, q.1 ∈ branchesOf sc ∧ q.1 ≠ b) → Tri ix acc b →
    Tri ix (l.foldl (epuStep ix) acc) b := by
  intro l
  induction l with
  | nil => intro acc _ h; exact h
  | cons a t ih =>
    intro acc hpre hT
    rw [List.foldl_cons]
    obtain ⟨h1, h2⟩ := hpre a (by simp)
    exact ih _ (fun q hq => hpre q (List.mem_cons_of_mem _ hq)) (epuStep_tri hwf acc a b h1 hb h2 hT)

theorem epuFold_sat {ix : Idx} {sc : Sched} (hwf : WF ix sc) (l : List (Nat × Nat)) (acc : St K)
    (hpre : ∀ q ∈ l, q.1 ∈ branchesOf sc ∧ bpOfParent sc q.1 = some q.2 ∧
      (pairsP sc).filter (·.2 == q.2) = [q] ∧ q ∈ pairsP sc ∧ acc.bpDiags q.2 ≠ 0 ∧
      (∀ c ∈ childrenOfBp sc q.2, acc.weightC c = 0)) (x z : Nat → K) :
    Sat ix sc (l.foldl (epuStep ix) acc) x z ↔ Sat ix sc acc x z :=
  foldl_sat (epuStep ix)
    (fun acc q => q.1 ∈ branchesOf sc ∧ bpOfParent sc q.1 = some q.2 ∧
      (pairsP sc).filter (·.2 == q.2) = [q] ∧ q ∈ pairsP sc ∧ acc.bpDiags q.2 ≠ 0 ∧
      (∀ c ∈ childrenOfBp sc q.2, acc.weightC c = 0))
    (fun _ _ _ h => h)
    (fun acc q h x z => epuStep_sat hwf acc x z q h.1 h.2.1 h.2.2.1 h.2.2.2.1 h.2.2.2.2.1 h.2.2.2.2.2) l acc hpre x z

/-! #### `elimParentsLower` -/

theorem eplStep_mono (ix : Idx) (sc : Sched) (acc : St K) (q : Nat × Nat) : Mono2 ix sc acc (eplStep ix acc q) :=
  ⟨fun _ h => h, fun _ h => h, fun _ h => upd_zero_mono _ _ _ h, fun _ h => h, rfl, rfl, rfl⟩

theorem eplFold_zero (ix : Idx) (sc : Sched) : ∀ (l : List (Nat × Nat)) (acc : St K),
    ∀ b ∈ l.map (·.1), (l.foldl (eplStep ix) acc).weightP b = 0 := by
  intro l
  induction l with
  | nil => intro acc b hb; simp at hb
  | cons a t ih =>
    intro acc b hb
    rw [List.foldl_cons]
    simp only [List.map_cons, List.mem_cons] at hb
    rcases hb with he | hb
    · have hm : Mono2 ix sc (eplStep ix acc a) (t.foldl (eplStep ix) (eplStep ix acc a)) :=
        foldl_mono2 _ (eplStep_mono ix _) t _
      exact hm.2.2.1 b (by rw [he]; exact upd_same _ _ _)
    · exact ih _ b hb

theorem eplFold_sat {ix : Idx} {sc : Sched} (hwf : WF ix sc) (l : List (Nat × Nat)) (acc : St K)
    (hpre : ∀ q ∈ l, q.1 ∈ branchesOf sc ∧ (pairsP sc).filter (·.2 == q.2) = [q] ∧ q ∈ pairsP sc ∧
      Diag ix sc acc q.1) (x z : Nat → K) :
    Sat ix sc (l.foldl (eplStep ix) acc) x z ↔ Sat ix sc acc x z :=
  foldl_sat (eplStep ix)
    (fun acc q => q.1 ∈ branchesOf sc ∧ (pairsP sc).filter (·.2 == q.2) = [q] ∧ q ∈ pairsP sc ∧ Diag ix sc acc q.1)
    (fun _ _ _ h => h)
    (fun acc q h x z => eplStep_sat hwf acc x z q h.1 h.2.1 h.2.2.1 h.2.2.2) l acc hpre x z

/-! #### `elimChildrenUpper` -/

theorem ecuStep_mono (ix : Idx) (sc : Sched) (acc : St K) (c : Nat × Nat) : Mono2 ix sc acc (ecuStep ix acc c) := by
  refine ⟨?_, fun _ h => h, fun _ h => h, fun _ h => upd_zero_mono _ _ _ h, rfl, rfl, rfl⟩
  rintro br ⟨d1, d2, d3, d4, d5⟩
  refine ⟨d1, d2, d3, ?_, d5⟩
  rcases d4 with h | h
  · exact Or.inl (upd_zero_mono _ _ _ h)
  · exact Or.inr h

theorem ecuFold_zero (ix : Idx) (sc : Sched) : ∀ (l : List (Nat × Nat)) (acc : St K),
    ∀ b ∈ l.map (·.1), (l.foldl (ecuStep ix) acc).condC b = 0 := by
  intro l
  induction l with
  | nil => intro acc b hb; simp at hb
  | cons a t ih =>
    intro acc b hb
    rw [List.foldl_cons]
    simp only [List.map_cons, List.mem_cons] at hb
    rcases hb with he | hb
    · have hm : Mono2 ix sc (ecuStep ix acc a) (t.foldl (ecuStep ix) (ecuStep ix acc a)) :=
        foldl_mono2 _ (ecuStep_mono ix _) t _
      exact hm.2.2.2.1 b (by rw [he]; exact upd_same _ _ _)
    · exact ih _ b hb

theorem ecuFold_sat {ix : Idx} {sc : Sched} (hwf : WF ix sc) (l : List (Nat × Nat)) (acc : St K)
    (hpre : ∀ c ∈ l, c.1 ∈ branchesOf sc ∧ bpOfChild sc c.1 = some c.2 ∧ (∃ q ∈ pairsP sc, q.2 = c.2) ∧
      acc.bpDiags c.2 ≠ 0 ∧ (∀ q ∈ pairsP sc, acc.weightP q.1 = 0 ∨ q.2 ≠ c.2) ∧
      (∀ c' ∈ childrenOfBp sc c.2, acc.weightC c' = 0)) (x z : Nat → K) :
    Sat ix sc (l.foldl (ecuStep ix) acc) x z ↔ Sat ix sc acc x z :=
  foldl_sat (ecuStep ix)
    (fun acc c => c.1 ∈ branchesOf sc ∧ bpOfChild sc c.1 = some c.2 ∧ (∃ q ∈ pairsP sc, q.2 = c.2) ∧
      acc.bpDiags c.2 ≠ 0 ∧ (∀ q ∈ pairsP sc, acc.weightP q.1 = 0 ∨ q.2 ≠ c.2) ∧
      (∀ c' ∈ childrenOfBp sc c.2, acc.weightC c' = 0))
    (fun _ _ _ h => h)
    (fun acc c h x z => ecuStep_sat hwf acc x z c h.1 h.2.1 h.2.2.1 h.2.2.2.1 h.2.2.2.2.1 h.2.2.2.2.2) l acc hpre x z

/-! ### the triangulation pass -/

/-- what holds after the levels `post` (the deepest ones) have been processed -/
structure Inv1 (ix : Idx) (post : List Lv) (s : St K) : Prop where
  condP0 : ∀ q ∈ prs post, s.condP q.1 = 0
  wC0 : ∀ c ∈ chs post, s.weightC c.1 = 0
  tri : ∀ c ∈ chs post, Tri ix s c.1
  bpd : ∀ q ∈ prs post, s.bpDiags q.2 ≠ 0

theorem Tri_of_eq {ix : Idx} {st st' : St K} {b : Nat} (hu : st'.uppers = st.uppers) (hd : st'.diags = st.diags)
    (h : Tri ix st b) : Tri ix st' b := by
  unfold Tri
  rw [hu, hd]
  exact h

theorem trLevel_spec {ix : Idx} {sc : Sched} (hwf : WF ix sc) {pre : List Lv} {lv : Lv} {post : List Lv}
    (hd : levels sc = pre ++ lv :: post) (s : St K) (hI : Inv1 ix post s)
    (hpiv : ∀ c ∈ lv.1, SlotPiv s (ix.first c.1) (ix.paddedLast c.1))
    (hbpd : ∀ q ∈ lv.2, (elimChildrenLower ix lv.1 (triangLevel ix (lv.1.map (·.1)) s)).bpDiags q.2 ≠ 0) :
    Inv1 ix (lv :: post) (trLevel ix lv s) ∧ ∀ x z, Sat ix sc (trLevel ix lv s) x z ↔ Sat ix sc s x z := by
  have L := lvOK_of_wf hwf hd
  rw [show trLevel ix lv s =
    elimParentsUpper ix lv.2 (elimChildrenLower ix lv.1 (triangLevel ix (lv.1.map (·.1)) s)) from rfl]
  -- step 1: the slots of the children
  have hpre1 : ∀ b ∈ lv.1.map (·.1), b ∈ branchesOf sc ∧ SlotPiv s (ix.first b) (ix.paddedLast b) ∧
      (s.condP b = 0 ∨ bpOfParent sc b = none) := by
    intro b hb
    obtain ⟨c, hc, rfl⟩ := List.mem_map.mp hb
    refine ⟨L.cbr c hc, hpiv c hc, ?_⟩
    rcases L.c_par c hc with h | ⟨q, hq, he⟩
    · exact Or.inr h
    · exact Or.inl (he ▸ hI.condP0 q hq)
  obtain ⟨s1, t1, ⟨e1, e2, e3, e4, e5, e6⟩, f1⟩ := triangLevel_spec hwf _ s L.cnd hpre1
  generalize triangLevel ix (lv.1.map (·.1)) s = a1 at hbpd s1 t1 e1 e2 e3 e4 e5 e6 f1 ⊢
  -- step 2: the children are folded into their branch points
  rw [ecl_eq_fold ix lv.1 a1 L.cnd] at hbpd ⊢
  obtain ⟨g1, g2, g3, g4, g5, g6, g7, g8, g9, g10⟩ := eclFold_frame ix lv.1 a1
  have hpre2 : ∀ c ∈ lv.1, c.1 ∈ branchesOf sc ∧ bpOfChild sc c.1 = some c.2 ∧ c.1 ∈ childrenOfBp sc c.2 ∧
      Tri ix a1 c.1 ∧ (a1.condP c.1 = 0 ∨ bpOfParent sc c.1 = none) := by
    intro c hc
    refine ⟨L.cbr c hc, L.cbp c hc, L.cmem c hc, t1 c.1 (List.mem_map_of_mem hc), ?_⟩
    rw [e5]
    exact (hpre1 c.1 (List.mem_map_of_mem hc)).2.2
  have s2 := eclFold_sat hwf lv.1 a1 hpre2
  generalize lv.1.foldl (eclStep ix) a1 = a2 at hbpd s2 g1 g2 g3 g4 g5 g6 g7 g8 g9 g10 ⊢
  -- step 3: the branch points are eliminated from the last rows of the parents
  rw [epu_eq_fold ix lv.2 a2 L.pnd]
  obtain ⟨h1, h2, h3, h4, h5, h6, h7, h8, h9⟩ := epuFold_frame ix lv.2 a2
  have hpre3 : ∀ q ∈ lv.2, q.1 ∈ branchesOf sc ∧ bpOfParent sc q.1 = some q.2 ∧
      (pairsP sc).filter (·.2 == q.2) = [q] ∧ q ∈ pairsP sc ∧ a2.bpDiags q.2 ≠ 0 ∧
      (∀ c ∈ childrenOfBp sc q.2, a2.weightC c = 0) := by
    intro q hq
    exact ⟨L.pbr q hq, L.pbp q hq, L.pflt q hq, L.pmem q hq, hbpd q hq, fun c hc => g8 c (L.pch q hq c hc)⟩
  have s3 := epuFold_sat hwf lv.2 a2 hpre3
  have htri : ∀ c ∈ lv.1 ++ chs post, Tri ix a1 c.1 → Tri ix (lv.2.foldl (epuStep ix) a2) c.1 := by
    intro c hc hT
    have hcb : c.1 ∈ branchesOf sc := by
      rcases List.mem_append.mp hc with h | h
      · exact L.cbr c h
      · exact L.chbr c h
    refine epuFold_tri hwf c.1 hcb lv.2 a2 (fun q hq => ⟨L.pbr q hq, (L.p_notch q hq c hc).symm⟩) ?_
    exact Tri_of_eq g3 g1 hT
  refine ⟨⟨?_, ?_, ?_, ?_⟩, ?_⟩
  · intro q hq
    rw [prs_cons] at hq
    rcases List.mem_append.mp hq with hq | hq
    · exact h8 q.1 (List.mem_map_of_mem hq)
    · exact h9 q.1 (by rw [g6, e5]; exact hI.condP0 q hq)
  · intro c hc
    rw [chs_cons] at hc
    rw [h6]
    rcases List.mem_append.mp hc with hc | hc
    · exact g8 c.1 (List.mem_map_of_mem hc)
    · exact g9 c.1 (by rw [e4]; exact hI.wC0 c hc)
  · intro c hc
    rw [chs_cons] at hc
    refine htri c hc ?_
    rcases List.mem_append.mp hc with hc | hc
    · exact t1 c.1 (List.mem_map_of_mem hc)
    · have hcb := L.chbr c hc
      have hs := hwf.slot c.1 hcb
      refine Tri_congr (f1 c.1 hcb ?_) (by omega) (hI.tri c hc)
      intro hin
      obtain ⟨c', hc', he⟩ := List.mem_map.mp hin
      exact L.c_notpost c' hc' c hc he.symm
  · intro q hq
    rw [prs_cons] at hq
    rw [h3]
    rcases List.mem_append.mp hq with hq | hq
    · exact hbpd q hq
    · rw [g10 q.2 ?_, e1]
      · exact hI.bpd q hq
      · intro hin
        obtain ⟨c, hc, he⟩ := List.mem_map.mp hin
        exact L.cbp_post c hc q hq he.symm
  · intro x z
    rw [s3 x z, s2 x z, s1 x z]

theorem PivLevels_append (ix : Idx) : ∀ (l1 l2 : List Lv) (st : St K),
    PivLevels ix (l1 ++ l2) st ↔ PivLevels ix l1 st ∧ PivLevels ix l2 (trLevels ix l1 st) := by
  intro l1
  induction l1 with
  | nil => intro l2 st; simp [PivLevels, trLevels]
  | cons a t ih =>
    intro l2 st
    simp only [List.cons_append, PivLevels, ih, trLevels, List.foldl_cons, and_assoc]

theorem trLevels_append (ix : Idx) (l1 l2 : List Lv) (st : St K) :
    trLevels ix (l1 ++ l2) st = trLevels ix l2 (trLevels ix l1 st) := by
  unfold trLevels
  rw [List.foldl_append]

theorem pass1 {ix : Idx} {sc : Sched} (hwf : WF ix sc) (st : St K) : ∀ (post pre : List Lv),
    levels sc = pre ++ post → PivLevels ix post.reverse st →
    Inv1 ix post (trLevels ix post.reverse st) ∧
      ∀ x z, Sat ix sc (trLevels ix post.reverse st) x z ↔ Sat ix sc st x z := by
  intro post
  induction post with
  | nil =>
    intro pre _ _
    exact ⟨⟨fun q hq => by simp at hq, fun q hq => by simp at hq, fun q hq => by simp at hq,
      fun q hq => by simp at hq⟩, fun _ _ => Iff.rfl⟩
  | cons lv post ih =>
    intro pre hd hpl
    rw [List.reverse_cons] at hpl ⊢
    rw [PivLevels_append] at hpl
    rw [trLevels_append]
    obtain ⟨hI, hsat⟩ := ih (pre ++ [lv]) (by rw [hd]; simp) hpl.1
    have h2 := hpl.2
    simp only [PivLevels] at h2
    obtain ⟨hpiv, hbpd, -⟩ := h2
    obtain ⟨r1, r2⟩ := trLevel_spec hwf hd _ hI hpiv hbpd
    refine ⟨r1, ?_⟩
    intro x z
    rw [← hsat x z]
    exact r2 x z

/-- the state between the two passes -/
structure End1 (ix : Idx) (sc : Sched) (s : St K) : Prop where
  tri : ∀ b ∈ branchesOf sc, Tri ix s b
  condP0 : ∀ q ∈ pairsP sc, s.condP q.1 = 0
  bpd : ∀ q ∈ pairsP sc, s.bpDiags q.2 ≠ 0
  wC0 : ∀ c ∈ pairsC sc, s.weightC c.1 = 0

theorem triangBranched_spec {ix : Idx} {sc : Sched} (hwf : WF ix sc) (st : St K) (hp : PivOK ix sc st) :
    End1 ix sc (triangBranched ix sc st) ∧
      ∀ x z, Sat ix sc (triangBranched ix sc st) x z ↔ Sat ix sc st x z := by
  rw [show triangBranched ix sc st = triangLevel ix sc.roots (trLevels ix (levels sc).reverse st) from rfl]
  obtain ⟨hI, hsat⟩ := pass1 hwf st (levels sc) [] rfl hp.1
  have hndB := hwf.ndB
  unfold branchesOf at hndB
  obtain ⟨hnr, -, hdisj⟩ := List.nodup_append.mp hndB
  have hpre : ∀ r ∈ sc.roots, r ∈ branchesOf sc ∧
      SlotPiv (trLevels ix (levels sc).reverse st) (ix.first r) (ix.paddedLast r) ∧
      ((trLevels ix (levels sc).reverse st).condP r = 0 ∨ bpOfParent sc r = none) := by
    intro r hr
    refine ⟨List.mem_append_left _ hr, hp.2 r hr, ?_⟩
    rcases bpOfParent_cases sc r with h | ⟨q, hq, he⟩
    · exact Or.inr h
    · rw [hwf.pp] at hq
      exact Or.inl (he ▸ hI.condP0 q hq)
  obtain ⟨s1, t1, ⟨e1, e2, e3, e4, e5, e6⟩, f1⟩ := triangLevel_spec hwf _ _ hnr hpre
  refine ⟨⟨?_, ?_, ?_, ?_⟩, ?_⟩
  · intro b hb
    rcases List.mem_append.mp hb with hr | hc
    · exact t1 b hr
    · obtain ⟨c, hcm, rfl⟩ := List.mem_map.mp hc
      have hs := hwf.slot c.1 hb
      refine Tri_congr (f1 c.1 hb ?_) (by omega) (hI.tri c (hwf.pc ▸ hcm))
      intro hin
      exact hdisj c.1 hin c.1 (List.mem_map_of_mem hcm) rfl
  · intro q hq
    rw [e5]; exact hI.condP0 q (hwf.pp ▸ hq)
  · intro q hq
    rw [e1]; exact hI.bpd q (hwf.pp ▸ hq)
  · intro c hc
    rw [e4]; exact hI.wC0 c (hwf.pc ▸ hc)
  · intro x z
    rw [s1 x z, hsat x z]

/-! ### the back-substitution pass -/

theorem End1_mono {ix : Idx} {sc : Sched} {a b : St K} (hm : Mono2 ix sc a b) (h : End1 ix sc a) : End1 ix sc b := by
  obtain ⟨-, m2, -, -, m5, m6, m7⟩ := hm
  exact ⟨fun br hbr => m2 br (h.tri br hbr), fun q hq => by rw [m5]; exact h.condP0 q hq,
    fun q hq => by rw [m6]; exact h.bpd q hq, fun c hc => by rw [m7]; exact h.wC0 c hc⟩

/-- one level of `backsubBranched` -/
def step2 (ix : Idx) (acc : St K) (lv : Lv) : St K :=
  backsubLevel ix (lv.1.map (·.1)) (elimChildrenUpper ix lv.1 (elimParentsLower ix lv.2 acc))

theorem step2_spec {ix : Idx} {sc : Sched} (hwf : WF ix sc) {pre : List Lv} {lv : Lv} {post : List Lv}
    (hd : levels sc = pre ++ lv :: post) (acc : St K) (hG : End1 ix sc acc) (hav : ∀ q ∈ lv.2, Diag ix sc acc q.1) :
    (∀ x z, Sat ix sc (step2 ix acc lv) x z ↔ Sat ix sc acc x z) ∧ (∀ c ∈ lv.1, Diag ix sc (step2 ix acc lv) c.1) ∧
    (∀ q ∈ lv.2, (step2 ix acc lv).weightP q.1 = 0) ∧ Mono2 ix sc acc (step2 ix acc lv) := by
  have L := lvOK_of_wf hwf hd
  unfold step2
  -- step 1: the parents' values leave the branch-point rows
  rw [epl_eq_fold ix lv.2 acc L.pnd]
  have m1 : Mono2 ix sc acc (lv.2.foldl (eplStep ix) acc) := foldl_mono2 _ (eplStep_mono ix sc) lv.2 acc
  have z1 := eplFold_zero ix sc lv.2 acc
  have s1 := eplFold_sat hwf lv.2 acc (fun q hq => ⟨L.pbr q hq, L.pflt q hq, L.pmem q hq, hav q hq⟩)
  generalize lv.2.foldl (eplStep ix) acc = b1 at m1 z1 s1 ⊢
  have hG1 := End1_mono m1 hG
  -- step 2: the branch-point values leave the first rows of the children
  rw [ecu_eq_fold ix lv.1 b1 L.cnd]
  have m2 : Mono2 ix sc b1 (lv.1.foldl (ecuStep ix) b1) := foldl_mono2 _ (ecuStep_mono ix sc) lv.1 b1
  have z2 := ecuFold_zero ix sc lv.1 b1
  have hpre2 : ∀ c ∈ lv.1, c.1 ∈ branchesOf sc ∧ bpOfChild sc c.1 = some c.2 ∧ (∃ q ∈ pairsP sc, q.2 = c.2) ∧
      b1.bpDiags c.2 ≠ 0 ∧ (∀ q ∈ pairsP sc, b1.weightP q.1 = 0 ∨ q.2 ≠ c.2) ∧
      (∀ c' ∈ childrenOfBp sc c.2, b1.weightC c' = 0) := by
    intro c hc
    obtain ⟨q, hq, he⟩ := L.cpar c hc
    refine ⟨L.cbr c hc, L.cbp c hc, ⟨q, L.pmem q hq, he⟩, he ▸ hG1.bpd q (L.pmem q hq), ?_, ?_⟩
    · intro q' hq'
      by_cases h : q'.2 = c.2
      · left
        have : q' = q := List.inj_on_of_nodup_map hwf.ndP2 hq' (L.pmem q hq) (h.trans he.symm)
        rw [this]
        exact z1 q.1 (List.mem_map_of_mem hq)
      · exact Or.inr h
    · intro c' hc'
      rw [mem_childrenOfBp] at hc'
      exact hG1.wC0 (c', c.2) hc'
  have s2 := ecuFold_sat hwf lv.1 b1 hpre2
  generalize lv.1.foldl (ecuStep ix) b1 = b2 at m2 z2 s2 ⊢
  have hG2 := End1_mono m2 hG1
  -- step 3: the slots of the children
  have hpre3 : ∀ b ∈ lv.1.map (·.1), b ∈ branchesOf sc ∧ Tri ix b2 b ∧ (b2.condC b = 0 ∨ bpOfChild sc b = none) ∧
      (b2.condP b = 0 ∨ bpOfParent sc b = none) := by
    intro b hb
    obtain ⟨c, hc, rfl⟩ := List.mem_map.mp hb
    refine ⟨L.cbr c hc, hG2.tri c.1 (L.cbr c hc), Or.inl (z2 c.1 hb), ?_⟩
    rcases bpOfParent_cases sc c.1 with h | ⟨q, hq, he⟩
    · exact Or.inr h
    · exact Or.inl (he ▸ hG2.condP0 q hq)
  obtain ⟨s3, d3, m3⟩ := backsubLevel_spec hwf _ b2 hpre3
  refine ⟨?_, ?_, ?_, (m1.trans m2).trans m3⟩
  · intro x z
    rw [s3 x z, s2 x z, s1 x z]
  · intro c hc
    exact d3 c.1 (List.mem_map_of_mem hc)
  · intro q hq
    exact m3.2.2.1 _ (m2.2.2.1 _ (z1 q.1 (List.mem_map_of_mem hq)))

theorem pass2 {ix : Idx} {sc : Sched} (hwf : WF ix sc) : ∀ (rest pre : List Lv) (avail : List Nat) (acc : St K),
    levels sc = pre ++ rest → chainB avail rest = true → End1 ix sc acc → (∀ b ∈ avail, Diag ix sc acc b) →
    (∀ x z, Sat ix sc (rest.foldl (step2 ix) acc) x z ↔ Sat ix sc acc x z) ∧
    (∀ c ∈ chs rest, Diag ix sc (rest.foldl (step2 ix) acc) c.1) ∧
    (∀ q ∈ prs rest, (rest.foldl (step2 ix) acc).weightP q.1 = 0) ∧
    Mono2 ix sc acc (rest.foldl (step2 ix) acc) := by
  intro rest
  induction rest with
  | nil =>
    intro pre avail acc _ _ _ _
    exact ⟨fun _ _ => Iff.rfl, fun c hc => by simp at hc, fun q hq => by simp at hq, Mono2.refl ix sc acc⟩
  | cons lv rest ih =>
    intro pre avail acc hd hch hG hav
    simp only [chainB, Bool.and_eq_true, List.all_eq_true, List.contains_iff_mem] at hch
    obtain ⟨r1, r2, r3, r4⟩ := step2_spec hwf hd acc hG (fun q hq => hav q.1 (hch.1 q hq))
    obtain ⟨i1, i2, i3, i4⟩ := ih (pre ++ [lv]) (lv.1.map (·.1)) (step2 ix acc lv) (by rw [hd]; simp) hch.2
      (End1_mono r4 hG) (fun b hb => by
        obtain ⟨c, hc, rfl⟩ := List.mem_map.mp hb
        exact r2 c hc)
    rw [List.foldl_cons]
    refine ⟨?_, ?_, ?_, r4.trans i4⟩
    · intro x z
      rw [i1 x z, r1 x z]
    · intro c hc
      rw [chs_cons] at hc
      rcases List.mem_append.mp hc with hc | hc
      · exact i4.1 _ (r2 c hc)
      · exact i2 c hc
    · intro q hq
      rw [prs_cons] at hq
      rcases List.mem_append.mp hq with hq | hq
      · exact i4.2.2.1 _ (r3 q hq)
      · exact i3 q hq

/-- the final state: same solution set as the input, and diagonal -/
theorem solve_spec {ix : Idx} {sc : Sched} (hwf : WF ix sc) (st : St K) (hp : PivOK ix sc st) :
    (∀ x z, Sat ix sc (solve ix sc st) x z ↔ Sat ix sc st x z) ∧
    (∀ b ∈ branchesOf sc, Diag ix sc (solve ix sc st) b) ∧
    (∀ q ∈ pairsP sc, (solve ix sc st).weightP q.1 = 0) ∧ End1 ix sc (solve ix sc st) := by
  rw [show solve ix sc st =
    (levels sc).foldl (step2 ix) (backsubLevel ix sc.roots (triangBranched ix sc st)) from rfl]
  obtain ⟨hE, hsat⟩ := triangBranched_spec hwf st hp
  have hndB := hwf.ndB
  unfold branchesOf at hndB
  obtain ⟨-, -, hdisj⟩ := List.nodup_append.mp hndB
  have hpre : ∀ r ∈ sc.roots, r ∈ branchesOf sc ∧ Tri ix (triangBranched ix sc st) r ∧
      ((triangBranched ix sc st).condC r = 0 ∨ bpOfChild sc r = none) ∧
      ((triangBranched ix sc st).condP r = 0 ∨ bpOfParent sc r = none) := by
    intro r hr
    have hrb : r ∈ branchesOf sc := List.mem_append_left _ hr
    refine ⟨hrb, hE.tri r hrb, ?_, ?_⟩
    · rcases bpOfChild_cases sc r with h | ⟨q, hq, he⟩
      · exact Or.inr h
      · exact absurd he.symm (hdisj r hr q.1 (List.mem_map_of_mem hq))
    · rcases bpOfParent_cases sc r with h | ⟨q, hq, he⟩
      · exact Or.inr h
      · exact Or.inl (he ▸ hE.condP0 q hq)
  obtain ⟨s0, d0, m0⟩ := backsubLevel_spec hwf _ _ hpre
  generalize backsubLevel ix sc.roots (triangBranched ix sc st) = s3 at s0 d0 m0 ⊢
  obtain ⟨i1, i2, i3, i4⟩ := pass2 hwf (levels sc) [] sc.roots s3 rfl hwf.chain (End1_mono m0 hE) d0
  refine ⟨?_, ?_, ?_, End1_mono i4 (End1_mono m0 hE)⟩
  · intro x z
    rw [i1 x z, s0 x z, hsat x z]
  · intro b hb
    rcases List.mem_append.mp hb with hr | hc
    · exact i4.1 b (d0 b hr)
    · obtain ⟨c, hcm, rfl⟩ := List.mem_map.mp hc
      exact i2 c (hwf.pc ▸ hcm)
  · intro q hq
    exact i3 q (hwf.pp ▸ hq)

/-- a diagonal system is solved by its right-hand sides -/
theorem sat_of_diag {ix : Idx} {sc : Sched} (F : St K) (hD : ∀ b ∈ branchesOf sc, Diag ix sc F b)
    (hP : ∀ q ∈ pairsP sc, F.weightP q.1 = 0) (hE : End1 ix sc F) (x z : Nat → K) :
    Sat ix sc F x z ↔
      (∀ b ∈ branchesOf sc, ∀ i, ix.first b ≤ i → i ≤ ix.paddedLast b → x i = F.solves i) ∧
      (∀ q ∈ pairsP sc, z q.2 = F.bpSolves q.2 / F.bpDiags q.2) := by
  unfold Sat
  apply and_congr
  · apply forall_congr'; intro b
    apply forall_congr'; intro hb
    apply forall_congr'; intro i
    apply forall_congr'; intro h1
    apply forall_congr'; intro h2
    rw [rowComp_diag ix sc F x z b i (hD b hb) h1 h2]
  · apply forall_congr'; intro q
    apply forall_congr'; intro hq
    unfold rowBp
    rw [sumL_zero (childrenOfBp sc q.2) _ (fun c hc => by
        rw [mem_childrenOfBp] at hc
        rw [hE.wC0 (c, q.2) hc, zero_mul]),
      sumL_zero (List.filter _ _) _ (fun q' hq' => by
        rw [List.mem_filter] at hq'
        rw [hP q' hq'.1, zero_mul]), add_zero, add_zero, eq_div_iff (hE.bpd q hq), mul_comm]

/-- and it is the only one -/
theorem solve_unique (ix : Idx) (sc : Sched) (st : St K) (hwf : wfB ix sc = true) (hp : PivOK ix sc st)
    (x z : Nat → K) (h : Sat ix sc st x z) :
    (∀ b ∈ branchesOf sc, ∀ i, ix.first b ≤ i → i ≤ ix.paddedLast b → x i = (solve ix sc st).solves i) ∧
    (∀ q ∈ pairsP sc, z q.2 = (solve ix sc st).bpSolves q.2 / (solve ix sc st).bpDiags q.2) := by
  obtain ⟨h1, h2, h3, h4⟩ := solve_spec (wf_unpack hwf) st hp
  rw [← h1, sat_of_diag _ h2 h3 h4] at h
  exact h

/-! ### the executable pivot check decides `PivOK` -/

theorem slotPivB_iff [DecidableEq K] (st : St K) (s e : Nat) : slotPivB st s e = true ↔ SlotPiv st s e := by
  unfold slotPivB SlotPiv
  simp only [List.all_eq_true, List.mem_range, Bool.not_eq_true', beq_eq_false_iff_ne, ne_eq]
  constructor
  · intro h k hk; exact h k (by omega)
  · intro h k hk; exact h k (by omega)

theorem pivLevelsB_iff [DecidableEq K] (ix : Idx) : ∀ (l : List Lv) (st : St K),
    pivLevelsB ix l st = true ↔ PivLevels ix l st := by
  intro l
  induction l with
  | nil => intro st; simp [pivLevelsB, PivLevels]
  | cons lv t ih =>
    intro st
    simp only [pivLevelsB, PivLevels, Bool.and_eq_true, List.all_eq_true, slotPivB_iff, ih,
      Bool.not_eq_true', beq_eq_false_iff_ne, ne_eq, and_assoc]

theorem pivOkB_iff [DecidableEq K] (ix : Idx) (sc : Sched) (st : St K) : pivOkB ix sc st = true ↔ PivOK ix sc st := by
  unfold pivOkB PivOK
  simp only [Bool.and_eq_true, List.all_eq_true, slotPivB_iff, pivLevelsB_iff]

/-! ### the hypotheses are satisfiable: one root branch (2 cells), one branch point, two children whose slots have
different padded sizes (2 real cells in a slot of 2; 1 real cell in a slot of 3) -/

def exIx : Idx :=
  { cumsum := fun b => match b with | 0 => 0 | 1 => 2 | 2 => 4 | _ => 7
    ncomp := fun b => match b with | 0 => 2 | 1 => 2 | _ => 1 }
def exSc : Sched := { childrenInLevel := [[(1, 0), (2, 0)]], parentsInLevel := [[(0, 0)]], roots := [0] }
def exSt : St ℚ :=
  { diags := fun i => if i < 5 then 3 else 1
    lowers := fun i => if i = 1 ∨ i = 3 then -1 else 0
    uppers := fun i => if i = 0 ∨ i = 2 then -1 else 0
    solves := fun i => if i < 5 then 1 else 0
    bpDiags := fun _ => 3, bpSolves := fun _ => 0
    condC := fun _ => -1, weightC := fun _ => -1, condP := fun _ => -1, weightP := fun _ => -1 }

theorem ex_wf : wfB exIx exSc = true := by decide

theorem ex_piv : PivOK exIx exSc exSt := by
  rw [← pivOkB_iff]
  simp [pivOkB, levels, exSc, pivLevelsB, slotPivB, exIx, Idx.first, Idx.paddedLast, Idx.last, List.range,
    List.range.loop, pe, exSt, trLevels, trLevel, elimChildrenLower, elimParentsUpper, triangLevel, triangSlot,
    triangMid, upd]
  norm_num

example : ∃ (ix : Idx) (sc : Sched) (st : St ℚ), wfB ix sc = true ∧ PivOK ix sc st := ⟨exIx, exSc, exSt, ex_wf, ex_piv⟩

/-- the custom solver returns a solution of the system its input arrays denote, for EVERY well-formed indexer + level schedule
(any number of levels, any branching, any padding) and every array content whose pivots do not vanish -/
theorem solve_correct (ix : Idx) (sc : Sched) (st : St K) (hwf : wfB ix sc = true) (hp : PivOK ix sc st) :
    Sat ix sc st (solve ix sc st).solves (fun p => (solve ix sc st).bpSolves p / (solve ix sc st).bpDiags p) := by
  obtain ⟨h1, h2, h3, h4⟩ := solve_spec (wf_unpack hwf) st hp
  rw [← h1, sat_of_diag _ h2 h3 h4]
  exact ⟨fun _ _ _ _ _ => rfl, fun _ _ => rfl⟩

end JaxleyVerif.Model.SolveJaxley
