/- lemmas about the scan model (core Lean only) -/
import JaxleyVerif.Model.Scan

namespace JaxleyVerif.Model
variable {σ ι ο : Type}

theorem scan_append (f : σ → ι → σ × ο) (s : σ) (xs ys : List ι) :
    scan f s (xs ++ ys) = ((scan f (scan f s xs).1 ys).1, (scan f s xs).2 ++ (scan f (scan f s xs).1 ys).2) := by
  induction xs generalizing s with
  | nil => simp [scan]
  | cons x xs ih => simp [scan, ih]

theorem scan_length (f : σ → ι → σ × ο) (s : σ) (xs : List ι) : (scan f s xs).2.length = xs.length := by
  induction xs generalizing s with
  | nil => simp [scan]
  | cons x xs ih => simp [scan, ih]

/-- scanning chunk-wise with a function that agrees with `scan f` on every chunk is scanning the concatenation -/
theorem scanChunks_eq (f : σ → ι → σ × ο) (g : σ → List ι → σ × List ο) (cs : List (List ι))
    (hg : ∀ s c, c ∈ cs → g s c = scan f s c) (s : σ) : scanChunks g s cs = scan f s cs.flatten := by
  induction cs generalizing s with
  | nil => simp [scanChunks, scan]
  | cons c cs ih =>
    simp only [scanChunks, List.flatten_cons]
    rw [hg s c (by simp), ih (fun s c hc => hg s c (by simp [hc])), scan_append]

theorem chunks_flatten (n k : Nat) (xs : List ι) (h : xs.length = k * n) : (chunks n k xs).flatten = xs := by
  induction k generalizing xs with
  | zero => simp [chunks]; simpa using h
  | succ k ih =>
    simp only [chunks, List.flatten_cons]
    rw [ih (xs.drop n) (by simp [h, Nat.succ_mul]), List.take_append_drop]

theorem chunks_mem_length (n k : Nat) (xs : List ι) (h : xs.length = k * n) :
    ∀ c ∈ chunks n k xs, c.length = n := by
  induction k generalizing xs with
  | zero => simp [chunks]
  | succ k ih =>
    intro c hc
    simp only [chunks, List.mem_cons] at hc
    rcases hc with rfl | hc
    · simp [h, Nat.succ_mul]
    · exact ih (xs.drop n) (by simp [h, Nat.succ_mul]) c hc

/-- **every checkpointing layout denotes the flat scan** (any nesting depth) -/
theorem nested_eq_scan (f : σ → ι → σ × ο) : ∀ (ls : List Nat), ls ≠ [] → ∀ (s : σ) (xs : List ι),
    xs.length = prodL ls → nested f ls s xs = scan f s xs
  | [_], _, s, xs, _ => by simp [nested]
  | l :: l' :: ls, _, s, xs, h => by
    simp only [nested]
    have hlen : xs.length = l * prodL (l' :: ls) := by simpa [prodL] using h
    rw [scanChunks_eq f (nested f (l' :: ls)) _ (fun s c hc =>
      nested_eq_scan f (l' :: ls) (by simp) s c (chunks_mem_length _ _ xs hlen c hc)) s,
      chunks_flatten _ _ xs hlen]

/-- padding steps leave the state untouched -/
theorem scan_padding (step : σ → ι → σ) (rec0 : σ → ο) (zero : ι) (s : σ) (k : Nat) :
    (scan (body step rec0) s (List.replicate k (zero, true))).1 = s := by
  induction k with
  | zero => rfl
  | succ k ih => simp [List.replicate_succ, scan, body, ih]

/-- the un-padded part of the run is the plain run of `step` -/
theorem scan_body_unpadded (step : σ → ι → σ) (rec0 : σ → ο) (s : σ) (xs : List ι) :
    (scan (body step rec0) s (xs.map (fun x => (x, false)))).1 = xs.foldl step s := by
  induction xs generalizing s with
  | nil => rfl
  | cons x xs ih => simp [scan, body, ih]

end JaxleyVerif.Model
