/-
Local correctness lemmas for the code-shaped solver model `Model.SolveJaxley` (tridiax's Thomas routines on one padded slot,
irrelevance of the padding rows, the four branch-point elimination steps), over an arbitrary field.
-/
import Mathlib.Tactic.Ring
import Mathlib.Tactic.FieldSimp
import Mathlib.Tactic.Linarith
import Mathlib.Tactic.LinearCombination
import Mathlib.Algebra.Field.Basic
import JaxleyVerif.Model.SolveJaxleySpec

namespace JaxleyVerif.Model.SolveJaxley
variable {K : Type} [Field K]

/-! ### helper lemmas -/

omit [Field K] in
theorem upd_same (f : Nat → K) (i : Nat) (v : K) : upd f i v i = v := by simp [upd]

omit [Field K] in
theorem upd_ne (f : Nat → K) (i j : Nat) (v : K) (h : j ≠ i) : upd f i v j = f j := by simp [upd, h]

/-- one step of `pe`, with the row index instead of the distance from the end -/
theorem pe_sub (d lo up b : Nat → K) (e i : Nat) (h : i < e) :
    pe d lo up b e (e - i) =
      (d i - up i * lo (i + 1) / (pe d lo up b e (e - (i + 1))).1,
       b i - up i * (pe d lo up b e (e - (i + 1))).2 / (pe d lo up b e (e - (i + 1))).1) := by
  have h1 : e - i = (e - (i + 1)) + 1 := by omega
  have h2 : e - ((e - (i + 1)) + 1) = i := by omega
  rw [h1]
  simp only [pe, h2]

/-- invariant of `triangMid`: rows above `s + k` normalised on entry, rows above `s` normalised on exit -/
theorem triangMid_spec (d lo up b : Nat → K) (s e : Nat) :
    ∀ (k : Nat) (u y : Nat → K), s + k < e →
      (∀ i, s + k < i → i ≤ e → u i = lo i / (pe d lo up b e (e - i)).1 ∧
          y i = (pe d lo up b e (e - i)).2 / (pe d lo up b e (e - i)).1) →
      ∀ i, s < i → i ≤ e →
        (triangMid d lo up b s k (u, y)).1 i = lo i / (pe d lo up b e (e - i)).1 ∧
        (triangMid d lo up b s k (u, y)).2 i = (pe d lo up b e (e - i)).2 / (pe d lo up b e (e - i)).1 := by
  intro k
  induction k with
  | zero =>
    intro u y _ hinv i hi hie
    exact hinv i (by omega) hie
  | succ k ih =>
    intro u y hk hinv i hi hie
    simp only [triangMid]
    refine ih _ _ (by omega) ?_ i hi hie
    intro j hj hje
    by_cases hjk : j = s + (k + 1)
    · subst hjk
      have hlt : s + (k + 1) < e := hk
      obtain ⟨hu, hy⟩ := hinv (s + (k + 1) + 1) (by omega) (by omega)
      rw [upd_same, upd_same, pe_sub d lo up b e _ hlt, hu, hy]
      simp only [mul_div_assoc]
      exact ⟨trivial, trivial⟩
    · rw [upd_ne _ _ _ _ hjk, upd_ne _ _ _ _ hjk]
      exact hinv j (by omega) hje

theorem triangSlot_of_lt (st : St K) (s e : Nat) (h : s < e) :
    triangSlot st s e =
      { st with
        diags := fun j => if j = s then st.diags s - st.uppers s *
              (triangMid st.diags st.lowers st.uppers st.solves s (e - s - 1)
                (upd (fun _ => 0) e (st.lowers e / st.diags e), upd (fun _ => 0) e (st.solves e / st.diags e))).1 (s + 1)
            else if s < j ∧ j ≤ e then 1 else st.diags j
        lowers := fun j => if s < j ∧ j ≤ e then
              (triangMid st.diags st.lowers st.uppers st.solves s (e - s - 1)
                (upd (fun _ => 0) e (st.lowers e / st.diags e), upd (fun _ => 0) e (st.solves e / st.diags e))).1 j
            else st.lowers j
        solves := fun j => if j = s then st.solves s - st.uppers s *
              (triangMid st.diags st.lowers st.uppers st.solves s (e - s - 1)
                (upd (fun _ => 0) e (st.lowers e / st.diags e), upd (fun _ => 0) e (st.solves e / st.diags e))).2 (s + 1)
            else if s < j ∧ j ≤ e then
              (triangMid st.diags st.lowers st.uppers st.solves s (e - s - 1)
                (upd (fun _ => 0) e (st.lowers e / st.diags e), upd (fun _ => 0) e (st.solves e / st.diags e))).2 j
            else st.solves j
        uppers := fun j => if s ≤ j ∧ j < e then 0 else st.uppers j } := by
  unfold triangSlot
  rw [if_neg (by omega)]

theorem backMid_frame (lo y : Nat → K) (s : Nat) :
    ∀ (n : Nat) (x : Nat → K) (j : Nat), (j ≤ s ∨ s + n < j) → backMid lo y s n x j = x j := by
  intro n
  induction n with
  | zero => intro x j _; rfl
  | succ n ih =>
    intro x j hj
    simp only [backMid]
    have hne : j ≠ s + (n + 1) := by omega
    rw [upd_ne _ _ _ _ hne]
    exact ih x j (by omega)

theorem backMid_rec (lo y : Nat → K) (s : Nat) :
    ∀ (n : Nat) (x : Nat → K) (i : Nat), s < i → i ≤ s + n →
      backMid lo y s n x i = y i - lo i * backMid lo y s n x (i - 1) := by
  intro n
  induction n with
  | zero => intro x i h1 h2; omega
  | succ n ih =>
    intro x i h1 h2
    simp only [backMid]
    by_cases hi : i = s + (n + 1)
    · subst hi
      have hne : s + (n + 1) - 1 ≠ s + (n + 1) := by omega
      rw [upd_same, upd_ne _ _ _ _ hne]
    · have hne : i - 1 ≠ s + (n + 1) := by omega
      rw [upd_ne _ _ _ _ hi, upd_ne _ _ _ _ hne]
      exact ih x i h1 (by omega)

/-- the algebra of one interior row of the Thomas algorithm -/
theorem thomas_row (L d up b x x' p' q' lo' : K) (hp' : p' ≠ 0)
    (hA : (d - up * lo' / p') * x = b - up * q' / p' - L) (hA' : p' * x' = q' - lo' * x) :
    L + d * x + up * x' = b := by
  have hx' : x' = (q' - lo' * x) / p' := by
    rw [eq_div_iff hp']; linear_combination hA'
  rw [hx']
  field_simp at hA ⊢
  linear_combination hA

/-- frame: `triangSlot` touches nothing outside `[s, e]` and no branch-point array -/
theorem triangSlot_frame (st : St K) (s e j : Nat) (hj : j < s ∨ e < j) :
    (triangSlot st s e).diags j = st.diags j ∧ (triangSlot st s e).lowers j = st.lowers j ∧
    (triangSlot st s e).uppers j = st.uppers j ∧ (triangSlot st s e).solves j = st.solves j := by
  rcases Nat.lt_or_ge s e with h | h
  · rw [triangSlot_of_lt st s e h]
    have h1 : j ≠ s := by omega
    have h2 : ¬ (s < j ∧ j ≤ e) := by omega
    have h3 : ¬ (s ≤ j ∧ j < e) := by omega
    simp only [if_neg h1, if_neg h2, if_neg h3, and_self]
  · unfold triangSlot
    rw [if_pos h]
    exact ⟨rfl, rfl, rfl, rfl⟩

theorem triangSlot_bp (st : St K) (s e : Nat) :
    (triangSlot st s e).bpDiags = st.bpDiags ∧ (triangSlot st s e).bpSolves = st.bpSolves ∧
    (triangSlot st s e).condC = st.condC ∧ (triangSlot st s e).weightC = st.weightC ∧
    (triangSlot st s e).condP = st.condP ∧ (triangSlot st s e).weightP = st.weightP := by
  rcases Nat.lt_or_ge s e with h | h
  · rw [triangSlot_of_lt st s e h]
    exact ⟨rfl, rfl, rfl, rfl, rfl, rfl⟩
  · unfold triangSlot
    rw [if_pos h]
    exact ⟨rfl, rfl, rfl, rfl, rfl, rfl⟩

/-- a one-row slot is returned unchanged (`n = 1` in tridiax) -/
theorem triangSlot_single (st : St K) (s e : Nat) (h : e ≤ s) : triangSlot st s e = st := by
  unfold triangSlot
  rw [if_pos h]

/-- `thomas_triang_upper` on the slot `[s, e]`, `s < e`: the first row carries the Schur pivot and right-hand side un-normalised,
every other row is normalised (diagonal 1, lower entry and right-hand side divided by the pivot), the upper diagonal is gone -/
theorem triangSlot_spec (st : St K) (s e : Nat) (h : s < e) :
    let P := pe st.diags st.lowers st.uppers st.solves e
    let st' := triangSlot st s e
    st'.diags s = (P (e - s)).1 ∧ st'.solves s = (P (e - s)).2 ∧
    (∀ k, k < e - s → st'.diags (e - k) = 1 ∧ st'.lowers (e - k) = st.lowers (e - k) / (P k).1 ∧
        st'.solves (e - k) = (P k).2 / (P k).1) ∧
    (∀ j, s ≤ j → j < e → st'.uppers j = 0) := by
  intro P st'
  have hmid := triangMid_spec st.diags st.lowers st.uppers st.solves s e (e - s - 1)
    (upd (fun _ => 0) e (st.lowers e / st.diags e)) (upd (fun _ => 0) e (st.solves e / st.diags e)) (by omega)
    (by
      intro i hi hie
      have hie' : i = e := by omega
      subst hie'
      simp [upd, pe])
  have hst' : st' = triangSlot st s e := rfl
  rw [triangSlot_of_lt st s e h] at hst'
  obtain ⟨hu1, hy1⟩ := hmid (s + 1) (by omega) (by omega)
  have hPs := pe_sub st.diags st.lowers st.uppers st.solves e s h
  refine ⟨?_, ?_, ?_, ?_⟩
  · rw [hst']
    simp only [↓reduceIte]
    rw [hu1]
    show _ = (pe st.diags st.lowers st.uppers st.solves e (e - s)).1
    rw [hPs]
    simp only [mul_div_assoc]
  · rw [hst']
    simp only [↓reduceIte]
    rw [hy1]
    show _ = (pe st.diags st.lowers st.uppers st.solves e (e - s)).2
    rw [hPs]
    simp only [mul_div_assoc]
  · intro k hk
    have h1 : e - k ≠ s := by omega
    have h2 : s < e - k ∧ e - k ≤ e := by omega
    have h3 : e - (e - k) = k := by omega
    obtain ⟨hu, hy⟩ := hmid (e - k) h2.1 h2.2
    rw [h3] at hu hy
    rw [hst']
    simp only [if_neg h1, if_pos h2]
    exact ⟨trivial, hu, hy⟩
  · intro j hj1 hj2
    rw [hst']
    simp only [if_pos (And.intro hj1 hj2)]

/-- padding rows (`diag = 1`, `lower = upper = 0`, right-hand side 0, and no upper entry reaching into them) do not change the
pivots of the real rows: counted from the last REAL row `l`, the recursion starts from that row's own entries -/
theorem pe_padding (d lo up b : Nat → K) (l e : Nat) (hle : l ≤ e)
    (hpad : ∀ j, l < j → j ≤ e → d j = 1 ∧ lo j = 0 ∧ b j = 0) (hup : ∀ j, l ≤ j → j < e → up j = 0) :
    pe d lo up b e (e - l) = (d l, b l) := by
  rcases Nat.eq_or_lt_of_le hle with h | h
  · subst h
    simp [pe]
  · rw [pe_sub d lo up b e l h, hup l le_rfl h]
    simp

/-- and below the last real row the recursion continues exactly as if the slot ended there -/
theorem pe_padding_shift (d lo up b : Nat → K) (l e k : Nat) (hle : l ≤ e) (hk : k ≤ l)
    (hpad : ∀ j, l < j → j ≤ e → d j = 1 ∧ lo j = 0 ∧ b j = 0) (hup : ∀ j, l ≤ j → j < e → up j = 0) :
    pe d lo up b e (e - l + k) = pe d lo up b l k := by
  induction k with
  | zero =>
    simpa [pe] using pe_padding d lo up b l e hle hpad hup
  | succ k ih =>
    have h1 : e - l + (k + 1) = (e - l + k) + 1 := by omega
    have h2 : e - (e - l + k + 1) = l - (k + 1) := by omega
    rw [h1]
    simp only [pe, h2]
    rw [ih (by omega)]

/-- `thomas_backsub_lower` on the slot `[s, e]`: `x_s = y_s / d_s`, `x_i = y_i − u_i x_{i−1}` -/
theorem backsubSlot_spec (st : St K) (s e : Nat) (h : s ≤ e) :
    let st' := backsubSlot st s e
    st'.solves s = st.solves s / st.diags s ∧
    (∀ i, s < i → i ≤ e → st'.solves i = st.solves i - st.lowers i * st'.solves (i - 1)) ∧
    (∀ i, s ≤ i → i ≤ e → st'.diags i = 1) ∧ (∀ i, s < i → i ≤ e → st'.lowers i = 0) ∧
    (∀ j, (j < s ∨ e < j) → st'.solves j = st.solves j ∧ st'.diags j = st.diags j ∧ st'.lowers j = st.lowers j) ∧
    st'.uppers = st.uppers := by
  intro st'
  have hx0 := backMid_frame st.lowers st.solves s (e - s) (upd st.solves s (st.solves s / st.diags s))
  have hrec := backMid_rec st.lowers st.solves s (e - s) (upd st.solves s (st.solves s / st.diags s))
  have hsol : ∀ i, s ≤ i → i ≤ e → st'.solves i =
      backMid st.lowers st.solves s (e - s) (upd st.solves s (st.solves s / st.diags s)) i := by
    intro i h1 h2
    show (if s ≤ i ∧ i ≤ e then _ else _) = _
    rw [if_pos ⟨h1, h2⟩]
  refine ⟨?_, ?_, ?_, ?_, ?_, rfl⟩
  · rw [hsol s le_rfl h, hx0 s (Or.inl le_rfl), upd_same]
  · intro i h1 h2
    rw [hsol i (by omega) h2, hsol (i - 1) (by omega) (by omega)]
    exact hrec i h1 (by omega)
  · intro i h1 h2
    show (if s ≤ i ∧ i ≤ e then (1 : K) else _) = 1
    rw [if_pos ⟨h1, h2⟩]
  · intro i h1 h2
    show (if s < i ∧ i ≤ e then (0 : K) else _) = 0
    rw [if_pos ⟨h1, h2⟩]
  · intro j hj
    have h1 : ¬ (s ≤ j ∧ j ≤ e) := by omega
    have h2 : ¬ (s < j ∧ j ≤ e) := by omega
    refine ⟨?_, ?_, ?_⟩
    · show (if s ≤ j ∧ j ≤ e then _ else _) = _
      rw [if_neg h1]
    · show (if s ≤ j ∧ j ≤ e then _ else _) = _
      rw [if_neg h1]
    · show (if s < j ∧ j ≤ e then _ else _) = _
      rw [if_neg h2]

/-- **Thomas on one slot solves the tridiagonal system**: triangulation followed by back substitution returns `x` with
`lower_i x_{i−1} + diag_i x_i + upper_i x_{i+1} = rhs_i` for every row of the slot, provided no pivot vanishes -/
theorem slot_solve_correct (st : St K) (s e : Nat) (h : s ≤ e)
    (hp : ∀ k, k ≤ e - s → (pe st.diags st.lowers st.uppers st.solves e k).1 ≠ 0) :
    let x := (backsubSlot (triangSlot st s e) s e).solves
    ∀ i, s ≤ i → i ≤ e →
      (if s < i then st.lowers i * x (i - 1) else 0) + st.diags i * x i + (if i < e then st.uppers i * x (i + 1) else 0)
        = st.solves i := by
  intro x i hsi hie
  obtain ⟨b0, brec, -⟩ := backsubSlot_spec (triangSlot st s e) s e h
  have b0' : x s = (triangSlot st s e).solves s / (triangSlot st s e).diags s := b0
  have brec' : ∀ i, s < i → i ≤ e →
      x i = (triangSlot st s e).solves i - (triangSlot st s e).lowers i * x (i - 1) := brec
  have hA : ∀ i, s ≤ i → i ≤ e →
      (pe st.diags st.lowers st.uppers st.solves e (e - i)).1 * x i =
        (pe st.diags st.lowers st.uppers st.solves e (e - i)).2 -
          (if s < i then st.lowers i * x (i - 1) else 0) := by
    intro i h1 h2
    have hpi := hp (e - i) (by omega)
    rcases Nat.eq_or_lt_of_le h with hse | hse
    · subst hse
      have his : i = s := by omega
      subst his
      rw [triangSlot_single st i i le_rfl] at b0'
      rw [if_neg (lt_irrefl i), b0', sub_zero]
      simp only [Nat.sub_self, pe] at hpi ⊢
      field_simp
    · obtain ⟨t1, t2, t3, -⟩ := triangSlot_spec st s e hse
      rcases Nat.eq_or_lt_of_le h1 with his | his
      · subst his
        rw [if_neg (lt_irrefl s), b0', t1, t2, sub_zero]
        field_simp
      · have hk : e - (e - i) = i := by omega
        obtain ⟨-, tl, ts⟩ := t3 (e - i) (by omega)
        rw [hk] at tl ts
        rw [if_pos his, brec' i his h2, tl, ts]
        field_simp
  rcases Nat.eq_or_lt_of_le hie with hie' | hie'
  · subst hie'
    have hAe := hA i hsi le_rfl
    simp only [Nat.sub_self, pe] at hAe
    rw [if_neg (lt_irrefl i)]
    linear_combination hAe
  · have hAi := hA i hsi hie
    have hAi1 := hA (i + 1) (by omega) (by omega)
    rw [if_pos (show s < i + 1 by omega), Nat.add_sub_cancel] at hAi1
    rw [pe_sub st.diags st.lowers st.uppers st.solves e i hie'] at hAi
    rw [if_pos hie']
    exact thomas_row _ _ _ _ _ _ _ _ _ (hp (e - (i + 1)) (by omega)) hAi hAi1

/-! ### branch-point steps: one child / one parent at a time (the folds of the model apply them to distinct cells) -/

/-- `_eliminate_single_child_lower`: adding `−w/d₀` times the (triangulated) first row `d₀ x + c z = y` to the branch-point row
`D z + w x + rest = S` removes `x`: the row becomes `(D − w c / d₀) z + rest = S − w y / d₀` -/
theorem elim_child_row (D S w c d0 y x z rest : K) (hd : d0 ≠ 0) (hrow : d0 * x + c * z = y) :
    (D * z + w * x + rest = S) ↔ ((D + (-w / d0) * c) * z + rest = S + (-w / d0) * y) := by
  have key : (D + (-w / d0) * c) * z + rest - (S + (-w / d0) * y) = D * z + w * x + rest - S := by
    rw [← hrow]; field_simp; ring
  constructor
  · intro h
    have h' := sub_eq_zero.mpr h
    rw [← key] at h'
    exact sub_eq_zero.mp h'
  · intro h
    have h' := sub_eq_zero.mpr h
    rw [key] at h'
    exact sub_eq_zero.mp h'

/-- `_eliminate_single_parent_upper`: subtracting `c/D` times the branch-point row `D z + w x = S` from the parent's last row
`d x + c z + rest = y` removes `z`: `(d − (c/D) w) x + rest = y − (c/D) S` -/
theorem elim_parent_row (D S w c d y x z rest : K) (hD : D ≠ 0) (hbp : D * z + w * x = S) :
    (d * x + c * z + rest = y) ↔ ((d + -(c / D) * w) * x + rest = y + -(c / D) * S) := by
  have key : (d + -(c / D) * w) * x + rest - (y + -(c / D) * S) = d * x + c * z + rest - y := by
    rw [← hbp]; field_simp; ring
  constructor
  · intro h
    have h' := sub_eq_zero.mpr h
    rw [← key] at h'
    exact sub_eq_zero.mp h'
  · intro h
    have h' := sub_eq_zero.mpr h
    rw [key] at h'
    exact sub_eq_zero.mp h'

/-- `_eliminate_parents_lower` (back substitution): with the parent's last value known (`1 · x = y`), the branch-point row
`D z + w x = S` becomes `D z = S − y w / 1` -/
theorem backsub_parent_row (D S w y x z one : K) (h1 : one = 1) (hx : one * x = y) :
    (D * z + w * x = S) ↔ (D * z = S + -y * w / one) := by
  subst h1
  rw [one_mul] at hx
  subst hx
  rw [div_one]
  constructor
  · intro h; linear_combination h
  · intro h; linear_combination h

/-- `_eliminate_children_upper` (back substitution): with the branch-point value known (`D z = S`, `D ≠ 0`), the child's first
row `d x + c z = y` becomes `d x = y − S c / D` -/
theorem backsub_child_row (D S c d y x z : K) (hD : D ≠ 0) (hz : D * z = S) :
    (d * x + c * z = y) ↔ (d * x = y + -S * c / D) := by
  have key : d * x - (y + -S * c / D) = d * x + c * z - y := by
    rw [← hz]; field_simp; ring
  constructor
  · intro h
    have h' := sub_eq_zero.mpr h
    rw [← key] at h'
    exact sub_eq_zero.mp h'
  · intro h
    have h' := sub_eq_zero.mpr h
    rw [key] at h'
    exact sub_eq_zero.mp h'

end JaxleyVerif.Model.SolveJaxley
