/-
Discrete maximum principle, uniqueness, reciprocity and charge balance for cable-type linear systems on an
arbitrary finite node set.

A system is given by coupling weights `w i j ≥ 0` (row `i`, neighbour `j`) and row strengths `σ i ≥ 0`:
      (σ i + Σ_j w i j) · x i − Σ_j w i j · x j = σ i · u i .
Compartments are strict rows (`σ i > 0`: capacitance/dt + membrane conductance); branch points are the
non-strict rows (`σ i = 0`) and are coupled, with positive weight, to strict rows only.
-/
import Mathlib.Algebra.BigOperators.Ring.Finset
import Mathlib.Algebra.Order.BigOperators.Group.Finset
import Mathlib.Algebra.Order.Field.Basic
import Mathlib.Data.Fintype.BigOperators
import Mathlib.Tactic.Linarith
import Mathlib.Tactic.Ring
import Mathlib.Order.Interval.Finset.Defs

namespace JaxleyVerif.Cable
open Finset

variable {ι : Type} [Fintype ι] [DecidableEq ι]
variable {K : Type} [Field K] [LinearOrder K] [IsStrictOrderedRing K]

/-- row `i` of the system applied to `x` -/
def row (w : ι → ι → K) (σ : ι → K) (x : ι → K) (i : ι) : K :=
  (σ i + ∑ j, w i j) * x i - ∑ j, w i j * x j

structure Admissible (w : ι → ι → K) (σ : ι → K) : Prop where
  w_nonneg : ∀ i j, 0 ≤ w i j
  σ_nonneg : ∀ i, 0 ≤ σ i
  /-- a non-strict row has a neighbour, and all its neighbours are strict rows -/
  nonstrict : ∀ i, σ i = 0 → (∃ j, 0 < w i j) ∧ ∀ j, 0 < w i j → 0 < σ j

theorem row_eq (w : ι → ι → K) (σ : ι → K) (x : ι → K) (i : ι) :
    row w σ x i = σ i * x i + ∑ j, w i j * (x i - x j) := by
  unfold row
  simp only [mul_sub, Finset.sum_sub_distrib, add_mul, Finset.sum_mul]
  ring

/-- **Maximum principle.** If `row x i = σ i · u i` and `u ≤ M` on strict rows then `x ≤ M` everywhere. -/
theorem max_principle [Nonempty ι] {w : ι → ι → K} {σ : ι → K} (h : Admissible w σ) {x u : ι → K} {M : K}
    (hrow : ∀ i, row w σ x i = σ i * u i) (hu : ∀ i, 0 < σ i → u i ≤ M) : ∀ i, x i ≤ M := by
  obtain ⟨m, -, hm⟩ := Finset.exists_max_image Finset.univ x Finset.univ_nonempty
  have hmax : ∀ j, x j ≤ x m := fun j => hm j (Finset.mem_univ j)
  -- the bound at a strict maximal row
  have strict_bound : ∀ i, (∀ j, x j ≤ x i) → 0 < σ i → x i ≤ M := by
    intro i hi hσ
    have h1 := hrow i
    rw [row_eq] at h1
    have h2 : 0 ≤ ∑ j, w i j * (x i - x j) :=
      Finset.sum_nonneg (fun j _ => mul_nonneg (h.w_nonneg i j) (by linarith [hi j]))
    have h3 : σ i * x i ≤ σ i * u i := by linarith
    have h4 : x i ≤ u i := le_of_mul_le_mul_left h3 hσ
    exact le_trans h4 (hu i hσ)
  have hxm : x m ≤ M := by
    rcases (h.σ_nonneg m).lt_or_eq with hpos | hzero
    · exact strict_bound m hmax hpos
    · -- non-strict maximal row: all neighbours with positive weight share the maximum
      have h1 := hrow m
      rw [row_eq, ← hzero] at h1
      simp only [zero_mul, zero_add] at h1
      obtain ⟨⟨j, hj⟩, hnb⟩ := h.nonstrict m hzero.symm
      have hterm : ∀ k ∈ Finset.univ, 0 ≤ w m k * (x m - x k) :=
        fun k _ => mul_nonneg (h.w_nonneg m k) (by linarith [hmax k])
      have hz := (Finset.sum_eq_zero_iff_of_nonneg hterm).mp h1 j (Finset.mem_univ j)
      have hxj : x j = x m := by
        rcases mul_eq_zero.mp hz with h0 | h0
        · exact absurd h0 hj.ne'
        · linarith
      have := strict_bound j (fun k => by rw [hxj]; exact hmax k) (hnb j hj)
      linarith
  intro i; exact le_trans (hmax i) hxm

/-- minimum principle (apply the maximum principle to `−x`) -/
theorem min_principle [Nonempty ι] {w : ι → ι → K} {σ : ι → K} (h : Admissible w σ) {x u : ι → K} {m : K}
    (hrow : ∀ i, row w σ x i = σ i * u i) (hu : ∀ i, 0 < σ i → m ≤ u i) : ∀ i, m ≤ x i := by
  have hneg : ∀ i, row w σ (fun k => -x k) i = σ i * (-u i) := by
    intro i
    have := hrow i
    unfold row at *
    simp only [mul_neg, Finset.sum_neg_distrib]
    linarith
  have := max_principle h hneg (M := -m) (fun i hi => by linarith [hu i hi])
  intro i; linarith [this i]

/-- **Uniqueness**: two solutions of the same system coincide. -/
theorem unique_solution [Nonempty ι] {w : ι → ι → K} {σ : ι → K} (h : Admissible w σ) {x y : ι → K} {b : ι → K}
    (hx : ∀ i, row w σ x i = b i) (hy : ∀ i, row w σ y i = b i) : x = y := by
  have hd : ∀ i, row w σ (fun k => x k - y k) i = σ i * 0 := by
    intro i
    have h1 := hx i; have h2 := hy i
    unfold row at *
    simp only [mul_sub, Finset.sum_sub_distrib, mul_zero]
    linarith
  have hle := max_principle h hd (M := 0) (fun _ _ => le_refl _)
  have hge := min_principle h hd (m := 0) (fun _ _ => le_refl _)
  funext i
  have := hle i; have := hge i
  linarith

/-- **Charge balance**: for symmetric coupling the weighted residuals sum to zero:
`Σ_i σ i (x i − u i) = 0`, i.e. the capacitive charge change equals injected minus membrane charge. -/
theorem charge_balance {w : ι → ι → K} {σ : ι → K} (hsym : ∀ i j, w i j = w j i) {x u : ι → K}
    (hrow : ∀ i, row w σ x i = σ i * u i) : ∑ i, σ i * (x i - u i) = 0 := by
  have h1 : ∑ i, row w σ x i = ∑ i, σ i * u i := Finset.sum_congr rfl (fun i _ => hrow i)
  have h2 : ∑ i, row w σ x i = ∑ i, σ i * x i + ∑ i, ∑ j, w i j * (x i - x j) := by
    rw [← Finset.sum_add_distrib]; exact Finset.sum_congr rfl (fun i _ => row_eq w σ x i)
  have h3 : ∑ i, ∑ j, w i j * (x i - x j) = 0 := by
    have e1 : ∑ i, ∑ j, w i j * (x i - x j) = ∑ i, ∑ j, w i j * x i - ∑ i, ∑ j, w i j * x j := by
      simp only [mul_sub, Finset.sum_sub_distrib]
    have e2 : ∑ i, ∑ j, w i j * x j = ∑ i, ∑ j, w i j * x i := by
      rw [Finset.sum_comm]
      exact Finset.sum_congr rfl (fun i _ => Finset.sum_congr rfl (fun j _ => by rw [hsym j i]))
    rw [e1, e2, sub_self]
  simp only [mul_sub, Finset.sum_sub_distrib]
  linarith

/-- **Reciprocity**: for symmetric coupling, `Σ_k y k · (row x) k = Σ_k x k · (row y) k`.  With right-hand sides
`I·e_i` and `I·e_j` this is: the change at `j` caused by a current at `i` equals the change at `i` caused by the
same current at `j`. -/
theorem reciprocity {w : ι → ι → K} {σ : ι → K} (hsym : ∀ i j, w i j = w j i) (x y : ι → K) :
    ∑ k, y k * row w σ x k = ∑ k, x k * row w σ y k := by
  unfold row
  have e : ∀ (a b : ι → K), ∑ k, a k * ((σ k + ∑ j, w k j) * b k - ∑ j, w k j * b j)
      = ∑ k, (σ k + ∑ j, w k j) * (a k * b k) - ∑ k, ∑ j, w k j * (a k * b j) := by
    intro a b
    rw [← Finset.sum_sub_distrib]
    refine Finset.sum_congr rfl (fun k _ => ?_)
    rw [mul_sub, Finset.mul_sum]
    congr 1
    · ring
    · exact Finset.sum_congr rfl (fun j _ => by ring)
  rw [e y x, e x y]
  congr 1
  · exact Finset.sum_congr rfl (fun k _ => by ring)
  · rw [Finset.sum_comm]
    exact Finset.sum_congr rfl (fun i _ => Finset.sum_congr rfl (fun j _ => by rw [hsym j i]; ring))

/-- point-source form of reciprocity -/
theorem reciprocity_point {w : ι → ι → K} {σ : ι → K} (hsym : ∀ i j, w i j = w j i) {x y : ι → K} {i j : ι} {I : K}
    (hx : ∀ k, row w σ x k = if k = i then I else 0) (hy : ∀ k, row w σ y k = if k = j then I else 0) :
    I * y i = I * x j := by
  have := reciprocity hsym (σ := σ) x y
  simp only [hx, hy, mul_ite, mul_zero, Finset.sum_ite_eq', Finset.mem_univ, if_true] at this
  linarith

end JaxleyVerif.Cable
