/-
Dual numbers `a + b·ε` (ε² = 0) over any scalar: forward-mode derivative of every polymorphic model function (import-free).
-/
import JaxleyVerif.Prelude.Scalar
namespace JaxleyVerif

structure Dual (α : Type) where
  re : α
  eps : α
deriving Repr

namespace Dual
variable {α : Type}

instance [Add α] : Add (Dual α) := ⟨fun a b => ⟨a.re + b.re, a.eps + b.eps⟩⟩
instance [Sub α] : Sub (Dual α) := ⟨fun a b => ⟨a.re - b.re, a.eps - b.eps⟩⟩
instance [Neg α] : Neg (Dual α) := ⟨fun a => ⟨-a.re, -a.eps⟩⟩
instance [Add α] [Mul α] : Mul (Dual α) := ⟨fun a b => ⟨a.re * b.re, a.re * b.eps + a.eps * b.re⟩⟩
instance [Add α] [Sub α] [Mul α] [Div α] : Div (Dual α) :=
  ⟨fun a b => ⟨a.re / b.re, (a.eps * b.re - a.re * b.eps) / (b.re * b.re)⟩⟩
instance [OfScientific α] [OfNat α 0] : OfScientific (Dual α) := ⟨fun m s e => ⟨OfScientific.ofScientific m s e, 0⟩⟩
instance [OfNat α 0] : OfNat (Dual α) 0 := ⟨⟨0, 0⟩⟩
instance [Inhabited α] : Inhabited (Dual α) := ⟨⟨default, default⟩⟩
instance [HasPi α] [OfNat α 0] : HasPi (Dual α) := ⟨⟨HasPi.pi, 0⟩⟩
instance [LT α] : LT (Dual α) := ⟨fun a b => a.re < b.re⟩
instance [LT α] [DecidableLT α] : DecidableLT (Dual α) := fun a b => inferInstanceAs (Decidable (a.re < b.re))
/-- `min` selects the branch by the real part (one-sided derivative at the kink) -/
instance [LT α] [DecidableLT α] : Min (Dual α) := ⟨fun a b => if b.re < a.re then b else a⟩
instance [LT α] [DecidableLT α] : Max (Dual α) := ⟨fun a b => if a.re < b.re then b else a⟩
instance [Transc α] [Add α] [Sub α] [Mul α] [Div α] [OfScientific α] : Transc (Dual α) where
  exp a := ⟨Transc.exp a.re, a.eps * Transc.exp a.re⟩
  log a := ⟨Transc.log a.re, a.eps / a.re⟩
  log1p a := ⟨Transc.log1p a.re, a.eps / (1.0 + a.re)⟩
  tanh a := ⟨Transc.tanh a.re, a.eps * (1.0 - Transc.tanh a.re * Transc.tanh a.re)⟩
  sqrt a := ⟨Transc.sqrt a.re, a.eps / (2.0 * Transc.sqrt a.re)⟩
  pi := ⟨Transc.pi, Transc.pi - Transc.pi⟩

end Dual
end JaxleyVerif
