/-
Scalar layer of the model (import-free).

All numeric model code is written once, polymorphic in the scalar `α`, against the core
notation classes plus the small class `Transc` below.  It is instantiated at
  * `ℝ`      (Mathlib, proof files only)       — theorems,
  * `Rat`    (core)                             — exact execution of everything rational,
  * `Float`  (IEEE double)                      — execution next to JAX float64.
-/
namespace JaxleyVerif

/-- Transcendental functions (and `π`) used by jaxley's kernels. -/
class Transc (α : Type) where
  exp   : α → α
  log   : α → α
  log1p : α → α
  tanh  : α → α
  sqrt  : α → α
  pi    : α

/-- `π` as used by the code (`math.pi`): a separate class so that purely rational kernels can be executed
over `Rat` with the exact rational value of the double `math.pi`; all theorems hold for any positive value. -/
class HasPi (α : Type) where
  pi : α

/-- Kahan's accurate `log1p` for doubles (core has no `Float.log1p`). -/
def floatLog1p (x : Float) : Float :=
  let u := 1.0 + x
  if u == 1.0 then x else Float.log u * x / (u - 1.0)

instance : Transc Float where
  exp := Float.exp
  log := Float.log
  log1p := floatLog1p
  tanh := Float.tanh
  sqrt := Float.sqrt
  pi := 3.141592653589793

instance : HasPi Float := ⟨3.141592653589793⟩
/-- the double nearest to π, exactly: 884279719003555 / 2^48 -/
instance : HasPi Rat := ⟨(884279719003555 : Rat) / (281474976710656 : Rat)⟩

/-! ### Exchange format: doubles travel as their IEEE bit pattern (decimal `UInt64`). -/

def floatOfBitsNat (n : Nat) : Float := Float.ofBits n.toUInt64
def floatToBitsNat (x : Float) : Nat := x.toBits.toNat

/-- Exact rational value of a finite double given by its bit pattern (`none` for inf/nan). -/
def ratOfBits (n : Nat) : Option Rat :=
  let sign : Rat := if (n / 2^63) % 2 == 1 then -1 else 1
  let e : Nat := (n / 2^52) % 2048
  let m : Nat := n % 2^52
  if e == 2047 then none
  else if e == 0 then some (sign * (m : Rat) / ((2:Rat)^(1074:Nat)))
  else
    let mant : Rat := ((2^52 + m : Nat) : Rat)
    -- value = mant * 2^(e-1075)
    if e ≥ 1075 then some (sign * mant * ((2:Rat)^(e-1075)))
    else some (sign * mant / ((2:Rat)^(1075-e)))

def ratToString (q : Rat) : String := s!"{q.num}/{q.den}"

def parseRat? (s : String) : Option Rat :=
  match s.splitOn "/" with
  | [a] => a.toInt?.map (fun n => (n : Rat))
  | [a, b] => do
      let n ← a.toInt?
      let d ← b.toNat?
      if d == 0 then none else some ((n : Rat) / (d : Rat))
  | _ => none

end JaxleyVerif

namespace JaxleyVerif
/-- nearest-ish double of a rational (scaled so that numerator and denominator fit the double range) -/
def ratToFloat (q : Rat) : Float :=
  let n := q.num.natAbs
  let d := q.den
  let ln := n.log2
  let ld := d.log2
  -- keep ~64 significant bits of each
  let sn := if ln > 64 then ln - 64 else 0
  let sd := if ld > 64 then ld - 64 else 0
  let nf := Float.ofNat (n >>> sn)
  let df := Float.ofNat (d >>> sd)
  let r := (nf / df).scaleB ((sn : Int) - (sd : Int))
  if q.num < 0 then -r else r

def ratAbs (q : Rat) : Rat := if q < 0 then -q else q
end JaxleyVerif
