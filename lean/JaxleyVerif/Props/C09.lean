/-
C09 — synaptic current flows from the listed pre- to the listed post-compartment.

Theorems about `Model.Synapse` over ℝ:
* `synTerms_eq_sum`       : the terms handed to the solver for compartment `c` are the sums over exactly the edges whose POST
                            compartment is `c` (nothing is added to any other compartment); each edge reads `v` only at its pre
                            and post compartment (`edgeTerms_reads_only_pre_post`)
* `secant_exact_of_affine`: for currents affine in the post voltage (Ionotropic, Test, TanhRate) the linearisation is exact
* `edge_order_invariant`  : permuting the creation order of synapses leaves every compartment's terms unchanged
* `zero_conductance_isolates` : all currents zero ⇒ all terms zero (then C12.block_diagonal_independent applies)
-/
import Mathlib.Algebra.BigOperators.Group.List.Basic
import Mathlib.Algebra.Order.Field.Basic
import Mathlib.Data.Real.Basic
import Mathlib.Tactic.Ring
import Mathlib.Tactic.FieldSimp
import Mathlib.Tactic.Linarith
import JaxleyVerif.Model.Synapse

namespace JaxleyVerif.Props.C09
open JaxleyVerif.Model.Synapse

variable (conv : Nat → ℝ) (v : Nat → ℝ) (d : ℝ)

/-- the terms of compartment `c` are the sums over the edges that end in `c` -/
theorem synTerms_eq_sum (edges : List (SynEdge ℝ)) (c : Nat) :
    synTerms conv v d edges c =
      (((edges.filter (fun e => e.post == c)).map (fun e => (edgeTerms conv v d e).1)).sum,
       -(((edges.filter (fun e => e.post == c)).map (fun e => (edgeTerms conv v d e).2)).sum)) := by
  unfold synTerms
  suffices h : ∀ (acc : ℝ × ℝ), edges.foldl (fun acc e => if e.post == c then
      ((acc.1 + (edgeTerms conv v d e).1, acc.2 - (edgeTerms conv v d e).2) : ℝ × ℝ) else acc) acc =
      (acc.1 + ((edges.filter (fun e => e.post == c)).map (fun e => (edgeTerms conv v d e).1)).sum,
       acc.2 - ((edges.filter (fun e => e.post == c)).map (fun e => (edgeTerms conv v d e).2)).sum) by
    have := h (0, 0); simpa using this
  induction edges with
  | nil => intro acc; simp
  | cons e es ih =>
    intro acc
    simp only [List.foldl_cons, List.filter_cons]
    by_cases hc : e.post == c
    · simp only [hc, if_true, List.map_cons, List.sum_cons]
      rw [ih]; ext <;> simp <;> ring
    · simp only [hc, Bool.false_eq_true, if_false]
      exact ih acc

/-- a compartment that is the post site of no edge receives nothing -/
theorem no_edge_no_terms (edges : List (SynEdge ℝ)) (c : Nat) (h : ∀ e ∈ edges, (e.post == c) = false) :
    synTerms conv v d edges c = (0, 0) := by
  rw [synTerms_eq_sum]
  have : edges.filter (fun e => e.post == c) = [] := List.filter_eq_nil_iff.mpr (fun e he => by simp [h e he])
  simp [this]

/-- an edge reads the voltages of its pre and post compartment only -/
theorem edgeTerms_reads_only_pre_post (e : SynEdge ℝ) (v' : Nat → ℝ) (hpre : v' e.pre = v e.pre) (hpost : v' e.post = v e.post) :
    edgeTerms conv v' d e = edgeTerms conv v d e := by
  unfold edgeTerms; simp [hpre, hpost]

/-- for a current affine in the post voltage, `I(v_pre, x) = a·x + b`, the secant linearisation reproduces the current density
exactly at EVERY post voltage `x`: `vt·x + ct = conv·I(v_pre, x)` — so the implicit step treats it exactly -/
theorem secant_exact_of_affine (e : SynEdge ℝ) (a b : ℝ) (hd : d ≠ 0) (haff : ∀ x, e.cur (v e.pre) x = a * x + b) (x : ℝ) :
    (edgeTerms conv v d e).1 * x + (edgeTerms conv v d e).2 = conv e.post * e.cur (v e.pre) x := by
  unfold edgeTerms
  simp only [haff]
  field_simp
  ring

/-- permuting the creation order of the synapses changes no compartment's terms -/
theorem edge_order_invariant (e1 e2 : List (SynEdge ℝ)) (hp : e1.Perm e2) (c : Nat) :
    synTerms conv v d e1 c = synTerms conv v d e2 c := by
  rw [synTerms_eq_sum, synTerms_eq_sum]
  have hf := hp.filter (fun e => e.post == c)
  rw [(hf.map (fun e => (edgeTerms conv v d e).1)).sum_eq, (hf.map (fun e => (edgeTerms conv v d e).2)).sum_eq]

/-- zero conductance: if every current vanishes identically, all synaptic terms vanish -/
theorem zero_conductance_isolates (edges : List (SynEdge ℝ)) (h : ∀ e ∈ edges, ∀ x y, e.cur x y = 0) (c : Nat) :
    synTerms conv v d edges c = (0, 0) := by
  rw [synTerms_eq_sum]
  have h1 : ∀ e ∈ edges.filter (fun e => e.post == c), (edgeTerms conv v d e) = (0, 0) := by
    intro e he
    have := h e (List.mem_filter.mp he).1
    unfold edgeTerms; simp [this]
  have s1 : ((edges.filter (fun e => e.post == c)).map (fun e => (edgeTerms conv v d e).1)).sum = 0 :=
    List.sum_eq_zero (by intro x hx; obtain ⟨e, he, rfl⟩ := List.mem_map.mp hx; rw [h1 e he])
  have s2 : ((edges.filter (fun e => e.post == c)).map (fun e => (edgeTerms conv v d e).2)).sum = 0 :=
    List.sum_eq_zero (by intro x hx; obtain ⟨e, he, rfl⟩ := List.mem_map.mp hx; rw [h1 e he])
  simp [s1, s2]

/-- non-vacuity: two synapses onto compartment 1 add, compartment 0 receives nothing -/
example : (synTerms (fun _ => (2:ℝ)) (fun _ => (1:ℝ)) 1 [⟨0, 1, fun _ y => 3 * y⟩, ⟨2, 1, fun _ y => 5 * y⟩] 1).1 = 16 ∧
    synTerms (fun _ => (2:ℝ)) (fun _ => (1:ℝ)) 1 [⟨0, 1, fun _ y => 3 * y⟩, ⟨2, 1, fun _ y => 5 * y⟩] 0 = (0, 0) := by
  constructor <;> norm_num [synTerms, edgeTerms]

end JaxleyVerif.Props.C09
