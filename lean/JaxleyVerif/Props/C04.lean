/-
C04 — built-in mechanisms implement their published kinetics and currents.

`Gen.*` is regenerated from jaxley's Python source on every run; `Spec.*` (Spec/Published.lean) is typed in
from the publications.  Theorems: equality on the region where jaxley's clipped exponential `save_exp`
is not clipping, which contains the property's domain except where stated otherwise.
-/
import JaxleyVerif.Lemmas.Gate
import JaxleyVerif.Spec.Published

namespace JaxleyVerif.Props.C04
open JaxleyVerif JaxleyVerif.Gen

/-- replace every clipped exponential by `Real.exp`, discharging `arg ≤ 20` from the hypotheses -/
macro "unclip" : tactic => `(tactic|
  (simp only [save_exp_def]
   repeat (rw [min_eq_left]; swap; · (first | linarith | (norm_num; linarith) | (norm_num at *; linarith)))))

/-- close an equality (of scalars or pairs) of `Real.exp` expressions up to normalisation of arithmetic -/
macro "close_scalar_eq" : tactic => `(tactic| first
  | done
  | rfl
  | (norm_num; done)
  | (norm_num; ring_nf; done)
  | (norm_num; field_simp; ring_nf; done))

macro "close_eq" : tactic => `(tactic| first
  | done
  | rfl
  | (refine Prod.ext ?_ ?_ <;> simp only [] <;> close_scalar_eq)
  | close_scalar_eq)

theorem HH_m_gate_eq {v : ℝ} (h : -150 ≤ v) :
    HH.m_gate v = (Spec.HH.alpha_m v, Spec.HH.beta_m v) := by
  unfold HH.m_gate _vtrap Spec.HH.alpha_m Spec.HH.beta_m Spec.HH.vtrap
  unclip
  simp only [transc_exp_real]
  close_eq

theorem HH_h_gate_eq {v : ℝ} (h : -150 ≤ v) :
    HH.h_gate v = (Spec.HH.alpha_h v, Spec.HH.beta_h v) := by
  unfold HH.h_gate Spec.HH.alpha_h Spec.HH.beta_h
  unclip
  simp only [transc_exp_real]
  close_eq

theorem HH_n_gate_eq {v : ℝ} (h : -150 ≤ v) :
    HH.n_gate v = (Spec.HH.alpha_n v, Spec.HH.beta_n v) := by
  unfold HH.n_gate _vtrap Spec.HH.alpha_n Spec.HH.beta_n Spec.HH.vtrap
  unclip
  simp only [transc_exp_real]
  close_eq

theorem HH_current_eq (pfx : String) (st pr : String → ℝ) (v : ℝ) :
    HH.compute_current pfx st v pr
      = Spec.HH.current (pr (pfx ++ "_gNa")) (pr (pfx ++ "_gK")) (pr (pfx ++ "_gLeak"))
          (pr (pfx ++ "_eNa")) (pr (pfx ++ "_eK")) (pr (pfx ++ "_eLeak"))
          (st (pfx ++ "_m")) (st (pfx ++ "_h")) (st (pfx ++ "_n")) v := by
  unfold HH.compute_current Spec.HH.current
  ring

/-- Na: equality on `vt − 60 ≤ v ≤ vt + 140` (β_h is the binding clip; α_m clips below `vt − 67`) -/
theorem Na_m_gate_eq {v vt : ℝ} (h1 : vt - 67 ≤ v) (h2 : v ≤ vt + 140) :
    Na.m_gate v vt = (Spec.Posp.alpha_m v vt, Spec.Posp.beta_m v vt) := by
  unfold Na.m_gate efun Spec.Posp.alpha_m Spec.Posp.beta_m
  unclip
  simp only [transc_exp_real]
  close_eq

theorem Na_h_gate_eq {v vt : ℝ} (h1 : vt - 60 ≤ v) :
    Na.h_gate v vt = (Spec.Posp.alpha_h v vt, Spec.Posp.beta_h v vt) := by
  unfold Na.h_gate Spec.Posp.alpha_h Spec.Posp.beta_h
  unclip
  simp only [transc_exp_real]
  close_eq

theorem Na_current_eq (pfx : String) (st pr : String → ℝ) (v : ℝ) :
    Na.compute_current pfx st v pr
      = Spec.Posp.na_current (pr (pfx ++ "_gNa")) (pr "eNa") (st (pfx ++ "_m")) (st (pfx ++ "_h")) v := by
  unfold Na.compute_current Spec.Posp.na_current; ring

theorem K_n_gate_eq {v vt : ℝ} (h1 : vt - 85 ≤ v) :
    K.n_gate v vt = (Spec.Posp.alpha_n v vt, Spec.Posp.beta_n v vt) := by
  unfold K.n_gate efun Spec.Posp.alpha_n Spec.Posp.beta_n
  unclip
  simp only [transc_exp_real]
  close_eq

theorem K_current_eq (pfx : String) (st pr : String → ℝ) (v : ℝ) :
    K.compute_current pfx st v pr = Spec.Posp.k_current (pr (pfx ++ "_gK")) (pr "eK") (st (pfx ++ "_n")) v := by
  unfold K.compute_current Spec.Posp.k_current; ring

theorem Km_p_gate_eq {v taumax : ℝ} (h1 : -150 ≤ v) (h2 : v ≤ 100) :
    Km.p_gate v taumax = (Spec.Posp.p_inf v, Spec.Posp.tau_p v taumax) := by
  unfold Km.p_gate Spec.Posp.p_inf Spec.Posp.tau_p
  unclip
  simp only [transc_exp_real]
  close_eq

theorem Km_current_eq (pfx : String) (st pr : String → ℝ) (v : ℝ) :
    Km.compute_current pfx st v pr = Spec.Posp.km_current (pr (pfx ++ "_gKm")) (pr "eK") (st (pfx ++ "_p")) v := by
  unfold Km.compute_current Spec.Posp.km_current; ring

/-- CaL: α_q clips below −103 mV -/
theorem CaL_q_gate_eq {v : ℝ} (h1 : -103 ≤ v) :
    CaL.q_gate v = (Spec.Posp.alpha_q v, Spec.Posp.beta_q v) := by
  unfold CaL.q_gate efun Spec.Posp.alpha_q Spec.Posp.beta_q
  unclip
  simp only [transc_exp_real]
  close_eq

theorem CaL_r_gate_eq {v : ℝ} (h1 : -150 ≤ v) :
    CaL.r_gate v = (Spec.Posp.alpha_r v, Spec.Posp.beta_r v) := by
  unfold CaL.r_gate Spec.Posp.alpha_r Spec.Posp.beta_r
  unclip
  simp only [transc_exp_real]
  close_eq

theorem CaL_current_eq (pfx : String) (st pr : String → ℝ) (v : ℝ) :
    CaL.compute_current pfx st v pr
      = Spec.Posp.cal_current (pr (pfx ++ "_gCaL")) (pr "eCa") (st (pfx ++ "_q")) (st (pfx ++ "_r")) v := by
  unfold CaL.compute_current Spec.Posp.cal_current; ring

/-- CaT: equality of `(u_∞, τ_u)` on `v + vx ≤ −20` only (both exponentials of τ_u clip above) -/
theorem CaT_u_gate_eq {v vx : ℝ} (h1 : v + vx ≤ -20) :
    CaT.u_gate v vx = (Spec.Posp.u_inf v vx, Spec.Posp.tau_u v vx) := by
  unfold CaT.u_gate Spec.Posp.u_inf Spec.Posp.tau_u
  unclip
  simp only [transc_exp_real]
  close_eq

theorem CaT_current_eq (pfx : String) (st pr : String → ℝ) {v : ℝ} (h : -181 ≤ v + pr (pfx ++ "_vx")) :
    CaT.compute_current pfx st v pr
      = Spec.Posp.cat_current (pr (pfx ++ "_gCaT")) (pr "eCa") (st (pfx ++ "_u")) v (pr (pfx ++ "_vx")) := by
  unfold CaT.compute_current Spec.Posp.cat_current Spec.Posp.s_inf
  unclip
  simp only [transc_exp_real]
  close_eq

theorem Leak_current_eq (pfx : String) (st pr : String → ℝ) (v : ℝ) :
    Leak.compute_current pfx st v pr = Spec.Posp.leak_current (pr (pfx ++ "_gLeak")) (pr (pfx ++ "_eLeak")) v := by
  unfold Leak.compute_current Spec.Posp.leak_current; ring

/-- Abbott–Marder synapse: steady state/time constant used by the update, and the current -/
theorem Ionotropic_current_eq (pfx : String) (st pr : String → ℝ) (vpre vpost : ℝ) :
    IonotropicSynapse.compute_current pfx st vpre vpost pr
      = Spec.AM.current (pr (pfx ++ "_gS")) (pr (pfx ++ "_e_syn")) (st (pfx ++ "_s")) vpost := by
  unfold IonotropicSynapse.compute_current Spec.AM.current; ring

theorem Ionotropic_update_eq (pfx : String) (st pr : String → ℝ) {dt vpre vpost : ℝ} (h : -235 ≤ vpre) :
    IonotropicSynapse.update_states pfx st dt vpre vpost pr
      = [(pfx ++ "_s", solve_inf_gate_exponential (st (pfx ++ "_s")) dt (Spec.AM.s_inf vpre)
            (Spec.AM.tau_s vpre (pr (pfx ++ "_k_minus"))))] := by
  unfold IonotropicSynapse.update_states solve_inf_gate_exponential Spec.AM.tau_s Spec.AM.s_inf
  have : save_exp ((-35.0 - vpre) / 10.0) = Real.exp ((-35.0 - vpre) / 10.0) := by
    apply save_exp_eq; norm_num; linarith
  simp only [this, transc_exp_real]

/-! ### where the clip is active inside the property's domain (known finding N4) -/

/-- For `v + vx > −20` the denominator exponential of CaT's `τ_u` is clipped: jaxley evaluates `e²⁰`
where the published formula has `exp((v+vx+84)/3.2) > e²⁰` (and for `v + vx > −13.2` also the numerator's),
so the time constant deviates from Pospischil's (0.27 ms instead of 0.0058 ms at `v + vx = 2`). -/
theorem CaT_tau_u_clip_active {v vx : ℝ} (h : -20 < v + vx) :
    save_exp ((v + vx + 84.0) / 3.2) = Real.exp 20 ∧ Real.exp 20 < Real.exp ((v + vx + 84.0) / 3.2) := by
  have hb : (20:ℝ) < (v + vx + 84.0) / 3.2 := by norm_num; rw [lt_div_iff₀ (by norm_num)]; linarith
  exact ⟨save_exp_clipped hb.le, Real.exp_lt_exp.mpr hb⟩

/-! ### default parameter tables -/

theorem HH_defaults (pfx : String) : HH.channel_params (α := ℝ) pfx = Spec.HH.defaults pfx := by
  unfold HH.channel_params Spec.HH.defaults; norm_num
theorem Leak_defaults (pfx : String) : Leak.channel_params (α := ℝ) pfx = Spec.Posp.leak_defaults pfx := by
  unfold Leak.channel_params Spec.Posp.leak_defaults; norm_num
theorem Na_defaults (pfx : String) : Na.channel_params (α := ℝ) pfx = Spec.Posp.na_defaults pfx := by
  unfold Na.channel_params Spec.Posp.na_defaults; norm_num
theorem K_defaults (pfx : String) : K.channel_params (α := ℝ) pfx = Spec.Posp.k_defaults pfx := by
  unfold K.channel_params Spec.Posp.k_defaults; norm_num
theorem Km_defaults (pfx : String) : Km.channel_params (α := ℝ) pfx = Spec.Posp.km_defaults pfx := by
  unfold Km.channel_params Spec.Posp.km_defaults; norm_num
theorem CaL_defaults (pfx : String) : CaL.channel_params (α := ℝ) pfx = Spec.Posp.cal_defaults pfx := by
  unfold CaL.channel_params Spec.Posp.cal_defaults; norm_num
theorem CaT_defaults (pfx : String) : CaT.channel_params (α := ℝ) pfx = Spec.Posp.cat_defaults pfx := by
  unfold CaT.channel_params Spec.Posp.cat_defaults; norm_num
theorem Ionotropic_defaults (pfx : String) :
    IonotropicSynapse.synapse_params (α := ℝ) pfx = Spec.AM.defaults pfx := by
  unfold IonotropicSynapse.synapse_params Spec.AM.defaults; norm_num

/-! ### renaming changes only names

The generated kernels take the name prefix as a parameter.  If the states/parameters seen under the new
prefix `q` are those seen under `p` (and the un-prefixed global keys `vt, eNa, eK, eCa` are shared), the
returned values are identical and the returned keys are the renamed ones. -/

section rename
variable (p q : String) (st st' pr pr' : String → ℝ) (dt v : ℝ)
variable (hst : ∀ sfx, st' (q ++ sfx) = st (p ++ sfx)) (hpr : ∀ sfx, pr' (q ++ sfx) = pr (p ++ sfx))
include hst hpr

theorem HH_rename :
    ((HH.update_states q st' dt v pr').map Prod.snd = (HH.update_states p st dt v pr).map Prod.snd
      ∧ (HH.update_states q st' dt v pr').map Prod.fst = ["_m", "_h", "_n"].map (q ++ ·))
    ∧ HH.compute_current q st' v pr' = HH.compute_current p st v pr := by
  unfold HH.update_states HH.compute_current
  simp [hst, hpr]

theorem Na_rename (h_vt : pr' "vt" = pr "vt") (h_eNa : pr' "eNa" = pr "eNa") :
    ((Na.update_states q st' dt v pr').map Prod.snd = (Na.update_states p st dt v pr).map Prod.snd
      ∧ (Na.update_states q st' dt v pr').map Prod.fst = ["_m", "_h"].map (q ++ ·))
    ∧ Na.compute_current q st' v pr' = Na.compute_current p st v pr := by
  unfold Na.update_states Na.compute_current
  simp [hst, hpr, h_vt, h_eNa]

theorem K_rename (h_vt : pr' "vt" = pr "vt") (h_eK : pr' "eK" = pr "eK") :
    ((K.update_states q st' dt v pr').map Prod.snd = (K.update_states p st dt v pr).map Prod.snd
      ∧ (K.update_states q st' dt v pr').map Prod.fst = ["_n"].map (q ++ ·))
    ∧ K.compute_current q st' v pr' = K.compute_current p st v pr := by
  unfold K.update_states K.compute_current
  simp [hst, hpr, h_vt, h_eK]

theorem Km_rename (h_eK : pr' "eK" = pr "eK") :
    ((Km.update_states q st' dt v pr').map Prod.snd = (Km.update_states p st dt v pr).map Prod.snd
      ∧ (Km.update_states q st' dt v pr').map Prod.fst = ["_p"].map (q ++ ·))
    ∧ Km.compute_current q st' v pr' = Km.compute_current p st v pr := by
  unfold Km.update_states Km.compute_current
  simp [hst, hpr, h_eK]

theorem CaL_rename (h_eCa : pr' "eCa" = pr "eCa") :
    ((CaL.update_states q st' dt v pr').map Prod.snd = (CaL.update_states p st dt v pr).map Prod.snd
      ∧ (CaL.update_states q st' dt v pr').map Prod.fst = ["_q", "_r"].map (q ++ ·))
    ∧ CaL.compute_current q st' v pr' = CaL.compute_current p st v pr := by
  unfold CaL.update_states CaL.compute_current
  simp [hst, hpr, h_eCa]

theorem CaT_rename (h_eCa : pr' "eCa" = pr "eCa") :
    ((CaT.update_states q st' dt v pr').map Prod.snd = (CaT.update_states p st dt v pr).map Prod.snd
      ∧ (CaT.update_states q st' dt v pr').map Prod.fst = ["_u"].map (q ++ ·))
    ∧ CaT.compute_current q st' v pr' = CaT.compute_current p st v pr := by
  unfold CaT.update_states CaT.compute_current
  simp [hst, hpr, h_eCa]

end rename

end JaxleyVerif.Props.C04
