/-
C05, companion: the GENERATED rate kernels (`Gen/Kernels.lean`) are reflected into the expression language `Ex` of `Props/C05.lean`
on the region where `save_exp` does not clip; hence running a generated kernel on dual numbers yields its true derivative.
The reflection lemmas are `rfl` after the clip has been removed, so they break when the Python formula changes (intended).
-/
import JaxleyVerif.Props.C05
import JaxleyVerif.Gen.Kernels
import JaxleyVerif.Lemmas.RealInst
import JaxleyVerif.Lemmas.Gate
import Mathlib.Topology.Order.OrderClosed
import Mathlib.Topology.Algebra.Order.Field
import Mathlib.Tactic.FunProp
import Mathlib.Topology.Algebra.Ring.Real

namespace JaxleyVerif.Props.C05
open JaxleyVerif JaxleyVerif.Gen Topology

-- some unclipped-region hypotheses are implied by the others; they are kept so that every `save_exp` argument is listed
set_option linter.unusedVariables false

/-! ### the clip on dual numbers: `min` selects by the real part -/

theorem save_exp_dual (d : Dual ℝ) (h : d.re ≤ 20) : save_exp d = Transc.exp d := by
  unfold save_exp
  have : min d (20.0 : Dual ℝ) = d := by
    show (if (20.0 : Dual ℝ).re < d.re then (20.0 : Dual ℝ) else d) = d
    have h20 : (20.0 : Dual ℝ).re = 20 := by show (20.0 : ℝ) = 20; norm_num
    rw [h20, if_neg (not_lt.mpr h)]
  simp only [this]

theorem save_exp_real (x : ℝ) (h : x ≤ 20) : save_exp x = Transc.exp x := save_exp_eq h

/-- the generic step from a reflection to the derivative statement -/
theorem kernel_deriv (f : ℝ → ℝ) (e : Ex) (d v : ℝ) (U : Set ℝ) (hU : U ∈ 𝓝 v) (hf : ∀ w ∈ U, f w = eval e w)
    (hd : d = (evalDual e ⟨v, 1⟩).eps) (hdef : Defined e v) : HasDerivAt f d v := by
  subst hd
  exact (dual_eval_is_derivative e v hdef).congr_of_eventuallyEq (Filter.eventually_of_mem hU hf)

theorem nhds_lt (g : ℝ → ℝ) (hg : Continuous g) (v c : ℝ) (h : g v < c) : {w | g w < c} ∈ 𝓝 v :=
  (isOpen_lt hg continuous_const).mem_nhds h

theorem exp_sub_one_ne_zero {t : ℝ} (h : t ≠ 0) : Real.exp t - 1 ≠ 0 := by
  intro h0
  exact h (Real.exp_eq_one_iff t |>.mp (by linarith))

/-! ### building blocks -/

/-- `save_exp a` (unclipped) -/
abbrev eExp (a : Ex) : Ex := .exp a
/-- `_vtrap x y = x / (save_exp (x / y) - 1.0)` -/
abbrev eVtrap (x : Ex) (y : ℝ) : Ex := .div x (.sub (.exp (.div x (.const y))) (.const 1.0))
/-- `efun x = x / (save_exp x - 1.0)` -/
abbrev eEfun (x : Ex) : Ex := .div x (.sub (.exp x) (.const 1.0))

/-! ### HH.m_gate -/

def eHHmA : Ex := .mul (.const 0.1) (eVtrap (.neg (.add .var (.const 40.0))) 10.0)
def eHHmB : Ex := .mul (.const 4.0) (eExp (.div (.neg (.add .var (.const 65.0))) (.const 18.0)))

theorem HH_m_gate_real (v : ℝ) (h1 : (-(v + 40.0)) / 10.0 ≤ 20) (h2 : (-(v + 65.0)) / 18.0 ≤ 20) :
    HH.m_gate v = (eval eHHmA v, eval eHHmB v) := by
  unfold HH.m_gate _vtrap
  rw [save_exp_real _ h1, save_exp_real _ h2]
  rfl

theorem HH_m_gate_dual (v : ℝ) (h1 : (-(v + 40.0)) / 10.0 ≤ 20) (h2 : (-(v + 65.0)) / 18.0 ≤ 20) :
    HH.m_gate (⟨v, 1⟩ : Dual ℝ) = (evalDual eHHmA ⟨v, 1⟩, evalDual eHHmB ⟨v, 1⟩) := by
  unfold HH.m_gate _vtrap
  rw [save_exp_dual _ h1, save_exp_dual _ h2]
  rfl

/-- running the generated `HH.m_gate` on dual numbers yields the derivative of `alpha_m` -/
theorem HH_m_alpha_deriv (v : ℝ) (h1 : (-(v + 40)) / 10 < 20) (_h2 : (-(v + 65)) / 18 < 20) (hv : v ≠ -40) :
    HasDerivAt (fun v => (HH.m_gate v).1) ((HH.m_gate (⟨v, 1⟩ : Dual ℝ)).1.eps) v := by
  refine kernel_deriv _ eHHmA _ v {w | (-(w + 40.0)) / 10.0 < 20 ∧ (-(w + 65.0)) / 18.0 < 20} ?_ ?_ ?_ ?_
  · exact Filter.inter_mem (nhds_lt (fun w => (-(w + 40.0)) / 10.0) (by fun_prop) v 20 (by norm_num; linarith))
      (nhds_lt (fun w => (-(w + 65.0)) / 18.0) (by fun_prop) v 20 (by norm_num; linarith))
  · intro w hw
    show (HH.m_gate w).1 = _
    rw [HH_m_gate_real w hw.1.le hw.2.le]
  · rw [HH_m_gate_dual v (by norm_num; linarith) (by norm_num; linarith)]
  · simp only [eHHmA, eVtrap, Defined, eval, true_and, and_true]
    refine ⟨by norm_num, ?_⟩
    norm_num
    apply exp_sub_one_ne_zero
    intro h0
    apply hv
    linarith

/-- … and of `beta_m` -/
theorem HH_m_beta_deriv (v : ℝ) (h1 : (-(v + 40)) / 10 < 20) (_h2 : (-(v + 65)) / 18 < 20) :
    HasDerivAt (fun v => (HH.m_gate v).2) ((HH.m_gate (⟨v, 1⟩ : Dual ℝ)).2.eps) v := by
  refine kernel_deriv _ eHHmB _ v {w | (-(w + 40.0)) / 10.0 < 20 ∧ (-(w + 65.0)) / 18.0 < 20} ?_ ?_ ?_ ?_
  · exact Filter.inter_mem (nhds_lt (fun w => (-(w + 40.0)) / 10.0) (by fun_prop) v 20 (by norm_num; linarith))
      (nhds_lt (fun w => (-(w + 65.0)) / 18.0) (by fun_prop) v 20 (by norm_num; linarith))
  · intro w hw
    show (HH.m_gate w).2 = _
    rw [HH_m_gate_real w hw.1.le hw.2.le]
  · rw [HH_m_gate_dual v (by norm_num; linarith) (by norm_num; linarith)]
  · simp only [eHHmB, eExp, Defined, eval, true_and, and_true]
    norm_num

/-! ### HH.h_gate -/

def eHHhA : Ex := .mul (.const 0.07) (eExp (.div (.neg (.add .var (.const 65.0))) (.const 20.0)))
def eHHhB : Ex := .div (.const 1.0) (.add (eExp (.div (.neg (.add .var (.const 35.0))) (.const 10.0))) (.const 1.0))

theorem HH_h_gate_real (v : ℝ) (h1 : (-(v + 65.0)) / 20.0 ≤ 20) (h2 : (-(v + 35.0)) / 10.0 ≤ 20) :
    HH.h_gate v = (eval eHHhA v, eval eHHhB v) := by
  unfold HH.h_gate
  rw [save_exp_real _ h1, save_exp_real _ h2]
  rfl

theorem HH_h_gate_dual (v : ℝ) (h1 : (-(v + 65.0)) / 20.0 ≤ 20) (h2 : (-(v + 35.0)) / 10.0 ≤ 20) :
    HH.h_gate (⟨v, 1⟩ : Dual ℝ) = (evalDual eHHhA ⟨v, 1⟩, evalDual eHHhB ⟨v, 1⟩) := by
  unfold HH.h_gate
  rw [save_exp_dual _ h1, save_exp_dual _ h2]
  rfl

theorem HH_h_alpha_deriv (v : ℝ) (h1 : (-(v + 65)) / 20 < 20) (h2 : (-(v + 35)) / 10 < 20) :
    HasDerivAt (fun v => (HH.h_gate v).1) ((HH.h_gate (⟨v, 1⟩ : Dual ℝ)).1.eps) v := by
  refine kernel_deriv _ eHHhA _ v {w | (-(w + 65.0)) / 20.0 < 20 ∧ (-(w + 35.0)) / 10.0 < 20} ?_ ?_ ?_ ?_
  · exact Filter.inter_mem (nhds_lt (fun w => (-(w + 65.0)) / 20.0) (by fun_prop) v 20 (by norm_num; linarith))
      (nhds_lt (fun w => (-(w + 35.0)) / 10.0) (by fun_prop) v 20 (by norm_num; linarith))
  · intro w hw
    show (HH.h_gate w).1 = _
    rw [HH_h_gate_real w hw.1.le hw.2.le]
  · rw [HH_h_gate_dual v (by norm_num; linarith) (by norm_num; linarith)]
  · simp only [eHHhA, eExp, Defined, eval, true_and, and_true]
    norm_num

theorem HH_h_beta_deriv (v : ℝ) (h1 : (-(v + 65)) / 20 < 20) (h2 : (-(v + 35)) / 10 < 20) :
    HasDerivAt (fun v => (HH.h_gate v).2) ((HH.h_gate (⟨v, 1⟩ : Dual ℝ)).2.eps) v := by
  refine kernel_deriv _ eHHhB _ v {w | (-(w + 65.0)) / 20.0 < 20 ∧ (-(w + 35.0)) / 10.0 < 20} ?_ ?_ ?_ ?_
  · exact Filter.inter_mem (nhds_lt (fun w => (-(w + 65.0)) / 20.0) (by fun_prop) v 20 (by norm_num; linarith))
      (nhds_lt (fun w => (-(w + 35.0)) / 10.0) (by fun_prop) v 20 (by norm_num; linarith))
  · intro w hw
    show (HH.h_gate w).2 = _
    rw [HH_h_gate_real w hw.1.le hw.2.le]
  · rw [HH_h_gate_dual v (by norm_num; linarith) (by norm_num; linarith)]
  · simp only [eHHhB, eExp, Defined, eval, true_and, and_true]
    refine ⟨by norm_num, ?_⟩
    have := Real.exp_pos (-(v + 65.0 - 30.0) / 10.0)
    positivity

/-! ### HH.n_gate -/

def eHHnA : Ex := .mul (.const 0.01) (eVtrap (.neg (.add .var (.const 55.0))) 10.0)
def eHHnB : Ex := .mul (.const 0.125) (eExp (.div (.neg (.add .var (.const 65.0))) (.const 80.0)))

theorem HH_n_gate_real (v : ℝ) (h1 : (-(v + 55.0)) / 10.0 ≤ 20) (h2 : (-(v + 65.0)) / 80.0 ≤ 20) :
    HH.n_gate v = (eval eHHnA v, eval eHHnB v) := by
  unfold HH.n_gate _vtrap
  rw [save_exp_real _ h1, save_exp_real _ h2]
  rfl

theorem HH_n_gate_dual (v : ℝ) (h1 : (-(v + 55.0)) / 10.0 ≤ 20) (h2 : (-(v + 65.0)) / 80.0 ≤ 20) :
    HH.n_gate (⟨v, 1⟩ : Dual ℝ) = (evalDual eHHnA ⟨v, 1⟩, evalDual eHHnB ⟨v, 1⟩) := by
  unfold HH.n_gate _vtrap
  rw [save_exp_dual _ h1, save_exp_dual _ h2]
  rfl

theorem HH_n_alpha_deriv (v : ℝ) (h1 : (-(v + 55)) / 10 < 20) (h2 : (-(v + 65)) / 80 < 20) (hv : v ≠ -55) :
    HasDerivAt (fun v => (HH.n_gate v).1) ((HH.n_gate (⟨v, 1⟩ : Dual ℝ)).1.eps) v := by
  refine kernel_deriv _ eHHnA _ v {w | (-(w + 55.0)) / 10.0 < 20 ∧ (-(w + 65.0)) / 80.0 < 20} ?_ ?_ ?_ ?_
  · exact Filter.inter_mem (nhds_lt (fun w => (-(w + 55.0)) / 10.0) (by fun_prop) v 20 (by norm_num; linarith))
      (nhds_lt (fun w => (-(w + 65.0)) / 80.0) (by fun_prop) v 20 (by norm_num; linarith))
  · intro w hw
    show (HH.n_gate w).1 = _
    rw [HH_n_gate_real w hw.1.le hw.2.le]
  · rw [HH_n_gate_dual v (by norm_num; linarith) (by norm_num; linarith)]
  · simp only [eHHnA, eVtrap, Defined, eval, true_and, and_true]
    refine ⟨by norm_num, ?_⟩
    norm_num
    apply exp_sub_one_ne_zero
    intro h0
    apply hv
    linarith

theorem HH_n_beta_deriv (v : ℝ) (h1 : (-(v + 55)) / 10 < 20) (h2 : (-(v + 65)) / 80 < 20) :
    HasDerivAt (fun v => (HH.n_gate v).2) ((HH.n_gate (⟨v, 1⟩ : Dual ℝ)).2.eps) v := by
  refine kernel_deriv _ eHHnB _ v {w | (-(w + 55.0)) / 10.0 < 20 ∧ (-(w + 65.0)) / 80.0 < 20} ?_ ?_ ?_ ?_
  · exact Filter.inter_mem (nhds_lt (fun w => (-(w + 55.0)) / 10.0) (by fun_prop) v 20 (by norm_num; linarith))
      (nhds_lt (fun w => (-(w + 65.0)) / 80.0) (by fun_prop) v 20 (by norm_num; linarith))
  · intro w hw
    show (HH.n_gate w).2 = _
    rw [HH_n_gate_real w hw.1.le hw.2.le]
  · rw [HH_n_gate_dual v (by norm_num; linarith) (by norm_num; linarith)]
  · simp only [eHHnB, eExp, Defined, eval, true_and, and_true]
    norm_num

/-! ### K.n_gate (`vt` is a real constant, `⟨vt, 0⟩` on the dual side) -/

def eKnA (vt : ℝ) : Ex :=
  .div (.mul (.const 0.032) (eEfun (.mul (.neg (.const 0.2)) (.sub (.sub .var (.const vt)) (.const 15.0))))) (.const 0.2)
def eKnB (vt : ℝ) : Ex :=
  .mul (.const 0.5) (eExp (.div (.neg (.sub (.sub .var (.const vt)) (.const 10.0))) (.const 40.0)))

theorem K_n_gate_real (v vt : ℝ) (h1 : (-0.2) * ((v - vt) - 15.0) ≤ 20) (h2 : (-((v - vt) - 10.0)) / 40.0 ≤ 20) :
    K.n_gate v vt = (eval (eKnA vt) v, eval (eKnB vt) v) := by
  unfold K.n_gate efun
  dsimp only
  rw [save_exp_real _ h1, save_exp_real _ h2]
  rfl

theorem K_n_gate_dual (v vt : ℝ) (h1 : (-0.2) * ((v - vt) - 15.0) ≤ 20) (h2 : (-((v - vt) - 10.0)) / 40.0 ≤ 20) :
    K.n_gate (⟨v, 1⟩ : Dual ℝ) ⟨vt, 0⟩ = (evalDual (eKnA vt) ⟨v, 1⟩, evalDual (eKnB vt) ⟨v, 1⟩) := by
  unfold K.n_gate efun
  dsimp only
  rw [save_exp_dual _ h1, save_exp_dual _ h2]
  rfl

theorem K_n_alpha_deriv (v vt : ℝ) (h1 : (-0.2) * ((v - vt) - 15) < 20) (h2 : (-((v - vt) - 10)) / 40 < 20)
    (hv : v - vt ≠ 15) :
    HasDerivAt (fun v => (K.n_gate v vt).1) ((K.n_gate (⟨v, 1⟩ : Dual ℝ) ⟨vt, 0⟩).1.eps) v := by
  refine kernel_deriv _ (eKnA vt) _ v
    {w | (-0.2) * ((w - vt) - 15.0) < 20 ∧ (-((w - vt) - 10.0)) / 40.0 < 20} ?_ ?_ ?_ ?_
  · exact Filter.inter_mem (nhds_lt (fun w => (-0.2) * ((w - vt) - 15.0)) (by fun_prop) v 20 (by norm_num at h1 ⊢; linarith))
      (nhds_lt (fun w => (-((w - vt) - 10.0)) / 40.0) (by fun_prop) v 20 (by norm_num at h2 ⊢; linarith))
  · intro w hw
    show (K.n_gate w vt).1 = _
    rw [K_n_gate_real w vt hw.1.le hw.2.le]
  · rw [K_n_gate_dual v vt (by norm_num at h1 ⊢; linarith) (by norm_num at h2 ⊢; linarith)]
  · simp only [eKnA, eEfun, Defined, eval, true_and, and_true]
    refine ⟨?_, by norm_num⟩
    rw [show (1.0 : ℝ) = 1 by norm_num]
    apply exp_sub_one_ne_zero
    intro h0
    apply hv
    norm_num at h0
    linarith

theorem K_n_beta_deriv (v vt : ℝ) (h1 : (-0.2) * ((v - vt) - 15) < 20) (h2 : (-((v - vt) - 10)) / 40 < 20) :
    HasDerivAt (fun v => (K.n_gate v vt).2) ((K.n_gate (⟨v, 1⟩ : Dual ℝ) ⟨vt, 0⟩).2.eps) v := by
  refine kernel_deriv _ (eKnB vt) _ v
    {w | (-0.2) * ((w - vt) - 15.0) < 20 ∧ (-((w - vt) - 10.0)) / 40.0 < 20} ?_ ?_ ?_ ?_
  · exact Filter.inter_mem (nhds_lt (fun w => (-0.2) * ((w - vt) - 15.0)) (by fun_prop) v 20 (by norm_num at h1 ⊢; linarith))
      (nhds_lt (fun w => (-((w - vt) - 10.0)) / 40.0) (by fun_prop) v 20 (by norm_num at h2 ⊢; linarith))
  · intro w hw
    show (K.n_gate w vt).2 = _
    rw [K_n_gate_real w vt hw.1.le hw.2.le]
  · rw [K_n_gate_dual v vt (by norm_num at h1 ⊢; linarith) (by norm_num at h2 ⊢; linarith)]
  · simp only [eKnB, eExp, Defined, eval, true_and, and_true]
    norm_num

/-! ### Na.m_gate -/

def eNamA (vt : ℝ) : Ex :=
  .div (.mul (.const 0.32) (eEfun (.mul (.neg (.const 0.25)) (.sub (.sub .var (.const vt)) (.const 13.0))))) (.const 0.25)
def eNamB (vt : ℝ) : Ex :=
  .div (.mul (.const 0.28) (eEfun (.mul (.const 0.2) (.sub (.sub .var (.const vt)) (.const 40.0))))) (.const 0.2)

theorem Na_m_gate_real (v vt : ℝ) (h1 : (-0.25) * ((v - vt) - 13.0) ≤ 20) (h2 : 0.2 * ((v - vt) - 40.0) ≤ 20) :
    Na.m_gate v vt = (eval (eNamA vt) v, eval (eNamB vt) v) := by
  unfold Na.m_gate efun
  dsimp only
  rw [save_exp_real _ h1, save_exp_real _ h2]
  rfl

theorem Na_m_gate_dual (v vt : ℝ) (h1 : (-0.25) * ((v - vt) - 13.0) ≤ 20) (h2 : 0.2 * ((v - vt) - 40.0) ≤ 20) :
    Na.m_gate (⟨v, 1⟩ : Dual ℝ) ⟨vt, 0⟩ = (evalDual (eNamA vt) ⟨v, 1⟩, evalDual (eNamB vt) ⟨v, 1⟩) := by
  unfold Na.m_gate efun
  dsimp only
  rw [save_exp_dual _ h1, save_exp_dual _ h2]
  rfl

theorem Na_m_alpha_deriv (v vt : ℝ) (h1 : (-0.25) * ((v - vt) - 13) < 20) (h2 : 0.2 * ((v - vt) - 40) < 20)
    (hv : v - vt ≠ 13) :
    HasDerivAt (fun v => (Na.m_gate v vt).1) ((Na.m_gate (⟨v, 1⟩ : Dual ℝ) ⟨vt, 0⟩).1.eps) v := by
  refine kernel_deriv _ (eNamA vt) _ v
    {w | (-0.25) * ((w - vt) - 13.0) < 20 ∧ 0.2 * ((w - vt) - 40.0) < 20} ?_ ?_ ?_ ?_
  · exact Filter.inter_mem (nhds_lt (fun w => (-0.25) * ((w - vt) - 13.0)) (by fun_prop) v 20 (by norm_num at h1 ⊢; linarith))
      (nhds_lt (fun w => 0.2 * ((w - vt) - 40.0)) (by fun_prop) v 20 (by norm_num at h2 ⊢; linarith))
  · intro w hw
    show (Na.m_gate w vt).1 = _
    rw [Na_m_gate_real w vt hw.1.le hw.2.le]
  · rw [Na_m_gate_dual v vt (by norm_num at h1 ⊢; linarith) (by norm_num at h2 ⊢; linarith)]
  · simp only [eNamA, eEfun, Defined, eval, true_and, and_true]
    refine ⟨?_, by norm_num⟩
    rw [show (1.0 : ℝ) = 1 by norm_num]
    apply exp_sub_one_ne_zero
    intro h0
    apply hv
    norm_num at h0
    linarith

theorem Na_m_beta_deriv (v vt : ℝ) (h1 : (-0.25) * ((v - vt) - 13) < 20) (h2 : 0.2 * ((v - vt) - 40) < 20)
    (hv : v - vt ≠ 40) :
    HasDerivAt (fun v => (Na.m_gate v vt).2) ((Na.m_gate (⟨v, 1⟩ : Dual ℝ) ⟨vt, 0⟩).2.eps) v := by
  refine kernel_deriv _ (eNamB vt) _ v
    {w | (-0.25) * ((w - vt) - 13.0) < 20 ∧ 0.2 * ((w - vt) - 40.0) < 20} ?_ ?_ ?_ ?_
  · exact Filter.inter_mem (nhds_lt (fun w => (-0.25) * ((w - vt) - 13.0)) (by fun_prop) v 20 (by norm_num at h1 ⊢; linarith))
      (nhds_lt (fun w => 0.2 * ((w - vt) - 40.0)) (by fun_prop) v 20 (by norm_num at h2 ⊢; linarith))
  · intro w hw
    show (Na.m_gate w vt).2 = _
    rw [Na_m_gate_real w vt hw.1.le hw.2.le]
  · rw [Na_m_gate_dual v vt (by norm_num at h1 ⊢; linarith) (by norm_num at h2 ⊢; linarith)]
  · simp only [eNamB, eEfun, Defined, eval, true_and, and_true]
    refine ⟨?_, by norm_num⟩
    rw [show (1.0 : ℝ) = 1 by norm_num]
    apply exp_sub_one_ne_zero
    intro h0
    apply hv
    norm_num at h0
    linarith

/-! ### Na.h_gate -/

def eNahA (vt : ℝ) : Ex :=
  .mul (.const 0.128) (eExp (.div (.neg (.sub (.sub .var (.const vt)) (.const 17.0))) (.const 18.0)))
def eNahB (vt : ℝ) : Ex :=
  .div (.const 4.0) (.add (eExp (.div (.neg (.sub (.sub .var (.const vt)) (.const 40.0))) (.const 5.0))) (.const 1.0))

theorem Na_h_gate_real (v vt : ℝ) (h1 : (-((v - vt) - 17.0)) / 18.0 ≤ 20) (h2 : (-((v - vt) - 40.0)) / 5.0 ≤ 20) :
    Na.h_gate v vt = (eval (eNahA vt) v, eval (eNahB vt) v) := by
  unfold Na.h_gate
  dsimp only
  rw [save_exp_real _ h1, save_exp_real _ h2]
  rfl

theorem Na_h_gate_dual (v vt : ℝ) (h1 : (-((v - vt) - 17.0)) / 18.0 ≤ 20) (h2 : (-((v - vt) - 40.0)) / 5.0 ≤ 20) :
    Na.h_gate (⟨v, 1⟩ : Dual ℝ) ⟨vt, 0⟩ = (evalDual (eNahA vt) ⟨v, 1⟩, evalDual (eNahB vt) ⟨v, 1⟩) := by
  unfold Na.h_gate
  dsimp only
  rw [save_exp_dual _ h1, save_exp_dual _ h2]
  rfl

theorem Na_h_alpha_deriv (v vt : ℝ) (h1 : (-((v - vt) - 17)) / 18 < 20) (h2 : (-((v - vt) - 40)) / 5 < 20) :
    HasDerivAt (fun v => (Na.h_gate v vt).1) ((Na.h_gate (⟨v, 1⟩ : Dual ℝ) ⟨vt, 0⟩).1.eps) v := by
  refine kernel_deriv _ (eNahA vt) _ v
    {w | (-((w - vt) - 17.0)) / 18.0 < 20 ∧ (-((w - vt) - 40.0)) / 5.0 < 20} ?_ ?_ ?_ ?_
  · exact Filter.inter_mem (nhds_lt (fun w => (-((w - vt) - 17.0)) / 18.0) (by fun_prop) v 20 (by norm_num at h1 ⊢; linarith))
      (nhds_lt (fun w => (-((w - vt) - 40.0)) / 5.0) (by fun_prop) v 20 (by norm_num at h2 ⊢; linarith))
  · intro w hw
    show (Na.h_gate w vt).1 = _
    rw [Na_h_gate_real w vt hw.1.le hw.2.le]
  · rw [Na_h_gate_dual v vt (by norm_num at h1 ⊢; linarith) (by norm_num at h2 ⊢; linarith)]
  · simp only [eNahA, eExp, Defined, eval, true_and, and_true]
    norm_num

theorem Na_h_beta_deriv (v vt : ℝ) (h1 : (-((v - vt) - 17)) / 18 < 20) (h2 : (-((v - vt) - 40)) / 5 < 20) :
    HasDerivAt (fun v => (Na.h_gate v vt).2) ((Na.h_gate (⟨v, 1⟩ : Dual ℝ) ⟨vt, 0⟩).2.eps) v := by
  refine kernel_deriv _ (eNahB vt) _ v
    {w | (-((w - vt) - 17.0)) / 18.0 < 20 ∧ (-((w - vt) - 40.0)) / 5.0 < 20} ?_ ?_ ?_ ?_
  · exact Filter.inter_mem (nhds_lt (fun w => (-((w - vt) - 17.0)) / 18.0) (by fun_prop) v 20 (by norm_num at h1 ⊢; linarith))
      (nhds_lt (fun w => (-((w - vt) - 40.0)) / 5.0) (by fun_prop) v 20 (by norm_num at h2 ⊢; linarith))
  · intro w hw
    show (Na.h_gate w vt).2 = _
    rw [Na_h_gate_real w vt hw.1.le hw.2.le]
  · rw [Na_h_gate_dual v vt (by norm_num at h1 ⊢; linarith) (by norm_num at h2 ⊢; linarith)]
  · simp only [eNahB, eExp, Defined, eval, true_and, and_true]
    refine ⟨by norm_num, ?_⟩
    have := Real.exp_pos (-(v - vt - 40.0) / 5.0)
    positivity

/-! ### CaL.q_gate -/

def eCaLqA : Ex :=
  .mul (.mul (.const 0.055) (eEfun (.div (.sub (.neg .var) (.const 27.0)) (.const 3.8)))) (.const 3.8)
def eCaLqB : Ex := .mul (.const 0.94) (eExp (.div (.sub (.neg .var) (.const 75.0)) (.const 17.0)))

theorem CaL_q_gate_real (v : ℝ) (h1 : ((-v) - 27.0) / 3.8 ≤ 20) (h2 : ((-v) - 75.0) / 17.0 ≤ 20) :
    CaL.q_gate v = (eval eCaLqA v, eval eCaLqB v) := by
  unfold CaL.q_gate efun
  dsimp only
  rw [save_exp_real _ h1, save_exp_real _ h2]
  rfl

theorem CaL_q_gate_dual (v : ℝ) (h1 : ((-v) - 27.0) / 3.8 ≤ 20) (h2 : ((-v) - 75.0) / 17.0 ≤ 20) :
    CaL.q_gate (⟨v, 1⟩ : Dual ℝ) = (evalDual eCaLqA ⟨v, 1⟩, evalDual eCaLqB ⟨v, 1⟩) := by
  unfold CaL.q_gate efun
  dsimp only
  rw [save_exp_dual _ h1, save_exp_dual _ h2]
  rfl

theorem CaL_q_alpha_deriv (v : ℝ) (h1 : ((-v) - 27) / 3.8 < 20) (h2 : ((-v) - 75) / 17 < 20) (hv : v ≠ -27) :
    HasDerivAt (fun v => (CaL.q_gate v).1) ((CaL.q_gate (⟨v, 1⟩ : Dual ℝ)).1.eps) v := by
  refine kernel_deriv _ eCaLqA _ v {w | ((-w) - 27.0) / 3.8 < 20 ∧ ((-w) - 75.0) / 17.0 < 20} ?_ ?_ ?_ ?_
  · exact Filter.inter_mem (nhds_lt (fun w => ((-w) - 27.0) / 3.8) (by fun_prop) v 20 (by norm_num at h1 ⊢; linarith))
      (nhds_lt (fun w => ((-w) - 75.0) / 17.0) (by fun_prop) v 20 (by norm_num at h2 ⊢; linarith))
  · intro w hw
    show (CaL.q_gate w).1 = _
    rw [CaL_q_gate_real w hw.1.le hw.2.le]
  · rw [CaL_q_gate_dual v (by norm_num at h1 ⊢; linarith) (by norm_num at h2 ⊢; linarith)]
  · simp only [eCaLqA, eEfun, Defined, eval, true_and, and_true]
    refine ⟨by norm_num, by norm_num, ?_⟩
    rw [show (1.0 : ℝ) = 1 by norm_num]
    apply exp_sub_one_ne_zero
    intro h0
    apply hv
    norm_num at h0
    linarith

theorem CaL_q_beta_deriv (v : ℝ) (h1 : ((-v) - 27) / 3.8 < 20) (h2 : ((-v) - 75) / 17 < 20) :
    HasDerivAt (fun v => (CaL.q_gate v).2) ((CaL.q_gate (⟨v, 1⟩ : Dual ℝ)).2.eps) v := by
  refine kernel_deriv _ eCaLqB _ v {w | ((-w) - 27.0) / 3.8 < 20 ∧ ((-w) - 75.0) / 17.0 < 20} ?_ ?_ ?_ ?_
  · exact Filter.inter_mem (nhds_lt (fun w => ((-w) - 27.0) / 3.8) (by fun_prop) v 20 (by norm_num at h1 ⊢; linarith))
      (nhds_lt (fun w => ((-w) - 75.0) / 17.0) (by fun_prop) v 20 (by norm_num at h2 ⊢; linarith))
  · intro w hw
    show (CaL.q_gate w).2 = _
    rw [CaL_q_gate_real w hw.1.le hw.2.le]
  · rw [CaL_q_gate_dual v (by norm_num at h1 ⊢; linarith) (by norm_num at h2 ⊢; linarith)]
  · simp only [eCaLqB, eExp, Defined, eval, true_and, and_true]
    norm_num

/-! ### CaL.r_gate -/

def eCaLrA : Ex := .mul (.const 0.000457) (eExp (.div (.sub (.neg .var) (.const 13.0)) (.const 50.0)))
def eCaLrB : Ex :=
  .div (.const 0.0065) (.add (eExp (.div (.sub (.neg .var) (.const 15.0)) (.const 28.0))) (.const 1.0))

theorem CaL_r_gate_real (v : ℝ) (h1 : ((-v) - 13.0) / 50.0 ≤ 20) (h2 : ((-v) - 15.0) / 28.0 ≤ 20) :
    CaL.r_gate v = (eval eCaLrA v, eval eCaLrB v) := by
  unfold CaL.r_gate
  dsimp only
  rw [save_exp_real _ h1, save_exp_real _ h2]
  rfl

theorem CaL_r_gate_dual (v : ℝ) (h1 : ((-v) - 13.0) / 50.0 ≤ 20) (h2 : ((-v) - 15.0) / 28.0 ≤ 20) :
    CaL.r_gate (⟨v, 1⟩ : Dual ℝ) = (evalDual eCaLrA ⟨v, 1⟩, evalDual eCaLrB ⟨v, 1⟩) := by
  unfold CaL.r_gate
  dsimp only
  rw [save_exp_dual _ h1, save_exp_dual _ h2]
  rfl

theorem CaL_r_alpha_deriv (v : ℝ) (h1 : ((-v) - 13) / 50 < 20) (h2 : ((-v) - 15) / 28 < 20) :
    HasDerivAt (fun v => (CaL.r_gate v).1) ((CaL.r_gate (⟨v, 1⟩ : Dual ℝ)).1.eps) v := by
  refine kernel_deriv _ eCaLrA _ v {w | ((-w) - 13.0) / 50.0 < 20 ∧ ((-w) - 15.0) / 28.0 < 20} ?_ ?_ ?_ ?_
  · exact Filter.inter_mem (nhds_lt (fun w => ((-w) - 13.0) / 50.0) (by fun_prop) v 20 (by norm_num at h1 ⊢; linarith))
      (nhds_lt (fun w => ((-w) - 15.0) / 28.0) (by fun_prop) v 20 (by norm_num at h2 ⊢; linarith))
  · intro w hw
    show (CaL.r_gate w).1 = _
    rw [CaL_r_gate_real w hw.1.le hw.2.le]
  · rw [CaL_r_gate_dual v (by norm_num at h1 ⊢; linarith) (by norm_num at h2 ⊢; linarith)]
  · simp only [eCaLrA, eExp, Defined, eval, true_and, and_true]
    norm_num

theorem CaL_r_beta_deriv (v : ℝ) (h1 : ((-v) - 13) / 50 < 20) (h2 : ((-v) - 15) / 28 < 20) :
    HasDerivAt (fun v => (CaL.r_gate v).2) ((CaL.r_gate (⟨v, 1⟩ : Dual ℝ)).2.eps) v := by
  refine kernel_deriv _ eCaLrB _ v {w | ((-w) - 13.0) / 50.0 < 20 ∧ ((-w) - 15.0) / 28.0 < 20} ?_ ?_ ?_ ?_
  · exact Filter.inter_mem (nhds_lt (fun w => ((-w) - 13.0) / 50.0) (by fun_prop) v 20 (by norm_num at h1 ⊢; linarith))
      (nhds_lt (fun w => ((-w) - 15.0) / 28.0) (by fun_prop) v 20 (by norm_num at h2 ⊢; linarith))
  · intro w hw
    show (CaL.r_gate w).2 = _
    rw [CaL_r_gate_real w hw.1.le hw.2.le]
  · rw [CaL_r_gate_dual v (by norm_num at h1 ⊢; linarith) (by norm_num at h2 ⊢; linarith)]
  · simp only [eCaLrB, eExp, Defined, eval, true_and, and_true]
    refine ⟨by norm_num, ?_⟩
    positivity

/-! ### Km.p_gate (`taumax` is a real constant) -/

def eKmpA : Ex :=
  .div (.const 1.0) (.add (.const 1.0) (eExp (.mul (.neg (.const 0.1)) (.add .var (.const 35.0)))))
def eKmpB (taumax : ℝ) : Ex :=
  .div (.const taumax) (.add (.mul (.const 3.3) (eExp (.mul (.const 0.05) (.add .var (.const 35.0)))))
    (eExp (.mul (.neg (.const 0.05)) (.add .var (.const 35.0)))))

theorem Km_p_gate_real (v taumax : ℝ) (h1 : (-0.1) * (v + 35.0) ≤ 20) (h2 : 0.05 * (v + 35.0) ≤ 20)
    (h3 : (-0.05) * (v + 35.0) ≤ 20) : Km.p_gate v taumax = (eval eKmpA v, eval (eKmpB taumax) v) := by
  unfold Km.p_gate
  dsimp only
  rw [save_exp_real _ h1, save_exp_real _ h2, save_exp_real _ h3]
  rfl

theorem Km_p_gate_dual (v taumax : ℝ) (h1 : (-0.1) * (v + 35.0) ≤ 20) (h2 : 0.05 * (v + 35.0) ≤ 20)
    (h3 : (-0.05) * (v + 35.0) ≤ 20) :
    Km.p_gate (⟨v, 1⟩ : Dual ℝ) ⟨taumax, 0⟩ = (evalDual eKmpA ⟨v, 1⟩, evalDual (eKmpB taumax) ⟨v, 1⟩) := by
  unfold Km.p_gate
  dsimp only
  rw [save_exp_dual _ h1, save_exp_dual _ h2, save_exp_dual _ h3]
  rfl

theorem Km_p_nhds (v : ℝ) (h1 : (-0.1) * (v + 35) < 20) (h2 : 0.05 * (v + 35) < 20) (h3 : (-0.05) * (v + 35) < 20) :
    {w : ℝ | (-0.1) * (w + 35.0) < 20 ∧ 0.05 * (w + 35.0) < 20 ∧ (-0.05) * (w + 35.0) < 20} ∈ 𝓝 v :=
  Filter.inter_mem (nhds_lt (fun w => (-0.1) * (w + 35.0)) (by fun_prop) v 20 (by norm_num at h1 ⊢; linarith))
    (Filter.inter_mem (nhds_lt (fun w => 0.05 * (w + 35.0)) (by fun_prop) v 20 (by norm_num at h2 ⊢; linarith))
      (nhds_lt (fun w => (-0.05) * (w + 35.0)) (by fun_prop) v 20 (by norm_num at h3 ⊢; linarith)))

theorem Km_p_inf_deriv (v taumax : ℝ) (h1 : (-0.1) * (v + 35) < 20) (h2 : 0.05 * (v + 35) < 20)
    (h3 : (-0.05) * (v + 35) < 20) :
    HasDerivAt (fun v => (Km.p_gate v taumax).1) ((Km.p_gate (⟨v, 1⟩ : Dual ℝ) ⟨taumax, 0⟩).1.eps) v := by
  refine kernel_deriv _ eKmpA _ v _ (Km_p_nhds v h1 h2 h3) ?_ ?_ ?_
  · intro w hw
    show (Km.p_gate w taumax).1 = _
    rw [Km_p_gate_real w taumax hw.1.le hw.2.1.le hw.2.2.le]
  · rw [Km_p_gate_dual v taumax (by norm_num at h1 ⊢; linarith) (by norm_num at h2 ⊢; linarith)
      (by norm_num at h3 ⊢; linarith)]
  · simp only [eKmpA, eExp, Defined, eval, true_and, and_true]
    positivity

theorem Km_p_tau_deriv (v taumax : ℝ) (h1 : (-0.1) * (v + 35) < 20) (h2 : 0.05 * (v + 35) < 20)
    (h3 : (-0.05) * (v + 35) < 20) :
    HasDerivAt (fun v => (Km.p_gate v taumax).2) ((Km.p_gate (⟨v, 1⟩ : Dual ℝ) ⟨taumax, 0⟩).2.eps) v := by
  refine kernel_deriv _ (eKmpB taumax) _ v _ (Km_p_nhds v h1 h2 h3) ?_ ?_ ?_
  · intro w hw
    show (Km.p_gate w taumax).2 = _
    rw [Km_p_gate_real w taumax hw.1.le hw.2.1.le hw.2.2.le]
  · rw [Km_p_gate_dual v taumax (by norm_num at h1 ⊢; linarith) (by norm_num at h2 ⊢; linarith)
      (by norm_num at h3 ⊢; linarith)]
  · simp only [eKmpB, eExp, Defined, eval, true_and, and_true]
    positivity

/-! ### CaT.u_gate (`vx` is a real constant) -/

def eCaTuA (vx : ℝ) : Ex :=
  .div (.const 1.0) (.add (.const 1.0) (eExp (.div (.add (.add .var (.const vx)) (.const 81.0)) (.const 4.0))))
def eCaTuB (vx : ℝ) : Ex :=
  .div (.add (.const 30.8) (.add (.const 211.4) (eExp (.div (.add (.add .var (.const vx)) (.const 113.2)) (.const 5.0)))))
    (.mul (.const 3.7) (.add (.const 1.0) (eExp (.div (.add (.add .var (.const vx)) (.const 84.0)) (.const 3.2)))))

theorem CaT_u_gate_real (v vx : ℝ) (h1 : ((v + vx) + 81.0) / 4.0 ≤ 20) (h2 : ((v + vx) + 113.2) / 5.0 ≤ 20)
    (h3 : ((v + vx) + 84.0) / 3.2 ≤ 20) : CaT.u_gate v vx = (eval (eCaTuA vx) v, eval (eCaTuB vx) v) := by
  unfold CaT.u_gate
  dsimp only
  rw [save_exp_real _ h1, save_exp_real _ h2, save_exp_real _ h3]
  rfl

theorem CaT_u_gate_dual (v vx : ℝ) (h1 : ((v + vx) + 81.0) / 4.0 ≤ 20) (h2 : ((v + vx) + 113.2) / 5.0 ≤ 20)
    (h3 : ((v + vx) + 84.0) / 3.2 ≤ 20) :
    CaT.u_gate (⟨v, 1⟩ : Dual ℝ) ⟨vx, 0⟩ = (evalDual (eCaTuA vx) ⟨v, 1⟩, evalDual (eCaTuB vx) ⟨v, 1⟩) := by
  unfold CaT.u_gate
  dsimp only
  rw [save_exp_dual _ h1, save_exp_dual _ h2, save_exp_dual _ h3]
  rfl

theorem CaT_u_nhds (v vx : ℝ) (h1 : ((v + vx) + 81) / 4 < 20) (h2 : ((v + vx) + 113.2) / 5 < 20)
    (h3 : ((v + vx) + 84) / 3.2 < 20) :
    {w : ℝ | ((w + vx) + 81.0) / 4.0 < 20 ∧ ((w + vx) + 113.2) / 5.0 < 20 ∧ ((w + vx) + 84.0) / 3.2 < 20} ∈ 𝓝 v :=
  Filter.inter_mem (nhds_lt (fun w => ((w + vx) + 81.0) / 4.0) (by fun_prop) v 20 (by norm_num at h1 ⊢; linarith))
    (Filter.inter_mem (nhds_lt (fun w => ((w + vx) + 113.2) / 5.0) (by fun_prop) v 20 (by norm_num at h2 ⊢; linarith))
      (nhds_lt (fun w => ((w + vx) + 84.0) / 3.2) (by fun_prop) v 20 (by norm_num at h3 ⊢; linarith)))

theorem CaT_u_inf_deriv (v vx : ℝ) (h1 : ((v + vx) + 81) / 4 < 20) (h2 : ((v + vx) + 113.2) / 5 < 20)
    (h3 : ((v + vx) + 84) / 3.2 < 20) :
    HasDerivAt (fun v => (CaT.u_gate v vx).1) ((CaT.u_gate (⟨v, 1⟩ : Dual ℝ) ⟨vx, 0⟩).1.eps) v := by
  refine kernel_deriv _ (eCaTuA vx) _ v _ (CaT_u_nhds v vx h1 h2 h3) ?_ ?_ ?_
  · intro w hw
    show (CaT.u_gate w vx).1 = _
    rw [CaT_u_gate_real w vx hw.1.le hw.2.1.le hw.2.2.le]
  · rw [CaT_u_gate_dual v vx (by norm_num at h1 ⊢; linarith) (by norm_num at h2 ⊢; linarith)
      (by norm_num at h3 ⊢; linarith)]
  · simp only [eCaTuA, eExp, Defined, eval, true_and, and_true]
    refine ⟨by norm_num, ?_⟩
    positivity

theorem CaT_u_tau_deriv (v vx : ℝ) (h1 : ((v + vx) + 81) / 4 < 20) (h2 : ((v + vx) + 113.2) / 5 < 20)
    (h3 : ((v + vx) + 84) / 3.2 < 20) :
    HasDerivAt (fun v => (CaT.u_gate v vx).2) ((CaT.u_gate (⟨v, 1⟩ : Dual ℝ) ⟨vx, 0⟩).2.eps) v := by
  refine kernel_deriv _ (eCaTuB vx) _ v _ (CaT_u_nhds v vx h1 h2 h3) ?_ ?_ ?_
  · intro w hw
    show (CaT.u_gate w vx).2 = _
    rw [CaT_u_gate_real w vx hw.1.le hw.2.1.le hw.2.2.le]
  · rw [CaT_u_gate_dual v vx (by norm_num at h1 ⊢; linarith) (by norm_num at h2 ⊢; linarith)
      (by norm_num at h3 ⊢; linarith)]
  · simp only [eCaTuB, eExp, Defined, eval, true_and, and_true]
    refine ⟨by norm_num, by norm_num, ?_⟩
    positivity

end JaxleyVerif.Props.C05
