/-
C16 — the SWC reader (`Model.Swc`, model of `jaxley/io/swc.py`) keeps the traced morphology: connectivity, radii,
lengths and type groups.

`Float` has no algebraic theory, so the theorems are about (a) the combinatorial parts of the model (lists of point ids,
`Nat`/`Int`) and (b) the arithmetic formulas restated over `ℝ`.

1. `splitBranchEqually` (hypotheses `2 ≤ k ≤ branch.length`; for `k > n` Python's negative slice index wraps, see example)
   * `splitBranchEqually_eq`         explicit `take`/`drop` form of the pieces
   * `splitBranchEqually_length`     (a) exactly `k` pieces (needs only `2 ≤ k`)
   * `splitBranchEqually_getElem?`, `piece_length`   the `i`-th piece and its size
   * `splitBranchEqually_overlap`    (b) last point of piece `i` = first point of piece `i+1` = `branch[(i+1)⌊n/k⌋-1]`
   * `splitBranchEqually_glue`       (c) dropping the shared first points and concatenating gives back `branch` (all `k`)
2. `buildParents`
   * `buildParents_spec` (full statement), `buildParents_connect`, `buildParents_root`, `buildParents_range`
3. interpolation over `ℝ`: `lerp_between`, `within_mem`, `radius_between`, `radius_at_left`, `radius_at_right`,
   `radius_pos`, `clip_eq_max`, `clip_ge`, `clip_ge_self`, `clip_id`
4. centres over `ℝ`: `centre_mem`, `centre_step`, `centre_strictMono`, `centre_lt`, `linspace_eq_centre`, `linspace_one`,
   `compLens_sum`, `compLens_total`, `compLens_length`
5. groups: `groupsOf`, `readSwc_groups_eq` (it IS what `readSwc` computes), `mem_uniqueSorted`, `uniqueSorted_sorted`,
   `groupName_injective` (all types, via `Nat.repr_inj`), `groupsOf_mem_iff`, `groupsOf_own`, `groupsOf_not_other`,
   `groupsOf_names_nodup`, `groupsOf_unique`, `groupsOf_nonempty`, `readSwc_groups_partition`
6. `stableSortBy`: `stableSortBy_perm`, `stableSortBy_sorted`, `stableSortBy_stable`, `argsort_stable`
7. spec side: `chain_isChain`, `chain_sameType`, `chain_unbranched`, `sections_ne_nil`, `sections_isChain`,
   `sections_parentOf`, `specBranches_perm`, `specBranches_sorted`, `specBranches_parentOf`
-/
import Mathlib.Data.Real.Basic
import Mathlib.Data.List.Basic
import Mathlib.Data.List.Chain
import Mathlib.Tactic.Ring
import Mathlib.Tactic.Linarith
import Mathlib.Tactic.FieldSimp
import Mathlib.Tactic.Positivity
import Std.Data.String.ToNat
import JaxleyVerif.Model.Swc
import JaxleyVerif.Spec.Swc

namespace JaxleyVerif.Props.C16
open JaxleyVerif.Model.Swc

/-! ## 1. `splitBranchEqually` -/
section Split
variable {α : Type}

theorem pySlice_some (l : List α) (s e : Nat) (hs : s ≤ l.length) (he : e ≤ l.length) :
    pySlice l (s : Int) (some (e : Int)) = (l.drop s).take (e - s) := by
  simp only [pySlice]
  have h1 : ¬ ((s : Int) < 0) := by omega
  have h2 : ¬ ((e : Int) < 0) := by omega
  rw [if_neg h1, if_neg h2]
  have e1 : (min (s : Int) (l.length : Int)).toNat = s := by omega
  have e2 : (min (e : Int) (l.length : Int)).toNat = e := by omega
  rw [e1, e2]

theorem pySlice_none (l : List α) (s : Nat) (hs : s ≤ l.length) :
    pySlice l (s : Int) none = l.drop s := by
  simp only [pySlice]
  have h1 : ¬ ((s : Int) < 0) := by omega
  rw [if_neg h1]
  have e1 : (min (s : Int) (l.length : Int)).toNat = s := by omega
  rw [e1]
  apply List.take_of_length_le
  simp

/-- explicit form of the `k` pieces for `2 ≤ k ≤ branch.length` (all Python slice indices are in range, no wrap-around) -/
theorem splitBranchEqually_eq (branch : List Nat) (k : Nat) (hk : 2 ≤ k) (hkn : k ≤ branch.length) :
    splitBranchEqually branch k =
      branch.take (branch.length / k) ::
        (List.range (k - 2)).map
          (fun j => (branch.drop ((j + 1) * (branch.length / k) - 1)).take (branch.length / k + 1))
        ++ [branch.drop ((k - 1) * (branch.length / k) - 1)] := by
  have hq : 1 ≤ branch.length / k := Nat.div_pos hkn (by omega)
  have hkq : k * (branch.length / k) ≤ branch.length := Nat.mul_div_le _ _
  unfold splitBranchEqually
  simp only
  generalize branch.length / k = q at *
  have hfirst : pySlice branch 0 (some (q : Int)) = branch.take q := by
    have h0 : q ≤ branch.length := le_trans (Nat.le_mul_of_pos_left q (by omega)) hkq
    have := pySlice_some branch 0 q (by omega) h0
    simpa using this
  have hlast : pySlice branch (((k : Int) - 1) * (q : Int) - 1) none
      = branch.drop ((k - 1) * q - 1) := by
    have h1 : 1 ≤ (k - 1) * q := Nat.mul_pos (by omega) hq
    have h2 : (k - 1) * q ≤ k * q := Nat.mul_le_mul_right _ (by omega)
    have e : ((k : Int) - 1) * (q : Int) - 1 = (((k - 1) * q - 1 : Nat) : Int) := by
      rw [Nat.cast_sub h1, Nat.cast_mul, Nat.cast_sub (by omega : 1 ≤ k)]; rfl
    rw [e]
    exact pySlice_none branch _ (by omega)
  rw [hfirst, hlast]
  congr 2
  apply List.map_congr_left
  intro j hj
  have hj' : j < k - 2 := List.mem_range.mp hj
  have h1 : 1 ≤ (j + 1) * q := Nat.mul_pos (by omega) hq
  have h2 : (j + 2) * q ≤ k * q := Nat.mul_le_mul_right _ (by omega)
  have h3 : (j + 2) * q = (j + 1) * q + q := by ring
  have e1 : (((j + 1 : Nat) : Int)) * (q : Int) - 1 = (((j + 1) * q - 1 : Nat) : Int) := by
    rw [Nat.cast_sub h1, Nat.cast_mul]; rfl
  have e2 : ((((j + 1 : Nat) : Int)) + 1) * (q : Int) = (((j + 2) * q : Nat) : Int) := by
    push_cast; ring
  rw [e1, e2, pySlice_some branch _ _ (by omega) (by omega)]
  congr 1
  omega

/-- 1(a): exactly `k` sub-branches (needs only `2 ≤ k`; for `k ≤ 1` the Python/model code returns 2 pieces). -/
theorem splitBranchEqually_length (branch : List Nat) (k : Nat) (hk : 2 ≤ k) :
    (splitBranchEqually branch k).length = k := by
  unfold splitBranchEqually
  simp
  omega

/-- the `i`-th piece, written with `take`/`drop` -/
def piece (branch : List Nat) (k i : Nat) : List Nat :=
  if i = 0 then branch.take (branch.length / k)
  else if i + 1 = k then branch.drop (i * (branch.length / k) - 1)
  else (branch.drop (i * (branch.length / k) - 1)).take (branch.length / k + 1)

theorem splitBranchEqually_getElem? (branch : List Nat) (k : Nat) (hk : 2 ≤ k) (hkn : k ≤ branch.length)
    (i : Nat) (hi : i < k) :
    (splitBranchEqually branch k)[i]? = some (piece branch k i) := by
  rw [splitBranchEqually_eq branch k hk hkn, List.cons_append]
  cases i with
  | zero => simp [piece]
  | succ i =>
    rw [List.getElem?_cons_succ]
    by_cases h : i < k - 2
    · rw [List.getElem?_append_left (by simpa using h)]
      have h1 : ¬ (i + 1 + 1 = k) := by omega
      simp [piece, h, h1]
    · obtain rfl : k = i + 2 := by omega
      rw [List.getElem?_append_right (by simp)]
      simp [piece]

/-- 1(b): consecutive sub-branches share exactly their boundary point: the last point of piece `i` and the first
point of piece `i+1` are both the point `branch[(i+1)·⌊n/k⌋ - 1]` (which exists). -/
theorem splitBranchEqually_overlap (branch : List Nat) (k : Nat) (hk : 2 ≤ k) (hkn : k ≤ branch.length)
    (i : Nat) (hi : i + 1 < k) :
    ∃ a b x, (splitBranchEqually branch k)[i]? = some a ∧ (splitBranchEqually branch k)[i + 1]? = some b ∧
      branch[(i + 1) * (branch.length / k) - 1]? = some x ∧ a.getLast? = some x ∧ b.head? = some x := by
  have hq : 1 ≤ branch.length / k := Nat.div_pos hkn (by omega)
  have hkq : k * (branch.length / k) ≤ branch.length := Nat.mul_div_le _ _
  have h1 : 1 ≤ (i + 1) * (branch.length / k) := Nat.mul_pos (by omega) hq
  have h2 : (i + 2) * (branch.length / k) ≤ k * (branch.length / k) := Nat.mul_le_mul_right _ (by omega)
  have h3 : (i + 2) * (branch.length / k) = (i + 1) * (branch.length / k) + branch.length / k := by ring
  have h4 : (i + 1) * (branch.length / k) = i * (branch.length / k) + branch.length / k := by ring
  have hlt : (i + 1) * (branch.length / k) - 1 < branch.length := by omega
  refine ⟨piece branch k i, piece branch k (i + 1), branch[(i + 1) * (branch.length / k) - 1], 
    splitBranchEqually_getElem? branch k hk hkn i (by omega),
    splitBranchEqually_getElem? branch k hk hkn (i + 1) hi, List.getElem?_eq_getElem hlt, ?_, ?_⟩
  · -- last point of piece `i`
    rw [← List.getElem?_eq_getElem hlt, List.getLast?_eq_getElem?]
    unfold piece
    generalize branch.length / k = q at *
    have hne : ¬ (i + 1 = k) := by omega
    by_cases hi0 : i = 0
    · subst hi0
      simp only [if_true, List.length_take]
      rw [List.getElem?_take]
      have : min q branch.length = q := by omega
      rw [this, if_pos (by omega)]
      congr 1; omega
    · rw [if_neg hi0, if_neg hne]
      have hi1 : 1 ≤ i * q := Nat.mul_pos (by omega) hq
      simp only [List.length_take, List.length_drop]
      have : min (q + 1) (branch.length - (i * q - 1)) = q + 1 := by omega
      rw [this, List.getElem?_take, if_pos (by omega), List.getElem?_drop]
      congr 1; omega
  · -- first point of piece `i + 1`
    rw [← List.getElem?_eq_getElem hlt]
    unfold piece
    generalize branch.length / k = q at *
    rw [if_neg (by omega)]
    split
    · rw [List.head?_drop]
    · rw [List.head?_take, if_neg (by omega), List.head?_drop]

/-- glue sub-branches back together: keep the first one, drop the (shared) first point of every later one -/
def glue : List (List Nat) → List Nat
  | [] => []
  | b :: bs => b ++ (bs.map (List.drop 1)).flatten

theorem take_chunks (l : List Nat) (q m : Nat) :
    l.take q ++ ((List.range m).map (fun j => (l.drop ((j + 1) * q)).take q)).flatten = l.take ((m + 1) * q) := by
  induction m with
  | zero => simp
  | succ m ih =>
    rw [List.range_succ, List.map_append, List.flatten_append, ← List.append_assoc, ih]
    simp only [List.map_cons, List.map_nil, List.flatten_cons, List.flatten_nil, List.append_nil]
    rw [← List.take_add]
    congr 1; ring

/-- 1(c): no point is lost or duplicated: gluing the pieces (dropping the shared first point of all but the first)
gives back the branch. -/
theorem splitBranchEqually_glue (branch : List Nat) (k : Nat) (hk : 2 ≤ k) (hkn : k ≤ branch.length) :
    glue (splitBranchEqually branch k) = branch := by
  have hq : 1 ≤ branch.length / k := Nat.div_pos hkn (by omega)
  rw [splitBranchEqually_eq branch k hk hkn]
  generalize branch.length / k = q at *
  simp only [List.cons_append, glue, List.map_append, List.map_map, List.flatten_append, List.map_cons, List.map_nil,
    List.flatten_cons, List.flatten_nil, List.append_nil]
  have hfun : (List.drop 1 ∘ fun j => (branch.drop ((j + 1) * q - 1)).take (q + 1))
      = fun j => (branch.drop ((j + 1) * q)).take q := by
    funext j
    have h1 : 1 ≤ (j + 1) * q := Nat.mul_pos (by omega) hq
    simp only [Function.comp, List.drop_take, List.drop_drop]
    congr 2
    omega
  rw [hfun, ← List.append_assoc, take_chunks, List.drop_drop]
  have h1 : 1 ≤ (k - 1) * q := Nat.mul_pos (by omega) hq
  have e1 : k - 2 + 1 = k - 1 := by omega
  have e2 : (k - 1) * q - 1 + 1 = (k - 1) * q := by omega
  rw [e1, e2, List.take_append_drop]

/-- sizes of the pieces: the first has `⌊n/k⌋` points, the middle ones `⌊n/k⌋ + 1`, the last one the remaining
`n - (k-1)⌊n/k⌋ + 1`.  NOTE (finding): for `k ≤ n < 2k` the first piece is the single point `[branch[0]]`, which
`branchPathlengths` then treats like a one-point soma (length `2 r`); see the example with `k = 4` below. -/
theorem piece_length (branch : List Nat) (k : Nat) (hk : 2 ≤ k) (hkn : k ≤ branch.length) (i : Nat) (hi : i < k) :
    (piece branch k i).length =
      if i = 0 then branch.length / k
      else if i + 1 = k then branch.length - (k - 1) * (branch.length / k) + 1
      else branch.length / k + 1 := by
  have hq : 1 ≤ branch.length / k := Nat.div_pos hkn (by omega)
  have hkq : k * (branch.length / k) ≤ branch.length := Nat.mul_div_le _ _
  unfold piece
  generalize branch.length / k = q at *
  by_cases h0 : i = 0
  · subst h0
    have : q ≤ k * q := Nat.le_mul_of_pos_left q (by omega)
    simp only [if_true, List.length_take]; omega
  · have h1 : 1 ≤ i * q := Nat.mul_pos (by omega) hq
    rw [if_neg h0, if_neg h0]
    by_cases h2 : i + 1 = k
    · have e : k - 1 = i := by omega
      have h3 : (i + 1) * q = i * q + q := by ring
      rw [if_pos h2, if_pos h2, List.length_drop, e]
      rw [← h2] at hkq
      omega
    · have h3 : (i + 2) * q ≤ k * q := Nat.mul_le_mul_right _ (by omega)
      have h4 : (i + 2) * q = i * q + q + q := by ring
      rw [if_neg h2, if_neg h2, List.length_take, List.length_drop]
      omega

example : splitBranchEqually [1, 2, 3, 4, 5, 6, 7] 2 = [[1, 2, 3], [3, 4, 5, 6, 7]] := by decide
example : splitBranchEqually [1, 2, 3, 4, 5, 6, 7] 3 = [[1, 2], [2, 3, 4], [4, 5, 6, 7]] := by decide
example : glue (splitBranchEqually [1, 2, 3, 4, 5, 6, 7] 3) = [1, 2, 3, 4, 5, 6, 7] := by decide
/-- degenerate first piece when `n < 2k` -/
example : splitBranchEqually [1, 2, 3, 4, 5, 6, 7] 4 = [[1], [1, 2], [2, 3], [3, 4, 5, 6, 7]] := by decide
/-- outside the hypotheses (`k > n`): `⌊n/k⌋ = 0`, Python's negative index `-1` wraps around and the pieces are garbage -/
example : splitBranchEqually [1, 2, 3] 4 = [[], [], [], [3]] := by decide

end Split

/-! ## 2. `buildParents` -/
section Parents

theorem mapM_ok {α β ε : Type} (f : α → Except ε β) :
    ∀ (l : List α) (ps : List β), l.mapM f = .ok ps → List.Forall₂ (fun a b => f a = .ok b) l ps := by
  intro l
  induction l with
  | nil =>
    intro ps h
    simp [pure, Except.pure] at h
    subst h
    exact List.Forall₂.nil
  | cons a l ih =>
    intro ps h
    rw [List.mapM_cons] at h
    cases hfa : f a with
    | error e => simp [hfa, bind, Except.bind] at h
    | ok b =>
      cases hl : l.mapM f with
      | error e => simp [hfa, hl, bind, Except.bind] at h
      | ok bs =>
        simp [hfa, hl, bind, Except.bind, pure, Except.pure] at h
        subst h
        exact List.Forall₂.cons hfa (ih bs hl)

/-- the body of the loop of `_build_parents` for branch `i` -/
def parentStep (bs : List (List Nat)) (i : Nat) : Except String Int :=
  let lasts := bs.map (fun b => b.getLast?.getD 0)
  let parentInd := ((bs.getD i []).headD 0)
  let ind := (List.range lasts.length).filter (fun j => lasts.getD j 0 == parentInd)
  match ind with
  | [] => if parentInd == 1 then pure (-1 : Int) else .error "assert-connect-to-beginning"
  | [j] => if j != i then pure (j : Int)
           else if parentInd == 1 then pure (-1 : Int) else .error "assert-connect-to-beginning"
  | _ => .error "ambiguous-truth-value"

theorem buildParents_eq (bs : List (List Nat)) :
    buildParents bs =
      if bs.any (·.isEmpty) then .error "empty-branch" else (List.range bs.length).mapM (parentStep bs) := by
  unfold buildParents
  split <;> rfl

/-- id of the last point of branch `j` (as the code reads it: `b[-1]`) -/
def lastId (bs : List (List Nat)) (j : Nat) : Nat := (bs.getD j []).getLast?.getD 0
/-- id of the first point of branch `i` (`b[0]`) -/
def firstId (bs : List (List Nat)) (i : Nat) : Nat := (bs.getD i []).headD 0

theorem lasts_getD (bs : List (List Nat)) (j : Nat) :
    (bs.map (fun b => b.getLast?.getD 0)).getD j 0 = lastId bs j := by
  unfold lastId
  simp only [List.getD_eq_getElem?_getD, List.getElem?_map]
  cases bs[j]? <;> simp

/-- what one iteration guarantees -/
theorem parentStep_spec (bs : List (List Nat)) (i : Nat) (p : Int) (h : parentStep bs i = .ok p) :
    (∃ j, j < bs.length ∧ p = (j : Int) ∧ j ≠ i ∧ lastId bs j = firstId bs i ∧
        ∀ j', j' < bs.length → lastId bs j' = firstId bs i → j' = j)
    ∨ (p = -1 ∧ firstId bs i = 1 ∧ ∀ j', j' < bs.length → lastId bs j' = firstId bs i → j' = i) := by
  unfold parentStep at h
  simp only [lasts_getD, List.length_map] at h
  have key : ∀ j', j' ∈ (List.range bs.length).filter (fun j => lastId bs j == (bs.getD i []).headD 0)
      ↔ j' < bs.length ∧ lastId bs j' = firstId bs i := by
    intro j'; simp [firstId]
  generalize (List.range bs.length).filter (fun j => lastId bs j == (bs.getD i []).headD 0) = ind at h key
  change (match ind with
    | [] => if firstId bs i == 1 then pure (-1 : Int) else .error "assert-connect-to-beginning"
    | [j] => if j != i then pure (j : Int)
             else if firstId bs i == 1 then pure (-1 : Int) else .error "assert-connect-to-beginning"
    | _ => Except.error "ambiguous-truth-value") = Except.ok p at h
  split at h
  · right
    split at h
    · rename_i h1
      simp only [pure, Except.pure, Except.ok.injEq] at h
      refine ⟨h.symm, by simpa using h1, ?_⟩
      intro j' hj' hl
      exact absurd ((key j').mpr ⟨hj', hl⟩) (by simp)
    · simp at h
  · rename_i j
    split at h
    · rename_i hji
      left
      simp only [pure, Except.pure, Except.ok.injEq] at h
      have hj := (key j).mp (by simp)
      refine ⟨j, hj.1, h.symm, by simpa using hji, hj.2, ?_⟩
      intro j' hj' hl
      simpa using (key j').mpr ⟨hj', hl⟩
    · rename_i hji
      have hji' : j = i := by simpa using hji
      subst hji'
      right
      split at h
      · rename_i h1
        simp only [pure, Except.pure, Except.ok.injEq] at h
        refine ⟨h.symm, by simpa using h1, ?_⟩
        intro j' hj' hl
        simpa using (key j').mpr ⟨hj', hl⟩
      · simp at h
  · simp at h

/-- **2. What `_build_parents` guarantees when it does not raise.**
(The statement in the task is made precise as follows.)  No branch is empty, there is one parent entry per branch, and
for every branch `i`, with `firstId bs i` its first point id:
* either `ps[i] = j` for an index `j < bs.length`, `j ≠ i`, branch `j` ENDS at the first point of branch `i`
  (`lastId bs j = firstId bs i`: a branch hangs off the end of its parent), and `j` is the ONLY branch ending there;
* or `ps[i] = -1`, and then the first point of branch `i` is the root point `1` and no OTHER branch ends at point `1`
  (either no branch ends there, or only branch `i` itself does). -/
theorem buildParents_spec (bs : List (List Nat)) (ps : List Int) (h : buildParents bs = .ok ps) :
    (∀ b ∈ bs, b ≠ []) ∧ ps.length = bs.length ∧
    ∀ i, i < bs.length →
      (∃ j, j < bs.length ∧ ps[i]? = some (j : Int) ∧ j ≠ i ∧ lastId bs j = firstId bs i ∧
          ∀ j', j' < bs.length → lastId bs j' = firstId bs i → j' = j)
      ∨ (ps[i]? = some (-1) ∧ firstId bs i = 1 ∧
          ∀ j', j' < bs.length → lastId bs j' = firstId bs i → j' = i) := by
  rw [buildParents_eq] at h
  split at h
  · simp at h
  · rename_i hne
    have hF := mapM_ok _ _ _ h
    have hlen : ps.length = bs.length := by simpa using hF.length_eq.symm
    refine ⟨?_, hlen, ?_⟩
    · intro b hb hbe
      apply hne
      simp only [List.any_eq_true]
      exact ⟨b, hb, by simp [hbe]⟩
    · intro i hi
      have hi' : i < ps.length := by omega
      have hstep : parentStep bs i = .ok ps[i] := by
        have := List.Forall₂.get hF (i := i) (by simpa using hi) hi'
        simpa using this
      rcases parentStep_spec bs i _ hstep with ⟨j, hj, hp, rest⟩ | ⟨hp, rest⟩
      · left; exact ⟨j, hj, by rw [List.getElem?_eq_getElem hi', hp], rest⟩
      · right; exact ⟨by rw [List.getElem?_eq_getElem hi', hp], rest⟩

/-- the form asked for: a non-negative parent entry `j` of branch `i` is an index of another branch whose last point
is the first point of branch `i` (actual `getLast?`/`head?`, both defined since no branch is empty). -/
theorem buildParents_connect (bs : List (List Nat)) (ps : List Int) (h : buildParents bs = .ok ps)
    (i : Nat) (hi : i < bs.length) (j : Nat) (hj : ps[i]? = some (j : Int)) :
    j < bs.length ∧ j ≠ i ∧ ∃ x, (bs.getD j []).getLast? = some x ∧ (bs.getD i []).head? = some x := by
  obtain ⟨hne, hlen, hall⟩ := buildParents_spec bs ps h
  rcases hall i hi with ⟨j', hj', hp, hji, hl, _⟩ | ⟨hp, _⟩
  · rw [hp] at hj
    have : j' = j := by simpa using hj
    subst this
    refine ⟨hj', hji, ?_⟩
    have h1 : bs.getD j' [] ≠ [] := by
      have e : bs.getD j' [] = bs[j'] := by simp [List.getD_eq_getElem?_getD, hj']
      rw [e]; exact hne _ (List.getElem_mem _)
    have h2 : bs.getD i [] ≠ [] := by
      have e : bs.getD i [] = bs[i] := by simp [List.getD_eq_getElem?_getD, hi]
      rw [e]; exact hne _ (List.getElem_mem _)
    unfold lastId firstId at hl
    revert h1 h2 hl
    generalize bs.getD j' [] = a
    generalize bs.getD i [] = b
    intro hl h1 h2
    cases b with
    | nil => exact absurd rfl h2
    | cons x b =>
      refine ⟨x, ?_, rfl⟩
      rw [List.getLast?_eq_some_getLast h1] at hl ⊢
      simpa using hl
  · rw [hp] at hj
    simp at hj

/-- a root entry: `ps[i] = -1` only for a branch starting at point `1`, and no other branch ends at point `1`. -/
theorem buildParents_root (bs : List (List Nat)) (ps : List Int) (h : buildParents bs = .ok ps)
    (i : Nat) (hi : i < bs.length) (hp : ps[i]? = some (-1)) :
    firstId bs i = 1 ∧ ∀ j', j' < bs.length → j' ≠ i → lastId bs j' ≠ 1 := by
  obtain ⟨_, _, hall⟩ := buildParents_spec bs ps h
  rcases hall i hi with ⟨j, _, hp', _⟩ | ⟨_, h1, h2⟩
  · rw [hp'] at hp
    simp at hp
  · exact ⟨h1, fun j' hj' hne hl => hne (h2 j' hj' (by rw [hl, h1]))⟩

/-- every entry is `-1` or a valid branch index -/
theorem buildParents_range (bs : List (List Nat)) (ps : List Int) (h : buildParents bs = .ok ps) :
    ∀ p ∈ ps, p = -1 ∨ (0 ≤ p ∧ p < bs.length) := by
  obtain ⟨_, hlen, hall⟩ := buildParents_spec bs ps h
  intro p hp
  obtain ⟨i, hi, rfl⟩ := List.getElem_of_mem hp
  rcases hall i (by omega) with ⟨j, hj, hp', _⟩ | ⟨hp', _⟩
  · right
    rw [List.getElem?_eq_getElem hi] at hp'
    have : ps[i] = (j : Int) := by simpa using hp'
    rw [this]; omega
  · left
    rw [List.getElem?_eq_getElem hi] at hp'
    simpa using hp'

example : buildParents [[1, 2, 3], [3, 4], [3, 5, 6]] = .ok [-1, 0, 0] := by decide
example : buildParents [[1], [1, 2, 3], [1, 4]] = .ok [-1, 0, 0] := by decide

end Parents

/-! ## 3. Linear interpolation (`_radius`) and the `min_radius` clip, over `ℝ` -/
section Lerp

/-- the interpolated radius lies between the two traced radii -/
theorem lerp_between (left right t : ℝ) (h0 : 0 ≤ t) (h1 : t ≤ 1) :
    min left right ≤ left + (right - left) * t ∧ left + (right - left) * t ≤ max left right := by
  rcases le_total left right with h | h
  · rw [min_eq_left h, max_eq_right h]; constructor <;> nlinarith
  · rw [min_eq_right h, max_eq_left h]; constructor <;> nlinarith

/-- `within = (loc - l0)/(l1 - l0)` is in `[0,1]` for `l0 ≤ loc ≤ l1`, `l0 < l1` -/
theorem within_mem (l0 l1 loc : ℝ) (hl : l0 < l1) (h0 : l0 ≤ loc) (h1 : loc ≤ l1) :
    0 ≤ (loc - l0) / (l1 - l0) ∧ (loc - l0) / (l1 - l0) ≤ 1 := by
  have hd : 0 < l1 - l0 := by linarith
  exact ⟨div_nonneg (by linarith) hd.le, (div_le_one hd).mpr (by linarith)⟩

/-- the formula of `radiusAt`/`_radius` stays between the neighbouring radii -/
theorem radius_between (left right l0 l1 loc : ℝ) (hl : l0 < l1) (h0 : l0 ≤ loc) (h1 : loc ≤ l1) :
    min left right ≤ left + (right - left) * ((loc - l0) / (l1 - l0)) ∧
      left + (right - left) * ((loc - l0) / (l1 - l0)) ≤ max left right :=
  lerp_between _ _ _ (within_mem l0 l1 loc hl h0 h1).1 (within_mem l0 l1 loc hl h0 h1).2

/-- at the left cutoff the interpolant is the left radius (no hypothesis needed: `0 / x = 0`) -/
theorem radius_at_left (left right l0 l1 : ℝ) :
    left + (right - left) * ((l0 - l0) / (l1 - l0)) = left := by
  simp

/-- at the right cutoff the interpolant is the right radius -/
theorem radius_at_right (left right l0 l1 : ℝ) (hl : l0 < l1) :
    left + (right - left) * ((l1 - l0) / (l1 - l0)) = right := by
  have hd : l1 - l0 ≠ 0 := by linarith
  rw [div_self hd]; ring

/-- a positive pair of traced radii gives a positive interpolated radius -/
theorem radius_pos (left right l0 l1 loc : ℝ) (hl : l0 < l1) (h0 : l0 ≤ loc) (h1 : loc ≤ l1)
    (hL : 0 < left) (hR : 0 < right) :
    0 < left + (right - left) * ((loc - l0) / (l1 - l0)) :=
  lt_of_lt_of_le (lt_min hL hR) (radius_between left right l0 l1 loc hl h0 h1).1

/-- the `min_radius` clip `if r < m then m else r` is `max r m` -/
theorem clip_eq_max (x m : ℝ) : (if x < m then m else x) = max x m := by
  split
  · rename_i h; rw [max_eq_right h.le]
  · rename_i h; rw [max_eq_left (not_lt.mp h)]

theorem clip_ge (x m : ℝ) : m ≤ (if x < m then m else x) := by
  rw [clip_eq_max]; exact le_max_right _ _

theorem clip_ge_self (x m : ℝ) : x ≤ (if x < m then m else x) := by
  rw [clip_eq_max]; exact le_max_left _ _

/-- the clip leaves radii that are already `≥ m` untouched -/
theorem clip_id (x m : ℝ) (h : m ≤ x) : (if x < m then m else x) = x := by
  rw [if_neg (not_lt.mpr h)]

end Lerp

/-! ## 4. Compartment centres and lengths, over `ℝ` -/
section Centres

/-- centre of compartment `j` of `n`: `(j + 1/2)/n` -/
noncomputable def centre (n j : ℕ) : ℝ := ((j : ℝ) + 1 / 2) / n

theorem centre_mem (n j : ℕ) (hj : j < n) : 0 < centre n j ∧ centre n j < 1 := by
  have hn : (0 : ℝ) < n := by exact_mod_cast (by omega : 0 < n)
  have hj' : (j : ℝ) + 1 ≤ n := by exact_mod_cast hj
  unfold centre
  constructor
  · positivity
  · rw [div_lt_one hn]; linarith

theorem centre_step (n j : ℕ) (hn : 1 ≤ n) : centre n (j + 1) - centre n j = 1 / n := by
  have hn' : (n : ℝ) ≠ 0 := by exact_mod_cast (by omega : n ≠ 0)
  unfold centre
  push_cast
  field_simp
  ring

theorem centre_strictMono (n : ℕ) (hn : 1 ≤ n) : StrictMono (centre n) := by
  apply strictMono_nat_of_lt_succ
  intro j
  have h := centre_step n j hn
  have hn' : (0 : ℝ) < 1 / n := by
    have : (0 : ℝ) < n := by exact_mod_cast (by omega : 0 < n)
    positivity
  linarith

theorem centre_lt (n i j : ℕ) (hn : 1 ≤ n) (hij : i < j) : centre n i < centre n j :=
  centre_strictMono n hn hij

/-- the model's `np.linspace(1/(2n), 1 - 1/(2n), n)[j] = start + j * step` is the centre `(j + 1/2)/n` (for `n ≥ 2`;
for `n = 1` linspace returns `[start] = [1/2] = [centre 1 0]`). -/
theorem linspace_eq_centre (n j : ℕ) (hn : 2 ≤ n) :
    (j : ℝ) * (((1 - 1 / (n : ℝ) / 2) - 1 / (n : ℝ) / 2) / ((n - 1 : ℕ) : ℝ)) + 1 / (n : ℝ) / 2 = centre n j := by
  have hn' : (n : ℝ) ≠ 0 := by exact_mod_cast (by omega : n ≠ 0)
  have h1 : ((n - 1 : ℕ) : ℝ) = (n : ℝ) - 1 := by
    rw [Nat.cast_sub (by omega)]; simp
  have h2 : (n : ℝ) - 1 ≠ 0 := by
    have : (2 : ℝ) ≤ n := by exact_mod_cast hn
    linarith
  rw [h1]
  unfold centre
  field_simp
  ring

theorem linspace_one : (0 : ℝ) * ((1 - 1 / ((1 : ℕ) : ℝ) / 2) - 1 / ((1 : ℕ) : ℝ) / 2) + 1 / ((1 : ℕ) : ℝ) / 2
    = centre 1 0 := by
  unfold centre; norm_num

/-- the `n` compartment lengths `L/n` of a branch (`List.replicate ncomp (l / ncomp)` in `readSwc`) sum to `L`:
the total cable length does not depend on `ncomp`. -/
theorem compLens_sum (n : ℕ) (L : ℝ) (hn : 1 ≤ n) : (List.replicate n (L / n)).sum = L := by
  have hn' : (n : ℝ) ≠ 0 := by exact_mod_cast (by omega : n ≠ 0)
  rw [List.sum_replicate, nsmul_eq_mul]
  field_simp

/-- all branches together: `flatMap` as in `readSwc` -/
theorem compLens_total (n : ℕ) (Ls : List ℝ) (hn : 1 ≤ n) :
    (Ls.flatMap (fun l : ℝ => List.replicate n (l / (n : ℝ)))).sum = Ls.sum := by
  induction Ls with
  | nil => simp
  | cons l ls ih =>
    rw [List.flatMap_cons, List.sum_append, ih, compLens_sum n l hn, List.sum_cons]

theorem compLens_length (n : ℕ) (Ls : List ℝ) :
    (Ls.flatMap (fun l : ℝ => List.replicate n (l / (n : ℝ)))).length = n * Ls.length := by
  induction Ls with
  | nil => simp
  | cons l ls ih =>
    rw [List.flatMap_cons, List.length_append, ih, List.length_replicate, List.length_cons]; ring

end Centres

/-! ## 5. Groups partition the branches by type -/
section Groups

/-- the group assignment of `readSwc` (inlined there), as a standalone function of `morph.types` -/
def groupsOf (types : List Nat) : List (String × List Nat) :=
  (uniqueSorted types).map (fun t =>
    (groupName t, (List.range types.length).filter (fun i => types.getD i 0 == t)))

/-- `groupsOf` is exactly what `readSwc` computes -/
theorem readSwc_groups_eq (c : Content) (ncomp : Nat) (maxLen minRadius : Option Float) (cell : Cell)
    (h : readSwc c ncomp maxLen minRadius = .ok cell) : cell.groups = groupsOf cell.morph.types := by
  unfold readSwc at h
  cases hm : swcToJaxley c maxLen with
  | error e => simp [hm, bind, Except.bind] at h
  | ok m =>
    cases hr : buildRadiuses m.radFns minRadius ncomp with
    | error e => simp [hm, hr, bind, Except.bind] at h
    | ok r =>
      simp only [hm, hr, bind, Except.bind, pure, Except.pure, Except.ok.injEq] at h
      subst h
      rfl

theorem mem_insertNat (a x : Nat) (l : List Nat) : a ∈ insertNat x l ↔ a = x ∨ a ∈ l := by
  induction l with
  | nil => simp [insertNat]
  | cons y ys ih =>
    unfold insertNat
    split
    · simp
    · split
      · rename_i hxy
        have : x = y := by simpa using hxy
        subst this
        simp
      · simp [ih]; tauto

/-- `np.unique` keeps exactly the values that occur -/
theorem mem_uniqueSorted (a : Nat) (l : List Nat) : a ∈ uniqueSorted l ↔ a ∈ l := by
  induction l with
  | nil => simp [uniqueSorted]
  | cons x xs ih =>
    have : uniqueSorted (x :: xs) = insertNat x (uniqueSorted xs) := rfl
    rw [this, mem_insertNat, ih]; simp

theorem insertNat_sorted (x : Nat) (l : List Nat) (h : l.Pairwise (· < ·)) :
    (insertNat x l).Pairwise (· < ·) := by
  induction l with
  | nil => simp [insertNat]
  | cons y ys ih =>
    rw [List.pairwise_cons] at h
    unfold insertNat
    split
    · rename_i hxy
      rw [List.pairwise_cons]
      refine ⟨?_, List.pairwise_cons.mpr h⟩
      intro a ha
      rcases List.mem_cons.mp ha with rfl | ha
      · exact hxy
      · exact lt_trans hxy (h.1 a ha)
    · split
      · exact List.pairwise_cons.mpr h
      · rename_i h1 h2
        have hne : x ≠ y := by simpa using h2
        rw [List.pairwise_cons]
        refine ⟨?_, ih h.2⟩
        intro a ha
        rcases (mem_insertNat a x ys).mp ha with rfl | ha
        · omega
        · exact h.1 a ha

/-- `np.unique` returns strictly increasing (hence distinct) values -/
theorem uniqueSorted_sorted (l : List Nat) : (uniqueSorted l).Pairwise (· < ·) := by
  induction l with
  | nil => simp [uniqueSorted]
  | cons x xs ih => exact insertNat_sorted x _ ih

theorem uniqueSorted_nodup (l : List Nat) : (uniqueSorted l).Nodup :=
  (uniqueSorted_sorted l).imp (fun h => Nat.ne_of_lt h)

theorem groupName_big (t : Nat) (h : 6 ≤ t) : groupName t = "custom" ++ Nat.repr t := by
  obtain ⟨n, rfl⟩ : ∃ n, t = n + 6 := ⟨t - 6, by omega⟩
  simp [groupName]
  rfl

theorem groupName_small_ne (a : Nat) (ha : a < 6) (r : String) (hr : r ≠ "") : groupName a ≠ "custom" ++ r := by
  have : a = 0 ∨ a = 1 ∨ a = 2 ∨ a = 3 ∨ a = 4 ∨ a = 5 := by omega
  rcases this with rfl | rfl | rfl | rfl | rfl | rfl <;>
  · intro h
    have := congrArg String.toList h
    simp [groupName] at this
    try exact hr this

theorem groupName_small_inj : ∀ a, a < 6 → ∀ b, b < 6 → groupName a = groupName b → a = b := by decide

/-- distinct SWC types give distinct group names (types `0..5` have fixed names, type `t ≥ 6` is `custom{t}`) -/
theorem groupName_injective : Function.Injective groupName := by
  intro a b h
  by_cases ha : a < 6 <;> by_cases hb : b < 6
  · exact groupName_small_inj a ha b hb h
  · rw [groupName_big b (by omega)] at h
    exact absurd h (groupName_small_ne a ha _ Nat.repr_ne_empty)
  · rw [groupName_big a (by omega)] at h
    exact absurd h.symm (groupName_small_ne b hb _ Nat.repr_ne_empty)
  · rw [groupName_big a (by omega), groupName_big b (by omega), String.append_right_inj] at h
    exact Nat.repr_inj.mp h

theorem mem_groupsOf (types : List Nat) (g : String) (idx : List Nat) :
    (g, idx) ∈ groupsOf types ↔
      ∃ t, t ∈ types ∧ g = groupName t ∧
        idx = (List.range types.length).filter (fun i => types.getD i 0 == t) := by
  unfold groupsOf
  simp only [List.mem_map, mem_uniqueSorted, Prod.mk.injEq]
  constructor
  · rintro ⟨t, ht, h1, h2⟩; exact ⟨t, ht, h1.symm, h2.symm⟩
  · rintro ⟨t, ht, h1, h2⟩; exact ⟨t, ht, h1.symm, h2.symm⟩

/-- **5.** branch `i` is listed in group `g` iff it exists and the name of its type is `g` -/
theorem groupsOf_mem_iff (types : List Nat) (g : String) (idx : List Nat) (h : (g, idx) ∈ groupsOf types) (i : Nat) :
    i ∈ idx ↔ i < types.length ∧ groupName (types.getD i 0) = g := by
  obtain ⟨t, _, rfl, rfl⟩ := (mem_groupsOf types g idx).mp h
  simp only [List.mem_filter, List.mem_range, beq_iff_eq]
  constructor
  · rintro ⟨h1, h2⟩; exact ⟨h1, by rw [h2]⟩
  · rintro ⟨h1, h2⟩; exact ⟨h1, groupName_injective h2⟩

/-- every branch belongs to the group of its own type -/
theorem groupsOf_own (types : List Nat) (i : Nat) (hi : i < types.length) :
    ∃ idx, (groupName (types.getD i 0), idx) ∈ groupsOf types ∧ i ∈ idx := by
  refine ⟨(List.range types.length).filter (fun j => types.getD j 0 == types.getD i 0), ?_, ?_⟩
  · rw [mem_groupsOf]
    refine ⟨types.getD i 0, ?_, rfl, rfl⟩
    have e : types.getD i 0 = types[i] := by simp [List.getD_eq_getElem?_getD, hi]
    rw [e]; exact List.getElem_mem _
  · simp [hi]

/-- … and to no group of another type -/
theorem groupsOf_not_other (types : List Nat) (g : String) (idx : List Nat) (h : (g, idx) ∈ groupsOf types)
    (i : Nat) (hg : g ≠ groupName (types.getD i 0)) : i ∉ idx := by
  intro hi
  exact hg ((groupsOf_mem_iff types g idx h i).mp hi).2.symm

/-- the group names are pairwise distinct (one group per type) -/
theorem groupsOf_names_nodup (types : List Nat) : ((groupsOf types).map Prod.fst).Nodup := by
  unfold groupsOf
  rw [List.map_map]
  exact (uniqueSorted_nodup types).map groupName_injective

/-- partition: a branch index lies in exactly one group entry -/
theorem groupsOf_unique (types : List Nat) (e₁ e₂ : String × List Nat)
    (h₁ : e₁ ∈ groupsOf types) (h₂ : e₂ ∈ groupsOf types) (i : Nat) (hi₁ : i ∈ e₁.2) (hi₂ : i ∈ e₂.2) : e₁ = e₂ := by
  obtain ⟨g₁, idx₁⟩ := e₁
  obtain ⟨g₂, idx₂⟩ := e₂
  have a₁ := ((groupsOf_mem_iff types g₁ idx₁ h₁ i).mp hi₁).2
  have a₂ := ((groupsOf_mem_iff types g₂ idx₂ h₂ i).mp hi₂).2
  obtain ⟨t₁, _, rfl, rfl⟩ := (mem_groupsOf types g₁ idx₁).mp h₁
  obtain ⟨t₂, _, rfl, rfl⟩ := (mem_groupsOf types g₂ idx₂).mp h₂
  have : t₁ = t₂ := groupName_injective (a₁.symm.trans a₂)
  subst this
  rfl

/-- no group is empty, and every listed index is a valid branch index -/
theorem groupsOf_nonempty (types : List Nat) (g : String) (idx : List Nat) (h : (g, idx) ∈ groupsOf types) :
    idx ≠ [] ∧ ∀ i ∈ idx, i < types.length := by
  refine ⟨?_, fun i hi => ((groupsOf_mem_iff types g idx h i).mp hi).1⟩
  obtain ⟨t, ht, rfl, rfl⟩ := (mem_groupsOf types g idx).mp h
  obtain ⟨i, hi, rfl⟩ := List.getElem_of_mem ht
  apply List.ne_nil_of_mem (a := i)
  simp [hi]

/-- the same statements for the groups of a cell returned by `readSwc` -/
theorem readSwc_groups_partition (c : Content) (ncomp : Nat) (maxLen minRadius : Option Float) (cell : Cell)
    (h : readSwc c ncomp maxLen minRadius = .ok cell) (g : String) (idx : List Nat) (hg : (g, idx) ∈ cell.groups)
    (i : Nat) : i ∈ idx ↔ i < cell.morph.types.length ∧ groupName (cell.morph.types.getD i 0) = g := by
  rw [readSwc_groups_eq c ncomp maxLen minRadius cell h] at hg
  exact groupsOf_mem_iff _ g idx hg i

example : groupsOf [1, 3, 3, 2, 7, 3] =
    [("soma", [0]), ("axon", [3]), ("basal", [1, 2, 5]), ("custom7", [4])] := by decide

end Groups

/-! ## 6. `stableSortBy` (model of `np.argsort(kind="mergesort")`) -/
section Sorting
variable {α : Type} (key : α → Nat)

theorem insertStable_perm (x : α) (l : List α) : (insertStable key x l).Perm (x :: l) := by
  induction l with
  | nil => simp [insertStable]
  | cons y ys ih =>
    unfold insertStable
    split
    · exact List.Perm.refl _
    · exact ((List.perm_cons y).mpr ih).trans (List.Perm.swap x y ys)

/-- the sort only reorders -/
theorem stableSortBy_perm (l : List α) : (stableSortBy key l).Perm l := by
  induction l with
  | nil => simp [stableSortBy]
  | cons x xs ih =>
    have : stableSortBy key (x :: xs) = insertStable key x (stableSortBy key xs) := rfl
    rw [this]
    exact (insertStable_perm key x _).trans ((List.perm_cons x).mpr ih)

theorem stableSortBy_length (l : List α) : (stableSortBy key l).length = l.length :=
  (stableSortBy_perm key l).length_eq

theorem mem_stableSortBy (a : α) (l : List α) : a ∈ stableSortBy key l ↔ a ∈ l :=
  (stableSortBy_perm key l).mem_iff

theorem insertStable_sorted (x : α) (l : List α) (h : l.Pairwise (fun a b => key a ≤ key b)) :
    (insertStable key x l).Pairwise (fun a b => key a ≤ key b) := by
  induction l with
  | nil => simp [insertStable]
  | cons y ys ih =>
    rw [List.pairwise_cons] at h
    unfold insertStable
    split
    · rename_i hxy
      rw [List.pairwise_cons]
      refine ⟨?_, List.pairwise_cons.mpr h⟩
      intro a ha
      rcases List.mem_cons.mp ha with rfl | ha
      · exact hxy
      · exact le_trans hxy (h.1 a ha)
    · rename_i hxy
      rw [List.pairwise_cons]
      refine ⟨?_, ih h.2⟩
      intro a ha
      rcases List.mem_cons.mp ((insertStable_perm key x ys).mem_iff.mp ha) with rfl | ha
      · omega
      · exact h.1 a ha

/-- the result is sorted by key -/
theorem stableSortBy_sorted (l : List α) : (stableSortBy key l).Pairwise (fun a b => key a ≤ key b) := by
  induction l with
  | nil => simp [stableSortBy]
  | cons x xs ih => exact insertStable_sorted key x _ ih

theorem insertStable_filter (x : α) (l : List α) (k : Nat) :
    (insertStable key x l).filter (fun a => key a == k) = (x :: l).filter (fun a => key a == k) := by
  induction l with
  | nil => simp [insertStable]
  | cons y ys ih =>
    unfold insertStable
    split
    · rfl
    · rename_i hxy
      rw [List.filter_cons, ih]
      by_cases hx : key x = k
      · have hy : ¬ key y = k := by omega
        simp [hx, hy]
      · simp [List.filter_cons, hx]

/-- stability: the elements with any given key `k` appear in their original relative order -/
theorem stableSortBy_stable (l : List α) (k : Nat) :
    (stableSortBy key l).filter (fun a => key a == k) = l.filter (fun a => key a == k) := by
  induction l with
  | nil => simp [stableSortBy]
  | cons x xs ih =>
    have : stableSortBy key (x :: xs) = insertStable key x (stableSortBy key xs) := rfl
    rw [this, insertStable_filter, List.filter_cons, List.filter_cons, ih]

/-- as used by `splitIntoBranchesAndSort` (an argsort of `range n`): branches with the same first id keep increasing
original indices -/
theorem argsort_stable (key : Nat → Nat) (n k : Nat) :
    ((stableSortBy key (List.range n)).filter (fun i => key i == k)).Pairwise (· < ·) := by
  rw [stableSortBy_stable]
  exact List.Pairwise.filter _ List.pairwise_lt_range

example : stableSortBy (fun p : Nat × Nat => p.1) [(3, 0), (1, 1), (3, 2), (1, 3), (2, 4)]
    = [(1, 1), (1, 3), (2, 4), (3, 0), (3, 2)] := by decide

end Sorting

/-! ## 7. Sanity of the specification side (`Spec.Swc`) -/
section SpecSide
open JaxleyVerif.Spec.Swc

/-- "`b` is listed in the file as a child of `a`" -/
def IsChild (f : File) (a b : Nat) : Prop := b ∈ children f a

theorem chain_eq_cons (f : File) (fuel i : Nat) : ∃ t, chain f fuel i = i :: t := by
  cases fuel with
  | zero => exact ⟨[], rfl⟩
  | succ n => exact ⟨_, rfl⟩

theorem chain_isChain (f : File) (fuel i : Nat) : List.IsChain (IsChild f) (chain f fuel i) := by
  induction fuel generalizing i with
  | zero => exact List.isChain_singleton _
  | succ n ih =>
    unfold chain
    split
    · rename_i d hd
      split
      · obtain ⟨t, ht⟩ := chain_eq_cons f n d
        have := ih d
        rw [ht] at this ⊢
        refine List.isChain_cons_cons.mpr ⟨?_, this⟩
        unfold IsChild
        rw [hd]; simp
      · exact List.isChain_singleton _
    · exact List.isChain_singleton _

/-- all points of a chain have the same type -/
theorem chain_sameType (f : File) (fuel i : Nat) : ∀ a ∈ chain f fuel i, typeOf f a = typeOf f i := by
  induction fuel generalizing i with
  | zero => intro a ha; simp [chain] at ha; rw [ha]
  | succ n ih =>
    intro a ha
    unfold chain at ha
    rcases List.mem_cons.mp ha with rfl | ha
    · rfl
    · split at ha
      · split at ha
        · rename_i h; rw [ih _ a ha]; simpa using h
        · simp at ha
      · simp at ha

/-- every interior point of a chain has exactly one child (nothing branches off inside a section) -/
theorem chain_unbranched (f : File) (fuel i : Nat) :
    List.IsChain (fun a b => children f a = [b]) (chain f fuel i) := by
  induction fuel generalizing i with
  | zero => exact List.isChain_singleton _
  | succ n ih =>
    unfold chain
    split
    · rename_i d hd
      split
      · obtain ⟨t, ht⟩ := chain_eq_cons f n d
        have := ih d
        rw [ht] at this ⊢
        exact List.isChain_cons_cons.mpr ⟨hd, this⟩
      · exact List.isChain_singleton _
    · exact List.isChain_singleton _

theorem mem_sections (f : File) (s : List Nat) (h : s ∈ sections f) :
    ∃ p ∈ f, (p.parent = -1 ∧ (s = [p.id] ∨ s = chain f f.length p.id))
      ∨ (p.parent ≠ -1 ∧ s = p.parent.toNat :: chain f f.length p.id) := by
  unfold sections at h
  rw [List.mem_filterMap] at h
  obtain ⟨p, hp, hs⟩ := h
  refine ⟨p, hp, ?_⟩
  split at hs
  · rename_i hpar
    left
    refine ⟨by simpa using hpar, ?_⟩
    split at hs
    · split at hs
      · left; simpa using hs.symm
      · simp at hs
    · right; simpa using hs.symm
  · rename_i hpar
    right
    refine ⟨by simpa using hpar, ?_⟩
    split at hs
    · simp at hs
    · simpa using hs.symm

/-- no section is empty -/
theorem sections_ne_nil (f : File) (s : List Nat) (h : s ∈ sections f) : s ≠ [] := by
  obtain ⟨p, _, ⟨_, h1 | h1⟩ | ⟨_, h1⟩⟩ := mem_sections f s h
  · rw [h1]; simp
  · obtain ⟨t, ht⟩ := chain_eq_cons f f.length p.id
    rw [h1, ht]; simp
  · rw [h1]; simp

/-- consecutive points of a section are parent and child in the file, provided every parent field other than `-1`
is a non-negative id (true for `wellFormed` files) -/
theorem sections_isChain (f : File) (hpar : ∀ p ∈ f, p.parent ≠ -1 → 0 ≤ p.parent)
    (s : List Nat) (h : s ∈ sections f) : List.IsChain (IsChild f) s := by
  obtain ⟨p, hp, ⟨_, h1 | h1⟩ | ⟨hne, h1⟩⟩ := mem_sections f s h
  · rw [h1]; exact List.isChain_singleton _
  · rw [h1]; exact chain_isChain f _ _
  · obtain ⟨t, ht⟩ := chain_eq_cons f f.length p.id
    have := chain_isChain f f.length p.id
    rw [h1, ht] at *
    refine List.isChain_cons_cons.mpr ⟨?_, this⟩
    unfold IsChild children
    rw [List.mem_map]
    refine ⟨p, ?_, rfl⟩
    rw [List.mem_filter]
    refine ⟨hp, ?_⟩
    have := hpar p hp hne
    simp only [beq_iff_eq]
    omega

theorem wellFormed_parent_nonneg (f : File) (hw : wellFormed f = true) :
    ∀ p ∈ f, p.parent ≠ -1 → 0 ≤ p.parent := by
  unfold wellFormed at hw
  simp only [Bool.and_eq_true, List.all_eq_true] at hw
  obtain ⟨⟨⟨_, _⟩, hhead⟩, hrest⟩ := hw
  intro p hp hne
  cases f with
  | nil => simp at hp
  | cons q qs =>
    rcases List.mem_cons.mp hp with rfl | hp
    · simp at hhead; exact absurd hhead hne
    · have := hrest p (by simpa using hp)
      simp only [decide_eq_true_eq] at this
      omega

theorem wellFormed_ids_nodup (f : File) (hw : wellFormed f = true) : (f.map (·.id)).Nodup := by
  unfold wellFormed at hw
  simp only [Bool.and_eq_true] at hw
  obtain ⟨⟨⟨_, hid⟩, _⟩, _⟩ := hw
  have : f.map (·.id) = (List.range f.length).map (· + 1) := by simpa using hid
  rw [this]
  exact List.nodup_range.map (fun a b h => by simpa using h)

theorem find_of_nodup (f : File) (hn : (f.map (·.id)).Nodup) (p : Pt) (hp : p ∈ f) :
    point? f p.id = some p := by
  unfold point?
  induction f with
  | nil => simp at hp
  | cons q qs ih =>
    rw [List.map_cons, List.nodup_cons] at hn
    rw [List.find?_cons]
    rcases List.mem_cons.mp hp with rfl | hp
    · simp
    · have hne : ¬ (q.id = p.id) := by
        intro he
        apply hn.1
        rw [he]
        exact List.mem_map_of_mem hp
      have : (q.id == p.id) = false := by simpa using hne
      rw [this]
      exact ih hn.2 hp

/-- in a file with distinct ids, the listed children of `a` are exactly the points whose parent field is `a` -/
theorem parentOf_of_child (f : File) (hn : (f.map (·.id)).Nodup) (a b : Nat) (h : IsChild f a b) :
    parentOf f b = (a : Int) := by
  unfold IsChild children at h
  rw [List.mem_map] at h
  obtain ⟨p, hp, rfl⟩ := h
  rw [List.mem_filter] at hp
  unfold parentOf
  rw [find_of_nodup f hn p hp.1]
  simpa using hp.2

/-- **7.** in a well-formed file, consecutive elements of every section are parent/child:
`parentOf f s[k+1] = s[k]`. -/
theorem sections_parentOf (f : File) (hw : wellFormed f = true) (s : List Nat) (h : s ∈ sections f)
    (k : Nat) (hk : k + 1 < s.length) : parentOf f s[k + 1] = (s[k] : Int) := by
  have hc := sections_isChain f (wellFormed_parent_nonneg f hw) s h
  have := (List.isChain_iff_getElem.mp hc) k hk
  exact parentOf_of_child f (wellFormed_ids_nodup f hw) _ _ this

theorem insertByHead_perm (s : List Nat) (l : List (List Nat)) : (insertByHead s l).Perm (s :: l) := by
  induction l with
  | nil => simp [insertByHead]
  | cons t ts ih =>
    unfold insertByHead
    split
    · exact List.Perm.refl _
    · exact ((List.perm_cons t).mpr ih).trans (List.Perm.swap s t ts)

/-- `specBranches` is a reordering of `sections` … -/
theorem specBranches_perm (f : File) : (specBranches f).Perm (sections f) := by
  unfold specBranches
  induction sections f with
  | nil => simp
  | cons s ss ih =>
    rw [List.foldr_cons]
    exact (insertByHead_perm s _).trans ((List.perm_cons s).mpr ih)

theorem insertByHead_sorted (s : List Nat) (l : List (List Nat))
    (h : l.Pairwise (fun a b => a.headD 0 ≤ b.headD 0)) :
    (insertByHead s l).Pairwise (fun a b => a.headD 0 ≤ b.headD 0) := by
  induction l with
  | nil => simp [insertByHead]
  | cons y ys ih =>
    rw [List.pairwise_cons] at h
    unfold insertByHead
    split
    · rename_i hxy
      rw [List.pairwise_cons]
      refine ⟨?_, List.pairwise_cons.mpr h⟩
      intro a ha
      rcases List.mem_cons.mp ha with rfl | ha
      · exact hxy
      · exact le_trans hxy (h.1 a ha)
    · rename_i hxy
      rw [List.pairwise_cons]
      refine ⟨?_, ih h.2⟩
      intro a ha
      rcases List.mem_cons.mp ((insertByHead_perm s ys).mem_iff.mp ha) with rfl | ha
      · omega
      · exact h.1 a ha

/-- … sorted by first id -/
theorem specBranches_sorted (f : File) : (specBranches f).Pairwise (fun a b => a.headD 0 ≤ b.headD 0) := by
  unfold specBranches
  induction sections f with
  | nil => simp
  | cons s ss ih => rw [List.foldr_cons]; exact insertByHead_sorted s _ ih

/-- so the sanity statements carry over to `specBranches` -/
theorem specBranches_parentOf (f : File) (hw : wellFormed f = true) (s : List Nat) (h : s ∈ specBranches f)
    (k : Nat) (hk : k + 1 < s.length) : s ≠ [] ∧ parentOf f s[k + 1] = (s[k] : Int) :=
  have hs := (specBranches_perm f).mem_iff.mp h
  ⟨sections_ne_nil f s hs, sections_parentOf f hw s hs k hk⟩

end SpecSide

/- NOT PROVED:
* (7, first variant) "every id of `specBranches f` that is not first in its section occurs in exactly one section"
  (disjointness of the own points of different sections).  It needs the tree structure of a `wellFormed` file
  (uniqueness of the section start above a point); only the local sanity statements of section 7 are proved.
* Nothing is claimed about the `Float` computations themselves (`radiusAt`, `centres`, `npLinspace`, `compLens`):
  sections 3 and 4 prove the same formulas over `ℝ`.
* `splitBranchEqually` for `k > branch.length` or `k < 2` is outside the hypotheses (see the `decide` examples:
  the pieces are then not a decomposition of the branch).
-/

end JaxleyVerif.Props.C16
