/-
C19 — any editing history leaves a consistent module that simulates its tables.

The implementation's mutable pandas/JAX state refines the pure state machine `Model.Ops` (checked after EVERY operation of random
histories by the correspondence harness through the abstraction function α).  Here:

* `wf_reachable` : the consistency invariant `WF` holds after every ACCEPTED history, by induction over the operation list
  (per-operation preservation lemmas in Lemmas/OpsWF.lean; operations receive row/edge labels that exist, which is what views
  provide — `Op.Valid`)
* `delete_recordings_undoes`, `delete_trainables_undoes`, `deleteExternal_removes(_edge)`, `deleteExternal_other_keys`,
  `record_keeps_existing`, `insert_flags` : deletions undo their insertions on the viewed rows and leave other entries untouched
* that `integrate` simulates the tables is the refinement itself (α compared after every operation) plus properties C08/C10,
  which show that the arrays and recordings used by the simulation are functions of these tables
-/
import JaxleyVerif.Lemmas.OpsWF
import JaxleyVerif.Lemmas.OpsFrame
import JaxleyVerif.Lemmas.OpsNoDangling

namespace JaxleyVerif.Props.C19
open JaxleyVerif.Model.Ops

/-- the operation alphabet -/
inductive Op where
  | insert (rows : List Nat) (c : ChanDesc)
  | deleteChannel (rows : List Nat) (c : ChanDesc)
  | setNode (rows : List Nat) (k : String) (v : Nat)
  | addToGroup (rows : List Nat) (name : String)
  | record (rows es : List Nat) (state : String)
  | deleteRecordings
  | externalInput (rows es : List Nat) (key : String) (data : List (List Nat))
  | deleteExternal (rows es : List Nat) (key : String)
  | makeTrainable (key : String) (groups : List (List Nat))
  | deleteTrainables
  | connect (pre post : List Nat) (s : SynDesc)

/-- one step of the state machine; a rejected operation leaves the state unchanged -/
def apply (m : Mod) : Op → Except String Mod
  | .insert rows c => .ok (insert m rows c)
  | .deleteChannel rows c => deleteChannel m rows c
  | .setNode rows k v => setNode m rows k v
  | .addToGroup rows name => .ok (addToGroup m rows name)
  | .record rows es st => record m rows es st
  | .deleteRecordings => .ok (deleteRecordingsAll m)
  | .externalInput rows es key data => externalInput m rows es key data
  | .deleteExternal rows es key => .ok (deleteExternal m rows es key)
  | .makeTrainable key groups => .ok (makeTrainable m key groups)
  | .deleteTrainables => .ok (deleteTrainablesAll m)
  | .connect pre post s => .ok (connect m pre post s)

def step (m : Mod) (o : Op) : Mod := match apply m o with | .ok m' => m' | .error _ => m

/-- the labels an operation is called with exist (what a view guarantees), and every stored recording / input index is a row
index (the strong form of the index invariant, which the step preserves together with `WF`) -/
def Op.Valid (n : Nat) : Op → Prop
  | .insert _ _ => True
  | .deleteChannel _ _ => True
  | .setNode _ _ _ => True
  | .addToGroup rows _ => ∀ r ∈ rows, r < n
  | .record rows es _ => (∀ r ∈ rows, r < n) ∧ (∀ e ∈ es, e < n)
  | .deleteRecordings => True
  | .externalInput rows es _ _ => (∀ r ∈ rows, r < n) ∧ (∀ e ∈ es, e < n)
  | .deleteExternal _ _ _ => True
  | .makeTrainable _ _ => True
  | .deleteTrainables => True
  | .connect pre post _ => (∀ r ∈ pre, r < n) ∧ (∀ r ∈ post, r < n)

/-- strengthened invariant: `WF` and every recording / input index below `n` -/
def Inv (m : Mod) : Prop := WF m ∧ (∀ r ∈ m.recs, r.1 < m.n) ∧ (∀ p ∈ m.ext, ∀ r ∈ p.2, r.1 < m.n)

theorem step_n (m : Mod) (o : Op) : (step m o).n = m.n := by
  unfold step apply
  cases o <;> simp only
  all_goals first
    | exact n_insert _ _ _
    | exact n_addToGroup _ _ _
    | exact n_deleteRecordingsAll _
    | exact n_deleteExternal _ _ _ _
    | exact n_makeTrainable _ _ _
    | exact n_deleteTrainablesAll _
    | exact n_connect _ _ _ _
    | (split <;> first | rfl | (rename_i h; first | exact n_deleteChannel h | exact n_setNode h | exact n_record h | exact n_externalInput h))

/-! ### 1.–3. the invariant holds after every history -/

theorem inv_init (n : Nat) (geom : List (String × Nat)) : Inv (init n geom) :=
  ⟨wf_init n geom, (by intro r hr; cases hr), (by intro p hp; cases hp)⟩

theorem inv_step (m : Mod) (o : Op) (h : Inv m) (hv : o.Valid m.n) : Inv (step m o) := by
  obtain ⟨hwf, hrec, hext⟩ := h
  cases o with
  | insert rows c =>
    show Inv (insert m rows c)
    exact ⟨wf_insert' hwf hrec hext, hrec, hext⟩
  | deleteChannel rows c =>
    simp only [step, apply]
    cases hres : deleteChannel m rows c with
    | error e => exact ⟨hwf, hrec, hext⟩
    | ok m' =>
      obtain ⟨h1, h2⟩ := frame_deleteChannel hres
      have hn := n_deleteChannel hres
      refine ⟨wf_deleteChannel hwf hres, ?_, ?_⟩
      · show ∀ r ∈ m'.recs, r.1 < m'.n
        rw [hn]; exact fun r hr => hrec r (h1 r hr)
      · show ∀ p ∈ m'.ext, ∀ r ∈ p.2, r.1 < m'.n
        rw [hn]; exact fun p hp => hext p (h2 p hp)
  | setNode rows k v =>
    simp only [step, apply]
    cases hres : setNode m rows k v with
    | error e => exact ⟨hwf, hrec, hext⟩
    | ok m' =>
      obtain ⟨h1, h2⟩ := frame_setNode hres
      have hn := n_setNode hres
      refine ⟨wf_setNode hwf hres, ?_, ?_⟩
      · show ∀ r ∈ m'.recs, r.1 < m'.n
        rw [h1, hn]; exact hrec
      · show ∀ p ∈ m'.ext, ∀ r ∈ p.2, r.1 < m'.n
        rw [h2, hn]; exact hext
  | addToGroup rows name =>
    show Inv (addToGroup m rows name)
    obtain ⟨h1, h2⟩ := frame_addToGroup m rows name
    have hn := n_addToGroup m rows name
    refine ⟨wf_addToGroup hwf hv, ?_, ?_⟩
    · rw [h1, hn]; exact hrec
    · rw [h2, hn]; exact hext
  | record rows es st =>
    obtain ⟨hrows, hes⟩ := hv
    simp only [step, apply]
    cases hres : record m rows es st with
    | error e => exact ⟨hwf, hrec, hext⟩
    | ok m' =>
      have h2 := frame_record hres
      have hn := n_record hres
      refine ⟨wf_record' hwf hrows hes hres, ?_, ?_⟩
      · show ∀ r ∈ m'.recs, r.1 < m'.n
        intro r hr
        rw [hn]
        rcases mem_recs_record hres hr with h | h | h
        · exact hrec r h
        · exact hrows _ h
        · exact hes _ h
      · show ∀ p ∈ m'.ext, ∀ r ∈ p.2, r.1 < m'.n
        rw [h2, hn]; exact hext
  | deleteRecordings =>
    show Inv (deleteRecordingsAll m)
    exact ⟨wf_deleteRecordingsAll hwf, (by intro r hr; cases hr), hext⟩
  | externalInput rows es key data =>
    obtain ⟨hrows, hes⟩ := hv
    simp only [step, apply]
    cases hres : externalInput m rows es key data with
    | error e => exact ⟨hwf, hrec, hext⟩
    | ok m' =>
      have h1 := frame_externalInput hres
      have hn := n_externalInput hres
      refine ⟨wf_externalInput' hwf hrows hes hres, ?_, ?_⟩
      · show ∀ r ∈ m'.recs, r.1 < m'.n
        rw [h1, hn]; exact hrec
      · show ∀ p ∈ m'.ext, ∀ r ∈ p.2, r.1 < m'.n
        intro p hp r hr
        rw [hn]
        rcases mem_ext_externalInput hres hp hr with ⟨p0, hp0, h⟩ | h | h
        · exact hext p0 hp0 r h
        · exact hrows _ h
        · exact hes _ h
  | deleteExternal rows es key =>
    show Inv (deleteExternal m rows es key)
    refine ⟨wf_deleteExternal hwf, hrec, ?_⟩
    intro p hp r hr
    obtain ⟨p0, hp0, h⟩ := mem_ext_deleteExternal hp hr
    exact hext p0 hp0 r h
  | makeTrainable key groups =>
    show Inv (makeTrainable m key groups)
    exact ⟨wf_makeTrainable hwf, hrec, hext⟩
  | deleteTrainables =>
    show Inv (deleteTrainablesAll m)
    exact ⟨wf_deleteTrainablesAll hwf, hrec, hext⟩
  | connect pre post s =>
    show Inv (connect m pre post s)
    exact ⟨wf_connect hwf hv.1 hv.2, hrec, hext⟩

/-- generalised over the start state (`n` stays fixed by `step_n`) -/
theorem inv_foldl (ops : List Op) (m : Mod) (h : Inv m) (hv : ∀ o ∈ ops, o.Valid m.n) : Inv (ops.foldl step m) := by
  induction ops generalizing m with
  | nil => exact h
  | cons o os ih =>
    rw [List.foldl_cons]
    refine ih (step m o) (inv_step m o h (hv o List.mem_cons_self)) ?_
    intro o' ho'
    rw [step_n]
    exact hv o' (List.mem_cons_of_mem _ ho')

theorem inv_reachable (n : Nat) (geom : List (String × Nat)) (ops : List Op) (hv : ∀ o ∈ ops, o.Valid n) :
    Inv (ops.foldl step (init n geom)) :=
  inv_foldl ops (init n geom) (inv_init n geom) hv

theorem wf_reachable (n : Nat) (geom : List (String × Nat)) (ops : List Op) (hv : ∀ o ∈ ops, o.Valid n) :
    WF (ops.foldl step (init n geom)) :=
  (inv_reachable n geom ops hv).1

/-! ### 4. deletions undo insertions / frames -/

/-- `delete_channel` never adds a recording or an input, and keeps every recording / input of a state that does not belong to the
deleted channel (the recordings and clamps of states that disappear with the channel are removed with it: fix of N13) -/
theorem delete_channel_recordings (m m' : Mod) (rows : List Nat) (c : ChanDesc) (h : deleteChannel m rows c = .ok m') :
    (∀ r ∈ m'.recs, r ∈ m.recs) ∧ (∀ p ∈ m'.ext, p ∈ m.ext) ∧
    (∀ r ∈ m.recs, ¬ (r.2 ∈ c.keys ∨ r.2 = c.current) → r ∈ m'.recs) ∧
    (∀ p ∈ m.ext, ¬ (p.1 ∈ c.keys ∨ p.1 = c.current) → p ∈ m'.ext) :=
  ⟨(frame_deleteChannel h).1, (frame_deleteChannel h).2, (frame_deleteChannel_keeps h).1, (frame_deleteChannel_keeps h).2⟩

theorem delete_recordings_undoes (m : Mod) :
    (deleteRecordingsAll m).recs = [] ∧ (deleteRecordingsAll m).cols = m.cols ∧ (deleteRecordingsAll m).ext = m.ext ∧
      (deleteRecordingsAll m).groups = m.groups :=
  ⟨rfl, rfl, rfl, rfl⟩

theorem delete_trainables_undoes (m : Mod) (key : String) (groups : List (List Nat)) :
    (deleteTrainablesAll (makeTrainable m key groups)).trainables = [] ∧
      (deleteTrainablesAll (makeTrainable m key groups)).cols = m.cols :=
  ⟨rfl, rfl⟩

/-- inputs of other keys are untouched by `deleteExternal` -/
theorem deleteExternal_other_keys (m : Mod) (rows es : List Nat) (key : String) (p : String × List (Nat × List Nat))
    (hp : p ∈ m.ext) (hk : (p.1 == key) = false) : p ∈ (deleteExternal m rows es key).ext := by
  simp only [deleteExternal, List.mem_filterMap]
  refine ⟨p, hp, ?_⟩
  rw [hk]
  rfl

/-- after deletion (of a node key) no input of that key remains on a row in view -/
theorem deleteExternal_removes (m : Mod) (rows es : List Nat) (key : String) (hn : (edgeStates m).contains key = false) :
    ∀ p ∈ (deleteExternal m rows es key).ext, (p.1 == key) = true → ∀ r ∈ p.2, r.1 ∉ rows := by
  intro p hp hpk r hr
  have hin : (if (edgeStates m).contains key then es else rows) = rows := by rw [hn]; rfl
  simp only [deleteExternal, List.mem_filterMap] at hp
  rw [hin] at hp
  obtain ⟨p0, hp0, hp⟩ := hp
  by_cases hk : (p0.1 == key) = true
  · rw [if_pos hk] at hp
    split at hp
    · cases hp
    · cases hp
      have := (List.mem_filter.mp hr).2
      simpa using this
  · rw [if_neg hk] at hp
    have hp' : p0 = p := Option.some.inj hp
    rw [hp'] at hk
    exact absurd hpk hk

/-- the same for an edge key: no input of that key remains on an edge in view -/
theorem deleteExternal_removes_edge (m : Mod) (rows es : List Nat) (key : String)
    (hn : (edgeStates m).contains key = true) :
    ∀ p ∈ (deleteExternal m rows es key).ext, (p.1 == key) = true → ∀ r ∈ p.2, r.1 ∉ es := by
  intro p hp hpk r hr
  have hin : (if (edgeStates m).contains key then es else rows) = es := by rw [hn]; rfl
  simp only [deleteExternal, List.mem_filterMap] at hp
  rw [hin] at hp
  obtain ⟨p0, hp0, hp⟩ := hp
  by_cases hk : (p0.1 == key) = true
  · rw [if_pos hk] at hp
    split at hp
    · cases hp
    · cases hp
      have := (List.mem_filter.mp hr).2
      simpa using this
  · rw [if_neg hk] at hp
    have hp' : p0 = p := Option.some.inj hp
    rw [hp'] at hk
    exact absurd hpk hk

/-- an accepted `record` keeps every earlier recording (`mem_dedup_of_mem` in Lemmas/OpsFrame.lean) -/
theorem record_keeps_existing (m m' : Mod) (rows es : List Nat) (st : String) (h : record m rows es st = .ok m') :
    ∀ r ∈ m.recs, r ∈ m'.recs :=
  fun _ hr => recs_sub_record h hr

/-- `insert` sets the channel flag exactly on the rows in view and keeps it elsewhere -/
theorem insert_flags (m : Mod) (rows : List Nat) (c : ChanDesc) (i : Nat) (hi : i < m.n) :
    flagAt (insert m rows c) c.name i = (rows.contains i || flagAt m c.name i) := by
  show ((((writeFlag m.n m.flags c.name rows true).find? (·.1 == c.name)).map (·.2)).getD []).getD i false = _
  rw [getD_find_writeFlag _ _ _ _ _ _ hi]
  unfold flagAt getFlag
  cases rows.contains i <;> simp

/-! ### 5. no dangling references (after the fix of N13) -/

/-- the side condition of `NoDangling` preservation: the descriptor handed to `delete_channel` is compatible with the registry
(`Model.Ops.delOkB`: a registered channel of the same name IS this descriptor); every other operation is unconditional -/
def Op.delOkB (m : Mod) : Op → Bool
  | .deleteChannel _ c => JaxleyVerif.Model.Ops.delOkB m c
  | _ => true

/-- the channel descriptors an operation mentions -/
def Op.descs : Op → List ChanDesc
  | .insert _ c => [c]
  | .deleteChannel _ c => [c]
  | _ => []

theorem noDangling_init (n : Nat) (geom : List (String × Nat)) : NoDangling (init n geom) :=
  ⟨(by intro r hr; cases hr), (by intro p hp; cases hp)⟩

theorem curInv_init (n : Nat) (geom : List (String × Nat)) : CurInv (init n geom) := by
  intro c hc; cases hc

theorem regs_setNode {m m' : Mod} {rows : List Nat} {k : String} {v : Nat} (heq : setNode m rows k v = .ok m') :
    m'.chans = m.chans ∧ m'.currents = m.currents ∧ m'.syns = m.syns := by
  unfold setNode at heq
  split at heq
  · cases heq
  · cases heq; exact ⟨rfl, rfl, rfl⟩

theorem regs_addToGroup (m : Mod) (rows : List Nat) (name : String) :
    (addToGroup m rows name).chans = m.chans ∧ (addToGroup m rows name).currents = m.currents ∧
      (addToGroup m rows name).syns = m.syns := by
  unfold addToGroup
  split <;> exact ⟨rfl, rfl, rfl⟩

/-- `NoDangling` together with `CurInv` (the current of every registered channel is listed) is preserved by EVERY operation;
only `delete_channel` needs the side condition -/
theorem noDangling_curInv_step (m : Mod) (o : Op) (h : NoDangling m) (hc : CurInv m) (hd : o.delOkB m = true) :
    NoDangling (step m o) ∧ CurInv (step m o) := by
  cases o with
  | insert rows c => exact ⟨noDangling_insert rows c h, curInv_insert rows c hc⟩
  | deleteChannel rows c =>
    simp only [step, apply]
    cases hres : deleteChannel m rows c with
    | error e => exact ⟨h, hc⟩
    | ok m' => exact ⟨noDangling_deleteChannel h hd hres, curInv_deleteChannel hc hres⟩
  | setNode rows k v =>
    simp only [step, apply]
    cases hres : setNode m rows k v with
    | error e => exact ⟨h, hc⟩
    | ok m' =>
      obtain ⟨h1, h2, h3⟩ := regs_setNode hres
      obtain ⟨f1, f2⟩ := frame_setNode hres
      refine ⟨noDangling_of_same h h1 h2 h3 (fun r hr => f1 ▸ hr) (fun p hp => ⟨p, f2 ▸ hp, rfl⟩), ?_⟩
      intro d hd'
      show d.current ∈ m'.currents
      rw [h2]; exact hc d (h1 ▸ hd')
  | addToGroup rows name =>
    show NoDangling (addToGroup m rows name) ∧ CurInv (addToGroup m rows name)
    obtain ⟨h1, h2, h3⟩ := regs_addToGroup m rows name
    obtain ⟨f1, f2⟩ := frame_addToGroup m rows name
    refine ⟨noDangling_of_same h h1 h2 h3 (fun r hr => f1 ▸ hr) (fun p hp => ⟨p, f2 ▸ hp, rfl⟩), ?_⟩
    intro d hd'
    rw [h2]; exact hc d (h1 ▸ hd')
  | record rows es st =>
    simp only [step, apply]
    cases hres : record m rows es st with
    | error e => exact ⟨h, hc⟩
    | ok m' =>
      obtain ⟨g1, g2, g3⟩ := noDangling_record h hc hres
      refine ⟨g1, ?_⟩
      intro d hd'
      show d.current ∈ m'.currents
      rw [g3]; exact hc d (g2 ▸ hd')
  | deleteRecordings =>
    exact ⟨noDangling_of_same h rfl rfl rfl (fun r hr => by cases hr) (fun p hp => ⟨p, hp, rfl⟩), hc⟩
  | externalInput rows es key data =>
    simp only [step, apply]
    cases hres : externalInput m rows es key data with
    | error e => exact ⟨h, hc⟩
    | ok m' =>
      obtain ⟨g1, g2, g3⟩ := noDangling_externalInput h hc hres
      refine ⟨g1, ?_⟩
      intro d hd'
      show d.current ∈ m'.currents
      rw [g3]; exact hc d (g2 ▸ hd')
  | deleteExternal rows es key => exact ⟨noDangling_deleteExternal rows es key h, hc⟩
  | makeTrainable key groups =>
    exact ⟨noDangling_of_same h rfl rfl rfl (fun r hr => hr) (fun p hp => ⟨p, hp, rfl⟩), hc⟩
  | deleteTrainables =>
    exact ⟨noDangling_of_same h rfl rfl rfl (fun r hr => hr) (fun p hp => ⟨p, hp, rfl⟩), hc⟩
  | connect pre post s => exact ⟨noDangling_connect pre post s h, hc⟩

/-- (C19) **`NoDangling` is preserved by every operation of the alphabet** (given `CurInv`, which every reachable state has) -/
theorem noDangling_step (m : Mod) (o : Op) (h : NoDangling m) (hc : CurInv m) (hd : o.delOkB m = true) :
    NoDangling (step m o) := (noDangling_curInv_step m o h hc hd).1

theorem curInv_step (m : Mod) (o : Op) (h : NoDangling m) (hc : CurInv m) (hd : o.delOkB m = true) :
    CurInv (step m o) := (noDangling_curInv_step m o h hc hd).2

/-- the registry only ever contains descriptors that were inserted -/
theorem chans_sub_step (m : Mod) (o : Op) : ∀ d ∈ (step m o).chans, d ∈ m.chans ∨ d ∈ o.descs := by
  intro d hd
  cases o with
  | insert rows c =>
    have hd' : d ∈ (if m.chans.any (·.name == c.name) then m.chans else m.chans ++ [c]) := hd
    split at hd'
    · exact Or.inl hd'
    · rcases List.mem_append.mp hd' with h1 | h1
      · exact Or.inl h1
      · exact Or.inr h1
  | deleteChannel rows c =>
    simp only [step, apply] at hd
    cases hres : deleteChannel m rows c with
    | error e => rw [hres] at hd; exact Or.inl hd
    | ok m' =>
      rw [hres] at hd
      rcases deleteChannel_cases hres with ⟨h1, -⟩ | ⟨h1, -⟩
      · exact Or.inl (h1 ▸ hd)
      · rw [h1] at hd; exact Or.inl (List.mem_filter.mp hd).1
  | setNode rows k v =>
    simp only [step, apply] at hd
    cases hres : setNode m rows k v with
    | error e => rw [hres] at hd; exact Or.inl hd
    | ok m' => rw [hres] at hd; exact Or.inl ((regs_setNode hres).1 ▸ hd)
  | addToGroup rows name => exact Or.inl ((regs_addToGroup m rows name).1 ▸ hd)
  | record rows es st =>
    simp only [step, apply] at hd
    cases hres : record m rows es st with
    | error e => rw [hres] at hd; exact Or.inl hd
    | ok m' =>
      rw [hres] at hd
      unfold record at hres
      split at hres
      · cases hres; exact Or.inl hd
      · split at hres
        · cases hres; exact Or.inl hd
        · cases hres
  | deleteRecordings => exact Or.inl hd
  | externalInput rows es key data =>
    simp only [step, apply] at hd
    cases hres : externalInput m rows es key data with
    | error e => rw [hres] at hd; exact Or.inl hd
    | ok m' =>
      rw [hres] at hd
      unfold externalInput at hres
      simp only at hres
      generalize (if (nodeStatesIn m rows).contains key then rows else es) = inds at hres
      generalize (if data.length == inds.length then data else List.replicate inds.length (data.headD [])) = dd at hres
      split at hres
      · cases hres
      · split at hres
        · cases hres
        · split at hres <;> (cases hres; exact Or.inl hd)
  | deleteExternal rows es key => exact Or.inl hd
  | makeTrainable key groups => exact Or.inl hd
  | deleteTrainables => exact Or.inl hd
  | connect pre post s => exact Or.inl hd

/-- generalised over the start state and a catalogue `D` of pairwise compatible descriptors -/
theorem noDangling_foldl (D : List ChanDesc) (hD : ∀ c ∈ D, ∀ d ∈ D, chanCompatB c d = true) (ops : List Op)
    (hops : ∀ o ∈ ops, ∀ c ∈ o.descs, c ∈ D) (m : Mod) (h : NoDangling m) (hc : CurInv m) (hreg : ∀ d ∈ m.chans, d ∈ D) :
    NoDangling (ops.foldl step m) ∧ CurInv (ops.foldl step m) := by
  induction ops generalizing m with
  | nil => exact ⟨h, hc⟩
  | cons o os ih =>
    rw [List.foldl_cons]
    have hok : o.delOkB m = true := by
      cases o with
      | deleteChannel rows c =>
        show JaxleyVerif.Model.Ops.delOkB m c = true
        unfold JaxleyVerif.Model.Ops.delOkB
        rw [List.all_eq_true]
        intro d hd
        exact hD c (hops _ List.mem_cons_self c (by simp [Op.descs])) d (hreg d hd)
      | _ => rfl
    obtain ⟨h1, h2⟩ := noDangling_curInv_step m o h hc hok
    refine ih (fun o' ho' => hops o' (List.mem_cons_of_mem _ ho')) (step m o) h1 h2 ?_
    intro d hd
    rcases chans_sub_step m o d hd with h3 | h3
    · exact hreg d h3
    · exact hops o List.mem_cons_self d h3

/-- (C19) **no dangling references after any editing history**: if the channel descriptors used by the history are pairwise
compatible (one descriptor per channel name), then
every recording and every external input of the final module refers to a state that exists in it -/
theorem noDangling_reachable (n : Nat) (geom : List (String × Nat)) (ops : List Op)
    (hcat : ∀ c ∈ ops.flatMap Op.descs, ∀ d ∈ ops.flatMap Op.descs, chanCompatB c d = true) :
    NoDangling (ops.foldl step (init n geom)) :=
  (noDangling_foldl (ops.flatMap Op.descs) hcat ops
    (fun o ho c hc => List.mem_flatMap.mpr ⟨o, ho, hc⟩) (init n geom) (noDangling_init n geom) (curInv_init n geom)
    (by intro d hd; cases hd)).1

/-! #### the N13 witness, the corner that needs the side condition, and the corner the refined fix removed -/

def exHH : ChanDesc :=
  { name := "HH", params := [("HH_gNa", 1)], states := [("HH_m", 2), ("HH_h", 3), ("HH_n", 4)], current := "i_HH" }

/-- the N13 history: insert HH on both rows; record `HH_n`; clamp `HH_m`; delete the channel everywhere -/
def exHist : List Op :=
  [.insert [0, 1] exHH, .record [0] [] "HH_n", .externalInput [0] [] "HH_m" [[7]], .deleteChannel [0, 1] exHH]

/-- before the deletion the recording and the clamp are there … -/
example : ((exHist.take 3).foldl step (init 2 [("radius", 1)])).recs = [(0, "HH_n")] ∧
    ((exHist.take 3).foldl step (init 2 [("radius", 1)])).ext = [("HH_m", [(0, [7])])] := by decide

/-- … and they go with the channel (N13 fixed): nothing is left behind -/
example : (exHist.foldl step (init 2 [("radius", 1)])).recs = [] ∧ (exHist.foldl step (init 2 [("radius", 1)])).ext = [] ∧
    (exHist.foldl step (init 2 [("radius", 1)])).chans = [] := by decide

example : NoDangling (exHist.foldl step (init 2 [("radius", 1)])) :=
  noDangling_reachable 2 [("radius", 1)] exHist (by decide)

/-- the corner that remains (why `delOkB` asks for the registered descriptor): deleting "HH" with a descriptor that lists no states removes
the channel but keeps the recording of `HH_n`, which then refers to no state of the module -/
example :
    let fin := ([.insert [0, 1] exHH, .record [0] [] "HH_n",
      .deleteChannel [0, 1] { exHH with states := [] }] : List Op).foldl step (init 2 [])
    fin.recs = [(0, "HH_n")] ∧ "HH_n" ∉ nodeStates fin ∧ "HH_n" ∉ edgeStates fin := by decide

/-- the former corner 2, now handled by the refined fix: channel `A` has a STATE `x`, channel `B` a PARAMETER `x`; deleting `A`
keeps the shared column `x` but removes the recording of `x` (no remaining channel has a state of that name) -/
def exA : ChanDesc := { name := "A", params := [], states := [("x", 0)], current := "i_A" }
def exB : ChanDesc := { name := "B", params := [("x", 5)], states := [], current := "i_B" }
def exHistAB : List Op := [.insert [0] exA, .insert [0] exB, .record [0] [] "x", .deleteChannel [0] exA]

example : ((exHistAB.take 3).foldl step (init 1 [])).recs = [(0, "x")] ∧
    (exHistAB.foldl step (init 1 [])).recs = [] ∧
    ((exHistAB.foldl step (init 1 [])).cols.map (·.1)).contains "x" = true ∧
    chanCompatB exA exB = true := by decide

example : NoDangling (exHistAB.foldl step (init 1 [])) := noDangling_reachable 1 [] exHistAB (by decide)

end JaxleyVerif.Props.C19
