/-
C06 — results do not depend on how the simulation is executed (the logic part).

* `nested_scan_eq_scan`  : every `checkpoint_lengths` factorisation (any nesting depth) denotes the flat scan
* `recs_checkpoint_invariant` : with `prod(checkpoint_lengths) ≥ nsteps` the returned recordings equal the
  un-checkpointed ones (padded steps only influence rows that are cut off)
* purity: `integrateCore` is a function from its arguments to its outputs — the module state is an argument, not
  a mutable object (by type).  That the IMPLEMENTATION leaves the module untouched, and the jit / vmap halves of the
  property, are runtime behaviour exercised by the harness.
-/
import JaxleyVerif.Lemmas.Scan

namespace JaxleyVerif.Props.C06
open JaxleyVerif.Model
variable {σ ι ο : Type}

theorem nested_scan_eq_scan (f : σ → ι → σ × ο) (ls : List Nat) (hls : ls ≠ []) (s : σ) (xs : List ι)
    (h : xs.length = prodL ls) : nested f ls s xs = scan f s xs := nested_eq_scan f ls hls s xs h

/-- recordings do not depend on the checkpointing layout -/
theorem recs_checkpoint_invariant (step : σ → ι → σ) (rec0 : σ → ο) (zero : ι) (s : σ) (xs : List ι)
    (ls : List Nat) (hls : ls ≠ []) (hlen : xs.length ≤ prodL ls) :
    (integrateCore step rec0 zero s xs (some ls)).1 = (integrateCore step rec0 zero s xs none).1 := by
  simp only [integrateCore]
  rw [nested_eq_scan _ ls hls _ _ (by simp; omega), nested_eq_scan _ [xs.length] (by simp) _ _ (by simp [prodL])]
  simp only [prodL, Nat.mul_one, Nat.sub_self, List.replicate_zero, List.append_nil]
  rw [scan_append]
  simp only
  rw [List.take_append_of_le_length (by rw [scan_length]; simp)]

/-- two layouts with sufficient product give the same recordings -/
theorem recs_layout_independent (step : σ → ι → σ) (rec0 : σ → ο) (zero : ι) (s : σ) (xs : List ι)
    (l1 l2 : List Nat) (h1 : l1 ≠ []) (h2 : l2 ≠ []) (hl1 : xs.length ≤ prodL l1) (hl2 : xs.length ≤ prodL l2) :
    (integrateCore step rec0 zero s xs (some l1)).1 = (integrateCore step rec0 zero s xs (some l2)).1 := by
  rw [recs_checkpoint_invariant step rec0 zero s xs l1 h1 hl1, recs_checkpoint_invariant step rec0 zero s xs l2 h2 hl2]

/-- the number of returned columns is `nsteps + 1` (initial state + one per step) -/
theorem recs_length (step : σ → ι → σ) (rec0 : σ → ο) (zero : ι) (s : σ) (xs : List ι) :
    (integrateCore step rec0 zero s xs none).1.length = xs.length + 1 := by
  simp [integrateCore, nested, scan_length, prodL]

/-- column `k+1` of the recordings is the recorded state after `k+1` steps -/
theorem recs_are_states (step : σ → ι → σ) (rec0 : σ → ο) (s : σ) (xs : List ι) :
    (scan (body step rec0) s (xs.map (fun x => (x, false)))).2
      = (List.range xs.length).map (fun k => rec0 ((xs.take (k + 1)).foldl step s)) := by
  induction xs generalizing s with
  | nil => rfl
  | cons x xs ih =>
    simp only [List.map_cons, scan, body, List.length_cons, List.range_succ_eq_map, List.map_cons, List.map_map]
    simp only [Bool.false_eq_true, if_false, ih]
    simp [Function.comp_def]

/-- non-vacuity: 10 inputs, layout [4,4] -/
example : (integrateCore (fun (s : Nat) (x : Nat) => s + x) id 0 0 (List.range 10) (some [4, 4])).1
    = (integrateCore (fun (s : Nat) (x : Nat) => s + x) id 0 0 (List.range 10) none).1 := by decide

end JaxleyVerif.Props.C06
