/-
C14 — init_states puts every mechanism at its voltage-dependent steady state.

For every built-in channel the generated `init_state` is a fixed point of the generated `update_states`
at the same voltage and parameters, for every step `dt > 0`, wherever the rates are defined.  Statements
are value-wise (no string disequalities needed): `init_state` returns exactly the listed keys with values
`x₀…`, and any state map holding these values is mapped by `update_states` to the same list.
-/
import JaxleyVerif.Props.C03

namespace JaxleyVerif.Props.C14
open JaxleyVerif JaxleyVerif.Gen JaxleyVerif.Spec JaxleyVerif.Props.C03

/-- the steady state of a two-rate gate is a fixed point of `solve_gate_exponential` -/
theorem two_rate_fixed {a b dt : ℝ} (ha : 0 < a) (hb : 0 < b) (hdt : 0 < dt) :
    solve_gate_exponential (a / (a + b)) dt a b = a / (a + b) := by
  rw [solve_gate_exponential_closed hdt.le (by linarith)]; ring

/-- the steady state is a fixed point of `solve_inf_gate_exponential` -/
theorem inf_fixed {sinf tau dt : ℝ} (htau : 0 < tau) (hdt : 0 < dt) :
    solve_inf_gate_exponential sinf dt sinf tau = sinf := by
  rw [solve_inf_gate_exponential_closed hdt.le htau]; ring

/-- and it is the ONLY fixed point (so a wrong `init_state` is detected by one update) -/
theorem two_rate_fixed_unique {x a b dt : ℝ} (ha : 0 < a) (hb : 0 < b) (hdt : 0 < dt)
    (h : solve_gate_exponential x dt a b = x) : x = a / (a + b) := by
  rw [solve_gate_exponential_closed hdt.le (by linarith)] at h
  have he : Real.exp (-dt * (a + b)) < 1 := Real.exp_lt_one_iff.mpr (by nlinarith)
  have : (x - a / (a + b)) * (1 - Real.exp (-dt * (a + b))) = 0 := by linarith
  rcases mul_eq_zero.mp this with h1 | h1
  · linarith
  · linarith

section
variable (pfx : String) (st pr : String → ℝ) {dt dt0 v : ℝ}

theorem HH_init_fixed (hdt : 0 < dt) (hm : v ≠ -40) (hn : v ≠ -55) :
    ∃ m0 h0 n0, HH.init_state pfx st v pr dt0 = [(pfx ++ "_m", m0), (pfx ++ "_h", h0), (pfx ++ "_n", n0)] ∧
      ∀ st' : String → ℝ, st' (pfx ++ "_m") = m0 → st' (pfx ++ "_h") = h0 → st' (pfx ++ "_n") = n0 →
        HH.update_states pfx st' dt v pr = [(pfx ++ "_m", m0), (pfx ++ "_h", h0), (pfx ++ "_n", n0)] := by
  refine ⟨_, _, _, rfl, ?_⟩
  intro st' e1 e2 e3
  unfold HH.update_states
  simp only [e1, e2, e3]
  rw [two_rate_fixed (HH_m_rates_pos hm).1 (HH_m_rates_pos hm).2 hdt,
      two_rate_fixed (HH_h_rates_pos v).1 (HH_h_rates_pos v).2 hdt,
      two_rate_fixed (HH_n_rates_pos hn).1 (HH_n_rates_pos hn).2 hdt]

theorem Na_init_fixed (hdt : 0 < dt) (h13 : v ≠ pr "vt" + 13) (h40 : v ≠ pr "vt" + 40) :
    ∃ m0 h0, Na.init_state pfx st v pr dt0 = [(pfx ++ "_m", m0), (pfx ++ "_h", h0)] ∧
      ∀ st' : String → ℝ, st' (pfx ++ "_m") = m0 → st' (pfx ++ "_h") = h0 →
        Na.update_states pfx st' dt v pr = [(pfx ++ "_m", m0), (pfx ++ "_h", h0)] := by
  refine ⟨_, _, rfl, ?_⟩
  intro st' e1 e2
  unfold Na.update_states
  simp only [e1, e2]
  rw [two_rate_fixed (Na_m_rates_pos h13 h40).1 (Na_m_rates_pos h13 h40).2 hdt,
      two_rate_fixed (Na_h_rates_pos v _).1 (Na_h_rates_pos v _).2 hdt]

theorem K_init_fixed (hdt : 0 < dt) (h15 : v ≠ pr "vt" + 15) :
    ∃ n0, K.init_state pfx st v pr dt0 = [(pfx ++ "_n", n0)] ∧
      ∀ st' : String → ℝ, st' (pfx ++ "_n") = n0 → K.update_states pfx st' dt v pr = [(pfx ++ "_n", n0)] := by
  refine ⟨_, rfl, ?_⟩
  intro st' e1
  unfold K.update_states
  simp only [e1]
  rw [two_rate_fixed (K_n_rates_pos h15).1 (K_n_rates_pos h15).2 hdt]

theorem CaL_init_fixed (hdt : 0 < dt) (hq : v ≠ -27) :
    ∃ q0 r0, CaL.init_state pfx st v pr dt0 = [(pfx ++ "_q", q0), (pfx ++ "_r", r0)] ∧
      ∀ st' : String → ℝ, st' (pfx ++ "_q") = q0 → st' (pfx ++ "_r") = r0 →
        CaL.update_states pfx st' dt v pr = [(pfx ++ "_q", q0), (pfx ++ "_r", r0)] := by
  refine ⟨_, _, rfl, ?_⟩
  intro st' e1 e2
  unfold CaL.update_states
  simp only [e1, e2]
  rw [two_rate_fixed (CaL_q_rates_pos hq).1 (CaL_q_rates_pos hq).2 hdt,
      two_rate_fixed (CaL_r_rates_pos v).1 (CaL_r_rates_pos v).2 hdt]

theorem Km_init_fixed (hdt : 0 < dt) (ht : 0 < pr (pfx ++ "_taumax")) :
    ∃ p0, Km.init_state pfx st v pr dt0 = [(pfx ++ "_p", p0)] ∧
      ∀ st' : String → ℝ, st' (pfx ++ "_p") = p0 → Km.update_states pfx st' dt v pr = [(pfx ++ "_p", p0)] := by
  refine ⟨_, rfl, ?_⟩
  intro st' e1
  unfold Km.update_states
  simp only [e1]
  rw [inf_fixed (Km_p_gate_ok (v := v) ht).2.2 hdt]

theorem CaT_init_fixed (hdt : 0 < dt) :
    ∃ u0, CaT.init_state pfx st v pr dt0 = [(pfx ++ "_u", u0)] ∧
      ∀ st' : String → ℝ, st' (pfx ++ "_u") = u0 → CaT.update_states pfx st' dt v pr = [(pfx ++ "_u", u0)] := by
  refine ⟨_, rfl, ?_⟩
  intro st' e1
  unfold CaT.update_states
  simp only [e1]
  rw [inf_fixed (CaT_u_gate_ok v _).2.2 hdt]

theorem Leak_init : Leak.init_state st v pr dt0 = [] := rfl

end

/-- non-vacuity -/
example : ∃ m0 h0 n0, HH.init_state "HH" (fun _ => (0:ℝ)) (-70) (fun _ => 0) 0.025
    = [("HH_m", m0), ("HH_h", h0), ("HH_n", n0)] :=
  let ⟨m0, h0, n0, e, _⟩ := HH_init_fixed "HH" (fun _ => (0:ℝ)) (fun _ => 0) (dt := 0.025) (dt0 := 0.025) (v := -70)
    (by norm_num) (by norm_num) (by norm_num)
  ⟨m0, h0, n0, e⟩

end JaxleyVerif.Props.C14
