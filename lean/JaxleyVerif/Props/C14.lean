/-
C14 — init_states puts every mechanism at its voltage-dependent steady state.

For every built-in channel the generated `init_state` is a fixed point of the generated `update_states`
at the same voltage and parameters, for every step `dt > 0`, wherever the rates are defined.  Statements
are value-wise (no string disequalities needed): `init_state` returns exactly the listed keys with values
`x₀…`, and any state map holding these values is mapped by `update_states` to the same list.
-/
import JaxleyVerif.Props.C03
import JaxleyVerif.Lemmas.InitStates

namespace JaxleyVerif.Props.C14
open JaxleyVerif JaxleyVerif.Gen JaxleyVerif.Spec JaxleyVerif.Props.C03

/-- the steady state of a two-rate gate is a fixed point of `solve_gate_exponential` -/
theorem two_rate_fixed {a b dt : ℝ} (ha : 0 < a) (hb : 0 < b) (hdt : 0 < dt) :
    solve_gate_exponential (a / (a + b)) dt a b = a / (a + b) := by
  rw [solve_gate_exponential_closed hdt.le (by linarith)]; ring

/-- the steady state is a fixed point of `solve_inf_gate_exponential` -/
theorem inf_fixed {sinf tau dt : ℝ} (htau : 0 < tau) (hdt : 0 < dt) :
    solve_inf_gate_exponential sinf dt sinf tau = sinf := by
  rw [solve_inf_gate_exponential_closed hdt.le htau]; ring

/-- and it is the ONLY fixed point (so a wrong `init_state` is detected by one update) -/
theorem two_rate_fixed_unique {x a b dt : ℝ} (ha : 0 < a) (hb : 0 < b) (hdt : 0 < dt)
    (h : solve_gate_exponential x dt a b = x) : x = a / (a + b) := by
  rw [solve_gate_exponential_closed hdt.le (by linarith)] at h
  have he : Real.exp (-dt * (a + b)) < 1 := Real.exp_lt_one_iff.mpr (by nlinarith)
  have : (x - a / (a + b)) * (1 - Real.exp (-dt * (a + b))) = 0 := by linarith
  rcases mul_eq_zero.mp this with h1 | h1
  · linarith
  · linarith

section
variable (pfx : String) (st pr : String → ℝ) {dt dt0 v : ℝ}

theorem HH_init_fixed (hdt : 0 < dt) (hm : v ≠ -40) (hn : v ≠ -55) :
    ∃ m0 h0 n0, HH.init_state pfx st v pr dt0 = [(pfx ++ "_m", m0), (pfx ++ "_h", h0), (pfx ++ "_n", n0)] ∧
      ∀ st' : String → ℝ, st' (pfx ++ "_m") = m0 → st' (pfx ++ "_h") = h0 → st' (pfx ++ "_n") = n0 →
        HH.update_states pfx st' dt v pr = [(pfx ++ "_m", m0), (pfx ++ "_h", h0), (pfx ++ "_n", n0)] := by
  refine ⟨_, _, _, rfl, ?_⟩
  intro st' e1 e2 e3
  unfold HH.update_states
  simp only [e1, e2, e3]
  rw [two_rate_fixed (HH_m_rates_pos hm).1 (HH_m_rates_pos hm).2 hdt,
      two_rate_fixed (HH_h_rates_pos v).1 (HH_h_rates_pos v).2 hdt,
      two_rate_fixed (HH_n_rates_pos hn).1 (HH_n_rates_pos hn).2 hdt]

theorem Na_init_fixed (hdt : 0 < dt) (h13 : v ≠ pr "vt" + 13) (h40 : v ≠ pr "vt" + 40) :
    ∃ m0 h0, Na.init_state pfx st v pr dt0 = [(pfx ++ "_m", m0), (pfx ++ "_h", h0)] ∧
      ∀ st' : String → ℝ, st' (pfx ++ "_m") = m0 → st' (pfx ++ "_h") = h0 →
        Na.update_states pfx st' dt v pr = [(pfx ++ "_m", m0), (pfx ++ "_h", h0)] := by
  refine ⟨_, _, rfl, ?_⟩
  intro st' e1 e2
  unfold Na.update_states
  simp only [e1, e2]
  rw [two_rate_fixed (Na_m_rates_pos h13 h40).1 (Na_m_rates_pos h13 h40).2 hdt,
      two_rate_fixed (Na_h_rates_pos v _).1 (Na_h_rates_pos v _).2 hdt]

theorem K_init_fixed (hdt : 0 < dt) (h15 : v ≠ pr "vt" + 15) :
    ∃ n0, K.init_state pfx st v pr dt0 = [(pfx ++ "_n", n0)] ∧
      ∀ st' : String → ℝ, st' (pfx ++ "_n") = n0 → K.update_states pfx st' dt v pr = [(pfx ++ "_n", n0)] := by
  refine ⟨_, rfl, ?_⟩
  intro st' e1
  unfold K.update_states
  simp only [e1]
  rw [two_rate_fixed (K_n_rates_pos h15).1 (K_n_rates_pos h15).2 hdt]

theorem CaL_init_fixed (hdt : 0 < dt) (hq : v ≠ -27) :
    ∃ q0 r0, CaL.init_state pfx st v pr dt0 = [(pfx ++ "_q", q0), (pfx ++ "_r", r0)] ∧
      ∀ st' : String → ℝ, st' (pfx ++ "_q") = q0 → st' (pfx ++ "_r") = r0 →
        CaL.update_states pfx st' dt v pr = [(pfx ++ "_q", q0), (pfx ++ "_r", r0)] := by
  refine ⟨_, _, rfl, ?_⟩
  intro st' e1 e2
  unfold CaL.update_states
  simp only [e1, e2]
  rw [two_rate_fixed (CaL_q_rates_pos hq).1 (CaL_q_rates_pos hq).2 hdt,
      two_rate_fixed (CaL_r_rates_pos v).1 (CaL_r_rates_pos v).2 hdt]

theorem Km_init_fixed (hdt : 0 < dt) (ht : 0 < pr (pfx ++ "_taumax")) :
    ∃ p0, Km.init_state pfx st v pr dt0 = [(pfx ++ "_p", p0)] ∧
      ∀ st' : String → ℝ, st' (pfx ++ "_p") = p0 → Km.update_states pfx st' dt v pr = [(pfx ++ "_p", p0)] := by
  refine ⟨_, rfl, ?_⟩
  intro st' e1
  unfold Km.update_states
  simp only [e1]
  rw [inf_fixed (Km_p_gate_ok (v := v) ht).2.2 hdt]

theorem CaT_init_fixed (hdt : 0 < dt) :
    ∃ u0, CaT.init_state pfx st v pr dt0 = [(pfx ++ "_u", u0)] ∧
      ∀ st' : String → ℝ, st' (pfx ++ "_u") = u0 → CaT.update_states pfx st' dt v pr = [(pfx ++ "_u", u0)] := by
  refine ⟨_, rfl, ?_⟩
  intro st' e1
  unfold CaT.update_states
  simp only [e1]
  rw [inf_fixed (CaT_u_gate_ok v _).2.2 hdt]

theorem Leak_init : Leak.init_state st v pr dt0 = [] := rfl

end

/-- non-vacuity -/
example : ∃ m0 h0 n0, HH.init_state "HH" (fun _ => (0:ℝ)) (-70) (fun _ => 0) 0.025
    = [("HH_m", m0), ("HH_h", h0), ("HH_n", n0)] :=
  let ⟨m0, h0, n0, e, _⟩ := HH_init_fixed "HH" (fun _ => (0:ℝ)) (fun _ => 0) (dt := 0.025) (dt0 := 0.025) (v := -70)
    (by norm_num) (by norm_num) (by norm_num)
  ⟨m0, h0, n0, e⟩


/-! ## `Module.init_states` (model: `Model/InitStates.lean`)

The per-channel theorems above are lifted to the module: every channel reads the snapshot of the row taken before the call, writes
only the keys it returns, only in rows where it is inserted. -/

section module
open JaxleyVerif.Model.InitStates

/-- the built-in channels as `Chan ℝ` values: their `init_state` is the GENERATED kernel -/
noncomputable def chanHH (pfx : String) : Chan ℝ := ⟨pfx, fun st v pr dt => HH.init_state pfx st v pr dt⟩
noncomputable def chanNa (pfx : String) : Chan ℝ := ⟨pfx, fun st v pr dt => Na.init_state pfx st v pr dt⟩
noncomputable def chanK (pfx : String) : Chan ℝ := ⟨pfx, fun st v pr dt => K.init_state pfx st v pr dt⟩
noncomputable def chanKm (pfx : String) : Chan ℝ := ⟨pfx, fun st v pr dt => Km.init_state pfx st v pr dt⟩
noncomputable def chanCaL (pfx : String) : Chan ℝ := ⟨pfx, fun st v pr dt => CaL.init_state pfx st v pr dt⟩
noncomputable def chanCaT (pfx : String) : Chan ℝ := ⟨pfx, fun st v pr dt => CaT.init_state pfx st v pr dt⟩
noncomputable def chanLeak (pfx : String) : Chan ℝ := ⟨pfx, fun st v pr dt => Leak.init_state st v pr dt⟩

/-- no built-in `init_state` reads the states it is given: it is a function of voltage and parameters only -/
theorem builtin_init_reads_no_state (pfx : String) (s s' : String → ℝ) (v : ℝ) (p : String → ℝ) (dt : ℝ) :
    (chanHH pfx).init s v p dt = (chanHH pfx).init s' v p dt ∧ (chanNa pfx).init s v p dt = (chanNa pfx).init s' v p dt ∧
    (chanK pfx).init s v p dt = (chanK pfx).init s' v p dt ∧ (chanKm pfx).init s v p dt = (chanKm pfx).init s' v p dt ∧
    (chanCaL pfx).init s v p dt = (chanCaL pfx).init s' v p dt ∧ (chanCaT pfx).init s v p dt = (chanCaT pfx).init s' v p dt ∧
    (chanLeak pfx).init s v p dt = (chanLeak pfx).init s' v p dt :=
  ⟨rfl, rfl, rfl, rfl, rfl, rfl, rfl⟩

/-- hence `init_states` is idempotent on every module made of built-in channels (any names, any insertion order, any membership) -/
theorem module_init_states_idempotent (chans : List (Chan ℝ)) (has : String → Bool) (dt : ℝ) (r : Row ℝ)
    (hb : ∀ c ∈ chans, ∃ pfx, c = chanHH pfx ∨ c = chanNa pfx ∨ c = chanK pfx ∨ c = chanKm pfx ∨ c = chanCaL pfx ∨
        c = chanCaT pfx ∨ c = chanLeak pfx) :
    initRow chans has dt (initRow chans has dt r) = initRow chans has dt r := by
  apply initRow_idem
  intro c hc s s' v p
  obtain ⟨pfx, h⟩ := hb c hc
  rcases h with h | h | h | h | h | h | h <;> subst h <;> rfl

/-- rows without any channel, voltages and parameters are not written -/
theorem module_init_states_frame (chans : List (Chan ℝ)) (has : String → Bool) (dt : ℝ) (r : Row ℝ) :
    (initRow chans has dt r).v = r.v ∧ (initRow chans has dt r).params = r.params ∧
    ((∀ c ∈ chans, has c.name = false) → (initRow chans has dt r).states = r.states) ∧
    (∀ k, (∀ c ∈ chans, has c.name = true → k ∉ keysOf (c.init r.states r.v r.params dt)) →
        (initRow chans has dt r).states k = r.states k) :=
  ⟨rfl, rfl, initRow_no_channel chans has dt r, fun k h => initRowFrom_frame chans has dt r r.states k h⟩

theorem str_ne {p a b : String} (h : a ≠ b) : p ++ a ≠ p ++ b := fun e => h ((String.append_right_inj p).mp e)

/-- **HH after `init_states` is at its steady state**: in a row where an HH channel (any name `pfx`) is inserted and no other
inserted channel writes `pfx_m/_h/_n`, one `update_states` at the row's voltage returns exactly the values `init_states` wrote,
for every `dt > 0` (away from the removable singularities of the rate functions, known finding F4b) -/
theorem module_init_states_HH_steady (chans : List (Chan ℝ)) (has : String → Bool) (dt0 dt : ℝ) (r : Row ℝ) (pfx : String)
    (hc : chanHH pfx ∈ chans) (hhas : has pfx = true)
    (hother : ∀ c' ∈ chans, c' ≠ chanHH pfx → has c'.name = true → ∀ k ∈ [pfx ++ "_m", pfx ++ "_h", pfx ++ "_n"],
        k ∉ keysOf (c'.init r.states r.v r.params dt0))
    (hdt : 0 < dt) (hm : r.v ≠ -40) (hn : r.v ≠ -55) :
    let r' := initRow chans has dt0 r
    HH.update_states pfx r'.states dt r'.v r'.params
      = [(pfx ++ "_m", r'.states (pfx ++ "_m")), (pfx ++ "_h", r'.states (pfx ++ "_h")), (pfx ++ "_n", r'.states (pfx ++ "_n"))] := by
  intro r'
  obtain ⟨m0, h0, n0, e, hfix⟩ := HH_init_fixed pfx r.states r.params (dt := dt) (dt0 := dt0) (v := r.v) hdt hm hn
  have hnd : (keysOf ((chanHH pfx).init r.states r.v r.params dt0)).Nodup := by
    show (keysOf (HH.init_state pfx r.states r.v r.params dt0)).Nodup
    rw [e]
    have h1 : pfx ++ "_m" ≠ pfx ++ "_h" := str_ne (by decide)
    have h2 : pfx ++ "_m" ≠ pfx ++ "_n" := str_ne (by decide)
    have h3 : pfx ++ "_h" ≠ pfx ++ "_n" := str_ne (by decide)
    simp [keysOf, h1, h2, h3]
  have get : ∀ k x, (k, x) ∈ [(pfx ++ "_m", m0), (pfx ++ "_h", h0), (pfx ++ "_n", n0)] → r'.states k = x := by
    intro k x hkx
    refine initRowFrom_member chans has dt0 r r.states (chanHH pfx) hc hhas k x ?_ hnd ?_
    · show (k, x) ∈ HH.init_state pfx r.states r.v r.params dt0
      rw [e]; exact hkx
    · intro c' hc' hne hh'
      refine hother c' hc' hne hh' k ?_
      simp only [List.mem_cons, Prod.mk.injEq, List.not_mem_nil, or_false] at hkx ⊢
      rcases hkx with h | h | h
      · exact Or.inl h.1
      · exact Or.inr (Or.inl h.1)
      · exact Or.inr (Or.inr h.1)
  have em := get _ _ (List.mem_cons_self)
  have eh := get (pfx ++ "_h") h0 (by simp)
  have en := get (pfx ++ "_n") n0 (by simp)
  rw [em, eh, en]
  exact hfix r'.states em eh en

/-- non-vacuity: a row with HH and Leak inserted (default names) -/
example : let r : Row ℝ := ⟨-70, fun _ => 0, fun _ => 0⟩
    let r' := initRow [chanHH "HH", chanLeak "Leak"] (fun _ => true) 0.025 r
    HH.update_states "HH" r'.states 0.025 r'.v r'.params
      = [("HH_m", r'.states "HH_m"), ("HH_h", r'.states "HH_h"), ("HH_n", r'.states "HH_n")] := by
  intro r r'
  refine module_init_states_HH_steady [chanHH "HH", chanLeak "Leak"] (fun _ => true) 0.025 0.025 r "HH"
    List.mem_cons_self rfl ?_ (by norm_num) (by norm_num) (by norm_num)
  intro c' hc' hne _ k _
  simp only [List.mem_cons, List.not_mem_nil, or_false] at hc'
  rcases hc' with h | h
  · exact absurd h hne
  · subst h; simp [chanLeak, keysOf, Leak_init]

end module

end JaxleyVerif.Props.C14
