/-
C12 — assembly preserves constituents; uncoupled parts simulate independently; sibling order only permutes.

* `block_diagonal_independent` : in a system on `ι ⊕ κ` without cross coupling (a network without synapses: the
  voltage system is block diagonal) the restriction of the solution to `ι` solves `ι`'s own system; by uniqueness
  (C01) it IS the cell's own solution.
* `permutation_equivariant`   : re-indexing the nodes by a bijection (listing sibling branches or cells in another
  order) re-indexes the rows; the permuted solution solves the permuted system, and nothing else changes.
* `concat_preserves_rows`     : the table model — concatenating constituent node tables keeps every row and gives
  contiguous global indices.
Mechanisms act row-wise (generated `update_states`/`compute_current` take one compartment's states/parameters), so whole
simulations agree; this last step is exercised by the harness on full runs.
-/
import JaxleyVerif.Props.C01

namespace JaxleyVerif.Props.C12
open JaxleyVerif JaxleyVerif.Cable

section block
variable {ι κ : Type} [Fintype ι] [Fintype κ] [DecidableEq ι] [DecidableEq κ]

/-- weights of the disjoint union of two uncoupled systems -/
def sumW (w1 : ι → ι → ℝ) (w2 : κ → κ → ℝ) : ι ⊕ κ → ι ⊕ κ → ℝ
  | .inl i, .inl j => w1 i j
  | .inr i, .inr j => w2 i j
  | _, _ => 0

theorem row_sum_inl (w1 : ι → ι → ℝ) (w2 : κ → κ → ℝ) (σ1 : ι → ℝ) (σ2 : κ → ℝ) (x : ι ⊕ κ → ℝ) (i : ι) :
    row (sumW w1 w2) (Sum.elim σ1 σ2) x (.inl i) = row w1 σ1 (x ∘ Sum.inl) i := by
  unfold row
  simp [Fintype.sum_sum_type, sumW]

theorem row_sum_inr (w1 : ι → ι → ℝ) (w2 : κ → κ → ℝ) (σ1 : ι → ℝ) (σ2 : κ → ℝ) (x : ι ⊕ κ → ℝ) (k : κ) :
    row (sumW w1 w2) (Sum.elim σ1 σ2) x (.inr k) = row w2 σ2 (x ∘ Sum.inr) k := by
  unfold row
  simp [Fintype.sum_sum_type, sumW]

/-- a network without synapses: the part of the joint solution that belongs to a cell is that cell's own solution -/
theorem block_diagonal_independent [Nonempty ι] {w1 : ι → ι → ℝ} {w2 : κ → κ → ℝ} {σ1 : ι → ℝ} {σ2 : κ → ℝ}
    (h1 : Admissible w1 σ1) {x : ι ⊕ κ → ℝ} {b : ι ⊕ κ → ℝ} {y : ι → ℝ}
    (hx : ∀ n, row (sumW w1 w2) (Sum.elim σ1 σ2) x n = b n)
    (hy : ∀ i, row w1 σ1 y i = b (.inl i)) : x ∘ Sum.inl = y := by
  apply unique_solution h1 (b := b ∘ Sum.inl)
  · intro i; rw [← row_sum_inl w1 w2 σ1 σ2 x i]; exact hx (.inl i)
  · exact hy

end block

section perm
variable {ι : Type} [Fintype ι] [DecidableEq ι]

/-- listing the nodes in another order permutes rows and solution and changes nothing else -/
theorem permutation_equivariant (e : ι ≃ ι) (w : ι → ι → ℝ) (σ x : ι → ℝ) (i : ι) :
    row (fun a b => w (e a) (e b)) (σ ∘ e) (x ∘ e) i = row w σ x (e i) := by
  unfold row
  simp only [Function.comp]
  rw [Equiv.sum_comp e (fun j => w (e i) j), Equiv.sum_comp e (fun j => w (e i) j * x j)]

/-- hence the solution of the re-ordered system is the re-ordered solution -/
theorem permuted_solution [Nonempty ι] (e : ι ≃ ι) {w : ι → ι → ℝ} {σ : ι → ℝ}
    (h : Admissible (fun a b => w (e a) (e b)) (σ ∘ e)) {x y b : ι → ℝ}
    (hx : ∀ i, row w σ x i = b i) (hy : ∀ i, row (fun a b => w (e a) (e b)) (σ ∘ e) y i = b (e i)) :
    y = x ∘ e := by
  apply unique_solution h (b := b ∘ e) hy
  intro i; rw [permutation_equivariant]; exact hx (e i)

end perm

/-! ### table model: concatenation keeps every constituent row under contiguous indices -/

theorem concat_preserves_rows {Row : Type} (tables : List (List Row)) (k : Nat) (hk : k < tables.length)
    (i : Nat) (hi : i < tables[k].length) :
    ∃ g, g < tables.flatten.length ∧ tables.flatten[g]? = some (tables[k][i]) ∧
      g = ((tables.take k).map List.length).sum + i := by
  refine ⟨((tables.take k).map List.length).sum + i, ?_, ?_, rfl⟩
  · induction tables generalizing k with
    | nil => simp at hk
    | cons t ts ih =>
      cases k with
      | zero => simp at hi ⊢; omega
      | succ k =>
        simp only [List.take_succ_cons, List.map_cons, List.sum_cons, List.flatten_cons, List.length_append]
        have := ih k (by simpa using hk) (by simpa using hi)
        omega
  · induction tables generalizing k with
    | nil => simp at hk
    | cons t ts ih =>
      cases k with
      | zero =>
        simp only [List.take_zero, List.map_nil, List.sum_nil, Nat.zero_add, List.flatten_cons, List.getElem_cons_zero]
        simp only [List.getElem_cons_zero] at hi
        rw [List.getElem?_append_left hi, List.getElem?_eq_getElem hi]
      | succ k =>
        simp only [List.take_succ_cons, List.map_cons, List.sum_cons, List.flatten_cons, List.getElem_cons_succ]
        rw [List.getElem?_append_right (by omega)]
        have := ih k (by simpa using hk) (by simpa using hi)
        rw [show t.length + ((List.map List.length (List.take k ts)).sum) + i - t.length
              = (List.map List.length (List.take k ts)).sum + i by omega]
        exact this

end JaxleyVerif.Props.C12
